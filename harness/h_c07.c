/* h_c07.c -- C07: the real base32/64/64u/128 encoders and decoders with guard bytes */
#include "hlib.h"
#define GUARD 32

static const struct encoder *codec_of(int c)
{
	switch (c) {
	case 0: return &base32_ops;
	case 1: return &base64_ops;
	case 2: return &base64u_ops;
	case 3: return &base128_ops;
	}
	return NULL;
}

static void do_encode(char *args)
{
	int c;
	long cap;
	char *hex;
	size_t n, buflen, i;
	unsigned char *data, *buf;
	int ret, guard_ok = 1;

	c = strtol(args, &args, 10);
	cap = strtol(args, &args, 10);
	while (*args == ' ') args++;
	hex = args;
	n = unhex(hex, in);
	/* exact-size copies so that a sanitizer build sees any over-read/over-write */
	data = malloc(n ? n : 1);
	memcpy(data, in, n);
	buf = malloc(cap + 1 + GUARD);
	memset(buf, 0xAA, cap + 1 + GUARD);
	buflen = cap;
	ret = codec_of(c)->encode((char *)buf, &buflen, data, n);
	if (ret < 0 || ret > cap) {
		printf("BADRET %d\n", ret);
		free(data); free(buf);
		return;
	}
	if (buf[ret] != 0)
		guard_ok = 0;
	for (i = ret + 1; i < (size_t)cap + 1 + GUARD; i++)
		if (buf[i] != 0xAA)
			guard_ok = 0;
	printf("%d %zu ", ret, buflen);
	puthex(buf, ret);
	if (!guard_ok)
		printf(" GUARD-VIOLATED");
	putchar('\n');
	free(data);
	free(buf);
}

static void do_decode(char *args)
{
	int c;
	long cap;
	size_t n, buflen, i;
	unsigned char *str, *buf;
	int ret, guard_ok = 1;

	c = strtol(args, &args, 10);
	cap = strtol(args, &args, 10);
	while (*args == ' ') args++;
	n = unhex(args, in);
	str = malloc(n ? n : 1);
	memcpy(str, in, n);
	buf = malloc(cap + 1 + GUARD);
	memset(buf, 0xAA, cap + 1 + GUARD);
	buflen = cap;
	ret = codec_of(c)->decode(buf, &buflen, (char *)str, n);
	if (ret < 0 || ret > cap) {
		printf("BADRET %d\n", ret);
		free(str); free(buf);
		return;
	}
	if (buf[ret] != 0)
		guard_ok = 0;
	for (i = ret + 1; i < (size_t)cap + 1 + GUARD; i++)
		if (buf[i] != 0xAA)
			guard_ok = 0;
	printf("%d ", ret);
	puthex(buf, ret);
	if (!guard_ok)
		printf(" GUARD-VIOLATED");
	putchar('\n');
	free(str);
	free(buf);
}

/* R c cap hex: encode with capacity cap, then decode the result (capacity len+8) */
static void do_roundtrip(char *args, int upper)
{
	int c = 0;
	long cap;
	size_t n, buflen, dlen, i;
	unsigned char *data, *buf, *dec;
	int ret, dret, guard_ok = 1;

	if (!upper)
		c = strtol(args, &args, 10);
	cap = strtol(args, &args, 10);
	while (*args == ' ') args++;
	n = unhex(args, in);
	data = malloc(n ? n : 1);
	memcpy(data, in, n);
	buf = malloc(cap + 1 + GUARD);
	memset(buf, 0xAA, cap + 1 + GUARD);
	buflen = cap;
	ret = codec_of(c)->encode((char *)buf, &buflen, data, n);
	if (ret < 0 || ret > cap) {
		printf("BADRET %d\n", ret);
		free(data); free(buf);
		return;
	}
	if (buf[ret] != 0)
		guard_ok = 0;
	for (i = ret + 1; i < (size_t)cap + 1 + GUARD; i++)
		if (buf[i] != 0xAA)
			guard_ok = 0;
	if (upper)
		for (i = 0; i < (size_t)ret; i++)
			buf[i] = toupper(buf[i]);
	dec = malloc(n + 9 + GUARD);
	memset(dec, 0xAA, n + 9 + GUARD);
	dlen = n + 8;
	{
		/* exact-size copy of the encoded text: the decoder gets slen = ret */
		unsigned char *s2 = malloc(ret ? ret : 1);
		memcpy(s2, buf, ret);
		dret = codec_of(c)->decode(dec, &dlen, (char *)s2, ret);
		free(s2);
	}
	if (dret < 0 || dret > (long)n + 8) {
		printf("BADRET-DEC %d\n", dret);
	} else {
		if (!upper) {
			printf("%d %zu ", ret, buflen);
			puthex(buf, ret);
			printf(" | ");
		}
		printf("%d ", dret);
		puthex(dec, dret);
		if (!guard_ok)
			printf(" GUARD-VIOLATED");
		putchar('\n');
	}
	free(data); free(buf); free(dec);
}

/* CH c cap hex: the sender's chunk loop */
static void do_chunks(char *args)
{
	int c;
	long cap;
	size_t n, off = 0, total = 0, nchunks = 0;
	unsigned char *data, *buf, *dec, *acc;

	c = strtol(args, &args, 10);
	cap = strtol(args, &args, 10);
	while (*args == ' ') args++;
	n = unhex(args, in);
	data = malloc(n ? n : 1);
	memcpy(data, in, n);
	buf = malloc(cap + 1);
	dec = malloc(cap + 2);
	acc = malloc(n + cap + 16);
	while (off < n) {
		size_t buflen = cap, dlen;
		int ret = codec_of(c)->encode((char *)buf, &buflen, data + off, n - off);
		int dret;
		if (buflen == 0) {
			printf("STUCK\n");
			goto out;
		}
		dlen = ret;
		dret = codec_of(c)->decode(dec, &dlen, (char *)buf, ret);
		if (total + dret > n + cap) {
			printf("OVERLONG\n");
			goto out;
		}
		memcpy(acc + total, dec, dret);
		total += dret;
		off += buflen;
		nchunks++;
	}
	printf("%zu ", nchunks);
	puthex(acc, total);
	putchar('\n');
out:
	free(data); free(buf); free(dec); free(acc);
}

int handle_line(char *l)
{
	if (!strncmp(l, "E ", 2)) { do_encode(l + 2); return 1; }
	if (!strncmp(l, "D ", 2)) { do_decode(l + 2); return 1; }
	if (!strncmp(l, "B58 ", 4)) { printf("%d\n", b32_5to8(atoi(l + 4)) & 0xff); return 1; }
	if (!strncmp(l, "B85 ", 4)) { printf("%d\n", b32_8to5(atoi(l + 4))); return 1; }
	if (!strncmp(l, "R ", 2)) { do_roundtrip(l + 2, 0); return 1; }
	if (!strncmp(l, "RU ", 3)) { do_roundtrip(l + 3, 1); return 1; }
	if (!strncmp(l, "CH ", 3)) { do_chunks(l + 3); return 1; }
	return 0;
}

