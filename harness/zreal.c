/* zreal.c -- the real zlib behind the range contract of zcontract.h (harnesses that keep the real compression) */
#include <zlib.h>
#include "zcontract.h"

int __real_compress2(unsigned char *dest, unsigned long *destLen, const unsigned char *source, unsigned long sourceLen, int level);
int __real_uncompress(unsigned char *dest, unsigned long *destLen, const unsigned char *source, unsigned long sourceLen);
int __wrap_compress2(unsigned char *dest, unsigned long *destLen, const unsigned char *source, unsigned long sourceLen, int level);
int __wrap_uncompress(unsigned char *dest, unsigned long *destLen, const unsigned char *source, unsigned long sourceLen);

int __wrap_compress2(unsigned char *dest, unsigned long *destLen, const unsigned char *source, unsigned long sourceLen, int level)
{
	ZCONTRACT("compress2", dest, destLen, source, sourceLen);
	return __real_compress2(dest, destLen, source, sourceLen, level);
}

int __wrap_uncompress(unsigned char *dest, unsigned long *destLen, const unsigned char *source, unsigned long sourceLen)
{
	ZCONTRACT("uncompress", dest, destLen, source, sourceLen);
	return __real_uncompress(dest, destLen, source, sourceLen);
}
