/* h_c19.c -- C19: the real login_calculate (src/login.c, linked with src/md5.c) and the real
 * md5_init/md5_append/md5_finish.  Linked with -Wl,--wrap=md5_append: the wrapper records the
 * bytes login_calculate hands to MD5 (the "block") and passes everything on unchanged. */
#include "hlib.h"
#include "md5.h"
#define GUARD 32

void __real_md5_append(md5_state_t *pms, const md5_byte_t *data, int nbytes);
void __wrap_md5_append(md5_state_t *pms, const md5_byte_t *data, int nbytes);

static int cap_armed;
static int cap_len;
static unsigned char cap_buf[256];

void __wrap_md5_append(md5_state_t *pms, const md5_byte_t *data, int nbytes)
{
	if (cap_armed) {
		cap_armed = 0;
		cap_len = nbytes;
		if (nbytes > 0)
			memcpy(cap_buf, data, nbytes > (int)sizeof(cap_buf) ? (int)sizeof(cap_buf) : nbytes);
	}
	__real_md5_append(pms, data, nbytes);
}

/* L buflen passhex seed -- the password lives in a zero-initialised buffer of 33 bytes (as
 * iodine.c / iodined.c hold it) or len+1 bytes when it is longer; seed is the unsigned 32-bit
 * pattern of the C int */
static void do_login(char *args)
{
	long buflen;
	size_t n, psize, i;
	unsigned char *pass, *out;
	char *sp;
	int seed, guard_ok = 1;

	buflen = strtol(args, &args, 10);
	while (*args == ' ') args++;
	n = unhex(args, in);
	sp = strchr(args, ' ');
	if (!sp) {
		printf("BADCASE\n");
		return;
	}
	seed = (int)(uint32_t)strtoul(sp + 1, NULL, 10);
	psize = n + 1 < 33 ? 33 : n + 1;
	pass = calloc(1, psize);
	memcpy(pass, in, n);
	out = malloc(buflen + GUARD);
	memset(out, 0xAA, buflen + GUARD);
	cap_armed = 1;
	cap_len = -1;
	login_calculate((char *)out, (int)buflen, (const char *)pass, seed);
	cap_armed = 0;
	if (buflen < 16) {
		for (i = 0; i < (size_t)buflen + GUARD; i++)
			if (out[i] != 0xAA)
				guard_ok = 0;
		printf(guard_ok ? "UNTOUCHED\n" : "TOUCHED-SHORT-BUFFER\n");
	} else {
		for (i = 16; i < (size_t)buflen + GUARD; i++)
			if (out[i] != 0xAA)
				guard_ok = 0;
		puthex(out, 16);
		putchar(' ');
		if (cap_len < 0)
			printf("NO-MD5-APPEND");
		else
			puthex(cap_buf, cap_len > (int)sizeof(cap_buf) ? sizeof(cap_buf) : (size_t)cap_len);
		if (!guard_ok)
			printf(" GUARD-VIOLATED");
		putchar('\n');
	}
	free(pass);
	free(out);
}

/* M msghex / M2 k msghex -- the real MD5 on a whole message / appended in two pieces */
static void do_md5(char *args, int split)
{
	md5_state_t ctx;
	unsigned char dig[16];
	unsigned char *msg;
	size_t n, k = 0;

	if (split) {
		k = strtol(args, &args, 10);
		while (*args == ' ') args++;
	}
	n = unhex(args, in);
	msg = malloc(n ? n : 1);
	memcpy(msg, in, n);
	if (k > n)
		k = n;
	md5_init(&ctx);
	if (split) {
		md5_append(&ctx, msg, (int)k);
		md5_append(&ctx, msg + k, (int)(n - k));
	} else {
		md5_append(&ctx, msg, (int)n);
	}
	md5_finish(&ctx, dig);
	puthex(dig, 16);
	putchar('\n');
	free(msg);
}

int handle_line(char *l)
{
	if (!strncmp(l, "L ", 2)) { do_login(l + 2); return 1; }
	if (!strncmp(l, "M ", 2)) { do_md5(l + 2, 0); return 1; }
	if (!strncmp(l, "M2 ", 3)) { do_md5(l + 3, 1); return 1; }
	return 0;
}
