/* h_c17srv.c -- the command line of the real server: main() of src/iodined.c, see h_mainargs.inc.  The run ends when
 * main() calls open_tun(); the configuration it has put into the file-scope variables by then is reported. */
#include "hlib.h"
#define main iodined_main
#include "iodined.c"	/* found through -I <snapshot>/src */
#undef main
#define MAIN_FN iodined_main
#define MAIN_NAME "iodined"
#define MAIN_PASS_ENV PASSWORD_ENV_VAR
#include "h_mainargs.inc"

static void ma_reached_tun(void) { }

static void ma_details(void)
{
	printf("server users=%d netmask=%d topdomain=", created_users, netmask);
	puthex((unsigned char *)topdomain, strlen(topdomain));
	printf(" password=");
	puthex((unsigned char *)password, 33);
	printf(" myip=%08x check_ip=%d bind_port=%d ns_ip=%08x", (unsigned)ntohl(my_ip), check_ip, bind_port, (unsigned)ntohl(ns_ip));
}
