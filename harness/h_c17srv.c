/* h_c17srv.c -- the command line of the real server: main() of src/iodined.c, see h_mainargs.inc */
#include "hlib.h"
#define main iodined_main
#include "iodined.c"	/* found through -I <snapshot>/src */
#undef main
#define MAIN_FN iodined_main
#define MAIN_NAME "iodined"
#include "h_mainargs.inc"

static void ma_details(void)
{
	printf("server users=%d netmask=%d", created_users, netmask);
}
