/* wire_cases.c -- case handlers of the "wire" harness, shared by C08/C09/C10 (and the
 * low-level checks): the real client builders -> query datagram -> real server decode; the real
 * server answer construction -> datagram -> real client decode; direct decode of arbitrary
 * datagrams; NS / A auxiliary answers through the real tunnel_dns. */
#include "wire.h"

static unsigned char data[MAXLINE / 2];
static char outbuf[65536 + 16];
static char unpacked[65536 + 16];

static char *next_tok(char **p)
{
	char *s = *p, *e;
	while (*s == ' ') s++;
	if (!*s) return NULL;
	e = s;
	while (*e && *e != ' ') e++;
	if (*e) { *e = 0; e++; }
	*p = e;
	return s;
}

static const struct encoder *codec_of(int c)
{
	switch (c) {
	case 0: return &base32_ops;
	case 1: return &base64_ops;
	case 2: return &base64u_ops;
	default: return &base128_ops;
	}
}
static void print_decode(int buflen, int residue)
{
	struct query q;
	int rv;
	memset(&q, 0, sizeof(q));
	q.id = 0;
	q.name[0] = 0;
	q.type = 0xfffe;
	inj_residue = residue;
	memset(outbuf, 0x5a, sizeof(outbuf));
	rv = cli_read_dns_withq(outbuf, buflen, &q);
	printf("%d ", rv);
	putsum((unsigned char *)outbuf, rv > 0 ? rv : 0);
	printf(" %u %u %u", q.id, (unsigned char)q.name[0], q.type);
	if (rv > 0 && rv <= buflen && (unsigned char)outbuf[buflen] != 0x5a)
		printf(" GUARD-VIOLATED");
}


/* K codec L edns0 clidomain srvdomain kind a1 a2 a3 a4 a5 datahex
 * kind: 0 chunk (a1 uid a2 oseq a3 ofrag a4 iseq a5 ifrag), 1 packet (a1 cmd char),
 *       2 probe (a1 uid, a2 fragsize, a3 rand_seed),
 *       3 handshake query (a1: 0 version 1 login 2 ping 3 set-fragsize 4 ip-request 5 upenctest
 *         6 downenctest 7 codec switch 8 downenc switch 9 lazy switch; a2 uid; a3 arg; a4 rand_seed) */
static void do_k(char *p)
{
	int codec, L, edns, kind, a[5], i, hdr = 1, dl, n, consumed = -1;
	char clid[300], srvd[300];
	size_t dlen;
	struct query q;
	const struct encoder *enc = &base32_ops;

	codec = atoi(next_tok(&p));
	L = atoi(next_tok(&p));
	edns = atoi(next_tok(&p));
	n = unhex(next_tok(&p), in); memcpy(clid, in, n); clid[n] = 0;
	n = unhex(next_tok(&p), in); memcpy(srvd, in, n); srvd[n] = 0;
	kind = atoi(next_tok(&p));
	for (i = 0; i < 5; i++)
		a[i] = atoi(next_tok(&p));
	dlen = unhex(next_tok(&p), data);

	cli_init(clid, kind == 0 || kind == 2 ? a[0] : (kind == 3 ? a[1] : 0), codec, L, 10 /* T_NULL */, 'T', 0, 1);
	cli_set_edns0(edns);
	cli_set_chunkid(1000);
	cap_reset();
	if (kind == 0) {
		cli_send_chunk_raw(data, dlen, 0, a[1], a[2], a[3], a[4]);
		consumed = cli_sentlen();
		hdr = 5;
		enc = codec_of(codec);
	} else if (kind == 1) {
		cli_send_packet((char)a[0], data, dlen);
		hdr = 1;
		enc = &base32_ops;
	} else if (kind == 2) {
		cli_set_rand_seed(a[2]);
		cli_send_fragsize_probe(a[1]);
		hdr = 5;
		enc = codec_of(codec);
	} else {
		char pre[8];
		cli_set_rand_seed(a[3]);
		hdr = 1;
		switch (a[0]) {
		case 0: cli_send_version(a[2]); break;
		case 1: cli_send_login(data, dlen); break;
		case 2: cli_send_ping(); break;
		case 3: cli_send_set_fragsize(a[2]); break;
		case 4: pre[0] = 'i'; pre[1] = b32_5to8(a[1]); pre[2] = 0; cli_send_handshake_query(pre); hdr = 0; break;
		case 5: data[dlen] = 0; cli_send_upenctest((char *)data); hdr = 0; break;
		case 6: cli_send_downenctest((char)a[2], 1); hdr = 0; break;
		case 7: pre[0] = 's'; pre[1] = b32_5to8(a[1]); pre[2] = b32_5to8(a[2]); pre[3] = 0; cli_send_handshake_query(pre); hdr = 0; break;
		case 8: pre[0] = 'o'; pre[1] = b32_5to8(a[1]); pre[2] = tolower(a[2]); pre[3] = 0; cli_send_handshake_query(pre); hdr = 0; break;
		default: cli_send_lazy_switch(); hdr = 0; break;
		}
	}
	if (cap_count != 1) {
		printf("NOSEND %d\n", cap_count);
		return;
	}
	/* the datagram itself (for the independent parser) */
	puthex(cap[0].data, cap[0].len);
	printf(" | %d | ", consumed);
	/* server side */
	memset(&q, 0, sizeof(q));
	inj_set(cap[0].data, cap[0].len);
	inj_residue = 3;
	n = srv_read_dns(&q);
	if (n <= 0) {
		printf("SRVDROP\n");
		return;
	}
	dl = query_datalen(q.name, srvd);
	printf("%u %u %d ", q.id, q.type, dl);
	if (hdr > 0 && dl >= hdr) {
		char inb[512];
		int r;
		memcpy(inb, q.name, dl);
		memset(unpacked, 0x5a, sizeof(unpacked));
		r = unpack_data(unpacked, 65536, inb + hdr, dl - hdr, enc);
		putsum((unsigned char *)unpacked, r);
	} else
		printf("-");
	putchar('\n');
}

/* N qtype id destfam dest4hex nsip4hex qnamehex : a query through the real tunnel_dns (NS, A for
 * ns./www., anything else); prints every datagram the server emits.  destfam 0: no destination
 * address known, 4: IPv4 destination dest4hex, 6: IPv6 destination (16 bytes: the query came in on the IPv6 socket); nsip4hex "-": -n not given. */
static void do_n(char *p)
{
	struct query q;
	static char pkt[4096];
	int qtype = atoi(next_tok(&p));
	int id = atoi(next_tok(&p));
	int fam = atoi(next_tok(&p));
	char *dest = next_tok(&p);
	char *nsip = next_tok(&p);
	char *qn = next_tok(&p);
	int len, i;
	size_t n;
	unsigned char ip[16];

	memset(&q, 0, sizeof(q));
	n = unhex(qn, in);
	if (n > 255) n = 255;
	memcpy(q.name, in, n);
	q.name[n] = 0;
	q.type = qtype;
	q.id = id;
	len = dns_encode(pkt, sizeof(pkt), &q, QR_QUERY, q.name, strlen(q.name));
	inj_set((unsigned char *)pkt, len);
	inj_residue = 3;
	inj_dest_family = 0;
	if (fam == 4 && unhex(dest, ip) == 4) {
		inj_dest_family = 4;
		memcpy(inj_dest4, ip, 4);
	}
	if (fam == 6 && unhex(dest, ip) == 16) {
		inj_dest_family = 6;
		memcpy(inj_dest6, ip, 16);
	}
	if (nsip[0] != '-' && unhex(nsip, ip) == 4)
		srv_set_ns_ip(ip);
	else
		srv_set_ns_ip(NULL);
	cap_reset();
	srv_tunnel_dns();
	inj_dest_family = 0;
	printf("%d", cap_count);
	for (i = 0; i < cap_count; i++) {
		putchar(' ');
		puthex(cap[i].data, cap[i].len);
	}
	putchar('\n');
}

int handle_line(char *l)
{
	static int inited;
	char *p = l, *t;
	if (!inited) {
		srv_init("t.example.com", "secret", 1, "10.0.0.1", 27, 1130);
		cli_init("t.example.com", 0, 0, 255, 10, 'T', 0, 1);
		inited = 1;
	}
	t = next_tok(&p);
	if (!strcmp(t, "K")) {
		do_k(p);
		return 1;
	}
	if (!strcmp(t, "N")) {
		do_n(p);
		return 1;
	}
	if (!strcmp(t, "W")) {
		/* W qtype downenc id buflen qnamehex datahex */
		struct query q;
		int qtype = atoi(next_tok(&p));
		int denc = atoi(next_tok(&p));
		int id = atoi(next_tok(&p));
		int buflen = atoi(next_tok(&p));
		char *qn = next_tok(&p);
		char *dh = next_tok(&p);
		size_t nlen, dlen;
		memset(&q, 0, sizeof(q));
		nlen = unhex(qn, in);
		if (nlen > 255) nlen = 255;
		memcpy(q.name, in, nlen);
		q.name[nlen] = 0;
		q.type = qtype;
		q.id = id;
		q.fromlen = sizeof(struct sockaddr_in);
		dlen = unhex(dh, data);
		cap_reset();
		srv_write_dns(&q, (char *)data, dlen, (char)denc);
		if (cap_count != 1) {
			printf("NOSEND %d\n", cap_count);
			return 1;
		}
		putsum(cap[0].data, cap[0].len);
		printf(" | ");
		inj_set(cap[0].data, cap[0].len);
		print_decode(buflen, 2);
		putchar('\n');
		return 1;
	}
	if (!strcmp(t, "A")) {
		/* A buflen residue dgramhex : client-side decode of an arbitrary datagram */
		int buflen = atoi(next_tok(&p));
		int residue = atoi(next_tok(&p));
		size_t n = unhex(next_tok(&p), in);
		inj_set(in, n);
		print_decode(buflen, residue);
		putchar('\n');
		return 1;
	}
	if (!strcmp(t, "Q")) {
		/* Q residue dgramhex : server-side dns_decode(QUERY) through read_dns */
		struct query q;
		int residue = atoi(next_tok(&p));
		size_t n = unhex(next_tok(&p), in);
		int rv;
		memset(&q, 0, sizeof(q));
		inj_set(in, n);
		inj_residue = residue;
		rv = srv_read_dns(&q);
		printf("%d ", rv);
		if (rv > 0) {
			puthex((unsigned char *)q.name, strlen(q.name));
			printf(" %u %u", q.type, q.id);
		} else
			printf("-");
		putchar('\n');
		return 1;
	}
	if (!strcmp(t, "E")) {
		/* E qtype id edns0 namehex : (C10) the client's query encoder exactly as send_query calls
		 * it (4096-byte packet, hostname, strlen) for an arbitrary name / type / id; prints the
		 * datagram */
		struct query q;
		static char pkt[4096];
		static char host[4200];
		int qtype = atoi(next_tok(&p));
		int id = atoi(next_tok(&p));
		int edns = atoi(next_tok(&p));
		size_t n = unhex(next_tok(&p), in);
		int len, save = dnsc_use_edns0;
		if (n > 4100) n = 4100;
		memcpy(host, in, n);
		host[n] = 0;
		memset(&q, 0, sizeof(q));
		q.type = qtype;
		q.id = id;
		dnsc_use_edns0 = edns;
		len = dns_encode(pkt, sizeof(pkt), &q, QR_QUERY, host, strlen(host));
		dnsc_use_edns0 = save;
		if (len < 1)
			printf("NOSEND 0");
		else
			puthex((unsigned char *)pkt, len);
		putchar('\n');
		return 1;
	}
	return 0;
}
