/* h_c13_tun.c -- C13: the snapshot's tun.c as a translation unit of the harness, so that the
 * file-static interface name can be given a fixed LOCAL value.  Nothing of tun.c is changed;
 * system() is intercepted at link time (--wrap=system, see h_c13.c). */
#include "tun.c"	/* found through -I <snapshot>/src */

void c13_set_ifname(const char *s);
void c13_set_ifname(const char *s)
{
	/* same as open_tun(): strncpy + forced terminator */
	strncpy(if_name, s, sizeof(if_name));
	if_name[sizeof(if_name) - 1] = '\0';
}
