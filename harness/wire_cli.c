/* wire_cli.c -- the real client (client.c of the snapshot) as a translation unit, with thin
 * exported entry points to its static functions and state. */
#include "wire.h"

#include "client.c"	/* found through -I <snapshot>/src */

static char cli_topdomain_buf[300];

void cli_init(const char *topdom, int uid, int codec, int maxlen, int qtype, char downenc_c, int lazy, int connmode)
{
	struct sockaddr_in *a = (struct sockaddr_in *)&nameserv;
	client_init();
	strncpy(cli_topdomain_buf, topdom, sizeof(cli_topdomain_buf) - 1);
	client_set_topdomain(cli_topdomain_buf);	/* the client's own setter, as iodine.c calls it */
	userid = uid;
	userid_char = "0123456789abcdef"[uid & 15];
	userid_char2 = "0123456789ABCDEF"[uid & 15];
	switch (codec) {
	case 0: dataenc = &base32_ops; break;
	case 1: dataenc = &base64_ops; break;
	case 2: dataenc = &base64u_ops; break;
	default: dataenc = &base128_ops; break;
	}
	hostname_maxlen = maxlen;
	do_qtype = qtype;
	downenc = downenc_c;
	lazymode = lazy;
	conn = connmode ? CONN_DNS_NULL : CONN_RAW_UDP;
	memset(&nameserv, 0, sizeof(nameserv));
	a->sin_family = AF_INET;
	a->sin_port = htons(53);
	a->sin_addr.s_addr = inet_addr("192.0.2.53");
	nameserv_len = sizeof(struct sockaddr_in);
	send_query_sendcnt = -1;
	selecttimeout = 4;
}

int cli_read_dns_withq(char *buf, int buflen, struct query *q)
{
	return read_dns_withq(20, 21, buf, buflen, q);
}

void cli_send_chunk_raw(const unsigned char *data, int len, int offset, int out_seq, int out_frag, int in_seq, int in_frag)
{
	memcpy(outpkt.data, data, len);
	outpkt.len = len;
	outpkt.offset = offset;
	outpkt.sentlen = 0;
	outpkt.seqno = out_seq;
	outpkt.fragment = out_frag;
	inpkt.seqno = in_seq;
	inpkt.fragment = in_frag;
	send_chunk(20);
}

int cli_sentlen(void)
{
	return outpkt.sentlen;
}

void cli_send_packet(char cmd, const unsigned char *data, int len)
{
	send_packet(20, cmd, (const char *)data, len);
}

void cli_send_fragsize_probe(int fragsize)
{
	send_fragsize_probe(20, fragsize);
}

void cli_send_ping(void)
{
	send_ping(20);
}

void cli_send_version(unsigned version)
{
	send_version(20, version);
}

void cli_send_login(const unsigned char *login, int len)
{
	send_login(20, (char *)login, len);
}

void cli_send_set_fragsize(int fragsize)
{
	send_set_downstream_fragsize(20, fragsize);
}

void cli_send_handshake_query(const char *prefix)
{
	char p[128];
	strncpy(p, prefix, sizeof(p) - 1);
	p[sizeof(p) - 1] = 0;
	send_handshake_query(20, p);
}

void cli_send_upenctest(const char *str)
{
	send_upenctest(20, str);
}

void cli_send_downenctest(char c, int variant)
{
	send_downenctest(20, c, variant);
}

void cli_send_lazy_switch(void)
{
	send_lazy_switch(20);
}

void cli_set_chunkid(unsigned short id)
{
	chunkid = id;
}

unsigned short cli_chunkid(void)
{
	return chunkid;
}

void cli_set_rand_seed(unsigned short s)
{
	rand_seed = s;
}

void cli_set_edns0(int on)
{
	dnsc_use_edns0 = on;
}

/* ---- entry points for client histories (h_clihist.c) ---- */
void cli_setup_tunnel(int selecttimeout_v, unsigned short chunkid_v, unsigned short seed_v, long now)
{
	selecttimeout = selecttimeout_v;
	chunkid = chunkid_v;
	chunkid_prev = 0;
	chunkid_prev2 = 0;
	rand_seed = seed_v;
	lastdownstreamtime = now;
	send_query_sendcnt = 0;
	send_query_recvcnt = 0;
	send_ping_soon = 1;
	running = 1;
	outchunkresent = 0;
	/* client_init() leaves these from the previous history of this process */
	outpkt.sentlen = 0;
	outpkt.offset = 0;
	memset(&raw_serv, 0, sizeof(raw_serv));
	((struct sockaddr_in *)&raw_serv)->sin_family = AF_INET;
	((struct sockaddr_in *)&raw_serv)->sin_port = htons(53);
	((struct sockaddr_in *)&raw_serv)->sin_addr.s_addr = inet_addr("192.0.2.99");
	raw_serv_len = sizeof(struct sockaddr_in);
}

int cli_tunnel_tun(void) { return tunnel_tun(21, 20); }
int cli_tunnel_dns(void) { return tunnel_dns(21, 20); }

void cli_watchdog(void)
{
	if (lastdownstreamtime + 60 < time(NULL))
		running = 0;
}

int cli_running(void) { return running; }
int cli_reads_tun(void) { return !is_sending() || outchunkresent >= 2; }

/* the i == 0 (timeout) branch of client_tunnel()'s select loop */
void cli_timeout(void)
{
	if (is_sending()) {
		if (outchunkresent < 3) {
			outchunkresent++;
			send_chunk(20);
		} else {
			outpkt.offset = 0;
			outpkt.len = 0;
			outpkt.sentlen = 0;
			outchunkresent = 0;
			send_ping(20);
		}
	} else {
		send_ping(20);
	}
	send_ping_soon = 0;
}

struct cli_view {
	int out_len, out_sentlen, out_offset, out_seqno, out_fragment;
	int in_len, in_seqno, in_fragment;
	int resent, chunkid, prev, prev2;
	long ping_soon, lastdown, sendcnt, recvcnt;
	int lazy, selecttimeout, rand_seed, running, dns;
	const unsigned char *out_data, *in_data;
};

void cli_view(struct cli_view *v)
{
	v->out_len = outpkt.len; v->out_sentlen = outpkt.sentlen; v->out_offset = outpkt.offset;
	v->out_seqno = outpkt.seqno; v->out_fragment = outpkt.fragment;
	v->in_len = inpkt.len; v->in_seqno = inpkt.seqno; v->in_fragment = inpkt.fragment;
	v->resent = outchunkresent; v->chunkid = chunkid; v->prev = chunkid_prev; v->prev2 = chunkid_prev2;
	v->ping_soon = send_ping_soon; v->lastdown = (long)lastdownstreamtime;
	v->sendcnt = send_query_sendcnt; v->recvcnt = send_query_recvcnt;
	v->lazy = lazymode; v->selecttimeout = selecttimeout; v->rand_seed = rand_seed; v->running = running;
	v->dns = (conn == CONN_DNS_NULL);
	v->out_data = (const unsigned char *)outpkt.data; v->in_data = (const unsigned char *)inpkt.data;
}

/* ---- entry points for the handshake harness (h_handshake.c) ---- */
void cli_prepare_handshake(const char *topdom, const char *pass, int qtype, char downenc_c, int lazy, int maxlen)
{
	struct sockaddr_in *a = (struct sockaddr_in *)&nameserv;
	client_init();
	strncpy(cli_topdomain_buf, topdom, sizeof(cli_topdomain_buf) - 1);
	client_set_topdomain(cli_topdomain_buf);	/* the client's own setter, as iodine.c calls it */
	{
		/* iodine.c keeps the password in a zero-filled 33-byte buffer */
		static char pwbuf[33];
		memset(pwbuf, 0, sizeof(pwbuf));
		strncpy(pwbuf, pass, 32);
		client_set_password(pwbuf);
	}
	do_qtype = qtype ? qtype : T_UNSET;
	downenc = downenc_c;
	dataenc = &base32_ops;
	lazymode = lazy;
	hostname_maxlen = maxlen;
	selecttimeout = 4;
	conn = CONN_DNS_NULL;
	userid = 0;
	userid_char = '0';
	userid_char2 = '0';
	memset(&nameserv, 0, sizeof(nameserv));
	a->sin_family = AF_INET;
	a->sin_port = htons(53);
	a->sin_addr.s_addr = inet_addr("192.0.2.53");
	nameserv_len = sizeof(struct sockaddr_in);
	send_query_sendcnt = -1;
	send_query_recvcnt = 0;
	outpkt.sentlen = 0;
	outpkt.offset = 0;
}

void cli_report(char *buf, size_t n)
{
	snprintf(buf, n, "qtype=%d up=%s down=%c lazy=%d conn=%d st=%d edns=%d uid=%d", do_qtype, dataenc->name,
		 downenc == ' ' ? '_' : downenc, lazymode, conn == CONN_DNS_NULL, selecttimeout, dnsc_use_edns0, userid);
}

void cli_start_tunnel(void)
{
	lastdownstreamtime = time(NULL);
	send_query_sendcnt = 0;
	running = 1;
}

int cli_userid(void)
{
	return userid;
}
