/* wire.h -- shared declarations of the "wire" harness: the real iodined.c and client.c are
 * compiled as two translation units (wire_srv.c, wire_cli.c) that #include the snapshot's
 * sources to reach their static functions; sockets are replaced by link-time wrappers
 * (wire_net.c) that capture every sendto() and inject datagrams into recvfrom()/recvmsg(). */
#ifndef WIRE_H
#define WIRE_H
#include "hlib.h"
#include <sys/select.h>

#define CAPMAX 64
struct capture {
	int fd;
	int len;
	unsigned char data[65536];
	struct sockaddr_storage to;
	socklen_t tolen;
};
extern struct capture cap[CAPMAX];
extern int cap_count;			/* datagrams captured since cap_reset() */
void cap_reset(void);
extern void (*wire_sendto_hook)(int fd, const void *buf, size_t len, const struct sockaddr *to, socklen_t tolen);
extern int (*wire_select_hook)(int nfds, fd_set *rfds, struct timeval *tv);

/* datagram injected into the next recvfrom()/recvmsg(); residue fills the rest of the buffer */
extern unsigned char inj_data[65536];
extern int inj_len;
extern struct sockaddr_storage inj_from;
extern socklen_t inj_fromlen;
extern int inj_dest_family;		/* 4: recvmsg() reports inj_dest4 as the IPv4 destination address */
extern unsigned char inj_dest4[4];
extern unsigned char inj_dest6[16];	/* inj_dest_family 6: the IPv6 destination address recvmsg() reports */
extern int inj_residue;			/* -1: leave the caller's buffer alone; else fill byte pattern id */
void inj_set(const unsigned char *d, int len);
void residue_fill(unsigned char *buf, size_t cap, int pattern);

/* tun device */
extern unsigned char tun_written[16][65536];
extern int tun_written_len[16];
extern int tun_written_count;
extern unsigned char tun_in[65536];
extern int tun_in_len;

/* system() */
extern char sys_cmds[8][1024];
extern int sys_count;
extern int sys_ret;

/* ---- server translation unit (wire_srv.c) ---- */
void srv_init(const char *topdom, const char *pass, int checkip, const char *myip, int netbits, int mtu);
void srv_write_dns(struct query *q, const char *data, int datalen, char downenc);
int srv_read_dns(struct query *q);		/* read_dns(fd...) on the injected datagram */
void srv_tunnel_dns(void);			/* tunnel_dns on the injected datagram */
void srv_tunnel_tun(void);
void srv_set_ns_ip(const unsigned char *ip4);	/* NULL: INADDR_ANY */
void srv_set_bind_port(int port);
void srv_sweep(void);
void srv_sweep_clear(void);
void srv_sweep_send(void);				/* the send-real-soon sweep of tunnel() */
void srv_handle_null_request(struct query *q, int domain_len);
const char *srv_topdomain(void);
struct tun_user *srv_user(int i);

/* ---- client translation unit (wire_cli.c) ---- */
void cli_init(const char *topdom, int uid, int codec, int maxlen, int qtype, char downenc_c, int lazy, int connmode);
int cli_read_dns_withq(char *buf, int buflen, struct query *q);
void cli_send_chunk_raw(const unsigned char *data, int len, int offset, int out_seq, int out_frag, int in_seq, int in_frag);
void cli_send_packet(char cmd, const unsigned char *data, int len);
void cli_send_fragsize_probe(int fragsize);
void cli_send_ping(void);
void cli_send_version(unsigned version);
void cli_send_login(const unsigned char *login, int len);
void cli_send_set_fragsize(int fragsize);
void cli_send_handshake_query(const char *prefix);
void cli_send_upenctest(const char *str);
void cli_send_downenctest(char c, int variant);
void cli_send_lazy_switch(void);
int cli_sentlen(void);
void cli_set_chunkid(unsigned short id);
unsigned short cli_chunkid(void);
void cli_set_rand_seed(unsigned short s);
void cli_set_edns0(int on);
#endif
