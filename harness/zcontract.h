/* zcontract.h -- the byte ranges handed to zlib must lie inside the caller's buffers.
 *
 * zlib reads up to sourceLen bytes and writes up to *destLen bytes; a call that licenses more than the
 * buffer holds is an out-of-bounds access even when the stream happens to end early.  In the sanitizer
 * build the ranges are checked against ASan's shadow (and the first bad byte is touched, so that the
 * ordinary ASan report with the caller's stack appears); in the plain build anything beyond 64 KiB, the
 * size of every packet buffer of iodine, is refused. */
#ifndef ZCONTRACT_H
#define ZCONTRACT_H
#include <stdio.h>
#include <stdlib.h>
#if defined(__SANITIZE_ADDRESS__)
#include <sanitizer/asan_interface.h>
#endif

static void zcontract_range(const char *fn, const char *what, const void *p, unsigned long n)
{
	const volatile char *bad = NULL;
	if (n == 0)
		return;
#if defined(__SANITIZE_ADDRESS__)
	if (n > (1UL << 30))
		bad = (const volatile char *) p + 65536;
	else
		bad = (const volatile char *) __asan_region_is_poisoned((void *) p, n);
	if (bad == NULL)
		return;
	fflush(stdout);
	fprintf(stderr, "zlib-contract: %s %s range of %lu bytes is not inside the caller's buffer\n", fn, what, n);
	(void) *bad;			/* the ASan report, with the stack of the caller */
#else
	if (n <= 65536UL)
		return;
	(void) bad;
	fflush(stdout);
	fprintf(stderr, "zlib-contract: %s %s range of %lu bytes is not inside the caller's buffer\n", fn, what, n);
#endif
	abort();
}

#define ZCONTRACT(fn, dest, destLen, source, sourceLen) do { \
	zcontract_range(fn, "source", source, sourceLen); \
	zcontract_range(fn, "dest", dest, *(destLen)); } while (0)
#endif
