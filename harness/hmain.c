#include "hlib.h"

size_t unhex(const char *h, unsigned char *out)
{
	size_t n = 0;
	if (h[0] == '-')
		return 0;
	while (isxdigit((unsigned char)h[0]) && isxdigit((unsigned char)h[1])) {
		unsigned v;
		sscanf(h, "%2x", &v);
		out[n++] = v;
		h += 2;
	}
	return n;
}

void puthex(const unsigned char *b, size_t n)
{
	size_t i;
	if (n == 0) {
		putchar('-');
		return;
	}
	for (i = 0; i < n; i++)
		printf("%02x", b[i]);
}

/* long byte strings are summarised (length, FNV-1a 32 hash, first bytes) unless VERIF_FULL=1 */
void putsum(const unsigned char *b, size_t n)
{
	static int full = -1;
	unsigned int h = 2166136261u;
	size_t i;
	if (full < 0)
		full = getenv("VERIF_FULL") != NULL;
	if (full || n <= 48) {
		puthex(b, n);
		return;
	}
	for (i = 0; i < n; i++) {
		h ^= b[i];
		h *= 16777619u;
	}
	printf("L%zu:%08x:", n, h);
	puthex(b, 8);
}

/* virtual clock used by wrapped time() when linked with --wrap=time */
time_t verif_now = 1000000;
time_t __wrap_time(time_t *t);
time_t __wrap_time(time_t *t)
{
	if (t)
		*t = verif_now;
	return verif_now;
}

static char line[MAXLINE];
unsigned char in[MAXLINE / 2];

int main(int argc, char **argv)
{
	FILE *f = argc > 1 ? fopen(argv[1], "r") : stdin;
	if (!f) {
		perror("cases");
		return 2;
	}
	while (fgets(line, sizeof(line), f)) {
		size_t l = strlen(line);
		while (l && (line[l - 1] == '\n' || line[l - 1] == '\r'))
			line[--l] = 0;
		if (!l || line[0] == '#')
			continue;
		if (!handle_line(line))
			printf("UNKNOWN-CASE\n");
		fflush(stdout);
	}
	return 0;
}
