/* h_c13.c -- C13: peer-supplied text never reaches a shell.
 *
 * The snapshot's client.c is included as a translation unit so that the real static
 * handshake_login() runs: it sends its login query (send_login -> send_query -> sendto), the
 * harness decodes that query as the server does (dns_decode QR_QUERY), lets the REAL server
 * encoder (iodined.c write_dns, h_c13_srv.c) put the chosen reply payload on the wire for the
 * chosen query type / downstream encoding, and feeds the datagram back through
 * select/recvfrom -> handshake_waitdns -> read_dns_withq -> dns_decode/dns_namedec ->
 * sscanf -> tun_setip -> tun_setmtu.  system() is intercepted (--wrap=system): its argument
 * is recorded, its return value is chosen by the case.  errx() is intercepted to come back.
 *
 * Cases (tokens separated by one space; <..hex> = hex bytes, '-' = empty):
 *   L <ifhex> <qtype> <downenc> <sysok> <reply>...   reply = hex payload | T (no answer)
 *   IP <ifhex> <netbits> <iphex> <otherhex>          tun_setip(ip, other, netbits) directly
 *   MTU <ifhex> <int>                                 tun_setmtu((unsigned) int) directly
 *   SC <hex>      glibc sscanf with the login format      PT <hex>   inet_pton(AF_INET)
 *   IA <hex>      inet_addr                               NT <word>  inet_ntoa(htonl(word))
 * Result of L/IP/MTU: "<n> <cmdhex>..." then " # ret=.." (ignored by the diff). */
#include "hlib.h"
#include <setjmp.h>
#include <err.h>
#include <sys/select.h>

#include "client.c"	/* found through -I <snapshot>/src */

#define C13_SRV_FD (-4213)
#define C13_CLI_FD (-4214)
#define LOGIN_FMT "%64[^-]-%64[^-]-%d-%d"	/* checked against the source by checks/c13.py */

void c13_set_ifname(const char *s);
void c13_server_answer(struct query *q, const char *data, int datalen, char downenc);

#define MAXREP 8
static unsigned char *rep_data[MAXREP];
static int rep_len[MAXREP];		/* -1: no answer for that attempt */
static int rep_n, rep_next;
static char rep_downenc;
static char wire[64 * 1024];
static int wire_len;

#define MAXCMD 8
static char *cmds[MAXCMD];
static int ncmds;
static int sys_ret_first;
static jmp_buf back;
static int in_errx;

int __wrap_system(const char *cmd);
int __wrap_system(const char *cmd)
{
	int r = (ncmds == 0) ? sys_ret_first : 0;
	if (ncmds < MAXCMD)
		cmds[ncmds++] = strdup(cmd ? cmd : "<NULL>");
	return r;
}

void __wrap_errx(int eval, const char *fmt, ...);
void __wrap_errx(int eval, const char *fmt, ...)
{
	(void)fmt;
	in_errx = eval;
	longjmp(back, 1);
}

unsigned int __wrap_sleep(unsigned int s);
unsigned int __wrap_sleep(unsigned int s)
{
	(void)s;
	return 0;
}

int __wrap_select(int nfds, fd_set *r, fd_set *w, fd_set *e, struct timeval *tv);
int __wrap_select(int nfds, fd_set *r, fd_set *w, fd_set *e, struct timeval *tv)
{
	(void)nfds; (void)r; (void)w; (void)e; (void)tv;
	return wire_len > 0 ? 1 : 0;
}

ssize_t __wrap_sendto(int fd, const void *buf, size_t len, int flags, const struct sockaddr *to, socklen_t tolen);
ssize_t __wrap_sendto(int fd, const void *buf, size_t len, int flags, const struct sockaddr *to, socklen_t tolen)
{
	struct query q;

	(void)flags; (void)to; (void)tolen;
	if (fd == C13_SRV_FD) {
		/* the server's answer datagram */
		if (len > sizeof(wire))
			len = sizeof(wire);
		memcpy(wire, buf, len);
		wire_len = len;
		return len;
	}
	/* the client's query: the "server" answers it with the next payload of the case */
	wire_len = 0;
	memset(&q, 0, sizeof(q));
	if (dns_decode(NULL, 0, &q, QR_QUERY, (char *)buf, len) < 0)
		return len;
	if (rep_next < rep_n) {
		int i = rep_next++;
		if (rep_len[i] >= 0)
			c13_server_answer(&q, (char *)rep_data[i], rep_len[i], rep_downenc);
	}
	return len;
}

ssize_t __wrap_recvfrom(int fd, void *buf, size_t len, int flags, struct sockaddr *from, socklen_t *fromlen);
ssize_t __wrap_recvfrom(int fd, void *buf, size_t len, int flags, struct sockaddr *from, socklen_t *fromlen)
{
	int n = wire_len;

	(void)fd; (void)flags;
	if ((size_t)n > len)
		n = len;
	memcpy(buf, wire, n);
	wire_len = 0;
	if (from && fromlen && *fromlen >= sizeof(struct sockaddr_in)) {
		memset(from, 0, sizeof(struct sockaddr_in));
		from->sa_family = AF_INET;
		*fromlen = sizeof(struct sockaddr_in);
	}
	return n;
}

static char *tok(char **p)
{
	char *s = *p, *e;
	if (!s)
		return NULL;
	while (*s == ' ')
		s++;
	if (!*s)
		return NULL;
	e = strchr(s, ' ');
	if (e) {
		*e = 0;
		*p = e + 1;
	} else {
		*p = NULL;
	}
	return s;
}

/* hex token -> freshly allocated NUL-terminated copy; *n = length */
static unsigned char *hexdup(const char *h, int *n)
{
	size_t l = unhex(h, in);
	unsigned char *d = malloc(l + 1);
	memcpy(d, in, l);
	d[l] = 0;
	*n = l;
	return d;
}

static void reset_cmds(void)
{
	int i;
	for (i = 0; i < ncmds; i++)
		free(cmds[i]);
	ncmds = 0;
}

static void print_cmds(const char *retinfo)
{
	int i;
	printf("%d", ncmds);
	for (i = 0; i < ncmds; i++) {
		putchar(' ');
		puthex((unsigned char *)cmds[i], strlen(cmds[i]));
	}
	printf(" # %s\n", retinfo);
}

static void set_ifname_tok(const char *h)
{
	int n;
	unsigned char *s = hexdup(h, &n);
	c13_set_ifname((char *)s);
	free(s);
}

static int inited;
static void init_once(void)
{
	static struct sockaddr_storage ns;
	struct sockaddr_in *a = (struct sockaddr_in *)&ns;

	if (inited)
		return;
	inited = 1;
	if (!getenv("C13_STDERR"))
		freopen("/dev/null", "w", stderr);
	a->sin_family = AF_INET;
	a->sin_port = htons(53);
	a->sin_addr.s_addr = htonl(0x7f000001);
	client_init();
	client_set_nameserver(&ns, sizeof(struct sockaddr_in));
	client_set_topdomain("t.example.com");
	client_set_password("secret");
	client_set_lazymode(0);
	client_set_selecttimeout(1);
}

static void do_login(char *p)
{
	char *t, info[64];
	int i, ret = -99;

	t = tok(&p); set_ifname_tok(t);
	t = tok(&p); do_qtype = (unsigned short)atoi(t);
	t = tok(&p); rep_downenc = t[0];
	t = tok(&p); sys_ret_first = atoi(t) ? 0 : 256;
	rep_n = 0; rep_next = 0; wire_len = 0;
	while ((t = tok(&p)) != NULL && rep_n < MAXREP) {
		if (t[0] == 'T') {
			rep_data[rep_n] = NULL;
			rep_len[rep_n] = -1;
		} else {
			rep_data[rep_n] = hexdup(t, &rep_len[rep_n]);
		}
		rep_n++;
	}
	reset_cmds();
	running = 1;
	in_errx = 0;
	if (setjmp(back) == 0) {
		ret = handshake_login(C13_CLI_FD, 12345);
		snprintf(info, sizeof(info), "ret=%d used=%d", ret, rep_next);
	} else {
		snprintf(info, sizeof(info), "ret=errx(%d) used=%d", in_errx, rep_next);
	}
	print_cmds(info);
	for (i = 0; i < rep_n; i++)
		free(rep_data[i]);
}

static void do_setip(char *p)
{
	char *t, info[64];
	unsigned char *ip, *other;
	int n, netbits, ret;

	t = tok(&p); set_ifname_tok(t);
	t = tok(&p); netbits = (int)strtol(t, NULL, 10);
	t = tok(&p); ip = hexdup(t, &n);
	t = tok(&p); other = hexdup(t, &n);
	reset_cmds();
	sys_ret_first = 0;
	ret = tun_setip((char *)ip, (char *)other, netbits);
	snprintf(info, sizeof(info), "ret=%d", ret);
	print_cmds(info);
	free(ip);
	free(other);
}

static void do_setmtu(char *p)
{
	char *t, info[64];
	int ret;
	long v;

	t = tok(&p); set_ifname_tok(t);
	t = tok(&p); v = strtol(t, NULL, 10);
	reset_cmds();
	sys_ret_first = 0;
	ret = tun_setmtu((int)v);	/* as handshake_login: an int converted to const unsigned */
	snprintf(info, sizeof(info), "ret=%d", ret);
	print_cmds(info);
}

static void do_sscanf(char *p)
{
	char server[65], client[65];
	int mtu = 0, netmask = 0, n, r;
	unsigned char *s = hexdup(tok(&p), &n);

	memset(server, 0, sizeof(server));
	memset(client, 0, sizeof(client));
	r = sscanf((char *)s, LOGIN_FMT, server, client, &mtu, &netmask);
	if (r == 4) {
		printf("4 ");
		puthex((unsigned char *)server, strlen(server));
		putchar(' ');
		puthex((unsigned char *)client, strlen(client));
		printf(" %d %d\n", mtu, netmask);
	} else {
		printf("N\n");
	}
	free(s);
}

static void do_pton(char *p)
{
	int n;
	unsigned char *s = hexdup(tok(&p), &n);
	unsigned char a[4];

	if (inet_pton(AF_INET, (char *)s, a) == 1)
		printf("1 %u %u %u %u\n", a[0], a[1], a[2], a[3]);
	else
		printf("0\n");
	free(s);
}

static void do_inet_addr(char *p)
{
	int n;
	unsigned char *s = hexdup(tok(&p), &n);

	printf("%08x\n", (unsigned)ntohl(inet_addr((char *)s)));
	free(s);
}

static void do_ntoa(char *p)
{
	struct in_addr a;
	char *t = tok(&p), *r;

	a.s_addr = htonl((uint32_t)strtoul(t, NULL, 10));
	r = inet_ntoa(a);
	puthex((unsigned char *)r, strlen(r));
	putchar('\n');
}

int handle_line(char *line)
{
	char *p = line;
	char *k = tok(&p);

	init_once();
	if (!k)
		return 0;
	if (!strcmp(k, "L")) { do_login(p); return 1; }
	if (!strcmp(k, "IP")) { do_setip(p); return 1; }
	if (!strcmp(k, "MTU")) { do_setmtu(p); return 1; }
	if (!strcmp(k, "SC")) { do_sscanf(p); return 1; }
	if (!strcmp(k, "PT")) { do_pton(p); return 1; }
	if (!strcmp(k, "IA")) { do_inet_addr(p); return 1; }
	if (!strcmp(k, "NT")) { do_ntoa(p); return 1; }
	return 0;
}
