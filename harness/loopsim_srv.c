/* Server translation unit for the two-sided virtual-time simulator.
 * Includes the real iodined.c (main renamed) and exports two entry points that
 * set up the same globals main() would and then run the real tunnel() loop. */
#define main iodined_main
#include "iodined.c"
#undef main

void srv_setup(const char *td, const char *pw, int mtu, int dbg);
void srv_run(int tun_fd, int dns_fd);
int srv_dbg_state(char *buf, int buflen);

void srv_setup(const char *td, const char *pw, int mtu, int dbg)
{
	topdomain = strdup(td);
	memset(password, 0, sizeof(password));
	strncpy(password, pw, sizeof(password) - 1);
	my_ip = inet_addr("10.0.0.1");
	netmask = 27;
	my_mtu = mtu;
	check_ip = 1;
	ns_ip = INADDR_ANY;
	debug = dbg;
	running = 1;
	fw_query_init();
	created_users = init_users(my_ip, netmask);
}

void srv_run(int tun_fd, int dns_fd)
{
	struct dnsfd fds;
	fds.v4fd = dns_fd;
	fds.v6fd = -1;
	tunnel(tun_fd, &fds, 0, 0);
}

int srv_dbg_state(char *buf, int buflen)
{
	return snprintf(buf, buflen,
		"server user0: outpacket.len=%d seq=%d frag=%d outfragresent=%d outpacketq_filled=%d q.id=%d realsoon.id=%d all_users_waiting_to_send=%d",
		users[0].outpacket.len, users[0].outpacket.seqno, users[0].outpacket.fragment,
		users[0].outfragresent, users[0].outpacketq_filled, users[0].q.id,
		users[0].q_sendrealsoon.id, all_users_waiting_to_send());
}
