/* h_c12cli.c -- C12, end-to-end variant on the client: the client histories of h_clihist.c (real
 * client.c tunnelling code: tunnel_dns incl. read_dns_withq in DNS and raw mode, tunnel_tun,
 * time-outs) with a chosen content of the 64 KB receive buffer beyond each datagram.  Case line:
 *
 *     R <residue> J <config> ; <event> ; ...        (the rest is exactly a h_clihist.c line)
 *
 * residue as in h_c12srv.c (0..4 pattern of wire_net.c residue_fill, -1: buffer left alone).
 * h_clihist.c is unchanged: included with its writes `inj_residue = 0` redirected to a dummy. */
#include "wire.h"

static int c12_ignored_residue;
#define inj_residue c12_ignored_residue
#define handle_line clihist_handle_line
#include "h_clihist.c"
#undef handle_line
#undef inj_residue

int handle_line(char *l)
{
	char *p = l;
	while (*p == ' ')
		p++;
	if (p[0] != 'R' || p[1] != ' ')
		return 0;
	inj_residue = (int)strtol(p + 2, &p, 10);
	while (*p == ' ')
		p++;
	return clihist_handle_line(p);
}
