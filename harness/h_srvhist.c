/* h_srvhist.c -- server histories: a whole sequence of events (datagrams on the DNS socket, packets
 * from the tun device, select-loop sweeps) is run through the real iodined.c dispatcher
 * (tunnel_dns / tunnel_tun / the send-real-soon sweep) from a fresh init_users(); after every
 * event the datagrams sent, the packets written to tun and a digest of every active session are
 * printed.  zlib and login_calculate are replaced by the simple functions the model is
 * instantiated with (Server.zc_frame / unz_frame / login_stub); everything else is the real code. */
#include "wire.h"
#include <zlib.h>

void wire_srand(unsigned long s);

#include "zcontract.h"

int __wrap_compress2(unsigned char *dest, unsigned long *destLen, const unsigned char *source, unsigned long sourceLen, int level);
int __wrap_compress2(unsigned char *dest, unsigned long *destLen, const unsigned char *source, unsigned long sourceLen, int level)
{
	(void)level;
	ZCONTRACT("compress2", dest, destLen, source, sourceLen);
	if (*destLen < sourceLen + 1)
		return Z_BUF_ERROR;
	dest[0] = 0x5A;
	memcpy(dest + 1, source, sourceLen);
	*destLen = sourceLen + 1;
	return Z_OK;
}

int __wrap_uncompress(unsigned char *dest, unsigned long *destLen, const unsigned char *source, unsigned long sourceLen);
int __wrap_uncompress(unsigned char *dest, unsigned long *destLen, const unsigned char *source, unsigned long sourceLen)
{
	ZCONTRACT("uncompress", dest, destLen, source, sourceLen);
	if (sourceLen < 1 || source[0] != 0x5A)
		return Z_DATA_ERROR;
	if (sourceLen - 1 > *destLen)
		return Z_BUF_ERROR;
	memcpy(dest, source + 1, sourceLen - 1);
	*destLen = sourceLen - 1;
	return Z_OK;
}

void __wrap_login_calculate(char *buf, int buflen, const char *pass, int seed);
void __wrap_login_calculate(char *buf, int buflen, const char *pass, int seed)
{
	int i;
	unsigned int s = (unsigned int)seed;
	if (buflen < 16)
		return;
	for (i = 0; i < 16; i++)
		buf[i] = (char)(((unsigned char)pass[i] + ((s >> (8 * (i % 4))) & 0xff) * (i + 1)) & 0xff);
}

#include "digest.inc"

static void print_outputs(void)
{
	int i;
	printf("%d", cap_count);
	for (i = 0; i < cap_count; i++) {
		int fam, iplen, port;
		const unsigned char *ip;
		addr_parts(&cap[i].to, &fam, &ip, &iplen, &port);
		printf(" %d:", fam);
		puthex(ip, iplen);
		printf(":%d=", port);
		putsum(cap[i].data, cap[i].len);
		/* what the real client decoder extracts from this datagram, when it is a DNS answer */
		if (cap[i].len >= 12 && (cap[i].data[2] & 0x80) && memcmp(cap[i].data, raw_header, 3)) {
			static char dec[65536 + 16];
			struct query dq;
			int rv;
			memset(&dq, 0, sizeof(dq));
			inj_set(cap[i].data, cap[i].len);
			inj_residue = 0;
			rv = cli_read_dns_withq(dec, 65536, &dq);
			printf("{%d:", rv);
			putsum((unsigned char *)dec, rv > 0 ? rv : 0);
			printf("}");
		}
	}
	printf(" T%d", tun_written_count);
	for (i = 0; i < tun_written_count; i++) {
		putchar(' ');
		putsum(tun_written[i], tun_written_len[i]);
	}
}

static char *tok(char **p)
{
	char *s = *p, *e;
	while (*s == ' ') s++;
	if (!*s) return NULL;
	e = s;
	while (*e && *e != ' ') e++;
	if (*e) { *e = 0; e++; }
	*p = e;
	return s;
}

static void parse_addr(char *s, struct sockaddr_storage *ss, socklen_t *len)
{
	/* fam:iphex:port */
	char *c1 = strchr(s, ':'), *c2;
	unsigned char ip[16];
	int fam, port;
	memset(ss, 0, sizeof(*ss));
	*c1 = 0;
	c2 = strchr(c1 + 1, ':');
	*c2 = 0;
	fam = atoi(s);
	port = atoi(c2 + 1);
	unhex(c1 + 1, ip);
	if (fam == 6) {
		struct sockaddr_in6 *a = (struct sockaddr_in6 *)ss;
		a->sin6_family = AF_INET6;
		a->sin6_port = htons(port);
		memcpy(&a->sin6_addr, ip, 16);
		*len = sizeof(*a);
	} else {
		struct sockaddr_in *a = (struct sockaddr_in *)ss;
		a->sin_family = AF_INET;
		a->sin_port = htons(port);
		memcpy(&a->sin_addr, ip, 4);
		*len = sizeof(*a);
	}
}

static unsigned char evbuf[MAXLINE / 2];

/* ---- L lines: the same events fed to the REAL select loop tunnel() through the wrapped select() ----------------
 * L <same header as H> ; events…   X / T / S as for H lines (S = the select timeout), plus
 *   B now rnd from dest dgramhex pkthex     datagram and tun packet readable in the same iteration
 * One select() call consumes one event.  A tun packet offered while the tun device is not in the read set is dropped
 * (the iteration is then a timeout, or the datagram alone).  Output per iteration as for H lines. */
int srv_tunnel_loop(void);
void srv_stop(void);

static char *sloop_save;
static int sloop_started, sloop_first;

static void sloop_flush(void)
{
	if (!sloop_started)
		return;
	if (!sloop_first)
		printf(" ; ");
	sloop_first = 0;
	print_outputs();
	printf(" | ");
	print_srv_state();
}

static void prepare_dgram(char **q)
{
	unsigned char ip4[16];
	char *dest;
	int n;
	wire_srand(strtoul(tok(q), NULL, 10));
	parse_addr(tok(q), &inj_from, &inj_fromlen);
	dest = tok(q);
	inj_dest_family = 0;
	if (dest[0] != '-' && unhex(dest, ip4) == 4) {
		inj_dest_family = 4;
		memcpy(inj_dest4, ip4, 4);
	}
	n = unhex(tok(q), evbuf);
	inj_set(evbuf, n);
	inj_residue = 0;
}

static int sloop_select(int nfds, fd_set *rfds, struct timeval *tv)
{
	char *ev, *q, *k;
	int tun_sel = rfds && FD_ISSET(11, rfds);
	int ready_tun = 0, ready_dns = 0;
	(void)nfds; (void)tv;
	sloop_flush();
	sloop_started = 1;
	cap_reset();
	if (rfds)
		FD_ZERO(rfds);
	tun_in_len = 0;
	inj_len = 0;
	for (;;) {
		ev = strtok_r(NULL, ";", &sloop_save);
		if (!ev) {
			sloop_started = 0;
			srv_stop();
			return 0;
		}
		q = ev;
		k = tok(&q);
		if (k)
			break;
	}
	verif_now = atol(tok(&q));
	if (!strcmp(k, "S")) {
		return 0;
	} else if (!strcmp(k, "T")) {
		tun_in_len = unhex(tok(&q), tun_in);
		ready_tun = tun_sel;
	} else if (!strcmp(k, "X")) {
		prepare_dgram(&q);
		ready_dns = 1;
	} else if (!strcmp(k, "B")) {
		prepare_dgram(&q);
		ready_dns = 1;
		tun_in_len = unhex(tok(&q), tun_in);
		ready_tun = tun_sel;
	} else {
		printf("BADEVENT");
		return 0;
	}
	if (ready_tun && rfds)
		FD_SET(11, rfds);
	if (ready_dns && rfds)
		FD_SET(10, rfds);
	return ready_tun + ready_dns;
}

int handle_line(char *l)
{
	int loopmode;
	char *p = l, *t, *ev, *save;
	char topd[300], pass[64], myip[32];
	int n, checkip, netbits, mtu, bindport, first = 1;
	unsigned char ip4[16];

	t = tok(&p);
	if (strcmp(t, "H") && strcmp(t, "L"))
		return 0;
	loopmode = !strcmp(t, "L");
	n = unhex(tok(&p), in); memcpy(topd, in, n); topd[n] = 0;
	n = unhex(tok(&p), in); if (n > 32) n = 32; memset(pass, 0, sizeof(pass)); memcpy(pass, in, n);
	checkip = atoi(tok(&p));
	strncpy(myip, tok(&p), sizeof(myip) - 1); myip[sizeof(myip) - 1] = 0;
	netbits = atoi(tok(&p));
	mtu = atoi(tok(&p));
	t = tok(&p);
	srv_init(topd, pass, checkip, myip, netbits, mtu);
	if (t[0] != '-' && unhex(t, ip4) == 4)
		srv_set_ns_ip(ip4);
	else
		srv_set_ns_ip(NULL);
	bindport = atoi(tok(&p));
	srv_set_bind_port(bindport);
	cli_init("x.y", 0, 0, 255, 10, 'T', 0, 1);
	cli_set_edns0(1);
	if (loopmode) {
		sloop_save = p;
		sloop_started = 0;
		sloop_first = 1;
		wire_select_hook = sloop_select;
		srv_tunnel_loop();
		wire_select_hook = NULL;
		sloop_flush();
		sloop_started = 0;
		putchar('\n');
		return 1;
	}

	for (ev = strtok_r(p, ";", &save); ev; ev = strtok_r(NULL, ";", &save)) {
		char *q = ev, *k = tok(&q);
		if (!k)
			continue;
		if (!first)
			printf(" ; ");
		first = 0;
		cap_reset();
		if (!strcmp(k, "X")) {
			char *dest;
			verif_now = atol(tok(&q));
			wire_srand(strtoul(tok(&q), NULL, 10));
			parse_addr(tok(&q), &inj_from, &inj_fromlen);
			dest = tok(&q);
			inj_dest_family = 0;
			if (dest[0] != '-' && unhex(dest, ip4) == 4) {
				inj_dest_family = 4;
				memcpy(inj_dest4, ip4, 4);
			}
			n = unhex(tok(&q), evbuf);
			inj_set(evbuf, n);
			inj_residue = 0;
			srv_tunnel_dns();
		} else if (!strcmp(k, "T")) {
			verif_now = atol(tok(&q));
			tun_in_len = unhex(tok(&q), tun_in);
			srv_tunnel_tun();
		} else if (!strcmp(k, "S")) {
			verif_now = atol(tok(&q));
			srv_sweep();
		} else {
			printf("BADEVENT");
			continue;
		}
		print_outputs();
		printf(" | ");
		print_srv_state();
	}
	putchar('\n');
	return 1;
}
