/* h_handshake.c -- the real client (client_handshake, then the tunnelling code) against the
 * real server in one process, through a configurable in-path DNS relay that transforms query
 * names and answer data, drops / refuses / limits answers, or mutates them (fuzzing).  Used by
 * C11 (negotiation only selects settings that work on the path) and C06 (client survives
 * hostile replies during the handshake).  zlib and login_calculate are the real ones here.
 *
 * G seed qcase q8 qpunct acase a8 apunct types sizelimit edns rawok fuzz qtype downenc lazy rawmode autofrag fragsize maxlen npkts
 *   qcase/acase : 0 keep 1 lower 2 upper 3 random      (query names / names+text in answers)
 *   q8/a8       : 0 clean 1 strip (clear bit 7) 2 reject (drop the datagram)
 *   qpunct/apunct: 0 keep 1 mangle '+' 2 mangle '_'    (replaced by '-')
 *   types       : bit mask of record types the relay serves (bit order NULL PRIVATE TXT SRV MX CNAME A)
 *   sizelimit   : 0 none, else answers larger than this are dropped; edns 0: OPT ignored -> limit 512
 *   rawok       : direct UDP to the server possible (raw mode frames delivered)
 *   fuzz        : per-mille probability that an answer byte string is mutated (0 for C11)
 *   qtype       : 0 autodetect, else forced type;  downenc: 32 (' ') autodetect else letter
 *   npkts may be followed by /N: the first N user slots are held by other live clients (this client becomes user N)
 */
#include "wire.h"
#include <setjmp.h>
#include <stdarg.h>

int cli_tunnel_tun(void);
int cli_tunnel_dns(void);
void cli_timeout(void);
void cli_watchdog(void);
int cli_running(void);
int cli_reads_tun(void);
void cli_prepare_handshake(const char *topdom, const char *pass, int qtype, char downenc_c, int lazy, int maxlen);
void cli_report(char *buf, size_t n);
void cli_start_tunnel(void);
int cli_userid(void);

static jmp_buf bail;
static int bail_code;

void __wrap_errx(int eval, const char *fmt, ...);
void __wrap_errx(int eval, const char *fmt, ...) { (void)fmt; bail_code = 100 + eval; longjmp(bail, 1); }
void __wrap_err(int eval, const char *fmt, ...);
void __wrap_err(int eval, const char *fmt, ...) { (void)fmt; bail_code = 200 + eval; longjmp(bail, 1); }
void __wrap_exit(int code);
void __wrap_exit(int code) { bail_code = 300 + code; longjmp(bail, 1); }

struct relay {
	int qcase, q8, qpunct, acase, a8, apunct;
	unsigned types;
	int sizelimit, edns, rawok, fuzz;
};
static struct relay R;
static unsigned long rr_state;

static unsigned rr(void)
{
	rr_state = rr_state * 6364136223846793005UL + 1442695040888963407UL;
	return (unsigned)(rr_state >> 33);
}

#define PENDMAX 64
static unsigned char pend[PENDMAX][65536];
static int pendlen[PENDMAX];
static int pend_head, pend_count;
static int timeouts;
static long queries_seen, answers_dropped, answers_delivered;

static void pend_push(const unsigned char *d, int len)
{
	int i;
	if (pend_count >= PENDMAX)
		return;
	i = (pend_head + pend_count) % PENDMAX;
	memcpy(pend[i], d, len);
	pendlen[i] = len;
	pend_count++;
}

static int type_bit(int t)
{
	switch (t) {
	case 10: return 0;
	case 65399: return 1;
	case 16: return 2;
	case 33: return 3;
	case 15: return 4;
	case 5: return 5;
	case 1: return 6;
	}
	return -1;
}

static unsigned char xform(unsigned char c, int cs, int e8, int punct, int *reject)
{
	if (c >= 0x80) {
		if (e8 == 2) { *reject = 1; return c; }
		if (e8 == 1) c &= 0x7f;
	}
	if (punct == 1 && c == '+') c = '-';
	if (punct == 2 && c == '_') c = '-';
	if (cs == 1 && c >= 'A' && c <= 'Z') c += 32;
	else if (cs == 2 && c >= 'a' && c <= 'z') c -= 32;
	else if (cs == 3 && ((c >= 'a' && c <= 'z') || (c >= 'A' && c <= 'Z')) && (rr() & 1)) c ^= 0x20;
	return c;
}

/* walk an uncompressed name at p; transform label bytes; returns offset after the name or -1 */
static int xform_name(unsigned char *m, int len, int p, int cs, int e8, int punct, int *reject)
{
	while (p < len) {
		int l = m[p], i;
		if (l == 0)
			return p + 1;
		if (l >= 0xc0)
			return p + 2;
		if (l > 63 || p + 1 + l > len)
			return -1;
		for (i = 1; i <= l; i++)
			m[p + i] = xform(m[p + i], cs, e8, punct, reject);
		p += 1 + l;
	}
	return -1;
}

static unsigned char curq[4096];	/* the client's query as sent (question restored in answers) */
static int curq_len;

/* returns 0 if the answer is dropped */
static int relay_answer(unsigned char *m, int *lenp)
{
	int len = *lenp, p, an, i, reject = 0, limit;
	if (len < 12)
		return 1;
	limit = R.edns ? (R.sizelimit ? R.sizelimit : 65536) : 512;
	if (R.sizelimit && R.sizelimit < limit)
		limit = R.sizelimit;
	if (len > limit)
		return 0;
	an = (m[6] << 8) | m[7];
	/* skip the question */
	p = 12;
	while (p < len && m[p] != 0 && m[p] < 0xc0)
		p += 1 + m[p];
	p += (p < len && m[p] >= 0xc0) ? 2 : 1;
	p += 4;
	for (i = 0; i < an && p + 12 <= len; i++) {
		int ty, rdlen, rs;
		p += (m[p] >= 0xc0) ? 2 : 1;	/* owner: pointer or root (iodine only emits pointers) */
		ty = (m[p] << 8) | m[p + 1];
		rdlen = (m[p + 8] << 8) | m[p + 9];
		rs = p + 10;
		if (rs + rdlen > len)
			break;
		if (ty == 5)
			xform_name(m, rs + rdlen, rs, R.acase, R.a8, R.apunct, &reject);
		else if (ty == 15)
			xform_name(m, rs + rdlen, rs + 2, R.acase, R.a8, R.apunct, &reject);
		else if (ty == 33)
			xform_name(m, rs + rdlen, rs + 6, R.acase, R.a8, R.apunct, &reject);
		else if (ty == 16) {
			int q = rs;
			while (q < rs + rdlen) {
				int l = m[q], j;
				for (j = 1; j <= l && q + j < rs + rdlen; j++)
					m[q + j] = xform(m[q + j], R.acase, R.a8, R.apunct, &reject);
				q += 1 + l;
			}
		}
		p = rs + rdlen;
	}
	if (reject)
		return 0;
	if (R.fuzz && (int)(rr() % 1000) < R.fuzz) {
		int k = 1 + rr() % 4;
		while (k--) {
			switch (rr() % 5) {
			case 0: m[rr() % len] = (unsigned char)rr(); break;
			case 1: if (len > 13) *lenp = len = 12 + rr() % (len - 12); break;
			case 2: m[6] = (unsigned char)rr(); m[7] = (unsigned char)rr(); break;
			case 3: if (len > 20) { int q = 12 + rr() % (len - 14); m[q] = 0xc0; m[q + 1] = (unsigned char)rr(); } break;
			default: if (len + 8 < 65536) { memset(m + len, (int)rr(), 8); *lenp = len = len + 8; } break;
			}
		}
	}
	return 1;
}

static int in_server;

static void on_sendto(int fd, const void *buf, size_t len, const struct sockaddr *to, socklen_t tolen)
{
	(void)to; (void)tolen;
	if (fd == 20 && !in_server) {
		/* client -> nameserver / raw server */
		static unsigned char q[65536];
		int qlen = (int)len, reject = 0, qt, israw;
		if (qlen > (int)sizeof(q))
			qlen = sizeof(q);
		memcpy(q, buf, qlen);
		israw = qlen >= 4 && !memcmp(q, raw_header, 3);
		if (israw) {
			if (!R.rawok)
				return;
		} else {
			int end;
			queries_seen++;
			if (qlen < 17)
				return;
			memcpy(curq, q, qlen < (int)sizeof(curq) ? qlen : (int)sizeof(curq));
			curq_len = qlen;
			end = xform_name(q, qlen, 12, R.qcase, R.q8, R.qpunct, &reject);
			if (end < 0 || end + 4 > qlen || reject)
				return;
			qt = (q[end] << 8) | q[end + 1];
			if (type_bit(qt) < 0 || !(R.types & (1u << type_bit(qt)))) {
				/* refused type: answer NOTIMP with the question only */
				static unsigned char e[600];
				int el = end + 4 < (int)sizeof(e) ? end + 4 : (int)sizeof(e);
				memcpy(e, curq, el);
				e[2] = 0x81; e[3] = 0x84; e[6] = e[7] = e[8] = e[9] = e[10] = e[11] = 0;
				pend_push(e, el);
				return;
			}
			if (!R.edns && qlen >= end + 4 + 11) {
				/* a relay that does not know EDNS0: forward without the OPT record */
				qlen = end + 4;
				q[10] = q[11] = 0;
			}
		}
		in_server = 1;
		inj_fromlen = 0;
		inj_set(q, qlen);
		inj_residue = -1;
		inj_dest_family = 4;
		inj_dest4[0] = 198; inj_dest4[1] = 51; inj_dest4[2] = 100; inj_dest4[3] = 1;
		srv_tunnel_dns();
		srv_sweep();
		in_server = 0;
	} else if (in_server && (fd == 10 || fd == 12)) {
		/* server -> client */
		static unsigned char a[65536];
		int alen = (int)len;
		if (alen > (int)sizeof(a))
			alen = sizeof(a);
		memcpy(a, buf, alen);
		if (alen >= 4 && !memcmp(a, raw_header, 3)) {
			if (R.rawok)
				pend_push(a, alen);
			return;
		}
		/* resolvers answer with the question as it was asked of them */
		if (alen >= 12 && curq_len >= 12) {
			int p = 12, c = 12;
			while (p < alen && c < curq_len && a[p] != 0 && a[p] < 64 && a[p] == curq[c]) {
				memcpy(a + p + 1, curq + c + 1, a[p]);
				c += 1 + curq[c];
				p += 1 + a[p];
			}
		}
		if (relay_answer(a, &alen)) {
			pend_push(a, alen);
			answers_delivered++;
		} else
			answers_dropped++;
	}
}

static int on_select(int nfds, fd_set *rfds, struct timeval *tv)
{
	(void)nfds;
	if (pend_count > 0) {
		inj_set(pend[pend_head], pendlen[pend_head]);
		inj_residue = -1;
		pend_head = (pend_head + 1) % PENDMAX;
		pend_count--;
		if (rfds) {
			FD_ZERO(rfds);
			FD_SET(20, rfds);
		}
		return 1;
	}
	if (++timeouts > 3000) {
		bail_code = 999;
		longjmp(bail, 1);
	}
	if (tv)
		verif_now += tv->tv_sec ? tv->tv_sec : 1;
	if (rfds)
		FD_ZERO(rfds);
	return 0;
}

static int deliver_all(int maxrounds)
{
	/* run the client's select loop by hand until nothing is pending */
	int rounds = 0;
	while (pend_count > 0 && rounds++ < maxrounds) {
		inj_set(pend[pend_head], pendlen[pend_head]);
		inj_residue = -1;
		pend_head = (pend_head + 1) % PENDMAX;
		pend_count--;
		cli_tunnel_dns();
	}
	return rounds;
}

/* one session: relay + client settings from 20 numbers at *pp; fresh = start a new server (else the same server instance
 * goes on, its clock already advanced); quiet = print nothing */
static int session(char **pp, int fresh, int quiet)
{
	int v[21], i, rv, npk, occupied, okup = 0, okdown = 0, upn = 0, downn = 0;
	char *p = *pp, rep[256];
	unsigned long seed;
	seed = strtoul(p, &p, 10);
	for (i = 0; i < 19; i++)
		v[i] = (int)strtol(p, &p, 10);
	npk = v[18];
	/* optional 21st number after a '/': slots already taken by other (live) clients, so that this client gets that user id */
	occupied = 0;
	if (*p == '/') {
		p++;
		occupied = (int)strtol(p, &p, 10);
	}
	*pp = p;
	R.qcase = v[0]; R.q8 = v[1]; R.qpunct = v[2]; R.acase = v[3]; R.a8 = v[4]; R.apunct = v[5];
	R.types = v[6]; R.sizelimit = v[7]; R.edns = v[8]; R.rawok = v[9]; R.fuzz = v[10];
	rr_state = seed * 2654435761UL + 12345;
	pend_head = pend_count = 0;
	timeouts = 0;
	queries_seen = answers_dropped = answers_delivered = 0;
	in_server = 0;
	if (fresh) {
		verif_now = 3000000;
		srv_init("t.example.com", "sesame", 1, "10.0.0.1", 27, 1130);
	}
	for (i = 0; i < occupied && i < 16; i++) {
		struct tun_user *u = srv_user(i);
		u->active = 1;
		u->last_pkt = verif_now + 100000;	/* stays live for the whole case */
	}
	cli_prepare_handshake("t.example.com", "sesame", v[11], (char)v[12], v[13], v[17]);
	wire_sendto_hook = on_sendto;
	wire_select_hook = on_select;
	cap_reset();
	sys_ret = 0;
	if (setjmp(bail)) {
		if (!quiet)
			printf("BAIL %d q=%ld\n", bail_code, queries_seen);
		wire_sendto_hook = NULL;
		wire_select_hook = NULL;
		return 1;
	}
	rv = client_handshake(20, v[14], v[15], v[16]);
	cli_report(rep, sizeof(rep));
	if (!quiet)
		printf("%d %s srvfrag=%d q=%ld drop=%ld", rv, rep, rv == 0 ? srv_user(cli_userid() & 15)->fragsize : -1,
		       queries_seen, answers_dropped);
	if (rv == 0 && npk > 0) {
		/* packets both ways through the same relay */
		cli_start_tunnel();
		for (i = 0; i < npk; i++) {
			static unsigned char pk[2048];
			int n = 40 + (int)(rr() % 1200), k, rounds;
			struct tun_user *u = srv_user(cli_userid() & 15);
			for (k = 0; k < n; k++)
				pk[k] = (unsigned char)rr();
			/* upstream: destination outside the tunnel net -> server's tun */
			pk[20] = 8; pk[21] = 8; pk[22] = 8; pk[23] = 8;
			tun_written_count = 0;
			memcpy(tun_in, pk, n);
			tun_in_len = n;
			upn++;
			cli_tunnel_tun();
			for (rounds = 0; rounds < 200 && tun_written_count == 0; rounds++) {
				if (!deliver_all(50)) {
					verif_now += 1;
					cli_timeout();
				}
			}
			if (tun_written_count >= 1 && tun_written_len[0] == n && !memcmp(tun_written[0], pk, n))
				okup++;
			/* downstream: destination = the client's tunnel address */
			memcpy(pk + 20, &u->tun_ip, 4);
			tun_written_count = 0;
			memcpy(tun_in, pk, n);
			tun_in_len = n;
			downn++;
			in_server = 1;
			srv_tunnel_tun();
			in_server = 0;
			for (rounds = 0; rounds < 200 && tun_written_count == 0; rounds++) {
				if (!deliver_all(50)) {
					verif_now += 1;
					cli_timeout();
				}
			}
			if (tun_written_count >= 1 && tun_written_len[0] == n && !memcmp(tun_written[0], pk, n))
				okdown++;
		}
		if (!quiet)
			printf(" | up %d/%d down %d/%d", okup, upn, okdown, downn);
	}
	if (!quiet)
		putchar('\n');
	wire_sendto_hook = NULL;
	wire_select_hook = NULL;
	return 1;
}

/* G <20 numbers>            one session on a fresh server
 * GG <20 numbers> <20 numbers>
 *                           a first session (nothing printed) on a fresh server; its client then falls silent, the clock moves
 *                           past the 60 s after which the server hands the slot to the next client; the second session
 *                           runs on that same server and is reported exactly like a G case */
int handle_line(char *l)
{
	char *p;
	if (!strncmp(l, "G ", 2)) {
		p = l + 2;
		return session(&p, 1, 0);
	}
	if (!strncmp(l, "GG ", 3)) {
		p = l + 3;
		session(&p, 1, 1);
		verif_now += 61 + (verif_now % 7);
		return session(&p, 0, 0);
	}
	return 0;
}
