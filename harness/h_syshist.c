/* h_syshist.c -- whole-system histories: the real client (client.c) and the real server
 * (iodined.c) in one process with an adversarial scheduler in between.  A scripted session
 * set-up (version, login, codec / downstream codec / lazy / fragment-size requests built by the
 * real client functions and processed by the real server) is followed by scheduler events; each
 * event is one iteration of one program's select loop.  In-flight datagrams are kept in two
 * queues and delivered, duplicated, dropped, re-ordered or re-sent with a rewritten DNS id and
 * randomised letter case as the event list says.  After every event the packets written to the
 * two tun devices, the queue lengths and digests of both programs' states are printed.
 * zlib and login_calculate are replaced by the functions the model is instantiated with.
 *
 * Y qtype upcodec downenc lazy fragsize maxlen checkip selecttimeout chunkid seed now ; events
 *   CU pkthex | SU pkthex | C2S k mode newid mask | S2C k mode | CT | SS | TICK secs          */
#include "wire.h"
#include <zlib.h>

#include "digest.inc"

void wire_srand(unsigned long s);
void cli_send_handshake_query(const char *prefix);

#include "zcontract.h"

int __wrap_compress2(unsigned char *dest, unsigned long *destLen, const unsigned char *source, unsigned long sourceLen, int level);
int __wrap_compress2(unsigned char *dest, unsigned long *destLen, const unsigned char *source, unsigned long sourceLen, int level)
{
	(void)level;
	ZCONTRACT("compress2", dest, destLen, source, sourceLen);
	if (*destLen < sourceLen + 1)
		return Z_BUF_ERROR;
	dest[0] = 0x5A;
	memcpy(dest + 1, source, sourceLen);
	*destLen = sourceLen + 1;
	return Z_OK;
}

int __wrap_uncompress(unsigned char *dest, unsigned long *destLen, const unsigned char *source, unsigned long sourceLen);
int __wrap_uncompress(unsigned char *dest, unsigned long *destLen, const unsigned char *source, unsigned long sourceLen)
{
	ZCONTRACT("uncompress", dest, destLen, source, sourceLen);
	if (sourceLen < 1 || source[0] != 0x5A)
		return Z_DATA_ERROR;
	if (sourceLen - 1 > *destLen)
		return Z_BUF_ERROR;
	memcpy(dest, source + 1, sourceLen - 1);
	*destLen = sourceLen - 1;
	return Z_OK;
}

void __wrap_login_calculate(char *buf, int buflen, const char *pass, int seed);
void __wrap_login_calculate(char *buf, int buflen, const char *pass, int seed)
{
	int i;
	unsigned int s = (unsigned int)seed;
	if (buflen < 16)
		return;
	for (i = 0; i < 16; i++)
		buf[i] = (char)(((unsigned char)pass[i] + ((s >> (8 * (i % 4))) & 0xff) * (i + 1)) & 0xff);
}

#define QMAX 256
struct dq {
	int len;
	unsigned char *data;
};
static struct dq c2s[QMAX], s2c[QMAX];
static int n_c2s, n_s2c;

struct idm {
	int newid;
	int len;
	unsigned char data[600];
};
static struct idm idmap[512];
static int n_idmap;

static unsigned char tun_srv[16][65536], tun_cli[16][65536];
static int tun_srv_len[16], tun_cli_len[16], n_tun_srv, n_tun_cli;
static int in_server_now;
static unsigned long evno;

static void q_push(struct dq *q, int *n, const unsigned char *d, int len)
{
	if (*n >= QMAX)
		return;
	q[*n].data = malloc(len ? len : 1);
	memcpy(q[*n].data, d, len);
	q[*n].len = len;
	(*n)++;
}

static void q_remove(struct dq *q, int *n, int k)
{
	free(q[k].data);
	memmove(&q[k], &q[k + 1], sizeof(q[0]) * (*n - k - 1));
	(*n)--;
}

static void q_clear(struct dq *q, int *n)
{
	while (*n > 0)
		q_remove(q, n, *n - 1);
}

static void map_back(unsigned char *d, int len)
{
	int id, i, p;
	if (len < 12)
		return;
	id = (d[0] << 8) | d[1];
	for (i = n_idmap - 1; i >= 0; i--)
		if (idmap[i].newid == id)
			break;
	if (i < 0)
		return;
	d[0] = idmap[i].data[0];
	d[1] = idmap[i].data[1];
	p = 12;
	{
		int fuel = 64;
		while (fuel-- > 0 && p < len && d[p] != 0 && d[p] < 64 && p < idmap[i].len && d[p] == idmap[i].data[p]) {
			int l = d[p];
			if (p + 1 + l > len || p + 1 + l > idmap[i].len)
				break;
			memcpy(d + p + 1, idmap[i].data + p + 1, l);
			p += 1 + l;
		}
	}
}

/* capture everything both programs send / write */
static void on_sendto(int fd, const void *buf, size_t len, const struct sockaddr *to, socklen_t tolen)
{
	(void)tolen;
	if (fd == 20) {
		q_push(c2s, &n_c2s, buf, (int)len);
	} else if (fd == 10) {
		/* only datagrams addressed to the client */
		const struct sockaddr_in *a = (const struct sockaddr_in *)to;
		static unsigned char tmp[65536];
		int l = len > sizeof(tmp) ? (int)sizeof(tmp) : (int)len;
		if (!a || a->sin_family != AF_INET || ntohs(a->sin_port) != 4000)
			return;
		memcpy(tmp, buf, l);
		map_back(tmp, l);
		q_push(s2c, &n_s2c, tmp, l);
	}
}

int __wrap_write_tun2(int fd, char *data, size_t len);

static void collect_tun(void)
{
	/* wire_net.c records all write_tun calls; the caller tells which program was running */
	int i;
	for (i = 0; i < tun_written_count; i++) {
		if (in_server_now) {
			if (n_tun_srv < 16) { memcpy(tun_srv[n_tun_srv], tun_written[i], tun_written_len[i]); tun_srv_len[n_tun_srv++] = tun_written_len[i]; }
		} else {
			if (n_tun_cli < 16) { memcpy(tun_cli[n_tun_cli], tun_written[i], tun_written_len[i]); tun_cli_len[n_tun_cli++] = tun_written_len[i]; }
		}
	}
	tun_written_count = 0;
}

static void set_client_from(void)
{
	struct sockaddr_in *a = (struct sockaddr_in *)&inj_from;
	memset(&inj_from, 0, sizeof(inj_from));
	a->sin_family = AF_INET;
	a->sin_port = htons(4000);
	a->sin_addr.s_addr = inet_addr("192.0.2.7");
	inj_fromlen = sizeof(struct sockaddr_in);
	inj_dest_family = 4;
	inj_dest4[0] = 10; inj_dest4[1] = 1; inj_dest4[2] = 2; inj_dest4[3] = 3;
}

static void srv_iter_dgram(const unsigned char *d, int len)
{
	in_server_now = 1;
	tun_written_count = 0;
	wire_srand(evno);
	srv_sweep_clear();
	if (d) {
		set_client_from();
		inj_set(d, len);
		inj_residue = 0;
		srv_tunnel_dns();
	}
	srv_sweep_send();
	collect_tun();
	in_server_now = 0;
	evno++;
}

static void srv_iter_tun(void)
{
	in_server_now = 1;
	tun_written_count = 0;
	wire_srand(evno);
	srv_sweep_clear();
	srv_tunnel_tun();
	srv_sweep_send();
	collect_tun();
	in_server_now = 0;
	evno++;
}

/* deliver all queued client datagrams to the server, drop the answers (set-up phase) */
static void setup_exchange(void)
{
	while (n_c2s > 0) {
		static unsigned char d[65536];
		int len = c2s[0].len;
		memcpy(d, c2s[0].data, len);
		q_remove(c2s, &n_c2s, 0);
		srv_iter_dgram(d, len);
		q_clear(s2c, &n_s2c);
	}
}

static char *tok(char **p)
{
	char *s = *p, *e;
	while (*s == ' ') s++;
	if (!*s) return NULL;
	e = s;
	while (*e && *e != ' ') e++;
	if (*e) { *e = 0; e++; }
	*p = e;
	return s;
}

static unsigned char evbuf[MAXLINE / 2];

static void print_event(void)
{
	int i;
	printf("S%d", n_tun_srv);
	for (i = 0; i < n_tun_srv; i++) { putchar(' '); putsum(tun_srv[i], tun_srv_len[i]); }
	printf(" C%d", n_tun_cli);
	for (i = 0; i < n_tun_cli; i++) { putchar(' '); putsum(tun_cli[i], tun_cli_len[i]); }
	printf(" Q%d/%d | ", n_c2s, n_s2c);
	print_cli_state();
	printf(" | ");
	print_srv_state();
}

int handle_line(char *l)
{
	char *p = l, *t, *ev, *save;
	int qtype, upcodec, downenc, lazy, fragsize, maxlen, checkip, st, chunkid, seed, first = 1;
	long now;
	unsigned char hash[16];
	char pre[8];
	int bits;

	t = tok(&p);
	if (strcmp(t, "Y"))
		return 0;
	qtype = atoi(tok(&p)); upcodec = atoi(tok(&p)); downenc = atoi(tok(&p)); lazy = atoi(tok(&p));
	fragsize = atoi(tok(&p)); maxlen = atoi(tok(&p)); checkip = atoi(tok(&p)); st = atoi(tok(&p));
	chunkid = atoi(tok(&p)); seed = atoi(tok(&p)); now = atol(tok(&p));

	q_clear(c2s, &n_c2s);
	q_clear(s2c, &n_s2c);
	n_idmap = 0;
	evno = 0;
	verif_now = now;
	wire_sendto_hook = on_sendto;
	srv_init("t.example.com", "sesame", checkip, "10.0.0.1", 27, 1130);
	cli_init("t.example.com", 0, upcodec, maxlen, qtype, (char)downenc, lazy, 1);
	cli_set_edns0(1);
	cli_set_chunkid(chunkid);
	cli_set_rand_seed(seed);
	cap_reset();

	/* scripted set-up with the real builders */
	cli_send_version(0x502);
	setup_exchange();
	__wrap_login_calculate((char *)hash, 16, "sesame\0\0\0\0\0\0\0\0\0\0\0\0\0\0\0\0\0\0\0\0\0\0\0\0\0\0\0", srv_user(0)->seed);
	cli_send_login(hash, 16);
	setup_exchange();
	if (upcodec != 0) {
		bits = upcodec == 1 ? 6 : upcodec == 2 ? 26 : 7;
		pre[0] = 's'; pre[1] = b32_5to8(0); pre[2] = b32_5to8(bits); pre[3] = 0;
		cli_send_handshake_query(pre);
		setup_exchange();
	}
	if (downenc != 'T') {
		pre[0] = 'o'; pre[1] = b32_5to8(0); pre[2] = tolower(downenc); pre[3] = 0;
		cli_send_handshake_query(pre);
		setup_exchange();
	}
	if (lazy) {
		pre[0] = 'o'; pre[1] = b32_5to8(0); pre[2] = 'l'; pre[3] = 0;
		cli_send_handshake_query(pre);
		setup_exchange();
	}
	cli_send_set_fragsize(fragsize);
	setup_exchange();
	q_clear(c2s, &n_c2s);
	q_clear(s2c, &n_s2c);
	cli_setup_tunnel(st, cli_chunkid(), seed + 100, now);

	for (ev = strtok_r(p, ";", &save); ev; ev = strtok_r(NULL, ";", &save)) {
		char *q = ev, *k = tok(&q);
		if (!k)
			continue;
		if (!first)
			printf(" ; ");
		first = 0;
		n_tun_srv = n_tun_cli = 0;
		tun_written_count = 0;
		if (!strcmp(k, "TICK")) {
			verif_now += atol(tok(&q));
		} else if (!strcmp(k, "CU") || !strcmp(k, "CT") || !strcmp(k, "S2C")) {
			static unsigned char d[65536];
			int dl = -1, skip = 0;
			if (!strcmp(k, "S2C")) {
				int idx = atoi(tok(&q)), mode = atoi(tok(&q));
				if (idx < 0 || idx >= n_s2c)
					skip = 1;
				else {
					dl = s2c[idx].len;
					memcpy(d, s2c[idx].data, dl);
					if (mode != 1)
						q_remove(s2c, &n_s2c, idx);
					if (mode == 2)
						skip = 1;
				}
			}
			if (!skip) {
				cli_watchdog();
				if (cli_running()) {
					if (!strcmp(k, "CU")) {
						tun_in_len = unhex(tok(&q), tun_in);
						if (cli_reads_tun())
							cli_tunnel_tun();
					} else if (!strcmp(k, "CT")) {
						cli_timeout();
					} else {
						inj_set(d, dl);
						inj_residue = 0;
						cli_tunnel_dns();
					}
				}
				collect_tun();
				evno++;
			}
		} else if (!strcmp(k, "SU")) {
			tun_in_len = unhex(tok(&q), tun_in);
			srv_iter_tun();
		} else if (!strcmp(k, "SS")) {
			srv_iter_dgram(NULL, 0);
		} else if (!strcmp(k, "C2S")) {
			int idx = atoi(tok(&q)), mode = atoi(tok(&q)), newid = atoi(tok(&q));
			unsigned long mask = strtoul(tok(&q), NULL, 10);
			if (idx >= 0 && idx < n_c2s) {
				static unsigned char d[65536];
				int dl = c2s[idx].len;
				memcpy(d, c2s[idx].data, dl);
				if (mode == 0 || mode == 2)
					q_remove(c2s, &n_c2s, idx);
				if (mode != 2) {
					if (mode == 3 && dl >= 12 && memcmp(d, raw_header, 3)) {
						int pp = 12, fuel = 64;
						if (n_idmap < 512) {
							idmap[n_idmap].newid = newid & 0xffff;
							idmap[n_idmap].len = dl > 600 ? 600 : dl;
							memcpy(idmap[n_idmap].data, d, idmap[n_idmap].len);
							n_idmap++;
						}
						while (fuel-- > 0 && pp < dl && d[pp] != 0 && d[pp] < 64) {
							int ll = d[pp], i;
							for (i = 0; i < ll && pp + 1 + i < dl; i++) {
								unsigned char ch = d[pp + 1 + i];
								if (((mask >> ((pp + i) % 29)) & 1) &&
								    ((ch >= 'A' && ch <= 'Z') || (ch >= 'a' && ch <= 'z')))
									d[pp + 1 + i] = ch ^ 0x20;
							}
							pp += 1 + ll;
						}
						d[0] = (newid >> 8) & 0xff;
						d[1] = newid & 0xff;
					}
					srv_iter_dgram(d, dl);
				}
			}
		} else {
			printf("BADEVENT");
			continue;
		}
		print_event();
	}
	putchar('\n');
	wire_sendto_hook = NULL;
	return 1;
}
