/* h_clihist.c -- client histories: a sequence of events (packets from the tun device, datagrams
 * on the DNS socket, select() time-outs) is run through the real client.c tunnelling code
 * (tunnel_tun, tunnel_dns, the timeout branch and watchdog of client_tunnel); after every event
 * the datagrams sent, the packets written to tun and a digest of the client state are printed.
 * Answers can be given as raw datagrams or built by the real server's write_dns ("A" events).
 * zlib is replaced by the framing codec the model is instantiated with. */
#include "wire.h"
#include <zlib.h>

#include "digest.inc"

int __wrap_compress2(unsigned char *dest, unsigned long *destLen, const unsigned char *source, unsigned long sourceLen, int level);
int __wrap_compress2(unsigned char *dest, unsigned long *destLen, const unsigned char *source, unsigned long sourceLen, int level)
{
	(void)level;
	if (*destLen < sourceLen + 1)
		return Z_BUF_ERROR;
	dest[0] = 0x5A;
	memcpy(dest + 1, source, sourceLen);
	*destLen = sourceLen + 1;
	return Z_OK;
}

int __wrap_uncompress(unsigned char *dest, unsigned long *destLen, const unsigned char *source, unsigned long sourceLen);
int __wrap_uncompress(unsigned char *dest, unsigned long *destLen, const unsigned char *source, unsigned long sourceLen)
{
	if (sourceLen < 1 || source[0] != 0x5A)
		return Z_DATA_ERROR;
	if (sourceLen - 1 > *destLen)
		return Z_BUF_ERROR;
	memcpy(dest, source + 1, sourceLen - 1);
	*destLen = sourceLen - 1;
	return Z_OK;
}

static char *tok(char **p)
{
	char *s = *p, *e;
	while (*s == ' ') s++;
	if (!*s) return NULL;
	e = s;
	while (*e && *e != ' ') e++;
	if (*e) { *e = 0; e++; }
	*p = e;
	return s;
}

static void print_all(void)
{
	int i;
	printf("%d", cap_count);
	for (i = 0; i < cap_count; i++) {
		putchar(' ');
		putsum(cap[i].data, cap[i].len);
	}
	printf(" T%d", tun_written_count);
	for (i = 0; i < tun_written_count; i++) {
		putchar(' ');
		putsum(tun_written[i], tun_written_len[i]);
	}
	printf(" | ");
	print_cli_state();
}

static unsigned char evbuf[MAXLINE / 2];

/* J uid domainhex codec maxlen qtype edns0 lazy dns selecttimeout chunkid seed now ; events…
 *   U now pkthex                     packet from tun
 *   D now dgramhex                   datagram on the DNS socket
 *   A now idmode first qtype downenc ackmode datahex
 *        answer built by the real server's write_dns; idmode 0/1/2: DNS id = chunkid / prev / prev2 of the
 *        client at that moment, else idmode itself; first = first char of the question name;
 *        ackmode 1: overwrite the upstream-ack nibble pair of data[0] with the client's current
 *        (out seqno, out fragment); 2: same with fragment-1; 0: leave data as given
 *   O now                            select() timeout */
int handle_line(char *l)
{
	char *p = l, *t, *ev, *save;
	char dom[300];
	int uid, codec, maxlen, qtype, edns, lazy, dns, st, chunkid, seed, n, first = 1;
	long now;

	t = tok(&p);
	if (strcmp(t, "J"))
		return 0;
	uid = atoi(tok(&p));
	n = unhex(tok(&p), in); memcpy(dom, in, n); dom[n] = 0;
	codec = atoi(tok(&p));
	maxlen = atoi(tok(&p));
	qtype = atoi(tok(&p));
	edns = atoi(tok(&p));
	lazy = atoi(tok(&p));
	dns = atoi(tok(&p));
	st = atoi(tok(&p));
	chunkid = atoi(tok(&p));
	seed = atoi(tok(&p));
	now = atol(tok(&p));
	srv_init("t.example.com", "x", 1, "10.0.0.1", 27, 1130);
	cli_init(dom, uid, codec, maxlen, qtype, 'T', lazy, dns);
	cli_set_edns0(edns);
	verif_now = now;
	cli_setup_tunnel(st, chunkid, seed, now);

	for (ev = strtok_r(p, ";", &save); ev; ev = strtok_r(NULL, ";", &save)) {
		char *q = ev, *k = tok(&q);
		if (!k)
			continue;
		if (!first)
			printf(" ; ");
		first = 0;
		cap_reset();
		verif_now = atol(tok(&q));
		cli_watchdog();
		if (!cli_running()) {
			print_all();
			continue;
		}
		if (!strcmp(k, "U")) {
			tun_in_len = unhex(tok(&q), tun_in);
			if (cli_reads_tun())
				cli_tunnel_tun();
		} else if (!strcmp(k, "D")) {
			n = unhex(tok(&q), evbuf);
			inj_set(evbuf, n);
			inj_residue = 0;
			cli_tunnel_dns();
		} else if (!strcmp(k, "A")) {
			struct query sq;
			struct cli_view v;
			int idmode = atoi(tok(&q));
			int firstc = atoi(tok(&q));
			int aqtype = atoi(tok(&q));
			int denc = atoi(tok(&q));
			int ackmode = atoi(tok(&q));
			int savedcount;
			n = unhex(tok(&q), evbuf);
			cli_view(&v);
			memset(&sq, 0, sizeof(sq));
			snprintf(sq.name, sizeof(sq.name), "%caaaa.t.example.com", firstc);
			sq.type = aqtype;
			sq.id = idmode == 0 ? v.chunkid : idmode == 1 ? v.prev : idmode == 2 ? v.prev2 : idmode;
			sq.fromlen = sizeof(struct sockaddr_in);
			if (n >= 1 && ackmode) {
				int fr = (v.out_fragment - (ackmode == 2 ? 1 : 0)) & 15;
				evbuf[0] = (evbuf[0] & 0x80) | ((v.out_seqno & 7) << 4) | fr;
			}
			srv_write_dns(&sq, (char *)evbuf, n, (char)denc);
			savedcount = cap_count;
			if (savedcount >= 1) {
				static unsigned char dg[65536];
				int dl = cap[savedcount - 1].len;
				memcpy(dg, cap[savedcount - 1].data, dl);
				cap_reset();
				inj_set(dg, dl);
				inj_residue = 0;
				cli_tunnel_dns();
			}
		} else if (!strcmp(k, "O")) {
			cli_timeout();
		} else {
			printf("BADEVENT");
			continue;
		}
		print_all();
	}
	putchar('\n');
	return 1;
}
