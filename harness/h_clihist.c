/* h_clihist.c -- client histories: a sequence of events (packets from the tun device, datagrams
 * on the DNS socket, select() time-outs) is run through the real client.c tunnelling code
 * (tunnel_tun, tunnel_dns, the timeout branch and watchdog of client_tunnel); after every event
 * the datagrams sent, the packets written to tun and a digest of the client state are printed.
 * Answers can be given as raw datagrams or built by the real server's write_dns ("A" events).
 * zlib is replaced by the framing codec the model is instantiated with. */
#include "wire.h"
#include <zlib.h>

#include "digest.inc"

#include "zcontract.h"

int __wrap_compress2(unsigned char *dest, unsigned long *destLen, const unsigned char *source, unsigned long sourceLen, int level);
int __wrap_compress2(unsigned char *dest, unsigned long *destLen, const unsigned char *source, unsigned long sourceLen, int level)
{
	(void)level;
	ZCONTRACT("compress2", dest, destLen, source, sourceLen);
	if (*destLen < sourceLen + 1)
		return Z_BUF_ERROR;
	dest[0] = 0x5A;
	memcpy(dest + 1, source, sourceLen);
	*destLen = sourceLen + 1;
	return Z_OK;
}

int __wrap_uncompress(unsigned char *dest, unsigned long *destLen, const unsigned char *source, unsigned long sourceLen);
int __wrap_uncompress(unsigned char *dest, unsigned long *destLen, const unsigned char *source, unsigned long sourceLen)
{
	ZCONTRACT("uncompress", dest, destLen, source, sourceLen);
	if (sourceLen < 1 || source[0] != 0x5A)
		return Z_DATA_ERROR;
	if (sourceLen - 1 > *destLen)
		return Z_BUF_ERROR;
	memcpy(dest, source + 1, sourceLen - 1);
	*destLen = sourceLen - 1;
	return Z_OK;
}

static char *tok(char **p)
{
	char *s = *p, *e;
	while (*s == ' ') s++;
	if (!*s) return NULL;
	e = s;
	while (*e && *e != ' ') e++;
	if (*e) { *e = 0; e++; }
	*p = e;
	return s;
}

static void print_all(void)
{
	int i;
	printf("%d", cap_count);
	for (i = 0; i < cap_count; i++) {
		putchar(' ');
		putsum(cap[i].data, cap[i].len);
	}
	printf(" T%d", tun_written_count);
	for (i = 0; i < tun_written_count; i++) {
		putchar(' ');
		putsum(tun_written[i], tun_written_len[i]);
	}
	printf(" | ");
	print_cli_state();
}

static unsigned char evbuf[MAXLINE / 2];

/* ---- T lines: the same events fed to the REAL select loop client_tunnel() through the wrapped select() -------
 * T <same header as J> ; events…     U/D/A/O as for J lines, plus
 *   B now pkthex dgramhex            tun packet and datagram readable in the same iteration
 * One select() call consumes one event.  A tun packet offered while the tun device is not in the read set is
 * dropped and the select times out; a datagram the loop did not read in its iteration (`continue`) is dropped. */
int client_tunnel(int tun_fd, int dns_fd);
void client_stop(void);

static char *loop_save;
static int loop_started;
static int loop_first;

static void loop_flush(void)
{
	if (!loop_started)
		return;
	if (!loop_first)
		printf(" ; ");
	loop_first = 0;
	print_all();
}

/* select() calls made inside a handler (handshake_lazyoff waiting for replies to its option queries): nothing
   arrives, and the virtual clock stands still during one loop iteration */
static int nested_select(int nfds, fd_set *rfds, struct timeval *tv)
{
	(void)nfds; (void)tv;
	if (rfds)
		FD_ZERO(rfds);
	return 0;
}

static int loop_select(int nfds, fd_set *rfds, struct timeval *tv)
{
	char *ev, *q, *k;
	int tun_sel = rfds && FD_ISSET(21, rfds);
	int n, ready_tun = 0, ready_dns = 0;
	if (nfds != 22)			/* the main loop selects on MAX(tun_fd, dns_fd) + 1 = 22 */
		return nested_select(nfds, rfds, tv);
	loop_flush();
	loop_started = 1;
	cap_reset();
	if (rfds)
		FD_ZERO(rfds);
	tun_in_len = 0;
	inj_len = 0;
	for (;;) {
		ev = strtok_r(NULL, ";", &loop_save);
		if (!ev) {
			loop_started = 0;
			client_stop();
			return 0;
		}
		q = ev;
		k = tok(&q);
		if (k)
			break;
	}
	verif_now = atol(tok(&q));
	if (!strcmp(k, "O")) {
		return 0;
	} else if (!strcmp(k, "U") || !strcmp(k, "B")) {
		tun_in_len = unhex(tok(&q), tun_in);
		ready_tun = tun_sel;
		if (!strcmp(k, "B")) {
			n = unhex(tok(&q), evbuf);
			inj_set(evbuf, n);
			inj_residue = 0;
			ready_dns = 1;
		}
	} else if (!strcmp(k, "D")) {
		n = unhex(tok(&q), evbuf);
		inj_set(evbuf, n);
		inj_residue = 0;
		ready_dns = 1;
	} else if (!strcmp(k, "A")) {
		struct query sq;
		struct cli_view v;
		int idmode = atoi(tok(&q));
		int firstc = atoi(tok(&q));
		int aqtype = atoi(tok(&q));
		int denc = atoi(tok(&q));
		int ackmode = atoi(tok(&q));
		n = unhex(tok(&q), evbuf);
		/* the watchdog runs first in the loop: when it is about to stop the client no answer is built (as for J lines) */
		cli_view(&v);
		if (v.lastdown + 60 < verif_now)
			return 0;
		memset(&sq, 0, sizeof(sq));
		snprintf(sq.name, sizeof(sq.name), "%caaaa.t.example.com", firstc);
		sq.type = aqtype;
		sq.id = idmode == 0 ? v.chunkid : idmode == 1 ? v.prev : idmode == 2 ? v.prev2 : idmode;
		sq.fromlen = sizeof(struct sockaddr_in);
		if (n >= 1 && ackmode) {
			int fr = (v.out_fragment - (ackmode == 2 ? 1 : 0)) & 15;
			evbuf[0] = (evbuf[0] & 0x80) | ((v.out_seqno & 7) << 4) | fr;
		}
		srv_write_dns(&sq, (char *)evbuf, n, (char)denc);
		if (cap_count >= 1) {
			static unsigned char dg[65536];
			int dl = cap[cap_count - 1].len;
			memcpy(dg, cap[cap_count - 1].data, dl);
			cap_reset();
			inj_set(dg, dl);
			inj_residue = 0;
			ready_dns = 1;
		} else {
			cap_reset();
			return 0;
		}
	} else {
		printf("BADEVENT");
		return 0;
	}
	if (ready_tun && rfds)
		FD_SET(21, rfds);
	if (ready_dns && rfds)
		FD_SET(20, rfds);
	return ready_tun + ready_dns;
}

/* J uid domainhex codec maxlen qtype edns0 lazy dns selecttimeout chunkid seed now ; events…
 *   U now pkthex                     packet from tun
 *   D now dgramhex                   datagram on the DNS socket
 *   A now idmode first qtype downenc ackmode datahex
 *        answer built by the real server's write_dns; idmode 0/1/2: DNS id = chunkid / prev / prev2 of the
 *        client at that moment, else idmode itself; first = first char of the question name;
 *        ackmode 1: overwrite the upstream-ack nibble pair of data[0] with the client's current
 *        (out seqno, out fragment); 2: same with fragment-1; 0: leave data as given
 *   O now                            select() timeout */
int handle_line(char *l)
{
	char *p = l, *t, *ev, *save;
	char dom[300];
	int uid, codec, maxlen, qtype, edns, lazy, dns, st, chunkid, seed, n, first = 1;
	long now;

	int loopmode;
	t = tok(&p);
	if (strcmp(t, "J") && strcmp(t, "T"))
		return 0;
	loopmode = !strcmp(t, "T");
	uid = atoi(tok(&p));
	n = unhex(tok(&p), in); memcpy(dom, in, n); dom[n] = 0;
	codec = atoi(tok(&p));
	maxlen = atoi(tok(&p));
	qtype = atoi(tok(&p));
	edns = atoi(tok(&p));
	lazy = atoi(tok(&p));
	dns = atoi(tok(&p));
	st = atoi(tok(&p));
	chunkid = atoi(tok(&p));
	seed = atoi(tok(&p));
	now = atol(tok(&p));
	srv_init("t.example.com", "x", 1, "10.0.0.1", 27, 1130);
	cli_init(dom, uid, codec, maxlen, qtype, 'T', lazy, dns);
	cli_set_edns0(edns);
	verif_now = now;
	cli_setup_tunnel(st, chunkid, seed, now);
	wire_select_hook = nested_select;
	if (loopmode) {
		/* hand the rest of the line to the select() hook and run the real loop until the script ends */
		char *rest;
		loop_save = p;
		loop_started = 0;
		loop_first = 1;
		wire_select_hook = loop_select;
		client_tunnel(21, 20);
		wire_select_hook = NULL;
		loop_flush();
		loop_started = 0;
		/* events after the watchdog stopped the client: the loop has ended, nothing happens any more */
		while ((rest = strtok_r(NULL, ";", &loop_save)) != NULL) {
			char *q = rest;
			if (!tok(&q))
				continue;
			cap_reset();
			if (!loop_first)
				printf(" ; ");
			loop_first = 0;
			print_all();
		}
		putchar('\n');
		return 1;
	}

	for (ev = strtok_r(p, ";", &save); ev; ev = strtok_r(NULL, ";", &save)) {
		char *q = ev, *k = tok(&q);
		if (!k)
			continue;
		if (!first)
			printf(" ; ");
		first = 0;
		cap_reset();
		verif_now = atol(tok(&q));
		cli_watchdog();
		if (!cli_running()) {
			print_all();
			continue;
		}
		if (!strcmp(k, "U")) {
			tun_in_len = unhex(tok(&q), tun_in);
			if (cli_reads_tun())
				cli_tunnel_tun();
		} else if (!strcmp(k, "D")) {
			n = unhex(tok(&q), evbuf);
			inj_set(evbuf, n);
			inj_residue = 0;
			cli_tunnel_dns();
		} else if (!strcmp(k, "A")) {
			struct query sq;
			struct cli_view v;
			int idmode = atoi(tok(&q));
			int firstc = atoi(tok(&q));
			int aqtype = atoi(tok(&q));
			int denc = atoi(tok(&q));
			int ackmode = atoi(tok(&q));
			int savedcount;
			n = unhex(tok(&q), evbuf);
			cli_view(&v);
			memset(&sq, 0, sizeof(sq));
			snprintf(sq.name, sizeof(sq.name), "%caaaa.t.example.com", firstc);
			sq.type = aqtype;
			sq.id = idmode == 0 ? v.chunkid : idmode == 1 ? v.prev : idmode == 2 ? v.prev2 : idmode;
			sq.fromlen = sizeof(struct sockaddr_in);
			if (n >= 1 && ackmode) {
				int fr = (v.out_fragment - (ackmode == 2 ? 1 : 0)) & 15;
				evbuf[0] = (evbuf[0] & 0x80) | ((v.out_seqno & 7) << 4) | fr;
			}
			srv_write_dns(&sq, (char *)evbuf, n, (char)denc);
			savedcount = cap_count;
			if (savedcount >= 1) {
				static unsigned char dg[65536];
				int dl = cap[savedcount - 1].len;
				memcpy(dg, cap[savedcount - 1].data, dl);
				cap_reset();
				inj_set(dg, dl);
				inj_residue = 0;
				cli_tunnel_dns();
			}
		} else if (!strcmp(k, "O")) {
			cli_timeout();
		} else {
			printf("BADEVENT");
			continue;
		}
		print_all();
	}
	putchar('\n');
	return 1;
}
