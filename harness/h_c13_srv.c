/* h_c13_srv.c -- C13: the snapshot's iodined.c as a translation unit, used only for its static
 * write_dns(): the login reply is put on the wire by the real server encoder under every
 * query type / downstream encoding (NULL, PRIVATE, TXT t/s/u/v/r, CNAME/A h/i/j/k, MX, SRV).
 * sendto() is intercepted at link time (h_c13.c) and recognises the fd below. */
#define main iodined_main
#include "iodined.c"	/* found through -I <snapshot>/src */
#undef main

#define C13_SRV_FD (-4213)

void c13_server_answer(struct query *q, const char *data, int datalen, char downenc);
void c13_server_answer(struct query *q, const char *data, int datalen, char downenc)
{
	write_dns(C13_SRV_FD, q, data, datalen, downenc);
}
