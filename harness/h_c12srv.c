/* h_c12srv.c -- C12, end-to-end variant on the server: the server histories of h_srvhist.c (real
 * iodined.c dispatcher, every event of a history in sequence) with a chosen content of the 64 KB
 * receive buffer beyond each datagram.  Case line:
 *
 *     R <residue> H <config> ; <event> ; ...        (the rest is exactly a h_srvhist.c line)
 *
 * residue 0..4: the wrapped recvmsg()/recvfrom() pre-fill the caller's whole buffer with pattern
 * <residue> of wire_net.c residue_fill before copying the datagram; -1: the buffer is left alone,
 * i.e. it really holds what the earlier (longer) datagrams of the history left on the stack.
 * h_srvhist.c itself is unchanged: it is included here with its writes `inj_residue = 0` redirected
 * to a dummy and its handle_line renamed. */
#include "wire.h"

static int c12_ignored_residue;
#define inj_residue c12_ignored_residue
#define handle_line srvhist_handle_line
#include "h_srvhist.c"
#undef handle_line
#undef inj_residue

int handle_line(char *l)
{
	char *p = l;
	while (*p == ' ')
		p++;
	if (p[0] != 'R' || p[1] != ' ')
		return 0;
	inj_residue = (int)strtol(p + 2, &p, 10);
	while (*p == ' ')
		p++;
	return srvhist_handle_line(p);
}
