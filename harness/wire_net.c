/* wire_net.c -- link-time replacements for the socket / tun / process interfaces */
#include "wire.h"
#include <sys/uio.h>
#include <sys/select.h>

struct capture cap[CAPMAX];
int cap_count;
unsigned char inj_data[65536];
int inj_len;
struct sockaddr_storage inj_from;
socklen_t inj_fromlen;
int inj_residue = -1;
int inj_dest_family;
unsigned char inj_dest4[4];
unsigned char inj_dest6[16];
unsigned char tun_written[16][65536];
int tun_written_len[16];
int tun_written_count;
unsigned char tun_in[65536];
int tun_in_len;
char sys_cmds[8][1024];
int sys_count;
int sys_ret;

void cap_reset(void)
{
	cap_count = 0;
	tun_written_count = 0;
	sys_count = 0;
}

void inj_set(const unsigned char *d, int len)
{
	memcpy(inj_data, d, len);
	inj_len = len;
	if (inj_fromlen == 0) {
		struct sockaddr_in *a = (struct sockaddr_in *)&inj_from;
		memset(&inj_from, 0, sizeof(inj_from));
		a->sin_family = AF_INET;
		a->sin_port = htons(5353);
		a->sin_addr.s_addr = inet_addr("192.0.2.1");
		inj_fromlen = sizeof(struct sockaddr_in);
	}
}

void residue_fill(unsigned char *buf, size_t capacity, int pattern)
{
	size_t i;
	if (pattern < 0)
		return;
	for (i = 0; i < capacity; i++) {
		switch (pattern) {
		case 0: buf[i] = 0; break;
		case 1: buf[i] = 0xff; break;
		case 2: buf[i] = (unsigned char)(i * 7 + 3); break;
		/* a plausible earlier datagram: labels and letters */
		case 3: buf[i] = (i % 9 == 0) ? 8 : (unsigned char)('a' + (i % 23)); break;
		default: buf[i] = (unsigned char)(0xC0 | (i & 0x0f)); break;
		}
	}
}

ssize_t __wrap_sendto(int fd, const void *buf, size_t len, int flags, const struct sockaddr *to, socklen_t tolen);
/* optional hooks (used by h_handshake.c): called after capturing a datagram / instead of the
   default select() behaviour */
void (*wire_sendto_hook)(int fd, const void *buf, size_t len, const struct sockaddr *to, socklen_t tolen);
int (*wire_select_hook)(int nfds, fd_set *rfds, struct timeval *tv);

ssize_t __wrap_sendto(int fd, const void *buf, size_t len, int flags, const struct sockaddr *to, socklen_t tolen)
{
	(void)flags;
	if (wire_sendto_hook) {
		wire_sendto_hook(fd, buf, len, to, tolen);
		return len;
	}
	if (cap_count < CAPMAX) {
		struct capture *c = &cap[cap_count++];
		c->fd = fd;
		c->len = len > sizeof(c->data) ? (int)sizeof(c->data) : (int)len;
		memcpy(c->data, buf, c->len);
		memset(&c->to, 0, sizeof(c->to));
		c->tolen = tolen;
		if (to && tolen <= sizeof(c->to))
			memcpy(&c->to, to, tolen);
	}
	return len;
}

ssize_t __wrap_recvfrom(int fd, void *buf, size_t len, int flags, struct sockaddr *from, socklen_t *fromlen);
ssize_t __wrap_recvfrom(int fd, void *buf, size_t len, int flags, struct sockaddr *from, socklen_t *fromlen)
{
	int n = inj_len;
	(void)fd; (void)flags;
	residue_fill(buf, len, inj_residue);
	if ((size_t)n > len)
		n = len;
	memcpy(buf, inj_data, n);
	if (from && fromlen) {
		socklen_t l = inj_fromlen < *fromlen ? inj_fromlen : *fromlen;
		memcpy(from, &inj_from, l);
		*fromlen = inj_fromlen;
	}
	return n;
}

ssize_t __wrap_recv(int fd, void *buf, size_t len, int flags);
ssize_t __wrap_recv(int fd, void *buf, size_t len, int flags)
{
	return __wrap_recvfrom(fd, buf, len, flags, NULL, NULL);
}

ssize_t __wrap_recvmsg(int fd, struct msghdr *msg, int flags);
ssize_t __wrap_recvmsg(int fd, struct msghdr *msg, int flags)
{
	int n = inj_len;
	(void)fd; (void)flags;
	residue_fill(msg->msg_iov[0].iov_base, msg->msg_iov[0].iov_len, inj_residue);
	if ((size_t)n > msg->msg_iov[0].iov_len)
		n = msg->msg_iov[0].iov_len;
	memcpy(msg->msg_iov[0].iov_base, inj_data, n);
	if (msg->msg_name) {
		socklen_t l = inj_fromlen < msg->msg_namelen ? inj_fromlen : msg->msg_namelen;
		memcpy(msg->msg_name, &inj_from, l);
		msg->msg_namelen = inj_fromlen;
	}
	if (inj_dest_family == 4 && msg->msg_control &&
	    msg->msg_controllen >= CMSG_SPACE(sizeof(struct in_pktinfo))) {
		struct cmsghdr *cm;
		struct in_pktinfo pi;
		memset(msg->msg_control, 0, msg->msg_controllen);
		cm = CMSG_FIRSTHDR(msg);
		cm->cmsg_level = IPPROTO_IP;
		cm->cmsg_type = IP_PKTINFO;
		cm->cmsg_len = CMSG_LEN(sizeof(pi));
		memset(&pi, 0, sizeof(pi));
		memcpy(&pi.ipi_addr, inj_dest4, 4);
		memcpy(CMSG_DATA(cm), &pi, sizeof(pi));
		msg->msg_controllen = CMSG_SPACE(sizeof(pi));
	} else if (inj_dest_family == 6 && msg->msg_control &&
		   msg->msg_controllen >= CMSG_SPACE(sizeof(struct in6_pktinfo))) {
		struct cmsghdr *cm;
		struct in6_pktinfo pi;
		memset(msg->msg_control, 0, msg->msg_controllen);
		cm = CMSG_FIRSTHDR(msg);
		cm->cmsg_level = IPPROTO_IPV6;
		cm->cmsg_type = IPV6_PKTINFO;
		cm->cmsg_len = CMSG_LEN(sizeof(pi));
		memset(&pi, 0, sizeof(pi));
		memcpy(&pi.ipi6_addr, inj_dest6, 16);
		memcpy(CMSG_DATA(cm), &pi, sizeof(pi));
		msg->msg_controllen = CMSG_SPACE(sizeof(pi));
	} else
		msg->msg_controllen = 0;
	return n;
}

int __wrap_write_tun(int fd, char *data, size_t len);
int __wrap_write_tun(int fd, char *data, size_t len)
{
	(void)fd;
	if (tun_written_count < 16) {
		int i = tun_written_count++;
		tun_written_len[i] = len > 65536 ? 65536 : (int)len;
		memcpy(tun_written[i], data, tun_written_len[i]);
	}
	return 0;
}

ssize_t __wrap_read_tun(int fd, char *buf, size_t len);
ssize_t __wrap_read_tun(int fd, char *buf, size_t len)
{
	int n = tun_in_len;
	(void)fd;
	if ((size_t)n > len)
		n = len;
	memcpy(buf, tun_in, n);
	return n;
}

int __wrap_system(const char *cmd);
int __wrap_system(const char *cmd)
{
	if (sys_count < 8) {
		strncpy(sys_cmds[sys_count], cmd, sizeof(sys_cmds[0]) - 1);
		sys_cmds[sys_count][sizeof(sys_cmds[0]) - 1] = 0;
		sys_count++;
	}
	return sys_ret;
}

/* deterministic rand() */
static unsigned long wrand_state = 12345;
int __wrap_rand(void);
int __wrap_rand(void)
{
	wrand_state = wrand_state * 1103515245UL + 12345UL;
	return (int)((wrand_state >> 16) & 0x7fffffff);
}
void wire_srand(unsigned long s);
void wire_srand(unsigned long s)
{
	wrand_state = s;
}

unsigned int __wrap_sleep(unsigned int s);
unsigned int __wrap_sleep(unsigned int s)
{
	verif_now += s;
	return 0;
}

int __wrap_select(int nfds, fd_set *rfds, fd_set *wfds, fd_set *efds, struct timeval *tv);
int __wrap_select(int nfds, fd_set *rfds, fd_set *wfds, fd_set *efds, struct timeval *tv)
{
	(void)wfds; (void)efds;
	if (wire_select_hook)
		return wire_select_hook(nfds, rfds, tv);
	/* default: time out at once, advancing the virtual clock */
	if (tv)
		verif_now += tv->tv_sec;
	if (rfds)
		FD_ZERO(rfds);
	return 0;
}
