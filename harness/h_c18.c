/* h_c18.c -- C18: the real init_users / find_user_by_ip / find_available_user of src/user.c.
 * in_addr_t values travel as decimal 32-bit numbers exactly as the C stores them (the
 * little-endian load of the network-order bytes).  time() is the virtual clock verif_now. */
#include "hlib.h"
#include <malloc.h>

extern unsigned usercount;	/* defined in user.c, not declared in user.h */

static void drop_users(void)
{
	free(users);
	users = NULL;
	usercount = 0;
}

/* the range check of iodined's main(): init_users is never reached outside 8..30 */
static int refused(int nb)
{
	return nb > 30 || nb < 8;
}

/* I my_ip netbits  ->  usercount tun_ip[0] tun_ip[1] ... */
static void do_init(char *args)
{
	unsigned long ip = strtoul(args, &args, 10);
	int nb = strtol(args, &args, 10);
	int ret;
	unsigned i;

	if (refused(nb)) {
		printf("REFUSED\n");
		return;
	}
	ret = init_users((in_addr_t)ip, nb);
	printf("%d", ret);
	if ((unsigned)ret != usercount)
		printf(" RET-MISMATCH(%u)", usercount);
	for (i = 0; i < usercount; i++) {
		printf(" %u", (unsigned)users[i].tun_ip);
		if (users[i].id != (char)i || users[i].active || users[i].authenticated || users[i].disabled)
			printf(" BAD-INIT-STATE");
	}
	putchar('\n');
	drop_users();
}

/* parse n records "active auth disabled last_pkt tun_ip" into a fresh users[] */
static char *load_table(char *args, long n)
{
	long i;

	users = calloc(n ? n : 1, sizeof(struct tun_user));
	usercount = n;
	for (i = 0; i < n; i++) {
		users[i].id = i;
		users[i].active = strtol(args, &args, 10);
		users[i].authenticated = strtol(args, &args, 10);
		users[i].disabled = strtol(args, &args, 10);
		users[i].last_pkt = strtoll(args, &args, 10);
		users[i].tun_ip = strtoul(args, &args, 10);
	}
	return args;
}

/* F now ip n (a au d lp tip)*n  ->  index or -1 */
static void do_find(char *args)
{
	long long now = strtoll(args, &args, 10);
	unsigned long ip = strtoul(args, &args, 10);
	long n = strtol(args, &args, 10);

	load_table(args, n);
	verif_now = now;
	printf("%d\n", find_user_by_ip((uint32_t)ip));
	drop_users();
}

static void print_table(void)
{
	unsigned i;

	if (usercount == 0)
		printf("-");
	for (i = 0; i < usercount; i++)
		printf("%s%d:%d:%d:%lld:%u", i ? " " : "", users[i].active, users[i].authenticated,
		       users[i].disabled, (long long)users[i].last_pkt, (unsigned)users[i].tun_ip);
}

/* A now m n (a au d lp tip)*n  ->  r1 .. rm | final table */
static void do_alloc(char *args)
{
	long long now = strtoll(args, &args, 10);
	long m = strtol(args, &args, 10);
	long n = strtol(args, &args, 10);
	long j;

	load_table(args, n);
	verif_now = now;
	for (j = 0; j < m; j++)
		printf("%s%d", j ? " " : "", find_available_user());
	printf(" | ");
	print_table();
	putchar('\n');
	drop_users();
}

/* P my_ip netbits now: init, allocate until refused, authenticate all, look every address up */
static void do_pool(char *args)
{
	unsigned long ip = strtoul(args, &args, 10);
	int nb = strtol(args, &args, 10);
	long long now = strtoll(args, &args, 10);
	int ret;
	unsigned i;

	if (refused(nb)) {
		printf("REFUSED\n");
		return;
	}
	verif_now = now;
	ret = init_users((in_addr_t)ip, nb);
	printf("%d", ret);
	for (i = 0; i < usercount + 2; i++)
		printf(" %d", find_available_user());
	printf(" |");
	for (i = 0; i < usercount; i++)
		users[i].authenticated = 1;
	for (i = 0; i < usercount; i++)
		printf(" %d", find_user_by_ip(users[i].tun_ip));
	printf(" | %d\n", find_user_by_ip((uint32_t)ip));
	drop_users();
}

int handle_line(char *l)
{
	static int tuned;

	if (!tuned) {
		/* users[] is ~6 MB: keep it mmap-backed so that calloc hands out fresh zero pages
		 * instead of clearing a recycled heap block on every case (speed only) */
		mallopt(M_MMAP_THRESHOLD, 1 << 20);
		tuned = 1;
	}
	if (!strncmp(l, "I ", 2)) { do_init(l + 2); return 1; }
	if (!strncmp(l, "F ", 2)) { do_find(l + 2); return 1; }
	if (!strncmp(l, "A ", 2)) { do_alloc(l + 2); return 1; }
	if (!strncmp(l, "P ", 2)) { do_pool(l + 2); return 1; }
	return 0;
}
