/* h_c09.c -- C09/C10: real server answer construction (write_dns) -> bytes -> real client
 * decoding (read_dns_withq), plus direct decode cases on arbitrary datagrams. */
#include "wire.h"

static unsigned char data[MAXLINE / 2];
static char outbuf[65536 + 16];

static char *next_tok(char **p)
{
	char *s = *p, *e;
	while (*s == ' ') s++;
	if (!*s) return NULL;
	e = s;
	while (*e && *e != ' ') e++;
	if (*e) { *e = 0; e++; }
	*p = e;
	return s;
}

static void print_decode(int buflen, int residue)
{
	struct query q;
	int rv;
	memset(&q, 0, sizeof(q));
	q.id = 0;
	q.name[0] = 0;
	q.type = 0xfffe;
	inj_residue = residue;
	memset(outbuf, 0x5a, sizeof(outbuf));
	rv = cli_read_dns_withq(outbuf, buflen, &q);
	printf("%d ", rv);
	putsum((unsigned char *)outbuf, rv > 0 ? rv : 0);
	printf(" %u %u %u", q.id, (unsigned char)q.name[0], q.type);
	if (rv > 0 && rv <= buflen && (unsigned char)outbuf[buflen] != 0x5a)
		printf(" GUARD-VIOLATED");
}

int handle_line(char *l)
{
	static int inited;
	char *p = l, *t;
	if (!inited) {
		srv_init("t.example.com", "secret", 1, "10.0.0.1", 27, 1130);
		cli_init("t.example.com", 0, 0, 255, 10, 'T', 0, 1);
		inited = 1;
	}
	t = next_tok(&p);
	if (!strcmp(t, "W")) {
		/* W qtype downenc id buflen qnamehex datahex */
		struct query q;
		int qtype = atoi(next_tok(&p));
		int denc = atoi(next_tok(&p));
		int id = atoi(next_tok(&p));
		int buflen = atoi(next_tok(&p));
		char *qn = next_tok(&p);
		char *dh = next_tok(&p);
		size_t nlen, dlen;
		memset(&q, 0, sizeof(q));
		nlen = unhex(qn, in);
		if (nlen > 255) nlen = 255;
		memcpy(q.name, in, nlen);
		q.name[nlen] = 0;
		q.type = qtype;
		q.id = id;
		q.fromlen = sizeof(struct sockaddr_in);
		dlen = unhex(dh, data);
		cap_reset();
		srv_write_dns(&q, (char *)data, dlen, (char)denc);
		if (cap_count != 1) {
			printf("NOSEND %d\n", cap_count);
			return 1;
		}
		putsum(cap[0].data, cap[0].len);
		printf(" | ");
		inj_set(cap[0].data, cap[0].len);
		print_decode(buflen, 2);
		putchar('\n');
		return 1;
	}
	if (!strcmp(t, "A")) {
		/* A buflen residue dgramhex : client-side decode of an arbitrary datagram */
		int buflen = atoi(next_tok(&p));
		int residue = atoi(next_tok(&p));
		size_t n = unhex(next_tok(&p), in);
		inj_set(in, n);
		print_decode(buflen, residue);
		putchar('\n');
		return 1;
	}
	if (!strcmp(t, "Q")) {
		/* Q residue dgramhex : server-side dns_decode(QUERY) through read_dns */
		struct query q;
		int residue = atoi(next_tok(&p));
		size_t n = unhex(next_tok(&p), in);
		int rv;
		memset(&q, 0, sizeof(q));
		inj_set(in, n);
		inj_residue = residue;
		rv = srv_read_dns(&q);
		printf("%d ", rv);
		if (rv > 0) {
			puthex((unsigned char *)q.name, strlen(q.name));
			printf(" %u %u", q.type, q.id);
		} else
			printf("-");
		putchar('\n');
		return 1;
	}
	return 0;
}
