(* Properties_C18.v -- final statements for property C18 (tunnel address pool: distinct
   in-subnet addresses, never the server's; lookup by tunnel address finds exactly the live
   logged-in owner).  Only statements, each closed by lemmas of UsersProofs.v, with
   Print Assumptions beneath.

   Vocabulary (defined in UsersProofs.v, Part 0):
     host_order x        = bswap32 x  (the address as a number, first octet most significant;
                           the model stores in_addr_t as the little-endian load of the
                           network-order bytes, as the C does on x86-64)
     subnet_size nb      = 2 ^ (32 - nb)
     netaddr my_ip nb    = host_order my_ip - host_order my_ip mod subnet_size nb
     server_pos my_ip nb = host_order my_ip mod subnet_size nb
     pool_k hs i         = if 1 <= hs <= i + 1 then i + 2 else i + 1
     session_live now u  = u_active u <> 0 /\ u_auth u <> 0 /\ u_disabled u = 0 /\ now < u_last_pkt u + 60
     owner_at us ip now i = i < length us /\ u_tun_ip (nth i us) = ip /\ session_live now (nth i us)
     slot_free now u     = (u_active u = 0 \/ u_last_pkt u + 60 < now) /\ u_disabled u = 0

   No hypothesis on the server's position inside its subnet is needed: the statements hold
   even when my_ip is the network or broadcast address of the subnet. *)
From Coq Require Import List NArith Arith Lia.
From Iodine Require Import Base Users UsersProofs.
Import ListNotations.
Local Open Scope N_scope.

(* the quantifier of the property is the range accepted by iodined's main() *)
Theorem C18_netmask_range : forall nb, netmask_accepted nb = true <-> (8 <= nb <= 30)%nat.
Proof. exact netmask_accepted_iff. Qed.
Print Assumptions C18_netmask_range.

(* number of sessions = min(16, subnet size - 3), at least one *)
Theorem C18_count : forall my_ip nb, (8 <= nb <= 30)%nat ->
  snd (init_users my_ip nb) = N.min 16 (subnet_size nb - 3) /\
  length (fst (init_users my_ip nb)) = N.to_nat (snd (init_users my_ip nb)) /\
  1 <= snd (init_users my_ip nb).
Proof. exact init_users_count. Qed.
Print Assumptions C18_count.

(* slot i gets host position k_i = pool_k (server position) i of the server's subnet:
   1 <= k_i <= size - 2 (inside the subnet, neither network nor broadcast address), strictly
   increasing in i (hence pairwise distinct), never the server's address.  Adding k_i never
   carries out of the last octet (host_order ip is the exact sum). *)
Theorem C18_pool : forall my_ip nb, my_ip < 2 ^ 32 -> (8 <= nb <= 30)%nat ->
  let ips := fst (init_users my_ip nb) in
  let hs := server_pos my_ip nb in
  (forall i, (i < length ips)%nat ->
     let k := pool_k hs (N.of_nat i) in
     let ip := nth i ips 0 in
     ip < 2 ^ 32 /\ host_order ip = netaddr my_ip nb + k /\
     1 <= k <= subnet_size nb - 2 /\ k <> hs /\ ip <> my_ip) /\
  (forall i j, (i < j)%nat -> pool_k hs (N.of_nat i) < pool_k hs (N.of_nat j)) /\
  NoDup ips.
Proof.
  intros my_ip nb Hip Hnb. cbv zeta. split; [|split].
  - intros i Hi. destruct (init_users_nth my_ip nb i Hip Hnb Hi) as (H1 & H2 & H3 & H4 & H5 & _).
    repeat split; try assumption; apply H3.
  - intros i j Hij. apply pool_k_mono. lia.
  - apply init_users_nodup; assumption.
Qed.
Print Assumptions C18_pool.

(* the same without k: every assigned address lies strictly between the network and the
   broadcast address of the server's subnet (which does not wrap past 2^32), shares the
   server's network prefix, and differs from the server's address *)
Theorem C18_pool_subnet : forall my_ip nb, my_ip < 2 ^ 32 -> (8 <= nb <= 30)%nat ->
  forall i, (i < length (fst (init_users my_ip nb)))%nat ->
  let h := host_order (nth i (fst (init_users my_ip nb)) 0) in
  let bcast := netaddr my_ip nb + subnet_size nb - 1 in
  netaddr my_ip nb < h < bcast /\ bcast < 2 ^ 32 /\
  h / subnet_size nb = host_order my_ip / subnet_size nb /\
  h <> host_order my_ip.
Proof.
  intros my_ip nb Hip Hnb i Hi. cbv zeta.
  destruct (init_users_nth my_ip nb i Hip Hnb Hi) as (H1 & H2 & H3 & H4 & H5 & H6).
  cbv zeta in *. rewrite H2.
  destruct (subnet_size_bounds nb Hnb) as [_ Hsz].
  set (k := pool_k (server_pos my_ip nb) (N.of_nat i)) in *.
  split; [lia|]. split; [lia|]. split.
  - pose proof (N.div_mod (host_order my_ip) (subnet_size nb) ltac:(lia)) as Edm.
    symmetry. apply (N.div_unique _ _ _ k); [lia|].
    unfold netaddr.
    pose proof (N.mod_le (host_order my_ip) (subnet_size nb) ltac:(lia)) as Hle.
    set (P := subnet_size nb) in *. set (q := host_order my_ip / P) in *.
    set (r := host_order my_ip mod P) in *. clearbody P q r k. lia.
  - unfold netaddr, server_pos in *.
    pose proof (N.mod_le (host_order my_ip) (subnet_size nb) ltac:(lia)) as Hle.
    set (r := host_order my_ip mod subnet_size nb) in *. clearbody r k. lia.
Qed.
Print Assumptions C18_pool_subnet.

(* the "&& skip == 0" guard of the loop is redundant: the loop written with "if (ip == my_ip)"
   alone assigns the same addresses (so dropping the guard is not a behaviour change; dropping
   the skip++ is, and is caught by the check) *)
Theorem C18_skip_guard_redundant : forall my_ip nb, my_ip < 2 ^ 32 -> (8 <= nb <= 30)%nat ->
  assign_noguard my_ip (N.land my_ip (net_saddr nb)) (N.to_nat (user_count nb)) 0 0 =
  fst (init_users my_ip nb).
Proof. exact skip_guard_redundant. Qed.
Print Assumptions C18_skip_guard_redundant.

(* lookup: the first slot (array order, as the C scans) that owns the address and is live *)
Theorem C18_lookup : forall us ip now i,
  find_user_by_ip us ip now = Some i <->
  owner_at us ip now i /\ forall j, (j < i)%nat -> ~ owner_at us ip now j.
Proof. exact lookup_first. Qed.
Print Assumptions C18_lookup.

Theorem C18_lookup_none : forall us ip now,
  find_user_by_ip us ip now = None <-> forall j, ~ owner_at us ip now j.
Proof. exact lookup_none. Qed.
Print Assumptions C18_lookup_none.

(* with pairwise distinct tunnel addresses: found <-> it is a live owner, and then it is the
   only slot with that address at all *)
Theorem C18_lookup_unique : forall us ip now i, NoDup (map u_tun_ip us) ->
  (find_user_by_ip us ip now = Some i <-> owner_at us ip now i) /\
  (find_user_by_ip us ip now = Some i ->
   forall j, (j < length us)%nat -> u_tun_ip (nth j us user0) = ip -> j = i).
Proof. exact lookup_unique. Qed.
Print Assumptions C18_lookup_unique.

(* ... which is the case for every table whose addresses were assigned by init_users *)
Theorem C18_lookup_pool : forall my_ip nb us, my_ip < 2 ^ 32 -> (8 <= nb <= 30)%nat ->
  map u_tun_ip us = fst (init_users my_ip nb) ->
  forall ip now,
  (forall i, find_user_by_ip us ip now = Some i <-> owner_at us ip now i) /\
  (forall i, find_user_by_ip us ip now = Some i ->
     forall j, (j < length us)%nat -> u_tun_ip (nth j us user0) = ip -> j = i) /\
  (find_user_by_ip us ip now = None <-> forall j, ~ owner_at us ip now j) /\
  find_user_by_ip us my_ip now = None.
Proof.
  intros my_ip nb us Hip Hnb Hus ip now.
  assert (Hnd : NoDup (map u_tun_ip us)) by (rewrite Hus; apply init_users_nodup; assumption).
  split; [intros i; apply (lookup_unique us ip now i Hnd)|].
  split; [intros i; apply (lookup_unique us ip now i Hnd)|].
  split; [apply lookup_none|].
  apply lookup_none. intros j (Hj & Ej & _).
  assert (Hj' : (j < length (fst (init_users my_ip nb)))%nat) by (rewrite <- Hus, map_length; exact Hj).
  destruct (init_users_nth my_ip nb j Hip Hnb Hj') as (_ & _ & _ & _ & Hne & _).
  apply Hne. rewrite <- Hus. change 0 with (u_tun_ip user0). rewrite map_nth. exact Ej.
Qed.
Print Assumptions C18_lookup_pool.

(* the sessions the server can create: find_available_user hands out a free slot only, the
   first one, and from the table left by init_users exactly usercount of them (no time passing) *)
Theorem C18_alloc_slot : forall us now i, fst (find_available_user us now) = Some i ->
  (i < length us)%nat /\ slot_free now (nth i us user0) /\
  (forall j, (j < i)%nat -> ~ slot_free now (nth j us user0)) /\
  snd (find_available_user us now) = firstn i us ++ claim now (nth i us user0) :: skipn (S i) us.
Proof.
  intros us now i Hf. unfold find_available_user in *.
  pose proof (avail_from_spec us now O) as Hs. rewrite Hf in Hs.
  destruct Hs as (j & -> & Hj & Ha & Hm & Es). simpl.
  split; [exact Hj|]. split; [apply available_iff, Ha|]. split; [|exact Es].
  intros j' Hj' Hfree. apply available_iff in Hfree. rewrite (Hm j' Hj') in Hfree. discriminate.
Qed.
Print Assumptions C18_alloc_slot.

Theorem C18_sessions : forall my_ip nb now, (8 <= nb <= 30)%nat ->
  let n := N.to_nat (N.min 16 (subnet_size nb - 3)) in
  alloc_many (fresh_users (fst (init_users my_ip nb))) now (n + 1) = map Some (seq 0 n) ++ [None].
Proof.
  intros my_ip nb now Hnb. cbv zeta.
  destruct (init_users_count my_ip nb Hnb) as (E1 & E2 & _). rewrite <- E1, <- E2.
  exact (alloc_many_fresh now (fst (init_users my_ip nb)) [] 1%nat (Forall_nil _)).
Qed.
Print Assumptions C18_sessions.

(* ---------------------------------------------------------------------------------- *)
(* non-vacuity: concrete instances.  ipv4 a b c d is a.b.c.d as the C stores it.        *)

Definition ipv4 (a b c d : N) : N := a + 256 * b + 65536 * c + 16777216 * d.

(* the unit-test shape: x.0.0.1/27 -> .2 .. .17 (16 users, server at position 1 skipped) *)
Example C18_example_27 :
  init_users (ipv4 10 0 0 1) 27 =
  (map (fun d => ipv4 10 0 0 d) [2; 3; 4; 5; 6; 7; 8; 9; 10; 11; 12; 13; 14; 15; 16; 17], 16) /\
  ipv4 10 0 0 1 = 16777226 /\ ipv4 10 0 0 1 < 2 ^ 32 /\ netmask_accepted 27 = true /\
  server_pos (ipv4 10 0 0 1) 27 = 1 /\ host_order (netaddr (ipv4 10 0 0 1) 27) = ipv4 10 0 0 0.
Proof. repeat split; vm_compute; reflexivity. Qed.

(* a /30: one user, whichever host address the server has *)
Example C18_example_30 :
  init_users (ipv4 192 168 0 1) 30 = ([ipv4 192 168 0 2], 1) /\
  init_users (ipv4 192 168 0 2) 30 = ([ipv4 192 168 0 1], 1) /\
  init_users (ipv4 255 255 255 254) 30 = ([ipv4 255 255 255 253], 1).
Proof. repeat split; vm_compute; reflexivity. Qed.

(* server in the middle of the pool: its address is skipped once *)
Example C18_example_skip :
  fst (init_users (ipv4 10 0 0 5) 27) =
  map (fun d => ipv4 10 0 0 d) [1; 2; 3; 4; 6; 7; 8; 9; 10; 11; 12; 13; 14; 15; 16; 17] /\
  fst (init_users (ipv4 10 0 0 16) 24) =
  map (fun d => ipv4 10 0 0 d) [1; 2; 3; 4; 5; 6; 7; 8; 9; 10; 11; 12; 13; 14; 15; 17] /\
  fst (init_users (ipv4 192 168 1 254) 29) = map (fun d => ipv4 192 168 1 d) [249; 250; 251; 252; 253].
Proof. repeat split; vm_compute; reflexivity. Qed.

(* a /8 with the server far outside the pool, and a /25 whose network address has a non-zero
   last octet *)
Example C18_example_8 :
  init_users (ipv4 10 200 100 250) 8 =
  (map (fun d => ipv4 10 0 0 d) [1; 2; 3; 4; 5; 6; 7; 8; 9; 10; 11; 12; 13; 14; 15; 16], 16) /\
  fst (init_users (ipv4 192 168 1 200) 25) =
  map (fun d => ipv4 192 168 1 d) [129; 130; 131; 132; 133; 134; 135; 136; 137; 138; 139; 140; 141; 142; 143; 144].
Proof. repeat split; vm_compute; reflexivity. Qed.

(* lookup: slot 0 owns 10.0.0.2 but is not authenticated, slot 1 is a stale duplicate
   (last packet exactly 60 s ago), slot 2 is the live owner, slot 3 a later live duplicate *)
Example C18_example_lookup :
  let mk a au d lp ip := {| u_active := a; u_auth := au; u_disabled := d; u_last_pkt := lp; u_tun_ip := ip |} in
  let us := [mk 1 0 0 1000 (ipv4 10 0 0 2); mk 1 1 0 940 (ipv4 10 0 0 2);
             mk 1 1 0 941 (ipv4 10 0 0 2); mk 1 1 0 1000 (ipv4 10 0 0 2); mk 1 1 1 1000 (ipv4 10 0 0 3)] in
  find_user_by_ip us (ipv4 10 0 0 2) 1000 = Some 2%nat /\
  find_user_by_ip us (ipv4 10 0 0 3) 1000 = None /\
  find_user_by_ip us (ipv4 10 0 0 2) 1001 = Some 3%nat.
Proof. repeat split; vm_compute; reflexivity. Qed.
