(* DnsMsgProofs_MxSize.v -- C09, size of the MX / SRV answer datagram as a closed form of the
   question-name and payload lengths, and its monotonicity. *)
From Coq Require Import List NArith ZArith Arith Bool Lia ZifyBool ZifyNat ZifyN.
From Iodine Require Import Generated.SrcConsts Base Codec CodecProofs Hostname DnsName DnsWf DnsMsg
  DnsMsgProofs_Base DnsMsgProofs_Null DnsMsgProofs_Txt DnsMsgProofs_Dotify DnsMsgProofs_Name
  DnsMsgProofs_Mx DnsMsgProofs_MxClient DnsMsgProofs DnsMsgProofs_Sent.
Import ListNotations.
Local Open Scope N_scope.

Ltac Zify.zify_post_hook ::= Z.div_mod_to_equations.

(* one answer record whose name carries u payload bytes: record head 10, rdlength 2, preference 2,
   SRV weight and port 4, the name in wire form *)
Definition mx_rec_size (ty e : N) (u : nat) : nat :=
  (12 + (2 + length (srv_bytes ty) +
         (S (enclen (cbits (host_codec e)) u) + enclen (cbits (host_codec e)) u / 57 + 3 + 2)))%nat.

(* header, question, then (n-1)/c full records and one record with the remainder, c = host_capacity *)
Definition mx_size (ty e : N) (namelen n : nat) : nat :=
  (12 + (namelen + 2) + 4 +
   ((n - 1) / host_capacity e) * mx_rec_size ty e (host_capacity e) +
   mx_rec_size ty e ((n - 1) mod host_capacity e + 1))%nat.

Lemma full_used_cap e n : full_used e n <-> n = host_capacity e.
Proof.
  unfold full_used. pose proof (host_capacity_spec e n) as H1. pose proof (host_capacity_spec e (S n)) as H2.
  split.
  - intros [A B]. apply H1 in A. assert (~ (S n <= host_capacity e)%nat) by (intros C; apply H2 in C; lia). lia.
  - intros ->. split; [apply H1; lia|]. assert (~ (enclen (cbits (host_codec e)) (S (host_capacity e)) <= 245)%nat)
      by (intros C; apply (host_capacity_spec e (S (host_capacity e))) in C; lia). lia.
Qed.

Lemma host_capacity_pos e : (153 <= host_capacity e <= 214)%nat.
Proof. unfold host_capacity. destruct ((e =? 83) || (e =? 85)); [lia|]. destruct (e =? 86); lia. Qed.

Lemma mx_rec_size_mono ty e u v : (u <= v)%nat -> (mx_rec_size ty e u <= mx_rec_size ty e v)%nat.
Proof.
  intros H. unfold mx_rec_size. destruct (host_codec_wf e) as [Hwf _].
  pose proof (enclen_mono _ Hwf u v H) as Hm.
  set (a := enclen (cbits (host_codec e)) u) in *. set (b := enclen (cbits (host_codec e)) v) in *.
  assert (a / 57 <= b / 57)%nat by (apply Nat.div_le_mono; lia). lia.
Qed.

Lemma mx_size_mono ty e namelen namelen' n n' : (namelen <= namelen')%nat -> (1 <= n <= n')%nat ->
  (mx_size ty e namelen n <= mx_size ty e namelen' n')%nat.
Proof.
  intros Hn Hp. unfold mx_size. pose proof (host_capacity_pos e) as Hc.
  set (c := host_capacity e) in *. set (G := mx_rec_size ty e c).
  assert (Hq : ((n - 1) / c <= (n' - 1) / c)%nat) by (apply Nat.div_le_mono; lia).
  assert (Hr : forall m, (mx_rec_size ty e ((m - 1) mod c + 1) <= G)%nat).
  { intros m. apply mx_rec_size_mono. pose proof (Nat.mod_upper_bound (m - 1) c ltac:(lia)). lia. }
  destruct (Nat.eq_dec ((n - 1) / c) ((n' - 1) / c)) as [E|NE].
  - rewrite E. assert (((n - 1) mod c <= (n' - 1) mod c)%nat).
    { pose proof (Nat.div_mod (n - 1) c ltac:(lia)). pose proof (Nat.div_mod (n' - 1) c ltac:(lia)).
      rewrite E in H. nia. }
    pose proof (mx_rec_size_mono ty e ((n - 1) mod c + 1) ((n' - 1) mod c + 1) ltac:(lia)). lia.
  - assert (Hlt : (S ((n - 1) / c) <= (n' - 1) / c)%nat) by lia.
    pose proof (Hr n). assert (((n - 1) / c) * G + G <= ((n' - 1) / c) * G)%nat by nia. lia.
Qed.

Lemma mx_recs_len ty wls : forall j,
  length (mx_recs ty j wls) = fold_right (fun wl a => (12 + (2 + length (srv_bytes ty) + wire_len wl) + a)%nat) 0%nat wls.
Proof.
  induction wls as [|wl r IH]; intros j; [reflexivity|].
  cbn [mx_recs fold_right]. rewrite app_length, mx_rec_len, mx_body_len, IH. lia.
Qed.

Lemma st_wire_len e st : wire_len (st_labels e st) =
  (S (enclen (cbits (host_codec e)) (host_used e (fst st))) + enclen (cbits (host_codec e)) (host_used e (fst st)) / 57 + 3 + 2)%nat.
Proof.
  destruct (st_labels_ok e st) as [_ [Hne _]].
  rewrite <- (dotted_wire_len _ Hne), <- st_name_labels, st_name_len. reflexivity.
Qed.

Lemma recs_len_states ty e sts : forall j,
  length (mx_recs ty j (map (st_labels e) sts)) =
  fold_right (fun st a => (mx_rec_size ty e (host_used e (fst st)) + a)%nat) 0%nat sts.
Proof.
  intros j. rewrite mx_recs_len. induction sts as [|st r IH]; [reflexivity|].
  cbn [map fold_right]. rewrite IH, st_wire_len. unfold mx_rec_size. lia.
Qed.

Lemma fold_size_front ty e (front : list (list N * (nat * nat))) :
  (forall st, In st front -> host_used e (fst st) = host_capacity e) ->
  fold_right (fun st a => (mx_rec_size ty e (host_used e (fst st)) + a)%nat) 0%nat front =
  (length front * mx_rec_size ty e (host_capacity e))%nat /\
  fold_right (fun st a => (host_used e (fst st) + a)%nat) 0%nat front = (length front * host_capacity e)%nat.
Proof.
  induction front as [|st r IH]; intros H; [split; reflexivity|].
  cbn [fold_right length]. rewrite (H st (or_introl eq_refl)).
  destruct IH as [I1 I2]; [intros st0 Hin; apply H; right; exact Hin|]. rewrite I1, I2. split; lia.
Qed.

Lemma fold_size_app ty e (a b : list (list N * (nat * nat))) :
  fold_right (fun st acc => (mx_rec_size ty e (host_used e (fst st)) + acc)%nat) 0%nat (a ++ b) =
  (fold_right (fun st acc => (mx_rec_size ty e (host_used e (fst st)) + acc)%nat) 0%nat a +
   fold_right (fun st acc => (mx_rec_size ty e (host_used e (fst st)) + acc)%nat) 0%nat b)%nat.
Proof. induction a as [|x a IH]; [reflexivity|]. cbn [app fold_right]. rewrite IH. lia. Qed.

Lemma mx_size_eq q p downenc td d :
  q_type q = T_MX \/ q_type q = T_SRV -> wf_qname (q_name q) ->
  (1 <= length p <= N.to_nat 4096)%nat ->
  fst (write_dns q p downenc td) = Some d ->
  length d = mx_size (q_type q) downenc (length (q_name q)) (length p).
Proof.
  intros Hty [ws [Hne [Hok [Hn Hl]]]] Hp H.
  rewrite write_dns_mx in H by exact Hty.
  assert (Hpne : p <> []) by (destruct p; [simpl in Hp; lia|discriminate]).
  rewrite mx_build_spec in H by (assumption || lia). cbn [app] in H.
  set (e := downenc) in *.
  set (sts := mx_states (S (length p)) e p td) in *.
  destruct (mx_states_shape e (S (length p)) p td sts Hpne ltac:(lia) eq_refl) as [front [lst [Hsts [Hl1 [Hl2 [Hfr Hsum]]]]]].
  assert (Hfull : forall st, In st front -> host_used e (fst st) = host_capacity e).
  { intros st Hin. apply full_used_cap. apply (Hfr st Hin). }
  destruct (fold_size_front (q_type q) e front Hfull) as [F1 F2].
  rewrite Hsts, fold_used_app, F2 in Hsum. cbn [fold_right] in Hsum.
  pose proof (host_capacity_pos e) as Hc.
  (* the last name carries between 1 and capacity bytes *)
  assert (Hlast : (1 <= host_used e (fst lst) <= host_capacity e)%nat).
  { destruct (host_used_pos e (fst lst) Hl2) as [Hu _]. split; [exact Hu|].
    apply host_capacity_spec. rewrite <- host_enc_len.
    destruct (host_codec_wf e) as [Hwf _].
    destruct (enc_exact _ Hwf host_cap (fst lst)) as [G1 _]. cbv zeta in G1.
    pose proof host_cap_eq. unfold host_enc. lia. }
  assert (HK : (length front <= length p / 153)%nat) by (apply Nat.div_le_lower_bound; nia).
  set (wls := map (st_labels e) sts).
  assert (Hnames : map (st_name e) sts = map dotted wls) by (unfold wls; rewrite map_map; reflexivity).
  assert (Hwlen : length wls = S (length front)).
  { unfold wls. rewrite map_length, Hsts, app_length. cbn [length]. lia. }
  assert (Hwok : Forall wl_ok wls).
  { unfold wls. rewrite Forall_forall. intros wl Hin. apply in_map_iff in Hin. destruct Hin as [st [<- _]]. apply st_labels_ok. }
  assert (Hwne : wls <> []) by (intros Hw; rewrite Hw in Hwlen; discriminate).
  assert (HK2 : (length p / 153 <= 26)%nat) by lia.
  rewrite Hnames in H.
  destruct q as [name ty id]. cbn [q_name q_type q_id] in *.
  pose proof (encode_mx buf64k name ty id ws wls d buf64k_eq Hty Hok Hne Hn Hl Hwok Hwne ltac:(lia) H) as Hd.
  pose proof (dotted_wire_len ws Hne) as Hwq. rewrite <- Hn in Hwq.
  rewrite Hd. unfold mx_answer. rewrite app_length, ans_head_len. unfold wls.
  rewrite recs_len_states, Hsts, fold_size_app, F1. cbn [fold_right].
  unfold mx_size.
  set (c := host_capacity e) in *. set (u := host_used e (fst lst)) in *.
  assert (Hdiv : ((length p - 1) / c = length front)%nat).
  { symmetry. apply (Nat.div_unique (length p - 1) c (length front) (u - 1)); lia. }
  assert (Hmod : ((length p - 1) mod c = u - 1)%nat).
  { symmetry. apply (Nat.mod_unique (length p - 1) c (length front) (u - 1)); lia. }
  rewrite Hdiv, Hmod. replace (u - 1 + 1)%nat with u by lia. lia.
Qed.

(* all seven types *)
Definition ans_size_all (ty downenc : N) (namelen n : nat) : nat :=
  if (ty =? T_MX) || (ty =? T_SRV) then mx_size ty downenc namelen n else ans_size ty downenc namelen n.

Lemma c09_size_all q p downenc td d :
  is_ctype (q_type q) -> wf_qname (q_name q) -> bytes_ok p ->
  (1 <= length p <= capacity (q_type q) downenc)%nat ->
  fst (write_dns q p downenc td) = Some d ->
  length d = ans_size_all (q_type q) downenc (length (q_name q)) (length p).
Proof.
  intros Hty Hwf Hbp Hcap H. unfold ans_size_all.
  destruct ((q_type q =? T_MX) || (q_type q =? T_SRV)) eqn:E.
  - assert (Hmx : q_type q = T_MX \/ q_type q = T_SRV).
    { apply orb_true_iff in E. destruct E as [E|E]; apply N.eqb_eq in E; tauto. }
    apply (mx_size_eq q p downenc td d Hmx Hwf); [|exact H].
    pose proof (capacity_le (q_type q) downenc). lia.
  - apply (c09_size q p downenc td d); try assumption; [|lia].
    intros [Hm|Hm]; rewrite Hm in E; discriminate E.
Qed.

Lemma c09_size_monotone q q' p p' downenc td td' d d' :
  is_ctype (q_type q) -> q_type q' = q_type q ->
  wf_qname (q_name q) -> wf_qname (q_name q') -> (length (q_name q) <= length (q_name q'))%nat ->
  bytes_ok p -> bytes_ok p' -> (1 <= length p <= length p')%nat ->
  (length p' <= capacity (q_type q) downenc)%nat ->
  fst (write_dns q p downenc td) = Some d ->
  fst (write_dns q' p' downenc td') = Some d' ->
  (length d <= length d')%nat.
Proof.
  intros Hty Hq Hwf Hwf' Hnl Hbp Hbp' Hpl Hcap H H'.
  rewrite (c09_size_all q p downenc td d) by (assumption || lia).
  rewrite (c09_size_all q' p' downenc td' d') by (rewrite ?Hq; assumption || lia).
  rewrite Hq. unfold ans_size_all. destruct ((q_type q =? T_MX) || (q_type q =? T_SRV)).
  - apply mx_size_mono; assumption.
  - apply ans_size_mono; lia.
Qed.
