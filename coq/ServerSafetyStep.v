(* ServerSafetyStep.v -- C05, part 3: every event handler of Server.v (handle_null_request with
   all command letters, handle_ping, handle_data, handle_full_packet, the raw-mode handlers,
   tunnel_dns, tunnel_tun, the sweep, recv_datagram) maps a state satisfying the invariant
   state_ok to a state satisfying it, keeps the number of users, and emits only datagrams that
   fit the C buffers (outs_ok).  External oracles are Section variables; the only hypothesis is
   that uncompress() never returns more than the 64 KiB it was given room for. *)
From Coq Require Import List NArith ZArith Arith Bool Lia ZifyBool ZifyNat ZifyN.
From RecordUpdate Require Import RecordUpdate.
From Iodine Require Import Generated.SrcConsts Base Codec Hostname DnsName DnsMsg Domain Server
  ServerSafetyProofs ServerSafetyOps.
Import ListNotations.
Local Open Scope N_scope.

Ltac Zify.zify_post_hook ::= Z.div_mod_to_equations.

(* result of a handler: new state + outputs *)
Definition res_ok (st : sstate) (r : sstate * list out) : Prop :=
  state_ok (fst r) /\ length (fst r) = length st /\ outs_ok (snd r).

Lemma res_ok_same st outs : state_ok st -> outs_ok outs -> res_ok st (st, outs).
Proof. intros H Ho. repeat split; assumption. Qed.

Lemma res_ok_upd st i f outs : state_ok st -> (forall u, user_ok u -> user_ok (f u)) -> outs_ok outs ->
  res_ok st (upd st i f, outs).
Proof. intros H Hf Ho. repeat split; cbn [fst snd]; [apply upd_ok; assumption|apply upd_length|assumption]. Qed.

Lemma res_ok_trans st st1 o1 r : state_ok st1 -> length st1 = length st -> outs_ok o1 ->
  res_ok st1 r -> res_ok st (fst r, o1 ++ snd r).
Proof.
  intros H1 HL Ho (Ha & Hb & Hc). repeat split; cbn [fst snd]; [assumption|congruence|apply outs_ok_app; assumption].
Qed.

Lemma mk_answer_ok q data dl : hq_ok q -> (length data <= K4096)%nat -> outs_ok [mk_answer q data dl].
Proof. intros Hq Hd. constructor; [split; assumption|constructor]. Qed.

(* small user updates *)
Lemma set_q_last_ok u q now : user_ok u -> hq_ok q -> user_ok (u <| u_q := q |> <| u_last := now |>).
Proof. intros H Hq. uok H. Qed.

Lemma move_q_to_qs_ok u : user_ok u ->
  user_ok (u <| u_qs := u_q u |> <| u_qs_new := true |> <| u_q := (u_q u) <| h_id := 0 |> |>).
Proof. intros H. uok H. Qed.

Lemma remember_dup_ok u q w : user_ok u -> user_ok (remember_dup u q w).
Proof.
  intros H. unfold remember_dup. apply setq_ok; [exact H|].
  pose proof (getq_ok u w H) as Hq. unfold hq_ok in *. cbn. exact Hq.
Qed.

(* tactics for the handler bodies: name the result of the next closed send_chunk_or_dataless *)
Ltac solve_uok :=
  lazymatch goal with
  | H : user_ok ?u |- user_ok ?u => exact H
  | |- user_ok (?u <| u_q := ?q |> <| u_last := ?n |>) => apply set_q_last_ok; [solve_uok|assumption]
  | |- user_ok (?u <| u_qs := _ |> <| u_qs_new := true |> <| u_q := _ |>) => apply move_q_to_qs_ok; solve_uok
  | |- user_ok (process_downstream_ack _ _ _) => apply process_downstream_ack_ok; solve_uok
  | |- user_ok (getu _ _) => apply getu_ok; assumption
  end.

Ltac step_scd :=
  match goal with
  | |- context [send_chunk_or_dataless ?u ?w] =>
      let Hu := fresh "Hu" in assert (Hu : user_ok u) by solve_uok;
      let Hx := fresh "Hx" in let Ho := fresh "Ho" in
      pose proof (scd_ok u w Hu) as [Hx Ho];
      destruct (send_chunk_or_dataless u w) as [[? ?] ?]; cbn [fst snd] in Hx, Ho; cbv beta iota
  end.

Ltac step_if :=
  match goal with
  | |- context [if ?c then _ else _] => destruct c eqn:?; cbv beta iota
  end.

Ltac solve_outs :=
  repeat first [ assumption | apply outs_ok_nil | apply outs_ok_app ].

(* ---- dnscache lookups --------------------------------------------------------------------- *)

Lemma dnscache_scan_ok n : forall i u name ty e,
  user_ok u -> dnscache_scan n i u name ty = Some e -> ce_ok e.
Proof.
  induction n as [|n IH]; intros i u name ty e Hu H; [discriminate|].
  cbn [dnscache_scan] in H. cbv zeta in H.
  match type of H with (if ?c then _ else _) = _ => destruct c end.
  - eapply IH; eassumption.
  - inversion H; subst. apply nth_Forall; [apply Hu|apply ce0_ok].
Qed.

Lemma cached_answer_ok u name ty e : user_ok u -> answer_from_dnscache u name ty = Some e ->
  (length (firstn (N.to_nat (ce_len e)) (ce_answer e)) <= K4096)%nat.
Proof.
  intros Hu H. apply dnscache_scan_ok in H; [|exact Hu]. destruct H.
  rewrite firstn_length. unfold K4096 in *. lia.
Qed.

(* ---- Section with the oracles ---------------------------------------------------------------- *)

Lemma raw_frame_len cmd userid data : (length (raw_frame cmd userid data) <= K4096)%nat.
Proof.
  unfold raw_frame. rewrite !app_length, !firstn_length. cbn [length]. unfold K4096. lia.
Qed.

(* results with the index-dependent invariant (slot k may hold a raw frame in transit) *)
Definition res_okQ (Q : nat -> pkt -> Prop) (st : sstate) (r : sstate * list out) : Prop :=
  sok Q (fst r) /\ length (fst r) = length st /\ outs_ok (snd r).

Lemma send_held_okQ Q st t : sok Q st -> (forall j, Q j pkt0) -> res_okQ Q st (send_held st t).
Proof.
  intros H H0. unfold send_held. cbv zeta.
  pose proof (sok_getu Q st t H H0) as Hu.
  destruct (negb (h_id (u_qs (getu st t)) =? 0)).
  - pose proof (scd_ok (getu st t) WQS Hu) as [Hx Ho].
    destruct (send_chunk_or_dataless (getu st t) WQS) as [[x o] b]. cbn [fst snd] in *.
    split; [|split]; cbn [fst snd]; [apply sok_upd; auto|apply upd_length|assumption].
  - destruct (negb (h_id (u_q (getu st t)) =? 0)).
    + pose proof (scd_ok (getu st t) WQ Hu) as [Hx Ho].
      destruct (send_chunk_or_dataless (getu st t) WQ) as [[x o] b]. cbn [fst snd] in *.
      split; [|split]; cbn [fst snd]; [apply sok_upd; auto|apply upd_length|assumption].
    + split; [|split]; cbn [fst snd]; [assumption|reflexivity|constructor].
Qed.

Lemma send_held_ok st t : state_ok st -> res_ok st (send_held st t).
Proof.
  intros H. apply sok_state_ok in H.
  destruct (send_held_okQ (fun _ => in_ok) st t H (fun _ => pkt0_in_ok)) as (Ha & Hb & Hc).
  repeat split; [apply sok_state_ok, Ha|assumption|assumption].
Qed.

Lemma find_user_by_ip_from_lt st : forall ip now i t, find_user_by_ip_from st ip now i = Some t ->
  (i <= t < i + length st)%nat.
Proof.
  induction st as [|u st IH]; intros ip now i t H; [discriminate|].
  cbn [find_user_by_ip_from] in H. destruct (_ && _) in H.
  - inversion H; subst. cbn [length]. lia.
  - apply IH in H. cbn [length]. lia.
Qed.

Section OraclesA.
Variable unz : list N -> option (list N).
(* uncompress(out, &outlen = 64K, ...) never reports more than the room it was given *)
Hypothesis unz_bound : forall b p, unz b = Some p -> (length p <= K64)%nat.

Lemma handle_full_packet_okw st now userid : sok (Qw userid) st -> res_ok st (handle_full_packet unz st now userid).
Proof.
  intros H. unfold handle_full_packet. cbv zeta.
  set (raw := firstn _ _). clearbody raw.
  assert (Hin : forall x, user_ok_gen in_okw x -> user_ok (x <| u_in := (u_in x) <| p_len := 0 |> <| p_offset := 0 |> |>)).
  { intros x Hx. uok Hx. destruct I_in. constructor; cbn; try lia; assumption. }
  assert (G : forall r, res_okQ (Qw userid) st r -> res_ok st (let '(st1, outs) := r in
              (upd st1 userid (fun x => x <| u_in := (u_in x) <| p_len := 0 |> <| p_offset := 0 |> |>), outs))).
  { intros [st1 outs] (Ha & Hb & Hc). cbn [fst snd] in *. repeat split; cbn [fst snd].
    - apply sok_state_ok. intros j u Hu. destruct (Nat.eq_dec j userid) as [->|Hne].
      + destruct (nth_error st1 userid) as [u0|] eqn:E.
        * rewrite (upd_same _ st1 userid u0 E) in Hu. inversion Hu; subst. apply Hin.
          specialize (Ha userid u0 E). unfold Qw in Ha. rewrite Nat.eqb_refl in Ha. exact Ha.
        * rewrite (upd_none _ st1 userid E) in Hu. discriminate.
      + rewrite upd_other in Hu by exact Hne. specialize (Ha j u Hu). unfold Qw in Ha.
        destruct (j =? userid)%nat eqn:E; [apply Nat.eqb_eq in E; congruence|exact Ha].
    - rewrite upd_length. assumption.
    - assumption. }
  apply G.
  assert (Rsame : forall o, outs_ok o -> res_okQ (Qw userid) st (st, o)) by (intros o Ho; split; [|split]; cbn [fst snd]; [assumption|reflexivity|assumption]).
  destruct (unz raw) as [ip|] eqn:Eu; [|apply Rsame; constructor].
  set (fu := if (24 <=? length ip)%nat then _ else None). clearbody fu.
  destruct fu as [t|]; [|apply Rsame].
  - destruct (u_conn (getu st t)).
    + apply Rsame. constructor; [|constructor]. cbn. apply raw_frame_len.
    + destruct (p_len (u_out (getu st t)) =? 0).
      * pose proof (send_held_okQ (Qw userid) (upd st t (fun x => start_new_outpacket x raw)) t) as Hs.
        destruct Hs as (Ha & Hb & Hc).
        { apply sok_upd; [assumption|]. intros x Hx. apply start_new_outpacket_ok, Hx. }
        { apply Qw_pkt0. }
        rewrite upd_length in Hb. split; [|split]; assumption.
      * split; [|split]; cbn [fst snd]; [|apply upd_length|constructor].
        apply sok_upd; [assumption|]. intros x Hx. apply save_to_outpacketq_ok, Hx.
  - constructor; [|constructor]. cbn. eapply unz_bound, Eu.
Qed.

Lemma handle_full_packet_ok st now userid : state_ok st -> res_ok st (handle_full_packet unz st now userid).
Proof. intros H. apply handle_full_packet_okw, sok_weaken, H. Qed.

End OraclesA.

(* ---- reset_session / claim -------------------------------------------------------------------- *)

Lemma Forall_map_same {A} (P : A -> Prop) (f : A -> A) l : (forall x, P x -> P (f x)) -> Forall P l -> Forall P (map f l).
Proof. intros Hf H. induction H; cbn; constructor; auto. Qed.

Lemma claim_ok now u : user_ok u -> user_ok (claim now u).
Proof. intros H. unfold claim. uok H. Qed.

Lemma invalidate_cache_ok l : Forall ce_ok l ->
  Forall ce_ok (map (fun e => {| ce_name := ce_name e; ce_type := ce_type e; ce_id := 0; ce_answer := ce_answer e; ce_len := 0 |}) l).
Proof.
  apply Forall_map_same. intros e He. destruct He. constructor; cbn; try lia; assumption.
Qed.

Lemma reset_session_ok u q seed : user_ok u -> hq_ok q -> seed < 2147483648 -> user_ok (reset_session u q seed).
Proof.
  intros H Hq Hs. pose proof ring_sizes as (HQ & HC & HP & HD). unfold reset_session.
  uok H; try lia; try (rewrite map_length; assumption).
  - destruct I_in. constructor; cbn; try lia; assumption.
  - destruct I_out. constructor; cbn; try lia; assumption.
  - apply invalidate_cache_ok, I_cf.
  - apply Forall_map_same; [|exact I_pf]. intros e He. exact He.
  - apply Forall_map_same; [|exact I_df]. intros e He. exact He.
Qed.

(* ---- handle_ping -------------------------------------------------------------------------------- *)

Lemma str_lens : (length s_BADIP <= K4096 /\ length s_BADLEN <= K4096 /\ length s_BADCODEC <= K4096 /\
                 length s_BADFRAG <= K4096 /\ length s_LNAK <= K4096)%nat.
Proof. unfold K4096. cbn. lia. Qed.

Ltac small_len := unfold K4096, s_BADIP, s_BADLEN, s_BADCODEC, s_BADFRAG, s_LNAK; cbn [length app]; lia.

Lemma handle_ping_ok c st now q unpacked : state_ok st -> hq_ok q ->
  res_ok st (handle_ping c st now q unpacked).
Proof.
  intros H Hq. unfold handle_ping. cbv zeta.
  destruct (check_auth c st now _ (h_from q)); [apply res_ok_same; [assumption|apply mk_answer_ok; [assumption|small_len]]|].
  set (i := Z.to_nat _). pose proof (getu_ok st i H) as Hu. set (u := getu st i) in *.
  destruct (answer_from_dnscache u (h_name q) (h_type q)) as [e|] eqn:Ec.
  { apply res_ok_same; [assumption|]. apply mk_answer_ok; [assumption|]. eapply cached_answer_ok; eassumption. }
  destruct (qmem_hit _ _ _); [apply res_ok_same; [assumption|apply mk_answer_ok; [assumption|small_len]]|].
  destruct (dup_pending u q WQ); [apply res_ok_upd; [assumption| |constructor]; intros x Hx; apply remember_dup_ok, Hx|].
  destruct (dup_pending u q WQS); [apply res_ok_upd; [assumption| |constructor]; intros x Hx; apply remember_dup_ok, Hx|].
  set (u1 := process_downstream_ack u _ _).
  assert (H1 : user_ok u1) by (apply process_downstream_ack_ok, Hu). clearbody u1.
  repeat first [step_scd | step_if];
    (apply res_ok_upd; [assumption|intros; solve_uok|solve_outs]).
Qed.

(* ---- handle_data -------------------------------------------------------------------------------- *)

Lemma decode_len c cap s : (length (decode c cap s) <= cap)%nat.
Proof.
  unfold decode. generalize 0. revert s. induction cap as [|cap IH]; intros s i; [cbn; lia|].
  cbn [dec_go]. cbv zeta. destruct (_ <? _)%nat; [cbn; lia|]. destruct (existsb _ _); [cbn; lia|].
  cbn [length]. specialize (IH (skipn (dadv (cbits c) i) s) ((i + 1) mod dphases (cbits c))). lia.
Qed.

Lemma unpack_data_len c cap d n : (length (unpack_data c cap d n) <= cap)%nat.
Proof. unfold unpack_data. apply decode_len. Qed.

(* a decoder never produces more bytes than it reads characters (5, 6 or 7 bits per char) *)
Definition kok3 (c : codec) : Prop := cbits c = 5 \/ cbits c = 6 \/ cbits c = 7.

Lemma dadv_pos k i : k = 5 \/ k = 6 \/ k = 7 -> (1 <= dadv k i)%nat.
Proof. intros [->|[->| ->]]; unfold dadv, dfirst; lia. Qed.

Lemma dneed_pos k i : (2 <= dneed k i)%nat.
Proof. unfold dneed. destruct (_ <=? _); lia. Qed.

Lemma dec_go_len_in c cap : kok3 c -> forall i s, (length (dec_go c cap i s) <= length s)%nat.
Proof.
  intros Hk. induction cap as [|cap IH]; intros i s; [cbn; lia|].
  cbn [dec_go]. cbv zeta.
  destruct (_ <? _)%nat eqn:E; [cbn; lia|]. destruct (existsb _ _); [cbn; lia|].
  cbn [length]. specialize (IH ((i + 1) mod dphases (cbits c)) (skipn (dadv (cbits c) i) s)).
  rewrite skipn_length in IH. rewrite firstn_length in E.
  pose proof (dadv_pos (cbits c) i Hk). pose proof (dneed_pos (cbits c) i). lia.
Qed.

Lemma filter_len_le {A} (f : A -> bool) l : (length (filter f l) <= length l)%nat.
Proof. induction l as [|a l IH]; cbn; [lia|]. destruct (f a); cbn; lia. Qed.

Lemma undotify_len d n : (length (inline_undotify d n) <= length d)%nat.
Proof.
  unfold inline_undotify. etransitivity; [apply filter_len_le|]. rewrite firstn_length. lia.
Qed.

Lemma unpack_data_len_in c cap d n : kok3 c -> (length (unpack_data c cap d n) <= length d)%nat.
Proof.
  intros Hk. unfold unpack_data, decode. etransitivity; [apply dec_go_len_in, Hk|apply undotify_len].
Qed.

Lemma codec_of_id_kok3 i : kok3 (codec_of_id i).
Proof.
  unfold codec_of_id, kok3. destruct (i =? 0); [left; reflexivity|].
  destruct (i =? 1); [right; left; reflexivity|]. destruct (i =? 2); [right; left; reflexivity|right; right; reflexivity].
Qed.

Lemma b32_kok3 : kok3 b32.
Proof. left. reflexivity. Qed.

(* the sequence-number decision and the reassembly step of the data handler *)
Definition hd_decide (u1 : suser) (up_seq up_frag : N) : suser * bool :=
  let ip := u_in u1 in
  if (up_seq =? p_seqno ip) && (Z.of_N up_frag <=? p_fragment ip)%Z then (u1, false)
  else if negb (up_seq =? p_seqno ip) && recent_seqno (p_seqno ip) up_seq then (u1, false)
  else if negb (up_seq =? p_seqno ip)
       then (u1 <| u_in := ip <| p_seqno := up_seq |> <| p_fragment := Z.of_N up_frag |> <| p_len := 0 |> <| p_offset := 0 |> |>, true)
       else (u1 <| u_in := ip <| p_fragment := Z.of_N up_frag |> |>, true).

Definition hd_store (u2 : suser) (dec : list N) : suser :=
  let ip2 := u_in u2 in
  let room := N.to_nat (65536 - p_offset ip2) in
  let piece := firstn room dec in
  u2 <| u_in := ip2 <| p_data := firstn (N.to_nat (p_offset ip2)) (p_data ip2 ++ repeat 0 (N.to_nat (p_offset ip2))) ++ piece |>
                   <| p_len := p_len ip2 + N.of_nat (length piece) |>
                   <| p_offset := p_offset ip2 + N.of_nat (length piece) |> |>.

Lemma hd_decide_ok u1 up_seq up_frag : user_ok u1 -> up_seq < 8 -> up_frag <= 15 ->
  user_ok (fst (hd_decide u1 up_seq up_frag)) /\
  (snd (hd_decide u1 up_seq up_frag) = true ->
   p_offset (u_in (fst (hd_decide u1 up_seq up_frag))) <= Z.to_N (p_fragment (u_in (fst (hd_decide u1 up_seq up_frag)))) * 256).
Proof.
  intros H Hs Hf. unfold hd_decide. cbv zeta.
  destruct ((up_seq =? p_seqno (u_in u1)) && (Z.of_N up_frag <=? p_fragment (u_in u1))%Z) eqn:E1; cbn [fst snd]; [split; [assumption|discriminate]|].
  destruct (negb (up_seq =? p_seqno (u_in u1)) && recent_seqno (p_seqno (u_in u1)) up_seq) eqn:E2; cbn [fst snd]; [split; [assumption|discriminate]|].
  destruct (negb (up_seq =? p_seqno (u_in u1))) eqn:E3; cbn [fst snd].
  - split; [|intros _; cbn; lia]. uok H. destruct I_in. constructor; cbn; try lia; assumption.
  - assert (E4 : (Z.of_N up_frag <=? p_fragment (u_in u1))%Z = false).
    { destruct (up_seq =? p_seqno (u_in u1)); [cbn in E1; exact E1|discriminate]. }
    pose proof (uo_in _ _ H) as Hin. destruct Hin.
    split; [|intros _; cbn; lia]. uok H. constructor; cbn; try lia; assumption.
Qed.

Lemma hd_store_ok u2 dec : user_ok u2 -> (length dec <= 255)%nat ->
  p_offset (u_in u2) <= Z.to_N (p_fragment (u_in u2)) * 256 -> user_ok (hd_store u2 dec).
Proof.
  intros H Hd Hroom. unfold hd_store. cbv zeta.
  set (piece := firstn _ dec).
  assert (Hp : (length piece <= N.to_nat (65536 - p_offset (u_in u2)))%nat /\ (length piece <= 255)%nat)
    by (subst piece; rewrite firstn_length; lia).
  destruct Hp as [Hp1 Hp2]. clearbody piece.
  uok H. destruct I_in. constructor; cbn; try lia; try assumption.
  rewrite app_length, firstn_length, app_length, repeat_length. unfold K64 in *. lia.
Qed.

Section OraclesB.
Variable unz : list N -> option (list N).
(* uncompress(out, &outlen = 64K, ...) never reports more than the room it was given *)
Hypothesis unz_bound : forall b p, unz b = Some p -> (length p <= K64)%nat.

Lemma handle_data_eq c st now q inb dl :
  handle_data unz c st now q inb dl =
  let c0 := chr inb 0 in
  let code := if (48 <=? c0) && (c0 <=? 57) then c0 - 48
              else if (97 <=? c0) && (c0 <=? 102) then c0 - 87 else c0 - 55 in
  if check_auth c st now (Z.of_N code) (h_from q) then (st, [mk_answer q s_BADIP 84]) else
  let i := N.to_nat code in
  let u := getu st i in
  match answer_from_dnscache u (h_name q) (h_type q) with
  | Some e => (st, [mk_answer q (firstn (N.to_nat (ce_len e)) (ce_answer e)) (u_downenc u)])
  | None =>
  if qmem_hit (u_datamem u) (lower4 (h_name q)) (h_type q) then (st, [mk_answer q [120] 84]) else
  if dup_pending u q WQ then (upd st i (fun x => remember_dup x q WQ), []) else
  if dup_pending u q WQS then (upd st i (fun x => remember_dup x q WQS), []) else
  let d1 := b32_8to5 (chr inb 1) in
  let d2 := b32_8to5 (chr inb 2) in
  let d3 := b32_8to5 (chr inb 3) in
  let u1 := process_downstream_ack u (Z.of_N (d2 mod 8)) (Z.of_N (d3 / 2)) in
  let dcs := hd_decide u1 ((d1 / 4) mod 8) ((d1 mod 4) * 4 + (d2 / 8) mod 4) in
  let upstream_ok := snd dcs in
  let lastfrag := (d3 mod 2) =? 1 in
  let u3 := if upstream_ok
            then hd_store (fst dcs) (unpack_data (codec_of_id (u_enc (fst dcs))) (N.to_nat 65536) (skipn 5 inb) (dl - 5))
            else fst dcs in
  let st1 := upd st i (fun _ => u3) in
  let r2 := if upstream_ok && lastfrag then handle_full_packet unz st1 now i else (st1, []) in
  let st2 := fst r2 in let o0 := snd r2 in
  let u4 := getu st2 i in
  let '(u5, o1, didsend1) :=
     if negb (h_id (u_qs u4) =? 0)
     then let '(x, o, again) := send_chunk_or_dataless u4 WQS in (x, o, negb again)
     else (u4, [], false) in
  let '(u6, o2, didsend2) :=
     if negb (h_id (u_q u5) =? 0) then
       if ((0 <? p_len (u_out u5)) && negb didsend1) || (upstream_ok && negb lastfrag && negb didsend1)
          || (negb upstream_ok && negb didsend1) || negb (u_lazy u5)
       then let '(x, o, again) := send_chunk_or_dataless u5 WQ in (x, o, negb again)
       else (u5 <| u_qs := u_q u5 |> <| u_qs_new := true |> <| u_q := (u_q u5) <| h_id := 0 |> |>, [], true)
     else (u5, [], didsend1) in
  let u7 := u6 <| u_q := q |> <| u_last := now |> in
  let '(u8, o3) :=
     if (0 <? p_len (u_out u7)) && negb didsend2
     then let '(x, o, _) := send_chunk_or_dataless u7 WQ in (x, o)
     else if negb didsend2 || negb (u_lazy u7) then
       if upstream_ok && lastfrag
       then (u7 <| u_qs := u_q u7 |> <| u_qs_new := true |> <| u_q := (u_q u7) <| h_id := 0 |> |>, [])
       else let '(x, o, _) := send_chunk_or_dataless u7 WQ in (x, o)
     else (u7, []) in
  (upd st2 i (fun _ => u8), o0 ++ o1 ++ o2 ++ o3)
  end.
Proof.
  unfold handle_data, hd_decide, hd_store. cbv zeta.
  destruct (check_auth _ _ _ _ _); [reflexivity|].
  destruct (answer_from_dnscache _ _ _); [reflexivity|].
  destruct (qmem_hit _ _ _); [reflexivity|].
  destruct (dup_pending _ _ WQ); [reflexivity|]. destruct (dup_pending _ _ WQS); [reflexivity|].
  destruct (_ && _); cbn [fst snd]; [destruct (handle_full_packet _ _ _ _); reflexivity|].
  destruct (_ && _); cbn [fst snd]; [destruct (handle_full_packet _ _ _ _); reflexivity|].
  destruct (negb _); cbn [fst snd]; destruct (_ && _); try reflexivity; destruct (handle_full_packet _ _ _ _); reflexivity.
Qed.

Lemma handle_data_ok c st now q inb dl : state_ok st -> hq_ok q -> (length inb <= 255)%nat ->
  res_ok st (handle_data unz c st now q inb dl).
Proof.
  intros H Hq Hinb. rewrite handle_data_eq. cbv zeta.
  set (code := if (48 <=? chr inb 0) && (chr inb 0 <=? 57) then _ else _). clearbody code.
  destruct (check_auth c st now _ (h_from q)); [apply res_ok_same; [assumption|apply mk_answer_ok; [assumption|small_len]]|].
  set (i := N.to_nat code). pose proof (getu_ok st i H) as Hu. set (u := getu st i) in *. clearbody u.
  destruct (answer_from_dnscache u (h_name q) (h_type q)) as [e|] eqn:Ec.
  { apply res_ok_same; [assumption|]. apply mk_answer_ok; [assumption|]. eapply cached_answer_ok; eassumption. }
  destruct (qmem_hit _ _ _); [apply res_ok_same; [assumption|apply mk_answer_ok; [assumption|small_len]]|].
  destruct (dup_pending u q WQ); [apply res_ok_upd; [assumption| |constructor]; intros x Hx; apply remember_dup_ok, Hx|].
  destruct (dup_pending u q WQS); [apply res_ok_upd; [assumption| |constructor]; intros x Hx; apply remember_dup_ok, Hx|].
  set (d1 := b32_8to5 (chr inb 1)). set (d2 := b32_8to5 (chr inb 2)). set (d3 := b32_8to5 (chr inb 3)).
  clearbody d1 d2 d3.
  set (u1 := process_downstream_ack u _ _).
  assert (H1 : user_ok u1) by (apply process_downstream_ack_ok, Hu). clearbody u1.
  set (up_seq := (d1 / 4) mod 8). set (up_frag := (d1 mod 4) * 4 + (d2 / 8) mod 4).
  assert (Hseq : up_seq < 8) by (subst up_seq; lia).
  assert (Hfrag : up_frag <= 15) by (subst up_frag; lia).
  clearbody up_seq up_frag.
  pose proof (hd_decide_ok u1 up_seq up_frag H1 Hseq Hfrag) as [Hdec Hroom].
  destruct (hd_decide u1 up_seq up_frag) as [u2 upstream_ok]. cbn [fst snd] in *.
  set (u3 := if upstream_ok then _ else u2).
  assert (H3 : user_ok u3).
  { subst u3. destruct upstream_ok; [|assumption]. apply hd_store_ok; [assumption| |auto].
    etransitivity; [apply unpack_data_len_in, codec_of_id_kok3|]. rewrite skipn_length. lia. }
  clearbody u3.
  set (st1 := upd st i (fun _ => u3)).
  assert (Hst1 : state_ok st1 /\ length st1 = length st).
  { subst st1. split; [apply upd_ok_const; assumption|apply upd_length]. }
  destruct Hst1 as [Hst1 HL1]. clearbody st1.
  set (r2 := if upstream_ok && _ then handle_full_packet unz st1 now i else (st1, [])).
  assert (Hr2 : res_ok st1 r2).
  { subst r2. destruct (upstream_ok && _); [apply (handle_full_packet_ok unz unz_bound), Hst1|apply res_ok_same; [assumption|constructor]]. }
  destruct r2 as [st2 o0]. destruct Hr2 as (Hst2 & HL2 & Ho0). cbn [fst snd] in *.
  pose proof (getu_ok st2 i Hst2) as Hu4. set (u4 := getu st2 i) in *. clearbody u4.
  assert (G : forall x o, user_ok x -> outs_ok o -> res_ok st (upd st2 i (fun _ => x), o0 ++ o)).
  { intros x o Hx Ho. repeat split; cbn [fst snd]; [apply upd_ok_const; assumption|rewrite upd_length; congruence|solve_outs]. }
  clear Hroom Hdec H1 Hu H3 Hst1 HL1 Hinb.
  repeat first [step_scd | step_if];
    (apply G; [solve_uok|solve_outs]).
Qed.

End OraclesB.
(* EOF *)
