(* Startup.v -- what main() of iodine.c / iodined.c hands to the rest of the program (model only):
   the 33-byte password buffer the login hash is computed over, where the password comes from
   (-P, environment variable, prompt), and the hostname-length limit of -M.
   Strings are lists of bytes without NUL (command-line arguments, environment values and what
   fscanf("%79[^\n]") stores are C strings). *)
From Coq Require Import List NArith ZArith Arith Bool.
From Iodine Require Import Base Login.
Import ListNotations.

(* strncpy(password, s, 33); password[32] = 0  /  snprintf(password, 33, "%s", s)  on a zeroed char[33] *)
Definition pw_buffer (pw : list N) : list N :=
  firstn 32 pw ++ repeat 0%N (33 - length (firstn 32 pw)).

(* fscanf(stdin, "%79[^\n]", pwd): the bytes before the first newline, at most 79 *)
Fixpoint until_nl (inp : list N) : list N :=
  match inp with
  | [] => []
  | c :: r => if (c =? 10)%N then [] else c :: until_nl r
  end.
Definition prompt_line (inp : list N) : list N := firstn 79 (until_nl inp).

(* the last -P on the command line, if any *)
Definition last_opt (ps : list (list N)) : option (list N) := last (map Some ps) None.

(* main(): -P wins; an empty password (no -P, or -P "") falls back to the environment variable when it is set,
   else to one line from the prompt *)
Definition startup_password (ps : list (list N)) (env : option (list N)) (stdin : list N) : list N :=
  let p := match last_opt ps with Some p => firstn 32 p | None => [] end in
  match p with
  | _ :: _ => pw_buffer p
  | [] => match env with
          | Some e => pw_buffer e
          | None => pw_buffer (prompt_line stdin)
          end
  end.

(* -M: atoi, then clamped to 10..255 *)
Definition clamp_maxlen (m : Z) : Z :=
  if (255 <? m)%Z then 255%Z else if (m <? 10)%Z then 10%Z else m.

(* the last -M wins; 255 without one *)
Definition startup_maxlen (ms : list Z) : Z := last (map clamp_maxlen ms) 255%Z.

(* ---- the remaining numeric client options, in command-line order (-L -I -m -r) -------------------------- *)

Inductive copt := OL (n : Z) | OI (n : Z) | Om (n : Z) | Or.

Record csettings := mkcs { s_lazy : Z; s_timeout : Z; s_raw : bool; s_autofrag : bool; s_fragsize : Z }.

(* main(): lazymode = 1, selecttimeout = 4, raw_mode = 1, autodetect_frag_size = 1, max_downstream_frag_size = 3072 *)
Definition cs0 : csettings := mkcs 1 4 true true 3072.

Definition cstep (s : csettings) (o : copt) : csettings :=
  match o with
  | OL n => let l := if (1 <? n)%Z then 1%Z else if (n <? 0)%Z then 0%Z else n in
            mkcs l (if (l =? 0)%Z then 1%Z else s_timeout s) (s_raw s) (s_autofrag s) (s_fragsize s)
  | OI n => mkcs (s_lazy s) (if (n <? 1)%Z then 1%Z else n) (s_raw s) (s_autofrag s) (s_fragsize s)
  | Om n => mkcs (s_lazy s) (s_timeout s) (s_raw s) false n
  | Or => mkcs (s_lazy s) (s_timeout s) false (s_autofrag s) (s_fragsize s)
  end.

Definition csettings_of (opts : list copt) : csettings := fold_left cstep opts cs0.

(* main() refuses a fragment size outside 1..65535 before anything is sent *)
Definition fragsize_accepted (s : csettings) : bool := ((1 <=? s_fragsize s) && (s_fragsize s <=? 65535))%Z.
