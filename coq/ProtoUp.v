(* ProtoUp.v -- the upstream (client -> server) stop-and-wait fragment protocol of iodine as an
   abstract transition system with ghost packet numbers, an adversarial network (every chunk and
   every acknowledgement ever sent may be delivered any number of times, in any order, or never)
   and the safety theorem: under the network hypothesis N* every buffer the receiver hands to
   uncompress() is exactly the fragment sequence 0..n-1 of ONE packet of the sender.

   Abstract state            real code
   ---------------------------------------------------------------------------------------------
   sk, sf, sn, sact          client outpkt.seqno (= sk mod 8), outpkt.fragment, #fragments, is_sending()
   rR, rf, rbuf              server users[u].inpacket.seqno (= rR mod 8), .fragment, accumulated data
   Chunk k f last            a data query: 3-bit seqno k mod 8, 4-bit fragment, last flag (send_chunk)
   ack (a_seq, a_frag)       the 2-byte downstream data header echoing inpacket.seqno/.fragment, carried
                             by every answer; the client honours it only in answers to one of its last
                             three queries (chunkid, chunkid_prev, chunkid_prev2) -- abstracted by the
                             weaker "the answered query was sent at most 2 packets ago" (every new
                             packet sends at least one query), rule [a_gen + 2 >= sk]
   recv rule                 handle_data in iodined.c: duplicate fragment / recent seqno / new packet /
                             next fragment; delivery when the last flag is set
   N*  (hypotheses)          H1: a chunk is never delivered after the sender has started more than 3
                                 newer packets (bounded delay);
                             H6: the receiver is never more than 5 packets behind the sender
                                 (no 6 consecutive packets entirely lost);
                             F16: packets have at most 16 fragments (4-bit fragment field).
   Outside N* the real code relies on zlib's Adler-32 (see C01_reassembly_inexact_witness).       *)
From Coq Require Import List Arith Bool Lia ZArith ZifyBool ZifyNat.
Import ListNotations.

Ltac Zify.zify_post_hook ::= Z.div_mod_to_equations.

Record sender := mksender { sk : nat; sf : nat; sn : nat; sact : bool }.
Record receiver := mkrecv { rR : nat; rf : nat; rbuf : list (nat * nat); rdone : bool }.

Inductive chunk := Chunk (k f : nat) (last : bool).

Record ack := mkack {
  a_seq : nat; a_frag : nat;     (* what is on the wire *)
  a_gen : nat;                   (* ghost: sender's packet number when the answered query was sent *)
  a_sk : nat; a_R : nat; a_rf : nat   (* ghost: sender's packet number and receiver state at snapshot *)
}.

Record psys := mkpsys {
  snd_ : sender; rcv_ : receiver;
  chunks : list chunk; acks : list ack;
  sizes : nat -> nat               (* ghost: number of fragments of packet k *)
}.

(* the server's reassembly decision, on wire values *)
Definition recent (ours got : nat) : bool :=
  (got =? ours) || (got =? (ours + 7) mod 8) || (got =? (ours + 6) mod 8) || (got =? (ours + 5) mod 8).

Inductive action := Ignore | NewPacket | NextFragment.

Definition recv_rule (rseq rfrag useq ufrag : nat) : action :=
  if (useq =? rseq) && (ufrag <=? rfrag) then Ignore
  else if negb (useq =? rseq) && recent rseq useq then Ignore
  else if negb (useq =? rseq) then NewPacket
  else NextFragment.

Definition seq_tags (k n : nat) : list (nat * nat) := map (fun j => (k, j)) (seq 0 n).

Inductive pevent :=
| SNew (n : nat)                 (* tun packet accepted: n fragments, 1 <= n <= 16 *)
| SGiveUp                        (* packet dropped after the retransmission limit *)
| SAck (a : ack)                 (* an answer carrying this header is processed *)
| RChunk (c : chunk)             (* a data query is delivered to the server *)
| RGenAck (g : nat).             (* the server answers a query that was sent when the sender was at packet g *)

Definition init : psys :=
  {| snd_ := {| sk := 0; sf := 0; sn := 0; sact := false |};
     rcv_ := {| rR := 0; rf := 0; rbuf := []; rdone := true |};
     chunks := []; acks := []; sizes := fun _ => 0 |}.

(* step relation; [out] = buffer handed to uncompress(), if any *)
Inductive pstep : psys -> pevent -> psys -> option (list (nat * nat)) -> Prop :=
| st_new s n : sact (snd_ s) = false -> 1 <= n <= 16 ->
    pstep s (SNew n)
      {| snd_ := {| sk := S (sk (snd_ s)); sf := 0; sn := n; sact := true |}; rcv_ := rcv_ s;
         chunks := Chunk (S (sk (snd_ s))) 0 (n =? 1) :: chunks s; acks := acks s;
         sizes := fun k => if k =? S (sk (snd_ s)) then n else sizes s k |} None
| st_giveup s :
    pstep s SGiveUp
      {| snd_ := {| sk := sk (snd_ s); sf := sf (snd_ s); sn := sn (snd_ s); sact := false |};
         rcv_ := rcv_ s; chunks := chunks s; acks := acks s; sizes := sizes s |} None
| st_ack_last s a : In a (acks s) -> sact (snd_ s) = true -> sk (snd_ s) <= a_gen a + 2 ->
    a_seq a = sk (snd_ s) mod 8 -> a_frag a = sf (snd_ s) mod 16 -> S (sf (snd_ s)) = sn (snd_ s) ->
    pstep s (SAck a)
      {| snd_ := {| sk := sk (snd_ s); sf := sf (snd_ s); sn := sn (snd_ s); sact := false |};
         rcv_ := rcv_ s; chunks := chunks s; acks := acks s; sizes := sizes s |} None
| st_ack_next s a : In a (acks s) -> sact (snd_ s) = true -> sk (snd_ s) <= a_gen a + 2 ->
    a_seq a = sk (snd_ s) mod 8 -> a_frag a = sf (snd_ s) mod 16 -> S (sf (snd_ s)) < sn (snd_ s) ->
    pstep s (SAck a)
      {| snd_ := {| sk := sk (snd_ s); sf := S (sf (snd_ s)); sn := sn (snd_ s); sact := true |};
         rcv_ := rcv_ s;
         chunks := Chunk (sk (snd_ s)) (S (sf (snd_ s))) (S (S (sf (snd_ s))) =? sn (snd_ s)) :: chunks s;
         acks := acks s; sizes := sizes s |} None
| st_ack_ignored s a : In a (acks s) ->
    (sact (snd_ s) = false \/ a_gen a + 2 < sk (snd_ s) \/ a_seq a <> sk (snd_ s) mod 8 \/ a_frag a <> sf (snd_ s) mod 16) ->
    pstep s (SAck a) s None
| st_chunk_ignore s k f l : In (Chunk k f l) (chunks s) -> sk (snd_ s) <= k + 3 ->
    recv_rule (rR (rcv_ s) mod 8) (rf (rcv_ s)) (k mod 8) (f mod 16) = Ignore ->
    pstep s (RChunk (Chunk k f l)) s None
| st_chunk_new s k f l : In (Chunk k f l) (chunks s) -> sk (snd_ s) <= k + 3 ->
    recv_rule (rR (rcv_ s) mod 8) (rf (rcv_ s)) (k mod 8) (f mod 16) = NewPacket ->
    pstep s (RChunk (Chunk k f l))
      {| snd_ := snd_ s;
         rcv_ := {| rR := k; rf := f mod 16; rbuf := if l then [] else [(k, f)]; rdone := l |};
         chunks := chunks s; acks := acks s; sizes := sizes s |}
      (if l then Some [(k, f)] else None)
| st_chunk_next s k f l : In (Chunk k f l) (chunks s) -> sk (snd_ s) <= k + 3 ->
    recv_rule (rR (rcv_ s) mod 8) (rf (rcv_ s)) (k mod 8) (f mod 16) = NextFragment ->
    pstep s (RChunk (Chunk k f l))
      {| snd_ := snd_ s;
         rcv_ := {| rR := rR (rcv_ s); rf := f mod 16;
                    rbuf := if l then [] else rbuf (rcv_ s) ++ [(k, f)]; rdone := l |};
         chunks := chunks s; acks := acks s; sizes := sizes s |}
      (if l then Some (rbuf (rcv_ s) ++ [(k, f)]) else None)
| st_genack s g : g <= sk (snd_ s) ->
    pstep s (RGenAck g)
      {| snd_ := snd_ s; rcv_ := rcv_ s; chunks := chunks s;
         acks := {| a_seq := rR (rcv_ s) mod 8; a_frag := rf (rcv_ s) mod 16; a_gen := g;
                    a_sk := sk (snd_ s); a_R := rR (rcv_ s); a_rf := rf (rcv_ s) |} :: acks s;
         sizes := sizes s |} None.

(* H6: the receiver is never more than 5 packets behind *)
Definition close_enough (s : psys) : Prop := sk (snd_ s) <= rR (rcv_ s) + 5.

(* executions that respect N* *)
Inductive reach : psys -> list (list (nat * nat)) -> Prop :=
| reach_init : reach init []
| reach_step s outs e s' o : reach s outs -> pstep s e s' o -> close_enough s' ->
    reach s' (match o with Some b => outs ++ [b] | None => outs end).

(* ---- executable version of the step relation (used for examples and for the abstraction run) ---- *)

Definition chunk_eqb (a b : chunk) : bool :=
  match a, b with Chunk k f l, Chunk k' f' l' => (k =? k') && (f =? f') && Bool.eqb l l' end.

Definition ack_eqb (a b : ack) : bool :=
  (a_seq a =? a_seq b) && (a_frag a =? a_frag b) && (a_gen a =? a_gen b) && (a_sk a =? a_sk b) &&
  (a_R a =? a_R b) && (a_rf a =? a_rf b).

Definition pexec (s : psys) (e : pevent) : option (psys * option (list (nat * nat))) :=
  let S_ := snd_ s in let R_ := rcv_ s in
  match e with
  | SNew n =>
      if negb (sact S_) && (1 <=? n) && (n <=? 16) then
        Some ({| snd_ := {| sk := S (sk S_); sf := 0; sn := n; sact := true |}; rcv_ := R_;
                 chunks := Chunk (S (sk S_)) 0 (n =? 1) :: chunks s; acks := acks s;
                 sizes := fun k => if k =? S (sk S_) then n else sizes s k |}, None)
      else None
  | SGiveUp =>
      Some ({| snd_ := {| sk := sk S_; sf := sf S_; sn := sn S_; sact := false |};
               rcv_ := R_; chunks := chunks s; acks := acks s; sizes := sizes s |}, None)
  | SAck a =>
      if negb (existsb (ack_eqb a) (acks s)) then None else
      if sact S_ && (sk S_ <=? a_gen a + 2) && (a_seq a =? sk S_ mod 8) && (a_frag a =? sf S_ mod 16) then
        if S (sf S_) =? sn S_ then
          Some ({| snd_ := {| sk := sk S_; sf := sf S_; sn := sn S_; sact := false |};
                   rcv_ := R_; chunks := chunks s; acks := acks s; sizes := sizes s |}, None)
        else if S (sf S_) <? sn S_ then
          Some ({| snd_ := {| sk := sk S_; sf := S (sf S_); sn := sn S_; sact := true |}; rcv_ := R_;
                   chunks := Chunk (sk S_) (S (sf S_)) (S (S (sf S_)) =? sn S_) :: chunks s;
                   acks := acks s; sizes := sizes s |}, None)
        else None
      else Some (s, None)
  | RChunk (Chunk k f l) =>
      if negb (existsb (chunk_eqb (Chunk k f l)) (chunks s)) || negb (sk S_ <=? k + 3) then None else
      match recv_rule (rR R_ mod 8) (rf R_) (k mod 8) (f mod 16) with
      | Ignore => Some (s, None)
      | NewPacket =>
          Some ({| snd_ := S_; rcv_ := {| rR := k; rf := f mod 16; rbuf := if l then [] else [(k, f)]; rdone := l |};
                   chunks := chunks s; acks := acks s; sizes := sizes s |},
                if l then Some [(k, f)] else None)
      | NextFragment =>
          Some ({| snd_ := S_;
                   rcv_ := {| rR := rR R_; rf := f mod 16; rbuf := if l then [] else rbuf R_ ++ [(k, f)]; rdone := l |};
                   chunks := chunks s; acks := acks s; sizes := sizes s |},
                if l then Some (rbuf R_ ++ [(k, f)]) else None)
      end
  | RGenAck g =>
      if g <=? sk S_ then
        Some ({| snd_ := S_; rcv_ := R_; chunks := chunks s;
                 acks := {| a_seq := rR R_ mod 8; a_frag := rf R_ mod 16; a_gen := g;
                            a_sk := sk S_; a_R := rR R_; a_rf := rf R_ |} :: acks s;
                 sizes := sizes s |}, None)
      else None
  end.

(* the acknowledgement the receiver would generate now for a query sent at packet g *)
Definition cur_ack (s : psys) (g : nat) : ack :=
  {| a_seq := rR (rcv_ s) mod 8; a_frag := rf (rcv_ s) mod 16; a_gen := g;
     a_sk := sk (snd_ s); a_R := rR (rcv_ s); a_rf := rf (rcv_ s) |}.

(* run a list of "scripted" events: the script may refer to the ack generated at the current state *)
Inductive sevent := EvP (e : pevent) | EvAckNow (g : nat).   (* EvAckNow g = RGenAck g ; SAck (that ack) *)

Fixpoint prun (s : psys) (es : list sevent) (outs : list (list (nat * nat))) (needs_close : bool)
  : option (psys * list (list (nat * nat))) :=
  match es with
  | [] => Some (s, outs)
  | EvP e :: rest =>
      match pexec s e with
      | Some (s', o) =>
          if needs_close && negb (sk (snd_ s') <=? rR (rcv_ s') + 5) then None
          else prun s' rest (match o with Some b => outs ++ [b] | None => outs end) needs_close
      | None => None
      end
  | EvAckNow g :: rest =>
      let a := cur_ack s g in
      match pexec s (RGenAck g) with
      | Some (s1, _) =>
          match pexec s1 (SAck a) with
          | Some (s2, _) =>
              if needs_close && negb (sk (snd_ s2) <=? rR (rcv_ s2) + 5) then None
              else prun s2 rest outs needs_close
          | None => None
          end
      | None => None
      end
  end.
