(* ServerSafetyFuel.v -- C05, part 6: termination.  Every function of the model is a total Coq
   function; the loops of the C code that are not structurally bounded are modelled with fuel.
   Proved here: no fuel ever runs out, i.e. the fuelled result equals the result with any larger
   fuel (the C loop leaves by its own exit condition within the stated number of iterations):
     readname_loop   label loop of one level: at most plen + 1 iterations (fuel S plen), at most
                     src_READNAME_LOOPS = 10 nested levels (structural)
     dec_digits      20 digits suffice for every value below 10^20 (all uses are < 2^32)
     puttxtbin       at most |from| + 1 iterations
     mx_strings      at most |data| + 1 iterations (write_dns MX/SRV name splitting)
     mx_build        at most |data| + 1 iterations (the while(1) loop of write_dns)
   and the closed-form iteration bounds used in Properties_C05.v. *)
From Coq Require Import List NArith ZArith Arith Bool Lia ZifyBool ZifyNat ZifyN.
From Iodine Require Import Generated.SrcConsts Base Codec Hostname DnsName DnsMsg Domain Server.
Import ListNotations.
Local Open Scope N_scope.

(* ---- readname ------------------------------------------------------------------------------ *)

(* the label loop of one level with explicit fuel; [sub length' offset] is the recursive call for a
   compression pointer *)
Fixpoint labels_f (sub : nat -> nat -> rn_result) (buf : list N) (plen : nat) (length : nat)
         (fuel : nat) (s len : nat) (acc : list N) {struct fuel} : rn_result :=
  let finish s len acc :=
    {| rn_ret := S len; rn_wr := List.rev (0 :: acc); rn_src := Some (S s) |} in
  match fuel with
  | O => finish s len acc
  | S fuel' =>
      if negb ((s <? plen)%nat && negb (rb buf s =? 0) && (len <? length - 2)%nat)
      then finish s len acc
      else
        let c := rb buf s in
        let s1 := S s in
        if N.land c 192 =? 192 then
          if (plen <=? s1)%nat then finish s1 len acc
          else
            let offset := N.to_nat (N.lor (N.shiftl (N.land c 63) 8) (N.land (rb buf s1) 255)) in
            if (plen <=? offset)%nat then
              match len with
              | O => {| rn_ret := 0; rn_wr := []; rn_src := None |}
              | _ => finish s1 len acc
              end
            else
              let r := sub (length - len)%nat offset in
              {| rn_ret := len + rn_ret r; rn_wr := List.rev acc ++ rn_wr r; rn_src := Some (S s1) |}
        else
          let '(s2, len2, acc2) := copy_label buf plen (N.to_nat c) s1 len length acc in
          if (length - 1 <=? len2)%nat then finish s2 len2 acc2
          else if ((s2 <? plen)%nat && negb (rb buf s2 =? 0))
               then labels_f sub buf plen length fuel' s2 (S len2) (DOTC :: acc2)
               else labels_f sub buf plen length fuel' s2 len2 acc2
  end.

(* readname_loop with the label fuel F used at every level *)
Fixpoint readname_lvl_f (F : nat) (buf : list N) (plen : nat) (length : nat) (loop : nat) (s0 : nat) : rn_result :=
  match loop with
  | O => {| rn_ret := 0; rn_wr := []; rn_src := None |}
  | S loop' =>
      labels_f (fun l o => readname_lvl_f F buf plen l loop' o) buf plen length F s0 0%nat []
  end.

(* the model is the instance F = S plen *)
Lemma readname_lvl_is_f buf plen : forall loop length s0,
  readname_lvl buf plen length loop s0 = readname_lvl_f (S plen) buf plen length loop s0.
Proof.
  induction loop as [|loop IH]; intros length s0; [reflexivity|].
  (* both sides unroll their label loop once (the fuel is S plen); at the two recursive calls the
     model's anonymous inner fixpoint is stuck on the variable fuel and can be named *)
  assert (Hleaf : forall f : nat -> nat -> nat -> list N -> rn_result,
             (forall fuel s len acc,
                 f (S fuel) s len acc =
                 (let finish s len acc := {| rn_ret := S len; rn_wr := List.rev (0 :: acc); rn_src := Some (S s) |} in
                  if negb ((s <? plen)%nat && negb (rb buf s =? 0) && (len <? length - 2)%nat)
                  then finish s len acc
                  else
                    let c := rb buf s in
                    let s1 := S s in
                    if N.land c 192 =? 192 then
                      if (plen <=? s1)%nat then finish s1 len acc
                      else
                        let offset := N.to_nat (N.lor (N.shiftl (N.land c 63) 8) (N.land (rb buf s1) 255)) in
                        if (plen <=? offset)%nat then
                          match len with
                          | O => {| rn_ret := 0; rn_wr := []; rn_src := None |}
                          | _ => finish s1 len acc
                          end
                        else
                          let r := readname_lvl buf plen (length - len) loop offset in
                          {| rn_ret := len + rn_ret r; rn_wr := List.rev acc ++ rn_wr r; rn_src := Some (S s1) |}
                    else
                      let '(s2, len2, acc2) := copy_label buf plen (N.to_nat c) s1 len length acc in
                      if (length - 1 <=? len2)%nat then finish s2 len2 acc2
                      else if ((s2 <? plen)%nat && negb (rb buf s2 =? 0))
                           then f fuel s2 (S len2) (DOTC :: acc2)
                           else f fuel s2 len2 acc2)) ->
             (forall s len acc, f O s len acc = {| rn_ret := S len; rn_wr := List.rev (0 :: acc); rn_src := Some (S s) |}) ->
             forall fuel s len acc,
               f fuel s len acc =
               labels_f (fun l o => readname_lvl_f (S plen) buf plen l loop o) buf plen length fuel s len acc).
  { intros f HS HO. induction fuel as [|fuel IHf]; intros s len acc; [rewrite HO; reflexivity|].
    rewrite HS. cbn [labels_f]. cbv zeta.
    destruct (negb _); [reflexivity|].
    destruct (N.land (rb buf s) 192 =? 192).
    - destruct (plen <=? S s)%nat; [reflexivity|].
      destruct (plen <=? _)%nat; [reflexivity|]. rewrite IH. reflexivity.
    - destruct (copy_label buf plen (N.to_nat (rb buf s)) (S s) len length acc) as [[s2 len2] acc2].
      destruct (length - 1 <=? len2)%nat; [reflexivity|].
      destruct (_ && _); apply IHf. }
  cbn [readname_lvl readname_lvl_f labels_f]. cbv zeta.
  destruct (negb _); [reflexivity|].
  destruct (N.land (rb buf s0) 192 =? 192).
  - destruct (plen <=? S s0)%nat; [reflexivity|].
    destruct (plen <=? _)%nat; [reflexivity|]. rewrite IH. reflexivity.
  - destruct (copy_label buf plen (N.to_nat (rb buf s0)) (S s0) 0 length []) as [[s2 len2] acc2].
    destruct (length - 1 <=? len2)%nat; [reflexivity|].
    destruct (_ && _);
      match goal with
      | |- ?f plen ?a ?b ?c = _ => apply (Hleaf f); intros; reflexivity
      end.
Qed.

Lemma copy_label_mono buf plen cnt : forall s len length acc,
  (s <= fst (fst (copy_label buf plen cnt s len length acc)))%nat.
Proof.
  induction cnt as [|cnt IH]; intros s len length acc; [cbn; lia|].
  cbn [copy_label]. destruct (_ && _); [|cbn; lia].
  specialize (IH (S s) (S len) length (rb buf s :: acc)). lia.
Qed.

(* the label loop leaves by its own condition before the fuel is used up, whenever
   fuel > plen - s: every iteration that continues has s < plen and advances s *)
Lemma labels_f_fuel sub buf plen length : forall f f' s len acc,
  (plen < f + s)%nat -> (plen < f' + s)%nat ->
  labels_f sub buf plen length f s len acc = labels_f sub buf plen length f' s len acc.
Proof.
  induction f as [|f IH]; intros f' s len acc H H'.
  - (* plen < s: the loop condition is false *)
    destruct f' as [|f']; [reflexivity|]. cbn [labels_f]. cbv zeta.
    assert (E : (s <? plen)%nat = false) by (apply Nat.ltb_ge; lia). rewrite E. reflexivity.
  - destruct f' as [|f'].
    + cbn [labels_f]. cbv zeta.
      assert (E : (s <? plen)%nat = false) by (apply Nat.ltb_ge; lia). rewrite E. reflexivity.
    + cbn [labels_f]. cbv zeta.
      destruct (negb _); [reflexivity|].
      destruct (N.land (rb buf s) 192 =? 192); [reflexivity|].
      pose proof (copy_label_mono buf plen (N.to_nat (rb buf s)) (S s) len length acc) as Hm.
      destruct (copy_label buf plen (N.to_nat (rb buf s)) (S s) len length acc) as [[s2 len2] acc2].
      cbn [fst] in Hm.
      destruct (length - 1 <=? len2)%nat; [reflexivity|].
      destruct (_ && _); apply IH; lia.
Qed.

Lemma labels_f_ext sub sub' buf plen length : (forall l o, sub l o = sub' l o) ->
  forall fuel s len acc, labels_f sub buf plen length fuel s len acc = labels_f sub' buf plen length fuel s len acc.
Proof.
  intros Hs. induction fuel as [|fuel IHf]; intros s len acc; [reflexivity|].
  cbn [labels_f]. cbv zeta.
  destruct (negb _); [reflexivity|].
  destruct (N.land (rb buf s) 192 =? 192).
  - destruct (plen <=? S s)%nat; [reflexivity|]. destruct (plen <=? _)%nat; [reflexivity|].
    rewrite Hs. reflexivity.
  - destruct (copy_label _ _ _ _ _ _ _) as [[s2 len2] acc2].
    destruct (length - 1 <=? len2)%nat; [reflexivity|]. destruct (_ && _); apply IHf.
Qed.

(* more fuel than S plen changes nothing, at any nesting depth *)
Lemma readname_lvl_f_fuel buf plen F : (S plen <= F)%nat -> forall loop length s0,
  readname_lvl_f F buf plen length loop s0 = readname_lvl_f (S plen) buf plen length loop s0.
Proof.
  intros HF. induction loop as [|loop IH]; intros length s0; [reflexivity|].
  cbn [readname_lvl_f].
  rewrite (labels_f_ext _ (fun l o => readname_lvl_f (S plen) buf plen l loop o)) by (intros; apply IH).
  apply labels_f_fuel; lia.
Qed.

(* ---- dec_digits ------------------------------------------------------------------------------ *)

Lemma dec_digits_enough : forall f v acc, (1 <= f)%nat -> v < 10 ^ N.of_nat f ->
  forall f', (f <= f')%nat -> dec_digits f' v acc = dec_digits f v acc.
Proof.
  induction f as [|f IH]; intros v acc Hf Hv f' Hf'; [lia|].
  destruct f' as [|f']; [lia|]. cbn [dec_digits]. cbv zeta.
  destruct (v / 10 =? 0) eqn:E; [reflexivity|].
  destruct f as [|f].
  - (* f = 1: v < 10, so v / 10 = 0 *)
    change (10 ^ N.of_nat 1) with 10 in Hv. apply N.eqb_neq in E. exfalso. apply E. apply N.div_small. exact Hv.
  - apply IH; [lia| |lia].
    rewrite Nat2N.inj_succ in Hv. rewrite N.pow_succ_r' in Hv.
    apply N.div_lt_upper_bound; [lia|]. exact Hv.
Qed.

(* all values printed by the server are below 2^32 < 10^20 *)
Lemma dec_of_fuel v : v < 4294967296 -> forall f', (20 <= f')%nat -> dec_digits f' v [] = dec_of v.
Proof.
  intros Hv f' Hf'. unfold dec_of. apply dec_digits_enough; [lia| |exact Hf'].
  eapply N.lt_trans; [exact Hv|]. reflexivity.
Qed.

(* ---- puttxtbin ---------------------------------------------------------------------------------- *)

Lemma txt_chunk_pos : (0 < txt_chunk)%nat.
Proof. unfold txt_chunk. vm_compute. lia. Qed.

Lemma puttxtbin_go_fuel : forall f from bufremain f',
  (length from < f)%nat -> (length from < f')%nat ->
  puttxtbin_go f bufremain from = puttxtbin_go f' bufremain from.
Proof.
  pose proof txt_chunk_pos as Hc.
  induction f as [|f IH]; intros from bufremain f' H H'; [lia|].
  destruct f' as [|f']; [lia|].
  destruct from as [|a from]; [reflexivity|].
  cbn [puttxtbin_go]. cbv zeta.
  destruct (_ <? _)%nat; [reflexivity|].
  rewrite (IH (skipn (Nat.min (length (a :: from)) txt_chunk) (a :: from)) _ f'); [reflexivity| |];
    rewrite skipn_length; cbn [length] in *; lia.
Qed.

Lemma puttxtbin_fuel bufremain from f' : (length from < f')%nat ->
  puttxtbin_go f' bufremain from = puttxtbin bufremain from.
Proof. intros H. unfold puttxtbin. apply puttxtbin_go_fuel; lia. Qed.

(* ---- mx_strings ------------------------------------------------------------------------------------ *)

Lemma mx_strings_fuel : forall f data first f',
  (length data < f)%nat -> (length data < f')%nat ->
  mx_strings f data first = mx_strings f' data first.
Proof.
  induction f as [|f IH]; intros data first f' H H'; [lia|].
  destruct f' as [|f']; [lia|].
  cbn [mx_strings]. cbv zeta.
  destruct (negb first && _); [reflexivity|]. f_equal.
  destruct data as [|a data].
  - (* data exhausted: the next round stops at once, whatever fuel is left *)
    cbn [cstr length skipn]. destruct f; destruct f'; reflexivity.
  - apply IH; rewrite skipn_length; cbn [length] in *; lia.
Qed.

(* ---- mx_build: the while(1) loop of write_dns for MX/SRV ----------------------------------------------- *)

Lemma mx_build_fuel : forall f data downenc td acc f',
  (length data < f)%nat -> (length data < f')%nat ->
  mx_build f data downenc td acc = mx_build f' data downenc td acc.
Proof.
  induction f as [|f IH]; intros data downenc td acc f' H H'; [lia|].
  destruct f' as [|f']; [lia|].
  cbn [mx_build].
  destruct (write_dns_nameenc buf64k data downenc td) as [[nm res] td'].
  destruct res as [|res]; [reflexivity|].
  destruct (length data <=? S res)%nat eqn:E; [reflexivity|].
  apply Nat.leb_gt in E.
  apply IH; rewrite skipn_length; lia.
Qed.

(* ---- readname never writes more than [length] bytes to dst ------------------------------------------ *)

Lemma copy_label_spec buf plen cnt : forall s len length acc,
  let r := copy_label buf plen cnt s len length acc in
  (len <= snd (fst r))%nat /\ (snd (fst r) <= Nat.max len (length - 1))%nat /\
  List.length (snd r) = (List.length acc + (snd (fst r) - len))%nat.
Proof.
  induction cnt as [|cnt IH]; intros s len length acc; cbv zeta; [cbn; lia|].
  cbn [copy_label]. destruct (_ && _) eqn:E; [|cbn; lia].
  specialize (IH (S s) (S len) length (rb buf s :: acc)). cbv zeta in IH. cbn [List.length] in IH.
  apply andb_prop in E. destruct E as [E1 E2]. apply Nat.ltb_lt in E1. lia.
Qed.

Lemma labels_f_wr sub buf plen length :
  (forall l o, (3 <= l)%nat -> (List.length (rn_wr (sub l o)) <= l)%nat) -> (2 <= length)%nat ->
  forall fuel s len acc, List.length acc = len -> (len <= length - 1)%nat ->
  (List.length (rn_wr (labels_f sub buf plen length fuel s len acc)) <= length)%nat.
Proof.
  intros Hsub HL. induction fuel as [|fuel IH]; intros s len acc Ha Hlen.
  - cbn. rewrite app_length, rev_length. cbn. lia.
  - cbn [labels_f]. cbv zeta.
    destruct (negb _) eqn:Ec; [cbn; rewrite app_length, rev_length; cbn; lia|].
    apply negb_false_iff in Ec. apply andb_prop in Ec. destruct Ec as [_ Ec]. apply Nat.ltb_lt in Ec.
    destruct (N.land (rb buf s) 192 =? 192).
    + destruct (plen <=? S s)%nat; [cbn; rewrite app_length, rev_length; cbn; lia|].
      destruct (plen <=? _)%nat.
      * destruct len; [cbn; lia|cbn; rewrite app_length, rev_length; cbn; lia].
      * cbn [rn_wr]. rewrite app_length, rev_length.
        match goal with |- (_ + List.length (rn_wr (sub ?l ?o)) <= _)%nat => specialize (Hsub l o) end. lia.
    + pose proof (copy_label_spec buf plen (N.to_nat (rb buf s)) (S s) len length acc) as Hc. cbv zeta in Hc.
      destruct (copy_label buf plen (N.to_nat (rb buf s)) (S s) len length acc) as [[s2 len2] acc2].
      cbn [fst snd] in Hc. destruct Hc as (Hc1 & Hc2 & Hc3).
      destruct (length - 1 <=? len2)%nat eqn:E; [cbn; rewrite app_length, rev_length; cbn; lia|].
      apply Nat.leb_gt in E.
      destruct (_ && _); apply IH; cbn [List.length]; lia.
Qed.

Lemma readname_lvl_f_wr F buf plen : forall loop length s0, (2 <= length)%nat ->
  (List.length (rn_wr (readname_lvl_f F buf plen length loop s0)) <= length)%nat.
Proof.
  induction loop as [|loop IH]; intros length s0 HL; [cbn; lia|].
  cbn [readname_lvl_f]. apply labels_f_wr; [|assumption|reflexivity|lia].
  intros l o Hl. apply IH. lia.
Qed.

(* readname(packet, packetlen, &data, name, sizeof(name) - 1) writes at most 255 bytes into name[256] *)
Lemma readname_wr_len buf plen src length : (2 <= length)%nat ->
  (List.length (rn_wr (readname buf plen src length)) <= length)%nat.
Proof.
  intros HL. unfold readname. rewrite readname_lvl_is_f. apply readname_lvl_f_wr, HL.
Qed.

(* EOF *)
