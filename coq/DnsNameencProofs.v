(* DnsNameencProofs.v -- C10, emitter side: the host names the server builds for CNAME / A / MX /
   SRV answers (write_dns_nameenc: type letter + codec text, a dot every 57 characters by
   inline_dotify, the rotating ".xy" suffix).  Result: strtok on such a name yields labels of
   1..57 bytes, the name has no NUL and at most 253 characters. *)
From Coq Require Import List NArith Arith Bool Lia ZArith ZifyBool ZifyNat ZifyN.
From Iodine Require Import Generated.SrcConsts Base Codec CodecProofs Hostname DnsName DnsMsg DnsWf DnsWfProofs DnsEmitProofs.
Import ListNotations.
Local Open Scope N_scope.

Ltac Zify.zify_post_hook ::= Z.div_mod_to_equations.

(* ---------------------------------------------------------------------------------- *)
(* codec output: length bound and character set                                          *)

Lemma enc_len_bound c cap d : wfb c = true -> (length (fst (encode c cap d)) <= 2 * length d + 1)%nat.
Proof.
  intros Hwf. destruct (enc_exact c Hwf cap d) as [_ [G2 [G3 _]]].
  pose proof (k_ok c Hwf) as Hk. rewrite G3. unfold enclen.
  set (n := snd (encode c cap d)) in *. clearbody n.
  destruct Hk as [E|[E|E]]; rewrite E; lia.
Qed.

(* no codec emits '.' or NUL *)
Definition hostchar (ch : N) : bool := negb (ch =? 46) && negb (ch =? 0).

Lemma enc_hostchars c cap d : c = b32 \/ c = b64 \/ c = b64u \/ c = b128 ->
  Forall (fun ch => hostchar ch = true) (fst (encode c cap d)).
Proof.
  intros [->|[->|[->| ->]]].
  - apply alpha_from_sweep; [exact wfb_b32|vm_compute; reflexivity].
  - apply alpha_from_sweep; [exact wfb_b64|vm_compute; reflexivity].
  - apply alpha_from_sweep; [exact wfb_b64u|vm_compute; reflexivity].
  - apply alpha_from_sweep; [exact wfb_b128|vm_compute; reflexivity].
Qed.

Lemma four_wfb c : c = b32 \/ c = b64 \/ c = b64u \/ c = b128 -> wfb c = true.
Proof. intros [->|[->|[->| ->]]]; [exact wfb_b32|exact wfb_b64|exact wfb_b64u|exact wfb_b128]. Qed.

(* ---------------------------------------------------------------------------------- *)
(* dot-free runs                                                                         *)

(* length of the dot-free run at the start of s *)
Fixpoint lead (s : list N) : nat :=
  match s with
  | [] => 0%nat
  | c :: s' => if c =? 46 then 0%nat else S (lead s')
  end.

(* every dot-free run of s has at most k characters *)
Fixpoint runs_ok (k : nat) (s : list N) : Prop :=
  match s with
  | [] => True
  | c :: s' => (lead (c :: s') <= k)%nat /\ runs_ok k s'
  end.

Definition nodot (s : list N) : Prop := ~ In 46 s.

Lemma nodot_cons c s : nodot (c :: s) -> c <> 46 /\ nodot s.
Proof. intros H. split; [intros E; apply H; left; lia|intros Hin; apply H; right; exact Hin]. Qed.

Lemma lead_le k s : runs_ok k s -> (lead s <= k)%nat.
Proof. destruct s; [cbn; lia|]. intros [H _]. exact H. Qed.

Lemma lead_nodot_app u t : nodot u -> lead (u ++ t) = (length u + lead t)%nat.
Proof.
  induction u as [|c u IH]; intros H; [reflexivity|].
  apply nodot_cons in H. destruct H as [Hc Hu]. cbn [app lead length].
  destruct (c =? 46) eqn:E; [lia|]. rewrite IH by exact Hu. lia.
Qed.

Lemma runs_ok_nodot_app k u t : nodot u -> runs_ok k t -> (length u + lead t <= k)%nat -> runs_ok k (u ++ t).
Proof.
  induction u as [|c u IH]; intros H Ht Hl; [exact Ht|].
  pose proof (lead_nodot_app (c :: u) t H) as HL.
  apply nodot_cons in H. destruct H as [Hc Hu].
  split; [rewrite <- app_comm_cons in HL; rewrite HL; exact Hl|].
  apply IH; [exact Hu|exact Ht|cbn [length] in Hl; lia].
Qed.

Lemma runs_ok_dot k t : runs_ok k t -> runs_ok k (46 :: t).
Proof. intros H. split; [cbn; lia|exact H]. Qed.

(* strtok on a string whose runs are short yields short tokens *)
Lemma tokens_go_runs k s : forall cur, runs_ok k s -> (length cur + lead s <= k)%nat ->
  Forall (fun w => (length w <= k)%nat) (tokens_go s cur).
Proof.
  induction s as [|c s IH]; intros cur Hr Hl.
  - cbn [tokens_go]. destruct cur as [|x cur]; [constructor|]. constructor; [|constructor].
    rewrite rev_length. cbn [lead] in Hl. lia.
  - destruct Hr as [Hc Hr]. cbn [tokens_go]. unfold DOTC. cbn [lead] in Hl, Hc.
    destruct (c =? 46) eqn:E.
    + pose proof (lead_le k s Hr) as Hs.
      destruct cur as [|x cur]; [apply IH; [exact Hr|cbn [length]; lia]|].
      constructor; [rewrite rev_length; lia|apply IH; [exact Hr|cbn [length]; lia]].
    + apply IH; [exact Hr|cbn [length]; lia].
Qed.

Lemma tokens_runs k s : runs_ok k s -> Forall (fun w => (length w <= k)%nat) (tokens s).
Proof. intros H. apply tokens_go_runs; [exact H|]. pose proof (lead_le k s H). cbn [length]. lia. Qed.

(* splitting at a dot *)
Lemma tokens_go_app_dot a : forall b cur, tokens_go (a ++ 46 :: b) cur = tokens_go a cur ++ tokens_go b [].
Proof.
  induction a as [|c a IH]; intros b cur.
  - cbn [app tokens_go]. unfold DOTC. cbn [N.eqb Pos.eqb]. destruct cur; reflexivity.
  - cbn [app tokens_go]. destruct (c =? DOTC).
    + destruct cur; rewrite IH; reflexivity.
    + apply IH.
Qed.

Lemma tokens_app_dot a b : tokens (a ++ 46 :: b) = tokens a ++ tokens b.
Proof. apply tokens_go_app_dot. Qed.

(* ---------------------------------------------------------------------------------- *)
(* inline_dotify                                                                         *)

Lemma period_pos_57 : period_pos = 57%nat. Proof. reflexivity. Qed.
Lemma period_dots_57 : period_dots = 57%nat. Proof. reflexivity. Qed.
Lemma period_build_57 : period_build = 57%nat. Proof. reflexivity. Qed.

Lemma dotify_back_inv (P : N -> Prop) rev_rest : forall r dots acc,
  r = length rev_rest -> dots = (r / 57)%nat -> nodot rev_rest ->
  runs_ok 57 acc -> (lead acc + r mod 57 <= 57)%nat ->
  P 46 -> Forall P rev_rest -> Forall P acc ->
  runs_ok 57 (dotify_back rev_rest r dots acc) /\ Forall P (dotify_back rev_rest r dots acc) /\
  length (dotify_back rev_rest r dots acc) = (r + dots + length acc)%nat.
Proof.
  induction rev_rest as [|ch rest IH]; intros r dots acc Hr Hd Hnd Hacc Hl HP Hrest HPacc.
  - cbn [length] in Hr. subst r. cbn in Hd. subst dots. cbn [dotify_back List.rev app length]. repeat split; assumption.
  - cbn [length] in Hr.
    assert (Hnd' := Hnd). apply nodot_cons in Hnd'. destruct Hnd' as [Hch Hrest'].
    pose proof (Forall_inv Hrest) as HPch. pose proof (Forall_inv_tail Hrest) as HPrest.
    destruct dots as [|dots'].
    + (* no dot left: r < 57 *)
      cbn [dotify_back]. repeat split.
      * apply runs_ok_nodot_app; [|exact Hacc|].
        -- intros Hin. apply in_rev in Hin. exact (Hnd Hin).
        -- rewrite rev_length. cbn [length]. lia.
      * apply Forall_app. split; [apply Forall_rev; exact Hrest|exact HPacc].
      * rewrite app_length, rev_length. cbn [length]. lia.
    + cbn [dotify_back]. rewrite period_pos_57. unfold DOT.
      destruct (Nat.eqb (r mod 57) 0) eqn:Em.
      * apply Nat.eqb_eq in Em.
        destruct (Nat.pred (S dots')) as [|d''] eqn:Ep.
        -- (* the last dot goes in front of index 57 *)
           cbn [Nat.pred] in Ep. subst dots'. repeat split.
           ++ apply runs_ok_nodot_app; [|apply runs_ok_dot; exact Hacc|].
              ** intros Hin. apply in_rev in Hin. exact (Hnd Hin).
              ** rewrite rev_length. cbn [length lead N.eqb Pos.eqb]. lia.
           ++ apply Forall_app. split; [apply Forall_rev; exact Hrest|constructor; assumption].
           ++ rewrite app_length, rev_length. cbn [length]. lia.
        -- cbn [Nat.pred] in Ep. subst dots'.
           destruct (IH (Nat.pred r) (S d'') (ch :: 46 :: acc)) as [I1 [I2 I3]]; try assumption.
           ++ lia.
           ++ lia.
           ++ split; [cbn [lead]; destruct (ch =? 46) eqn:E; [lia|cbn [lead N.eqb Pos.eqb]; lia]|apply runs_ok_dot; exact Hacc].
           ++ cbn [lead]. destruct (ch =? 46) eqn:E; [lia|]. cbn [lead N.eqb Pos.eqb]. lia.
           ++ constructor; [exact HPch|constructor; assumption].
           ++ repeat split; [exact I1|exact I2|]. rewrite I3. cbn [length]. lia.
      * apply Nat.eqb_neq in Em.
        destruct (IH (Nat.pred r) (S dots') (ch :: acc)) as [I1 [I2 I3]]; try assumption.
        -- lia.
        -- lia.
        -- split; [cbn [lead]; destruct (ch =? 46) eqn:E; [lia|lia]|exact Hacc].
        -- cbn [lead]. destruct (ch =? 46) eqn:E; [lia|]. lia.
        -- constructor; assumption.
        -- repeat split; [exact I1|exact I2|]. rewrite I3. cbn [length]. lia.
Qed.

Lemma inline_dotify_ok (P : N -> Prop) s buflen :
  nodot s -> P 46 -> Forall P s -> (length s + length s / 57 <= buflen)%nat ->
  exists d, inline_dotify s buflen = Some d /\ runs_ok 57 d /\ Forall P d /\ length d = (length s + length s / 57)%nat.
Proof.
  intros Hnd HP Hs Hb. unfold inline_dotify. rewrite period_dots_57.
  destruct (buflen <? length s + length s / 57)%nat eqn:E; [apply Nat.ltb_lt in E; lia|].
  eexists. split; [reflexivity|].
  destruct (dotify_back_inv P (List.rev s) (length s) (length s / 57)%nat []) as [I1 [I2 I3]]; try assumption.
  - rewrite rev_length. reflexivity.
  - reflexivity.
  - intros Hin. apply in_rev in Hin. exact (Hnd Hin).
  - exact I.
  - cbn [lead]. lia.
  - apply Forall_rev. exact Hs.
  - constructor.
  - repeat split; [exact I1|exact I2|]. rewrite I3. cbn [length]. lia.
Qed.

(* ---------------------------------------------------------------------------------- *)
(* write_dns_nameenc                                                                     *)

Lemma downenc_codec_cases downenc :
  let c := fst (downenc_codec downenc) in let letter := snd (downenc_codec downenc) in
  (c = b32 \/ c = b64 \/ c = b64u \/ c = b128) /\ (letter = 104 \/ letter = 105 \/ letter = 106 \/ letter = 107).
Proof.
  unfold downenc_codec.
  destruct (downenc =? 83); [cbn; tauto|].
  destruct (downenc =? 85); [cbn; tauto|].
  destruct (downenc =? 86); [cbn; tauto|]. cbn; tauto.
Qed.

Definition hostch (ch : N) : Prop := ch <> 46 /\ ch <> 0.

Lemma hostchar_hostch l : Forall (fun ch => hostchar ch = true) l -> Forall hostch l.
Proof.
  intros H. eapply Forall_impl; [|exact H]. intros ch Hc. unfold hostchar in Hc. unfold hostch.
  destruct (ch =? 46) eqn:E1; [discriminate|]. destruct (ch =? 0) eqn:E2; [discriminate|]. lia.
Qed.

(* every character is non-NUL; '.' is allowed *)
Definition nonul (ch : N) : Prop := ch <> 0.

Lemma last_dot_split (l : list N) : last l 0 = 46 -> exists e, l = e ++ [46].
Proof.
  intros H. destruct l as [|x l] using rev_ind; [cbn in H; lia|].
  rewrite last_last in H. subst x. exists l. reflexivity.
Qed.

(* the properties of a name built by write_dns_nameenc that C10 needs *)
Definition enc_host_ok (nm : list N) : Prop :=
  ~ In 0 nm /\ (length nm <= 253)%nat /\ tokens nm <> [] /\ Forall (fun w => (length w <= 57)%nat) (tokens nm).

(* e ++ ".xy" where e's runs are short *)
Lemma suffix_host_ok d (x y : N) :
  runs_ok 57 d -> Forall nonul d -> (length d <= 250)%nat -> 97 <= x -> 97 <= y ->
  enc_host_ok ((if last d 0 =? DOT then d else d ++ [DOT]) ++ [x; y]).
Proof.
  intros Hruns HPd Hdl Hx Hy.
  set (d' := if last d 0 =? DOT then d else d ++ [DOT]).
  assert (He : exists e, d' = e ++ [46] /\ tokens e = tokens d /\ (length e <= length d)%nat /\ Forall nonul e).
  { unfold d', DOT. destruct (last d 0 =? 46) eqn:E.
    - apply N.eqb_eq in E. destruct (last_dot_split d E) as [e He]. exists e. split; [exact He|].
      split; [rewrite He, tokens_app_dot; cbn [tokens tokens_go]; rewrite app_nil_r; reflexivity|].
      split; [rewrite He, app_length; lia|].
      rewrite He in HPd. apply Forall_app in HPd. tauto.
    - exists d. repeat split; [lia|exact HPd]. }
  destruct He as [e [He1 [He2 [He3 He4]]]].
  assert (Hnm : d' ++ [x; y] = e ++ 46 :: [x; y]) by (rewrite He1, <- app_assoc; reflexivity).
  rewrite Hnm. unfold enc_host_ok.
  assert (Hxy : tokens [x; y] = [[x; y]]).
  { unfold tokens. cbn [tokens_go]. unfold DOTC.
    destruct (x =? 46) eqn:E1; [lia|]. destruct (y =? 46) eqn:E2; [lia|]. reflexivity. }
  assert (Htok : tokens (e ++ 46 :: [x; y]) = tokens d ++ [[x; y]]).
  { rewrite tokens_app_dot, He2, Hxy. reflexivity. }
  repeat split.
  - intros Hin. apply in_app_or in Hin. destruct Hin as [Hin|[Hin|[Hin|[Hin|[]]]]].
    + rewrite Forall_forall in He4. exact (He4 _ Hin eq_refl).
    + discriminate.
    + lia.
    + lia.
  - rewrite app_length. cbn [length]. lia.
  - rewrite Htok. destruct (tokens d); discriminate.
  - rewrite Htok. apply Forall_app. split; [apply tokens_runs, Hruns|constructor; [cbn [length]; lia|constructor]].
Qed.

Lemma space_245 buflen : (255 <= buflen)%nat ->
  (Nat.min 255 buflen - 4 - 2 - (Nat.min 255 buflen - 4 - 2) / period_build = 245)%nat.
Proof. intros Hb. rewrite period_build_57. replace (Nat.min 255 buflen) with 255%nat by lia. reflexivity. Qed.

(* write_dns_nameenc with the capacity arithmetic done *)
Definition nameenc_name (c : codec) (letter : N) (data : list N) (td' : nat * nat) (buflen : nat) : list N :=
  let s := letter :: fst (encode c 245 data) in
  let dotted := match inline_dotify s buflen with Some d => d | None => s end in
  (if last dotted 0 =? DOT then dotted else dotted ++ [DOT]) ++ [97 + N.of_nat (fst td'); 97 + N.of_nat (snd td')].

Lemma nameenc_eq buflen data downenc td : (255 <= buflen)%nat ->
  write_dns_nameenc buflen data downenc td =
    (nameenc_name (fst (downenc_codec downenc)) (snd (downenc_codec downenc)) data (td_next td) buflen,
     snd (encode (fst (downenc_codec downenc)) 245 data), td_next td).
Proof.
  intros Hb. unfold write_dns_nameenc, nameenc_name. rewrite (space_245 buflen Hb).
  destruct (downenc_codec downenc) as [c letter]. reflexivity.
Qed.

Lemma text_dotify t buflen : (255 <= buflen)%nat -> (1 <= length t <= 246)%nat -> Forall hostch t ->
  exists d, inline_dotify t buflen = Some d /\ runs_ok 57 d /\ Forall nonul d /\ (length d <= 250)%nat.
Proof.
  intros Hb Hsl Hhc.
  assert (Hnd : nodot t).
  { intros Hin. rewrite Forall_forall in Hhc. destruct (Hhc _ Hin) as [H _]. congruence. }
  assert (Hnn : Forall nonul t) by (eapply Forall_impl; [|exact Hhc]; intros ch [_ H]; exact H).
  destruct (inline_dotify_ok nonul t buflen Hnd) as [d [Hd [Hruns [HPd Hdl]]]]; [unfold nonul; lia|exact Hnn|lia|].
  exists d. repeat split; try assumption. lia.
Qed.

(* NB: never run lia with a term like [encode c 245 data] in the context (checking the
   certificate then takes minutes); generalise the text first. *)
Lemma enc_text_len c data : (length (fst (encode c 245 data)) <= 245)%nat.
Proof. pose proof (enc_go_len c 245 0 data) as [H _]. exact H. Qed.

Lemma enc_text_ok c letter data :
  (c = b32 \/ c = b64 \/ c = b64u \/ c = b128) -> (letter = 104 \/ letter = 105 \/ letter = 106 \/ letter = 107) ->
  (1 <= length (letter :: fst (encode c 245 data)) <= 246)%nat /\ Forall hostch (letter :: fst (encode c 245 data)).
Proof.
  intros Hc Hlet. split.
  - pose proof (enc_text_len c data) as H. revert H. generalize (fst (encode c 245 data)). intros t H.
    cbn [length]. lia.
  - constructor; [|apply hostchar_hostch, enc_hostchars, Hc].
    clear Hc. unfold hostch. destruct Hlet as [->|[->|[->| ->]]]; split; discriminate.
Qed.

Lemma nameenc_name_ok c letter data td' buflen : (255 <= buflen)%nat ->
  (c = b32 \/ c = b64 \/ c = b64u \/ c = b128) -> (letter = 104 \/ letter = 105 \/ letter = 106 \/ letter = 107) ->
  enc_host_ok (nameenc_name c letter data td' buflen).
Proof.
  intros Hb Hc Hlet. unfold nameenc_name.
  destruct (enc_text_ok c letter data Hc Hlet) as [Hl Hh].
  destruct (text_dotify _ buflen Hb Hl Hh) as [d [Hd [Hruns [HPd Hdl]]]].
  cbv zeta. rewrite Hd. clear Hl Hh Hd.
  apply suffix_host_ok; try assumption; lia.
Qed.

Lemma nameenc_ok buflen data downenc td : (255 <= buflen)%nat ->
  exists nm, write_dns_nameenc buflen data downenc td =
               (nm, snd (encode (fst (downenc_codec downenc)) 245 data), td_next td) /\ enc_host_ok nm.
Proof.
  intros Hb. eexists. split; [apply nameenc_eq, Hb|].
  pose proof (downenc_codec_cases downenc) as Hcc. cbv zeta in Hcc. destruct Hcc as [Hc Hlet].
  apply nameenc_name_ok; assumption.
Qed.
