(* HandshakeGen.v -- the autodetect steps of the handshake, written once over an abstract "world" that answers
   queries, and instantiated twice:
   (1) with the script world of Handshake.v (a list of datagrams and time-outs): the generic steps ARE the steps
       of Handshake.v (the model that is compared with the real client_handshake);
   (2) with a deterministic responder (a path that gives the same answer whenever the same test is asked, or
       never answers it): the generic steps then compute exactly the decision functions of Negotiate.v
       (upenc_autodetect, downenc_autodetect, autoprobe, qtype_autodetect) applied to the evaluation of the
       responder's answers.
   Together: the decision logic C11 reasons about is what the sequencing model -- retries, time-outs, one query
   per attempt -- computes on every path that answers consistently. *)
From Coq Require Import List NArith ZArith Arith Bool Lia.
From RecordUpdate Require Import RecordUpdate.
From Iodine Require Import Generated.SrcConsts Base DnsName DnsMsg Negotiate Login LoginGlue Shell Handshake.
Import ListNotations.
Local Open Scope N_scope.

Section Gen.
  Variable W : Type.
  Definition MG (A : Type) : Type := hs -> W -> A * hs * W.
  Definition retG {A} (a : A) : MG A := fun s w => (a, s, w).
  Definition bindG {A B} (m : MG A) (f : A -> MG B) : MG B := fun s w => let '(a, s1, w1) := m s w in f a s1 w1.
  Definition modifyG (f : hs -> hs) : MG unit := fun s w => (tt, f s, w).
  Definition getG : MG hs := fun s w => (s, s, w).
  Fixpoint attemptsG {A} (n : nat) (body : MG (option A)) (dflt : MG A) : MG A :=
    match n with
    | O => dflt
    | S k => bindG body (fun r => match r with Some a => retG a | None => attemptsG k body dflt end)
    end.

  (* send a query with command letter c that asks [tag] (the test pattern / codec letter / size / type and round),
     wait for the reply *)
  Variable askG : N -> N -> nat -> list N -> MG wres.

  Definition g_upenctest (pat : list N) : MG upres :=
    attemptsG 3
      (bindG (askG 122 90 cap_full pat) (fun r =>
         match r with
         | WErr => retG (Some UpFail)
         | WRead buf => if (0 <? length buf)%nat then retG (Some (upenctest_eval pat (Some buf))) else retG None
         | WTimeout => retG None
         end))
      (retG UpFail).

  Fixpoint g_upenc_chain (ps : list (list N)) : MG (option N) :=
    match ps with
    | [] => retG (Some src_UPENC_CHAIN_RET)
    | p :: t => bindG (g_upenctest p) (fun r =>
                  match r with UpSwap => retG (Some 0) | UpFail => retG None | UpPass => g_upenc_chain t end)
    end.
  Fixpoint g_upenc_alts (ps : list (list N)) (rets : list N) : MG N :=
    match ps, rets with
    | p :: t, r :: rt => bindG (g_upenctest p) (fun x =>
                           match x with UpSwap => retG 0 | UpPass => retG r | UpFail => g_upenc_alts t rt end)
    | _, _ => retG 0
    end.
  Definition g_upenc_auto : MG N :=
    bindG (g_upenc_chain src_upenc_chain) (fun c =>
      match c with Some r => retG r | None => g_upenc_alts src_upenc_alt src_upenc_alt_ret end).

  Definition g_downenctest (letter : N) : MG bool :=
    attemptsG 3
      (bindG (askG 121 89 cap_full [letter]) (fun r =>
         match r with
         | WErr => retG (Some false)
         | WRead buf => if (0 <? length buf)%nat then retG (Some (downenctest_eval (Some buf))) else retG None
         | WTimeout => retG None
         end))
      (retG false).

  Definition g_downenc_auto : MG N :=
    bindG getG (fun s =>
      let ty := h_qtype s in
      if (ty =? T_NULL) || (ty =? T_PRIVATE) then retG 32 else
      bindG (g_downenctest 83) (fun b64 =>
      bindG (if b64 then retG false else g_downenctest 85) (fun b64u =>
      bindG (if b64 || b64u then g_downenctest 86 else retG false) (fun b128 =>
      bindG (if b128 && (ty =? T_TXT) then g_downenctest 82 else retG false) (fun raw =>
      retG (if raw then 82 else if b128 then 86 else if b64 then 83 else if b64u then 85 else 32)))))).

  Definition size_tag (proposed : N) : list N := [proposed / 256; proposed mod 256].

  Definition g_probe (proposed : N) : MG probe_res :=
    attemptsG 3
      (bindG (askG 114 82 cap_term (size_tag proposed)) (fun r =>
         match r with
         | WRead buf =>
             if (0 <? length buf)%nat then
               match fragsize_check buf proposed with
               | PNoAnswer => retG None
               | x => retG (Some x)
               end
             else retG None
         | _ => retG None
         end))
      (retG PNoAnswer).

  Fixpoint g_autoprobe_loop (fuel : nat) (proposed range : N) (maxf : Z) : MG Z :=
    match fuel with
    | O => retG maxf
    | S f =>
        if (0 <? range) && ((src_PROBE_RANGE_MIN <=? range) || (maxf <? Z.of_N src_PROBE_ENOUGH)%Z) then
          bindG (g_probe proposed) (fun p =>
            let maxf' := match p with POk => Z.of_N proposed | PCorrupt => (-1)%Z | _ => maxf end in
            if (maxf' <? 0)%Z then retG maxf'
            else
              let range' := N.shiftr range src_PROBE_SHIFT in
              let up := if (maxf' =? Z.of_N proposed)%Z then src_PROBE_OK_UP else src_PROBE_FAIL_UP in
              let proposed' := if up =? 1 then proposed + range' else proposed - range' in
              g_autoprobe_loop f proposed' range' maxf')
        else retG maxf
    end.
  Definition g_autoprobe : MG N :=
    bindG (g_autoprobe_loop 16 src_PROBE_START src_PROBE_RANGE 0) (fun m =>
      retG (if (m <=? Z.of_N src_PROBE_MIN_OK)%Z then 0 else Z.to_N m - src_PROBE_HDR)).
End Gen.

(* ---- (1) the script world: the generic steps are the steps of Handshake.v --------------------------------- *)

Definition ask_script (c c2 : N) (buflen : nat) (tag : list N) : MG (list item) wres := ask c c2 buflen.

Lemma gen_upenctest_script pat : g_upenctest (list item) ask_script pat = hs_upenctest pat.
Proof. reflexivity. Qed.
Lemma gen_upenc_chain_script ps : forall s l, g_upenc_chain (list item) ask_script ps s l = hs_upenc_chain ps s l.
Proof.
  induction ps as [|p t IH]; intros s l; cbn [g_upenc_chain hs_upenc_chain]; [reflexivity |].
  unfold bindG, bind. rewrite gen_upenctest_script.
  destruct (hs_upenctest p s l) as [[r s1] l1]. destruct r; [reflexivity | reflexivity | apply IH].
Qed.
Lemma gen_upenc_alts_script ps : forall rets s l, g_upenc_alts (list item) ask_script ps rets s l = hs_upenc_alts ps rets s l.
Proof.
  induction ps as [|p t IH]; intros rets s l; cbn [g_upenc_alts hs_upenc_alts]; [reflexivity |].
  destruct rets as [|r rt]; [reflexivity |].
  unfold bindG, bind. rewrite gen_upenctest_script.
  destruct (hs_upenctest p s l) as [[x s1] l1]. destruct x; [reflexivity | apply IH | reflexivity].
Qed.
Lemma gen_upenc_auto_script s l : g_upenc_auto (list item) ask_script s l = hs_upenc_auto s l.
Proof.
  unfold g_upenc_auto, hs_upenc_auto, bindG, bind. rewrite gen_upenc_chain_script.
  destruct (hs_upenc_chain src_upenc_chain s l) as [[c s1] l1].
  destruct c as [r|]; [reflexivity | apply gen_upenc_alts_script].
Qed.
Lemma gen_downenctest_script l : g_downenctest (list item) ask_script l = hs_downenctest.
Proof. reflexivity. Qed.
Lemma gen_downenc_auto_script : g_downenc_auto (list item) ask_script = hs_downenc_auto.
Proof. reflexivity. Qed.
Lemma gen_probe_script p : g_probe (list item) ask_script p = hs_probe p.
Proof. reflexivity. Qed.
Lemma gen_autoprobe_loop_script fuel : forall p r m s l,
  g_autoprobe_loop (list item) ask_script fuel p r m s l = hs_autoprobe_loop fuel p r m s l.
Proof.
  induction fuel as [|f IH]; intros p r m s l; cbn [g_autoprobe_loop hs_autoprobe_loop]; [reflexivity |].
  destruct (_ && _); [|reflexivity].
  unfold bindG, bind. rewrite gen_probe_script.
  destruct (hs_probe p s l) as [[x s1] l1].
  destruct (_ <? 0)%Z; [reflexivity | apply IH].
Qed.
Lemma gen_autoprobe_script s l : g_autoprobe (list item) ask_script s l = hs_autoprobe s l.
Proof.
  unfold g_autoprobe, hs_autoprobe, bindG, bind. rewrite gen_autoprobe_loop_script.
  destruct (hs_autoprobe_loop _ _ _ _ s l) as [[m s1] l1]. reflexivity.
Qed.

(* ---- (2) a deterministic responder ------------------------------------------------------------------------- *)

Section Responder.
  (* what the path returns for the test [tag] asked with command letter c: the bytes the client extracts from the
     fitting reply, or None when no reply ever comes.  The same question gets the same answer every time. *)
  Variable R : N -> list N -> option (list N).
  Hypothesis R_nonempty : forall c t, R c t <> Some [].

  Definition ask_resp (c c2 : N) (buflen : nat) (tag : list N) : MG unit wres :=
    fun s w => (match R c tag with Some buf => WRead buf | None => WTimeout end, send c s, w).

  Lemma resp_upenctest pat s :
    fst (fst (g_upenctest unit ask_resp pat s tt)) = upenctest_eval pat (R 122 pat).
  Proof.
    unfold g_upenctest; cbn [attemptsG]. unfold bindG, ask_resp, retG.
    destruct (R 122 pat) as [buf|] eqn:E; [|reflexivity].
    destruct buf as [|b bs]; [exfalso; exact (R_nonempty _ _ E) | reflexivity].
  Qed.

  (* the result does not depend on the state; we only follow the first component *)
  Lemma resp_upenc_chain ps s :
    fst (fst (g_upenc_chain unit ask_resp ps s tt)) = upenc_chain (fun p => upenctest_eval p (R 122 p)) ps.
  Proof.
    revert s; induction ps as [|p t IH]; intros s; cbn [g_upenc_chain upenc_chain]; [reflexivity |].
    unfold bindG at 1. pose proof (resp_upenctest p s) as H.
    destruct (g_upenctest unit ask_resp p s tt) as [[r s1] []]; cbn [fst] in H. rewrite <- H.
    destruct r; [reflexivity | reflexivity | apply IH].
  Qed.
  Lemma resp_upenc_alts ps rets s :
    fst (fst (g_upenc_alts unit ask_resp ps rets s tt)) = upenc_alts (fun p => upenctest_eval p (R 122 p)) ps rets.
  Proof.
    revert rets s; induction ps as [|p t IH]; intros rets s; cbn [g_upenc_alts upenc_alts]; [reflexivity |].
    destruct rets as [|r rt]; [reflexivity |].
    unfold bindG at 1. pose proof (resp_upenctest p s) as H.
    destruct (g_upenctest unit ask_resp p s tt) as [[x s1] []]; cbn [fst] in H. rewrite <- H.
    destruct x; [reflexivity | apply IH | reflexivity].
  Qed.
  Theorem resp_upenc_auto s :
    fst (fst (g_upenc_auto unit ask_resp s tt)) = upenc_autodetect (fun p => upenctest_eval p (R 122 p)).
  Proof.
    unfold g_upenc_auto, upenc_autodetect, bindG.
    pose proof (resp_upenc_chain src_upenc_chain s) as H.
    destruct (g_upenc_chain unit ask_resp src_upenc_chain s tt) as [[c s1] []]; cbn [fst] in H. rewrite <- H.
    destruct c as [r|]; [reflexivity | apply resp_upenc_alts].
  Qed.

  Lemma resp_downenctest l s :
    fst (fst (g_downenctest unit ask_resp l s tt)) = downenctest_eval (R 121 [l]) /\
    h_qtype (snd (fst (g_downenctest unit ask_resp l s tt))) = h_qtype s.
  Proof.
    unfold g_downenctest; cbn [attemptsG]. unfold bindG, ask_resp, retG.
    destruct (R 121 [l]) as [buf|] eqn:E; [|split; reflexivity].
    destruct buf as [|b bs]; [exfalso; exact (R_nonempty _ _ E) | split; reflexivity].
  Qed.

  Theorem resp_downenc_auto s :
    fst (fst (g_downenc_auto unit ask_resp s tt)) =
    downenc_autodetect (h_qtype s) (fun l => downenctest_eval (R 121 [l])).
  Proof.
    unfold g_downenc_auto, downenc_autodetect. unfold bindG at 1, getG.
    destruct ((h_qtype s =? T_NULL) || (h_qtype s =? T_PRIVATE)); [reflexivity |].
    unfold bindG at 1. destruct (resp_downenctest 83 s) as [H1 _].
    destruct (g_downenctest unit ask_resp 83 s tt) as [[b64 s1] []]; cbn [fst] in H1. rewrite <- H1.
    unfold bindG at 1.
    assert (E2 : exists s2, (if b64 then retG unit false else g_downenctest unit ask_resp 85) s1 tt =
                            (if b64 then false else downenctest_eval (R 121 [85]), s2, tt)).
    { destruct b64; [eexists; reflexivity |].
      destruct (resp_downenctest 85 s1) as [H _].
      destruct (g_downenctest unit ask_resp 85 s1 tt) as [[x s2] []]; cbn [fst] in H. rewrite H. eexists; reflexivity. }
    destruct E2 as [s2 E2]. rewrite E2.
    unfold bindG at 1.
    set (b64u := if b64 then false else downenctest_eval (R 121 [85])).
    assert (E3 : exists s3, (if b64 || b64u then g_downenctest unit ask_resp 86 else retG unit false) s2 tt =
                            (if b64 || b64u then downenctest_eval (R 121 [86]) else false, s3, tt)).
    { destruct (b64 || b64u); [|eexists; reflexivity].
      destruct (resp_downenctest 86 s2) as [H _].
      destruct (g_downenctest unit ask_resp 86 s2 tt) as [[x s3] []]; cbn [fst] in H. rewrite H. eexists; reflexivity. }
    destruct E3 as [s3 E3]. rewrite E3.
    unfold bindG at 1.
    set (b128 := if b64 || b64u then downenctest_eval (R 121 [86]) else false).
    assert (E4 : exists s4, (if b128 && (h_qtype s =? T_TXT) then g_downenctest unit ask_resp 82 else retG unit false) s3 tt =
                            (if b128 && (h_qtype s =? T_TXT) then downenctest_eval (R 121 [82]) else false, s4, tt)).
    { destruct (b128 && _); [|eexists; reflexivity].
      destruct (resp_downenctest 82 s3) as [H _].
      destruct (g_downenctest unit ask_resp 82 s3 tt) as [[x s4] []]; cbn [fst] in H. rewrite H. eexists; reflexivity. }
    destruct E4 as [s4 E4]. rewrite E4. unfold retG; cbn [fst].
    subst b128 b64u.
    destruct b64; cbn [orb];
      destruct (downenctest_eval (R 121 [85])); cbn [orb];
      destruct (downenctest_eval (R 121 [86])); cbn [andb];
      destruct (h_qtype s =? T_TXT); cbn [andb];
      destruct (downenctest_eval (R 121 [82])); reflexivity.
  Qed.

  Lemma resp_probe proposed s :
    fst (fst (g_probe unit ask_resp proposed s tt)) = probe_eval (R 114 (size_tag proposed)) proposed.
  Proof.
    unfold g_probe; cbn [attemptsG]. unfold bindG, ask_resp, retG, probe_eval.
    destruct (R 114 (size_tag proposed)) as [buf|] eqn:E; [|reflexivity].
    destruct buf as [|b bs]; [exfalso; exact (R_nonempty _ _ E) |].
    cbn [length Nat.ltb Nat.leb].
    destruct (fragsize_check (b :: bs) proposed); reflexivity.
  Qed.

  Lemma resp_autoprobe_loop fuel : forall proposed range maxf s,
    fst (fst (g_autoprobe_loop unit ask_resp fuel proposed range maxf s tt)) =
    autoprobe_loop fuel (fun p => probe_eval (R 114 (size_tag p)) p) proposed range maxf.
  Proof.
    induction fuel as [|f IH]; intros proposed range maxf s; cbn [g_autoprobe_loop autoprobe_loop]; [reflexivity |].
    destruct (_ && _); [|reflexivity].
    unfold bindG at 1. pose proof (resp_probe proposed s) as H.
    destruct (g_probe unit ask_resp proposed s tt) as [[p s1] []]; cbn [fst] in H. rewrite <- H.
    destruct (_ <? 0)%Z; [reflexivity | apply IH].
  Qed.

  Theorem resp_autoprobe s :
    fst (fst (g_autoprobe unit ask_resp s tt)) = autoprobe (fun p => probe_eval (R 114 (size_tag p)) p).
  Proof.
    unfold g_autoprobe, autoprobe, bindG.
    pose proof (resp_autoprobe_loop 16 src_PROBE_START src_PROBE_RANGE 0 s) as H.
    destruct (g_autoprobe_loop unit ask_resp 16 _ _ _ s tt) as [[m s1] []]; cbn [fst] in H. rewrite <- H. reflexivity.
  Qed.
End Responder.

(* ---- query-type autodetect: the same two instantiations ---------------------------------------------------- *)

Section GenQ.
  Variable W : Type.
  Variable askG : N -> N -> nat -> list N -> MG W wres.

  Definition g_qtypetest (idx timeout : nat) : MG W bool :=
    bindG W (askG 121 89 cap_full [N.of_nat idx; N.of_nat timeout]) (fun r =>
      match r with WRead buf => retG W (downenctest_eval (Some buf)) | _ => retG W false end).

  Fixpoint g_qtype_round (timeout fuel q highest : nat) : MG W nat :=
    match fuel with
    | O => retG W highest
    | S f =>
        if (q <? highest)%nat then
          if numcvt q =? T_UNSET then bindG W (modifyG W (fun s => s <| h_qtype := T_UNSET |>)) (fun _ => retG W highest) else
          bindG W (modifyG W (fun s => s <| h_qtype := numcvt q |>)) (fun _ =>
          bindG W (g_qtypetest q timeout) (fun ok =>
          if ok then retG W q else g_qtype_round timeout f (S q) highest))
        else retG W highest
    end.
  Fixpoint g_qtype_rounds (rounds timeout highest : nat) : MG W nat :=
    match rounds with
    | O => retG W highest
    | S k => bindG W (g_qtype_round timeout (S (S ntypes)) 0 highest) (fun h =>
               if (h =? 0)%nat then retG W h else g_qtype_rounds k (S timeout) h)
    end.
End GenQ.

(* (1) scripts: the tag and the round number are not seen by the script world *)
Lemma gen_qtype_round_script timeout fuel : forall q highest s l,
  g_qtype_round (list item) ask_script timeout fuel q highest s l = hs_qtype_round fuel q highest s l.
Proof.
  induction fuel as [|f IH]; intros q highest s l; cbn [g_qtype_round hs_qtype_round]; [reflexivity |].
  destruct (q <? highest)%nat; [|reflexivity].
  destruct (numcvt q =? T_UNSET); [reflexivity |].
  unfold bindG, bind, modifyG, modify.
  change (g_qtypetest (list item) ask_script q timeout) with hs_qtypetest.
  destruct (hs_qtypetest _ l) as [[ok s1] l1]. destruct ok; [reflexivity | apply IH].
Qed.
Lemma gen_qtype_rounds_script rounds : forall timeout highest s l,
  g_qtype_rounds (list item) ask_script rounds timeout highest s l = hs_qtype_rounds rounds highest s l.
Proof.
  induction rounds as [|k IH]; intros timeout highest s l; cbn [g_qtype_rounds hs_qtype_rounds]; [reflexivity |].
  unfold bindG, bind. rewrite gen_qtype_round_script.
  destruct (hs_qtype_round _ 0 highest s l) as [[h s1] l1].
  destruct (h =? 0)%nat; [reflexivity | apply IH].
Qed.

(* (2) responder *)
Lemma numcvt_unset q : (numcvt q =? T_UNSET) = negb (q <? ntypes)%nat.
Proof.
  unfold numcvt, ntypes.
  destruct (q <? length src_qtype_order)%nat eqn:E.
  - apply Nat.ltb_lt in E.
    assert (H : forallb (fun t => negb (t =? T_UNSET)) src_qtype_order = true) by (vm_compute; reflexivity).
    rewrite forallb_forall in H. specialize (H (nth q src_qtype_order T_UNSET) (nth_In _ _ E)).
    cbn [negb]. destruct (nth q src_qtype_order T_UNSET =? T_UNSET); [discriminate H | reflexivity].
  - apply Nat.ltb_ge in E. rewrite (nth_overflow _ _ E). cbn [negb]. apply N.eqb_refl.
Qed.

Section ResponderQ.
  Variable R : N -> list N -> option (list N).
  Definition qtest (q timeout : nat) : bool := downenctest_eval (R 121 [N.of_nat q; N.of_nat timeout]).

  Lemma resp_qtypetest q timeout s :
    fst (fst (g_qtypetest unit (ask_resp R) q timeout s tt)) = qtest q timeout.
  Proof. unfold g_qtypetest, bindG, ask_resp, retG, qtest. destruct (R 121 _); reflexivity. Qed.

  Lemma resp_qtype_round timeout fuel : forall q highest s,
    fst (fst (g_qtype_round unit (ask_resp R) timeout fuel q highest s tt)) = qtype_round (fun x => qtest x timeout) fuel q highest.
  Proof.
    induction fuel as [|f IH]; intros q highest s; cbn [g_qtype_round qtype_round]; [reflexivity |].
    destruct (q <? highest)%nat; cbn [andb]; [|reflexivity].
    rewrite numcvt_unset. destruct (q <? ntypes)%nat; cbn [negb]; [|reflexivity].
    unfold bindG at 1 2, modifyG.
    pose proof (resp_qtypetest q timeout (s <| h_qtype := numcvt q |>)) as H.
    destruct (g_qtypetest unit (ask_resp R) q timeout _ tt) as [[ok s1] []]; cbn [fst] in H. rewrite <- H.
    destruct ok; [reflexivity | apply IH].
  Qed.

  (* more fuel than types left changes nothing *)
  Lemma qtype_round_fuel test f : forall q highest, (ntypes - q < f)%nat ->
    qtype_round test (S f) q highest = qtype_round test f q highest.
  Proof.
    induction f as [|f IH]; intros q highest Hf; [lia |].
    cbn [qtype_round].
    destruct ((q <? highest)%nat && (q <? ntypes)%nat) eqn:G; [|reflexivity].
    destruct (test q); [reflexivity |].
    apply andb_prop in G; destruct G as [_ G]; apply Nat.ltb_lt in G.
    destruct f as [|f'].
    - lia.
    - apply IH. lia.
  Qed.

  Lemma resp_qtype_rounds rounds : forall timeout highest s,
    fst (fst (g_qtype_rounds unit (ask_resp R) rounds timeout highest s tt)) = qtype_rounds qtest rounds timeout highest.
  Proof.
    induction rounds as [|k IH]; intros timeout highest s; cbn [g_qtype_rounds qtype_rounds]; [reflexivity |].
    unfold bindG at 1.
    pose proof (resp_qtype_round timeout (S (S ntypes)) 0 highest s) as H.
    rewrite (qtype_round_fuel _ (S ntypes) 0 highest) in H by lia.
    destruct (g_qtype_round unit (ask_resp R) timeout (S (S ntypes)) 0 highest s tt) as [[h s1] []]; cbn [fst] in H.
    rewrite <- H.
    destruct (h =? 0)%nat; [reflexivity | apply IH].
  Qed.

  (* handshake_qtype_autodetect on a consistent path: the index Negotiate.qtype_autodetect computes *)
  Theorem resp_qtype_auto s :
    let h := fst (fst (g_qtype_rounds unit (ask_resp R) (N.to_nat src_QTYPE_TIMEOUT_MAX) 1 100 s tt)) in
    (if (h <? ntypes)%nat then Some h else None) = qtype_autodetect qtest.
  Proof. cbv zeta. rewrite resp_qtype_rounds. reflexivity. Qed.
End ResponderQ.
