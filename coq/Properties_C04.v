(* Properties_C04.v -- final statements for property C04 (sessions are isolated: source check,
   routing by tunnel address, slot ownership), about the validated model of the iodined dispatcher
   (Server.v).  Only statements, each closed by a lemma of ServerAuthFinal.v /
   ServerIsolationProofs.v, with Print Assumptions beneath.  The oracles login, zc, unz are
   universally quantified.  Vocabulary: see the head of Properties_C03.v; in addition
     routable now ip u     the test of find_user_by_ip: active, authenticated, not disabled,
                           now < last_pkt + 60, tun_ip = ip
     route st now pkt      find_user_by_ip on bytes 20..23 of a packet of at least 24 bytes, else none
     out_for t ut o        o is an answer to one of the queries held for slot t (to its asker or to the
                           asker of a remembered duplicate), or a raw DATA frame to the address slot t
                           last sent from
     avail now u           the test of find_available_user: (not active or last_pkt + 60 < now) and not disabled *)
From Coq Require Import List NArith ZArith Arith Bool Lia.
From RecordUpdate Require Import RecordUpdate.
From Iodine Require Import Generated.SrcConsts Base Codec Hostname DnsName DnsMsg Domain Server
  ServerFrame ServerAuthDefs ServerAuthProofs ServerAuthSteps ServerIsolationProofs ServerAuthFinal.
From Iodine Require Users UsersProofs.
Import ListNotations.
Local Open Scope N_scope.

(* -- with source checking on, a request naming userid uz from another family or address than the
      one bound to that slot: the table is unchanged and the outputs are exactly one BADIP answer to
      the sender -- or what the handler emits before it looks at the userid (C04_precheck_cases) *)
Theorem C04_badip : forall login zc unz c st now rnd q dl uz, c_check_ip c = true ->
  dispatch c q = Some dl -> (2 <= dl)%nat -> named_user q dl = Some uz ->
  a_fam (h_from q) <> a_fam (u_host (getu st (Z.to_nat uz))) \/
  a_ip (h_from q) <> a_ip (u_host (getu st (Z.to_nat uz))) ->
  step login zc unz c st (EDns now rnd q) = (st, refusal (precheck q dl) q).
Proof. exact final_badip. Qed.
Print Assumptions C04_badip.

Theorem C04_precheck_cases : forall q dl o, precheck q dl = Some o ->
  let k := cmd_of (chr (req_inb q dl) 0) in
  (o = [mk_answer q s_BADLEN 84] /\
   ((k = CL /\ (length (req_unpacked q dl) < 17)%nat) \/ ((k = CS \/ k = CO) /\ (dl < 3)%nat) \/
    (k = CR /\ (dl < 16)%nat) \/ (k = CN /\ (length (req_unpacked q dl) < 3)%nat))) \/
  (o = [] /\
   ((k = CP /\ (h_id q = 0 \/ (length (req_unpacked q dl) < 4)%nat)) \/
    (k = CData /\ ((dl < 6)%nat \/ h_id q = 0)))).
Proof.
  intros q dl o. cbv zeta. rewrite (precheck_of _ q dl eq_refl).
  destruct (cmd_of (chr (req_inb q dl) 0)); try discriminate;
    repeat (match goal with |- context [if ?cnd then _ else _] => destruct cnd eqn:? end); try discriminate;
    intros H; inversion H; subst;
    repeat match goal with
           | E : (_ <? _)%nat = true |- _ => apply Nat.ltb_lt in E
           | E : (_ =? _) = true |- _ => apply N.eqb_eq in E
           end; tauto.
Qed.
Print Assumptions C04_precheck_cases.

(* -- the bound address of a slot changes only by allocation (C04_no_takeover) or by a raw LOGIN frame
      carrying login(password, seed + 1) for a logged-in slot *)
Theorem C04_rebind : forall login zc unz c st e st' outs i,
  step login zc unz c st e = (st', outs) ->
  u_host (getu st' i) <> u_host (getu st i) ->
  alloc_event c st e i \/
  (exists now from pk, e = ERaw now from pk /\ raw_hdr pk src_RAW_HDR_CMD_LOGIN i /\
     raw_login_ok login c st now pk i /\ u_host (getu st' i) = from).
Proof. exact final_rebind. Qed.
Print Assumptions C04_rebind.

(* -- a packet from the tun device: only the slot found for its destination address is touched, only
      that session's askers receive anything; a packet shorter than 24 bytes, or for an address no
      live logged-in session owns, is dropped *)
Theorem C04_route : forall login zc unz c st now pkt st' outs,
  step login zc unz c st (ETun now pkt) = (st', outs) ->
  match route st now pkt with
  | None => st' = st /\ outs = []
  | Some t =>
      (24 <= length pkt)%nat /\ (t < length st)%nat /\
      routable now (le32_at pkt 20) (getu st t) = true /\
      (forall j, (j < t)%nat -> routable now (le32_at pkt 20) (getu st j) = false) /\
      length st' = length st /\ (forall j, j <> t -> getu st' j = getu st j) /\
      sec (getu st' t) = sec (getu st t) /\ Forall (out_for t (getu st t)) outs
  end.
Proof. exact final_route_tun. Qed.
Print Assumptions C04_route.

Theorem C04_route_none : forall st now pkt, route st now pkt = None <->
  (length pkt < 24)%nat \/ forall j, routable now (le32_at pkt 20) (getu st j) = false.
Proof.
  intros st now pkt. unfold route. destruct (24 <=? length pkt)%nat eqn:E.
  - apply Nat.leb_le in E. split.
    + intros H. right. apply fubi_none, H.
    + intros [H|H]; [lia|]. destruct (find_user_by_ip st (le32_at pkt 20) now) as [t|] eqn:Ef; [|reflexivity].
      destruct (fubi_some _ _ _ _ Ef) as (_ & B & _). rewrite H in B. discriminate.
  - apply Nat.leb_gt in E. split; [intros _; left; exact E|reflexivity].
Qed.
Print Assumptions C04_route_none.

Theorem C04_routable : forall now ip u, routable now ip u = true <->
  u_active u = true /\ u_auth u = true /\ u_disabled u = false /\ now < u_last u + TIMEOUT /\ u_tun_ip u = ip.
Proof. exact routable_iff. Qed.
Print Assumptions C04_routable.

(* client-to-client: the same for a completed upstream packet of session i *)
Theorem C04_route_forward : forall unz st now i st' outs,
  handle_full_packet unz st now i = (st', outs) ->
  sec_same st st' /\
  match unz (hfp_raw st i) with
  | None => outs = [] /\ forall j, j <> i -> getu st' j = getu st j
  | Some ip =>
      match route st now ip with
      | None => outs = [OTun ip] /\ forall j, j <> i -> getu st' j = getu st j
      | Some t =>
          (t < length st)%nat /\ routable now (le32_at ip 20) (getu st t) = true /\
          (forall j, (j < t)%nat -> routable now (le32_at ip 20) (getu st j) = false) /\
          Forall (out_for t (getu st t)) outs /\
          forall j, j <> i -> j <> t -> getu st' j = getu st j
      end
  end.
Proof. exact final_route_forward. Qed.
Print Assumptions C04_route_forward.

(* on every table reachable from the initial one the tunnel addresses are those assigned at start-up,
   so with distinct addresses the slot found is the only one that has the address at all *)
Theorem C04_route_unique : forall login zc unz c ips es ip now t, NoDup ips ->
  let st := run login zc unz c (init_state ips) es in
  (find_user_by_ip st ip now = Some t <-> (t < length st)%nat /\ routable now ip (getu st t) = true) /\
  (find_user_by_ip st ip now = Some t -> forall j, (j < length st)%nat -> u_tun_ip (getu st j) = ip -> j = t) /\
  map u_tun_ip st = ips.
Proof. exact final_route_unique. Qed.
Print Assumptions C04_route_unique.

(* ... which C18 provides for the addresses init_users assigns; and the lookup is the one of C18 *)
Theorem C04_pool_distinct : forall my_ip nb, my_ip < 2 ^ 32 -> (8 <= nb <= 30)%nat ->
  NoDup (fst (Users.init_users my_ip nb)).
Proof. exact final_pool_nodup. Qed.
Print Assumptions C04_pool_distinct.

Theorem C04_lookup_is_C18 : forall st ip now,
  find_user_by_ip st ip now = Users.find_user_by_ip (map to_user st) ip now.
Proof. exact fubi_users. Qed.
Print Assumptions C04_lookup_is_C18.

(* -- allocation takes the first slot that is unused or silent for more than 60 s, never a disabled
      one, and leaves every other slot as it is *)
Theorem C04_no_takeover : forall login zc unz c st e i, alloc_event c st e i ->
  exists now rnd q, e = EDns now rnd q /\ (i < length st)%nat /\
    (u_active (getu st i) = false \/ u_last (getu st i) + src_USER_TIMEOUT_AVAIL < now) /\
    u_disabled (getu st i) = false /\
    (forall j, (j < i)%nat -> avail now (getu st j) = false) /\
    forall st' outs, step login zc unz c st e = (st', outs) -> forall j, j <> i -> getu st' j = getu st j.
Proof. exact final_no_takeover. Qed.
Print Assumptions C04_no_takeover.

(* a version request does nothing else to the table *)
Theorem C04_version_request : forall login zc unz c st now rnd q dl st' outs,
  dispatch c q = Some dl -> (2 <= dl)%nat -> is_letter (chr (h_name q) 0) 118 = true ->
  step login zc unz c st (EDns now rnd q) = (st', outs) ->
  st' = st \/ exists i, alloc_event c st (EDns now rnd q) i /\ forall j, j <> i -> getu st' j = getu st j.
Proof. exact final_version_request. Qed.
Print Assumptions C04_version_request.

(* a login request never allocates: it touches at most the slot it names, and only after the check *)
Theorem C04_login_request : forall login zc unz c st now rnd q dl st' outs j,
  dispatch c q = Some dl -> (2 <= dl)%nat -> is_letter (chr (h_name q) 0) 108 = true ->
  step login zc unz c st (EDns now rnd q) = (st', outs) -> getu st' j <> getu st j ->
  named_user q dl = Some (Z.of_nat j) /\ check_user_and_ip c st now (Z.of_nat j) (h_from q) = false.
Proof.
  intros login zc unz c st now rnd q dl st' outs j Hd Hdl Hl H Hne.
  assert (Ek : cmd_of (chr (req_inb q dl) 0) = CL).
  { apply (cmd_of_letter _ 108); [rewrite chr_req_inb by lia; exact Hl|simpl; tauto]. }
  assert (Hst : st' <> st) by (intros ->; apply Hne; reflexivity).
  destruct (final_dns_change login zc unz _ _ _ _ _ _ _ H Hst) as [(i & Ha & _)|(i & dl' & Hd' & _ & Hn & Hc & _ & _ & _ & Ho)].
  - destruct Ha as (now' & rnd' & q' & dl' & (He & Hd' & _) & Ek' & _). inversion He; subst.
    rewrite Hd in Hd'. inversion Hd'; subst. congruence.
  - rewrite Hd in Hd'. inversion Hd'; subst dl'. rewrite Ek in Hc. simpl in Hc.
    destruct (Nat.eq_dec j i) as [->|Hji]; [split; assumption|].
    exfalso. apply Hne. apply (Ho Ek j Hji).
Qed.
Print Assumptions C04_login_request.

(* -- expiry: more than 60 s of silence.  Every userid-naming DNS request is refused ... *)
Theorem C04_expiry : forall login zc unz c st now rnd q dl uz,
  dispatch c q = Some dl -> (2 <= dl)%nat -> named_user q dl = Some uz ->
  u_last (getu st (Z.to_nat uz)) + src_USER_TIMEOUT < now ->
  step login zc unz c st (EDns now rnd q) = (st, refusal (precheck q dl) q).
Proof. exact final_expired. Qed.
Print Assumptions C04_expiry.

(* ... every raw frame for the slot is ignored ... *)
Theorem C04_expiry_raw : forall login zc unz c st now from pk v i, raw_hdr pk v i ->
  u_last (getu st i) + src_USER_TIMEOUT < now -> step login zc unz c st (ERaw now from pk) = (st, []).
Proof. exact final_expired_raw. Qed.
Print Assumptions C04_expiry_raw.

(* ... no tun packet is routed to it, and the slot (unless disabled) is allocatable: the next version
   request takes it or an earlier free slot *)
Theorem C04_expiry_reusable : forall st now i, (i < length st)%nat ->
  u_last (getu st i) + src_USER_TIMEOUT < now -> u_disabled (getu st i) = false ->
  (forall ip, routable now ip (getu st i) = false) /\
  avail now (getu st i) = true /\
  exists k, find_available_from st now 0 = Some k /\ (k <= i)%nat.
Proof.
  intros st now i Hi Ht Hd.
  assert (Ha : avail now (getu st i) = true).
  { apply avail_iff. split; [right; exact Ht|exact Hd]. }
  split; [|split; [exact Ha|apply expired_allocatable; assumption]].
  intros ip. unfold routable, live, TIMEOUT.
  replace (now <? u_last (getu st i) + src_USER_TIMEOUT) with false by (symmetry; apply N.ltb_ge; lia).
  rewrite !andb_false_r. reflexivity.
Qed.
Print Assumptions C04_expiry_reusable.

(* the boundary, as the code has it: after exactly 60 s the checks still accept the session
   (last_pkt + 60 < now is false), find_available_user does not hand the slot out, but
   find_user_by_ip (last_pkt + 60 > now) no longer routes to it *)
Theorem C04_expiry_boundary : forall st now i, u_last (getu st i) + src_USER_TIMEOUT = now ->
  (u_last (getu st i) + TIMEOUT <? now) = false /\
  (u_active (getu st i) = true -> avail now (getu st i) = false) /\
  (forall ip, routable now ip (getu st i) = false).
Proof. exact (final_boundary (fun _ _ => [])). Qed.
Print Assumptions C04_expiry_boundary.

(* ---------------------------------------------------------------------------------------------------- *)
(* non-vacuity.  Two sessions A (slot 0) and B (slot 1), both logged in, source checking on.        *)

Definition ex_P (from : addr) (uid : N) : hq := ex_q (ex_name 112 [uid; 0; 0; 1]) from 9.
Definition ex_two : sstate :=
  let st0 := init_state ex_ips in
  let st1 := fst (ex_step true st0 (EDns 1000 777 (ex_V ex_A))) in
  let st2 := fst (ex_step true st1 (EDns 1000 0 (ex_L ex_A 0 777))) in
  let st3 := fst (ex_step true st2 (EDns 1001 888 (ex_V ex_B))) in
  fst (ex_step true st3 (EDns 1001 0 (ex_L ex_B 1 888))).
Definition ex_sig0 := (sec (user_init 0), 0, 0, 0).
Definition ex_tun (dst : N) : list N := repeat 7 20 ++ [dst mod 256; (dst / 256) mod 256; (dst / 65536) mod 256; dst / 16777216] ++ [1; 2; 3].

Example C04_example :
  ex_flags ex_two 0 = (true, true, 777, 1000) /\ ex_flags ex_two 1 = (true, true, 888, 1001) /\
  (* B pings with A's userid: BADIP, nothing changes; A's own ping is accepted *)
  ex_res (ex_step true ex_two (EDns 1002 0 (ex_P ex_B 0))) = (ex_sig ex_two, [mk_answer (ex_P ex_B 0) s_BADIP 84]) /\
  ex_sig (fst (ex_step true ex_two (EDns 1002 0 (ex_P ex_A 0)))) <> ex_sig ex_two /\
  (* a tun packet for B's tunnel address reaches slot 1 only; one for nobody's is dropped; a short one too *)
  route ex_two 1002 (ex_tun (u_tun_ip (getu ex_two 1))) = Some 1%nat /\
  (let st' := fst (ex_step true ex_two (ETun 1002 (ex_tun (u_tun_ip (getu ex_two 1))))) in
   nth 0 (ex_sig st') (ex_sig0) = nth 0 (ex_sig ex_two) ex_sig0 /\ p_len (u_out (getu st' 1)) = 28 /\ p_len (u_out (getu ex_two 1)) = 0) /\
  ex_res (ex_step true ex_two (ETun 1002 (ex_tun 134744072))) = (ex_sig ex_two, []) /\
  ex_res (ex_step true ex_two (ETun 1002 (firstn 23 (ex_tun (u_tun_ip (getu ex_two 1)))))) = (ex_sig ex_two, []) /\
  (* 60 s after B's last request the packet is no longer routed; 61 s after, B's ping is refused *)
  ex_res (ex_step true ex_two (ETun 1061 (ex_tun (u_tun_ip (getu ex_two 1))))) = (ex_sig ex_two, []) /\
  ex_sig (fst (ex_step true ex_two (EDns 1061 0 (ex_P ex_B 1)))) <> ex_sig ex_two /\
  ex_res (ex_step true ex_two (EDns 1062 0 (ex_P ex_B 1))) = (ex_sig ex_two, [mk_answer (ex_P ex_B 1) s_BADIP 84]).
Proof. vm_compute. repeat split; try reflexivity; discriminate. Qed.
