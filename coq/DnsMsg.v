(* DnsMsg.v -- executable model of src/dns.c (dns_encode, dns_encode_ns_response,
   dns_encode_a_response, dns_get_id, dns_decode for queries and answers), of the server's answer
   construction (write_dns, write_dns_nameenc in iodined.c) and of the client's answer
   post-processing (dns_namedec and the CNAME/TXT/MX paths of read_dns_withq in client.c).
   Model only.  Conventions as in DnsName.v: received packets are (buf, plen). *)
From Coq Require Import List NArith ZArith Arith Bool.
From Iodine Require Import Generated.SrcConsts Base Codec Hostname DnsName.
Import ListNotations.
Local Open Scope N_scope.

(* record types (RFC 1035 / iodine) *)
Definition T_A : N := 1.
Definition T_NS : N := 2.
Definition T_CNAME : N := 5.
Definition T_NULL : N := 10.
Definition T_MX : N := 15.
Definition T_TXT : N := 16.
Definition T_SRV : N := 33.
Definition T_PRIVATE : N := src_T_PRIVATE.
Definition C_IN : N := 1.

Definition be16 (v : N) : list N := [(v / 256) mod 256; v mod 256].
Definition be32 (v : N) : list N := [(v / 16777216) mod 256; (v / 65536) mod 256; (v / 256) mod 256; v mod 256].

Record query := { q_name : list N; q_type : N; q_id : N }.

(* ---- dns_encode -------------------------------------------------------------------- *)

(* CHECKLEN(x): if (buflen < x + (p - buf)) return 0 *)
Definition checklen (buflen : nat) (sofar : list N) (x : nat) : bool := (x + length sofar <=? buflen)%nat.

Definition opt_bytes (o : option (list N)) : list N := match o with Some l => l | None => [] end.

(* split "name1\0name2\0\0" into C strings: strings up to the first empty one; the first string is
   always taken (the C emits one record before testing for the end) *)
Fixpoint mx_strings (fuel : nat) (data : list N) (first : bool) : list (list N) :=
  match fuel with
  | O => []
  | S fuel' =>
      let s := cstr data in
      if negb first && (match s with [] => true | _ => false end) then []
      else s :: mx_strings fuel' (skipn (S (length s)) data) false
  end.

Definition hdr_bytes (id : N) (flags1 flags2 : N) (qd an ns ar : N) : list N :=
  be16 id ++ [flags1; flags2] ++ be16 qd ++ be16 an ++ be16 ns ++ be16 ar.

(* set the answer count in an already built message *)
Definition set_ancount (msg : list N) (an : N) : list N :=
  firstn 6 msg ++ be16 an ++ skipn 8 msg.

(* one resource-record header: name pointer 0xc00c, type, class IN, ttl 0 *)
Definition rr_head (ty : N) : list N := [192; 12] ++ be16 ty ++ be16 C_IN ++ be32 0.

(* the answer records for MX/SRV; returns None where a CHECKLEN fails *)
Fixpoint mx_records (buflen : nat) (ty : N) (names : list (list N)) (ancnt : N) (sofar : list N)
  : option (list N * N) :=
  match names with
  | [] => Some (sofar, ancnt - 1)
  | nm :: rest =>
      if negb (checklen buflen sofar 10) then None else
      let p1 := sofar ++ rr_head ty in
      (* startp = p; p += 2 *)
      if negb (checklen buflen (p1 ++ [0; 0]) 2) then None else
      let pref := be16 ((10 * ancnt) mod 65536) in
      let srv := if ty =? T_SRV then be16 10 ++ be16 5060 else [] in
      if (ty =? T_SRV) && negb (checklen buflen (p1 ++ [0; 0] ++ pref) 4) then None else
      let body0 := pref ++ srv in
      let nmw := opt_bytes (putname (buflen - length (p1 ++ [0; 0] ++ body0)) nm) in
      let body := body0 ++ nmw in
      if negb (checklen buflen (p1 ++ [0; 0] ++ body) 0) then None else
      mx_records buflen ty rest (ancnt + 1) (p1 ++ be16 (N.of_nat (length body) mod 65536) ++ body)
  end.

(* dns_encode(buf, buflen, q, QR_ANSWER, data, datalen): None = returns 0 *)
Definition dns_encode_answer (buflen : nat) (q : query) (data : list N) : option (list N) :=
  if (buflen <? 12)%nat then None else
  let hdr := hdr_bytes (q_id q) 132 0 1 0 0 0 in           (* qr=1 aa=1; ancount patched below *)
  let qn := opt_bytes (putname (buflen - 12) (q_name q)) in
  let p0 := hdr ++ qn in
  if negb (checklen buflen p0 4) then None else
  let p1 := p0 ++ be16 (q_type q) ++ be16 C_IN in
  let ty := q_type q in
  if (ty =? T_CNAME) || (ty =? T_A) then
    if negb (checklen buflen p1 10) then None else
    let p2 := p1 ++ rr_head T_CNAME in
    let nmw := opt_bytes (putname (buflen - length p2 - 2) data) in
    if negb (checklen buflen (p2 ++ [0; 0] ++ nmw) 0) then None else
    Some (set_ancount (p2 ++ be16 (N.of_nat (length nmw) mod 65536) ++ nmw) 1)
  else if (ty =? T_MX) || (ty =? T_SRV) then
    match mx_records buflen ty (mx_strings (S (length data)) data true) 1 p1 with
    | None => None
    | Some (msg, an) => Some (set_ancount msg (an mod 65536))
    end
  else if ty =? T_TXT then
    if negb (checklen buflen p1 10) then None else
    let p2 := p1 ++ rr_head ty in
    let txt := opt_bytes (puttxtbin (buflen - length p2 - 2) data) in
    if negb (checklen buflen (p2 ++ [0; 0] ++ txt) 0) then None else
    Some (set_ancount (p2 ++ be16 (N.of_nat (length txt) mod 65536) ++ txt) 1)
  else
    (* NULL / PRIVATE / anything else: raw binary data *)
    if negb (checklen buflen p1 10) then None else
    let p2 := p1 ++ rr_head ty in
    let dl := Nat.min (length data) (buflen - length p2) in
    if negb (checklen buflen p2 2) then None else
    let p3 := p2 ++ be16 (N.of_nat dl mod 65536) in
    if negb (checklen buflen p3 dl) then None else
    Some (set_ancount (p3 ++ firstn dl data) 1).

(* dns_encode(buf, buflen, q, QR_QUERY, data, datalen) with data = hostname, datalen = strlen *)
Definition edns0_opt : list N := [0; 0; 41; 16; 0; 0; 0; 128; 0; 0; 0].

Definition dns_encode_query (buflen : nat) (edns0 : bool) (id ty : N) (host : list N) : option (list N) :=
  if (buflen <? 12)%nat then None else
  let hdr := hdr_bytes id 1 0 1 0 0 (if edns0 then 1 else 0) in   (* rd=1 *)
  let datalen := Nat.min (length (cstr host)) (buflen - 12) in
  let qn := opt_bytes (putname datalen host) in
  let p0 := hdr ++ qn in
  if negb (checklen buflen p0 4) then None else
  let p1 := p0 ++ be16 ty ++ be16 C_IN in
  if edns0 then
    if negb (checklen buflen p1 11) then None else Some (p1 ++ edns0_opt)
  else Some p1.

Definition dns_get_id (buf : list N) (plen : nat) : N :=
  if (plen <? 12)%nat then 0 else readshort buf 0.

(* ---- dns_decode, QR_QUERY (server side) -------------------------------------------- *)

Definition to_short (v : N) : Z := if v <? 32768 then Z.of_N v else (Z.of_N v - 65536)%Z.

Record dq_result := {
  dq_rv : Z;                 (* return value of dns_decode *)
  dq_q : option query        (* q->name / type / id when they were filled in *)
}.

Definition name_size : nat := N.to_nat src_QUERY_NAME_SIZE.   (* 256 *)
Definition buf64k : nat := N.to_nat 65536.                     (* the 64*1024-byte stack buffers *)
Definition buf1k : nat := N.to_nat 1024.

Definition dns_decode_query (buf : list N) (plen : nat) : dq_result :=
  if (plen <? 12)%nat then {| dq_rv := 0; dq_q := None |} else
  let qr := (rb buf 2) / 128 in
  if negb (qr =? 0) then {| dq_rv := -1; dq_q := None |} else
  let qdcount := to_short (readshort buf 4) in
  if (qdcount <? 1)%Z then {| dq_rv := -1; dq_q := None |} else
  let id := readshort buf 0 in
  let rn := readname buf plen 12 (name_size - 1) in
  let namebuf := overlay (rn_wr rn) (repeat 0 name_size) in
  let name := cstr (firstn (name_size - 1) namebuf) in
  let data := match rn_src rn with Some p => p | None => 12%nat end in
  if (plen <? 4 + data)%nat then {| dq_rv := 0; dq_q := None |} else
  let ty := readshort buf data in
  {| dq_rv := Z.of_nat (length name); dq_q := Some {| q_name := name; q_type := ty; q_id := id |} |}.

(* ---- dns_decode, QR_ANSWER (client side) ------------------------------------------- *)

Record da_result := {
  da_rv : Z;                 (* return value *)
  da_out : list N;           (* bytes written to buf[0..rv) (for CNAME: the C string + NUL) *)
  da_id : option N;          (* q->id if set *)
  da_name0 : option N;       (* q->name[0] if set (None: not written by this call) *)
  da_type : option N;        (* q->type if set (answer type) *)
  da_rcode : N
}.

Definition rdata_size : nat := N.to_nat 4096.

(* the question name is read into an uninitialised stack buffer; when readname writes nothing
   the first byte is indeterminate: modelled as 0 and flagged by da_name0 = Some 0 only through
   this function (see LowLevel notes) *)
Definition first_of_written (w : list N) : N := match w with [] => 0 | c :: _ => c end.

Definition adv (rn : rn_result) (data : nat) : nat :=
  match rn_src rn with Some p => p | None => data end.

(* MX/SRV answer loop: fills names[250][256]; returns None on CHECKLEN failure (return 0) *)
Fixpoint mx_decode_loop (buf : list N) (plen : nat) (cnt : nat) (data : nat) (ty0 : N)
         (names : list (list N)) : option (list (list N) * N) :=
  match cnt with
  | O => Some (names, ty0)
  | S cnt' =>
      let rn := readname buf plen data name_size in
      let d1 := adv rn data in
      if (plen <? 12 + d1)%nat then None else
      let ty := readshort buf d1 in
      let rlen := N.to_nat (readshort buf (d1 + 8)) in
      let rdatastart := (d1 + 10)%nat in
      let pref := readshort buf rdatastart in
      let d2 := (rdatastart + 2)%nat in
      let d3 := if ty =? T_SRV then (d2 + 4)%nat else d2 in
      if (ty =? T_SRV) && (plen <? d3)%nat then None else
      let names' :=
        if (pref mod 10 =? 0) && (10 <=? pref) && (pref <? 2500) then
          let idx := N.to_nat (pref / 10 - 1) in
          let rn2 := readname buf plen d3 (name_size - 1) in
          let old := nth idx names [] in
          let nb := overlay (rn_wr rn2) old in
          let nb' := firstn (name_size - 1) nb ++ [0] in
          firstn idx names ++ nb' :: skipn (S idx) names
        else names in
      let d4 := (rdatastart + rlen)%nat in
      if (plen <? d4)%nat then None else
      mx_decode_loop buf plen cnt' d4 ty names'
  end.

(* output loop: "name10\0name20\0\0", each name cut to the space left *)
Fixpoint mx_output (names : list (list N)) (buflen : nat) (offset : nat) (acc : list N) : list N * nat :=
  match names with
  | [] => (acc ++ [0], offset)
  | nb :: rest =>
      let s := cstr nb in
      match s with
      | [] => (acc ++ [0], offset)
      | _ =>
          let space := (Z.of_nat buflen - Z.of_nat offset - 2)%Z in
          let l := Z.min (Z.of_nat (length s)) space in
          if (l <=? 0)%Z then (acc ++ [0], offset)
          else let ln := Z.to_nat l in
               mx_output rest buflen (offset + ln + 1) (acc ++ firstn ln s ++ [0])
      end
  end.

Definition dns_decode_answer (buflen : nat) (buf : list N) (plen : nat) : da_result :=
  let rcode := (rb buf 3) mod 16 in
  let fail rv id n0 := {| da_rv := rv; da_out := []; da_id := id; da_name0 := n0; da_type := None; da_rcode := rcode |} in
  if (plen <? 12)%nat then {| da_rv := 0; da_out := []; da_id := None; da_name0 := None; da_type := None; da_rcode := 0 |} else
  let qr := (rb buf 2) / 128 in
  if negb (qr =? 1) then {| da_rv := -1; da_out := []; da_id := None; da_name0 := None; da_type := None; da_rcode := 0 |} else
  let qdcount := to_short (readshort buf 4) in
  let ancount := to_short (readshort buf 6) in
  let id := readshort buf 0 in
  if (qdcount <? 1)%Z then fail (-1)%Z None None else
  let rn := readname buf plen 12 name_size in
  let d1 := adv rn 12 in
  if (plen <? 4 + d1)%nat then fail 0%Z (Some id) None else
  let qtype := readshort buf d1 in
  let d2 := (d1 + 4)%nat in
  let n0 := Some (first_of_written (rn_wr rn)) in
  if (ancount <? 1)%Z then fail (-1)%Z (Some id) n0 else
  let ok rv out ty := {| da_rv := rv; da_out := out; da_id := Some id; da_name0 := n0; da_type := Some ty; da_rcode := rcode |} in
  if (qtype =? T_NULL) || (qtype =? T_PRIVATE) then
    let rn2 := readname buf plen d2 name_size in
    let d3 := adv rn2 d2 in
    if (plen <? 10 + d3)%nat then fail 0%Z (Some id) n0 else
    let aty := readshort buf d3 in
    let rlen := N.to_nat (readshort buf (d3 + 8)) in
    let d4 := (d3 + 10)%nat in
    if (plen <? rlen + d4)%nat then fail 0%Z (Some id) n0 else
    let n := Nat.min rlen rdata_size in
    let rdata := map (rb buf) (seq d4 n) in
    if (2 <=? n)%nat then let m := Nat.min n buflen in ok (Z.of_nat m) (firstn m rdata) aty
    else ok 0%Z [] aty
  else if (qtype =? T_A) || (qtype =? T_CNAME) then
    let rn2 := readname buf plen d2 name_size in
    let d3 := adv rn2 d2 in
    if (plen <? 10 + d3)%nat then fail 0%Z (Some id) n0 else
    let aty := readshort buf d3 in
    let rlen := N.to_nat (readshort buf (d3 + 8)) in
    let d4 := (d3 + 10)%nat in
    if aty =? T_CNAME then
      let rn3 := readname buf plen d4 (name_size - 1) in
      let nb := overlay (rn_wr rn3) (repeat 0 name_size) in
      let nm := cstr (firstn (name_size - 1) nb) in
      (* strncpy(buf, name, buflen); buf[buflen-1] = 0; rv = strlen(buf) *)
      let s := firstn (buflen - 1) nm in
      ok (Z.of_nat (length s)) (s ++ [0]) aty
    else if aty =? T_A then
      if (plen <? rlen + d4)%nat then fail 0%Z (Some id) n0 else
      let n := Nat.min rlen rdata_size in
      let rdata := map (rb buf) (seq d4 n) in
      if (2 <=? n)%nat then let m := Nat.min n buflen in ok (Z.of_nat m) (firstn m rdata) aty
      else ok 0%Z [] aty
    else ok 0%Z [] aty
  else if (qtype =? T_MX) || (qtype =? T_SRV) then
    match mx_decode_loop buf plen (Z.to_nat ancount) d2 qtype (repeat (repeat 0 name_size) 250) with
    | None => fail 0%Z (Some id) n0
    | Some (names, aty) =>
        let '(out, off) := mx_output names buflen 0 [] in
        ok (Z.of_nat off) out aty
    end
  else if qtype =? T_TXT then
    let rn2 := readname buf plen d2 name_size in
    let d3 := adv rn2 d2 in
    if (plen <? 10 + d3)%nat then fail 0%Z (Some id) n0 else
    let aty := readshort buf d3 in
    let rlen := N.to_nat (readshort buf (d3 + 8)) in
    let d4 := (d3 + 10)%nat in
    if (plen <? rlen + d4)%nat then fail 0%Z (Some id) n0 else
    let txt := readtxtbin buf d4 rlen rdata_size in
    if (1 <=? length txt)%nat then let m := Nat.min (length txt) buflen in ok (Z.of_nat m) (firstn m txt) aty
    else ok 0%Z [] aty
  else ok 0%Z [] qtype.

(* ---- server: write_dns ------------------------------------------------------------- *)

(* rotating ".xy" suffix state (td1, td2) *)
Definition td_next (td : nat * nat) : nat * nat :=
  let a := (fst td + 3)%nat in let b := (snd td + 7)%nat in
  ((if (26 <=? a)%nat then a - 26 else a)%nat, (if (25 <=? b)%nat then b - 25 else b)%nat).

Definition downenc_codec (downenc : N) : codec * N :=
  if downenc =? 83 then (b64, 105)          (* 'S' -> 'i' *)
  else if downenc =? 85 then (b64u, 106)    (* 'U' -> 'j' *)
  else if downenc =? 86 then (b128, 107)    (* 'V' -> 'k' *)
  else (b32, 104).                          (* else 'h' *)

(* write_dns_nameenc(buf, buflen, data, datalen, downenc): (hostname string, #bytes encoded, td') *)
Definition write_dns_nameenc (buflen : nat) (data : list N) (downenc : N) (td : nat * nat)
  : list N * nat * (nat * nat) :=
  let td' := td_next td in
  let space0 := (Nat.min 255 buflen - 4 - 2)%nat in
  let space := (space0 - space0 / period_build)%nat in
  let '(c, letter) := downenc_codec downenc in
  let r := encode c space data in
  let s := letter :: fst r in
  let dotted := match inline_dotify s buflen with Some d => d | None => s end in
  let dotted' := if (last dotted 0 =? DOT) then dotted else dotted ++ [DOT] in
  (dotted' ++ [97 + N.of_nat (fst td'); 97 + N.of_nat (snd td')], snd r, td').

(* the MX/SRV name list built by write_dns *)
Fixpoint mx_build (fuel : nat) (data : list N) (downenc : N) (td : nat * nat) (acc : list N)
  : list N * (nat * nat) :=
  match fuel with
  | O => (acc ++ [0], td)
  | S fuel' =>
      let '(nm, res, td') := write_dns_nameenc buf64k data downenc td in
      match res with
      | O => (acc ++ firstn 1 nm ++ [0] ++ skipn 2 nm ++ [0; 0], td')
                                       (* nothing encoded: b++ then a NUL over the 2nd char of the
                                          name just written; unreachable for datalen >= 1 *)
      | _ =>
          let acc' := acc ++ nm ++ [0] in
          if (length data <=? res)%nat then (acc' ++ [0], td')
          else mx_build fuel' (skipn res data) downenc td' acc'
      end
  end.

Definition txt_letter_codec (downenc : N) : option codec * N :=
  if downenc =? 83 then (Some b64, 115)
  else if downenc =? 85 then (Some b64u, 117)
  else if downenc =? 86 then (Some b128, 118)
  else if downenc =? 82 then (None, 114)
  else (Some b32, 116).

(* write_dns(fd, q, data, datalen, downenc): the datagram handed to sendto (None: nothing sent) *)
Definition write_dns (q : query) (data : list N) (downenc : N) (td : nat * nat)
  : option (list N) * (nat * nat) :=
  let ty := q_type q in
  if (ty =? T_CNAME) || (ty =? T_A) then
    let '(nm, _, td') := write_dns_nameenc buf1k data downenc td in
    (dns_encode_answer buf64k q nm, td')
  else if (ty =? T_MX) || (ty =? T_SRV) then
    let '(mx, td') := mx_build (S (length data)) data downenc td [] in
    (dns_encode_answer buf64k q mx, td')
  else if ty =? T_TXT then
    let '(oc, letter) := txt_letter_codec downenc in
    let body := match oc with
                | Some c => fst (encode c (buf64k - 1) data)
                | None => firstn (buf64k - 1) data
                end in
    (dns_encode_answer buf64k q (letter :: body), td)
  else (dns_encode_answer buf64k q data, td).

(* ---- client: dns_namedec and read_dns_withq post-processing ------------------------- *)

Definition lower_letter (ch : N) : N := if (65 <=? ch) && (ch <=? 90) then ch + 32 else ch.

(* dns_namedec(outdata, outdatalen, buf, buflen) *)
Definition dns_namedec (outlen : nat) (s : list N) (buflen : nat) : list N :=
  let l := lower_letter (nth 0 s 0) in
  let host c := if (buflen <? 5)%nat then [] else unpack_data c outlen (skipn 1 s) (buflen - 4) in
  let txt c := if (buflen <? 2)%nat then [] else decode c outlen (firstn (buflen - 1) (skipn 1 s)) in
  if l =? 104 then host b32
  else if l =? 105 then host b64
  else if l =? 106 then host b64u
  else if l =? 107 then host b128
  else if l =? 116 then txt b32
  else if l =? 115 then txt b64
  else if l =? 117 then txt b64u
  else if l =? 118 then txt b128
  else if l =? 114 then firstn (Nat.min (buflen - 1) outlen) (skipn 1 s)
  else [].

(* MX/SRV reassembly loop of read_dns_withq ("thispartlen = strlen(buf)" quirk kept) *)
Fixpoint mx_namedec_loop (fuel : nat) (bufbytes : list N) (buftotal : nat) (bufoffset : nat)
         (dataspace0 : nat) (acc : list N) : list N :=
  match fuel with
  | O => acc
  | S fuel' =>
      let thispart0 := length (cstr bufbytes) in
      let thispart := Z.min (Z.of_nat thispart0) (Z.of_nat buftotal - Z.of_nat bufoffset)%Z in
      let dataspace := (dataspace0 - length acc)%nat in
      if (thispart <=? 0)%Z || (dataspace <=? 0)%nat then acc
      else
        let tp := Z.to_nat thispart in
        let part := dns_namedec dataspace (skipn bufoffset bufbytes) tp in
        match part with
        | [] => acc
        | _ => mx_namedec_loop fuel' bufbytes buftotal (bufoffset + tp + 1) dataspace0 (acc ++ part)
        end
  end.

(* what read_dns_withq returns in DNS mode for a received datagram: (rv, payload) and the query
   fields used for matching *)
Definition client_extract (buflen : nat) (buf : list N) (plen : nat) : da_result :=
  let r := dns_decode_answer buflen buf plen in
  if (da_rv r <=? 0)%Z then r else
  match da_type r with
  | Some ty =>
      if (ty =? T_CNAME) || (ty =? T_TXT) then
        let dec := dns_namedec buf64k (da_out r) (Z.to_nat (da_rv r)) in
        let m := Nat.min (length dec) buflen in
        {| da_rv := Z.of_nat m; da_out := firstn m dec; da_id := da_id r; da_name0 := da_name0 r;
           da_type := da_type r; da_rcode := da_rcode r |}
      else if (ty =? T_MX) || (ty =? T_SRV) then
        let dec := mx_namedec_loop (S (Z.to_nat (da_rv r))) (da_out r) (Z.to_nat (da_rv r)) 0 buf64k [] in
        let m := Nat.min (length dec) buflen in
        {| da_rv := Z.of_nat m; da_out := firstn m dec; da_id := da_id r; da_name0 := da_name0 r;
           da_type := da_type r; da_rcode := da_rcode r |}
      else r
  | None => r
  end.

(* ---- NS and A auxiliary responses ---------------------------------------------------- *)

(* strcasecmp on ASCII letters (C locale) *)
Definition lc (ch : N) : N := if (65 <=? ch) && (ch <=? 90) then ch + 32 else ch.
Fixpoint caseeq (a b : list N) : bool :=
  match a, b with
  | [], [] => true
  | x :: a', y :: b' => (lc x =? lc y) && caseeq a' b'
  | _, _ => false
  end.

(* dns_encode_ns_response(buf, buflen, q, topdomain); dest = Some 4 address bytes when the
   destination of the query was IPv4.  None: returns <= 0 (nothing is sent). *)
Definition dns_encode_ns_response (buflen : nat) (q : query) (topdomain : list N) (dest : option (list N))
  : option (list N) :=
  if (buflen <? 12)%nat then None else
  let name := q_name q in
  if (length name <? length topdomain)%nat then None else
  let domain_len := (length name - length topdomain)%nat in
  if (domain_len =? 1)%nat then None else
  if negb (caseeq (skipn domain_len name) topdomain) then None else
  if (1 <=? domain_len)%nat && negb (nth (domain_len - 1) name 0 =? DOTC) then None else
  let hdr := hdr_bytes (q_id q) 132 0 1 1 0 (match dest with Some _ => 1 | None => 0 end) in
  let topname := 49152 + (N.of_nat (12 + domain_len)) mod 16384 in
  let qn := opt_bytes (putname (buflen - 12) name) in
  let p0 := hdr ++ qn in
  if negb (checklen buflen p0 4) then None else
  let p1 := p0 ++ be16 (q_type q) ++ be16 C_IN in
  if negb (checklen buflen p1 12) then None else
  let p2 := p1 ++ [192; 12] ++ be16 (q_type q) ++ be16 C_IN ++ be32 3600 ++ be16 5 in
  let nsname := 49152 + (N.of_nat (length p2)) mod 16384 in
  if negb (checklen buflen p2 5) then None else
  let p3 := p2 ++ [2; 110; 115] ++ be16 topname in
  match dest with
  | None => Some p3
  | Some ip =>
      if negb (checklen buflen p3 12) then None else
      let p4 := p3 ++ be16 nsname ++ be16 T_A ++ be16 C_IN ++ be32 3600 ++ be16 4 in
      if negb (checklen buflen p4 4) then None else
      Some (p4 ++ firstn 4 ip)
  end.

Definition dns_encode_a_response (buflen : nat) (q : query) (dest : option (list N)) : option (list N) :=
  match dest with
  | None => None
  | Some ip =>
      if (buflen <? 12)%nat then None else
      let hdr := hdr_bytes (q_id q) 132 0 1 1 0 0 in
      let qn := opt_bytes (putname (buflen - 12) (q_name q)) in
      let p0 := hdr ++ qn in
      if negb (checklen buflen p0 4) then None else
      let p1 := p0 ++ be16 (q_type q) ++ be16 C_IN in
      if negb (checklen buflen p1 12) then None else
      let p2 := p1 ++ [192; 12] ++ be16 (q_type q) ++ be16 C_IN ++ be32 3600 ++ be16 4 in
      if negb (checklen buflen p2 4) then None else
      Some (p2 ++ firstn 4 ip)
  end.

(* the three non-tunnel answers of tunnel_dns for a query whose data length (query_datalen) is dl:
   "ns." A query, "www." A query (127.0.0.1), NS query.  ns_ip: Some bytes when -n is set. *)
Definition aux_answer (q : query) (dl : nat) (dest ns_ip : option (list N)) : option (list N) :=
  let n := q_name q in
  let c i := lc (nth i n 0) in
  if (dl =? 3)%nat && (q_type q =? T_A) && (c 0%nat =? 110) && (c 1%nat =? 115) && (nth 2 n 0 =? DOTC) then
    dns_encode_a_response buf64k q (match ns_ip with Some ip => Some ip | None => dest end)
  else if (dl =? 4)%nat && (q_type q =? T_A) && (c 0%nat =? 119) && (c 1%nat =? 119) && (c 2%nat =? 119) && (nth 3 n 0 =? DOTC) then
    dns_encode_a_response buf64k q (Some [127; 0; 0; 1])
  else if q_type q =? T_NS then
    dns_encode_ns_response buf64k q (skipn dl n) (match ns_ip with Some ip => Some ip | None => dest end)
  else None.
