(* Base.v -- shared small definitions and lemmas: byte lists, ranges, finite sweeps. *)
From Coq Require Import List NArith Arith Bool Lia ZArith ZifyBool ZifyNat ZifyN.
Import ListNotations.
Local Open Scope N_scope.

Ltac Zify.zify_post_hook ::= Z.div_mod_to_equations.

Definition byte_ok (b : N) : Prop := b < 256.
Definition bytes_ok (l : list N) : Prop := Forall byte_ok l.
Definition bytes_okb (l : list N) : bool := forallb (fun b => b <? 256) l.

Lemma bytes_okb_ok l : bytes_okb l = true <-> bytes_ok l.
Proof.
  unfold bytes_okb, bytes_ok, byte_ok. rewrite forallb_forall, Forall_forall.
  split; intros H x Hx; specialize (H x Hx); lia.
Qed.

(* 0 .. n-1 as N *)
Definition nrange (n : nat) : list N := map N.of_nat (seq 0 n).

Lemma in_nrange n x : x < N.of_nat n -> In x (nrange n).
Proof.
  intros H. unfold nrange. apply in_map_iff. exists (N.to_nat x). split; [lia|].
  apply in_seq. lia.
Qed.

Lemma sweep1 (P : N -> bool) n :
  forallb P (nrange n) = true -> forall x, x < N.of_nat n -> P x = true.
Proof. intros H x Hx. rewrite forallb_forall in H. apply H, in_nrange, Hx. Qed.

Lemma sweep2 (P : N -> N -> bool) n m :
  forallb (fun x => forallb (P x) (nrange m)) (nrange n) = true ->
  forall x y, x < N.of_nat n -> y < N.of_nat m -> P x y = true.
Proof.
  intros H x y Hx Hy. pose proof (sweep1 _ _ H x Hx) as H1. cbv beta in H1.
  exact (sweep1 _ _ H1 y Hy).
Qed.

(* prefix relation on lists *)
Definition prefix {A} (l1 l2 : list A) : Prop := exists t, l2 = l1 ++ t.

Lemma prefix_nil {A} (l : list A) : prefix [] l.
Proof. exists l. reflexivity. Qed.

Lemma prefix_refl {A} (l : list A) : prefix l l.
Proof. exists []. rewrite app_nil_r. reflexivity. Qed.

Lemma prefix_cons {A} (x : A) l1 l2 : prefix l1 l2 -> prefix (x :: l1) (x :: l2).
Proof. intros [t ->]. exists t. reflexivity. Qed.

Lemma prefix_cons_inv {A} (x y : A) l1 l2 : prefix (x :: l1) (y :: l2) -> x = y /\ prefix l1 l2.
Proof. intros [t H]. simpl in H. inversion H. split; [reflexivity|]. exists t. reflexivity. Qed.

Lemma prefix_trans {A} (l1 l2 l3 : list A) : prefix l1 l2 -> prefix l2 l3 -> prefix l1 l3.
Proof. intros [t ->] [u ->]. exists (t ++ u). rewrite app_assoc. reflexivity. Qed.

Lemma prefix_firstn {A} (l1 l2 : list A) : prefix l1 l2 -> l1 = firstn (length l1) l2.
Proof.
  intros [t ->]. rewrite firstn_app, Nat.sub_diag, firstn_all. simpl. rewrite app_nil_r. reflexivity.
Qed.

Lemma prefix_length {A} (l1 l2 : list A) : prefix l1 l2 -> (length l1 <= length l2)%nat.
Proof. intros [t ->]. rewrite app_length. lia. Qed.

Lemma prefix_firstn_l {A} n (l : list A) : prefix (firstn n l) l.
Proof. exists (skipn n l). symmetry. apply firstn_skipn. Qed.

Lemma prefix_skipn {A} n (l1 l2 : list A) : prefix l1 l2 -> prefix (skipn n l1) (skipn n l2).
Proof.
  revert l1 l2. induction n as [|n IH]; intros l1 l2 H; [exact H|].
  destruct l1 as [|x l1]; [simpl; apply prefix_nil|].
  destruct l2 as [|y l2]; [destruct H as [t H]; discriminate|].
  apply prefix_cons_inv in H. destruct H as [_ H]. simpl. apply IH, H.
Qed.

Lemma prefix_firstn_both {A} n (l1 l2 : list A) : prefix l1 l2 -> prefix (firstn n l1) (firstn n l2).
Proof.
  revert l1 l2. induction n as [|n IH]; intros l1 l2 H; [apply prefix_nil|].
  destruct l1 as [|x l1]; [apply prefix_nil|].
  destruct l2 as [|y l2]; [destruct H as [t H]; discriminate|].
  apply prefix_cons_inv in H. destruct H as [-> H]. simpl. apply prefix_cons, IH, H.
Qed.

Lemma prefix_same_length {A} (l1 l2 : list A) : prefix l1 l2 -> length l1 = length l2 -> l1 = l2.
Proof.
  intros [t ->] H. rewrite app_length in H. destruct t; [rewrite app_nil_r; reflexivity|simpl in H; lia].
Qed.
