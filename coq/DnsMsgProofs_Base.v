(* DnsMsgProofs_Base.v -- shared lemmas for property C09: byte access into a layout
   [a ++ b ++ ...], putname of a well-formed dotted name, readname of a putname-encoded name read
   in place, the compressed owner name 0xC00C, and the common head of dns_decode_answer. *)
From Coq Require Import List NArith ZArith Arith Bool Lia ZifyBool ZifyNat ZifyN.
From Iodine Require Import Generated.SrcConsts Base Codec CodecProofs Hostname DnsName DnsWf DnsMsg.
Import ListNotations.
Local Open Scope N_scope.

Ltac Zify.zify_post_hook ::= Z.div_mod_to_equations.

(* ---- constants ----------------------------------------------------------------------- *)

Lemma name_size_eq : name_size = 256%nat. Proof. reflexivity. Qed.
Lemma label_max_eq : label_max = 63%nat. Proof. reflexivity. Qed.
Lemma txt_chunk_eq : txt_chunk = 252%nat. Proof. reflexivity. Qed.
Lemma buf64k_eq : buf64k = N.to_nat 65536. Proof. reflexivity. Qed.
Lemma buf1k_eq : buf1k = N.to_nat 1024. Proof. reflexivity. Qed.
Lemma rdata_size_eq : rdata_size = N.to_nat 4096. Proof. reflexivity. Qed.
Global Opaque buf64k buf1k rdata_size.

(* ---- lists / rb ---------------------------------------------------------------------- *)

Lemma rb_app1 a b i : (i < length a)%nat -> rb (a ++ b) i = rb a i.
Proof. intros H. unfold rb. apply app_nth1, H. Qed.

Lemma rb_app2 a b i : (length a <= i)%nat -> rb (a ++ b) i = rb b (i - length a).
Proof. intros H. unfold rb. apply app_nth2. lia. Qed.

Lemma rb_app2' a b i : rb (a ++ b) (length a + i) = rb b i.
Proof. rewrite rb_app2 by lia. f_equal. lia. Qed.

Lemma rb_skipn buf o i : rb (skipn o buf) i = rb buf (o + i).
Proof.
  unfold rb. revert buf. induction o as [|o IH]; intros buf; [reflexivity|].
  destruct buf as [|x buf]; [destruct i; reflexivity|]. simpl. apply IH.
Qed.

Lemma map_rb_seq buf a n : (a + n <= length buf)%nat -> map (rb buf) (seq a n) = firstn n (skipn a buf).
Proof.
  revert a buf. induction n as [|n IH]; intros a buf H; [reflexivity|].
  cbn [seq map]. rewrite IH by lia.
  assert (Hl : (a < length buf)%nat) by lia.
  clear IH H. revert buf Hl. induction a as [|a IHa]; intros buf Hl.
  - destruct buf as [|x buf]; [simpl in Hl; lia|]. reflexivity.
  - destruct buf as [|x buf]; [simpl in Hl; lia|]. simpl in Hl.
    change (rb (x :: buf) (S a)) with (rb buf a).
    change (skipn (S a) (x :: buf)) with (skipn a buf).
    change (skipn (S (S a)) (x :: buf)) with (skipn (S a) buf). apply IHa. lia.
Qed.

Lemma skipn_app_len {A} (a b : list A) : skipn (length a) (a ++ b) = b.
Proof. induction a; [reflexivity|assumption]. Qed.

Lemma skipn_app_len' {A} (a b : list A) n : n = length a -> skipn n (a ++ b) = b.
Proof. intros ->. apply skipn_app_len. Qed.

Lemma firstn_app_len {A} (a b : list A) : firstn (length a) (a ++ b) = a.
Proof. induction a; [reflexivity|]. simpl. f_equal. assumption. Qed.

Lemma firstn_app_len' {A} (a b : list A) n : n = length a -> firstn n (a ++ b) = a.
Proof. intros ->. apply firstn_app_len. Qed.

Lemma some_inj {A} (a b : A) : Some a = Some b -> a = b.
Proof. intros H. injection H as H. exact H. Qed.

Lemma be16_len v : length (be16 v) = 2%nat. Proof. reflexivity. Qed.
Lemma be32_len v : length (be32 v) = 4%nat. Proof. reflexivity. Qed.

Lemma readshort_be16 v rest : v < 65536 -> readshort (be16 v ++ rest) 0 = v.
Proof. intros H. unfold readshort, rb, be16. simpl. lia. Qed.

Lemma readshort_skipn buf o : readshort buf o = readshort (skipn o buf) 0.
Proof. unfold readshort. rewrite !rb_skipn. f_equal; [f_equal|]; f_equal; lia. Qed.

Lemma readshort_at pre v rest o : o = length pre -> v < 65536 -> readshort (pre ++ be16 v ++ rest) o = v.
Proof. intros -> H. rewrite readshort_skipn, skipn_app_len. apply readshort_be16, H. Qed.

(* ---- dotted names, tokens, putname ----------------------------------------------------- *)

Definition label_ok (w : list N) : Prop :=
  (1 <= length w <= 63)%nat /\ Forall (fun ch => ch <> 46 /\ ch <> 0) w.

(* a well-formed question name: dot-separated non-empty labels of at most 63 bytes without
   '.' or NUL inside, at most 253 bytes in dotted form *)
Definition wf_qname (name : list N) : Prop :=
  exists ws, ws <> [] /\ Forall label_ok ws /\ name = dotted ws /\ (length name <= 253)%nat.

(* wire form: length-prefixed labels and the root label *)
Fixpoint wire (ws : list (list N)) : list N :=
  match ws with
  | [] => [0]
  | w :: r => N.of_nat (length w) :: w ++ wire r
  end.

Lemma wire_length ws : length (wire ws) = wire_len ws.
Proof. induction ws as [|w r IH]; [reflexivity|]. cbn [wire wire_len fold_right length]. rewrite app_length. fold (wire_len r). lia. Qed.

Lemma wire_len_cons w r : wire_len (w :: r) = (S (length w) + wire_len r)%nat.
Proof. reflexivity. Qed.

Lemma dotted_cons2 w w' r : dotted (w :: w' :: r) = w ++ 46 :: dotted (w' :: r).
Proof. reflexivity. Qed.

(* dotted length + 2 = wire length, for a non-empty label list *)
Lemma dotted_wire_len ws : ws <> [] -> (length (dotted ws) + 2 = wire_len ws)%nat.
Proof.
  induction ws as [|w r IH]; [congruence|]. intros _.
  destruct r as [|w' r].
  - cbn. lia.
  - rewrite dotted_cons2, wire_len_cons, app_length. cbn [length].
    assert (H : w' :: r <> []) by congruence. specialize (IH H). lia.
Qed.

Lemma tokens_go_label w : forall s cur, Forall (fun ch => ch <> 46 /\ ch <> 0) w ->
  tokens_go (w ++ s) cur = tokens_go s (List.rev w ++ cur).
Proof.
  induction w as [|ch w IH]; intros s cur H; [reflexivity|].
  inversion H as [|? ? [Hd Hz] Hw]; subst. cbn [app tokens_go].
  unfold DOTC. destruct (ch =? 46) eqn:E; [lia|]. rewrite IH by assumption.
  cbn [List.rev]. rewrite <- app_assoc. reflexivity.
Qed.

Lemma tokens_dotted ws : Forall label_ok ws -> tokens (dotted ws) = ws.
Proof.
  unfold tokens. induction ws as [|w r IH]; intros H; [reflexivity|].
  inversion H as [|? ? [Hl Hw] Hr]; subst. specialize (IH Hr).
  assert (Hne : List.rev w <> []).
  { destruct w; [simpl in Hl; lia|]. simpl. destruct (List.rev w); discriminate. }
  destruct r as [|w' r].
  - cbn [dotted]. rewrite <- (app_nil_r w) at 1. rewrite tokens_go_label by assumption.
    cbn [tokens_go]. rewrite app_nil_r. destruct (List.rev w) eqn:E; [congruence|].
    rewrite <- E, rev_involutive. reflexivity.
  - rewrite dotted_cons2, tokens_go_label by assumption. cbn [tokens_go].
    unfold DOTC. change (46 =? 46) with true. cbv iota. rewrite app_nil_r.
    destruct (List.rev w) eqn:E; [congruence|]. rewrite <- E, rev_involutive, IH. reflexivity.
Qed.

Lemma cstr_nz s : Forall (fun ch => ch <> 0) s -> cstr s = s.
Proof.
  induction 1 as [|x s Hx Hs IH]; [reflexivity|]. cbn [cstr].
  destruct (x =? 0) eqn:E; [lia|]. rewrite IH. reflexivity.
Qed.

Lemma cstr_app_nul s t : Forall (fun ch => ch <> 0) s -> cstr (s ++ 0 :: t) = s.
Proof.
  induction 1 as [|x s Hx Hs IH]; [reflexivity|]. cbn [cstr app].
  destruct (x =? 0) eqn:E; [lia|]. rewrite IH. reflexivity.
Qed.

Lemma dotted_nz ws : Forall label_ok ws -> Forall (fun ch => ch <> 0) (dotted ws).
Proof.
  induction ws as [|w r IH]; intros H; [constructor|].
  inversion H as [|? ? [Hl Hw] Hr]; subst. specialize (IH Hr).
  assert (Hw' : Forall (fun ch => ch <> 0) w).
  { eapply Forall_impl; [|exact Hw]. intros a [_ Ha]. exact Ha. }
  destruct r as [|w' r]; [exact Hw'|]. rewrite dotted_cons2.
  apply Forall_app. split; [exact Hw'|]. constructor; [lia|exact IH].
Qed.

Lemma putname_go_wire ws : forall left, Forall label_ok ws -> (Z.of_nat (wire_len ws) <= left + 1)%Z ->
  putname_go ws left = Some (wire ws).
Proof.
  induction ws as [|w r IH]; intros left H Hl; [reflexivity|].
  inversion H as [|? ? [Hlw Hw] Hr]; subst.
  cbn [putname_go wire]. rewrite label_max_eq. rewrite wire_len_cons in Hl.
  assert (1 <= wire_len r)%nat by (destruct r; cbn; lia).
  destruct (63 <? length w)%nat eqn:E1; [apply Nat.ltb_lt in E1; lia|].
  destruct (left <? Z.of_nat (length w))%Z eqn:E2; [lia|]. cbn [orb].
  rewrite IH; [reflexivity|assumption|lia].
Qed.

Lemma putname_wf buflen name ws : Forall label_ok ws -> name = dotted ws ->
  (wire_len ws <= buflen + 1)%nat -> putname buflen name = Some (wire ws).
Proof.
  intros H -> Hl. unfold putname. rewrite cstr_nz by (apply dotted_nz, H).
  rewrite tokens_dotted by exact H. apply putname_go_wire; [exact H|lia].
Qed.

(* ---- readname -------------------------------------------------------------------------- *)

(* the label loop of one level of readname_loop, as a top-level function (convertible with the
   anonymous fix inside readname_lvl) *)
Section RnLabels.
Variables (buf : list N) (plen length loop' : nat).
Fixpoint rn_labels (fuel : nat) (s len : nat) (acc : list N) {struct fuel} : rn_result :=
  let finish s len acc :=
    {| rn_ret := S len; rn_wr := List.rev (0 :: acc); rn_src := Some (S s) |} in
  match fuel with
  | O => finish s len acc
  | S fuel' =>
      if negb ((s <? plen)%nat && negb (rb buf s =? 0) && (len <? length - 2)%nat)
      then finish s len acc
      else
        let c := rb buf s in
        let s1 := S s in
        if N.land c 192 =? 192 then
          if (plen <=? s1)%nat then finish s1 len acc
          else
            let offset := N.to_nat (N.lor (N.shiftl (N.land c 63) 8) (N.land (rb buf s1) 255)) in
            if (plen <=? offset)%nat then
              match len with
              | O => {| rn_ret := 0; rn_wr := []; rn_src := None |}
              | _ => finish s1 len acc
              end
            else
              let sub := readname_lvl buf plen (length - len) loop' offset in
              {| rn_ret := len + rn_ret sub; rn_wr := List.rev acc ++ rn_wr sub; rn_src := Some (S s1) |}
        else
          let '(s2, len2, acc2) := copy_label buf plen (N.to_nat c) s1 len length acc in
          if (length - 1 <=? len2)%nat then finish s2 len2 acc2
          else if ((s2 <? plen)%nat && negb (rb buf s2 =? 0))
               then rn_labels fuel' s2 (S len2) (DOTC :: acc2)
               else rn_labels fuel' s2 len2 acc2
  end.
End RnLabels.

Lemma readname_lvl_S buf plen length loop' s0 :
  readname_lvl buf plen length (S loop') s0 = rn_labels buf plen length loop' (S plen) s0 0 [].
Proof. reflexivity. Qed.

Lemma readname_unfold buf plen src length :
  readname buf plen src length = rn_labels buf plen length 9 (S plen) src 0 [].
Proof. unfold readname. change (N.to_nat src_READNAME_LOOPS) with 10%nat. apply readname_lvl_S. Qed.

Lemma copy_label_all buf plen cnt : forall s len L acc,
  (len + cnt < L)%nat -> (s + cnt <= plen)%nat ->
  copy_label buf plen cnt s len L acc = ((s + cnt)%nat, (len + cnt)%nat, List.rev (map (rb buf) (seq s cnt)) ++ acc).
Proof.
  induction cnt as [|cnt IH]; intros s len L acc H1 H2.
  - cbn. rewrite !Nat.add_0_r. reflexivity.
  - cbn [copy_label].
    destruct (len <? L - 1)%nat eqn:E1; [|apply Nat.ltb_ge in E1; lia].
    destruct (s <? plen)%nat eqn:E2; [|apply Nat.ltb_ge in E2; lia].
    cbn [andb]. rewrite IH by lia. cbn [seq map List.rev]. rewrite <- app_assoc. cbn [app].
    replace (S s + cnt)%nat with (s + S cnt)%nat by lia.
    replace (S len + cnt)%nat with (len + S cnt)%nat by lia. reflexivity.
Qed.

(* [buf] holds the byte list [l] at offset [o] *)
Definition holds (buf : list N) (o : nat) (l : list N) : Prop :=
  forall i, (i < length l)%nat -> rb buf (o + i) = nth i l 0.

Lemma holds_app_l buf o a b : holds buf o (a ++ b) -> holds buf o a.
Proof. intros H i Hi. rewrite H by (rewrite app_length; lia). apply app_nth1, Hi. Qed.

Lemma holds_app_r buf o a b : holds buf o (a ++ b) -> holds buf (o + length a) b.
Proof.
  intros H i Hi. replace (o + length a + i)%nat with (o + (length a + i))%nat by lia.
  rewrite H by (rewrite app_length; lia). rewrite app_nth2 by lia. f_equal. lia.
Qed.

Lemma holds_cons buf o x l : holds buf o (x :: l) -> rb buf o = x /\ holds buf (S o) l.
Proof.
  intros H. split.
  - specialize (H O). rewrite Nat.add_0_r in H. apply H. simpl. lia.
  - intros i Hi. specialize (H (S i)). replace (S o + i)%nat with (o + S i)%nat by lia.
    apply H. simpl. lia.
Qed.

Lemma holds_map buf o l : holds buf o l -> map (rb buf) (seq o (length l)) = l.
Proof.
  revert o. induction l as [|x l IH]; intros o H; [reflexivity|].
  apply holds_cons in H. destruct H as [H1 H2]. cbn [length seq map]. rewrite H1, IH by exact H2. reflexivity.
Qed.

Lemma holds_here pre l post : holds (pre ++ l ++ post) (length pre) l.
Proof. intros i Hi. rewrite rb_app2'. unfold rb. apply app_nth1, Hi. Qed.

Lemma holds_here' pre l post o : o = length pre -> holds (pre ++ l ++ post) o l.
Proof. intros ->. apply holds_here. Qed.

(* reading a putname-encoded label list in place *)
Lemma rn_labels_wire ws : forall buf plen L loop' fuel s len acc,
  Forall label_ok ws ->
  holds buf s (wire ws) ->
  (s + wire_len ws <= plen)%nat ->
  (len + length (dotted ws) + 2 <= L)%nat ->
  (length ws < fuel)%nat ->
  rn_labels buf plen L loop' fuel s len acc =
  {| rn_ret := S (len + length (dotted ws)); rn_wr := List.rev acc ++ dotted ws ++ [0];
     rn_src := Some (s + wire_len ws)%nat |}.
Proof.
  induction ws as [|w r IH]; intros buf plen L loop' fuel s len acc Hok Hh Hp HL Hf.
  - (* root label *)
    cbn [wire] in Hh. apply holds_cons in Hh. destruct Hh as [H0 _].
    destruct fuel as [|fuel]; [simpl in Hf; lia|].
    cbn [rn_labels]. rewrite H0. change (0 =? 0) with true. cbn [negb].
    rewrite andb_false_r. cbn [negb andb dotted length app List.rev wire_len fold_right].
    rewrite Nat.add_0_r. do 2 f_equal. lia.
  - inversion Hok as [|? ? [Hlw Hw] Hr]; subst.
    cbn [wire] in Hh. apply holds_cons in Hh. destruct Hh as [H0 Hh].
    pose proof (holds_app_l _ _ _ _ Hh) as Hhw. pose proof (holds_app_r _ _ _ _ Hh) as Hhr.
    rewrite wire_len_cons in Hp.
    assert (Hwl : (1 <= wire_len r)%nat) by (destruct r; cbn; lia).
    assert (Hdl : (length w <= length (dotted (w :: r)))%nat).
    { destruct r; [cbn [dotted]; lia|rewrite dotted_cons2, app_length; lia]. }
    destruct fuel as [|fuel]; [simpl in Hf; lia|]. cbn [length] in Hf.
    cbn [rn_labels]. rewrite H0.
    destruct (s <? plen)%nat eqn:E1; [|apply Nat.ltb_ge in E1; lia].
    destruct (N.of_nat (length w) =? 0) eqn:E2; [lia|].
    destruct (len <? L - 2)%nat eqn:E3; [|apply Nat.ltb_ge in E3; lia].
    cbn [negb andb].
    assert (Hland : N.land (N.of_nat (length w)) 192 =? 192 = false).
    { assert (Hs : forallb (fun x => negb (N.land x 192 =? 192)) (nrange 64) = true) by (vm_compute; reflexivity).
      pose proof (sweep1 _ _ Hs (N.of_nat (length w))) as Hx. cbv beta in Hx.
      destruct (N.land (N.of_nat (length w)) 192 =? 192); [|reflexivity].
      assert (N.of_nat (length w) < N.of_nat 64) by lia. specialize (Hx H). discriminate. }
    rewrite Hland. rewrite Nat2N.id.
    rewrite copy_label_all by lia.
    rewrite (holds_map _ _ _ Hhw).
    destruct (L - 1 <=? len + length w)%nat eqn:E4; [apply Nat.leb_le in E4; lia|].
    destruct r as [|w' r].
    + (* last label: the next byte is the root *)
      cbn [wire] in Hhr. apply holds_cons in Hhr. destruct Hhr as [Hz _].
      replace (S s + length w)%nat with (S (s + length w)) in * by lia.
      rewrite Hz. change (0 =? 0) with true. cbn [negb]. rewrite andb_false_r.
      rewrite (IH buf plen L loop' fuel (S (s + length w)) (len + length w)%nat (List.rev w ++ acc));
        [|constructor| | | |].
      * cbn [dotted length app]. rewrite Nat.add_0_r, rev_app_distr, rev_involutive, <- app_assoc.
        do 2 f_equal. cbn [wire_len fold_right]. lia.
      * cbn [wire]. intros i Hi. cbn [length] in Hi. assert (i = O) by lia. subst i.
        rewrite Nat.add_0_r. exact Hz.
      * cbn [wire_len fold_right] in *. lia.
      * cbn [dotted length] in *. lia.
      * cbn [length]. lia.
    + replace (S s + length w)%nat with (S (s + length w)) in * by lia.
      pose proof Hhr as Hhr'. cbn [wire] in Hhr'. apply holds_cons in Hhr'. destruct Hhr' as [Hn _].
      inversion Hr as [|? ? [Hlw' _] _]; subst.
      rewrite Hn.
      destruct (S (s + length w) <? plen)%nat eqn:E5; [|apply Nat.ltb_ge in E5; rewrite wire_len_cons in Hp; lia].
      destruct (N.of_nat (length w') =? 0) eqn:E6; [lia|]. cbn [negb andb].
      rewrite dotted_cons2, app_length in HL. cbn [length] in HL.
      rewrite (IH buf plen L loop' fuel (S (s + length w)) (S (len + length w)) (DOTC :: List.rev w ++ acc));
        [|exact Hr|exact Hhr|lia|lia|cbn [length] in *; lia].
      rewrite dotted_cons2, app_length. cbn [length List.rev].
      rewrite rev_app_distr, rev_involutive, <- !app_assoc. cbn [app].
      f_equal; [lia|]. f_equal. rewrite (wire_len_cons w). lia.
Qed.

Lemma readname_wire ws buf plen s L :
  Forall label_ok ws -> holds buf s (wire ws) -> (s + wire_len ws <= plen)%nat ->
  (length (dotted ws) + 2 <= L)%nat ->
  readname buf plen s L =
  {| rn_ret := S (length (dotted ws)); rn_wr := dotted ws ++ [0]; rn_src := Some (s + wire_len ws)%nat |}.
Proof.
  intros Hok Hh Hp HL. rewrite readname_unfold.
  (* number of labels < plen + 1 *)
  assert (Hn : (length ws < wire_len ws)%nat).
  { clear. induction ws as [|w r IH]; [cbn; lia|]. rewrite wire_len_cons. cbn [length]. lia. }
  rewrite (rn_labels_wire ws buf plen L 9 (S plen) s 0 []);
    [reflexivity|assumption|assumption|assumption|simpl; lia|lia].
Qed.

(* the compressed owner name 0xC00C of every answer record: the pointer is followed to the
   question name at offset 12 and *src advances by two *)
Lemma readname_ptr buf plen s L : rb buf s = 192 -> rb buf (S s) = 12 ->
  (S s < plen)%nat -> (12 < plen)%nat -> (3 <= L)%nat ->
  rn_src (readname buf plen s L) = Some (s + 2)%nat.
Proof.
  intros H0 H1 Hs Hp HL. rewrite readname_unfold. cbn [rn_labels].
  rewrite H0, H1.
  destruct (s <? plen)%nat eqn:E1; [|apply Nat.ltb_ge in E1; lia].
  destruct (0 <? L - 2)%nat eqn:E2; [|apply Nat.ltb_ge in E2; lia].
  change (192 =? 0) with false. cbn [negb andb].
  change (N.land 192 192 =? 192) with true. cbv iota.
  destruct (plen <=? S s)%nat eqn:E3; [apply Nat.leb_le in E3; lia|].
  change (N.to_nat (N.lor (N.shiftl (N.land 192 63) 8) (N.land 12 255))) with 12%nat.
  destruct (plen <=? 12)%nat eqn:E4; [apply Nat.leb_le in E4; lia|].
  cbn [rn_src]. f_equal. lia.
Qed.

(* ---- message head ---------------------------------------------------------------------- *)

Lemma set_ancount_hdr id f1 f2 qd an ns ar rest an' :
  set_ancount (hdr_bytes id f1 f2 qd an ns ar ++ rest) an' = hdr_bytes id f1 f2 qd an' ns ar ++ rest.
Proof. reflexivity. Qed.

Lemma hdr_len id f1 f2 qd an ns ar : length (hdr_bytes id f1 f2 qd an ns ar) = 12%nat.
Proof. reflexivity. Qed.

(* the part of dns_decode_answer after the question has been parsed *)
Definition da_tail (buflen : nat) (buf : list N) (plen : nat) (rcode id : N) (n0 : option N) (qtype : N) (d2 : nat) (ancount : Z)
  : da_result :=
  let fail rv id n0 := {| da_rv := rv; da_out := []; da_id := id; da_name0 := n0; da_type := None; da_rcode := rcode |} in
  let ok rv out ty := {| da_rv := rv; da_out := out; da_id := Some id; da_name0 := n0; da_type := Some ty; da_rcode := rcode |} in
  if (qtype =? T_NULL) || (qtype =? T_PRIVATE) then
    let rn2 := readname buf plen d2 name_size in
    let d3 := adv rn2 d2 in
    if (plen <? 10 + d3)%nat then fail 0%Z (Some id) n0 else
    let aty := readshort buf d3 in
    let rlen := N.to_nat (readshort buf (d3 + 8)) in
    let d4 := (d3 + 10)%nat in
    if (plen <? rlen + d4)%nat then fail 0%Z (Some id) n0 else
    let n := Nat.min rlen rdata_size in
    let rdata := map (rb buf) (seq d4 n) in
    if (2 <=? n)%nat then let m := Nat.min n buflen in ok (Z.of_nat m) (firstn m rdata) aty
    else ok 0%Z [] aty
  else if (qtype =? T_A) || (qtype =? T_CNAME) then
    let rn2 := readname buf plen d2 name_size in
    let d3 := adv rn2 d2 in
    if (plen <? 10 + d3)%nat then fail 0%Z (Some id) n0 else
    let aty := readshort buf d3 in
    let rlen := N.to_nat (readshort buf (d3 + 8)) in
    let d4 := (d3 + 10)%nat in
    if aty =? T_CNAME then
      let rn3 := readname buf plen d4 (name_size - 1) in
      let nb := overlay (rn_wr rn3) (repeat 0 name_size) in
      let nm := cstr (firstn (name_size - 1) nb) in
      let s := firstn (buflen - 1) nm in
      ok (Z.of_nat (length s)) (s ++ [0]) aty
    else if aty =? T_A then
      if (plen <? rlen + d4)%nat then fail 0%Z (Some id) n0 else
      let n := Nat.min rlen rdata_size in
      let rdata := map (rb buf) (seq d4 n) in
      if (2 <=? n)%nat then let m := Nat.min n buflen in ok (Z.of_nat m) (firstn m rdata) aty
      else ok 0%Z [] aty
    else ok 0%Z [] aty
  else if (qtype =? T_MX) || (qtype =? T_SRV) then
    match mx_decode_loop buf plen (Z.to_nat ancount) d2 qtype (repeat (repeat 0 name_size) 250) with
    | None => fail 0%Z (Some id) n0
    | Some (names, aty) =>
        let '(out, off) := mx_output names buflen 0 [] in
        ok (Z.of_nat off) out aty
    end
  else if qtype =? T_TXT then
    let rn2 := readname buf plen d2 name_size in
    let d3 := adv rn2 d2 in
    if (plen <? 10 + d3)%nat then fail 0%Z (Some id) n0 else
    let aty := readshort buf d3 in
    let rlen := N.to_nat (readshort buf (d3 + 8)) in
    let d4 := (d3 + 10)%nat in
    if (plen <? rlen + d4)%nat then fail 0%Z (Some id) n0 else
    let txt := readtxtbin buf d4 rlen rdata_size in
    if (1 <=? length txt)%nat then let m := Nat.min (length txt) buflen in ok (Z.of_nat m) (firstn m txt) aty
    else ok 0%Z [] aty
  else ok 0%Z [] qtype.

Lemma dns_decode_answer_unfold buflen buf plen :
  dns_decode_answer buflen buf plen =
  let rcode := (rb buf 3) mod 16 in
  let fail rv id n0 := {| da_rv := rv; da_out := []; da_id := id; da_name0 := n0; da_type := None; da_rcode := rcode |} in
  if (plen <? 12)%nat then {| da_rv := 0; da_out := []; da_id := None; da_name0 := None; da_type := None; da_rcode := 0 |} else
  let qr := (rb buf 2) / 128 in
  if negb (qr =? 1) then {| da_rv := -1; da_out := []; da_id := None; da_name0 := None; da_type := None; da_rcode := 0 |} else
  let qdcount := to_short (readshort buf 4) in
  let ancount := to_short (readshort buf 6) in
  let id := readshort buf 0 in
  if (qdcount <? 1)%Z then fail (-1)%Z None None else
  let rn := readname buf plen 12 name_size in
  let d1 := adv rn 12 in
  if (plen <? 4 + d1)%nat then fail 0%Z (Some id) None else
  let qtype := readshort buf d1 in
  let d2 := (d1 + 4)%nat in
  let n0 := Some (first_of_written (rn_wr rn)) in
  if (ancount <? 1)%Z then fail (-1)%Z (Some id) n0 else
  da_tail buflen buf plen rcode id n0 qtype d2 ancount.
Proof. reflexivity. Qed.

(* the answer datagrams of dns_encode: header (qr, aa, one question), the question name in wire
   form, type and class, then the answer section *)
Definition ans_head (id an : N) (ws : list (list N)) (ty : N) : list N :=
  hdr_bytes id 132 0 1 an 0 0 ++ wire ws ++ be16 ty ++ be16 C_IN.

Lemma ans_head_len id an ws ty : length (ans_head id an ws ty) = (12 + wire_len ws + 4)%nat.
Proof. unfold ans_head. rewrite !app_length, hdr_len, wire_length, !be16_len. lia. Qed.

Lemma decode_head buflen id an ws ty tail :
  id < 65536 -> ty < 65536 -> 1 <= an < 32768 ->
  ws <> [] -> Forall label_ok ws -> (length (dotted ws) <= 254)%nat ->
  let buf := ans_head id an ws ty ++ tail in
  dns_decode_answer buflen buf (length buf) =
  da_tail buflen buf (length buf) 0 id (Some (hd 0 (dotted ws))) ty (12 + wire_len ws + 4) (Z.of_N an).
Proof.
  intros Hid Hty Han Hne Hok Hdl buf.
  assert (Hlen : length buf = (12 + wire_len ws + 4 + length tail)%nat).
  { unfold buf. rewrite app_length, ans_head_len. reflexivity. }
  assert (Hwl : (1 <= wire_len ws)%nat) by (destruct ws; cbn; lia).
  rewrite dns_decode_answer_unfold. cbv zeta.
  destruct (length buf <? 12)%nat eqn:E1; [apply Nat.ltb_lt in E1; lia|].
  assert (Hb : forall i, (i < 12)%nat -> rb buf i = nth i (hdr_bytes id 132 0 1 an 0 0) 0).
  { intros i Hi. unfold buf, ans_head. rewrite <- !app_assoc. rewrite rb_app1 by (rewrite hdr_len; exact Hi). reflexivity. }
  assert (R2 : rb buf 2 = 132) by (rewrite Hb by lia; reflexivity).
  assert (R3 : rb buf 3 = 0) by (rewrite Hb by lia; reflexivity).
  assert (RS0 : readshort buf 0 = id).
  { unfold readshort. rewrite !Hb by lia. cbn [hdr_bytes be16 app nth]. lia. }
  assert (RS4 : readshort buf 4 = 1).
  { unfold readshort. rewrite !Hb by lia. reflexivity. }
  assert (RS6 : readshort buf 6 = an).
  { unfold readshort. rewrite !Hb by lia. cbn [hdr_bytes be16 app nth]. lia. }
  rewrite R2, R3, RS0, RS4, RS6.
  change (132 / 128 =? 1) with true. change (0 mod 16) with 0. cbn [negb].
  change (to_short 1 <? 1)%Z with false. cbv iota.
  assert (Hrn : readname buf (length buf) 12 name_size =
                {| rn_ret := S (length (dotted ws)); rn_wr := dotted ws ++ [0];
                   rn_src := Some (12 + wire_len ws)%nat |}).
  { apply readname_wire; [exact Hok| |lia|rewrite name_size_eq; lia].
    unfold buf, ans_head. rewrite <- !app_assoc. apply holds_here'. reflexivity. }
  rewrite Hrn. unfold adv. cbn [rn_src rn_wr].
  destruct (length buf <? 4 + (12 + wire_len ws))%nat eqn:E2; [apply Nat.ltb_lt in E2; lia|].
  assert (RSt : readshort buf (12 + wire_len ws) = ty).
  { unfold buf, ans_head. rewrite <- !app_assoc. rewrite app_assoc.
    apply readshort_at; [rewrite app_length, hdr_len, wire_length; reflexivity|exact Hty]. }
  rewrite RSt.
  assert (Hts : to_short an = Z.of_N an) by (unfold to_short; destruct (an <? 32768) eqn:E; lia).
  rewrite Hts. destruct (Z.of_N an <? 1)%Z eqn:E3; [lia|].
  f_equal. f_equal.
  clear - Hne Hok.
  destruct ws as [|w r]; [congruence|]. apply Forall_inv in Hok. destruct Hok as [Hlw _].
  destruct w as [|c w]; [simpl in Hlw; lia|]. destruct r; reflexivity.
Qed.

(* the two-byte owner name of an answer record at [d2] *)
Lemma adv_ptr buf plen d2 : rb buf d2 = 192 -> rb buf (S d2) = 12 ->
  (S d2 < plen)%nat -> (12 < plen)%nat ->
  adv (readname buf plen d2 name_size) d2 = (d2 + 2)%nat.
Proof.
  intros H0 H1 Hs Hp. unfold adv. rewrite readname_ptr by (assumption || rewrite name_size_eq; lia). reflexivity.
Qed.

(* ---- the setting of C09 ------------------------------------------------------------------ *)

Definition is_ctype (ty : N) : Prop :=
  ty = T_NULL \/ ty = T_PRIVATE \/ ty = T_TXT \/ ty = T_SRV \/ ty = T_MX \/ ty = T_CNAME \/ ty = T_A.

(* an A question is answered with a CNAME record *)
Definition answer_type (ty : N) : N := if ty =? T_A then T_CNAME else ty.

Definition td_ok (td : nat * nat) : Prop := (fst td < 26)%nat /\ (snd td < 25)%nat.

(* the client extracted the first n payload bytes and the matching fields of the question *)
Definition extract_ok (r : da_result) (q : query) (p : list N) (n : nat) : Prop :=
  da_rv r = Z.of_nat n /\ da_out r = firstn n p /\ (n <= length p)%nat /\
  da_id r = Some (q_id q) /\ da_type r = Some (answer_type (q_type q)) /\
  da_name0 r = Some (hd 0 (q_name q)).
