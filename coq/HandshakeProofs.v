(* HandshakeProofs.v -- facts about the handshake sequencing model (Handshake.v):
   (1) every step sends a bounded number of queries and consumes its script from the front, whatever
       the replies are (no reply sequence keeps a step going);
   (2) datagrams whose DNS id is 0 (never the id of a query) are ignored by every step, wherever they
       arrive: the step ends in the same state with the same result. *)
From Coq Require Import List NArith ZArith Arith Bool Lia.
From RecordUpdate Require Import RecordUpdate.
From Iodine Require Import Generated.SrcConsts Base DnsName DnsMsg Negotiate Login LoginGlue Shell Handshake.
Import ListNotations.
Local Open Scope N_scope.

(* ---- (1) bounded number of queries, script consumed from the front --------------------------------- *)

Definition Bnd {A} (k : N) (m : M A) : Prop :=
  forall s l, h_q (snd (fst (m s l))) <= h_q s + k /\ exists pre, l = pre ++ snd (m s l).

Lemma Bnd_ret {A} (a : A) : Bnd 0 (ret a).
Proof. intros s l; cbn; split; [lia | exists []; reflexivity]. Qed.

Lemma Bnd_weaken {A} k k' (m : M A) : k <= k' -> Bnd k m -> Bnd k' m.
Proof. intros Hk H s l; destruct (H s l) as [H1 H2]; split; [lia | exact H2]. Qed.

Lemma Bnd_bind {A B} k1 k2 (m : M A) (f : A -> M B) :
  Bnd k1 m -> (forall a, Bnd k2 (f a)) -> Bnd (k1 + k2) (bind m f).
Proof.
  intros Hm Hf s l; unfold bind.
  destruct (Hm s l) as [H1 [pre1 H2]].
  destruct (m s l) as [[a s1] l1] eqn:E; cbn [fst snd] in *.
  destruct (Hf a s1 l1) as [H3 [pre2 H4]].
  split; [lia |].
  exists (pre1 ++ pre2); rewrite <- app_assoc, <- H4; exact H2.
Qed.

Lemma Bnd_modify_q k (f : hs -> hs) : (forall s, h_q (f s) <= h_q s + k) -> Bnd k (modify f).
Proof. intros H s l; cbn; split; [apply H | exists []; reflexivity]. Qed.

Lemma Bnd_get : Bnd 0 get.
Proof. intros s l; cbn; split; [lia | exists []; reflexivity]. Qed.

Lemma waitdns_go_suffix cid lastc c1 c2 buflen l :
  exists pre, l = pre ++ snd (waitdns_go cid lastc c1 c2 buflen l).
Proof.
  induction l as [|it r IH]; cbn [waitdns_go].
  - exists []; reflexivity.
  - destruct it as [|mode d].
    + exists [IT]; reflexivity.
    + destruct (negb (fits cid c1 c2 _)).
      * destruct IH as [pre H]; exists (ID mode d :: pre); cbn; rewrite <- H; reflexivity.
      * destruct (da_rv _ <? 0)%Z; exists [ID mode d]; reflexivity.
Qed.

Lemma Bnd_waitdns c1 c2 buflen : Bnd 0 (waitdns c1 c2 buflen).
Proof.
  intros s l; unfold waitdns.
  destruct (waitdns_go_suffix (h_cid s) (h_lastc s) c1 c2 buflen l) as [pre H].
  destruct (waitdns_go _ _ _ _ _ l) as [w r]; cbn [fst snd] in *.
  split; [lia | exists pre; exact H].
Qed.

Lemma Bnd_ask c c2 buflen : Bnd 1 (ask c c2 buflen).
Proof.
  unfold ask. change 1 with (1 + 0).
  apply Bnd_bind; [apply Bnd_modify_q; intros s; cbn; lia | intros _; apply Bnd_waitdns].
Qed.

Lemma Bnd_attempts {A} n kb kd (body : M (option A)) (dflt : M A) :
  Bnd kb body -> Bnd kd dflt -> Bnd (N.of_nat n * kb + kd) (attempts n body dflt).
Proof.
  intros Hb Hd; induction n as [|n IH]; cbn [attempts].
  - eapply Bnd_weaken; [|exact Hd]; lia.
  - eapply Bnd_weaken with (k := kb + (N.of_nat n * kb + kd)); [lia |].
    apply Bnd_bind; [exact Hb |].
    intros [a|]; [eapply Bnd_weaken; [|apply Bnd_ret]; lia | exact IH].
Qed.

(* a body of the shape  r <- ask .. ;; <no further query> *)
Ltac bnd_tail :=
  repeat first
    [ apply Bnd_ret
    | apply Bnd_get
    | (apply Bnd_modify_q; intros ?; cbn; lia)
    | match goal with
      | |- Bnd _ (match ?x with _ => _ end) => destruct x
      | |- Bnd _ (if ?b then _ else _) => destruct b
      | |- Bnd 0 (bind _ _) => change 0 with (0 + 0); apply Bnd_bind; [| intros ?]
      end ].

Ltac bnd_ask_body :=
  match goal with
  | |- Bnd 1 (bind (ask _ _ _) _) => change 1 with (1 + 0); apply Bnd_bind; [apply Bnd_ask | intros ?; bnd_tail]
  end.

Lemma Bnd_version_body : Bnd 1 version_body.
Proof. unfold version_body; bnd_ask_body. Qed.
Lemma Bnd_version : Bnd 5 hs_version.
Proof. unfold hs_version; eapply Bnd_weaken; [|apply Bnd_attempts; [apply Bnd_version_body | apply Bnd_ret]]; cbn; lia. Qed.

Lemma Bnd_upenctest pat : Bnd 3 (hs_upenctest pat).
Proof.
  unfold hs_upenctest; eapply Bnd_weaken; [|apply Bnd_attempts with (kb := 1); [|apply Bnd_ret]]; [cbn; lia |].
  unfold upenctest_body; bnd_ask_body.
Qed.

Lemma Bnd_upenc_chain ps : Bnd (3 * N.of_nat (length ps)) (hs_upenc_chain ps).
Proof.
  induction ps as [|p t IH]; cbn [hs_upenc_chain length].
  - eapply Bnd_weaken; [|apply Bnd_ret]; lia.
  - eapply Bnd_weaken with (k := 3 + 3 * N.of_nat (length t)); [lia |].
    apply Bnd_bind; [apply Bnd_upenctest |].
    intros [| |]; try exact IH; (eapply Bnd_weaken; [|apply Bnd_ret]; lia).
Qed.

Lemma Bnd_upenc_alts ps rets : Bnd (3 * N.of_nat (length ps)) (hs_upenc_alts ps rets).
Proof.
  revert rets; induction ps as [|p t IH]; intros rets; cbn [hs_upenc_alts length].
  - eapply Bnd_weaken; [|apply Bnd_ret]; lia.
  - destruct rets as [|r rt]; [eapply Bnd_weaken; [|apply Bnd_ret]; lia |].
    eapply Bnd_weaken with (k := 3 + 3 * N.of_nat (length t)); [lia |].
    apply Bnd_bind; [apply Bnd_upenctest |].
    intros [| |]; try apply IH; (eapply Bnd_weaken; [|apply Bnd_ret]; lia).
Qed.

Definition upenc_tests : N := N.of_nat (length src_upenc_chain + length src_upenc_alt).

Lemma Bnd_upenc_auto : Bnd (3 * upenc_tests) hs_upenc_auto.
Proof.
  unfold hs_upenc_auto, upenc_tests.
  eapply Bnd_weaken with (k := 3 * N.of_nat (length src_upenc_chain) + 3 * N.of_nat (length src_upenc_alt)); [lia |].
  apply Bnd_bind; [apply Bnd_upenc_chain |].
  intros [r|]; [eapply Bnd_weaken; [|apply Bnd_ret]; lia | apply Bnd_upenc_alts].
Qed.

Lemma Bnd_downenctest : Bnd 3 hs_downenctest.
Proof.
  unfold hs_downenctest; eapply Bnd_weaken; [|apply Bnd_attempts with (kb := 1); [|apply Bnd_ret]]; [cbn; lia |].
  unfold downenctest_body; bnd_ask_body.
Qed.

Lemma Bnd_opt_test (b : bool) : Bnd 3 (if b then hs_downenctest else ret false).
Proof. destruct b; [apply Bnd_downenctest | eapply Bnd_weaken; [|apply Bnd_ret]; lia]. Qed.
Lemma Bnd_opt_test' (b : bool) : Bnd 3 (if b then ret false else hs_downenctest).
Proof. destruct b; [eapply Bnd_weaken; [|apply Bnd_ret]; lia | apply Bnd_downenctest]. Qed.

Lemma Bnd_downenc_auto : Bnd 12 hs_downenc_auto.
Proof.
  unfold hs_downenc_auto.
  change 12 with (0 + 12); apply Bnd_bind; [apply Bnd_get | intros s].
  destruct (_ || _); [eapply Bnd_weaken; [|apply Bnd_ret]; lia |].
  change 12 with (3 + (3 + (3 + (3 + 0)))).
  apply Bnd_bind; [apply Bnd_downenctest | intros b64].
  apply Bnd_bind; [apply Bnd_opt_test' | intros b64u].
  apply Bnd_bind; [apply Bnd_opt_test | intros b128].
  apply Bnd_bind; [apply Bnd_opt_test | intros raw].
  apply Bnd_ret.
Qed.

Lemma Bnd_qtypetest : Bnd 1 hs_qtypetest.
Proof. unfold hs_qtypetest; bnd_ask_body. Qed.

Lemma Bnd_qtype_round fuel q highest : Bnd (N.of_nat fuel) (hs_qtype_round fuel q highest).
Proof.
  revert q; induction fuel as [|f IH]; intros q; cbn [hs_qtype_round].
  - apply Bnd_ret.
  - destruct (q <? highest)%nat; [|eapply Bnd_weaken; [|apply Bnd_ret]; lia].
    destruct (numcvt q =? T_UNSET).
    + eapply Bnd_weaken with (k := 0 + 0); [lia |].
      apply Bnd_bind; [apply Bnd_modify_q; intros ?; cbn; lia | intros _; apply Bnd_ret].
    + eapply Bnd_weaken with (k := 0 + (1 + N.of_nat f)); [lia |].
      apply Bnd_bind; [apply Bnd_modify_q; intros ?; cbn; lia | intros _].
      apply Bnd_bind; [apply Bnd_qtypetest | intros ok].
      destruct ok; [eapply Bnd_weaken; [|apply Bnd_ret]; lia | apply IH].
Qed.

Lemma Bnd_qtype_rounds rounds highest :
  Bnd (N.of_nat rounds * N.of_nat (S (S ntypes))) (hs_qtype_rounds rounds highest).
Proof.
  revert highest; induction rounds as [|k IH]; intros highest; cbn [hs_qtype_rounds].
  - eapply Bnd_weaken; [|apply Bnd_ret]; lia.
  - eapply Bnd_weaken with (k := N.of_nat (S (S ntypes)) + N.of_nat k * N.of_nat (S (S ntypes))); [lia |].
    apply Bnd_bind; [apply Bnd_qtype_round | intros h].
    destruct (h =? 0)%nat; [eapply Bnd_weaken; [|apply Bnd_ret]; lia | apply IH].
Qed.

Definition qtype_queries : N := src_QTYPE_TIMEOUT_MAX * N.of_nat (S (S ntypes)).

Lemma Bnd_qtype_auto : Bnd qtype_queries hs_qtype_auto.
Proof.
  unfold hs_qtype_auto, qtype_queries.
  eapply Bnd_weaken with (k := N.of_nat (N.to_nat src_QTYPE_TIMEOUT_MAX) * N.of_nat (S (S ntypes)) + (0 + 0)); [lia |].
  apply Bnd_bind; [apply Bnd_qtype_rounds | intros h].
  apply Bnd_bind; [apply Bnd_modify_q; intros ?; cbn; lia | intros _; apply Bnd_ret].
Qed.

Lemma Bnd_switch_codec bits : Bnd 5 (hs_switch_codec bits).
Proof.
  unfold hs_switch_codec; destruct (assoc _ _ _) as [codec|]; [|eapply Bnd_weaken; [|apply Bnd_ret]; lia].
  eapply Bnd_weaken; [|apply Bnd_attempts with (kb := 1); [|apply Bnd_ret]]; [cbn; lia |].
  unfold switch_codec_body; bnd_ask_body.
Qed.

Lemma Bnd_any_reply c c2 : Bnd 5 (attempts 5 (any_reply_body c c2) (ret tt)).
Proof.
  eapply Bnd_weaken; [|apply Bnd_attempts with (kb := 1); [|apply Bnd_ret]]; [cbn; lia |].
  unfold any_reply_body; bnd_ask_body.
Qed.

Lemma Bnd_lazy_revert : Bnd 0 lazy_revert.
Proof. unfold lazy_revert; apply Bnd_modify_q; intros ?; cbn; lia. Qed.

Lemma Bnd_try_lazy : Bnd 5 hs_try_lazy.
Proof.
  unfold hs_try_lazy; eapply Bnd_weaken; [|apply Bnd_attempts with (kb := 1); [|apply Bnd_lazy_revert]]; [cbn; lia |].
  unfold try_lazy_body, lazy_revert; bnd_ask_body.
Qed.

Lemma Bnd_lazyoff : Bnd 5 hs_lazyoff.
Proof.
  unfold hs_lazyoff; eapply Bnd_weaken; [|apply Bnd_attempts with (kb := 1); [|apply Bnd_ret]]; [cbn; lia |].
  unfold lazyoff_body, lazy_revert; bnd_ask_body.
Qed.

Lemma Bnd_probe proposed : Bnd 3 (hs_probe proposed).
Proof.
  unfold hs_probe; eapply Bnd_weaken; [|apply Bnd_attempts with (kb := 1); [|apply Bnd_ret]]; [cbn; lia |].
  unfold probe_body; bnd_ask_body.
Qed.

Lemma Bnd_autoprobe_loop fuel proposed range maxf :
  Bnd (3 * N.of_nat fuel) (hs_autoprobe_loop fuel proposed range maxf).
Proof.
  revert proposed range maxf; induction fuel as [|f IH]; intros proposed range maxf; cbn [hs_autoprobe_loop].
  - eapply Bnd_weaken; [|apply Bnd_ret]; lia.
  - destruct (_ && _); [|eapply Bnd_weaken; [|apply Bnd_ret]; lia].
    eapply Bnd_weaken with (k := 3 + 3 * N.of_nat f); [lia |].
    apply Bnd_bind; [apply Bnd_probe | intros p].
    destruct (_ <? 0)%Z; [eapply Bnd_weaken; [|apply Bnd_ret]; lia | apply IH].
Qed.

Lemma Bnd_autoprobe : Bnd 48 hs_autoprobe.
Proof.
  unfold hs_autoprobe. change 48 with (3 * N.of_nat 16 + 0).
  apply Bnd_bind; [apply Bnd_autoprobe_loop | intros m; apply Bnd_ret].
Qed.

Lemma Bnd_login : Bnd 5 hs_login.
Proof.
  unfold hs_login; eapply Bnd_weaken; [|apply Bnd_attempts with (kb := 1); [|apply Bnd_ret]]; [cbn; lia |].
  unfold login_body. change 1 with (1 + 0); apply Bnd_bind; [apply Bnd_ask | intros r].
  destruct r as [| |buf]; try apply Bnd_ret.
  destruct (0 <? length buf)%nat; [|apply Bnd_ret].
  change 0 with (0 + (0 + 0)); apply Bnd_bind; [apply Bnd_get | intros s].
  destruct (login_step _ _ _ _) as [cmds more].
  apply Bnd_bind; [apply Bnd_modify_q; intros ?; cbn; lia | intros _].
  destruct more; [apply Bnd_ret |].
  destruct cmds as [|c1 [|c2 [|c3 t]]]; try apply Bnd_ret.
  destruct (is_lnak_or_badip buf); apply Bnd_ret.
Qed.

Lemma Bnd_raw_wait : Bnd 0 raw_wait.
Proof.
  intros s l; unfold raw_wait; destruct l as [|[|m d] r]; cbn [fst snd].
  - split; [lia | exists []; reflexivity].
  - split; [lia | exists [IT]; reflexivity].
  - split; [lia | exists [ID m d]; reflexivity].
Qed.

Lemma Bnd_raw_udp seed : Bnd 7 (hs_raw_udp seed).
Proof.
  unfold hs_raw_udp. change 7 with (3 + 4).
  apply Bnd_bind.
  - eapply Bnd_weaken; [|apply Bnd_attempts with (kb := 1); [|apply Bnd_ret]]; [cbn; lia |].
    unfold rawip_body; bnd_ask_body.
  - intros got; destruct got; [|eapply Bnd_weaken; [|apply Bnd_ret]; lia].
    eapply Bnd_weaken; [|apply Bnd_attempts with (kb := 1); [|apply Bnd_ret]]; [cbn; lia |].
    unfold rawlogin_body, send_raw. change 1 with (1 + (0 + (0 + 0))).
    apply Bnd_bind; [apply Bnd_modify_q; intros ?; cbn; lia | intros _].
    apply Bnd_bind; [apply Bnd_raw_wait | intros d].
    apply Bnd_bind; [apply Bnd_get | intros s].
    destruct d as [dg|]; [destruct (raw_login_ok _ _ _) |]; apply Bnd_ret.
Qed.

Definition full_bound : N := qtype_queries + 5 + 5 + 7 + 3 + 3 * upenc_tests + 5 + 12 + 5 + 5 + 48 + 5.

Lemma Bnd_unit_modify (f : hs -> hs) : (forall s, h_q (f s) = h_q s) -> Bnd 0 (modify f).
Proof. intros H; apply Bnd_modify_q; intros s; rewrite H; lia. Qed.

Lemma Bnd_full rawmode autofrag fragsize : Bnd full_bound (hs_full rawmode autofrag fragsize).
Proof.
  unfold hs_full, full_bound.
  eapply Bnd_weaken with (k := 0 + (0 + (qtype_queries + (5 + (5 + (0 + (7 + (0 + (3 + (0 + (3 * upenc_tests + (5 + (0 + (12 + (0 + (5 + (5 + (48 + 5)))))))))))))))))); [lia |].
  apply Bnd_bind; [apply Bnd_unit_modify; reflexivity | intros _].
  apply Bnd_bind; [apply Bnd_get | intros s].
  apply Bnd_bind; [destruct (_ =? _); [apply Bnd_qtype_auto | eapply Bnd_weaken; [|apply Bnd_ret]; lia] | intros r0].
  destruct (negb _); [eapply Bnd_weaken; [|apply Bnd_ret]; lia |].
  apply Bnd_bind; [apply Bnd_version | intros r1].
  destruct (negb _); [eapply Bnd_weaken; [|apply Bnd_ret]; lia |].
  apply Bnd_bind; [apply Bnd_login | intros r2].
  destruct r2 as [[|p|p]|]; try (eapply Bnd_weaken; [|apply Bnd_ret]; lia).
  apply Bnd_bind; [apply Bnd_get | intros sv].
  apply Bnd_bind; [destruct rawmode; [apply Bnd_raw_udp | eapply Bnd_weaken; [|apply Bnd_ret]; lia] | intros raw].
  destruct raw.
  { eapply Bnd_weaken with (k := 0 + 0); [lia |].
    apply Bnd_bind; [apply Bnd_unit_modify; reflexivity | intros _; apply Bnd_ret]. }
  apply Bnd_bind; [apply Bnd_unit_modify; reflexivity | intros _].
  apply Bnd_bind; [apply Bnd_downenctest | intros e].
  apply Bnd_bind; [apply Bnd_unit_modify; reflexivity | intros _].
  apply Bnd_bind; [apply Bnd_upenc_auto | intros up].
  apply Bnd_bind; [destruct (assoc _ _ _); [apply Bnd_switch_codec | eapply Bnd_weaken; [|apply Bnd_ret]; lia] | intros _].
  apply Bnd_bind; [apply Bnd_get | intros s1].
  apply Bnd_bind.
  { destruct (_ =? _); [|eapply Bnd_weaken; [|apply Bnd_ret]; lia].
    eapply Bnd_weaken with (k := 12 + 0); [lia |].
    apply Bnd_bind; [apply Bnd_downenc_auto | intros d; apply Bnd_unit_modify; reflexivity]. }
  intros _.
  apply Bnd_bind; [apply Bnd_get | intros s2].
  apply Bnd_bind; [destruct (_ =? _); [eapply Bnd_weaken; [|apply Bnd_ret]; lia | apply Bnd_any_reply] | intros _].
  apply Bnd_bind; [destruct (h_lazy s2); [apply Bnd_try_lazy | eapply Bnd_weaken; [|apply Bnd_ret]; lia] | intros _].
  apply Bnd_bind; [destruct autofrag; [apply Bnd_autoprobe | eapply Bnd_weaken; [|apply Bnd_ret]; lia] | intros fs].
  destruct (fs =? 0); [eapply Bnd_weaken; [|apply Bnd_ret]; lia |].
  eapply Bnd_weaken with (k := 5 + 0); [lia |].
  apply Bnd_bind; [apply Bnd_any_reply | intros _; apply Bnd_ret].
Qed.

Definition step_bound (st : stepname) : N :=
  match st with
  | SVersion => 5 | SEdns0 => 3 | SUpenctest _ => 3 | SUpencAuto => 3 * upenc_tests | SDownenctest => 3
  | SDownencAuto => 12 | SQtypetest => 1 | SQtypeAuto => qtype_queries | SSwitchCodec _ => 5 | SSwitchDownenc => 5
  | STryLazy => 5 | SLazyoff => 5 | SAutoprobe => 48 | SSetFragsize => 5
  | SLogin => 5 | SFull _ _ _ => full_bound | SRawUdp _ => 7
  end.

Lemma Bnd_then_ret {A B} k (m : M A) (f : A -> B) : Bnd k m -> Bnd k (x <- m ;; ret (f x)).
Proof. intros H; eapply Bnd_weaken with (k := k + 0); [lia |]; apply Bnd_bind; [exact H | intros; apply Bnd_ret]. Qed.
Lemma Bnd_then_ret0 {B} k (m : M unit) (b : B) : Bnd k m -> Bnd k (m ;;; ret b).
Proof. intros H; eapply Bnd_weaken with (k := k + 0); [lia |]; apply Bnd_bind; [exact H | intros; apply Bnd_ret]. Qed.

Theorem step_bounded st : Bnd (step_bound st) (run_step st).
Proof.
  destruct st; cbn [run_step step_bound];
    first [ apply Bnd_login | apply Bnd_full
          | apply Bnd_then_ret;
            first [apply Bnd_version | apply Bnd_qtype_auto | apply Bnd_downenctest | apply Bnd_upenctest | apply Bnd_upenc_auto
                  | apply Bnd_downenc_auto | apply Bnd_qtypetest | apply Bnd_autoprobe | apply Bnd_raw_udp]
          | apply Bnd_then_ret0;
            first [apply Bnd_switch_codec | apply Bnd_any_reply | apply Bnd_try_lazy | apply Bnd_lazyoff] ].
Qed.

(* the numbers, on the current source constants *)
Lemma upenc_tests_val : upenc_tests = 7. Proof. reflexivity. Qed.
Lemma qtype_queries_val : qtype_queries = 27. Proof. reflexivity. Qed.
Lemma full_bound_val : full_bound = 148. Proof. reflexivity. Qed.

(* ---- (2) datagrams that can never fit are ignored, wherever they arrive ------------------------------ *)

Definition id0 (x : da_result) : bool := match da_id x with Some i => i =? 0 | None => true end.

(* delivered as it is (mode 0), and the id the client reads from it is 0 (or none at all) *)
Definition inertb (it : item) : bool :=
  match it with
  | IT => false
  | ID mode d => (mode =? 0) && id0 (client_extract cap_full d (length d)) && id0 (client_extract cap_term d (length d))
  end.
Definition strip (l : list item) : list item := filter (fun it => negb (inertb it)) l.

Lemma next_chunkid_nz id : next_chunkid id <> 0.
Proof. unfold next_chunkid; destruct ((id + 7727) mod 65536 =? 0) eqn:E; [discriminate | apply N.eqb_neq; exact E]. Qed.

Lemma fits_id0 cid c1 c2 x : cid <> 0 -> id0 x = true -> fits cid c1 c2 x = false.
Proof.
  intros Hc H; unfold fits, id0 in *.
  destruct (da_id x) as [i|].
  - apply N.eqb_eq in H; subst i. replace (0 =? cid) with false; [reflexivity | symmetry; apply N.eqb_neq; auto].
  - replace (0 =? cid) with false; [reflexivity | symmetry; apply N.eqb_neq; auto].
Qed.

Lemma subst_mode0 cid lastc d : subst 0 cid lastc d = d.
Proof. reflexivity. Qed.

Lemma waitdns_go_strip cid lastc c1 c2 buflen l :
  cid <> 0 -> buflen = cap_full \/ buflen = cap_term ->
  waitdns_go cid lastc c1 c2 buflen (strip l) =
  (fst (waitdns_go cid lastc c1 c2 buflen l), strip (snd (waitdns_go cid lastc c1 c2 buflen l))).
Proof.
  intros Hc Hb; induction l as [|it r IH]; [reflexivity |].
  destruct it as [|mode d]; [reflexivity |].
  cbn [strip filter]; fold (strip r).
  destruct (inertb (ID mode d)) eqn:Ei; cbn [negb].
  - (* dropped by strip, skipped by the client *)
    cbn [inertb] in Ei. apply andb_prop in Ei; destruct Ei as [Ei E2]; apply andb_prop in Ei; destruct Ei as [Em E1].
    apply N.eqb_eq in Em; subst mode.
    cbn [waitdns_go]; rewrite subst_mode0.
    assert (Hf : fits cid c1 c2 (client_extract buflen d (length d)) = false)
      by (apply fits_id0; [exact Hc | destruct Hb; subst buflen; assumption]).
    rewrite Hf; cbn [negb]. exact IH.
  - cbn [waitdns_go].
    destruct (negb (fits cid c1 c2 _)); [exact IH |].
    destruct (da_rv _ <? 0)%Z; reflexivity.
Qed.

Definition Ign {A} (m : M A) : Prop :=
  forall s l, h_cid s <> 0 ->
    h_cid (snd (fst (m s l))) <> 0 /\
    m s (strip l) = (fst (fst (m s l)), snd (fst (m s l)), strip (snd (m s l))).

Lemma Ign_ret {A} (a : A) : Ign (ret a).
Proof. intros s l H; cbn; auto. Qed.

Lemma Ign_get : Ign get.
Proof. intros s l H; cbn; auto. Qed.

Lemma Ign_modify (f : hs -> hs) : (forall s, h_cid s <> 0 -> h_cid (f s) <> 0) -> Ign (modify f).
Proof. intros Hf s l H; cbn; auto. Qed.

Lemma Ign_bind {A B} (m : M A) (f : A -> M B) : Ign m -> (forall a, Ign (f a)) -> Ign (bind m f).
Proof.
  intros Hm Hf s l H; unfold bind.
  destruct (Hm s l H) as [H1 H2]. rewrite H2.
  destruct (m s l) as [[a s1] l1]; cbn [fst snd] in *.
  exact (Hf a s1 l1 H1).
Qed.

Lemma Ign_waitdns c1 c2 buflen : buflen = cap_full \/ buflen = cap_term -> Ign (waitdns c1 c2 buflen).
Proof.
  intros Hb s l H; unfold waitdns.
  rewrite (waitdns_go_strip _ _ _ _ _ l H Hb).
  destruct (waitdns_go _ _ _ _ _ l) as [w r]; cbn [fst snd]; auto.
Qed.

Lemma Ign_ask c c2 buflen : buflen = cap_full \/ buflen = cap_term -> Ign (ask c c2 buflen).
Proof.
  intros Hb; unfold ask; apply Ign_bind.
  - apply Ign_modify; intros s _; cbn; apply next_chunkid_nz.
  - intros _; apply Ign_waitdns; exact Hb.
Qed.

Lemma Ign_attempts {A} n (body : M (option A)) (dflt : M A) : Ign body -> Ign dflt -> Ign (attempts n body dflt).
Proof.
  intros Hb Hd; induction n as [|n IH]; cbn [attempts]; [exact Hd |].
  apply Ign_bind; [exact Hb | intros [a|]; [apply Ign_ret | exact IH]].
Qed.

Ltac ign :=
  repeat first
    [ apply Ign_ret
    | apply Ign_get
    | (apply Ign_ask; (left; reflexivity) || (right; reflexivity))
    | (apply Ign_modify; intros ? ?; cbn; assumption)
    | match goal with
      | |- Ign (match ?x with _ => _ end) => destruct x
      | |- Ign (if ?b then _ else _) => destruct b
      | |- Ign (bind _ _) => apply Ign_bind; [| intros ?]
      | |- Ign (attempts _ _ _) => apply Ign_attempts
      end ].

Lemma Ign_version : Ign hs_version.
Proof. unfold hs_version, version_body; ign. Qed.
Lemma Ign_upenctest pat : Ign (hs_upenctest pat).
Proof. unfold hs_upenctest, upenctest_body; ign. Qed.
Lemma Ign_upenc_chain ps : Ign (hs_upenc_chain ps).
Proof.
  induction ps as [|p t IH]; cbn [hs_upenc_chain]; [apply Ign_ret |].
  apply Ign_bind; [apply Ign_upenctest | intros [| |]; first [exact IH | apply Ign_ret]].
Qed.
Lemma Ign_upenc_alts ps rets : Ign (hs_upenc_alts ps rets).
Proof.
  revert rets; induction ps as [|p t IH]; intros rets; cbn [hs_upenc_alts]; [apply Ign_ret |].
  destruct rets as [|r rt]; [apply Ign_ret |].
  apply Ign_bind; [apply Ign_upenctest | intros [| |]; first [apply IH | apply Ign_ret]].
Qed.
Lemma Ign_upenc_auto : Ign hs_upenc_auto.
Proof. unfold hs_upenc_auto; apply Ign_bind; [apply Ign_upenc_chain | intros [r|]; [apply Ign_ret | apply Ign_upenc_alts]]. Qed.
Lemma Ign_downenctest : Ign hs_downenctest.
Proof. unfold hs_downenctest, downenctest_body; ign. Qed.
Lemma Ign_downenc_auto : Ign hs_downenc_auto.
Proof.
  unfold hs_downenc_auto; apply Ign_bind; [apply Ign_get | intros s].
  destruct (_ || _); [apply Ign_ret |].
  apply Ign_bind; [apply Ign_downenctest | intros b64].
  apply Ign_bind; [destruct b64; [apply Ign_ret | apply Ign_downenctest] | intros b64u].
  apply Ign_bind; [destruct (b64 || b64u); [apply Ign_downenctest | apply Ign_ret] | intros b128].
  apply Ign_bind; [destruct (b128 && _); [apply Ign_downenctest | apply Ign_ret] | intros raw].
  apply Ign_ret.
Qed.
Lemma Ign_qtypetest : Ign hs_qtypetest.
Proof. unfold hs_qtypetest; ign. Qed.
Lemma Ign_qtype_round fuel q highest : Ign (hs_qtype_round fuel q highest).
Proof.
  revert q; induction fuel as [|f IH]; intros q; cbn [hs_qtype_round]; [apply Ign_ret |].
  destruct (q <? highest)%nat; [|apply Ign_ret].
  destruct (numcvt q =? T_UNSET).
  - apply Ign_bind; [apply Ign_modify; intros ? ?; cbn; assumption | intros _; apply Ign_ret].
  - apply Ign_bind; [apply Ign_modify; intros ? ?; cbn; assumption | intros _].
    apply Ign_bind; [apply Ign_qtypetest | intros [|]; [apply Ign_ret | apply IH]].
Qed.
Lemma Ign_qtype_rounds rounds highest : Ign (hs_qtype_rounds rounds highest).
Proof.
  revert highest; induction rounds as [|k IH]; intros highest; cbn [hs_qtype_rounds]; [apply Ign_ret |].
  apply Ign_bind; [apply Ign_qtype_round | intros h; destruct (h =? 0)%nat; [apply Ign_ret | apply IH]].
Qed.
Lemma Ign_qtype_auto : Ign hs_qtype_auto.
Proof.
  unfold hs_qtype_auto; apply Ign_bind; [apply Ign_qtype_rounds | intros h].
  apply Ign_bind; [apply Ign_modify; intros ? ?; cbn; assumption | intros _; apply Ign_ret].
Qed.
Lemma Ign_switch_codec bits : Ign (hs_switch_codec bits).
Proof. unfold hs_switch_codec; destruct (assoc _ _ _); [|apply Ign_ret]. unfold switch_codec_body; ign. Qed.
Lemma Ign_any_reply c c2 : Ign (attempts 5 (any_reply_body c c2) (ret tt)).
Proof. unfold any_reply_body; ign. Qed.
Lemma Ign_try_lazy : Ign hs_try_lazy.
Proof. unfold hs_try_lazy, try_lazy_body, lazy_revert; ign. Qed.
Lemma Ign_lazyoff : Ign hs_lazyoff.
Proof. unfold hs_lazyoff, lazyoff_body, lazy_revert; ign. Qed.
Lemma Ign_probe proposed : Ign (hs_probe proposed).
Proof. unfold hs_probe, probe_body; ign. Qed.
Lemma Ign_autoprobe_loop fuel proposed range maxf : Ign (hs_autoprobe_loop fuel proposed range maxf).
Proof.
  revert proposed range maxf; induction fuel as [|f IH]; intros proposed range maxf; cbn [hs_autoprobe_loop]; [apply Ign_ret |].
  destruct (_ && _); [|apply Ign_ret].
  apply Ign_bind; [apply Ign_probe | intros p; destruct (_ <? 0)%Z; [apply Ign_ret | apply IH]].
Qed.
Lemma Ign_autoprobe : Ign hs_autoprobe.
Proof. unfold hs_autoprobe; apply Ign_bind; [apply Ign_autoprobe_loop | intros m; apply Ign_ret]. Qed.

Lemma Ign_login : Ign hs_login.
Proof.
  unfold hs_login; apply Ign_attempts; [|apply Ign_ret].
  unfold login_body; apply Ign_bind; [apply Ign_ask; right; reflexivity | intros r].
  destruct r as [| |buf]; try apply Ign_ret.
  destruct (0 <? length buf)%nat; [|apply Ign_ret].
  apply Ign_bind; [apply Ign_get | intros s].
  destruct (login_step _ _ _ _) as [cmds more].
  apply Ign_bind; [apply Ign_modify; intros ? ?; cbn; assumption | intros _].
  destruct more; [apply Ign_ret |].
  destruct cmds as [|c1 [|c2 [|c3 t]]]; try apply Ign_ret.
  destruct (is_lnak_or_badip buf); apply Ign_ret.
Qed.

Lemma Ign_full autofrag fragsize : Ign (hs_full false autofrag fragsize).
Proof.
  unfold hs_full.
  apply Ign_bind; [apply Ign_modify; intros ? ?; cbn; assumption | intros _].
  apply Ign_bind; [apply Ign_get | intros s].
  apply Ign_bind; [destruct (_ =? _); [apply Ign_qtype_auto | apply Ign_ret] | intros r0].
  destruct (negb _); [apply Ign_ret |].
  apply Ign_bind; [apply Ign_version | intros r1].
  destruct (negb _); [apply Ign_ret |].
  apply Ign_bind; [apply Ign_login | intros r2].
  destruct r2 as [[|p|p]|]; try apply Ign_ret.
  apply Ign_bind; [apply Ign_get | intros sv].
  apply Ign_bind; [apply Ign_ret | intros raw].
  destruct raw; [apply Ign_bind; [apply Ign_modify; intros ? ?; cbn; assumption | intros _; apply Ign_ret] |].
  apply Ign_bind; [apply Ign_modify; intros ? ?; cbn; assumption | intros _].
  apply Ign_bind; [apply Ign_downenctest | intros e].
  apply Ign_bind; [apply Ign_modify; intros ? ?; cbn; assumption | intros _].
  apply Ign_bind; [apply Ign_upenc_auto | intros up].
  apply Ign_bind; [destruct (assoc _ _ _); [apply Ign_switch_codec | apply Ign_ret] | intros _].
  apply Ign_bind; [apply Ign_get | intros s1].
  apply Ign_bind.
  { destruct (_ =? _); [|apply Ign_ret].
    apply Ign_bind; [apply Ign_downenc_auto | intros d; apply Ign_modify; intros ? ?; cbn; assumption]. }
  intros _.
  apply Ign_bind; [apply Ign_get | intros s2].
  apply Ign_bind; [destruct (_ =? _); [apply Ign_ret | apply Ign_any_reply] | intros _].
  apply Ign_bind; [destruct (h_lazy s2); [apply Ign_try_lazy | apply Ign_ret] | intros _].
  apply Ign_bind; [destruct autofrag; [apply Ign_autoprobe | apply Ign_ret] | intros fs].
  destruct (fs =? 0); [apply Ign_ret |].
  apply Ign_bind; [apply Ign_any_reply | intros _; apply Ign_ret].
Qed.

(* the steps that talk DNS only; the raw login of handshake_raw_udp takes ANY datagram as the answer to its current
   attempt (see raw_login_* below) *)
Definition dns_only (st : stepname) : bool :=
  match st with SRawUdp _ => false | SFull rawmode _ _ => negb rawmode | _ => true end.

Theorem step_ignores_inert st : dns_only st = true -> Ign (run_step st).
Proof.
  destruct st; cbn [run_step dns_only]; intros Hd; try discriminate Hd;
    try (destruct rawmode; [discriminate Hd |]);
    first [ apply Ign_login | apply Ign_full
          | apply Ign_bind; [| intros ?; apply Ign_ret];
            first [apply Ign_version | apply Ign_qtype_auto | apply Ign_downenctest | apply Ign_upenctest | apply Ign_upenc_auto
                  | apply Ign_downenc_auto | apply Ign_qtypetest | apply Ign_autoprobe | apply Ign_switch_codec | apply Ign_any_reply
                  | apply Ign_try_lazy | apply Ign_lazyoff] ].
Qed.

(* the raw login: junk cannot make it succeed -- it returns 1 only if one of the datagrams that arrived carries the raw
   header, the login command and login(seed - 1) -- but junk does use up an attempt (witness below) *)
Lemma raw_login_sound seed n s l :
  fst (fst (attempts n (rawlogin_body seed) (ret false) s l)) = true ->
  exists m d, In (ID m d) l /\ cli_raw_accepts (h_pass s) seed (skipn 4 (firstn cap_full (subst m (h_cid s) (h_lastc s) d))) = true.
Proof.
  revert s l; induction n as [|n IH]; intros s l; cbn [attempts]; [cbn; discriminate |].
  unfold bind at 1, rawlogin_body at 1, bind at 1 2 3, send_raw, modify, raw_wait, get.
  destruct l as [|[|m d] r]; cbn [fst snd].
  - intros H; destruct (IH _ _ H) as (m & d & [] & _).
  - intros H; destruct (IH _ _ H) as (m & d & Hin & Hok); exists m, d; split; [right; exact Hin | exact Hok].
  - cbn [h_pass h_cid h_lastc]. 
    destruct (raw_login_ok _ _ _) eqn:E.
    + intros _; exists m, d; split; [left; reflexivity |].
      unfold raw_login_ok in E. apply andb_prop in E; destruct E as [_ E]. exact E.
    + intros H; destruct (IH _ _ H) as (m' & d' & Hin & Hok); exists m', d'; split; [right; exact Hin | exact Hok].
Qed.

(* ---- (3) what one test yields on a path that answers promptly / not at all --------------------------- *)
(* Negotiate.v treats a test as a function of "the reply" (Some bytes / None).  These lemmas are the
   sequencing facts behind that reading: when the next event is a fitting, non-empty reply the test is the
   evaluation of exactly that reply, after one query; when nothing arrives during all its attempts it is
   the evaluation of None, after three. *)

Definition prompt_reply (s : hs) (c c2 : N) (buflen : nat) (it : item) (buf : list N) : Prop :=
  exists m d, it = ID m d /\
    let s1 := send c s in
    let d' := subst m (h_cid s1) c d in
    let x := client_extract buflen d' (length d') in
    fits (h_cid s1) c c2 x = true /\ (0 <= da_rv x)%Z /\
    buf = firstn (Z.to_nat (da_rv x)) (da_out x) /\ (0 <? length buf)%nat = true.

Lemma ask_prompt s c c2 buflen it buf r :
  prompt_reply s c c2 buflen it buf -> ask c c2 buflen s (it :: r) = (WRead buf, send c s, r).
Proof.
  intros (m & d & -> & Hf & Hrv & -> & _).
  unfold ask, bind, modify, waitdns; cbn [waitdns_go].
  change (h_lastc (send c s)) with c.
  rewrite Hf; cbn [negb].
  destruct (da_rv _ <? 0)%Z eqn:E; [apply Z.ltb_lt in E; lia | reflexivity].
Qed.

Lemma ask_timeout s c c2 buflen r : ask c c2 buflen s (IT :: r) = (WTimeout, send c s, r).
Proof. reflexivity. Qed.

Lemma upenctest_prompt pat s it buf r :
  prompt_reply s 122 90 cap_full it buf ->
  hs_upenctest pat s (it :: r) = (upenctest_eval pat (Some buf), send 122 s, r).
Proof.
  intros H. unfold hs_upenctest; cbn [attempts]. unfold upenctest_body at 1, bind at 1 2.
  rewrite (ask_prompt _ _ _ _ _ _ r H).
  destruct H as (m & d & _ & _ & _ & _ & Hn). rewrite Hn. reflexivity.
Qed.

Lemma upenctest_silent pat s r :
  hs_upenctest pat s (IT :: IT :: IT :: r) = (upenctest_eval pat None, send 122 (send 122 (send 122 s)), r).
Proof. reflexivity. Qed.

Lemma downenctest_prompt s it buf r :
  prompt_reply s 121 89 cap_full it buf ->
  hs_downenctest s (it :: r) = (downenctest_eval (Some buf), send 121 s, r).
Proof.
  intros H. unfold hs_downenctest; cbn [attempts]. unfold downenctest_body at 1, bind at 1 2.
  rewrite (ask_prompt _ _ _ _ _ _ r H).
  destruct H as (m & d & _ & _ & _ & _ & Hn). rewrite Hn. reflexivity.
Qed.

Lemma downenctest_silent s r :
  hs_downenctest s (IT :: IT :: IT :: r) = (downenctest_eval None, send 121 (send 121 (send 121 s)), r).
Proof. reflexivity. Qed.

Definition probe_of (p : probe_res) : bool := match p with PNoAnswer => false | _ => true end.

Lemma probe_prompt proposed s it buf r :
  prompt_reply s 114 82 cap_term it buf ->
  probe_of (fragsize_check buf proposed) = true ->
  hs_probe proposed s (it :: r) = (probe_eval (Some buf) proposed, send 114 s, r).
Proof.
  intros H Hp. unfold hs_probe; cbn [attempts]. unfold probe_body at 1, bind at 1 2.
  rewrite (ask_prompt _ _ _ _ _ _ r H).
  destruct H as (m & d & _ & _ & _ & _ & Hn). rewrite Hn.
  unfold probe_eval. destruct (fragsize_check buf proposed); [discriminate Hp | reflexivity..].
Qed.

Lemma probe_silent proposed s r :
  hs_probe proposed s (IT :: IT :: IT :: r) = (probe_eval None proposed, send 114 (send 114 (send 114 s)), r).
Proof. reflexivity. Qed.

(* ---- (4) the fuel of the size search is never what ends it ---------------------------------------------- *)
Lemma size_div2 r : (N.size_nat (N.div2 r) = pred (N.size_nat r))%nat.
Proof. destruct r as [|[p|p|]]; reflexivity. Qed.

Lemma shift_is_div2 r : N.shiftr r src_PROBE_SHIFT = N.div2 r.
Proof. change src_PROBE_SHIFT with 1. rewrite <- N.div2_spec. reflexivity. Qed.

(* the fuel of the size search is never what ends it: once it covers the bit length of the range, more fuel changes nothing *)
Lemma autoprobe_fuel_enough f : forall proposed range maxf s l,
  (N.size_nat range <= f)%nat ->
  hs_autoprobe_loop (S f) proposed range maxf s l = hs_autoprobe_loop f proposed range maxf s l.
Proof.
  induction f as [|f IH]; intros proposed range maxf s l Hs.
  - assert (range = 0) by (destruct range; [reflexivity | cbn in Hs; destruct p; cbn in Hs; lia]). subst range.
    reflexivity.
  - cbn [hs_autoprobe_loop].
    destruct ((0 <? range) && _) eqn:G; [|reflexivity].
    unfold bind. destruct (hs_probe proposed s l) as [[p s1] l1].
    destruct (_ <? 0)%Z; [reflexivity |].
    rewrite shift_is_div2.
    apply IH. rewrite size_div2. lia.
Qed.

Lemma autoprobe_fuel_16 : (N.size_nat src_PROBE_RANGE <= 16)%nat.
Proof. vm_compute. lia. Qed.

Lemma autoprobe_fuel_adequate k proposed maxf s l :
  hs_autoprobe_loop (16 + k) proposed src_PROBE_RANGE maxf s l = hs_autoprobe_loop 16 proposed src_PROBE_RANGE maxf s l.
Proof.
  induction k as [|k IH]; [reflexivity |].
  replace (16 + S k)%nat with (S (16 + k))%nat by lia.
  rewrite autoprobe_fuel_enough; [exact IH | pose proof autoprobe_fuel_16; lia].
Qed.

(* ---- (5) where the challenge comes from --------------------------------------------------------------------- *)

(* what a wait returns was extracted from one of the datagrams of the script, under the id and letter of the query *)
Lemma waitdns_go_read cid lastc c1 c2 buflen l buf r :
  waitdns_go cid lastc c1 c2 buflen l = (WRead buf, r) ->
  exists m d, In (ID m d) l /\
    let d' := subst m cid lastc d in
    let x := client_extract buflen d' (length d') in
    fits cid c1 c2 x = true /\ buf = firstn (Z.to_nat (da_rv x)) (da_out x).
Proof.
  induction l as [|it t IH]; cbn [waitdns_go]; [discriminate |].
  destruct it as [|m d]; [discriminate |].
  destruct (fits cid c1 c2 _) eqn:F; cbn [negb].
  - destruct (da_rv _ <? 0)%Z; [discriminate |].
    intros H; inversion H; subst.
    exists m, d; split; [left; reflexivity | split; [exact F | reflexivity]].
  - intros H; destruct (IH H) as (m' & d' & Hin & Hx). exists m', d'; split; [right; exact Hin | exact Hx].
Qed.

(* handshake_version returns 0 only with the challenge and user id that cli_version reads from a reply that fitted one
   of its (at most five) version queries; nothing else writes h_seed / h_uid in that step *)
Lemma version_sound n : forall s l,
  fst (fst (attempts n version_body (ret 1%Z) s l)) = 0%Z ->
  exists m d cid,
    In (ID m d) l /\
    let d' := subst m cid 118 d in
    let x := client_extract cap_full d' (length d') in
    fits cid 118 86 x = true /\
    cli_version (firstn (Z.to_nat (da_rv x)) (da_out x)) =
      Some (h_seed (snd (fst (attempts n version_body (ret 1%Z) s l))), h_uid (snd (fst (attempts n version_body (ret 1%Z) s l)))).
Proof.
  induction n as [|n IH]; intros s l; cbn [attempts]; [cbn; discriminate |].
  unfold bind, version_body, ask, modify, waitdns. unfold bind.
  destruct (waitdns_go (h_cid (send 118 s)) (h_lastc (send 118 s)) 118 86 cap_full l) as [w r] eqn:E.
  assert (Hsub : forall m d, In (ID m d) r -> In (ID m d) l).
  { intros m d Hin. destruct (waitdns_go_suffix (h_cid (send 118 s)) (h_lastc (send 118 s)) 118 86 cap_full l) as [pre Hp].
    rewrite E in Hp; cbn [snd] in Hp. rewrite Hp. apply in_or_app; right; exact Hin. }
  assert (Hrec : forall s1, fst (fst (attempts n version_body (ret 1%Z) s1 r)) = 0%Z ->
            exists m d cid, In (ID m d) l /\
              let d' := subst m cid 118 d in let x := client_extract cap_full d' (length d') in
              fits cid 118 86 x = true /\
              cli_version (firstn (Z.to_nat (da_rv x)) (da_out x)) =
                Some (h_seed (snd (fst (attempts n version_body (ret 1%Z) s1 r))), h_uid (snd (fst (attempts n version_body (ret 1%Z) s1 r))))).
  { intros s1 H. destruct (IH s1 r H) as (m & d & cid & Hin & Hx). exists m, d, cid. split; [apply Hsub; exact Hin | exact Hx]. }
  destruct w as [| |buf]; cbn [ret fst snd].
  - intros H; exact (Hrec _ H).
  - intros H; exact (Hrec _ H).
  - destruct (9 <=? length buf)%nat; cbn [ret fst snd]; [|intros H; exact (Hrec _ H)].
    destruct (cli_version buf) as [[seed uid]|] eqn:Ev; cbn [ret fst snd].
    + intros _.
      destruct (waitdns_go_read _ _ _ _ _ _ _ _ E) as (m & d & Hin & Hf & Hb).
      exists m, d, (h_cid (send 118 s)). split; [exact Hin |]. split; [exact Hf |].
      change (h_lastc (send 118 s)) with 118 in Hb. cbv zeta in Hb. rewrite <- Hb. rewrite Ev. reflexivity.
    + destruct (has_prefix s_VNAK buf || has_prefix s_VFUL buf); cbn [ret fst snd]; [discriminate | intros H; exact (Hrec _ H)].
Qed.
