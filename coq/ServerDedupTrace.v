(* ServerDedupTrace.v -- C16: how the three memories of a session evolve along any execution, and what
   that means for a query re-delivered after it was answered. *)
From Coq Require Import List NArith ZArith Arith Bool Lia.
From RecordUpdate Require Import RecordUpdate.
From Iodine Require Import Generated.SrcConsts Base Codec CodecProofs Hostname DnsName DnsMsg Domain Server
  ServerRings ServerRefine ServerFragProofs ServerDedupProofs.
Import ListNotations.
Local Open Scope N_scope.

(* ---- executions as traces of micro-steps --------------------------------------------------------------- *)

Inductive mtrace (c : cfg) : sstate -> list logitem -> sstate -> Prop :=
| mt_nil st : mtrace c st [] st
| mt_cons k st o l st1 l2 st2 : msteps c k st o l st1 -> mtrace c st1 l2 st2 -> mtrace c st (l ++ l2) st2.

Section Run.
Variable login : list N -> N -> list N.
Variable zc : list N -> list N.
Variable unz : list N -> option (list N).
Variable c : cfg.

Definition run (st : sstate) (evs : list event) : sstate :=
  fold_left (fun s e => fst (step login zc unz c s e)) evs st.

Lemma run_cons st e r : run st (e :: r) = run (fst (step login zc unz c st e)) r.
Proof. reflexivity. Qed.

Lemma run_mtrace evs : forall st, exists l, mtrace c st l (run st evs).
Proof.
  induction evs as [|e r IH]; intros st; [exists []; apply mt_nil|].
  rewrite run_cons. destruct (IH (fst (step login zc unz c st e))) as [l2 H2].
  destruct (step_refines login zc unz c st e) as [[l M]|[l M]]; exists (l ++ l2); eapply mt_cons; eassumption.
Qed.

Lemma run_reach ips evs : forall st, reach login zc unz c ips st -> reach login zc unz c ips (run st evs).
Proof. induction evs as [|e r IH]; intros st R; [exact R|]. rewrite run_cons. apply IH. apply reach_step, R. Qed.
End Run.

Lemma sinv_mtrace c st l st' : mtrace c st l st' -> sinv c st -> sinv c st'.
Proof. intros M. induction M as [st|k st o l st1 l2 st2 M1 M2 IH]; intros H; [exact H|]. apply IH. eapply sinv_msteps; eassumption. Qed.

Lemma mtrace_length c st l st' : mtrace c st l st' -> length st' = length st.
Proof.
  intros M. induction M as [st|k st o l st1 l2 st2 M1 M2 IH]; [reflexivity|]. rewrite IH. eapply msteps_length, M1.
Qed.

(* ---- what a log says was saved for session i -------------------------------------------------------------- *)

Definition emits_of (i : nat) (l : list logitem) : list (suser * which_q) :=
  flat_map (fun x => match x with LEmit j u w => if (j =? i)%nat then [(u, w)] else [] | _ => [] end) l.

Definition cache_saves (i : nat) (l : list logitem) : list cache_entry :=
  map (fun p => scd_ce (fst p) (snd p)) (emits_of i l).
Definition ping_saves (i : nat) (l : list logitem) : list qmem_entry :=
  flat_map (fun p => match scd_qm (fst p) (snd p) with Some (true, e) => [e] | _ => [] end) (emits_of i l).
Definition data_saves (i : nat) (l : list logitem) : list qmem_entry :=
  flat_map (fun p => match scd_qm (fst p) (snd p) with Some (false, e) => [e] | _ => [] end) (emits_of i l).

(* no accepted N and no V reset of session i (the answer cache survives) *)
Definition no_inval (i : nat) (l : list logitem) : bool :=
  forallb (fun x => match x with LNacc j _ => negb (j =? i)%nat | LVreset j => negb (j =? i)%nat | _ => true end) l.
(* no V reset of session i (the fingerprint memories survive) *)
Definition no_vreset (i : nat) (l : list logitem) : bool :=
  forallb (fun x => match x with LVreset j => negb (j =? i)%nat | _ => true end) l.

Lemma emits_of_app i l1 l2 : emits_of i (l1 ++ l2) = emits_of i l1 ++ emits_of i l2.
Proof. apply flat_map_app. Qed.
Lemma cache_saves_app i l1 l2 : cache_saves i (l1 ++ l2) = cache_saves i l1 ++ cache_saves i l2.
Proof. unfold cache_saves. rewrite emits_of_app. apply map_app. Qed.
Lemma ping_saves_app i l1 l2 : ping_saves i (l1 ++ l2) = ping_saves i l1 ++ ping_saves i l2.
Proof. unfold ping_saves. rewrite emits_of_app. apply flat_map_app. Qed.
Lemma data_saves_app i l1 l2 : data_saves i (l1 ++ l2) = data_saves i l1 ++ data_saves i l2.
Proof. unfold data_saves. rewrite emits_of_app. apply flat_map_app. Qed.
Lemma no_inval_app i l1 l2 : no_inval i (l1 ++ l2) = no_inval i l1 && no_inval i l2.
Proof. apply forallb_app. Qed.
Lemma no_vreset_app i l1 l2 : no_vreset i (l1 ++ l2) = no_vreset i l1 && no_vreset i l2.
Proof. apply forallb_app. Qed.

(* the memories of session i after a piece of execution with log l *)
Definition mem_evolves (i : nat) (l : list logitem) (u u' : suser) : Prop :=
  (no_inval i l = true -> cache_recent u' = firstn CACHELEN (List.rev (cache_saves i l) ++ cache_recent u)) /\
  (no_vreset i l = true ->
     ping_recent u' = firstn PINGLEN (List.rev (ping_saves i l) ++ ping_recent u) /\
     data_recent u' = firstn DATALEN (List.rev (data_saves i l) ++ data_recent u)).

Lemma recent_lengths u : wf_user u ->
  length (cache_recent u) = CACHELEN /\ length (ping_recent u) = PINGLEN /\ length (data_recent u) = DATALEN.
Proof.
  intros (A & _ & C & _ & E & _). unfold cache_recent, ping_recent, data_recent.
  rewrite !ring_recent_length. tauto.
Qed.

Lemma mem_evolves_refl i u u' : wf_user u -> rview u' = rview u -> mem_evolves i [] u u'.
Proof.
  intros W R. destruct (recent_lengths u W) as (A & B & C).
  assert (E : cache_recent u' = cache_recent u /\ ping_recent u' = ping_recent u /\ data_recent u' = data_recent u).
  { unfold rview in R. inversion R as [[H1 H2 H3 H4 H5 H6 H7]].
    unfold cache_recent, ping_recent, data_recent. rewrite H1, H2, H3, H4, H5, H6. tauto. }
  destruct E as (E1 & E2 & E3). unfold mem_evolves.
  change (cache_saves i []) with (@nil cache_entry). change (ping_saves i []) with (@nil qmem_entry).
  change (data_saves i []) with (@nil qmem_entry). cbn [List.rev app]. rewrite E1, E2, E3.
  rewrite <- A at 1. rewrite <- B at 1. rewrite <- C at 1. rewrite !firstn_all. tauto.
Qed.

Lemma mem_evolves_trans i l1 l2 u u1 u2 :
  mem_evolves i l1 u u1 -> mem_evolves i l2 u1 u2 -> mem_evolves i (l1 ++ l2) u u2.
Proof.
  intros [A1 B1] [A2 B2]. split.
  - rewrite no_inval_app. intros H. apply andb_prop in H. destruct H as [H1 H2].
    rewrite (A2 H2), (A1 H1), cache_saves_app, rev_app_distr, <- app_assoc. apply firstn_app_firstn.
  - rewrite no_vreset_app. intros H. apply andb_prop in H. destruct H as [H1 H2].
    destruct (B1 H1) as [P1 D1]. destruct (B2 H2) as [P2 D2].
    rewrite P2, P1, D2, D1, ping_saves_app, data_saves_app, !rev_app_distr, <- !app_assoc.
    split; apply firstn_app_firstn.
Qed.

Lemma emits_of_emit i j u w : emits_of i [LEmit j u w] = if (j =? i)%nat then [(u, w)] else [].
Proof. unfold emits_of. cbn [flat_map]. apply app_nil_r. Qed.

Lemma mem_evolves_nosave i l u u' :
  wf_user u -> emits_of i l = [] ->
  ping_recent u' = ping_recent u -> data_recent u' = data_recent u ->
  (no_inval i l = true -> cache_recent u' = cache_recent u) -> mem_evolves i l u u'.
Proof.
  intros W E P D Cc. destruct (recent_lengths u W) as (A & B & C).
  unfold mem_evolves, cache_saves, ping_saves, data_saves. rewrite E. cbn [map flat_map List.rev app].
  split.
  - intros H. rewrite (Cc H). rewrite <- A at 1. rewrite firstn_all. reflexivity.
  - intros _. rewrite P, D. rewrite <- B at 1. rewrite <- C at 1. rewrite !firstn_all. tauto.
Qed.

Lemma mem_evolves_mstep c k st o l st' i :
  sinv c st -> mstep c k st o l st' -> mem_evolves i l (getu st i) (getu st' i).
Proof.
  intros Hinv M. destruct (Hinv i) as (W & _ & _).
  destruct M as [st0 st0' Hl Hf|st0 o0 Hc|st0 i0 w0 u0' o0 ag0 Hk Hi Hid Hs|st0 i0 q0 e0 Hk Hi Hn Ha|st0 i0 mfs0 Hk Hm2 Hm6|st0 i0 now0 q0 seed0 Hk].
  - apply mem_evolves_refl; [exact W|]. apply (Hf i).
  - apply mem_evolves_refl; [exact W|reflexivity].
  - rewrite getu_upd. destruct (i0 =? i)%nat eqn:E; cbn [andb].
    + apply Nat.eqb_eq in E. subst i0. assert (L : (i <? length st0)%nat = true) by (apply Nat.ltb_lt; exact Hi). rewrite L.
      destruct (emit_recent _ _ _ _ _ W Hs) as (R1 & R2 & R3).
      destruct (recent_lengths _ W) as (_ & B & C).
      unfold mem_evolves, cache_saves, ping_saves, data_saves. rewrite emits_of_emit, Nat.eqb_refl.
      cbn [map flat_map fst snd]. rewrite app_nil_r.
      split; [intros _; exact R1|]. intros _. rewrite R2, R3.
      destruct (scd_qm (getu st0 i) w0) as [[[|] e]|]; cbn [List.rev app]; split; try reflexivity;
        (rewrite <- B at 1 || rewrite <- C at 1); rewrite firstn_all; reflexivity.
    + apply mem_evolves_nosave; try reflexivity; [exact W|]. rewrite emits_of_emit, E. reflexivity.
  - apply mem_evolves_refl; [exact W|reflexivity].
  - rewrite getu_upd. destruct ((i0 =? i)%nat && (i0 <? length st0)%nat) eqn:E.
    + apply andb_prop in E. destruct E as [E _]. apply Nat.eqb_eq in E. subst i0.
      apply mem_evolves_nosave; try reflexivity; [exact W|].
      unfold no_inval. cbn [forallb]. rewrite Nat.eqb_refl. discriminate.
    + apply mem_evolves_nosave; try reflexivity. exact W.
  - rewrite getu_upd. destruct ((i0 =? i)%nat && (i0 <? length st0)%nat) eqn:E.
    + apply andb_prop in E. destruct E as [E _]. apply Nat.eqb_eq in E. subst i0.
      unfold mem_evolves, no_inval, no_vreset. cbn [forallb]. rewrite Nat.eqb_refl. split; discriminate.
    + apply mem_evolves_nosave; try reflexivity. exact W.
Qed.

Lemma mem_evolves_msteps c k st o l st' i :
  msteps c k st o l st' -> sinv c st -> mem_evolves i l (getu st i) (getu st' i).
Proof.
  intros M. induction M as [st|st o1 l1 st1 o2 l2 st2 M1 M2 IH]; intros Hinv.
  - destruct (Hinv i) as (W & _). apply mem_evolves_refl; [exact W|reflexivity].
  - eapply mem_evolves_trans; [eapply mem_evolves_mstep; eassumption|]. apply IH. eapply sinv_mstep; eassumption.
Qed.

Theorem mem_evolves_mtrace c st l st' i :
  mtrace c st l st' -> sinv c st -> mem_evolves i l (getu st i) (getu st' i).
Proof.
  intros M. induction M as [st|k st o l st1 l2 st2 M1 M2 IH]; intros Hinv.
  - destruct (Hinv i) as (W & _). apply mem_evolves_refl; [exact W|reflexivity].
  - eapply mem_evolves_trans; [eapply mem_evolves_msteps; eassumption|]. apply IH. eapply sinv_msteps; eassumption.
Qed.

(* ---- an entry saved n saves ago is still there while n < ring length -------------------------------------- *)

Lemma nth_firstn_rev_app {A} (s : list A) x r len d :
  (length s < len)%nat -> nth (length s) (firstn len (List.rev s ++ x :: r)) d = x.
Proof.
  intros H. rewrite nth_firstn_lt' by exact H.
  rewrite app_nth2 by (rewrite rev_length; lia). rewrite rev_length, Nat.sub_diag. reflexivity.
Qed.

Lemma In_firstn_rev_app {A} (s : list A) x r len :
  (length s < len)%nat -> In x (firstn len (List.rev s ++ x :: r)).
Proof.
  intros H. replace (List.rev s ++ x :: r) with ((List.rev s ++ [x]) ++ r) by (rewrite <- app_assoc; reflexivity).
  rewrite firstn_app. apply in_or_app. left.
  rewrite firstn_all2 by (rewrite app_length, rev_length; simpl; lia). apply in_or_app. right. left. reflexivity.
Qed.

(* find over newest-first: the entry at position n is found unless a newer one matches *)
Lemma find_newest {A} (f : A -> bool) (l : list A) n d :
  (n < length l)%nat -> f (nth n l d) = true ->
  exists e, find f l = Some e /\ f e = true /\
    (e = nth n l d \/ exists m, (m < n)%nat /\ e = nth m l d).
Proof.
  revert n. induction l as [|x l IH]; intros n Hn Hf; [simpl in Hn; lia|].
  cbn [find]. destruct (f x) eqn:Fx.
  - exists x. split; [reflexivity|]. split; [exact Fx|].
    destruct n; [left; reflexivity|right; exists O; split; [lia|reflexivity]].
  - destruct n; [simpl in Hf; congruence|].
    simpl in Hn. destruct (IH n ltac:(lia) Hf) as (e & E1 & E2 & E3). exists e. split; [exact E1|]. split; [exact E2|].
    destruct E3 as [->|(m & Hm & ->)]; [left; reflexivity|right; exists (S m); split; [lia|reflexivity]].
Qed.

(* ---- a query answered by an emission, then any execution, then its re-delivery ------------------------------ *)

Section Redelivery.
Variable c : cfg.
Variables (st0 : sstate) (i : nat) (w : which_q) (u1 : suser) (o : list out) (ag : bool).
Hypothesis Hinv : sinv c st0.
Hypothesis Hi : (i < length st0)%nat.
Hypothesis Hid : h_id (getq (getu st0 i) w) <> 0.
Hypothesis Hs : send_chunk_or_dataless (getu st0 i) w = (u1, o, ag).
Let q0 := getq (getu st0 i) w.
Let st1 := upd st0 i (fun _ => u1).
Variables (l : list logitem) (st2 : sstate).
Hypothesis Htr : mtrace c st1 l st2.

Lemma redelivery_sinv1 : sinv c st1.
Proof.
  unfold st1. eapply sinv_mstep; [|exact Hinv].
  apply (ms_emit c true st0 i w u1 o ag); [reflexivity|exact Hi|exact Hid|exact Hs].
Qed.

Lemma redelivery_sinv2 : sinv c st2.
Proof. eapply sinv_mtrace; [exact Htr|apply redelivery_sinv1]. Qed.

Lemma getu_st1 : getu st1 i = u1.
Proof. unfold st1. apply getu_upd_same, Hi. Qed.

(* the answered query's cache entry is the (number of later saves)-th newest *)
Lemma redelivery_cache_pos :
  no_inval i l = true -> (length (cache_saves i l) < CACHELEN)%nat ->
  nth (length (cache_saves i l)) (cache_recent (getu st2 i)) ce0 = scd_ce (getu st0 i) w.
Proof.
  intros Hn Hc.
  destruct (mem_evolves_mtrace c st1 l st2 i Htr redelivery_sinv1) as [A _]. rewrite (A Hn), getu_st1.
  destruct (Hinv i) as (W & _). destruct (emit_recent _ _ _ _ _ W Hs) as (R1 & _). rewrite R1.
  rewrite firstn_app_firstn. apply nth_firstn_rev_app. exact Hc.
Qed.

(* so a query with the same name and type hits the cache; the entry found is the one of the original
   answer unless one of the later saves has the same name and type (then it is the newest such) *)
Theorem redelivery_cache q :
  no_inval i l = true -> (length (cache_saves i l) < CACHELEN)%nat ->
  h_name q = h_name q0 -> h_type q = h_type q0 ->
  exists e, answer_from_dnscache (getu st2 i) (h_name q) (h_type q) = Some e /\
    ce_name e = h_name q /\ ce_type e = h_type q /\
    (e = scd_ce (getu st0 i) w \/
     exists m, (m < length (cache_saves i l))%nat /\ e = nth m (cache_recent (getu st2 i)) ce0).
Proof.
  intros Hn Hc En Et.
  destruct (redelivery_sinv2 i) as (W2 & _).
  rewrite (answer_from_dnscache_find _ _ _ W2).
  pose proof (redelivery_cache_pos Hn Hc) as P.
  assert (M : ce_match (h_name q) (h_type q) (nth (length (cache_saves i l)) (cache_recent (getu st2 i)) ce0) = true).
  { rewrite P. unfold ce_match, scd_ce. cbv zeta. cbn [ce_id ce_len ce_type ce_name]. fold q0.
    rewrite En, Et, N.eqb_refl, list_eqb_refl.
    assert (E1 : (h_id (scd_q' q0) =? 0) = false) by (apply N.eqb_neq, scd_q'_id; exact Hid).
    assert (E2 : (N.of_nat (length (scd_pktb (scd_u1 (getu st0 i)))) =? 0) = false).
    { apply N.eqb_neq. unfold scd_pktb. cbn [length]. lia. }
    rewrite E1, E2. reflexivity. }
  destruct (recent_lengths _ W2) as (L & _).
  destruct (find_newest _ _ _ ce0 ltac:(rewrite L; exact Hc) M) as (e & F1 & F2 & F3).
  exists e. split; [exact F1|].
  unfold ce_match in F2. apply negb_true_iff in F2.
  apply orb_false_elim in F2. destruct F2 as [F2 F4]. apply orb_false_elim in F2. destruct F2 as [F2 F3'].
  apply negb_false_iff in F3', F4. apply N.eqb_eq in F3'. apply list_eqb_eq in F4.
  split; [exact F4|]. split; [exact F3'|].
  destruct F3 as [->|(m & Hm & ->)]; [left; exact P|right; exists m; split; [exact Hm|reflexivity]].
Qed.

(* the fingerprint saved by the original answer stays in its memory for PINGLEN / DATALEN saves *)
Theorem redelivery_qmem b e :
  scd_qm (getu st0 i) w = Some (b, e) -> no_vreset i l = true -> qm_type e <> T_UNSET ->
  (length (if b then ping_saves i l else data_saves i l) < (if b then PINGLEN else DATALEN))%nat ->
  qmem_hit (if b then u_pingmem (getu st2 i) else u_datamem (getu st2 i)) (qm_cmc e) (qm_type e) = true.
Proof.
  intros Hq Hn Ht Hc.
  destruct (mem_evolves_mtrace c st1 l st2 i Htr redelivery_sinv1) as [_ B]. destruct (B Hn) as [P D].
  rewrite getu_st1 in P, D.
  destruct (Hinv i) as (W & _). destruct (emit_recent _ _ _ _ _ W Hs) as (_ & R2 & R3).
  rewrite Hq in R2, R3. destruct e as [cmc ty]. cbn [qm_cmc qm_type] in *.
  destruct b.
  - apply (qmem_hit_recent _ (u_pingmem_last (getu st2 i)) cmc ty Ht).
    fold (ping_recent (getu st2 i)). rewrite P, R2.
    rewrite firstn_app_firstn. apply In_firstn_rev_app. exact Hc.
  - apply (qmem_hit_recent _ (u_datamem_last (getu st2 i)) cmc ty Ht).
    fold (data_recent (getu st2 i)). rewrite D, R3.
    rewrite firstn_app_firstn. apply In_firstn_rev_app. exact Hc.
Qed.

End Redelivery.
