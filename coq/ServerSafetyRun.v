(* ServerSafetyRun.v -- C05, part 5: the event loop.  Events as the process sees them (a datagram
   of any content and length on the DNS socket, a packet of any content and length from the tun
   device, the two sweeps of the select loop), the run function, and the induction: every
   reachable state satisfies state_ok and every emitted datagram / packet satisfies out_ok. *)
From Coq Require Import List NArith ZArith Arith Bool Lia ZifyBool ZifyNat ZifyN.
From RecordUpdate Require Import RecordUpdate.
From Iodine Require Import Generated.SrcConsts Base Codec Hostname DnsName DnsMsg Domain Server
  ServerSafetyProofs ServerSafetyOps ServerSafetyStep ServerSafetyStep2.
Import ListNotations.
Local Open Scope N_scope.

(* what arrives from outside: arbitrary byte lists of arbitrary length *)
Inductive devent :=
| DGram (now rnd : N) (from : addr) (dest : option (list N)) (datagram : list N)
| DTun (now : N) (packet : list N)
| DSweepClear (now : N)
| DSweepSend (now : N).

(* recvmsg() / read() deliver at most the 64 KiB of the buffer they are given (packet[64*1024] in
   read_dns, in[64*1024] in tunnel_tun): a longer datagram is cut by the kernel *)
Definition rx (b : list N) : list N := firstn (N.to_nat 65536) b.

Lemma rx_len b : (length (rx b) <= K64)%nat.
Proof. unfold rx, K64. rewrite firstn_length. lia. Qed.

Section Run.
Variable login : list N -> N -> list N.
Variable zc : list N -> list N.
Variable unz : list N -> option (list N).
Hypothesis unz_bound : forall b p, unz b = Some p -> (length p <= K64)%nat.

Definition dstep (c : cfg) (st : sstate) (e : devent) : sstate * list out :=
  match e with
  | DGram now rnd from dest dg => recv_datagram login unz c st now rnd from dest (rx dg)
  | DTun now pk => tunnel_tun zc st now (rx pk)
  | DSweepClear now => (sweep_clear st now, [])
  | DSweepSend now => sweep_send (length st) 0 st now []
  end.

(* final state and everything emitted, in order (a left fold over the events) *)
Definition run_from (c : cfg) (acc : sstate * list out) (evs : list devent) : sstate * list out :=
  fold_left (fun acc e => let r := dstep c (fst acc) e in (fst r, snd acc ++ snd r)) evs acc.
Definition run (c : cfg) (st : sstate) (evs : list devent) : sstate * list out := run_from c (st, []) evs.

Lemma run_from_cons c acc e rest :
  run_from c acc (e :: rest) = run_from c (fst (dstep c (fst acc) e), snd acc ++ snd (dstep c (fst acc) e)) rest.
Proof. reflexivity. Qed.

Lemma dstep_ok c st e : state_ok st -> res_ok st (dstep c st e).
Proof.
  intros H. destruct e as [now rnd from dest dg|now pk|now|now]; cbn [dstep].
  - exact (recv_datagram_ok login unz unz_bound c st now rnd from dest (rx dg) H (rx_len dg)).
  - exact (tunnel_tun_ok zc st now (rx pk) H).
  - destruct (sweep_clear_ok st now (conj H I)) as [Ha Hb]. split; [|split]; [assumption|assumption|constructor].
  - apply sweep_send_ok; [assumption|constructor].
Qed.

Lemma run_from_ok c : forall evs acc n, state_ok (fst acc) -> length (fst acc) = n -> outs_ok (snd acc) ->
  state_ok (fst (run_from c acc evs)) /\ length (fst (run_from c acc evs)) = n /\ outs_ok (snd (run_from c acc evs)).
Proof.
  induction evs as [|e rest IH]; intros acc n H HL Ho; [cbn; auto|].
  rewrite run_from_cons. destruct (dstep_ok c (fst acc) e H) as (Ha & Hb & Hc).
  apply IH; cbn [fst snd]; [assumption|congruence|apply outs_ok_app; assumption].
Qed.

Lemma run_ok c evs st : state_ok st -> res_ok st (run c st evs).
Proof.
  intros H. unfold run. destruct (run_from_ok c evs (st, []) (length st)) as (Ha & Hb & Hc); cbn [fst snd]; auto.
  - constructor.
  - split; [|split]; assumption.
Qed.

End Run.
