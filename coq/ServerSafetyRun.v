(* ServerSafetyRun.v -- C05, part 5: the event loop.  Events as the process sees them (a datagram
   of any content and length on the DNS socket, a packet of any content and length from the tun
   device, the two sweeps of the select loop), the run function, and the induction: every
   reachable state satisfies state_ok and every emitted datagram / packet satisfies out_ok. *)
From Coq Require Import List NArith ZArith Arith Bool Lia ZifyBool ZifyNat ZifyN.
From RecordUpdate Require Import RecordUpdate.
From Iodine Require Import Generated.SrcConsts Base Codec Hostname DnsName DnsMsg Domain Server
  ServerSafetyProofs ServerSafetyOps ServerSafetyStep ServerSafetyStep2 ServerSafetyFrame.
Import ListNotations.
Local Open Scope N_scope.

(* what arrives from outside: arbitrary byte lists of arbitrary length *)
Inductive devent :=
| DGram (now rnd : N) (from : addr) (dest : option (list N)) (datagram : list N)
| DTun (now : N) (packet : list N)
| DSweepClear (now : N)
| DSweepSend (now : N).

(* recvmsg() / read() deliver at most the 64 KiB of the buffer they are given (packet[64*1024] in
   read_dns, in[64*1024] in tunnel_tun): a longer datagram is cut by the kernel *)
Definition rx (b : list N) : list N := firstn (N.to_nat 65536) b.

Lemma rx_len b : (length (rx b) <= K64)%nat.
Proof. unfold rx, K64. rewrite firstn_length. lia. Qed.

Section Run.
Variable login : list N -> N -> list N.
Variable zc : list N -> list N.
Variable unz : list N -> option (list N).
Hypothesis unz_bound : forall b p, unz b = Some p -> (length p <= K64)%nat.

Definition dstep (c : cfg) (st : sstate) (e : devent) : sstate * list out :=
  match e with
  | DGram now rnd from dest dg => recv_datagram login unz c st now rnd from dest (rx dg)
  | DTun now pk => tunnel_tun zc st now (rx pk)
  | DSweepClear now => (sweep_clear st now, [])
  | DSweepSend now => sweep_send (length st) 0 st now []
  end.

(* final state and everything emitted, in order (a left fold over the events) *)
Definition run_from (c : cfg) (acc : sstate * list out) (evs : list devent) : sstate * list out :=
  fold_left (fun acc e => let r := dstep c (fst acc) e in (fst r, snd acc ++ snd r)) evs acc.
Definition run (c : cfg) (st : sstate) (evs : list devent) : sstate * list out := run_from c (st, []) evs.

Lemma run_from_cons c acc e rest :
  run_from c acc (e :: rest) = run_from c (fst (dstep c (fst acc) e), snd acc ++ snd (dstep c (fst acc) e)) rest.
Proof. reflexivity. Qed.

Lemma dstep_ok c st e : state_ok st -> res_ok st (dstep c st e).
Proof.
  intros H. destruct e as [now rnd from dest dg|now pk|now|now]; cbn [dstep].
  - exact (recv_datagram_ok login unz unz_bound c st now rnd from dest (rx dg) H (rx_len dg)).
  - exact (tunnel_tun_ok zc st now (rx pk) H).
  - destruct (sweep_clear_ok st now (conj H I)) as [Ha Hb]. split; [|split]; [assumption|assumption|constructor].
  - apply sweep_send_ok; [assumption|constructor].
Qed.

Lemma run_from_ok c : forall evs acc n, state_ok (fst acc) -> length (fst acc) = n -> outs_ok (snd acc) ->
  state_ok (fst (run_from c acc evs)) /\ length (fst (run_from c acc evs)) = n /\ outs_ok (snd (run_from c acc evs)).
Proof.
  induction evs as [|e rest IH]; intros acc n H HL Ho; [cbn; auto|].
  rewrite run_from_cons. destruct (dstep_ok c (fst acc) e H) as (Ha & Hb & Hc).
  apply IH; cbn [fst snd]; [assumption|congruence|apply outs_ok_app; assumption].
Qed.

Lemma run_ok c evs st : state_ok st -> res_ok st (run c st evs).
Proof.
  intros H. unfold run. destruct (run_from_ok c evs (st, []) (length st)) as (Ha & Hb & Hc); cbn [fst snd]; auto.
  - constructor.
  - split; [|split]; assumption.
Qed.

End Run.

(* ---- query_datalen: domain_len never exceeds the name --------------------------------------------- *)

Lemma qd_scan_lt : forall rq rd n, qd_scan rq rd = Some n -> (n < length rq)%nat.
Proof.
  induction rq as [|qc rq IH]; intros rd n H; [discriminate|].
  destruct rd as [|dc rd]; [discriminate|].
  cbn [qd_scan] in H.
  destruct (dc =? ch_star).
  - destruct (qc =? ch_star); [discriminate|].
    destruct (at_boundary rq); [inversion H; cbn [length]; lia|].
    apply IH in H. cbn [length]. lia.
  - destruct (Domain.tolower qc =? Domain.tolower dc); [|discriminate].
    destruct rd as [|dc' rd'].
    + destruct (at_boundary rq); [inversion H; cbn [length]; lia|discriminate].
    + apply IH in H. cbn [length]. lia.
Qed.

(* domain_len = query_datalen(q.name, topdomain) < strlen(q.name) <= 255 < sizeof(in) = 512:
   memcpy(in, q->name, MIN(domain_len, sizeof(in))) copies exactly domain_len initialised bytes *)
Lemma query_datalen_lt q d n : query_datalen q d = Some n -> (n < length q)%nat.
Proof.
  unfold query_datalen. destruct (_ || _); [discriminate|]. intros H.
  apply qd_scan_lt in H. rewrite rev_length in H. exact H.
Qed.

(* ---- a run of hostile datagrams leaves an established session untouched --------------------------- *)

Section Hostile.
Variable login : list N -> N -> list N.
Variable zc : list N -> list N.
Variable unz : list N -> option (list N).

(* a datagram that is hostile to slot u in state st: its sender does not pass u's access check, is
   not a logged-in client of any slot, u's session is alive, and the datagram is not a raw login
   frame carrying u's login hash *)
Definition hostile_step (c : cfg) (u : nat) (st : sstate) (e : devent) : Prop :=
  match e with
  | DGram now rnd from dest dg =>
      check_user_and_ip c st now (Z.of_nat u) from = true /\
      (forall s, check_auth c st now (Z.of_nat s) from = true) /\
      u_active (getu st u) = true /\ ~ (u_last (getu st u) + src_USER_TIMEOUT_AVAIL < now) /\
      ~ ServerSafetyFrame.rawlogin login c st now (rx dg) u
  | _ => False
  end.

Inductive hostile_run (c : cfg) (u : nat) : sstate -> list devent -> Prop :=
| hr_nil st : hostile_run c u st []
| hr_cons st e rest : hostile_step c u st e -> hostile_run c u (fst (dstep login zc unz c st e)) rest ->
                      hostile_run c u st (e :: rest).

Lemma run_from_fst c : forall evs st o1 o2,
  fst (run_from login zc unz c (st, o1) evs) = fst (run_from login zc unz c (st, o2) evs).
Proof.
  induction evs as [|e rest IH]; intros st o1 o2; [reflexivity|].
  rewrite !run_from_cons. cbn [fst snd]. apply IH.
Qed.

Lemma hostile_run_untouched c u : forall evs st, hostile_run c u st evs ->
  nth_error (fst (run login zc unz c st evs)) u = nth_error st u.
Proof.
  induction evs as [|e rest IH]; intros st H; [reflexivity|].
  inversion H as [|st0 e0 rest0 Hs Hr]; subst.
  unfold run. rewrite run_from_cons. cbn [fst snd].
  rewrite (run_from_fst c rest _ _ []). fold (run login zc unz c (fst (dstep login zc unz c st e)) rest).
  rewrite (IH _ Hr).
  destruct e as [now rnd from dest dg| | |]; try contradiction.
  destruct Hs as (H1 & H2 & H3 & H4 & H5). cbn [dstep].
  apply ServerSafetyFrame.third_party_untouched; assumption.
Qed.

End Hostile.

(* EOF *)
