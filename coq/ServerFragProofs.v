(* ServerFragProofs.v -- C15: downstream fragments never exceed the negotiated fragment size.
   Invariants of the reachable states (ring shapes, cached answers cut under the current fragsize,
   held queries belong to their session), proved per micro-step of ServerRefine, and the bound on
   every answer that carries tunnel data, fresh or replayed. *)
From Coq Require Import List NArith ZArith Arith Bool Lia.
From RecordUpdate Require Import RecordUpdate.
From Iodine Require Import Generated.SrcConsts Base Codec Hostname DnsName DnsMsg Domain Server ServerRings ServerRefine.
Import ListNotations.
Local Open Scope N_scope.

(* ---- projections of an emission -------------------------------------------------------------------- *)

Lemma scd_core_cache u w nm ty e q :
  u_cache (scd_core u w nm ty e q) = set_nth (u_cache u) (ring_fill CACHELEN (u_cache_last u)) e /\
  u_cache_last (scd_core u w nm ty e q) = ring_fill CACHELEN (u_cache_last u) /\
  u_fragsize (scd_core u w nm ty e q) = u_fragsize u.
Proof. unfold scd_core, qm_push. destruct (qm_kind nm) as [[[|] cmc]|]; destruct w; repeat split; reflexivity. Qed.

Lemma scd_core_qmem u w nm ty e q :
  u_pingmem (scd_core u w nm ty e q) = u_pingmem (qm_push u nm ty) /\
  u_pingmem_last (scd_core u w nm ty e q) = u_pingmem_last (qm_push u nm ty) /\
  u_datamem (scd_core u w nm ty e q) = u_datamem (qm_push u nm ty) /\
  u_datamem_last (scd_core u w nm ty e q) = u_datamem_last (qm_push u nm ty).
Proof. unfold scd_core. destruct w; repeat split; reflexivity. Qed.

Lemma scd_core_getq u w nm ty e q :
  getq (scd_core u w nm ty e q) w = q /\
  u_q (scd_core u w nm ty e q) = match w with WQ => q | WQS => u_q u end /\
  u_qs (scd_core u w nm ty e q) = match w with WQ => u_qs u | WQS => q end.
Proof. unfold scd_core, qm_push. destruct (qm_kind nm) as [[[|] cmc]|]; destruct w; repeat split; reflexivity. Qed.

Section Emit.
Variables (u0 : suser) (w : which_q) (u' : suser) (o : list out) (ag : bool).
Hypothesis Hs : send_chunk_or_dataless u0 w = (u', o, ag).

Let core := scd_core u0 w (h_name (getq u0 w)) (h_type (getq u0 w)) (scd_ce u0 w) ((scd_q' (getq u0 w)) <| h_id := 0 |>).

Lemma emit_okey : okey u' = okey core.
Proof. destruct (scd_result _ _ _ _ _ Hs) as [_ H]. exact H. Qed.

Lemma emit_outs : o = scd_outs (getq u0 w) (scd_pktb (scd_u1 u0)) (u_downenc u0).
Proof. destruct (scd_result _ _ _ _ _ Hs) as [H _]. exact H. Qed.

Lemma emit_cache :
  u_cache u' = set_nth (u_cache u0) (ring_fill CACHELEN (u_cache_last u0)) (scd_ce u0 w) /\
  u_cache_last u' = ring_fill CACHELEN (u_cache_last u0) /\ u_fragsize u' = u_fragsize u0.
Proof.
  pose proof emit_okey as K.
  rewrite (okey_proj u_cache _ _ ltac:(reflexivity) K), (okey_proj u_cache_last _ _ ltac:(reflexivity) K),
    (okey_proj u_fragsize _ _ ltac:(reflexivity) K).
  apply scd_core_cache.
Qed.

Lemma emit_qmem :
  u_pingmem u' = u_pingmem (qm_push u0 (h_name (getq u0 w)) (h_type (getq u0 w))) /\
  u_pingmem_last u' = u_pingmem_last (qm_push u0 (h_name (getq u0 w)) (h_type (getq u0 w))) /\
  u_datamem u' = u_datamem (qm_push u0 (h_name (getq u0 w)) (h_type (getq u0 w))) /\
  u_datamem_last u' = u_datamem_last (qm_push u0 (h_name (getq u0 w)) (h_type (getq u0 w))).
Proof.
  pose proof emit_okey as K.
  rewrite (okey_proj u_pingmem _ _ ltac:(reflexivity) K), (okey_proj u_pingmem_last _ _ ltac:(reflexivity) K),
    (okey_proj u_datamem _ _ ltac:(reflexivity) K), (okey_proj u_datamem_last _ _ ltac:(reflexivity) K).
  apply scd_core_qmem.
Qed.

Lemma emit_q :
  u_q u' = match w with WQ => (scd_q' (getq u0 w)) <| h_id := 0 |> | WQS => u_q u0 end /\
  u_qs u' = match w with WQ => u_qs u0 | WQS => (scd_q' (getq u0 w)) <| h_id := 0 |> end.
Proof.
  pose proof emit_okey as K.
  rewrite (okey_proj u_q _ _ ltac:(reflexivity) K), (okey_proj u_qs _ _ ltac:(reflexivity) K).
  destruct (scd_core_getq u0 w (h_name (getq u0 w)) (h_type (getq u0 w)) (scd_ce u0 w) ((scd_q' (getq u0 w)) <| h_id := 0 |>))
    as (_ & A & B). split; assumption.
Qed.
End Emit.

(* ---- the bound at emission ---------------------------------------------------------------------------- *)

(* a tunnel-data answer payload: 2 header bytes, then at most F (and at most 4094) bytes *)
Definition data_payload_ok (F : N) (data : list N) : Prop :=
  exists b0 b1 d, data = b0 :: b1 :: d /\ N.of_nat (length d) <= F /\ N.of_nat (length d) <= 4094.

Lemma scd_pktb_ok u : data_payload_ok (u_fragsize u) (scd_pktb (scd_u1 u)).
Proof.
  exists (scd_b0 (scd_u1 u)), (scd_b1 (scd_u1 u)), (scd_payload (scd_u1 u)). split; [reflexivity|].
  pose proof (scd_payload_length (scd_u1 u)) as L. pose proof (scd_datalen_le (scd_u1 u)) as (A & B & _).
  rewrite (okey_proj u_fragsize u (scd_u1 u) ltac:(reflexivity) (okey_scd_u1 u)) in A. lia.
Qed.

Lemma emit_bound u w u' o ag :
  send_chunk_or_dataless u w = (u', o, ag) ->
  exists pktb, data_payload_ok (u_fragsize u) pktb /\
    Forall (fun x => exists id to, x = OAnswer (getq u w) id to pktb (u_downenc u)) o /\ o <> [].
Proof.
  intros Hs. exists (scd_pktb (scd_u1 u)). split; [apply scd_pktb_ok|].
  rewrite (emit_outs _ _ _ _ _ Hs). unfold scd_outs. split; [|discriminate].
  constructor; [eexists; eexists; reflexivity|].
  destruct (negb (h_id2 (getq u w) =? 0)); [constructor; [eexists; eexists; reflexivity|constructor]|constructor].
Qed.

(* ---- invariants -------------------------------------------------------------------------------------------- *)

Definition entry_ok (F : N) (e : cache_entry) : Prop :=
  ce_len e = 0 \/ (ce_len e = N.of_nat (length (ce_answer e)) /\ data_payload_ok F (ce_answer e)).

Definition cache_ok (u : suser) : Prop := Forall (entry_ok (u_fragsize u)) (u_cache u).

Definition uinv (c : cfg) (i : nat) (u : suser) : Prop := wf_user u /\ cache_ok u /\ held_ok c i u.
Definition sinv (c : cfg) (st : sstate) : Prop := forall i, uinv c i (getu st i).

Lemma cache_ok_rview u u' : rview u' = rview u -> cache_ok u -> cache_ok u'.
Proof.
  unfold rview, cache_ok. intros H. inversion H as [[H1 H2 H3 H4 H5 H6 H7]]. rewrite H1, H7. tauto.
Qed.

Lemma uinv_frame c i u u' : uframe c i u u' -> uinv c i u -> uinv c i u'.
Proof.
  intros [R H] (A & B & C). split; [eapply wf_rview; eassumption|]. split; [eapply cache_ok_rview; eassumption|tauto].
Qed.

Lemma uinv_init c i ip : uinv c i (user_init ip).
Proof.
  split; [apply wf_user_init|]. split.
  - unfold cache_ok, user_init. cbn [u_cache u_fragsize]. apply Forall_forall. intros e He.
    apply repeat_spec in He. subst e. left. reflexivity.
  - split; intros H; exfalso; apply H; reflexivity.
Qed.

Lemma wf_push_cache_fields (l : list cache_entry) last e :
  length l = CACHELEN -> length (set_nth l (ring_fill CACHELEN last) e) = CACHELEN /\ (ring_fill CACHELEN last < CACHELEN)%nat.
Proof. intros H. split; [rewrite set_nth_length; exact H|apply ring_fill_lt, CACHELEN_pos]. Qed.

Lemma wf_qm_push u nm ty : wf_user u -> wf_user (qm_push u nm ty).
Proof.
  intros (A & B & C & D & E & F). unfold qm_push.
  destruct (qm_kind nm) as [[[|] cmc]|]; unfold wf_user, push_ping, push_data; cbn;
    rewrite ?set_nth_length; repeat split; try assumption; apply ring_fill_lt; (apply PINGLEN_pos || apply DATALEN_pos).
Qed.

Lemma uinv_emit c i u w u' o ag :
  send_chunk_or_dataless u w = (u', o, ag) -> uinv c i u -> uinv c i u'.
Proof.
  intros Hs (W & Ck & Hh).
  destruct (emit_cache _ _ _ _ _ Hs) as (C1 & C2 & C3).
  destruct (emit_qmem _ _ _ _ _ Hs) as (Q1 & Q2 & Q3 & Q4).
  destruct (emit_q _ _ _ _ _ Hs) as (E1 & E2).
  split; [|split].
  - pose proof (wf_qm_push u (h_name (getq u w)) (h_type (getq u w)) W) as (_ & _ & P1 & P2 & P3 & P4).
    destruct W as (A & B & _).
    unfold wf_user. rewrite C1, C2, Q1, Q2, Q3, Q4, set_nth_length.
    repeat split; try assumption. apply ring_fill_lt, CACHELEN_pos.
  - unfold cache_ok. rewrite C1, C3. apply Forall_set_nth; [exact Ck|].
    right. split; [reflexivity|]. apply scd_pktb_ok.
  - destruct Hh as [H1 H2]. unfold held_ok. rewrite E1, E2.
    destruct w; cbn; split; try assumption; intros H; exfalso; apply H; reflexivity.
Qed.

Lemma cleared_cache_ok F (l : list cache_entry) :
  Forall (entry_ok F) (map (fun e => {| ce_name := ce_name e; ce_type := ce_type e; ce_id := 0; ce_answer := ce_answer e; ce_len := 0 |}) l).
Proof. apply Forall_forall. intros e He. apply in_map_iff in He. destruct He as (x & <- & _). left. reflexivity. Qed.

Lemma uinv_naccept c i mfs u : uinv c i u -> uinv c i (n_accept mfs u).
Proof.
  intros ((A & B & C & D & E & F) & Ck & Hh). split; [|split].
  - unfold wf_user, n_accept. cbn. rewrite map_length. tauto.
  - unfold cache_ok, n_accept. cbn. apply cleared_cache_ok.
  - exact Hh.
Qed.

Lemma uinv_vreset c i now q seed u : uinv c i u -> uinv c i (reset_session (claim now u) q seed).
Proof.
  intros ((A & B & C & D & E & F) & Ck & Hh). split; [|split].
  - unfold wf_user, reset_session, claim. cbn. rewrite !map_length.
    pose proof CACHELEN_pos. pose proof PINGLEN_pos. pose proof DATALEN_pos. tauto.
  - unfold cache_ok, reset_session, claim. cbn. apply cleared_cache_ok.
  - unfold held_ok, reset_session, claim. cbn. split; intros H; exfalso; apply H; reflexivity.
Qed.

Lemma sinv_upd c st i f : sinv c st -> (uinv c i (getu st i) -> uinv c i (f (getu st i))) -> sinv c (upd st i f).
Proof.
  intros H Hf j. rewrite getu_upd. destruct ((i =? j)%nat && (i <? length st)%nat) eqn:E; [|apply H].
  apply andb_prop in E. destruct E as [E _]. apply Nat.eqb_eq in E. subst j. apply Hf, H.
Qed.

Lemma sinv_mstep c k st o l st' : mstep c k st o l st' -> sinv c st -> sinv c st'.
Proof.
  intros M H. destruct M as [st0 st0' Hl Hf|st0 o0 Hc|st0 i0 w0 u0' o0 ag0 Hk Hi Hid Hs|st0 i0 q0 e0 Hk Hi Hn Ha|st0 i0 mfs0 Hk Hm2 Hm6|st0 i0 now0 q0 seed0 Hk].
  - intros j. eapply uinv_frame; [apply Hf|apply H].
  - exact H.
  - apply sinv_upd; [exact H|]. intros Hu. eapply uinv_emit; eassumption.
  - exact H.
  - apply sinv_upd; [exact H|]. apply uinv_naccept.
  - apply sinv_upd; [exact H|]. apply uinv_vreset.
Qed.

Lemma sinv_msteps c k st o l st' : msteps c k st o l st' -> sinv c st -> sinv c st'.
Proof. intros M. induction M as [st|st o1 l1 st1 o2 l2 st2 M1 M2 IH]; intros Hi; [exact Hi|]. apply IH. eapply sinv_mstep; eassumption. Qed.

Lemma sinv_init c ips : sinv c (init_state ips).
Proof.
  intros i. unfold init_state, getu. rewrite (map_nth user_init ips 0 i). apply uinv_init.
Qed.

(* ---- reachable states -------------------------------------------------------------------------------------- *)

Section Reach.
Variable login : list N -> N -> list N.
Variable zc : list N -> list N.
Variable unz : list N -> option (list N).
Variable c : cfg.

Inductive reach (ips : list N) : sstate -> Prop :=
| reach_init : reach ips (init_state ips)
| reach_step st e : reach ips st -> reach ips (fst (step login zc unz c st e)).

Lemma sinv_step st e : sinv c st -> sinv c (fst (step login zc unz c st e)).
Proof.
  intros H. destruct (step_refines login zc unz c st e) as [[l M]|[l M]]; eapply sinv_msteps; eassumption.
Qed.

Lemma reach_sinv ips st : reach ips st -> sinv c st.
Proof. intros R. induction R; [apply sinv_init|apply sinv_step, IHR]. Qed.

(* ---- replays ------------------------------------------------------------------------------------------------ *)

Lemma dnscache_scan_some n : forall i u name ty e,
  dnscache_scan n i u name ty = Some e ->
  In e (u_cache u) /\ ce_len e <> 0 /\ ce_id e <> 0 /\ ce_type e = ty /\ list_eqb (ce_name e) name = true.
Proof.
  induction n as [|n IH]; intros i u name ty e H; [discriminate|]. cbn [dnscache_scan] in H. cbv zeta in H.
  set (use_ := if (i <=? u_cache_last u)%nat then (u_cache_last u - i)%nat else (u_cache_last u + CACHELEN - i)%nat) in H.
  destruct ((ce_id (nth use_ (u_cache u) ce0) =? 0) || (ce_len (nth use_ (u_cache u) ce0) =? 0)
            || negb (ce_type (nth use_ (u_cache u) ce0) =? ty) || negb (list_eqb (ce_name (nth use_ (u_cache u) ce0)) name)) eqn:E.
  - apply IH in H. exact H.
  - inversion H. subst e. clear H.
    apply orb_false_elim in E. destruct E as [E E4]. apply orb_false_elim in E. destruct E as [E E3].
    apply orb_false_elim in E. destruct E as [E1 E2].
    apply N.eqb_neq in E1, E2. apply negb_false_iff in E3, E4. apply N.eqb_eq in E3.
    repeat split; try assumption.
    destruct (nth_in_or_default use_ (u_cache u) ce0) as [Hin|Hd]; [exact Hin|].
    rewrite Hd in E2. exfalso. apply E2. reflexivity.
Qed.

Lemma replay_bound u name ty e :
  cache_ok u -> answer_from_dnscache u name ty = Some e ->
  data_payload_ok (u_fragsize u) (firstn (N.to_nat (ce_len e)) (ce_answer e)) /\
  firstn (N.to_nat (ce_len e)) (ce_answer e) = ce_answer e.
Proof.
  intros Ck H. apply dnscache_scan_some in H. destruct H as (Hin & Hl & _).
  unfold cache_ok in Ck. rewrite Forall_forall in Ck. destruct (Ck e Hin) as [Z|[L D]]; [contradiction|].
  assert (F : firstn (N.to_nat (ce_len e)) (ce_answer e) = ce_answer e) by (rewrite L, Nat2N.id; apply firstn_all).
  rewrite F. split; [exact D|reflexivity].
Qed.

(* ---- every answer of a step ----------------------------------------------------------------------------------- *)

(* an answer is either a control answer, or carries tunnel data for the session its query names,
   cut under that session's fragment size in the state the step started from *)
Definition answer_ok (st : sstate) (o : out) : Prop :=
  is_control o \/
  exists q id to data denc i,
    o = OAnswer q id to data denc /\ nslot c (h_name q) = Some i /\ (i < length st)%nat /\
    data_payload_ok (u_fragsize (getu st i)) data.

Lemma fragsize_mstep_true st o l st' :
  mstep c true st o l st' -> forall i, u_fragsize (getu st' i) = u_fragsize (getu st i).
Proof.
  intros M i. destruct M as [st0 st0' Hl Hf|st0 o0 Hc|st0 i0 w0 u0' o0 ag0 Hk Hi Hid Hs|st0 i0 q0 e0 Hk Hi Hn Ha|st0 i0 mfs0 Hk Hm2 Hm6|st0 i0 now0 q0 seed0 Hk]; try reflexivity; try discriminate.
  - destruct (Hf i) as [R _]. unfold rview in R. inversion R. reflexivity.
  - rewrite getu_upd. destruct ((i0 =? i)%nat && (i0 <? length st0)%nat) eqn:E; [|reflexivity].
    apply andb_prop in E. destruct E as [E _]. apply Nat.eqb_eq in E. subst i0.
    destruct (emit_cache _ _ _ _ _ Hs) as (_ & _ & F). exact F.
Qed.

Lemma answers_mstep_true st o l st' :
  mstep c true st o l st' -> sinv c st -> Forall (answer_ok st) o.
Proof.
  intros M Hinv. destruct M as [st0 st0' Hl Hf|st0 o0 Hc|st0 i0 w0 u0' o0 ag0 Hk Hi Hid Hs|st0 i0 q0 e0 Hk Hi Hn Ha|st0 i0 mfs0 Hk Hm2 Hm6|st0 i0 now0 q0 seed0 Hk]; try discriminate.
  - constructor.
  - apply Forall_forall. intros x Hx. left. rewrite Forall_forall in Hc. apply Hc, Hx.
  - destruct (emit_bound _ _ _ _ _ Hs) as (pktb & Hp & Ho & _).
    destruct (Hinv i0) as (_ & _ & Hh).
    assert (Hn : nslot c (h_name (getq (getu st0 i0) w0)) = Some i0).
    { destruct Hh as [A B]. destruct w0; [apply A|apply B]; exact Hid. }
    apply Forall_forall. intros x Hx. rewrite Forall_forall in Ho. destruct (Ho x Hx) as (id & to & ->).
    right. exists (getq (getu st0 i0) w0), id, to, pktb, (u_downenc (getu st0 i0)), i0. repeat split; assumption.
  - constructor; [|constructor]. right.
    destruct (Hinv i0) as (_ & Ck & _). destruct (replay_bound _ _ _ _ Ck Ha) as [D _].
    unfold mk_answer. eexists q0, (h_id q0), (h_from q0), _, _, i0. repeat split; try eassumption.
Qed.

Lemma answer_ok_same_frag st st' x :
  length st' = length st -> (forall i, u_fragsize (getu st' i) = u_fragsize (getu st i)) -> answer_ok st' x -> answer_ok st x.
Proof.
  intros L F [H|(q & id & to & data & denc & i & E & Hn & Hi & D)]; [left; exact H|].
  right. exists q, id, to, data, denc, i. rewrite <- (F i), <- L. repeat split; assumption.
Qed.

Lemma mstep_length k st o l st' : mstep c k st o l st' -> length st' = length st.
Proof. intros M. destruct M as [st0 st0' Hl Hf|st0 o0 Hc|st0 i0 w0 u0' o0 ag0 Hk Hi Hid Hs|st0 i0 q0 e0 Hk Hi Hn Ha|st0 i0 mfs0 Hk Hm2 Hm6|st0 i0 now0 q0 seed0 Hk]; try reflexivity; try assumption; apply upd_length. Qed.

Lemma answers_msteps_true st o l st' :
  msteps c true st o l st' -> sinv c st -> Forall (answer_ok st) o.
Proof.
  intros M. induction M as [st|st o1 l1 st1 o2 l2 st2 M1 M2 IH]; intros Hinv; [constructor|].
  apply Forall_app. split; [eapply answers_mstep_true; eassumption|].
  assert (H1 : sinv c st1) by (eapply sinv_mstep; eassumption).
  specialize (IH H1). apply Forall_forall. intros x Hx. rewrite Forall_forall in IH.
  eapply answer_ok_same_frag; [eapply mstep_length, M1|eapply fragsize_mstep_true, M1|apply IH, Hx].
Qed.

Lemma answers_msteps_false st o l st' :
  msteps c false st o l st' -> Forall is_control o.
Proof.
  intros M. induction M as [st|st o1 l1 st1 o2 l2 st2 M1 M2 IH]; [constructor|].
  apply Forall_app. split; [|exact IH].
  destruct M1 as [st0 st0' Hl Hf|st0 o0 Hc|st0 i0 w0 u0' o0 ag0 Hk Hi Hid Hs|st0 i0 q0 e0 Hk Hi Hn Ha|st0 i0 mfs0 Hk Hm2 Hm6|st0 i0 now0 q0 seed0 Hk]; try discriminate; try constructor; assumption.
Qed.

Theorem step_answers_ok st e :
  sinv c st -> Forall (answer_ok st) (snd (step login zc unz c st e)).
Proof.
  intros H. destruct (step_refines login zc unz c st e) as [[l M]|[l M]].
  - eapply answers_msteps_true; eassumption.
  - apply answers_msteps_false in M. apply Forall_forall. intros x Hx. left. rewrite Forall_forall in M. apply M, Hx.
Qed.

(* the fragment size of a session only changes in configuration steps, to an accepted N value
   (2..65535) or to the V handler's 100 *)
Lemma fragsize_msteps_true st o l st' :
  msteps c true st o l st' -> forall i, u_fragsize (getu st' i) = u_fragsize (getu st i).
Proof.
  intros M. induction M as [st|st o1 l1 st1 o2 l2 st2 M1 M2 IH]; intros i; [reflexivity|].
  rewrite IH. eapply fragsize_mstep_true, M1.
Qed.

Lemma fragsize_msteps_false st o l st' :
  msteps c false st o l st' -> forall i,
  u_fragsize (getu st' i) = u_fragsize (getu st i) \/ 2 <= u_fragsize (getu st' i) < 65536 \/ u_fragsize (getu st' i) = 100.
Proof.
  intros M. induction M as [st|st o1 l1 st1 o2 l2 st2 M1 M2 IH]; intros i; [left; reflexivity|].
  destruct (IH i) as [E|[E|E]]; [|right; left; exact E|right; right; exact E]. rewrite E. clear IH E M2.
  destruct M1 as [st0 st0' Hl Hf|st0 o0 Hc|st0 i0 w0 u0' o0 ag0 Hk Hi Hid Hs|st0 i0 q0 e0 Hk Hi Hn Ha|st0 i0 mfs0 Hk Hm2 Hm6|st0 i0 now0 q0 seed0 Hk]; try discriminate; try (left; reflexivity).
  - left. destruct (Hf i) as [R _]. unfold rview in R. inversion R. reflexivity.
  - rewrite getu_upd. destruct ((i0 =? i)%nat && (i0 <? length st0)%nat); [|left; reflexivity].
    right. left. unfold n_accept. cbn. lia.
  - rewrite getu_upd. destruct ((i0 =? i)%nat && (i0 <? length st0)%nat); [|left; reflexivity].
    right. right. reflexivity.
Qed.

Theorem step_fragsize st e i :
  let st' := fst (step login zc unz c st e) in
  u_fragsize (getu st' i) = u_fragsize (getu st i) \/ 2 <= u_fragsize (getu st' i) < 65536 \/ u_fragsize (getu st' i) = 100.
Proof.
  cbv zeta. destruct (step_refines login zc unz c st e) as [[l M]|[l M]].
  - left. eapply fragsize_msteps_true, M.
  - eapply fragsize_msteps_false, M.
Qed.

End Reach.
