(* LoginGlueProofs.v -- lemmas about LoginGlue.v: the version reply the server builds carries the
   challenge big-endian in bytes 4..7; the client's reassembly recovers exactly the server's int
   for all 2^32 challenges, without undefined behaviour; hence the client's DNS login and raw
   login are the ones the server computes.

   The only places that look at the numbers read from the source are [srv_consts] (structural,
   by reflexivity) and [cli_check] (by computation over all 256 patterns of each of the four
   bytes: operand k of the client's expression must contribute exactly b * 2^(24-8k) and be
   free of undefined behaviour, whatever combination of masks and casts achieves that). *)
From Coq Require Import List NArith ZArith Arith Bool Lia ZifyBool ZifyNat ZifyN.
From Iodine Require Import Base Generated.SrcConsts Md5 Login LoginProofs LoginGlue.
Import ListNotations.
Local Open Scope N_scope.

Ltac Zify.zify_post_hook ::= Z.div_mod_to_equations.

(* --- conversions ---------------------------------------------------------------------------- *)
Lemma u32_int_roundtrip s : s < 4294967296 -> u32_of_Z (int_of_u32 s) = s.
Proof.
  intros H. unfold u32_of_Z, int_of_u32.
  destruct (N.ltb_spec s 2147483648); lia.
Qed.

Lemma int_of_u32_range s : s < 4294967296 ->
  (-2147483648 <= int_of_u32 s < 2147483648)%Z.
Proof. intros H. unfold int_of_u32. destruct (N.ltb_spec s 2147483648); lia. Qed.

Lemma int_u32_roundtrip z : (-2147483648 <= z < 2147483648)%Z -> int_of_u32 (u32_of_Z z) = z.
Proof.
  intros H. unfold u32_of_Z, int_of_u32.
  destruct (N.ltb_spec (Z.to_N (z mod 4294967296)) 2147483648); lia.
Qed.

Lemma u32_of_Z_lt z : u32_of_Z z < 4294967296.
Proof. unfold u32_of_Z. lia. Qed.

Lemma char_store_small v : v < 256 -> char_store (Z.of_N v) = v.
Proof. intros H. unfold char_store. lia. Qed.

Lemma land_255 x : N.land x 255 = x mod 256.
Proof. change 255 with (N.ones 8). rewrite N.land_ones. reflexivity. Qed.

Lemma shiftr_div x k : N.shiftr x k = x / 2 ^ k.
Proof. apply N.shiftr_div_pow2. Qed.

(* --- server --------------------------------------------------------------------------------- *)
Lemma srv_consts :
  src_VACK_SRV_OUTLEN = 9 /\ src_VACK_SRV_TAG = vack_tag /\
  src_VACK_SRV_IDX = [4; 5; 6; 7] /\ src_VACK_SRV_SHIFT = [24; 16; 8; 0] /\
  src_VACK_SRV_MASK = [255; 255; 255; 255] /\
  src_VACK_SRV_UID_IDX = 8 /\ src_VACK_SRV_UID_MASK = 255.
Proof. repeat split; reflexivity. Qed.

Lemma srv_byte s k : char_store (Z.of_N (N.land (N.shiftr s k) 255)) = (s / 2 ^ k) mod 256.
Proof.
  rewrite land_255, shiftr_div. apply char_store_small. apply N.mod_lt. discriminate.
Qed.

Lemma zland_255_small u : u < 256 -> Z.land (Z.of_N u) 255 = Z.of_N u.
Proof.
  intros Hu. apply Z.eqb_eq.
  apply (sweep1 (fun u => (Z.land (Z.of_N u) 255 =? Z.of_N u)%Z) 256); [vm_compute; reflexivity|exact Hu].
Qed.

Lemma srv_version_out_spec s u : u < 256 ->
  srv_version_out vack_tag s (Z.of_N u) = vack_tag ++ be32 s ++ [u].
Proof.
  intros Hu. unfold srv_version_out.
  destruct srv_consts as [E1 [_ [E3 [E4 [E5 [E6 E7]]]]]].
  rewrite E1, E3, E4, E5, E6, E7.
  change (padn (N.to_nat 9) vack_tag) with [86; 65; 67; 75; 0; 0; 0; 0; 0].
  cbn [combine fold_left srv_store]. change (N.to_nat 4) with 4%nat. change (N.to_nat 5) with 5%nat.
  change (N.to_nat 6) with 6%nat. change (N.to_nat 7) with 7%nat. change (N.to_nat 8) with 8%nat.
  cbn [upd].
  rewrite !srv_byte. change (2 ^ 24) with 16777216. change (2 ^ 16) with 65536.
  change (2 ^ 8) with 256. change (2 ^ 0) with 1. rewrite N.div_1_r.
  change (Z.of_N 255) with 255%Z. rewrite (zland_255_small u Hu), (char_store_small u Hu).
  reflexivity.
Qed.

Lemma srv_version_reply_spec s u : s < 4294967296 -> u < 256 ->
  srv_version_reply (int_of_u32 s) (Z.of_N u) = vack_tag ++ be32 s ++ [u].
Proof.
  intros Hs Hu. unfold srv_version_reply.
  destruct srv_consts as [_ [E2 _]]. rewrite E2, u32_int_roundtrip by exact Hs.
  apply srv_version_out_spec, Hu.
Qed.

(* --- client: the check of the source's expression --------------------------------------------- *)
Definition term_ok (t : vterm) (i sh : N) : bool :=
  (t_idx t =? i) &&
  forallb (fun b => (term_u32 t b =? b * 2 ^ sh) && term_defined t b) (nrange 256).

Definition cli_okb : bool :=
  match cli_terms with
  | [t0; t1; t2; t3] => term_ok t0 4 24 && term_ok t1 5 16 && term_ok t2 6 8 && term_ok t3 7 0
  | _ => false
  end
  && (src_VACK_CLI_MINLEN =? 9) && (src_VACK_CLI_UID_IDX =? 8)
  && forallb (fun b => (char_val cli_signed b =? Z.of_N b)%Z) (nrange 128).

(* fails (by computation) as soon as one operand of the client's expression does not deliver
   its byte at its place for every pattern, e.g. a sign-extended in[7] *)
Lemma cli_check : cli_okb = true.
Proof. vm_compute. reflexivity. Qed.

Lemma term_ok_spec t i sh : term_ok t i sh = true ->
  t_idx t = i /\ forall b, b < 256 -> term_u32 t b = b * 2 ^ sh /\ term_defined t b = true.
Proof.
  unfold term_ok. intros H. apply andb_true_iff in H. destruct H as [H1 H2].
  split; [apply N.eqb_eq, H1|]. intros b Hb.
  pose proof (sweep1 _ 256 H2 b Hb) as H3. cbv beta in H3.
  apply andb_true_iff in H3. destruct H3 as [H3 H4]. split; [apply N.eqb_eq, H3|exact H4].
Qed.

(* --- lor of disjoint bit ranges is a sum -------------------------------------------------------- *)
Lemma lor_add_disjoint c a k : a < 2 ^ k -> N.lor (c * 2 ^ k) a = c * 2 ^ k + a.
Proof.
  intros Ha.
  assert (Hl : N.land (c * 2 ^ k) a = 0).
  { apply N.bits_inj_0. intros n. rewrite N.land_spec.
    destruct (N.lt_ge_cases n k) as [Hn|Hn].
    - rewrite N.mul_pow2_bits_low by exact Hn. reflexivity.
    - rewrite <- (N.mod_small a (2 ^ k)) by exact Ha.
      rewrite N.mod_pow2_bits_high by exact Hn. apply andb_false_r. }
  rewrite <- N.lxor_lor by exact Hl. symmetry. apply N.add_nocarry_lxor, Hl.
Qed.

Lemma lor_sum4 b3 b2 b1 b0 : b3 < 256 -> b2 < 256 -> b1 < 256 -> b0 < 256 ->
  N.lor (N.lor (N.lor (N.lor 0 (b3 * 2 ^ 24)) (b2 * 2 ^ 16)) (b1 * 2 ^ 8)) (b0 * 2 ^ 0) =
  16777216 * b3 + 65536 * b2 + 256 * b1 + b0.
Proof.
  intros H3 H2 H1 H0. rewrite N.lor_0_l.
  rewrite (lor_add_disjoint b3 (b2 * 2 ^ 16) 24) by (change (2 ^ 16) with 65536; change (2 ^ 24) with 16777216; lia).
  replace (b3 * 2 ^ 24 + b2 * 2 ^ 16) with ((b3 * 256 + b2) * 2 ^ 16)
    by (change (2 ^ 16) with 65536; change (2 ^ 24) with 16777216; lia).
  rewrite (lor_add_disjoint _ (b1 * 2 ^ 8) 16) by (change (2 ^ 16) with 65536; change (2 ^ 8) with 256; lia).
  replace ((b3 * 256 + b2) * 2 ^ 16 + b1 * 2 ^ 8) with (((b3 * 256 + b2) * 256 + b1) * 2 ^ 8)
    by (change (2 ^ 16) with 65536; change (2 ^ 8) with 256; lia).
  rewrite (lor_add_disjoint _ (b0 * 2 ^ 0) 8) by (change (2 ^ 0) with 1; change (2 ^ 8) with 256; lia).
  change (2 ^ 0) with 1. change (2 ^ 8) with 256. lia.
Qed.

Lemma be32_value s : s < 4294967296 ->
  16777216 * ((s / 16777216) mod 256) + 65536 * ((s / 65536) mod 256)
  + 256 * ((s / 256) mod 256) + s mod 256 = s.
Proof. intros H. lia. Qed.

(* --- client: reassembly ----------------------------------------------------------------------- *)
Lemma cli_payload_spec (pre : list N) b3 b2 b1 b0 (rest : list N) :
  length pre = 4%nat -> b3 < 256 -> b2 < 256 -> b1 < 256 -> b0 < 256 ->
  cli_payload (pre ++ b3 :: b2 :: b1 :: b0 :: rest) = 16777216 * b3 + 65536 * b2 + 256 * b1 + b0 /\
  cli_payload_defined (pre ++ b3 :: b2 :: b1 :: b0 :: rest) = true.
Proof.
  intros Hp H3 H2 H1 H0.
  destruct pre as [|p0 [|p1 [|p2 [|p3 [|]]]]]; try discriminate Hp. clear Hp.
  pose proof cli_check as Hc. unfold cli_okb in Hc.
  unfold cli_payload, cli_payload_defined.
  destruct cli_terms as [|t0 [|t1 [|t2 [|t3 [|]]]]]; try discriminate Hc.
  apply andb_true_iff in Hc. destruct Hc as [Hc _].
  apply andb_true_iff in Hc. destruct Hc as [Hc _].
  apply andb_true_iff in Hc. destruct Hc as [Hc _].
  apply andb_true_iff in Hc. destruct Hc as [Hc T3].
  apply andb_true_iff in Hc. destruct Hc as [Hc T2].
  apply andb_true_iff in Hc. destruct Hc as [T0 T1].
  apply term_ok_spec in T0, T1, T2, T3.
  destruct T0 as [I0 T0], T1 as [I1 T1], T2 as [I2 T2], T3 as [I3 T3].
  cbn [fold_left forallb]. rewrite I0, I1, I2, I3.
  unfold in_at. change (N.to_nat 4) with 4%nat. change (N.to_nat 5) with 5%nat.
  change (N.to_nat 6) with 6%nat. change (N.to_nat 7) with 7%nat.
  cbn [app nth].
  destruct (T0 b3 H3) as [-> ->]. destruct (T1 b2 H2) as [-> ->].
  destruct (T2 b1 H1) as [-> ->]. destruct (T3 b0 H0) as [-> ->].
  split; [apply lor_sum4; assumption|reflexivity].
Qed.

Lemma be32_bytes_lt s :
  (s / 16777216) mod 256 < 256 /\ (s / 65536) mod 256 < 256 /\ (s / 256) mod 256 < 256 /\ s mod 256 < 256.
Proof. repeat split; apply N.mod_lt; discriminate. Qed.

Lemma cli_consts : src_VACK_CLI_MINLEN = 9 /\ src_VACK_CLI_UID_IDX = 8 /\
  forall u, u < 128 -> char_val cli_signed u = Z.of_N u.
Proof.
  pose proof cli_check as Hc. unfold cli_okb in Hc.
  apply andb_true_iff in Hc. destruct Hc as [Hc U].
  apply andb_true_iff in Hc. destruct Hc as [Hc I].
  apply andb_true_iff in Hc. destruct Hc as [_ M].
  split; [apply N.eqb_eq, M|]. split; [apply N.eqb_eq, I|].
  intros u Hu. pose proof (sweep1 _ 128 U u Hu) as H. cbv beta in H. apply Z.eqb_eq, H.
Qed.

(* handshake_version on the reply "VACK" ++ be32 s ++ [u] ++ anything *)
Lemma cli_version_spec s u (rest : list N) : s < 4294967296 -> u < 128 ->
  cli_version (vack_tag ++ be32 s ++ [u] ++ rest) = Some (int_of_u32 s, Z.of_N u) /\
  cli_payload_defined (vack_tag ++ be32 s ++ [u] ++ rest) = true.
Proof.
  intros Hs Hu. destruct cli_consts as [EM [EI EU]].
  destruct (be32_bytes_lt s) as [B3 [B2 [B1 B0]]].
  unfold be32. cbn [app].
  change (86 :: 65 :: 67 :: 75 :: (s / 16777216) mod 256 :: (s / 65536) mod 256 :: (s / 256) mod 256 :: s mod 256 :: u :: rest)
    with (vack_tag ++ (s / 16777216) mod 256 :: (s / 65536) mod 256 :: (s / 256) mod 256 :: s mod 256 :: u :: rest).
  destruct (cli_payload_spec vack_tag _ _ _ _ (u :: rest) eq_refl B3 B2 B1 B0) as [P D].
  split; [|exact D].
  unfold cli_version. rewrite P, EM, EI, (be32_value s Hs).
  rewrite app_length. cbn [length vack_tag].
  destruct (N.ltb_spec (N.of_nat (4 + S (S (S (S (S (length rest))))))) 9) as [Hl|_]; [lia|].
  cbn [app firstn vack_tag]. change (bytes_eqb [86; 65; 67; 75] [86; 65; 67; 75]) with true. cbv iota.
  unfold in_at. change (N.to_nat 8) with 8%nat. cbn [nth].
  rewrite (EU u Hu). reflexivity.
Qed.

(* --- the round trip: server's reply into client's handshake_version --------------------------- *)
Lemma version_roundtrip s u : s < 4294967296 -> u < 128 ->
  srv_version_reply (int_of_u32 s) (Z.of_N u) = vack_tag ++ be32 s ++ [u] /\
  cli_version (srv_version_reply (int_of_u32 s) (Z.of_N u)) = Some (int_of_u32 s, Z.of_N u) /\
  cli_payload_defined (srv_version_reply (int_of_u32 s) (Z.of_N u)) = true.
Proof.
  intros Hs Hu.
  assert (Hu' : u < 256) by lia.
  rewrite (srv_version_reply_spec s u Hs Hu').
  split; [reflexivity|].
  pose proof (cli_version_spec s u [] Hs Hu) as H. rewrite app_nil_r in H. exact H.
Qed.

(* stated on the server's C int: any int seed (rand() gives 0 .. 2^31-1, the proof needs no bound
   beyond the type) *)
Lemma version_roundtrip_int (seed : Z) u : (-2147483648 <= seed < 2147483648)%Z -> u < 128 ->
  cli_version (srv_version_reply seed (Z.of_N u)) = Some (seed, Z.of_N u) /\
  cli_payload_defined (srv_version_reply seed (Z.of_N u)) = true /\
  firstn 4 (skipn 4 (srv_version_reply seed (Z.of_N u))) = be32 (u32_of_Z seed).
Proof.
  intros Hz Hu. pose proof (u32_of_Z_lt seed) as Hs.
  destruct (version_roundtrip (u32_of_Z seed) u Hs Hu) as [R [V D]].
  rewrite (int_u32_roundtrip seed Hz) in R, V, D.
  split; [exact V|]. split; [exact D|]. rewrite R. reflexivity.
Qed.

(* --- composition with the login --------------------------------------------------------------- *)
Lemma handshake_login_agrees p (seed : Z) u : (-2147483648 <= seed < 2147483648)%Z -> u < 128 ->
  exists cseed cuid,
    cli_version (srv_version_reply seed (Z.of_N u)) = Some (cseed, cuid) /\
    cseed = seed /\ cuid = Z.of_N u /\
    cli_dns_login p cseed = srv_dns_login p seed /\
    srv_login_accepts p seed (cli_dns_login p cseed) = true /\
    (bytes_ok p ->
       cli_dns_login p cseed = md5 (map2 N.lxor (pad32 p) (rep8 (be32 (u32_of_Z seed))))) /\
    cli_raw_login p cseed = raw_login_up p (u32_of_Z seed) /\
    cli_raw_login p cseed = login_calculate p ((u32_of_Z seed + 1) mod 2 ^ 32) /\
    raw_server p (u32_of_Z seed) (cli_raw_login p cseed) = Some (raw_login_down p (u32_of_Z seed)) /\
    cli_raw_accepts p cseed (raw_login_down p (u32_of_Z seed)) = true /\
    raw_login_down p (u32_of_Z seed) = login_calculate p ((u32_of_Z seed + 2 ^ 32 - 1) mod 2 ^ 32).
Proof.
  intros Hz Hu. destruct (version_roundtrip_int seed u Hz Hu) as [V _].
  exists seed, (Z.of_N u). split; [exact V|]. split; [reflexivity|]. split; [reflexivity|].
  pose proof (u32_of_Z_lt seed) as Hs.
  split; [reflexivity|].
  split.
  { unfold srv_login_accepts, cli_dns_login, srv_dns_login, login_calculate.
    rewrite firstn_all2 by (rewrite md5_length; lia). apply bytes_eqb_refl. }
  split.
  { intros Hp. unfold cli_dns_login, login_calculate. rewrite (login_block_doc p _ Hp). reflexivity. }
  split; [reflexivity|].
  split; [reflexivity|].
  split; [apply raw_server_accepts|].
  split; [apply raw_client_accepts_down|].
  unfold raw_login_down, seed_pred. change (2 ^ 32) with M32.
  rewrite (N.mod_small (u32_of_Z seed) M32) by exact Hs. reflexivity.
Qed.

(* --- sensitivity: what the check above excludes ------------------------------------------------ *)
(* the last operand without its mask: a signed in[7] >= 0x80 sets the upper 24 bits *)
Lemma unmasked_low_byte_sign_extends :
  let t := {| t_idx := 7; t_masked := false; t_mask := 0; t_cast := false; t_shift := 0 |} in
  cli_signed = true /\
  term_u32 t 128 = 4294967168 (* 0xFFFFFF80 *) /\
  (forall b, b < 128 -> term_u32 t b = b) /\
  term_ok t 7 0 = false.
Proof.
  cbv zeta. split; [reflexivity|]. split; [vm_compute; reflexivity|]. split.
  - intros b Hb. apply N.eqb_eq.
    apply (sweep1 (fun b => term_u32 {| t_idx := 7; t_masked := false; t_mask := 0; t_cast := false; t_shift := 0 |} b =? b) 128);
      [vm_compute; reflexivity|exact Hb].
  - vm_compute. reflexivity.
Qed.

(* the first operand without its (uint32_t) cast: same value under gcc, but an int shift into
   the sign bit (undefined) for every challenge >= 2^31 *)
Lemma uncast_high_byte_undefined :
  let t := {| t_idx := 4; t_masked := true; t_mask := 255; t_cast := false; t_shift := 24 |} in
  term_u32 t 128 = 2147483648 /\ term_defined t 128 = false /\ term_defined t 127 = true /\
  term_ok t 4 24 = false.
Proof. cbv zeta. repeat split; vm_compute; reflexivity. Qed.
