(* ResidueSteps.v -- C12, state-machine part: the server's and the client's reaction to a received
   datagram, stated over the receive BUFFER (datagram bytes followed by an arbitrary residue) and
   the length recvmsg()/recvfrom() returned, is the reaction of the datagram-level models of
   Server.v / Client.v to the datagram alone.

   How raw frames are modelled.  Server.raw_decode, Server.recv_datagram, Client.raw_recv and
   Client.tunnel_dns take the datagram as a list [packet] of exactly the received bytes.  For the
   raw (non-DNS) frames this abstracts the following reads of the C, all of them inside
   packet[0..len):
     iodined.c raw_decode(packet, len):   `if (len < RAW_HDR_LEN) return 0` first, then
         memcmp(packet, raw_header, RAW_HDR_IDENT_LEN) (bytes 0..2), RAW_HDR_GET_USR/CMD(packet)
         (byte 3), and the handlers get `&packet[RAW_HDR_LEN]` together with `len - RAW_HDR_LEN`:
         handle_raw_login compares 16 bytes only after `if (len < 16) return`, handle_raw_data does
         memcpy(users[userid].inpacket.data, packet, len), handle_raw_ping reads nothing.
     client.c read_dns_withq, CONN_RAW_UDP branch:  `if (r < RAW_HDR_LEN) return 0`, memcmp of
         3 bytes, data[3], then uncompress(..., &data[RAW_HDR_LEN], r - RAW_HDR_LEN).
   [raw_view buf plen = firstn plen buf] is that view of the buffer; the theorems below are stated
   for buffer-level wrappers ([recv_buffer], [tunnel_dns_buf]) in which the DNS decoders really
   receive the whole buffer (as the C passes its 64 KB array and r), so they are not vacuous: they
   rest on ResidueProofs.dns_decode_query_agree / client_extract_agree.  That the C's raw path does
   not read packet[len..] is a fact about the code, checked by running the real dispatcher with
   different residues (checks/c12.py, history variants). *)
From Coq Require Import List NArith ZArith Arith Bool Lia.
From RecordUpdate Require Import RecordUpdate.
From Iodine Require Import Generated.SrcConsts Base Codec Hostname DnsName DnsMsg Server Client ResidueProofs.
Import ListNotations.
Local Open Scope N_scope.

Definition raw_view (buf : list N) (plen : nat) : list N := firstn plen buf.

Lemma raw_view_app dat res : raw_view (dat ++ res) (length dat) = dat.
Proof.
  unfold raw_view. rewrite firstn_app, Nat.sub_diag, firstn_all. simpl. apply app_nil_r.
Qed.

Lemma raw_view_agree n b1 b2 : agree n b1 b2 -> (n <= length b1)%nat -> (n <= length b2)%nat ->
  raw_view b1 n = raw_view b2 n.
Proof.
  unfold raw_view, agree, rb. revert b1 b2. induction n as [|n IH]; intros b1 b2 Ha H1 H2; [reflexivity|].
  destruct b1 as [|x b1]; [simpl in H1; lia|]. destruct b2 as [|y b2]; [simpl in H2; lia|].
  simpl. f_equal.
  - apply (Ha 0%nat). lia.
  - apply IH; [|simpl in H1; lia|simpl in H2; lia]. intros i Hi. apply (Ha (S i)). lia.
Qed.

(* ---- server ------------------------------------------------------------------------------------ *)
Section ServerStep.
Variable login : list N -> N -> list N.
Variable unz : list N -> option (list N).

(* read_dns + tunnel_dns of iodined.c on the receive buffer: r = plen > 0, raw_decode(packet, r),
   then dns_decode(NULL, 0, q, QR_QUERY, packet, r) on the whole buffer *)
Definition recv_buffer (c : cfg) (st : sstate) (now rnd : N) (from : addr) (dest : option (list N))
           (buf : list N) (plen : nat) : sstate * list out :=
  match plen with
  | O => (st, [])
  | S _ =>
    match Server.raw_decode login unz c st now (raw_view buf plen) from with
    | Some r => r
    | None =>
        let r := dns_decode_query buf plen in
        match dq_q r with
        | Some q =>
            if (0 <? dq_rv r)%Z
            then Server.tunnel_dns login unz c st now rnd
                   {| h_name := q_name q; h_type := q_type q; h_id := q_id q; h_from := from;
                      h_id2 := 0; h_from2 := addr0; h_dest := dest |}
            else (st, [])
        | None => (st, [])
        end
    end
  end.

Lemma recv_buffer_datagram c st now rnd from dest dat res :
  recv_buffer c st now rnd from dest (dat ++ res) (length dat) =
  Server.recv_datagram login unz c st now rnd from dest dat.
Proof.
  unfold recv_buffer, Server.recv_datagram.
  rewrite raw_view_app.
  rewrite (dns_decode_query_agree (dat ++ res) dat (length dat) (agree_app_nil dat res)).
  destruct dat; reflexivity.
Qed.

Lemma recv_buffer_residue_free c st now rnd from dest dat res1 res2 :
  recv_buffer c st now rnd from dest (dat ++ res1) (length dat) =
  recv_buffer c st now rnd from dest (dat ++ res2) (length dat).
Proof. rewrite !recv_buffer_datagram. reflexivity. Qed.

(* the question sections echoed by the answers of a step, and where they are sent *)
Definition echoed (o : out) : option (list N * N * N * addr) :=
  match o with
  | OAnswer q id to _ _ => Some (h_name q, h_type q, id, to)
  | _ => None
  end.

End ServerStep.

(* ---- client ------------------------------------------------------------------------------------ *)
Section ClientStep.
Variable unz : list N -> option (list N).

(* the body of Client.tunnel_dns after read_dns_withq returned, as a function of the decode result
   (copied from Client.v; tunnel_dns_unfold below checks by reflexivity that it is the same term) *)
Definition tunnel_dns_core (s0 : cstate) (now : N) (r : da_result) : cstate * list cout :=
  let read := da_rv r in
  let buf := da_out r in
  let name0 := match da_name0 r with Some c => c | None => 0 end in
  let qid := match da_id r with Some i => i | None => 0 end in
  let '(uc1, uc2) := userid_chars (c_userid s0) in
  if negb ((name0 =? 80) || (name0 =? 112) || (name0 =? uc1) || (name0 =? uc2)) then
    (s0 <| c_ping_soon := 700 |>, [])
  else if (read <? 2)%Z then
    let s1 :=
      if (read <? 0)%Z && (da_rcode r =? 2) && c_lazy s0 && (1 <? c_selecttimeout s0) then
        if (c_packrecv s0 <? 500) && (c_servfail s0 <? 4) then s0 <| c_servfail := c_servfail s0 + 1 |>
        else if (c_packrecv s0 <? 500) && (c_servfail s0 =? 4)
             then s0 <| c_servfail := c_servfail s0 + 1 |> <| c_selecttimeout := 1 |> <| c_sendcnt := 0%Z |> <| c_recvcnt := 0%Z |>
        else if (500 <=? c_packrecv s0) && (0 <? c_servfail s0) then s0 <| c_servfail := 0 |>
        else s0
      else s0 in
    (s1 <| c_ping_soon := 900 |>, [])
  else if (read =? 5)%Z && Client.list_eqb (firstn 5 buf) [66;65;68;73;80] then (s0, [])
  else
    let '(s1, now_flag) := if negb (c_ping_soon s0 =? 0) then (s0 <| c_ping_soon := 0 |>, true) else (s0, false) in
    let b0 := nth 0 buf 0 in
    let b1 := nth 1 buf 0 in
    let new_down_seqno := (b1 / 32) mod 8 in
    let new_down_fragment := (b1 / 2) mod 16 in
    let up_ack_seqno := (b0 / 16) mod 8 in
    let up_ack_fragment := b0 mod 16 in
    let lastflag := (b1 mod 2) =? 1 in
    let '(s2, read2) :=
      if (2 <? read)%Z && negb (new_down_seqno =? k_seqno (c_in s1)) && Client.recent_seqno (k_seqno (c_in s1)) new_down_seqno
      then (s1 <| c_ping_soon := 500 |>, 2%Z) else (s1, read) in
    let s3 := (if c_packrecv s2 / 16777216 mod 2 =? 0 then s2 <| c_packrecv := c_packrecv s2 + 1 |> else s2)
                <| c_recvcnt := (c_recvcnt s2 + 1)%Z |> in
    if negb ((qid =? c_chunkid s3) || (qid =? c_prev s3) || (qid =? c_prev2 s3)) then
      let s4 := s3 <| c_packrecv_oos := c_packrecv_oos s3 + 1 |> in
      let s5 := if c_lazy s4 && (c_packrecv s4 <? 1000) && (c_packrecv_oos s4 =? 5)
                then s4 <| c_selecttimeout := 1 |> <| c_sendcnt := 0%Z |> <| c_recvcnt := 0%Z |> else s4 in
      if now_flag then let '(s6, o) := send_ping s5 in (s6 <| c_ping_soon := 0 |>, o) else (s5, [])
    else
      let s4 := s3 <| c_lastdown := now |> in
      let s5 := if (qid =? c_chunkid s4) && c_lazy s4 && ((c_ping_soon s4 =? 0) || (900 <? c_ping_soon s4))
                then s4 <| c_ping_soon := 900 |> else s4 in
      let inp := c_in s5 in
      let s6 := if (read2 =? 2)%Z && negb (new_down_seqno =? k_seqno inp) && negb (Client.recent_seqno (k_seqno inp) new_down_seqno)
                then s5 <| c_in := inp <| k_seqno := new_down_seqno |> <| k_fragment := Z.of_N new_down_fragment |> <| k_len := 0 |> |>
                        <| c_ping_soon := 500 |>
                else s5 in
      let '(s7, outs_tun, now_flag2) :=
        if (2 <? read2)%Z then
          let inp := c_in s6 in
          let frag := Z.of_N new_down_fragment in
          let accept (st : cstate) :=
            let inp1 := (c_in st) <| k_fragment := frag |> in
            let payload := skipn 2 (firstn (Z.to_nat read2) buf) in
            let room := N.to_nat (65536 - k_len inp1) in
            let piece := firstn room payload in
            let data' := firstn (N.to_nat (k_len inp1)) (k_data inp1 ++ repeat 0 (N.to_nat (k_len inp1))) ++ piece in
            let inp2 := inp1 <| k_data := data' |> <| k_len := k_len inp1 + N.of_nat (length piece) |> in
            let '(inp3, tun) :=
              if lastflag then
                (inp2 <| k_len := 0 |>,
                 match unz (firstn (N.to_nat (k_len inp2)) (k_data inp2)) with Some p => [CTun p] | None => [] end)
              else (inp2, []) in
            let st1 := st <| c_in := inp3 |> in
            if k_len inp3 =? 0 then (st1 <| c_ping_soon := 5 |>, tun, now_flag)
            else (st1, tun, true) in
          if negb (new_down_seqno =? k_seqno inp) then
            accept (s6 <| c_in := inp <| k_seqno := new_down_seqno |> <| k_fragment := frag |> <| k_len := 0 |> |>)
          else if (k_fragment inp =? 0)%Z && (new_down_fragment =? 0) && (k_len inp =? 0) then accept s6
          else if (frag <=? k_fragment inp)%Z then (s6 <| c_ping_soon := 500 |>, [], now_flag)
          else if (k_fragment inp + 1 <? frag)%Z then (s6 <| c_ping_soon := 500 |>, [], now_flag)
          else accept s6
        else (s6, [], now_flag) in
      let '(s8, outs_up, now_flag3) :=
        if is_sending s7 then
          let o := c_out s7 in
          if (up_ack_seqno =? k_seqno o) && (Z.of_N up_ack_fragment =? k_fragment o)%Z then
            let o1 := o <| k_offset := k_offset o + k_sentlen o |> in
            if k_len o1 <=? k_offset o1 then
              let st := s7 <| c_out := o1 <| k_offset := 0 |> <| k_len := 0 |> <| k_sentlen := 0 |> |> <| c_resent := 0 |> in
              (if (c_ping_soon st =? 0) || (20 <? c_ping_soon st) then st <| c_ping_soon := 20 |> else st, [], now_flag2)
            else
              let st := s7 <| c_out := o1 <| k_fragment := Client.schar_wrap (k_fragment o1 + 1) |> |> <| c_resent := 0 |> in
              let '(st2, out) := send_chunk st in
              (st2 <| c_ping_soon := 0 |>, out, false)
          else (s7, [], now_flag2)
        else (s7, [], now_flag2) in
      if now_flag3 then
        let '(s9, o) := send_ping s8 in (s9 <| c_ping_soon := 0 |>, outs_tun ++ outs_up ++ o)
      else (s8, outs_tun ++ outs_up).

Lemma tunnel_dns_unfold s0 now d :
  Client.tunnel_dns unz s0 now d =
  if negb (c_dns s0) then Client.raw_recv unz s0 now d
  else tunnel_dns_core s0 now (client_extract (N.to_nat 65536) d (length d)).
Proof.
  unfold Client.tunnel_dns. destruct (negb (c_dns s0)); [reflexivity|].
  generalize (client_extract (N.to_nat 65536) d (length d)). intro r.
  reflexivity.
Qed.

(* tunnel_dns of client.c on the receive buffer: read_dns_withq passes its 64 KB array and r to
   dns_decode (DNS mode) or reads data[0..r) (raw mode) *)
Definition tunnel_dns_buf (s0 : cstate) (now : N) (buf : list N) (plen : nat) : cstate * list cout :=
  if negb (c_dns s0) then Client.raw_recv unz s0 now (raw_view buf plen)
  else tunnel_dns_core s0 now (client_extract (N.to_nat 65536) buf plen).

Lemma tunnel_dns_buf_datagram s0 now dat res :
  tunnel_dns_buf s0 now (dat ++ res) (length dat) = Client.tunnel_dns unz s0 now dat.
Proof.
  rewrite tunnel_dns_unfold. unfold tunnel_dns_buf. rewrite raw_view_app.
  rewrite (client_extract_agree (N.to_nat 65536) (dat ++ res) dat (length dat) (agree_app_nil dat res)).
  reflexivity.
Qed.

Lemma tunnel_dns_buf_residue_free s0 now dat res1 res2 :
  tunnel_dns_buf s0 now (dat ++ res1) (length dat) = tunnel_dns_buf s0 now (dat ++ res2) (length dat).
Proof. rewrite !tunnel_dns_buf_datagram. reflexivity. Qed.

End ClientStep.
