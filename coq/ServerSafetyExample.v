(* ServerSafetyExample.v -- C05, non-vacuity: the hypotheses of the C05 theorems are satisfiable
   on non-trivial values.  A concrete server (3 slots, address check on), a client that completes
   the version + login handshake (built with the model's own client-side builders), and a third
   party that then sends garbage, a ping naming the client's userid, a raw login frame with a wrong
   hash, its own version handshake (it claims slot 1) and a data query: the run is a hostile_run
   for slot 0, so by C05_established_session_survives slot 0 is bit-for-bit unchanged. *)
From Coq Require Import List NArith ZArith Arith Bool Lia.
From Iodine Require Import Generated.SrcConsts Base Codec Hostname DnsName DnsMsg Domain Server
  ServerSafetyProofs ServerSafetyFrame ServerSafetyRun.
Import ListNotations.
Local Open Scope N_scope.

(* the framing codec of the correspondence run satisfies the hypothesis on uncompress *)
Lemma unz_frame_bounded : forall b p, unz_frame b = Some p -> (length p <= K64)%nat.
Proof.
  intros b p. unfold unz_frame. destruct b as [|x b]; [discriminate|].
  destruct (x =? 90) eqn:E; [apply N.eqb_eq in E; subst x|].
  - destruct (length b <=? N.to_nat 65536)%nat eqn:E2; [|discriminate].
    intros H. inversion H; subst. apply Nat.leb_le in E2. exact E2.
  - destruct x as [|x]; [discriminate|].
    repeat (destruct x as [x|x|]; try discriminate).
Qed.

Definition ex_td : list N := [97; 46; 98; 99].                       (* "a.bc" *)
Definition ex_cfg : cfg :=
  {| c_topdomain := ex_td; c_password := []; c_check_ip := true; c_my_ip := 16777226; c_netmask := 27;
     c_mtu := 1200; c_ns_ip := None; c_bind := false |}.
Definition ex_client : addr := {| a_fam := AF_INET; a_ip := [192; 0; 2; 10]; a_port := 4000 |}.
Definition ex_third : addr := {| a_fam := AF_INET; a_ip := [198; 51; 100; 66]; a_port := 53 |}.

Definition ex_query (cmd : N) (id : N) (data : list N) : list N :=
  match packet_name cmd data ex_td 255 with
  | Some (nm, _) => opt_bytes (dns_encode_query buf64k false id T_NULL nm)
  | None => []
  end.

Definition ex_version : list N := ex_query 118 4660 (version_data src_PROTOCOL_VERSION 1).
Definition ex_login : list N := ex_query 108 4661 (login_data 0 (login_stub [] 5) 2).
Definition ex_ping0 : list N := ex_query 112 4662 (ping_data 0 0 0 3).

(* established session in slot 0 *)
Definition ex_st : sstate :=
  fst (run login_stub zc_frame unz_frame ex_cfg (init_state [33554442; 50331658; 67108874])
         [DGram 1000 5 ex_client None ex_version; DGram 1001 0 ex_client None ex_login]).

Lemma ex_established :
  u_active (getu ex_st 0) = true /\ u_auth (getu ex_st 0) = true /\ u_last (getu ex_st 0) = 1001 /\
  u_seed (getu ex_st 0) = 5 /\ length ex_st = 3%nat.
Proof. vm_compute. repeat split. Qed.

Definition ex_hostile : list devent :=
  [ DGram 1002 0 ex_third None [1; 2; 3; 255; 254; 0; 192; 12];                       (* garbage *)
    DGram 1003 7 ex_third None ex_ping0;                                             (* ping naming userid 0 *)
    DGram 1010 9 ex_third None ([16; 209; 158; 16] ++ repeat 7 16);                   (* raw login, wrong hash *)
    DGram 1011 1 ex_third None ex_version;                                           (* its own handshake: claims slot 1 *)
    DGram 1012 3 ex_third None (ex_query 49 4663 [1; 2; 3; 4; 5; 6; 7; 8]);           (* data query as userid 1 *)
    DGram 1061 4 ex_third None (repeat 200 70) ].                                     (* long junk, last second before the time-out *)

Lemma check_auth_all c st now from :
  forallb (fun s => check_auth c st now (Z.of_nat s) from) (seq 0 (length st)) = true ->
  forall s, check_auth c st now (Z.of_nat s) from = true.
Proof.
  intros H s. destruct (Nat.lt_ge_cases s (length st)) as [Hs|Hs].
  - rewrite forallb_forall in H. apply H. apply List.in_seq. lia.
  - unfold check_auth, check_user_and_ip, in_range. rewrite Nat2Z.id.
    assert (E : (s <? length st)%nat = false) by (apply Nat.ltb_ge; exact Hs). rewrite E.
    rewrite andb_false_r. reflexivity.
Qed.

Ltac hostile_dgram :=
  split; [vm_compute; reflexivity|];
  split; [apply check_auth_all; vm_compute; reflexivity|];
  split; [vm_compute; reflexivity|];
  split; [vm_compute; intros Hlt; discriminate Hlt|];
  (intros (Hj & _ & _ & _ & Heq); first [ (vm_compute in Hj; discriminate Hj) | (vm_compute in Heq; discriminate Heq) ]).

Lemma ex_hostile_run : hostile_run login_stub zc_frame unz_frame ex_cfg 0 ex_st ex_hostile.
Proof.
  unfold ex_hostile.
  apply hr_cons; [hostile_dgram|].
  apply hr_cons; [hostile_dgram|].
  apply hr_cons; [hostile_dgram|].
  apply hr_cons; [hostile_dgram|].
  apply hr_cons; [hostile_dgram|].
  apply hr_cons; [hostile_dgram|].
  apply hr_nil.
Qed.

(* the third party did get somewhere: it now owns slot 1 -- and slot 0 is as it was *)
Lemma ex_outcome :
  u_active (getu (fst (run login_stub zc_frame unz_frame ex_cfg ex_st ex_hostile)) 1) = true /\
  nth_error (fst (run login_stub zc_frame unz_frame ex_cfg ex_st ex_hostile)) 0 = nth_error ex_st 0.
Proof.
  split; [vm_compute; reflexivity|]. apply hostile_run_untouched, ex_hostile_run.
Qed.
