(* DnsEmitProofs.v -- C10, emitter side, part 1: names.  What putname writes for a dotted C
   string (labels = strtok tokens), the question section of every message, header bytes,
   and the client's query (dns_encode_query) parsed by the strict parser of DnsWf.v. *)
From Coq Require Import List NArith Arith Bool Lia ZArith ZifyBool ZifyNat ZifyN.
From Iodine Require Import Generated.SrcConsts Base Codec Hostname DnsName DnsMsg DnsWf DnsWfProofs.
Import ListNotations.
Local Open Scope N_scope.

Ltac Zify.zify_post_hook ::= Z.div_mod_to_equations.

(* ---------------------------------------------------------------------------------- *)
(* the quantifier of C10: label lists                                                   *)

Definition label_ok (l : list N) : Prop := (1 <= length l <= 63)%nat /\ ~ In 46 l /\ ~ In 0 l.
Definition wf_labels (ls : list (list N)) : Prop := Forall label_ok ls /\ (wire_len ls <= 255)%nat.
Definition name_of (ls : list (list N)) : list N := dotted ls.

Lemma wf_lens_ok ls : Forall label_ok ls -> lens_ok ls.
Proof. intros H. unfold lens_ok. eapply Forall_impl; [|exact H]. intros l [Hl _]. exact Hl. Qed.

Lemma label_max_63 : label_max = 63%nat.
Proof. reflexivity. Qed.

(* ---------------------------------------------------------------------------------- *)
(* cstr and tokens                                                                      *)

Lemma cstr_nonul s : ~ In 0 s -> cstr s = s.
Proof.
  induction s as [|c s IH]; intros H; [reflexivity|].
  cbn [cstr]. destruct (c =? 0) eqn:E.
  - exfalso. apply H. left. lia.
  - rewrite IH; [reflexivity|]. intros Hin. apply H. right. exact Hin.
Qed.

Lemma cstr_app_nul a b : ~ In 0 a -> cstr (a ++ 0 :: b) = a.
Proof.
  induction a as [|c a IH]; intros H; [reflexivity|].
  cbn [app cstr]. destruct (c =? 0) eqn:E.
  - exfalso. apply H. left. lia.
  - rewrite IH; [reflexivity|]. intros Hin. apply H. right. exact Hin.
Qed.

Lemma dotted_nonul ls : Forall label_ok ls -> ~ In 0 (dotted ls).
Proof.
  induction 1 as [|l r [_ [_ Hl]] Hr IH]; [intros []|].
  cbn [dotted]. destruct r as [|l2 r]; [exact Hl|].
  intros Hin. apply in_app_or in Hin. destruct Hin as [Hin|[Hin|Hin]]; [exact (Hl Hin)|discriminate|exact (IH Hin)].
Qed.

(* a dot-free run is accumulated *)
Lemma tokens_go_run l : forall rest cur, ~ In 46 l ->
  tokens_go (l ++ rest) cur = tokens_go rest (List.rev l ++ cur).
Proof.
  induction l as [|c l IH]; intros rest cur H; [reflexivity|].
  cbn [app tokens_go]. unfold DOTC. destruct (c =? 46) eqn:E.
  - exfalso. apply H. left. lia.
  - rewrite IH by (intros Hin; apply H; right; exact Hin).
    cbn [List.rev]. rewrite <- app_assoc. reflexivity.
Qed.

Lemma tokens_dotted ls : Forall label_ok ls -> tokens (dotted ls) = ls.
Proof.
  unfold tokens. induction 1 as [|l r [Hlen [Hd _]] Hr IH]; [reflexivity|].
  cbn [dotted]. destruct r as [|l2 r].
  - rewrite <- (app_nil_r l) at 1. rewrite tokens_go_run by exact Hd. cbn [tokens_go]. rewrite app_nil_r.
    destruct (List.rev l) eqn:E.
    + apply (f_equal (@length N)) in E. rewrite rev_length in E. cbn in E. lia.
    + rewrite <- E, rev_involutive. reflexivity.
  - rewrite tokens_go_run by exact Hd. cbn [tokens_go]. unfold DOTC. cbn [N.eqb Pos.eqb]. rewrite app_nil_r.
    destruct (List.rev l) eqn:E.
    + apply (f_equal (@length N)) in E. rewrite rev_length in E. cbn in E. lia.
    + rewrite <- E, rev_involutive, IH. reflexivity.
Qed.

(* strtok never yields an empty token, and tokens contain no dot *)
Lemma tokens_go_ok s : forall cur, ~ In 46 cur ->
  Forall (fun w => (1 <= length w)%nat /\ ~ In 46 w) (tokens_go s cur).
Proof.
  induction s as [|c s IH]; intros cur Hc.
  - cbn [tokens_go]. destruct cur as [|x cur]; [constructor|]. constructor; [|constructor].
    split; [rewrite rev_length; cbn; lia|]. intros Hin. apply in_rev in Hin. exact (Hc Hin).
  - cbn [tokens_go]. unfold DOTC. destruct (c =? 46) eqn:E.
    + destruct cur as [|x cur]; [apply IH; intros []|].
      constructor; [|apply IH; intros []].
      split; [rewrite rev_length; cbn; lia|]. intros Hin. apply in_rev in Hin. exact (Hc Hin).
    + apply IH. intros [Hin|Hin]; [lia|exact (Hc Hin)].
Qed.

Lemma tokens_ok s : Forall (fun w => (1 <= length w)%nat /\ ~ In 46 w) (tokens s).
Proof. apply tokens_go_ok. intros []. Qed.

(* total length of the tokens + one separator each never exceeds the string + 1 *)
Fixpoint toklen (ws : list (list N)) : nat :=
  match ws with [] => 0%nat | w :: r => (S (length w) + toklen r)%nat end.

Lemma toklen_wire ws : wire_len ws = S (toklen ws).
Proof. induction ws as [|w r IH]; [reflexivity|]. rewrite wire_len_cons. cbn [toklen]. lia. Qed.

Lemma tokens_go_len s : forall cur,
  (toklen (tokens_go s cur) <= length s + length cur + 1)%nat.
Proof.
  induction s as [|c s IH]; intros cur.
  - cbn [tokens_go]. destruct cur; cbn [toklen length]; [lia|]. rewrite rev_length. cbn [length]. lia.
  - cbn [tokens_go]. destruct (c =? DOTC).
    + destruct cur as [|x cur].
      * specialize (IH []). cbn [length] in *. lia.
      * cbn [toklen]. specialize (IH []). rewrite rev_length. cbn [length] in *. lia.
    + specialize (IH (c :: cur)). cbn [length] in *. lia.
Qed.

Lemma tokens_len s : (toklen (tokens s) <= length s + 1)%nat.
Proof. pose proof (tokens_go_len s []) as H. cbn [length] in H. unfold tokens. lia. Qed.

(* ---------------------------------------------------------------------------------- *)
(* putname                                                                              *)

Lemma putname_go_ok ws : forall left,
  Forall (fun w => (length w <= 63)%nat) ws ->
  (ws = [] \/ (Z.of_nat (toklen ws) - 1 <= left)%Z) ->
  putname_go ws left = Some (enc_name ws).
Proof.
  induction ws as [|w r IH]; intros left Hok Hleft; [reflexivity|].
  inversion Hok as [|? ? Hw Hr]; subst.
  destruct Hleft as [Hl|Hl]; [discriminate|].
  cbn [putname_go toklen] in *. rewrite label_max_63.
  destruct (63 <? length w)%nat eqn:E1; [apply Nat.ltb_lt in E1; lia|].
  destruct (left <? Z.of_nat (length w))%Z eqn:E2; [lia|]. cbn [orb].
  rewrite (IH (left - (Z.of_nat (length w) + 1))%Z Hr).
  - unfold enc_name. cbn [enc_labels app]. rewrite <- app_assoc. reflexivity.
  - destruct r as [|w2 r]; [left; reflexivity|right]. cbn [toklen] in *. lia.
Qed.

Lemma putname_tokens buflen s :
  Forall (fun w => (length w <= 63)%nat) (tokens (cstr s)) -> (length (cstr s) <= buflen)%nat ->
  putname buflen s = Some (enc_name (tokens (cstr s))).
Proof.
  intros Hok Hlen. unfold putname. apply putname_go_ok; [exact Hok|].
  right. pose proof (tokens_len (cstr s)). lia.
Qed.

Lemma dotted_length ls : ls <> [] -> S (S (length (dotted ls))) = wire_len ls.
Proof.
  induction ls as [|l r IH]; [congruence|]. intros _.
  rewrite wire_len_cons. destruct r as [|l2 r]; [cbn; lia|].
  cbn [dotted]. rewrite app_length. cbn [length].
  assert (Hne : l2 :: r <> []) by discriminate. specialize (IH Hne). cbn [dotted] in IH. lia.
Qed.

Lemma dotted_length_le ls : (length (dotted ls) <= wire_len ls)%nat.
Proof.
  destruct ls as [|l r]; [cbn; lia|].
  assert (Hne : l :: r <> []) by discriminate. pose proof (dotted_length _ Hne). lia.
Qed.

Lemma putname_name_of buflen ls : Forall label_ok ls -> (wire_len ls <= buflen)%nat ->
  putname buflen (name_of ls) = Some (enc_name ls).
Proof.
  intros Hok Hlen. unfold name_of.
  pose proof (cstr_nonul _ (dotted_nonul ls Hok)) as Hc.
  pose proof (tokens_dotted ls Hok) as Ht.
  rewrite putname_tokens; rewrite ?Hc, ?Ht.
  - reflexivity.
  - eapply Forall_impl; [|exact Hok]. intros l [Hl _]. lia.
  - pose proof (dotted_length_le ls). lia.
Qed.

(* the exact-length call of the query encoder: datalen = strlen(host) *)
Lemma putname_name_of_exact ls : Forall label_ok ls ->
  putname (length (name_of ls)) (name_of ls) = Some (enc_name ls).
Proof.
  intros Hok. unfold name_of.
  pose proof (cstr_nonul _ (dotted_nonul ls Hok)) as Hc.
  pose proof (tokens_dotted ls Hok) as Ht.
  rewrite putname_tokens; rewrite ?Hc, ?Ht.
  - reflexivity.
  - eapply Forall_impl; [|exact Hok]. intros l [Hl _]. lia.
  - lia.
Qed.

(* ---------------------------------------------------------------------------------- *)
(* header, fixed-size pieces                                                            *)

Lemma be16_same : DnsMsg.be16 = DnsWfProofs.be16.
Proof. reflexivity. Qed.
Lemma be32_same : DnsMsg.be32 = DnsWfProofs.be32.
Proof. reflexivity. Qed.
Lemma hdr_same id f1 f2 qd an ns ar : hdr_bytes id f1 f2 qd an ns ar = hdr12 id f1 f2 qd an ns ar.
Proof. reflexivity. Qed.

Lemma be16_length v : length (DnsWfProofs.be16 v) = 2%nat.
Proof. reflexivity. Qed.
Lemma be32_length v : length (DnsWfProofs.be32 v) = 4%nat.
Proof. reflexivity. Qed.

Lemma checklen_true buflen sofar x : (x + length sofar <= buflen)%nat -> checklen buflen sofar x = true.
Proof. intros H. unfold checklen. apply Nat.leb_le. exact H. Qed.

(* ---------------------------------------------------------------------------------- *)
(* the client's query                                                                   *)

Definition opt_rr : rr :=
  {| rr_name := []; rr_type := 41; rr_class := 4096; rr_ttl := 32768; rr_rdata := []; rr_rdname := None |}.

Lemma query_form buflen edns0 id ty ls : Forall label_ok ls -> (wire_len ls <= 255)%nat -> (282 <= buflen)%nat ->
  dns_encode_query buflen edns0 id ty (name_of ls) =
    Some (hdr12 id 1 0 1 0 0 (if edns0 then 1 else 0) ++ enc_name ls ++ DnsWfProofs.be16 ty ++ DnsWfProofs.be16 1 ++
          (if edns0 then edns0_opt else [])).
Proof.
  intros Hok Hw Hb. unfold dns_encode_query.
  destruct (buflen <? 12)%nat eqn:E; [apply Nat.ltb_lt in E; lia|].
  assert (Hc : cstr (name_of ls) = name_of ls) by (apply cstr_nonul, dotted_nonul, Hok).
  rewrite Hc.
  pose proof (dotted_length_le ls) as Hdl. fold (name_of ls) in Hdl.
  assert (Hmin : Nat.min (length (name_of ls)) (buflen - 12) = length (name_of ls)).
  { destruct ls as [|l r]; [cbn; lia|].
    assert (Hne : l :: r <> []) by discriminate. pose proof (dotted_length _ Hne). fold (name_of (l :: r)) in H. lia. }
  rewrite Hmin, (putname_name_of_exact ls Hok). cbn [opt_bytes].
  rewrite hdr_same, be16_same. change C_IN with 1.
  rewrite checklen_true by (rewrite app_length, hdr12_length, enc_name_length; lia). cbn [negb].
  destruct edns0.
  - rewrite checklen_true by (rewrite !app_length, hdr12_length, enc_name_length, !be16_length; lia). cbn [negb].
    rewrite <- !app_assoc. reflexivity.
  - rewrite <- !app_assoc, app_nil_r. reflexivity.
Qed.

Lemma query_wf (edns0 : bool) id ty ls : Forall label_ok ls -> (wire_len ls <= 255)%nat -> id < 65536 -> ty < 65536 ->
  let m := hdr12 id 1 0 1 0 0 (if edns0 then 1 else 0) ++ enc_name ls ++ DnsWfProofs.be16 ty ++ DnsWfProofs.be16 1 ++
           (if edns0 then edns0_opt else []) in
  wf_msg m = Some {| m_id := id; m_qr := false; m_qname := ls; m_qtype := ty; m_qclass := 1;
                     m_answers := []; m_authority := []; m_additional := if edns0 then [opt_rr] else [] |}.
Proof.
  intros Hok Hw Hid Hty m.
  pose proof (wf_lens_ok ls Hok) as Hl.
  destruct edns0.
  - (* one OPT record *)
    set (pre := hdr12 id 1 0 1 0 0 1 ++ enc_name ls ++ DnsWfProofs.be16 ty ++ DnsWfProofs.be16 1).
    assert (Hm : m = pre ++ [0] ++ rr_fixed 41 4096 32768 (N.of_nat (length (@nil N))) ++ [] ++ []).
    { unfold m, pre. rewrite <- !app_assoc. reflexivity. }
    assert (Hpl : length pre = (12 + wire_len ls + 4)%nat).
    { unfold pre. rewrite !app_length, hdr12_length, enc_name_length, !be16_length. lia. }
    assert (Hown : pname m (offsets 12 ls) (length pre) = Some ([], (length pre + length [0])%nat, [])).
    { rewrite Hm.
      apply (pname_plain (@nil (list N)) pre (rr_fixed 41 4096 32768 (N.of_nat (length (@nil N))) ++ [] ++ []) (offsets 12 ls));
        [constructor|cbn; lia]. }
    assert (Hrr : parse_rr m (offsets 12 ls) (length pre) = Some (opt_rr, length m, [] ++ offsets 12 ls)).
    { rewrite Hm in *. rewrite (parse_rr_split pre [0] 41 4096 32768 [] [] (offsets 12 ls) [] [] Hown) by (cbn; lia).
      unfold rr_tail. cbn [N.eqb Pos.eqb orb]. unfold opt_rr. repeat f_equal.
      rewrite !app_length, rr_fixed_length. cbn [length]. lia. }
    apply (wf_msg_intro id 1 0 0 0 1 ls ty 1 edns0_opt [] [] [opt_rr] (12 + wire_len ls + 4)%nat (12 + wire_len ls + 4)%nat
             (offsets 12 ls) (offsets 12 ls) ([] ++ offsets 12 ls)); try assumption; try lia; try reflexivity.
    fold m. change (N.to_nat 1) with 1%nat. cbn [parse_rrs]. rewrite <- Hpl, Hrr. reflexivity.
  - apply (wf_msg_intro id 1 0 0 0 0 ls ty 1 [] [] [] [] (12 + wire_len ls + 4)%nat (12 + wire_len ls + 4)%nat
             (offsets 12 ls) (offsets 12 ls) (offsets 12 ls)); try assumption; try lia; try reflexivity.
    cbn [N.to_nat parse_rrs]. repeat f_equal. fold m.
    unfold m. rewrite !app_length, hdr12_length, enc_name_length, !be16_length. cbn [length]. lia.
Qed.
