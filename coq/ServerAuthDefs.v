(* ServerAuthDefs.v -- vocabulary for the access-control theorems about the iodined dispatcher
   model (Server.v), and the decomposition of handle_null_request / tunnel_dns into one handler
   per command letter (proved equal to the model's functions, not a second model).

     cmd_of c0            the command selected by the first character of the request, in the order
                          handle_null_request tests them
     req_inb / req_unpacked   the request bytes / their Base32 decoding, as the handlers see them
     named_user q dl      the userid the request names (None for V, Z, Y and unknown commands)
     cmd_check            the access check the command applies to that userid
     precheck q dl        Some outs when the handler returns before looking at the userid
     dispatch c q         Some dl when tunnel_dns hands the query to handle_null_request
     hV .. hN             the per-command bodies
*)
From Coq Require Import List NArith ZArith Arith Bool Lia.
From RecordUpdate Require Import RecordUpdate.
From Iodine Require Import Generated.SrcConsts Base Codec Hostname DnsName DnsMsg Domain Server ServerFrame.
Import ListNotations.
Local Open Scope N_scope.

Inductive cmd := CV | CL | CI | CZ | CS | CO | CY | CR | CN | CP | CData | COther.

Definition is_hex (c0 : N) : bool :=
  ((48 <=? c0) && (c0 <=? 57)) || ((97 <=? c0) && (c0 <=? 102)) || ((65 <=? c0) && (c0 <=? 70)).

Definition cmd_of (c0 : N) : cmd :=
  if is_letter c0 118 then CV else if is_letter c0 108 then CL else if is_letter c0 105 then CI
  else if is_letter c0 122 then CZ else if is_letter c0 115 then CS else if is_letter c0 111 then CO
  else if is_letter c0 121 then CY else if is_letter c0 114 then CR else if is_letter c0 110 then CN
  else if is_letter c0 112 then CP else if is_hex c0 then CData else COther.

Definition req_inb (q : hq) (dl : nat) : list N := firstn dl (h_name q).
Definition req_unpacked (q : hq) (dl : nat) : list N :=
  unpack_data b32 (N.to_nat 65536) (skipn 1 (req_inb q dl)) (dl - 1).

Definition hexcode (c0 : N) : N :=
  if (48 <=? c0) && (c0 <=? 57) then c0 - 48
  else if (97 <=? c0) && (c0 <=? 102) then c0 - 87 else c0 - 55.

Definition named_user (q : hq) (dl : nat) : option Z :=
  let inb := req_inb q dl in
  match cmd_of (chr inb 0) with
  | CL | CN | CP => Some (schar (chr (req_unpacked q dl) 0))
  | CI | CS | CO => Some (Z.of_N (b32_8to5 (chr inb 1)))
  | CR => Some (Z.of_N ((b32_8to5 (chr inb 1) / 2) mod 16))
  | CData => Some (Z.of_N (hexcode (chr inb 0)))
  | _ => None
  end.

Definition cmd_check (c : cfg) (st : sstate) (now : N) (k : cmd) (uz : Z) (from : addr) : bool :=
  match k with
  | CL => check_user_and_ip c st now uz from
  | CI | CR | CP | CData => check_auth c st now uz from
  | CS | CO | CN => check_auth_options c st now uz from
  | _ => false
  end.

Definition precheck (q : hq) (dl : nat) : option (list out) :=
  let inb := req_inb q dl in
  let unpacked := req_unpacked q dl in
  match cmd_of (chr inb 0) with
  | CL => if (length unpacked <? 17)%nat then Some [mk_answer q s_BADLEN 84] else None
  | CS | CO => if (dl <? 3)%nat then Some [mk_answer q s_BADLEN 84] else None
  | CR => if (dl <? 16)%nat then Some [mk_answer q s_BADLEN 84] else None
  | CN => if (length unpacked <? 3)%nat then Some [mk_answer q s_BADLEN 84] else None
  | CP => if h_id q =? 0 then Some [] else if (length unpacked <? 4)%nat then Some [] else None
  | CData => if (dl <? 6)%nat then Some [] else if h_id q =? 0 then Some [] else None
  | _ => None
  end.

Definition version_of (unpacked : list N) : N :=
  if (4 <? length unpacked)%nat
  then ((chr unpacked 0 * 256 + chr unpacked 1) * 256 + chr unpacked 2) * 256 + chr unpacked 3 else 0.

Definition vack (seed : N) (i : nat) : list N := [86;65;67;75] ++ be32b seed ++ [N.of_nat i mod 256].

Definition login_reply (c : cfg) (u : suser) : list N :=
  ntoa (c_my_ip c) ++ [45] ++ ntoa (u_tun_ip u) ++ [45] ++ dec_int (c_mtu c) ++ [45] ++ dec_int (c_netmask c).

Definition i_reply (c : cfg) (q : hq) : list N :=
  73 :: (if a_fam (h_from q) =? AF_INET
         then match c_ns_ip c with
              | Some ip => firstn 4 ip
              | None => match h_dest q with Some d => firstn 4 (d ++ [0;0;0;0]) | None => [0;0;0;0] end
              end
         else repeat 0 16).

Definition clear_cache (u : suser) : suser :=
  u <| u_cache := map (fun e => {| ce_name := ce_name e; ce_type := ce_type e; ce_id := 0;
                                   ce_answer := ce_answer e; ce_len := 0 |}) (u_cache u) |>.

Section WithOracles.
Variable login : list N -> N -> list N.
Variable zc : list N -> list N.
Variable unz : list N -> option (list N).

(* ---- one handler per command ------------------------------------------------------------------ *)

Definition hV (st : sstate) (now rnd : N) (q : hq) (unpacked : list N) : sstate * list out :=
  let u0dl := u_downenc (getu st 0) in
  if version_of unpacked =? src_PROTOCOL_VERSION then
    match find_available_from st now 0 with
    | Some i =>
        let seed := rnd mod 2147483648 in
        (upd st i (fun u => reset_session (claim now u) q seed), [mk_answer q (vack seed i) 84])
    | None => (st, [mk_answer q ([86;70;85;76] ++ be32b (N.of_nat (length st)) ++ [0]) u0dl])
    end
  else (st, [mk_answer q ([86;78;65;75] ++ be32b src_PROTOCOL_VERSION ++ [0]) u0dl]).

Definition hL (c : cfg) (st : sstate) (now : N) (q : hq) (unpacked : list N) : sstate * list out :=
  let read := length unpacked in
  if (read <? 17)%nat then (st, [mk_answer q s_BADLEN 84]) else
  let userid := schar (chr unpacked 0) in
  if check_user_and_ip c st now userid (h_from q) then (st, [mk_answer q s_BADIP 84]) else
  let i := Z.to_nat userid in
  let st1 := upd st i (fun u => u <| u_last := now |>) in
  let u := getu st1 i in
  if (18 <=? read)%nat && list_eqb (login (c_password c) (u_seed u)) (firstn 16 (skipn 1 unpacked)) then
    (upd st1 i (fun x => x <| u_auth := true |>), [mk_answer q (login_reply c u) (u_downenc u)])
  else (st1, [mk_answer q s_LNAK 84]).

Definition hI (c : cfg) (st : sstate) (now : N) (q : hq) (inb : list N) : sstate * list out :=
  let userid := Z.of_N (b32_8to5 (chr inb 1)) in
  if check_auth c st now userid (h_from q) then (st, [mk_answer q s_BADIP 84]) else
  (st, [mk_answer q (i_reply c q) 84]).

Definition hS (c : cfg) (st : sstate) (now : N) (q : hq) (inb : list N) (dl : nat) : sstate * list out :=
  if (dl <? 3)%nat then (st, [mk_answer q s_BADLEN 84]) else
  let userid := Z.of_N (b32_8to5 (chr inb 1)) in
  if check_auth_options c st now userid (h_from q) then (st, [mk_answer q s_BADIP 84]) else
  let i := Z.to_nat userid in
  let dl' := u_downenc (getu st i) in
  let codec := b32_8to5 (chr inb 2) in
  let sw e := (upd st i (fun u => u <| u_enc := e |>), [mk_answer q (codec_name e) dl']) in
  if codec =? 5 then sw 0 else if codec =? 6 then sw 1 else if codec =? 26 then sw 2
  else if codec =? 7 then sw 3 else (st, [mk_answer q s_BADCODEC dl']).

Definition hO (c : cfg) (st : sstate) (now : N) (q : hq) (inb : list N) (dl : nat) : sstate * list out :=
  if (dl <? 3)%nat then (st, [mk_answer q s_BADLEN 84]) else
  let userid := Z.of_N (b32_8to5 (chr inb 1)) in
  if check_auth_options c st now userid (h_from q) then (st, [mk_answer q s_BADIP 84]) else
  let i := Z.to_nat userid in
  let c2 := chr inb 2 in
  let setd l nm := (upd st i (fun u => u <| u_downenc := l |>), [mk_answer q nm l]) in
  let dl' := u_downenc (getu st i) in
  if is_letter c2 116 then setd 84 (codec_name 0)
  else if is_letter c2 115 then setd 83 (codec_name 1)
  else if is_letter c2 117 then setd 85 (codec_name 2)
  else if is_letter c2 118 then setd 86 (codec_name 3)
  else if is_letter c2 114 then setd 82 [82;97;119]
  else if is_letter c2 108 then (upd st i (fun u => u <| u_lazy := true |>), [mk_answer q [76;97;122;121] dl'])
  else if is_letter c2 105 then (upd st i (fun u => u <| u_lazy := false |>), [mk_answer q [73;109;109;101;100;105;97;116;101] dl'])
  else (st, [mk_answer q s_BADCODEC dl']).

Definition hY (st : sstate) (q : hq) (inb : list N) (dl : nat) : sstate * list out :=
  if (dl <? 6)%nat then (st, [mk_answer q s_BADLEN 84]) else
  if negb (b32_8to5 (chr inb 2) =? 1) then (st, [mk_answer q s_BADLEN 84]) else
  let c1 := chr inb 1 in
  let ty := h_type q in
  let chk := src_DOWNCODECCHECK1 in
  if is_letter c1 116 && tunnel_types ty then (st, [mk_answer q chk 84])
  else if is_letter c1 115 && tunnel_types ty then (st, [mk_answer q chk 83])
  else if is_letter c1 117 && tunnel_types ty then (st, [mk_answer q chk 85])
  else if is_letter c1 118 && tunnel_types ty then (st, [mk_answer q chk 86])
  else if is_letter c1 114 && ((ty =? T_NULL) || (ty =? T_TXT)) then (st, [mk_answer q chk 82])
  else (st, [mk_answer q s_BADCODEC 84]).

Definition hR (c : cfg) (st : sstate) (now rnd : N) (q : hq) (inb : list N) (dl : nat) : sstate * list out :=
  if (dl <? 16)%nat then (st, [mk_answer q s_BADLEN 84]) else
  let d1 := b32_8to5 (chr inb 1) in
  let userid := Z.of_N ((d1 / 2) mod 16) in
  if check_auth c st now userid (h_from q) then (st, [mk_answer q s_BADIP 84]) else
  let dl' := u_downenc (getu st (Z.to_nat userid)) in
  let req := (d1 mod 2) * 1024 + (b32_8to5 (chr inb 2) mod 32) * 32 + b32_8to5 (chr inb 3) mod 32 in
  if (req <? 2) || (2047 <? req) then (st, [mk_answer q s_BADFRAG dl'])
  else (st, [mk_answer q (probe_reply req (rnd mod 256)) dl']).

Definition set_frag (mfs : N) (u : suser) : suser :=
  (clear_cache u) <| u_fragsize := mfs |> <| u_locked := true |>.

Definition hN (c : cfg) (st : sstate) (now : N) (q : hq) (unpacked : list N) : sstate * list out :=
  let read := length unpacked in
  if (read <? 3)%nat then (st, [mk_answer q s_BADLEN 84]) else
  let userid := schar (chr unpacked 0) in
  if check_auth_options c st now userid (h_from q) then (st, [mk_answer q s_BADIP 84]) else
  let i := Z.to_nat userid in
  let dl' := u_downenc (getu st i) in
  let mfs := chr unpacked 1 * 256 + chr unpacked 2 in
  if mfs <? 2 then (st, [mk_answer q s_BADFRAG dl'])
  else (upd st i (set_frag mfs), [mk_answer q [chr unpacked 1; chr unpacked 2] dl']).

Definition hP (c : cfg) (st : sstate) (now : N) (q : hq) (unpacked : list N) : sstate * list out :=
  if h_id q =? 0 then (st, []) else
  if (length unpacked <? 4)%nat then (st, []) else
  handle_ping c st now q unpacked.

Definition hD (c : cfg) (st : sstate) (now : N) (q : hq) (inb : list N) (dl : nat) : sstate * list out :=
  if (dl <? 6)%nat then (st, []) else
  if h_id q =? 0 then (st, []) else
  handle_data unz c st now q inb dl.

Definition hnr' (c : cfg) (st : sstate) (now rnd : N) (q : hq) (dl : nat) : sstate * list out :=
  if (dl <? 2)%nat then (st, []) else
  let inb := req_inb q dl in
  let unpacked := req_unpacked q dl in
  match cmd_of (chr inb 0) with
  | CV => hV st now rnd q unpacked
  | CL => hL c st now q unpacked
  | CI => hI c st now q inb
  | CZ => (st, [mk_answer q inb 84])
  | CS => hS c st now q inb dl
  | CO => hO c st now q inb dl
  | CY => hY st q inb dl
  | CR => hR c st now rnd q inb dl
  | CN => hN c st now q unpacked
  | CP => hP c st now q unpacked
  | CData => hD c st now q inb dl
  | COther => (st, [])
  end.

Lemma hnr_eq c st now rnd q dl : handle_null_request login unz c st now rnd q dl = hnr' c st now rnd q dl.
Proof.
  unfold handle_null_request, hnr', hV, hL, hI, hS, hO, hY, hR, hN, hP, hD, version_of, vack, login_reply, i_reply,
    set_frag, clear_cache, cmd_of, is_hex, req_unpacked, req_inb.
  destruct (dl <? 2)%nat; [reflexivity|]. cbv zeta.
  repeat (match goal with |- context [is_letter ?a ?b] =>
            lazymatch a with chr (firstn dl (h_name q)) 0 => destruct (is_letter a b); [reflexivity|] end end).
  match goal with |- (if ?cnd then _ else _) = _ => destruct cnd end; reflexivity.
Qed.

(* ---- tunnel_dns -------------------------------------------------------------------------------- *)

Definition dispatch (c : cfg) (q : hq) : option nat :=
  match query_datalen (h_name q) (c_topdomain c) with
  | Some dl =>
      let ty := h_type q in
      match aux_answer (to_query q) dl (h_dest q) (c_ns_ip c) with
      | Some _ => None
      | None =>
          let n := h_name q in
          let is_ns_a := (dl =? 3)%nat && (ty =? T_A) && is_letter (chr n 0) 110 && is_letter (chr n 1) 115 && (chr n 2 =? DOT) in
          let is_www_a := (dl =? 4)%nat && (ty =? T_A) && is_letter (chr n 0) 119 && is_letter (chr n 1) 119
                          && is_letter (chr n 2) 119 && (chr n 3 =? DOT) in
          if is_ns_a || is_www_a || (ty =? T_NS) then None
          else if (ty =? T_NULL) || (ty =? T_PRIVATE) || (ty =? T_CNAME) || (ty =? T_A) || (ty =? T_MX)
                  || (ty =? T_SRV) || (ty =? T_TXT)
          then Some dl else None
      end
  | None => None
  end.

Definition is_infra (o : out) : Prop := match o with OAux _ _ | OForward _ => True | _ => False end.

Lemma tunnel_dns_dispatch c st now rnd q dl : dispatch c q = Some dl ->
  tunnel_dns login unz c st now rnd q = handle_null_request login unz c st now rnd q dl.
Proof.
  unfold dispatch, tunnel_dns. destruct (query_datalen _ _) as [dl0|]; [|discriminate]. cbv zeta.
  destruct (aux_answer _ _ _ _); [discriminate|].
  destruct (_ || _ || (h_type q =? T_NS)); [discriminate|].
  destruct (_ || _ || _ || _ || _ || _ || _); [|discriminate].
  intros H; inversion H; subst. reflexivity.
Qed.

Lemma tunnel_dns_nodispatch c st now rnd q : dispatch c q = None ->
  exists outs, tunnel_dns login unz c st now rnd q = (st, outs) /\ Forall is_infra outs.
Proof.
  unfold dispatch, tunnel_dns. destruct (query_datalen _ _) as [dl0|].
  - cbv zeta. destruct (aux_answer _ _ _ _).
    + intros _. eexists; split; [reflexivity|]. repeat constructor.
    + destruct (_ || _ || (h_type q =? T_NS)); [intros _; eexists; split; [reflexivity|constructor]|].
      destruct (_ || _ || _ || _ || _ || _ || _); [discriminate|].
      intros _; eexists; split; [reflexivity|constructor].
  - intros _. destruct (c_bind c); eexists; (split; [reflexivity|]); repeat constructor.
Qed.

End WithOracles.
