(* ServerDedupProofs.v -- C16: re-delivered queries are never processed twice.
   The three memories (answer cache, ping / data fingerprints) as most-recent-first lists, what a
   save does to them, what the scan finds, the three outcomes of a re-delivery (same payload from
   the cache / suppressed with "x" / remembered as duplicate of a held query), and how the
   memories evolve along any trace of micro-steps. *)
From Coq Require Import List NArith ZArith Arith Bool Lia.
From RecordUpdate Require Import RecordUpdate.
From Iodine Require Import Generated.SrcConsts Base Codec CodecProofs Hostname DnsName DnsMsg Domain Server
  ServerRings ServerRefine ServerFragProofs.
Import ListNotations.
Local Open Scope N_scope.

(* ---- the memories, most recent first ---------------------------------------------------------------- *)

Definition cache_recent (u : suser) : list cache_entry := ring_recent (u_cache u) (u_cache_last u).
Definition ping_recent (u : suser) : list qmem_entry := ring_recent (u_pingmem u) (u_pingmem_last u).
Definition data_recent (u : suser) : list qmem_entry := ring_recent (u_datamem u) (u_datamem_last u).

(* n saves into a ring of length len: the ring holds exactly the last len saved, newest first *)
Fixpoint ring_saves {A} (l : list A) (last : nat) (xs : list A) : list A * nat :=
  match xs with
  | [] => (l, last)
  | x :: r => ring_saves (set_nth l (ring_fill (length l) last) x) (ring_fill (length l) last) r
  end.

Lemma firstn_cons_firstn {A} n (x : A) l : firstn n (x :: firstn n l) = firstn n (x :: l).
Proof.
  destruct n; [reflexivity|]. simpl. f_equal.
  revert l. induction n as [|n IH]; intros l; [reflexivity|].
  destruct l as [|y l]; [reflexivity|]. simpl. f_equal. apply IH.
Qed.

Lemma firstn_app_firstn_le {A} (a l : list A) : forall n m, (n <= m)%nat -> firstn n (a ++ firstn m l) = firstn n (a ++ l).
Proof.
  induction a as [|x a IH]; intros n m H.
  - simpl. rewrite firstn_firstn. f_equal. lia.
  - destruct n; [reflexivity|]. simpl. f_equal. apply IH. lia.
Qed.

Lemma firstn_app_firstn {A} n (a l : list A) : firstn n (a ++ firstn n l) = firstn n (a ++ l).
Proof. apply firstn_app_firstn_le. lia. Qed.

Lemma ring_holds_last_n {A} (xs : list A) : forall l last,
  (last < length l)%nat ->
  ring_recent (fst (ring_saves l last xs)) (snd (ring_saves l last xs))
    = firstn (length l) (List.rev xs ++ ring_recent l last) /\
  length (fst (ring_saves l last xs)) = length l /\ (snd (ring_saves l last xs) < length l)%nat.
Proof.
  induction xs as [|x r IH]; intros l last Hl.
  - simpl. split; [|split; [reflexivity|exact Hl]].
    rewrite firstn_all2 by (rewrite ring_recent_length; lia). reflexivity.
  - cbn [ring_saves].
    assert (Hf : (ring_fill (length l) last < length (set_nth l (ring_fill (length l) last) x))%nat).
    { rewrite set_nth_length. apply ring_fill_lt. lia. }
    destruct (IH _ _ Hf) as (A1 & A2 & A3). rewrite set_nth_length in *.
    split; [|split; assumption].
    rewrite A1, ring_save_firstn by exact Hl.
    cbn [List.rev]. rewrite <- app_assoc. cbn [app]. apply firstn_app_firstn.
Qed.

(* ---- the scan of the answer cache is a search of the most-recent-first list --------------------------- *)

Definition ce_match (name : list N) (ty : N) (e : cache_entry) : bool :=
  negb ((ce_id e =? 0) || (ce_len e =? 0) || negb (ce_type e =? ty) || negb (list_eqb (ce_name e) name)).

Lemma skipn_nth_cons {A} (l : list A) i d : (i < length l)%nat -> skipn i l = nth i l d :: skipn (S i) l.
Proof.
  revert i. induction l as [|x l IH]; intros i H; [simpl in H; lia|].
  destruct i; [reflexivity|]. simpl. apply IH. simpl in H. lia.
Qed.

Lemma dnscache_scan_find u name ty :
  length (u_cache u) = CACHELEN -> (u_cache_last u < CACHELEN)%nat ->
  forall n i, (i + n = CACHELEN)%nat ->
  dnscache_scan n i u name ty = find (ce_match name ty) (skipn i (cache_recent u)).
Proof.
  intros Hlen Hlast. induction n as [|n IH]; intros i Hi.
  - simpl. rewrite skipn_all2; [reflexivity|]. unfold cache_recent. rewrite ring_recent_length. lia.
  - cbn [dnscache_scan]. cbv zeta.
    assert (Hil : (i < length (cache_recent u))%nat) by (unfold cache_recent; rewrite ring_recent_length; lia).
    rewrite (skipn_nth_cons _ _ ce0 Hil). cbn [find].
    assert (Hn : nth i (cache_recent u) ce0 =
                 nth (if (i <=? u_cache_last u)%nat then (u_cache_last u - i)%nat else (u_cache_last u + CACHELEN - i)%nat) (u_cache u) ce0).
    { unfold cache_recent. rewrite ring_recent_nth by lia. rewrite Hlen. reflexivity. }
    rewrite Hn. unfold ce_match at 1.
    destruct ((ce_id _ =? 0) || (ce_len _ =? 0) || negb (ce_type _ =? ty) || negb (list_eqb (ce_name _) name)).
    + cbn [negb]. apply IH. lia.
    + reflexivity.
Qed.

Lemma answer_from_dnscache_find u name ty :
  wf_user u -> answer_from_dnscache u name ty = find (ce_match name ty) (cache_recent u).
Proof.
  intros (A & B & _). unfold answer_from_dnscache.
  rewrite (dnscache_scan_find u name ty A B CACHELEN 0) by lia. reflexivity.
Qed.

Lemma list_eqb_refl l : list_eqb l l = true.
Proof.
  unfold list_eqb. rewrite Nat.eqb_refl. simpl. induction l as [|x l IH]; [reflexivity|].
  simpl. rewrite N.eqb_refl. exact IH.
Qed.

Lemma list_eqb_eq a b : list_eqb a b = true -> a = b.
Proof.
  unfold list_eqb. intros H. apply andb_prop in H. destruct H as [Hl Hf]. apply Nat.eqb_eq in Hl.
  revert b Hl Hf. induction a as [|x a IH]; intros b Hl Hf; destruct b as [|y b]; try discriminate; [reflexivity|].
  simpl in Hf. apply andb_prop in Hf. destruct Hf as [H1 H2]. apply N.eqb_eq in H1. simpl in H1. subst y.
  f_equal. apply IH; [simpl in Hl; lia|exact H2].
Qed.

Lemma qmem_hit_recent mem last cmc ty :
  ty <> T_UNSET -> In {| qm_cmc := cmc; qm_type := ty |} (ring_recent mem last) -> qmem_hit mem cmc ty = true.
Proof.
  intros Ht Hin. unfold qmem_hit. rewrite <- (existsb_ring_recent _ mem last).
  apply existsb_exists. eexists. split; [exact Hin|]. cbn.
  rewrite N.eqb_refl, list_eqb_refl. assert (E : (ty =? T_UNSET) = false) by (apply N.eqb_neq; exact Ht).
  rewrite E. reflexivity.
Qed.

(* ---- what an emission saves ------------------------------------------------------------------------------ *)

(* the fingerprint entry an emission to held query q saves: Some (true, e) into the ping memory,
   Some (false, e) into the data memory *)
Definition scd_qm (u : suser) (w : which_q) : option (bool * qmem_entry) :=
  match qm_kind (h_name (getq u w)) with
  | Some (b, cmc) => Some (b, {| qm_cmc := cmc; qm_type := h_type (getq u w) |})
  | None => None
  end.

Lemma push_ping_proj u e :
  u_pingmem (push_ping u e) = set_nth (u_pingmem u) (ring_fill PINGLEN (u_pingmem_last u)) e /\
  u_pingmem_last (push_ping u e) = ring_fill PINGLEN (u_pingmem_last u) /\
  u_datamem (push_ping u e) = u_datamem u /\ u_datamem_last (push_ping u e) = u_datamem_last u.
Proof. repeat split; reflexivity. Qed.

Lemma push_data_proj u e :
  u_pingmem (push_data u e) = u_pingmem u /\ u_pingmem_last (push_data u e) = u_pingmem_last u /\
  u_datamem (push_data u e) = set_nth (u_datamem u) (ring_fill DATALEN (u_datamem_last u)) e /\
  u_datamem_last (push_data u e) = ring_fill DATALEN (u_datamem_last u).
Proof. repeat split; reflexivity. Qed.

Lemma emit_recent u w u' o ag :
  wf_user u -> send_chunk_or_dataless u w = (u', o, ag) ->
  cache_recent u' = firstn CACHELEN (scd_ce u w :: cache_recent u) /\
  ping_recent u' = match scd_qm u w with Some (true, e) => firstn PINGLEN (e :: ping_recent u) | _ => ping_recent u end /\
  data_recent u' = match scd_qm u w with Some (false, e) => firstn DATALEN (e :: data_recent u) | _ => data_recent u end.
Proof.
  intros (A & B & C & D & E & F) Hs.
  destruct (emit_cache _ _ _ _ _ Hs) as (C1 & C2 & _).
  destruct (emit_qmem _ _ _ _ _ Hs) as (Q1 & Q2 & Q3 & Q4).
  unfold cache_recent, ping_recent, data_recent. rewrite C1, C2, Q1, Q2, Q3, Q4.
  split; [rewrite <- A at 1 2 3; apply ring_save_firstn; lia|].
  unfold scd_qm, qm_push. destruct (qm_kind (h_name (getq u w))) as [[[|] cmc]|].
  - destruct (push_ping_proj u {| qm_cmc := cmc; qm_type := h_type (getq u w) |}) as (P1 & P2 & P3 & P4).
    rewrite P1, P2, P3, P4.
    split; [|reflexivity]. rewrite <- C at 1 2 3. apply ring_save_firstn. lia.
  - destruct (push_data_proj u {| qm_cmc := cmc; qm_type := h_type (getq u w) |}) as (P1 & P2 & P3 & P4).
    rewrite P1, P2, P3, P4.
    split; [reflexivity|]. rewrite <- E at 1 2 3. apply ring_save_firstn. lia.
  - split; reflexivity.
Qed.

(* ---- outcome 1: the answer cache ---------------------------------------------------------------------------- *)

Lemma ping_cache_hit c st now q unpacked e :
  check_auth c st now (schar (chr unpacked 0)) (h_from q) = false ->
  answer_from_dnscache (getu st (Z.to_nat (schar (chr unpacked 0)))) (h_name q) (h_type q) = Some e ->
  handle_ping c st now q unpacked =
  (st, [OAnswer q (h_id q) (h_from q) (firstn (N.to_nat (ce_len e)) (ce_answer e))
          (u_downenc (getu st (Z.to_nat (schar (chr unpacked 0)))))]).
Proof. intros Ha Hc. unfold handle_ping. cbv zeta. rewrite Ha, Hc. reflexivity. Qed.

Lemma data_cache_hit unz c st now q inb dl e :
  check_auth c st now (Z.of_N (hex_code (chr inb 0))) (h_from q) = false ->
  answer_from_dnscache (getu st (N.to_nat (hex_code (chr inb 0)))) (h_name q) (h_type q) = Some e ->
  handle_data unz c st now q inb dl =
  (st, [OAnswer q (h_id q) (h_from q) (firstn (N.to_nat (ce_len e)) (ce_answer e))
          (u_downenc (getu st (N.to_nat (hex_code (chr inb 0)))))]).
Proof. intros Ha Hc. unfold handle_data. cbv zeta. fold (hex_code (chr inb 0)). rewrite Ha, Hc. reflexivity. Qed.

(* ---- outcome 2: the fingerprint memories ---------------------------------------------------------------------- *)

Lemma ping_suppressed c st now q unpacked :
  check_auth c st now (schar (chr unpacked 0)) (h_from q) = false ->
  answer_from_dnscache (getu st (Z.to_nat (schar (chr unpacked 0)))) (h_name q) (h_type q) = None ->
  qmem_hit (u_pingmem (getu st (Z.to_nat (schar (chr unpacked 0))))) (firstn 4 unpacked) (h_type q) = true ->
  handle_ping c st now q unpacked = (st, [OAnswer q (h_id q) (h_from q) [120] 84]).
Proof. intros Ha Hc Hq. unfold handle_ping. cbv zeta. rewrite Ha, Hc, Hq. reflexivity. Qed.

Lemma data_suppressed unz c st now q inb dl :
  check_auth c st now (Z.of_N (hex_code (chr inb 0))) (h_from q) = false ->
  answer_from_dnscache (getu st (N.to_nat (hex_code (chr inb 0)))) (h_name q) (h_type q) = None ->
  qmem_hit (u_datamem (getu st (N.to_nat (hex_code (chr inb 0))))) (lower4 (h_name q)) (h_type q) = true ->
  handle_data unz c st now q inb dl = (st, [OAnswer q (h_id q) (h_from q) [120] 84]).
Proof. intros Ha Hc Hq. unfold handle_data. cbv zeta. fold (hex_code (chr inb 0)). rewrite Ha, Hc, Hq. reflexivity. Qed.

(* the data fingerprint ignores ASCII case; the id and the source address are not part of it *)
Definition lower1 (c : N) : N := if (65 <=? c) && (c <=? 90) then c + 32 else c.

Lemma lower1_case a b : toupper a = toupper b -> lower1 a = lower1 b.
Proof.
  unfold toupper, lower1. intros H.
  destruct ((97 <=? a) && (a <=? 122)) eqn:Ea; destruct ((97 <=? b) && (b <=? 122)) eqn:Eb;
    destruct ((65 <=? a) && (a <=? 90)) eqn:Fa; destruct ((65 <=? b) && (b <=? 90)) eqn:Fb; lia.
Qed.

Lemma lower4_case nm1 nm2 :
  (forall k, (1 <= k <= 4)%nat -> toupper (chr nm1 k) = toupper (chr nm2 k)) -> lower4 nm1 = lower4 nm2.
Proof.
  intros H. unfold lower4. apply map_ext_in. intros k Hk. apply in_seq in Hk.
  apply (lower1_case (chr nm1 (S k)) (chr nm2 (S k))). apply H. lia.
Qed.

(* the ping fingerprint is made of decoded bytes: Base32 decoding ignores ASCII case *)
Lemma filter_map_toupper (s : list N) :
  filter (fun ch => negb (ch =? DOT)) (map toupper s) = map toupper (filter (fun ch => negb (ch =? DOT)) s).
Proof.
  induction s as [|x s IH]; [reflexivity|]. simpl.
  assert (E : (toupper x =? DOT) = (x =? DOT)).
  { unfold toupper, DOT. destruct ((97 <=? x) && (x <=? 122)) eqn:Ex; [|reflexivity].
    destruct (x - 32 =? 46) eqn:A; destruct (x =? 46) eqn:B; lia. }
  rewrite E. destruct (x =? DOT); simpl; rewrite IH; reflexivity.
Qed.

Lemma bytes_ok_filter f s : bytes_ok s -> bytes_ok (filter f s).
Proof.
  unfold bytes_ok. intros H. apply Forall_forall. intros x Hx. apply filter_In in Hx. destruct Hx as [Hx _].
  rewrite Forall_forall in H. apply H, Hx.
Qed.

Lemma unpack_b32_upper n s len : bytes_ok s -> unpack_data b32 n (map toupper s) len = unpack_data b32 n s len.
Proof.
  intros Hs. unfold unpack_data, inline_undotify, decode.
  rewrite firstn_map, filter_map_toupper. apply dec32_upper, bytes_ok_filter, bytes_ok_firstn, Hs.
Qed.

(* ---- outcome 3: duplicates of a held query ---------------------------------------------------------------------- *)

Lemma dup_pending_spec u q w :
  dup_pending u q w = true <->
  h_id (getq u w) <> 0 /\ h_type q = h_type (getq u w) /\ h_name q = h_name (getq u w) /\
  (match w with WQ => u_lazy u = true | WQS => True end).
Proof.
  unfold dup_pending. cbv zeta. split.
  - intros H. apply andb_prop in H. destruct H as [H H4]. apply andb_prop in H. destruct H as [H H3].
    apply andb_prop in H. destruct H as [H1 H2]. apply negb_true_iff, N.eqb_neq in H1. apply N.eqb_eq in H2.
    apply list_eqb_eq in H3. repeat split; try assumption. destruct w; [exact H4|exact I].
  - intros (H1 & H2 & H3 & H4). rewrite H2, H3, N.eqb_refl, list_eqb_refl.
    assert (E : (h_id (getq u w) =? 0) = false) by (apply N.eqb_neq; exact H1). rewrite E. simpl.
    destruct w; [exact H4|reflexivity].
Qed.

Lemma ping_pending c st now q unpacked :
  let i := Z.to_nat (schar (chr unpacked 0)) in
  check_auth c st now (schar (chr unpacked 0)) (h_from q) = false ->
  answer_from_dnscache (getu st i) (h_name q) (h_type q) = None ->
  qmem_hit (u_pingmem (getu st i)) (firstn 4 unpacked) (h_type q) = false ->
  (dup_pending (getu st i) q WQ = true ->
     handle_ping c st now q unpacked =
     (upd st i (fun x => x <| u_q := (u_q x) <| h_id2 := h_id q |> <| h_from2 := h_from q |> |>), [])) /\
  (dup_pending (getu st i) q WQ = false -> dup_pending (getu st i) q WQS = true ->
     handle_ping c st now q unpacked =
     (upd st i (fun x => x <| u_qs := (u_qs x) <| h_id2 := h_id q |> <| h_from2 := h_from q |> |>), [])).
Proof.
  cbv zeta. intros Ha Hc Hq. unfold handle_ping. cbv zeta. rewrite Ha, Hc, Hq. split.
  - intros H. rewrite H. reflexivity.
  - intros H1 H2. rewrite H1, H2. reflexivity.
Qed.

Lemma data_pending unz c st now q inb dl :
  let i := N.to_nat (hex_code (chr inb 0)) in
  check_auth c st now (Z.of_N (hex_code (chr inb 0))) (h_from q) = false ->
  answer_from_dnscache (getu st i) (h_name q) (h_type q) = None ->
  qmem_hit (u_datamem (getu st i)) (lower4 (h_name q)) (h_type q) = false ->
  (dup_pending (getu st i) q WQ = true ->
     handle_data unz c st now q inb dl =
     (upd st i (fun x => x <| u_q := (u_q x) <| h_id2 := h_id q |> <| h_from2 := h_from q |> |>), [])) /\
  (dup_pending (getu st i) q WQ = false -> dup_pending (getu st i) q WQS = true ->
     handle_data unz c st now q inb dl =
     (upd st i (fun x => x <| u_qs := (u_qs x) <| h_id2 := h_id q |> <| h_from2 := h_from q |> |>), [])).
Proof.
  cbv zeta. intros Ha Hc Hq. unfold handle_data. cbv zeta. fold (hex_code (chr inb 0)). rewrite Ha, Hc, Hq. split.
  - intros H. rewrite H. reflexivity.
  - intros H1 H2. rewrite H1, H2. reflexivity.
Qed.

(* ---- how the dispatcher reaches the two handlers -------------------------------------------------------------- *)

Lemma p_letter_others c0 :
  is_letter c0 112 = true ->
  is_letter c0 118 = false /\ is_letter c0 108 = false /\ is_letter c0 105 = false /\ is_letter c0 122 = false /\
  is_letter c0 115 = false /\ is_letter c0 111 = false /\ is_letter c0 121 = false /\ is_letter c0 114 = false /\
  is_letter c0 110 = false.
Proof. intros H. apply is_letter_cases in H. destruct H as [-> | ->]; repeat split; reflexivity. Qed.

Lemma hex_letter_others c0 :
  hex_letter c0 = true ->
  is_letter c0 118 = false /\ is_letter c0 108 = false /\ is_letter c0 105 = false /\ is_letter c0 122 = false /\
  is_letter c0 115 = false /\ is_letter c0 111 = false /\ is_letter c0 121 = false /\ is_letter c0 114 = false /\
  is_letter c0 110 = false /\ is_letter c0 112 = false.
Proof. unfold hex_letter, is_letter. intros H. repeat split; lia. Qed.

Lemma ping_dispatch login unz c st now rnd q dl :
  (2 <= dl)%nat -> is_letter (chr (h_name q) 0) 112 = true -> h_id q <> 0 ->
  let unpacked := unpack_data b32 (N.to_nat 65536) (skipn 1 (firstn dl (h_name q))) (dl - 1) in
  (4 <= length unpacked)%nat ->
  handle_null_request login unz c st now rnd q dl = handle_ping c st now q unpacked.
Proof.
  intros Hdl HP Hid unpacked Hread. unfold handle_null_request. cbv zeta.
  assert (D : (dl <? 2)%nat = false) by (apply Nat.ltb_ge; exact Hdl). rewrite D.
  rewrite (chr_firstn (h_name q) dl) by lia.
  destruct (p_letter_others _ HP) as (A1 & A2 & A3 & A4 & A5 & A6 & A7 & A8 & A9).
  rewrite A1, A2, A3, A4, A5, A6, A7, A8, A9, HP. fold unpacked.
  assert (E : (h_id q =? 0) = false) by (apply N.eqb_neq; exact Hid). rewrite E.
  assert (R : (length unpacked <? 4)%nat = false) by (apply Nat.ltb_ge; exact Hread). rewrite R. reflexivity.
Qed.

Lemma data_dispatch login unz c st now rnd q dl :
  (6 <= dl)%nat -> hex_letter (chr (h_name q) 0) = true -> h_id q <> 0 ->
  handle_null_request login unz c st now rnd q dl = handle_data unz c st now q (firstn dl (h_name q)) dl.
Proof.
  intros Hdl HH Hid. unfold handle_null_request. cbv zeta.
  assert (D : (dl <? 2)%nat = false) by (apply Nat.ltb_ge; lia). rewrite D.
  rewrite (chr_firstn (h_name q) dl) by lia.
  destruct (hex_letter_others _ HH) as (A1 & A2 & A3 & A4 & A5 & A6 & A7 & A8 & A9 & A10).
  rewrite A1, A2, A3, A4, A5, A6, A7, A8, A9, A10. fold (hex_letter (chr (h_name q) 0)). rewrite HH.
  assert (D6 : (dl <? 6)%nat = false) by (apply Nat.ltb_ge; exact Hdl). rewrite D6.
  assert (E : (h_id q =? 0) = false) by (apply N.eqb_neq; exact Hid). rewrite E. reflexivity.
Qed.
