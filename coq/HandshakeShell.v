(* HandshakeShell.v -- what the whole handshake hands to system(): for every script of replies and time-outs,
   every command issued by any step of the sequencing model (Handshake.v), the whole client_handshake included,
   satisfies the command predicate of C13 (ShellProofs.shell_cmd_ok): the only step that calls system() is
   handshake_login, with the commands Shell.login_step builds from a reply that fits the login query. *)
From Coq Require Import List NArith ZArith Arith Bool Lia.
From RecordUpdate Require Import RecordUpdate.
From Iodine Require Import Generated.SrcConsts Base DnsName DnsMsg Negotiate Login LoginGlue Shell ShellProofs Handshake.
Import ListNotations.
Local Open Scope N_scope.

Definition SysOk (s : hs) : Prop :=
  ifname_fits (h_ifname s) /\ Forall (shell_cmd_ok (h_ifname s)) (h_sys s).

Definition Inv {A} (m : M A) : Prop := forall s l, SysOk s -> SysOk (snd (fst (m s l))).

Lemma Inv_ret {A} (a : A) : Inv (ret a).
Proof. intros s l H; exact H. Qed.
Lemma Inv_get : Inv get.
Proof. intros s l H; exact H. Qed.
Lemma Inv_bind {A B} (m : M A) (f : A -> M B) : Inv m -> (forall a, Inv (f a)) -> Inv (bind m f).
Proof.
  intros Hm Hf s l H; unfold bind.
  specialize (Hm s l H). destruct (m s l) as [[a s1] l1]; cbn [fst snd] in *.
  exact (Hf a s1 l1 Hm).
Qed.
Lemma Inv_modify (f : hs -> hs) : (forall s, SysOk s -> SysOk (f s)) -> Inv (modify f).
Proof. intros Hf s l H; cbn; auto. Qed.
Lemma Inv_waitdns c1 c2 buflen : Inv (waitdns c1 c2 buflen).
Proof. intros s l H; unfold waitdns; destruct (waitdns_go _ _ _ _ _ l); exact H. Qed.
Lemma Inv_raw_wait : Inv raw_wait.
Proof. intros s l H; unfold raw_wait; destruct l as [|[|m d] r]; exact H. Qed.
Lemma Inv_attempts {A} n (body : M (option A)) (dflt : M A) : Inv body -> Inv dflt -> Inv (attempts n body dflt).
Proof.
  intros Hb Hd; induction n as [|n IH]; cbn [attempts]; [exact Hd |].
  apply Inv_bind; [exact Hb | intros [a|]; [apply Inv_ret | exact IH]].
Qed.

(* a state change that leaves if_name and the command log alone *)
Ltac keeps := apply Inv_modify; intros ? [? ?]; split; assumption.

Lemma Inv_ask c c2 buflen : Inv (ask c c2 buflen).
Proof. unfold ask; apply Inv_bind; [keeps | intros _; apply Inv_waitdns]. Qed.

Ltac inv :=
  repeat first
    [ apply Inv_ret | apply Inv_get | apply Inv_ask | apply Inv_raw_wait | keeps
    | match goal with
      | |- Inv (match ?x with _ => _ end) => destruct x
      | |- Inv (if ?b then _ else _) => destruct b
      | |- Inv (bind _ _) => apply Inv_bind; [| intros ?]
      | |- Inv (attempts _ _ _) => apply Inv_attempts
      end ].

Lemma Inv_version : Inv hs_version. Proof. unfold hs_version, version_body; inv. Qed.
Lemma Inv_upenctest pat : Inv (hs_upenctest pat). Proof. unfold hs_upenctest, upenctest_body; inv. Qed.
Lemma Inv_upenc_chain ps : Inv (hs_upenc_chain ps).
Proof.
  induction ps as [|p t IH]; cbn [hs_upenc_chain]; [apply Inv_ret |].
  apply Inv_bind; [apply Inv_upenctest | intros [| |]; first [exact IH | apply Inv_ret]].
Qed.
Lemma Inv_upenc_alts ps rets : Inv (hs_upenc_alts ps rets).
Proof.
  revert rets; induction ps as [|p t IH]; intros rets; cbn [hs_upenc_alts]; [apply Inv_ret |].
  destruct rets as [|r rt]; [apply Inv_ret |].
  apply Inv_bind; [apply Inv_upenctest | intros [| |]; first [apply IH | apply Inv_ret]].
Qed.
Lemma Inv_upenc_auto : Inv hs_upenc_auto.
Proof. unfold hs_upenc_auto; apply Inv_bind; [apply Inv_upenc_chain | intros [r|]; [apply Inv_ret | apply Inv_upenc_alts]]. Qed.
Lemma Inv_downenctest : Inv hs_downenctest. Proof. unfold hs_downenctest, downenctest_body; inv. Qed.
Lemma Inv_downenc_auto : Inv hs_downenc_auto.
Proof.
  unfold hs_downenc_auto; apply Inv_bind; [apply Inv_get | intros s].
  destruct (_ || _); [apply Inv_ret |].
  apply Inv_bind; [apply Inv_downenctest | intros b64].
  apply Inv_bind; [destruct b64; [apply Inv_ret | apply Inv_downenctest] | intros b64u].
  apply Inv_bind; [destruct (b64 || b64u); [apply Inv_downenctest | apply Inv_ret] | intros b128].
  apply Inv_bind; [destruct (b128 && _); [apply Inv_downenctest | apply Inv_ret] | intros raw].
  apply Inv_ret.
Qed.
Lemma Inv_qtypetest : Inv hs_qtypetest. Proof. unfold hs_qtypetest; inv. Qed.
Lemma Inv_qtype_round fuel q highest : Inv (hs_qtype_round fuel q highest).
Proof.
  revert q; induction fuel as [|f IH]; intros q; cbn [hs_qtype_round]; [apply Inv_ret |].
  destruct (q <? highest)%nat; [|apply Inv_ret].
  destruct (numcvt q =? T_UNSET).
  - apply Inv_bind; [keeps | intros _; apply Inv_ret].
  - apply Inv_bind; [keeps | intros _].
    apply Inv_bind; [apply Inv_qtypetest | intros [|]; [apply Inv_ret | apply IH]].
Qed.
Lemma Inv_qtype_rounds rounds highest : Inv (hs_qtype_rounds rounds highest).
Proof.
  revert highest; induction rounds as [|k IH]; intros highest; cbn [hs_qtype_rounds]; [apply Inv_ret |].
  apply Inv_bind; [apply Inv_qtype_round | intros h; destruct (h =? 0)%nat; [apply Inv_ret | apply IH]].
Qed.
Lemma Inv_qtype_auto : Inv hs_qtype_auto.
Proof. unfold hs_qtype_auto; apply Inv_bind; [apply Inv_qtype_rounds | intros h; apply Inv_bind; [keeps | intros _; apply Inv_ret]]. Qed.
Lemma Inv_switch_codec bits : Inv (hs_switch_codec bits).
Proof. unfold hs_switch_codec; destruct (assoc _ _ _); [|apply Inv_ret]. unfold switch_codec_body; inv. Qed.
Lemma Inv_any_reply c c2 : Inv (attempts 5 (any_reply_body c c2) (ret tt)).
Proof. unfold any_reply_body; inv. Qed.
Lemma Inv_try_lazy : Inv hs_try_lazy. Proof. unfold hs_try_lazy, try_lazy_body, lazy_revert; inv. Qed.
Lemma Inv_lazyoff : Inv hs_lazyoff. Proof. unfold hs_lazyoff, lazyoff_body, lazy_revert; inv. Qed.
Lemma Inv_probe proposed : Inv (hs_probe proposed). Proof. unfold hs_probe, probe_body; inv. Qed.
Lemma Inv_autoprobe_loop fuel proposed range maxf : Inv (hs_autoprobe_loop fuel proposed range maxf).
Proof.
  revert proposed range maxf; induction fuel as [|f IH]; intros proposed range maxf; cbn [hs_autoprobe_loop]; [apply Inv_ret |].
  destruct (_ && _); [|apply Inv_ret].
  apply Inv_bind; [apply Inv_probe | intros p; destruct (_ <? 0)%Z; [apply Inv_ret | apply IH]].
Qed.
Lemma Inv_autoprobe : Inv hs_autoprobe.
Proof. unfold hs_autoprobe; apply Inv_bind; [apply Inv_autoprobe_loop | intros m; apply Inv_ret]. Qed.
Lemma Inv_raw_udp seed : Inv (hs_raw_udp seed).
Proof. unfold hs_raw_udp, rawip_body, rawlogin_body, send_raw; inv. Qed.

(* the one place where commands are added: the reply of a fitting login answer through Shell.login_step *)
Lemma Inv_login : Inv hs_login.
Proof.
  unfold hs_login; apply Inv_attempts; [|apply Inv_ret].
  unfold login_body; apply Inv_bind; [apply Inv_ask | intros r].
  destruct r as [| |buf]; try apply Inv_ret.
  destruct (0 <? length buf)%nat; [|apply Inv_ret].
  intros s l H. unfold bind at 1, get.
  destruct (login_step mask_x86 (h_ifname s) true buf) as [cmds more] eqn:E.
  assert (Hc : Forall (shell_cmd_ok (h_ifname s)) cmds).
  { apply Forall_forall; intros c Hin.
    apply (login_step_ok src_setip_cfg mask_x86 (h_ifname s) true buf c src_cfg_safe (proj1 H)).
    unfold login_commands, login_step in *. rewrite E. exact Hin. }
  assert (H' : SysOk (s <| h_sys := h_sys s ++ cmds |>)).
  { destruct H as [H1 H2]; split; [exact H1 | cbn; apply Forall_app; split; assumption]. }
  unfold bind, modify; cbn [fst snd].
  destruct more; [exact H' |].
  destruct cmds as [|c1 [|c2 [|c3 t]]]; try exact H'.
  destruct (is_lnak_or_badip buf); exact H'.
Qed.

Lemma Inv_full rawmode autofrag fragsize : Inv (hs_full rawmode autofrag fragsize).
Proof.
  unfold hs_full.
  apply Inv_bind; [keeps | intros _].
  apply Inv_bind; [apply Inv_get | intros s].
  apply Inv_bind; [destruct (_ =? _); [apply Inv_qtype_auto | apply Inv_ret] | intros r0].
  destruct (negb _); [apply Inv_ret |].
  apply Inv_bind; [apply Inv_version | intros r1].
  destruct (negb _); [apply Inv_ret |].
  apply Inv_bind; [apply Inv_login | intros r2].
  destruct r2 as [[|p|p]|]; try apply Inv_ret.
  apply Inv_bind; [apply Inv_get | intros sv].
  apply Inv_bind; [destruct rawmode; [apply Inv_raw_udp | apply Inv_ret] | intros raw].
  destruct raw; [apply Inv_bind; [keeps | intros _; apply Inv_ret] |].
  apply Inv_bind; [keeps | intros _].
  apply Inv_bind; [apply Inv_downenctest | intros e].
  apply Inv_bind; [keeps | intros _].
  apply Inv_bind; [apply Inv_upenc_auto | intros up].
  apply Inv_bind; [destruct (assoc _ _ _); [apply Inv_switch_codec | apply Inv_ret] | intros _].
  apply Inv_bind; [apply Inv_get | intros s1].
  apply Inv_bind; [destruct (_ =? _); [apply Inv_bind; [apply Inv_downenc_auto | intros d; keeps] | apply Inv_ret] | intros _].
  apply Inv_bind; [apply Inv_get | intros s2].
  apply Inv_bind; [destruct (_ =? _); [apply Inv_ret | apply Inv_any_reply] | intros _].
  apply Inv_bind; [destruct (h_lazy s2); [apply Inv_try_lazy | apply Inv_ret] | intros _].
  apply Inv_bind; [destruct autofrag; [apply Inv_autoprobe | apply Inv_ret] | intros fs].
  destruct (fs =? 0); [apply Inv_ret |].
  apply Inv_bind; [apply Inv_any_reply | intros _; apply Inv_ret].
Qed.

Theorem step_commands_ok st : Inv (run_step st).
Proof.
  destruct st; cbn [run_step];
    first [ apply Inv_login | apply Inv_full
          | apply Inv_bind; [| intros ?; apply Inv_ret];
            first [apply Inv_version | apply Inv_qtype_auto | apply Inv_downenctest | apply Inv_upenctest | apply Inv_upenc_auto
                  | apply Inv_downenc_auto | apply Inv_qtypetest | apply Inv_autoprobe | apply Inv_switch_codec | apply Inv_any_reply
                  | apply Inv_try_lazy | apply Inv_lazyoff | apply Inv_raw_udp] ].
Qed.

(* if_name is never written by the handshake *)
Definition KeepsName {A} (m : M A) : Prop := forall s l, h_ifname (snd (fst (m s l))) = h_ifname s.
Lemma KN_ret {A} (a : A) : KeepsName (ret a). Proof. intros s l; reflexivity. Qed.
Lemma KN_get : KeepsName get. Proof. intros s l; reflexivity. Qed.
Lemma KN_bind {A B} (m : M A) (f : A -> M B) : KeepsName m -> (forall a, KeepsName (f a)) -> KeepsName (bind m f).
Proof.
  intros Hm Hf s l; unfold bind. specialize (Hm s l). destruct (m s l) as [[a s1] l1]; cbn [fst snd] in *.
  rewrite (Hf a s1 l1). exact Hm.
Qed.
Lemma KN_modify (f : hs -> hs) : (forall s, h_ifname (f s) = h_ifname s) -> KeepsName (modify f).
Proof. intros Hf s l; cbn; apply Hf. Qed.
Lemma KN_waitdns c1 c2 buflen : KeepsName (waitdns c1 c2 buflen).
Proof. intros s l; unfold waitdns; destruct (waitdns_go _ _ _ _ _ l); reflexivity. Qed.
Lemma KN_raw_wait : KeepsName raw_wait.
Proof. intros s l; unfold raw_wait; destruct l as [|[|m d] r]; reflexivity. Qed.
Lemma KN_attempts {A} n (body : M (option A)) (dflt : M A) : KeepsName body -> KeepsName dflt -> KeepsName (attempts n body dflt).
Proof.
  intros Hb Hd; induction n as [|n IH]; cbn [attempts]; [exact Hd |].
  apply KN_bind; [exact Hb | intros [a|]; [apply KN_ret | exact IH]].
Qed.
Lemma KN_ask c c2 buflen : KeepsName (ask c c2 buflen).
Proof. unfold ask; apply KN_bind; [apply KN_modify; reflexivity | intros _; apply KN_waitdns]. Qed.

Ltac kn :=
  repeat first
    [ apply KN_ret | apply KN_get | apply KN_ask | apply KN_raw_wait | (apply KN_modify; reflexivity)
    | match goal with
      | |- KeepsName (match ?x with _ => _ end) => destruct x
      | |- KeepsName (if ?b then _ else _) => destruct b
      | |- KeepsName (let '(_, _) := ?x in _) => destruct x
      | |- KeepsName (bind _ _) => apply KN_bind; [| intros ?]
      | |- KeepsName (attempts _ _ _) => apply KN_attempts
      end ].

Lemma KN_upenctest pat : KeepsName (hs_upenctest pat). Proof. unfold hs_upenctest, upenctest_body; kn. Qed.
Lemma KN_upenc_chain ps : KeepsName (hs_upenc_chain ps).
Proof.
  induction ps as [|p t IH]; cbn [hs_upenc_chain]; [apply KN_ret |].
  apply KN_bind; [apply KN_upenctest | intros [| |]; first [exact IH | apply KN_ret]].
Qed.
Lemma KN_upenc_alts ps rets : KeepsName (hs_upenc_alts ps rets).
Proof.
  revert rets; induction ps as [|p t IH]; intros rets; cbn [hs_upenc_alts]; [apply KN_ret |].
  destruct rets as [|r rt]; [apply KN_ret |].
  apply KN_bind; [apply KN_upenctest | intros [| |]; first [apply IH | apply KN_ret]].
Qed.
Lemma KN_upenc_auto : KeepsName hs_upenc_auto.
Proof. unfold hs_upenc_auto; apply KN_bind; [apply KN_upenc_chain | intros [r|]; [apply KN_ret | apply KN_upenc_alts]]. Qed.
Lemma KN_downenctest : KeepsName hs_downenctest. Proof. unfold hs_downenctest, downenctest_body; kn. Qed.
Lemma KN_downenc_auto : KeepsName hs_downenc_auto.
Proof.
  unfold hs_downenc_auto; apply KN_bind; [apply KN_get | intros s].
  destruct (_ || _); [apply KN_ret |].
  apply KN_bind; [apply KN_downenctest | intros b64].
  apply KN_bind; [destruct b64; [apply KN_ret | apply KN_downenctest] | intros b64u].
  apply KN_bind; [destruct (b64 || b64u); [apply KN_downenctest | apply KN_ret] | intros b128].
  apply KN_bind; [destruct (b128 && _); [apply KN_downenctest | apply KN_ret] | intros raw].
  apply KN_ret.
Qed.
Lemma KN_qtypetest : KeepsName hs_qtypetest. Proof. unfold hs_qtypetest; kn. Qed.
Lemma KN_qtype_round fuel q highest : KeepsName (hs_qtype_round fuel q highest).
Proof.
  revert q; induction fuel as [|f IH]; intros q; cbn [hs_qtype_round]; [apply KN_ret |].
  destruct (q <? highest)%nat; [|apply KN_ret].
  destruct (numcvt q =? T_UNSET).
  - apply KN_bind; [apply KN_modify; reflexivity | intros _; apply KN_ret].
  - apply KN_bind; [apply KN_modify; reflexivity | intros _].
    apply KN_bind; [apply KN_qtypetest | intros [|]; [apply KN_ret | apply IH]].
Qed.
Lemma KN_qtype_rounds rounds highest : KeepsName (hs_qtype_rounds rounds highest).
Proof.
  revert highest; induction rounds as [|k IH]; intros highest; cbn [hs_qtype_rounds]; [apply KN_ret |].
  apply KN_bind; [apply KN_qtype_round | intros h; destruct (h =? 0)%nat; [apply KN_ret | apply IH]].
Qed.
Lemma KN_qtype_auto : KeepsName hs_qtype_auto.
Proof. unfold hs_qtype_auto; apply KN_bind; [apply KN_qtype_rounds | intros h; apply KN_bind; [apply KN_modify; reflexivity | intros _; apply KN_ret]]. Qed.
Lemma KN_version : KeepsName hs_version. Proof. unfold hs_version, version_body; kn. Qed.
Lemma KN_switch_codec bits : KeepsName (hs_switch_codec bits).
Proof. unfold hs_switch_codec; destruct (assoc _ _ _); [|apply KN_ret]. unfold switch_codec_body; kn. Qed.
Lemma KN_any_reply c c2 : KeepsName (attempts 5 (any_reply_body c c2) (ret tt)).
Proof. unfold any_reply_body; kn. Qed.
Lemma KN_try_lazy : KeepsName hs_try_lazy. Proof. unfold hs_try_lazy, try_lazy_body, lazy_revert; kn. Qed.
Lemma KN_lazyoff : KeepsName hs_lazyoff. Proof. unfold hs_lazyoff, lazyoff_body, lazy_revert; kn. Qed.
Lemma KN_probe proposed : KeepsName (hs_probe proposed). Proof. unfold hs_probe, probe_body; kn. Qed.
Lemma KN_autoprobe_loop fuel proposed range maxf : KeepsName (hs_autoprobe_loop fuel proposed range maxf).
Proof.
  revert proposed range maxf; induction fuel as [|f IH]; intros proposed range maxf; cbn [hs_autoprobe_loop]; [apply KN_ret |].
  destruct (_ && _); [|apply KN_ret].
  apply KN_bind; [apply KN_probe | intros p; destruct (_ <? 0)%Z; [apply KN_ret | apply IH]].
Qed.
Lemma KN_autoprobe : KeepsName hs_autoprobe.
Proof. unfold hs_autoprobe; apply KN_bind; [apply KN_autoprobe_loop | intros m; apply KN_ret]. Qed.
Lemma KN_raw_udp seed : KeepsName (hs_raw_udp seed).
Proof. unfold hs_raw_udp, rawip_body, rawlogin_body, send_raw; kn. Qed.
Lemma KN_login : KeepsName hs_login.
Proof. unfold hs_login, login_body; kn. Qed.
Lemma KN_full rawmode autofrag fragsize : KeepsName (hs_full rawmode autofrag fragsize).
Proof.
  unfold hs_full.
  apply KN_bind; [apply KN_modify; reflexivity | intros _].
  apply KN_bind; [apply KN_get | intros s].
  apply KN_bind; [destruct (_ =? _); [apply KN_qtype_auto | apply KN_ret] | intros r0].
  destruct (negb _); [apply KN_ret |].
  apply KN_bind; [apply KN_version | intros r1].
  destruct (negb _); [apply KN_ret |].
  apply KN_bind; [apply KN_login | intros r2].
  destruct r2 as [[|p|p]|]; try apply KN_ret.
  apply KN_bind; [apply KN_get | intros sv].
  apply KN_bind; [destruct rawmode; [apply KN_raw_udp | apply KN_ret] | intros raw].
  destruct raw; [apply KN_bind; [apply KN_modify; reflexivity | intros _; apply KN_ret] |].
  apply KN_bind; [apply KN_modify; reflexivity | intros _].
  apply KN_bind; [apply KN_downenctest | intros e].
  apply KN_bind; [apply KN_modify; reflexivity | intros _].
  apply KN_bind; [apply KN_upenc_auto | intros up].
  apply KN_bind; [destruct (assoc _ _ _); [apply KN_switch_codec | apply KN_ret] | intros _].
  apply KN_bind; [apply KN_get | intros s1].
  apply KN_bind; [destruct (_ =? _); [apply KN_bind; [apply KN_downenc_auto | intros d; apply KN_modify; reflexivity] | apply KN_ret] | intros _].
  apply KN_bind; [apply KN_get | intros s2].
  apply KN_bind; [destruct (_ =? _); [apply KN_ret | apply KN_any_reply] | intros _].
  apply KN_bind; [destruct (h_lazy s2); [apply KN_try_lazy | apply KN_ret] | intros _].
  apply KN_bind; [destruct autofrag; [apply KN_autoprobe | apply KN_ret] | intros fs].
  destruct (fs =? 0); [apply KN_ret |].
  apply KN_bind; [apply KN_any_reply | intros _; apply KN_ret].
Qed.

Lemma step_keeps_name st : KeepsName (run_step st).
Proof.
  destruct st; cbn [run_step];
    first [ apply KN_login | apply KN_full
          | apply KN_bind; [| intros ?; apply KN_ret];
            first [apply KN_version | apply KN_qtype_auto | apply KN_downenctest | apply KN_upenctest | apply KN_upenc_auto
                  | apply KN_downenc_auto | apply KN_qtypetest | apply KN_autoprobe | apply KN_switch_codec | apply KN_any_reply
                  | apply KN_try_lazy | apply KN_lazyoff | apply KN_raw_udp] ].
Qed.

Theorem step_commands_ok_named st s l :
  SysOk s ->
  h_ifname (snd (fst (run_step st s l))) = h_ifname s /\
  Forall (shell_cmd_ok (h_ifname s)) (h_sys (snd (fst (run_step st s l)))).
Proof.
  intros H. pose proof (step_keeps_name st s l) as E. split; [exact E |].
  rewrite <- E. exact (proj2 (step_commands_ok st s l H)).
Qed.
