(* ClientInvariant.v -- C06, part 4c: the buffer / index invariant of the client state machine
   holds after every event list.  Lemmas only. *)
From Coq Require Import List NArith ZArith Arith Bool Lia ZifyBool ZifyNat ZifyN.
From RecordUpdate Require Import RecordUpdate.
From Iodine Require Import Generated.SrcConsts Base Codec Hostname DnsName DnsMsg Client
     DecodeSafetyProofs DecodeSafetyMx DecodeSafetyAnswer ClientStages ClientSafetyProofs.
Import ListNotations.
Local Open Scope N_scope.

Ltac Zify.zify_post_hook ::= Z.div_mod_to_equations.

Definition pk_ok (o : cpkt) : Prop :=
  k_len o <= 65536 /\ (length (k_data o) <= N.to_nat 65536)%nat /\ k_seqno o < 8.
Definition in_ok (i : cpkt) : Prop := pk_ok i /\ (0 <= k_fragment i < 16)%Z.
Definition out_ok (o : cpkt) : Prop := pk_ok o /\ k_offset o <= k_len o /\ (0 <= k_fragment o <= 16)%Z.

Definition inv_fields (s : cstate) :=
  (c_in s, c_out s, c_datacmc s, (c_chunkid s, c_prev s, c_prev2 s, c_rand_seed s)).

Definition Inv (s : cstate) : Prop :=
  in_ok (c_in s) /\ out_ok (c_out s) /\ (c_datacmc s < 36)%nat /\ ids_ok s.

Lemma Inv_same s s' : inv_fields s' = inv_fields s -> Inv s -> Inv s'.
Proof.
  unfold inv_fields, Inv, ids_ok. intros E. inversion E as [[E1 E2 E3 E4 E5 E6 E7]].
  rewrite E1, E2, E3, E4, E5, E6, E7. tauto.
Qed.

Lemma out_ok_frame o o' : out_frame o o' -> out_ok o -> out_ok o'.
Proof.
  unfold out_frame, out_ok, pk_ok. intros (F1 & F2 & F3 & F4 & F5). rewrite F1, F2, F3, F4, F5. tauto.
Qed.

Lemma core_in s s' : core s' = core s -> c_in s' = c_in s.
Proof. unfold core. intros E. inversion E. reflexivity. Qed.

(* a quiet sender preserves the invariant *)
Lemma Inv_quiet s s' o : quiet s s' o -> Inv s -> Inv s'.
Proof.
  intros (Q1 & Q2 & Q3 & Q4 & Q5) (I1 & I2 & I3 & I4). unfold Inv.
  rewrite (core_in _ _ Q1), Q2, Q3. auto.
Qed.

Lemma Inv_send_ping s : Inv s -> Inv (fst (send_ping s)).
Proof. apply Inv_quiet with (o := snd (send_ping s)), send_ping_quiet. Qed.

Lemma Inv_send_chunk s : Inv s -> Inv (fst (send_chunk s)).
Proof.
  intros (I1 & I2 & I3 & I4). destruct (send_chunk_frame s) as (F1 & F2 & F3 & F4 & F5).
  unfold Inv. rewrite (core_in _ _ F1). split; [exact I1|]. split; [eapply out_ok_frame; eauto|]. auto.
Qed.

Ltac inv_same H := (eapply Inv_same; [|exact H]); reflexivity.
Ltac inv_in I2 I3 I4 := unfold Inv; split; [|split; [exact I2|split; [exact I3|exact I4]]].
Ltac inv_out I1 I3 I4 := unfold Inv; split; [exact I1|split; [|split; [exact I3|exact I4]]].

Section WithZ.
Variable zc : list N -> list N.
Variable unz : list N -> option (list N).
(* compress2() into out[64*1024] with *destLen = sizeof(out): zlib never reports more than the
   capacity it was given *)
Hypothesis zc_bound : forall p, (length (zc p) <= N.to_nat 65536)%nat.

Lemma Inv_servfail s read rcode : Inv s -> Inv (td_servfail s read rcode).
Proof.
  intros H. unfold td_servfail.
  repeat match goal with |- context[if ?b then _ else _] => destruct b end;
    try exact H; inv_same H.
Qed.

Lemma firstn_pad_length (l : list N) n : length (firstn n (l ++ repeat 0 n)) = n.
Proof. rewrite firstn_length, app_length, repeat_length. lia. Qed.

Lemma Inv_accept buf read2 frag lastflag now_flag st :
  (0 <= frag < 16)%Z -> Inv st -> Inv (fst (fst (td_accept unz buf read2 frag lastflag now_flag st))).
Proof.
  intros Hf (((L1 & L2 & L3) & L4) & I2 & I3 & I4). unfold td_accept. cbv zeta.
  set (piece := firstn _ (skipn 2 _)).
  assert (Hp : (length piece <= N.to_nat (65536 - k_len (c_in st)))%nat).
  { subst piece. rewrite firstn_length. cbn -[N.sub N.to_nat]. lia. }
  destruct lastflag.
  - cbn [fst snd]. rewrite N.eqb_refl. cbn [fst].
    inv_in I2 I3 I4. unfold in_ok, pk_ok. cbn -[N.sub N.to_nat N.add].
    rewrite app_length, firstn_pad_length. fold piece. repeat split; try tauto; try lia.
  - cbn [fst snd].
    match goal with |- context[if ?b then _ else _] => destruct b end; cbn [fst];
      inv_in I2 I3 I4; unfold in_ok, pk_ok; cbn -[N.sub N.to_nat N.add];
      rewrite app_length, firstn_pad_length; fold piece; repeat split; try tauto; try lia.
Qed.

Lemma Inv_down buf read2 sq fr lastflag now_flag s6 :
  sq < 8 -> fr < 16 -> Inv s6 -> Inv (fst (fst (td_down unz buf read2 sq fr lastflag now_flag s6))).
Proof.
  intros Hs Hf H. unfold td_down.
  destruct (2 <? read2)%Z; [|exact H]. cbv zeta.
  assert (Hfr : (0 <= Z.of_N fr < 16)%Z) by lia.
  destruct (negb _).
  { apply Inv_accept; [exact Hfr|].
    destruct H as (((L1 & L2 & L3) & L4) & I2 & I3 & I4).
    inv_in I2 I3 I4. unfold in_ok, pk_ok. cbn -[N.to_nat]. repeat split; try tauto; try lia. }
  destruct (_ && _ && _); [apply Inv_accept; assumption|].
  destruct (_ <=? _)%Z; [cbn [fst]; inv_same H|].
  destruct (_ <? _)%Z; [cbn [fst]; inv_same H|].
  apply Inv_accept; assumption.
Qed.

Lemma schar_wrap_small z : (-128 <= z <= 127)%Z -> schar_wrap z = z.
Proof. unfold schar_wrap. lia. Qed.

Lemma Inv_up us uf now_flag2 s7 : uf < 16 -> Inv s7 -> Inv (fst (fst (td_up us uf now_flag2 s7))).
Proof.
  intros Hu H. unfold td_up.
  destruct (is_sending s7); [|exact H]. cbv zeta.
  destruct (_ && _) eqn:Eack; [|exact H].
  destruct H as (I1 & ((L1 & L2 & L3) & L4 & L5) & I3 & I4).
  destruct (_ <=? _) eqn:Ele.
  - cbn [fst].
    match goal with |- context[if ?b then _ else _] => destruct b end;
      inv_out I1 I3 I4; unfold out_ok, pk_ok; cbn -[N.to_nat]; repeat split; try tauto; try lia.
  - match goal with |- context[send_chunk ?st] => pose proof (Inv_send_chunk st) as Hc;
      destruct (send_chunk st) as [st2 out] end.
    cbn [fst snd] in Hc |- *.
    eapply Inv_same; [|apply Hc]; [reflexivity|].
    inv_out I1 I3 I4. unfold out_ok, pk_ok. cbn -[N.to_nat N.leb N.add schar_wrap] in Ele |- *.
    rewrite schar_wrap_small by lia.
    repeat split; try tauto; try lia.
Qed.

Lemma Inv_oos s3 now_flag : Inv s3 -> Inv (fst (td_oos s3 now_flag)).
Proof.
  intros H. unfold td_oos. cbv zeta.
  match goal with |- context[send_ping ?st] => assert (Hs : Inv st) end.
  { destruct (_ && _ && _); inv_same H. }
  destruct now_flag; [|exact Hs].
  match goal with |- context[send_ping ?st] => pose proof (Inv_send_ping st Hs) as Hp; destruct (send_ping st) as [s6 o] end.
  cbn [fst] in Hp |- *. inv_same Hp.
Qed.

Lemma Inv_recent s3 now qid buf read2 sq fr us uf lastflag now_flag :
  sq < 8 -> fr < 16 -> uf < 16 -> Inv s3 ->
  Inv (fst (td_recent unz s3 now qid buf read2 sq fr us uf lastflag now_flag)).
Proof.
  intros Hs Hf Hu H. unfold td_recent. cbv zeta.
  match goal with |- context[td_down unz buf read2 sq fr lastflag now_flag ?st] => assert (H6 : Inv st) end.
  { match goal with |- Inv (if _ then ?a <| c_in := _ |> <| c_ping_soon := _ |> else _) => assert (H5 : Inv a) end.
    { destruct (_ && _ && _); inv_same H. }
    match goal with |- Inv (if ?b then _ else _) => destruct b end; [|exact H5].
    destruct H5 as (((L1 & L2 & L3) & L4) & I2 & I3 & I4).
    unfold Inv, in_ok, pk_ok. split; [|split; [exact I2|split; [exact I3|exact I4]]].
    cbn -[N.to_nat]. repeat split; try tauto; try lia. }
  match goal with |- context[td_down unz buf read2 sq fr lastflag now_flag ?st] =>
    pose proof (Inv_down buf read2 sq fr lastflag now_flag st Hs Hf H6) as H7;
    destruct (td_down unz buf read2 sq fr lastflag now_flag st) as [[s7 outs_tun] now_flag2] end.
  cbn [fst] in H7.
  pose proof (Inv_up us uf now_flag2 s7 Hu H7) as H8.
  destruct (td_up us uf now_flag2 s7) as [[s8 outs_up] now_flag3]. cbn [fst] in H8.
  destruct now_flag3; [|exact H8].
  pose proof (Inv_send_ping s8 H8) as H9. destruct (send_ping s8) as [s9 o]. cbn [fst] in H9 |- *.
  inv_same H9.
Qed.

Lemma Inv_main s0 now qid buf read : Inv s0 -> Inv (fst (td_main unz s0 now qid buf read)).
Proof.
  intros H. unfold td_main.
  match goal with |- context[let '(s1, now_flag) := ?e in _] => assert (H1 : Inv (fst e)); [|destruct e as [s1 now_flag]] end.
  { destruct (negb _); cbn [fst]; [inv_same H|exact H]. }
  cbn [fst] in H1. cbv zeta.
  match goal with |- context[let '(s2, read2) := ?e in _] => assert (H2 : Inv (fst e)); [|destruct e as [s2 read2]] end.
  { destruct (_ && _ && _); cbn [fst]; [inv_same H1|exact H1]. }
  cbn [fst] in H2.
  match goal with |- context[td_oos ?st now_flag] => assert (H3 : Inv st) end.
  { destruct (_ =? 0); inv_same H2. }
  destruct (negb _); [apply Inv_oos, H3|].
  apply Inv_recent; try exact H3; lia.
Qed.

Lemma Inv_dispatch s0 now r : Inv s0 -> Inv (fst (td_dispatch unz s0 now r)).
Proof.
  intros H. unfold td_dispatch.
  destruct (negb _); [cbn [fst]; inv_same H|].
  destruct (_ <? 2)%Z.
  { cbn [fst]. pose proof (Inv_servfail _ (da_rv r) (da_rcode r) H) as Hs. inv_same Hs. }
  destruct (_ && _); [exact H|].
  apply Inv_main, H.
Qed.

Lemma Inv_raw_recv s now d : Inv s -> Inv (fst (raw_recv unz s now d)).
Proof.
  intros H. unfold raw_recv.
  destruct (_ <? 4)%nat; [exact H|]. destruct (negb _); [exact H|]. cbv zeta.
  destruct (negb _); [exact H|].
  match goal with |- context[if negb _ then (?a, _) else _] => assert (H1 : Inv a) end.
  { destruct (_ || _); [inv_same H|exact H]. }
  destruct (negb _); [exact H1|]. destruct (unz _); exact H1.
Qed.

Lemma Inv_tunnel_dns s now d : Inv s -> Inv (fst (tunnel_dns unz s now d)).
Proof.
  intros H. rewrite tunnel_dns_stages. destruct (negb _); [apply Inv_raw_recv, H|apply Inv_dispatch, H].
Qed.

Lemma Inv_tunnel_tun s pkt : Inv s -> Inv (fst (tunnel_tun zc s pkt)).
Proof.
  intros H. unfold tunnel_tun. destruct pkt as [|b pkt]; [exact H|].
  destruct (is_sending s); [exact H|]. cbv zeta.
  set (outb := zc (b :: pkt)). pose proof (zc_bound (b :: pkt)) as Hz. fold outb in Hz.
  destruct H as (I1 & ((L1 & L2 & L3) & L4 & L5) & I3 & I4).
  assert (HK : N.of_nat (N.to_nat 65536) = 65536) by reflexivity.
  set (K := N.to_nat 65536) in *. clearbody K.
  match goal with |- context[send_chunk ?st] => assert (Hs : Inv st) end.
  { abstract (inv_out I1 I3 I4; unfold out_ok, pk_ok; cbn -[N.modulo N.to_nat]; rewrite firstn_length; repeat split; try tauto; try lia). }
  destruct (c_dns _).
  - pose proof (Inv_send_chunk _ Hs) as Hc. destruct (send_chunk _) as [s2 out]. cbn [fst] in Hc |- *.
    abstract (inv_same Hc).
  - cbn [fst]. destruct Hs as (J1 & ((M1 & M2 & M3) & M4 & M5) & J3 & J4).
    abstract (inv_out I1 I3 I4; unfold out_ok, pk_ok; cbn -[N.modulo N.to_nat] in *; repeat split; try tauto; try lia).
Qed.

Lemma Inv_timeout s : Inv s -> Inv (fst (timeout s)).
Proof.
  intros H. unfold timeout.
  match goal with |- context[let '(s1, o) := ?e in _] => assert (H1 : Inv (fst e)); [|destruct e as [s1 o]] end.
  { destruct (is_sending s); [|apply Inv_send_ping, H].
    destruct (_ <? 3).
    - apply Inv_send_chunk. inv_same H.
    - apply Inv_send_ping. destruct H as (I1 & ((L1 & L2 & L3) & L4 & L5) & I3 & I4).
      inv_out I1 I3 I4. unfold out_ok, pk_ok. cbn -[N.to_nat]. repeat split; try tauto; try lia. }
  cbn [fst] in H1 |- *. inv_same H1.
Qed.

Lemma Inv_cstep s e : Inv s -> Inv (fst (cstep zc unz s e)).
Proof.
  intros H. unfold cstep. cbv zeta.
  match goal with |- context[watchdog s ?n] => assert (Hw : Inv (watchdog s n)) end.
  { unfold watchdog. destruct (_ <? _); [inv_same H|exact H]. }
  destruct (negb _); [exact Hw|].
  destruct e as [n pkt|n d|n].
  - destruct (reads_tun _); [apply Inv_tunnel_tun, Hw|exact Hw].
  - apply Inv_tunnel_dns, Hw.
  - apply Inv_timeout, Hw.
Qed.

(* all event lists *)
Definition crun (s : cstate) (evs : list cevent) : cstate :=
  fold_left (fun st e => fst (cstep zc unz st e)) evs s.

Lemma Inv_crun evs : forall s, Inv s -> Inv (crun s evs).
Proof.
  induction evs as [|e evs IH]; intros s H; [exact H|]. cbn [crun fold_left]. apply IH, Inv_cstep, H.
Qed.

Lemma Inv_init userid domain codec maxlen qtype edns0 lazy dns st chunkid seed now :
  chunkid < 65536 -> seed < 65536 ->
  Inv (client_init userid domain codec maxlen qtype edns0 lazy dns st chunkid seed now).
Proof.
  intros H1 H2. unfold Inv, in_ok, out_ok, pk_ok, ids_ok. cbn -[N.to_nat]. repeat split; lia.
Qed.

(* the invariant spelled out, for every event list from the initial state *)
Lemma state_bounds userid domain codec maxlen qtype edns0 lazy dns st chunkid seed now evs :
  chunkid < 65536 -> seed < 65536 ->
  let s := crun (client_init userid domain codec maxlen qtype edns0 lazy dns st chunkid seed now) evs in
  (* inpkt: reassembly of downstream fragments into inpkt.data[64K] *)
  k_len (c_in s) <= 65536 /\ (length (k_data (c_in s)) <= N.to_nat 65536)%nat /\
  k_seqno (c_in s) < 8 /\ (0 <= k_fragment (c_in s) < 16)%Z /\
  (* outpkt: the compressed upstream packet in outpkt.data[64K], read at data[offset .. len) *)
  k_len (c_out s) <= 65536 /\ (length (k_data (c_out s)) <= N.to_nat 65536)%nat /\
  k_offset (c_out s) <= k_len (c_out s) /\
  k_seqno (c_out s) < 8 /\ (0 <= k_fragment (c_out s) <= 16)%Z /\
  (* datacmcchars[datacmc], 16-bit DNS ids and CMC seed *)
  (c_datacmc s < 36)%nat /\
  c_chunkid s < 65536 /\ c_prev s < 65536 /\ c_prev2 s < 65536 /\ c_rand_seed s < 65536.
Proof.
  intros H1 H2 s.
  pose proof (Inv_crun evs _ (Inv_init userid domain codec maxlen qtype edns0 lazy dns st chunkid seed now H1 H2)) as H.
  fold s in H. unfold Inv, in_ok, out_ok, pk_ok, ids_ok in H. tauto.
Qed.

End WithZ.
