(* DomainDispatchProofs.v -- C17: what the server's dispatcher (Server.tunnel_dns, and
   Server.recv_datagram above it) does with the result of query_datalen.

   src/iodined.c tunnel_dns():   domain_len = query_datalen(q.name, topdomain);
                                 if (domain_len >= 0) { ns./www. A answers; tunnel record types ->
                                   handle_null_request; NS -> handle_ns_request }
                                 else if (bind_fd) forward_query(bind_fd, &q);

   The first part of this file is the specification side, written in the order of the C and
   independently of the way Server.tunnel_dns is organised (which goes through DnsMsg.aux_answer);
   the second part proves that Server.tunnel_dns is that dispatch, that nothing the tunnel
   handlers emit is a forwarded query, and the consequences stated in Properties_C17.v.
   Server.v is not changed. *)
From Coq Require Import List NArith ZArith Arith Bool Lia.
From RecordUpdate Require Import RecordUpdate.
From Iodine Require Import Generated.SrcConsts Base Codec Hostname DnsName DnsMsg Domain Server
  ServerAnswerLedger ServerAnswerChunk ServerAnswerPing ServerAnswerData.
Import ListNotations.
Local Open Scope N_scope.

Ltac lia := clear_oracles; Lia.lia.

(* ---- specification side --------------------------------------------------------------------- *)

(* record types whose queries carry tunnel data (the switch in tunnel_dns) *)
Definition tunnel_rr (ty : N) : bool :=
  (ty =? T_NULL) || (ty =? T_PRIVATE) || (ty =? T_CNAME) || (ty =? T_A) || (ty =? T_MX)
  || (ty =? T_SRV) || (ty =? T_TXT).

(* the A queries for "ns.<domain>" and "www.<domain>", n = data length *)
Definition ns_a_query (q : hq) (n : nat) : bool :=
  (n =? 3)%nat && (h_type q =? T_A)
  && is_letter (chr (h_name q) 0) 110 && is_letter (chr (h_name q) 1) 115 && (chr (h_name q) 2 =? 46).
Definition www_a_query (q : hq) (n : nat) : bool :=
  (n =? 4)%nat && (h_type q =? T_A)
  && is_letter (chr (h_name q) 0) 119 && is_letter (chr (h_name q) 1) 119
  && is_letter (chr (h_name q) 2) 119 && (chr (h_name q) 3 =? 46).

(* the address put into NS / ns. answers: -n option, else the address the query was sent to *)
Definition answer_ip (c : cfg) (q : hq) : option (list N) :=
  match c_ns_ip c with Some ip => Some ip | None => h_dest q end.

(* an auxiliary answer is sent when the encoder produced one *)
Definition aux_out (q : hq) (r : option (list N)) : list out :=
  match r with Some bytes => [OAux (h_from q) bytes] | None => [] end.

Definition is_forward (o : out) : Prop := match o with OForward _ => True | _ => False end.
(* no output is a query forwarded to the -b port *)
Definition no_forward (outs : list out) : Prop := Forall (fun o => ~ is_forward o) outs.

(* some output is a DNS answer (tunnel answer or NS / A auxiliary answer) *)
Definition is_dns_answer (o : out) : Prop :=
  match o with OAnswer _ _ _ _ _ => True | OAux _ _ => True | _ => False end.

Section Dispatch.
Variable login : list N -> N -> list N.
Variable unz : list N -> option (list N).

(* a query whose name is inside the tunnel domain with data length n, in the order of the C *)
Definition in_domain_handling (c : cfg) (st : sstate) (now rnd : N) (q : hq) (n : nat) : sstate * list out :=
  if ns_a_query q n then
    (st, aux_out q (dns_encode_a_response buf64k (to_query q) (answer_ip c q)))
  else if www_a_query q n then
    (st, aux_out q (dns_encode_a_response buf64k (to_query q) (Some [127; 0; 0; 1])))
  else if tunnel_rr (h_type q) then handle_null_request login unz c st now rnd q n
  else if h_type q =? T_NS then
    (st, aux_out q (dns_encode_ns_response buf64k (to_query q) (skipn n (h_name q)) (answer_ip c q)))
  else (st, []).

(* a query whose name is outside the tunnel domain *)
Definition out_of_domain_handling (c : cfg) (st : sstate) (q : hq) : sstate * list out :=
  (st, if c_bind c then [OForward q] else []).

End Dispatch.

(* ---- no_forward: list lemmas ------------------------------------------------------------------ *)

Lemma nf_nil : no_forward [].
Proof. constructor. Qed.

Lemma nf_app a b : no_forward a -> no_forward b -> no_forward (a ++ b).
Proof. intros Ha Hb. apply Forall_app. split; assumption. Qed.

Lemma nf_answer q d e : no_forward [mk_answer q d e].
Proof. constructor; [intros H; exact H|constructor]. Qed.

Lemma nf_aux q r : no_forward (aux_out q r).
Proof. destruct r; [constructor; [intros H; exact H|constructor]|constructor]. Qed.

Lemma nf_in outs q' : no_forward outs -> ~ In (OForward q') outs.
Proof.
  intros H Hin. unfold no_forward in H. rewrite Forall_forall in H. apply (H _ Hin). exact I.
Qed.

(* ---- the handlers below the dispatcher never forward ------------------------------------------- *)

Lemma nf_sc_outs h d dl : no_forward (sc_outs h d dl).
Proof.
  unfold sc_outs. constructor; [intros H; exact H|].
  destruct (h_id2 h =? 0); [constructor|]. constructor; [intros H; exact H|constructor].
Qed.

Lemma nf_send_chunk u w : no_forward (snd (fst (send_chunk_or_dataless u w))).
Proof. destruct (send_chunk_spec u w) as (d & dl & E & _). rewrite E. apply nf_sc_outs. Qed.

Lemma nf_send_chunk_eq u w u' o b : send_chunk_or_dataless u w = (u', o, b) -> no_forward o.
Proof. intros E. pose proof (nf_send_chunk u w) as H. rewrite E in H. exact H. Qed.

Ltac sc_case H :=
  match type of H with
  | context [send_chunk_or_dataless ?u ?w] =>
      let x := fresh "x" in let o := fresh "o" in let a := fresh "a" in let E := fresh "E" in
      destruct (send_chunk_or_dataless u w) as [[x o] a] eqn:E;
      apply nf_send_chunk_eq in E; inversion H; subst; try exact E
  end.

Lemma nf_p_phase1 u1 u2 o1 : p_phase1 u1 = (u2, o1) -> no_forward o1.
Proof.
  unfold p_phase1. intros H. destruct (negb _).
  - sc_case H.
  - inversion H. apply nf_nil.
Qed.

Lemma nf_p_phase2 u2 u3 o2 ds : p_phase2 u2 = (u3, o2, ds) -> no_forward o2.
Proof.
  unfold p_phase2. intros H. destruct (negb _).
  - sc_case H.
  - inversion H. apply nf_nil.
Qed.

Lemma nf_p_phase3 u4 ds u5 o3 : p_phase3 u4 ds = (u5, o3) -> no_forward o3.
Proof.
  unfold p_phase3. intros H. destruct (_ || _).
  - sc_case H.
  - inversion H. apply nf_nil.
Qed.

Lemma nf_ping_tail u now q unpacked u5 outs : ping_tail u now q unpacked = (u5, outs) -> no_forward outs.
Proof.
  unfold ping_tail. cbv zeta. intros H.
  destruct (p_phase1 _) as [u2 o1] eqn:E1.
  destruct (p_phase2 u2) as [[u3 o2] ds] eqn:E2.
  destruct (p_phase3 _ ds) as [u5' o3] eqn:E3.
  inversion H. subst.
  apply nf_app; [eapply nf_p_phase1; eassumption|].
  apply nf_app; [eapply nf_p_phase2; eassumption|eapply nf_p_phase3; eassumption].
Qed.

Lemma nf_ping_guard c st now q unpacked r : ping_guard c st now q unpacked = Some r -> no_forward (snd r).
Proof.
  unfold ping_guard. cbv zeta. intros H.
  repeat match type of H with
         | (if ?b then _ else _) = _ => destruct b
         | match ?x with Some _ => _ | None => _ end = _ => destruct x
         end; inversion H; subst; cbn [snd]; first [apply nf_answer|apply nf_nil].
Qed.

Lemma nf_handle_ping c st now q unpacked : no_forward (snd (handle_ping c st now q unpacked)).
Proof.
  rewrite handle_ping_eq.
  destruct (ping_guard c st now q unpacked) as [r|] eqn:G.
  - eapply nf_ping_guard. exact G.
  - cbv zeta. destruct (ping_tail _ now q unpacked) as [u5 outs] eqn:T. cbn [snd].
    eapply nf_ping_tail. exact T.
Qed.

Lemma nf_send_held st t : no_forward (snd (send_held st t)).
Proof.
  unfold send_held.
  destruct (negb (h_id (u_qs (getu st t)) =? 0)).
  - destruct (send_chunk_or_dataless (getu st t) WQS) as [[u' o] a] eqn:E. cbn [snd].
    eapply nf_send_chunk_eq. exact E.
  - destruct (negb (h_id (u_q (getu st t)) =? 0)).
    + destruct (send_chunk_or_dataless (getu st t) WQ) as [[u' o] a] eqn:E. cbn [snd].
      eapply nf_send_chunk_eq. exact E.
    + apply nf_nil.
Qed.

Lemma nf_single_raw to b : no_forward [ORaw to b].
Proof. constructor; [intros H; exact H|constructor]. Qed.
Lemma nf_single_tun b : no_forward [OTun b].
Proof. constructor; [intros H; exact H|constructor]. Qed.

Section WithUnz.
Variable unz : list N -> option (list N).

Lemma nf_handle_full_packet st now userid : no_forward (snd (handle_full_packet unz st now userid)).
Proof.
  unfold handle_full_packet. cbv zeta.
  destruct (unz _) as [ip|]; [|apply nf_nil].
  destruct (if (24 <=? length ip)%nat then _ else None) as [t|]; [|apply nf_single_tun].
  destruct (u_conn (getu st t)); [apply nf_single_raw|].
  destruct (p_len (u_out (getu st t)) =? 0); [|apply nf_nil].
  match goal with |- context [send_held ?s ?k] => pose proof (nf_send_held s k) as H; destruct (send_held s k) end.
  exact H.
Qed.

Lemma nf_d_phase1 u4 u5 o1 ds : d_phase1 u4 = (u5, o1, ds) -> no_forward o1.
Proof.
  unfold d_phase1. intros H. destruct (negb _).
  - sc_case H.
  - inversion H. apply nf_nil.
Qed.

Lemma nf_d_phase2 ok lf u5 ds1 u6 o2 ds2 : d_phase2 ok lf u5 ds1 = (u6, o2, ds2) -> no_forward o2.
Proof.
  unfold d_phase2. intros H. destruct (negb _).
  - destruct (_ || _).
    + sc_case H.
    + inversion H. apply nf_nil.
  - inversion H. apply nf_nil.
Qed.

Lemma nf_d_phase3 ok lf u7 ds2 u8 o3 : d_phase3 ok lf u7 ds2 = (u8, o3) -> no_forward o3.
Proof.
  unfold d_phase3. intros H. destruct (_ && _).
  - sc_case H.
  - destruct (_ || _).
    + destruct (_ && _).
      * inversion H. apply nf_nil.
      * sc_case H.
    + inversion H. apply nf_nil.
Qed.

Lemma nf_d_users u4 now q ok lf u8 o : d_users u4 now q ok lf = (u8, o) -> no_forward o.
Proof.
  unfold d_users. cbv zeta. intros H.
  destruct (d_phase1 u4) as [[u5 o1] ds1] eqn:E1.
  destruct (d_phase2 ok lf u5 ds1) as [[u6 o2] ds2] eqn:E2.
  destruct (d_phase3 ok lf _ ds2) as [u8' o3] eqn:E3.
  inversion H. subst.
  apply nf_app; [eapply nf_d_phase1; eassumption|].
  apply nf_app; [eapply nf_d_phase2; eassumption|eapply nf_d_phase3; eassumption].
Qed.

Lemma nf_data_guard c st now q inb r : data_guard c st now q inb = Some r -> no_forward (snd r).
Proof.
  unfold data_guard. cbv zeta. intros H.
  repeat match type of H with
         | (if ?b then _ else _) = _ => destruct b
         | match ?x with Some _ => _ | None => _ end = _ => destruct x
         end; inversion H; subst; cbn [snd]; first [apply nf_answer|apply nf_nil].
Qed.

Lemma nf_data_tail st now q i inb dl : no_forward (snd (data_tail unz st now q i inb dl)).
Proof.
  unfold data_tail.
  destruct (data_pre (getu st i) inb dl) as [[u3 ok] lf].
  cbv zeta.
  set (st1 := upd st i (fun _ => u3)).
  assert (H0 : no_forward (snd (if ok && lf then handle_full_packet unz st1 now i else (st1, [])))).
  { destruct (ok && lf); [apply nf_handle_full_packet|apply nf_nil]. }
  destruct (if ok && lf then handle_full_packet unz st1 now i else (st1, [])) as [st2 o0].
  destruct (d_users (getu st2 i) now q ok lf) as [u8 o] eqn:E. cbn [snd] in *.
  apply nf_app; [exact H0|eapply nf_d_users; exact E].
Qed.

Lemma nf_handle_data c st now q inb dl : no_forward (snd (handle_data unz c st now q inb dl)).
Proof.
  rewrite handle_data_eq.
  destruct (data_guard c st now q inb) as [r|] eqn:G.
  - eapply nf_data_guard. exact G.
  - apply nf_data_tail.
Qed.

End WithUnz.

Section WithOracles.
Variable login : list N -> N -> list N.
Variable unz : list N -> option (list N).

Lemma nf_handle_null_request c st now rnd q dl :
  no_forward (snd (handle_null_request login unz c st now rnd q dl)).
Proof.
  unfold handle_null_request. cbv beta zeta.
  repeat match goal with
         | |- no_forward (snd (if ?b then _ else _)) => destruct b
         | |- no_forward (snd (match ?x with Some _ => _ | None => _ end)) => destruct x
         end;
  try solve [cbn [snd]; first [apply nf_answer|apply nf_nil]].
  - apply nf_handle_ping.
  - apply nf_handle_data.
Qed.

(* ---- the dispatcher ----------------------------------------------------------------------------- *)

Lemma lc_letter ch l : 97 <= l <= 122 -> (lc ch =? l) = is_letter ch l.
Proof.
  intros Hl. unfold lc, is_letter.
  destruct ((65 <=? ch) && (ch <=? 90)) eqn:E.
  - apply andb_prop in E. destruct E as [E1 E2]. apply N.leb_le in E1, E2.
    destruct (ch + 32 =? l) eqn:A; destruct (ch =? l) eqn:B; destruct (ch =? l - 32) eqn:C;
      try reflexivity; exfalso;
      repeat match goal with
             | H : (_ =? _) = true |- _ => apply N.eqb_eq in H
             | H : (_ =? _) = false |- _ => apply N.eqb_neq in H
             end; lia.
  - destruct (ch =? l) eqn:B; [reflexivity|]. destruct (ch =? l - 32) eqn:C; [|reflexivity]. exfalso.
    apply N.eqb_eq in C. apply andb_false_iff in E. destruct E as [E|E]; apply N.leb_gt in E; lia.
Qed.

Lemma type_consts :
  (T_NS =? T_A) = false /\ tunnel_rr T_NS = false /\ tunnel_rr T_A = true.
Proof. repeat split; vm_compute; reflexivity. Qed.

(* Server.tunnel_dns is the dispatch of the specification side *)
Lemma tunnel_dns_dispatch c st now rnd q :
  tunnel_dns login unz c st now rnd q =
  match query_datalen (h_name q) (c_topdomain c) with
  | Some n => in_domain_handling login unz c st now rnd q n
  | None => out_of_domain_handling c st q
  end.
Proof.
  unfold tunnel_dns. destruct (query_datalen _ _) as [n|];
    [|unfold out_of_domain_handling; destruct (c_bind c); reflexivity].
  cbv zeta. unfold in_domain_handling, aux_answer, to_query. cbn [q_name q_type].
  fold (chr (h_name q) 0) (chr (h_name q) 1) (chr (h_name q) 2) (chr (h_name q) 3).
  rewrite !lc_letter by lia.
  change DOTC with 46. change DOT with 46.
  fold (ns_a_query q n) (www_a_query q n) (to_query q) (answer_ip c q).
  destruct (ns_a_query q n) eqn:Ens.
  { destruct (dns_encode_a_response _ _ _); reflexivity. }
  destruct (www_a_query q n) eqn:Ewww.
  { destruct (dns_encode_a_response _ _ _); [reflexivity|]. rewrite orb_true_r. reflexivity. }
  cbn [orb].
  destruct (h_type q =? T_NS) eqn:Tns.
  { apply N.eqb_eq in Tns.
    assert (Htr : tunnel_rr (h_type q) = false) by (rewrite Tns; apply type_consts).
    rewrite Htr. destruct (dns_encode_ns_response _ _ _ _); reflexivity. }
  fold (tunnel_rr (h_type q)). destruct (tunnel_rr (h_type q)); reflexivity.
Qed.

Lemma tunnel_dns_inside c st now rnd q n :
  query_datalen (h_name q) (c_topdomain c) = Some n ->
  tunnel_dns login unz c st now rnd q = in_domain_handling login unz c st now rnd q n.
Proof. intros H. rewrite tunnel_dns_dispatch, H. reflexivity. Qed.

Lemma tunnel_dns_outside c st now rnd q :
  query_datalen (h_name q) (c_topdomain c) = None ->
  tunnel_dns login unz c st now rnd q = out_of_domain_handling c st q.
Proof. intros H. rewrite tunnel_dns_dispatch, H. reflexivity. Qed.

Lemma nf_in_domain c st now rnd q n : no_forward (snd (in_domain_handling login unz c st now rnd q n)).
Proof.
  unfold in_domain_handling.
  destruct (ns_a_query q n); [apply nf_aux|].
  destruct (www_a_query q n); [apply nf_aux|].
  destruct (tunnel_rr (h_type q)); [apply nf_handle_null_request|].
  destruct (h_type q =? T_NS); [apply nf_aux|apply nf_nil].
Qed.

Lemma tunnel_dns_inside_no_forward c st now rnd q n :
  query_datalen (h_name q) (c_topdomain c) = Some n ->
  no_forward (snd (tunnel_dns login unz c st now rnd q)).
Proof. intros H. rewrite (tunnel_dns_inside _ _ _ _ _ _ H). apply nf_in_domain. Qed.

(* forwarded exactly when the name is outside the domain and forwarding is configured; the
   forwarded query is the received one *)
Lemma tunnel_dns_forward_iff c st now rnd q q' :
  In (OForward q') (snd (tunnel_dns login unz c st now rnd q)) <->
  (query_datalen (h_name q) (c_topdomain c) = None /\ c_bind c = true /\ q' = q).
Proof.
  split.
  - intros Hin. destruct (query_datalen (h_name q) (c_topdomain c)) as [n|] eqn:E.
    + exfalso. exact (nf_in _ _ (tunnel_dns_inside_no_forward _ _ _ _ _ _ E) Hin).
    + rewrite (tunnel_dns_outside _ _ _ _ _ E) in Hin. unfold out_of_domain_handling in Hin. cbn [snd] in Hin.
      destruct (c_bind c); [|destruct Hin].
      destruct Hin as [Hq|[]]. inversion Hq. repeat split.
  - intros (E & Hb & ->). rewrite (tunnel_dns_outside _ _ _ _ _ E). unfold out_of_domain_handling.
    rewrite Hb. left. reflexivity.
Qed.

(* a name outside the domain is never answered and never changes the sessions *)
Lemma tunnel_dns_outside_silent c st now rnd q :
  query_datalen (h_name q) (c_topdomain c) = None ->
  fst (tunnel_dns login unz c st now rnd q) = st /\
  forall o, In o (snd (tunnel_dns login unz c st now rnd q)) -> ~ is_dns_answer o.
Proof.
  intros E. rewrite (tunnel_dns_outside _ _ _ _ _ E). unfold out_of_domain_handling. split; [reflexivity|].
  cbn [snd]. intros o Hin. destruct (c_bind c); [|destruct Hin].
  destruct Hin as [<-|[]]. intros H. exact H.
Qed.

(* tunnel record types other than A (for A: unless it is the ns./www. query) go to the tunnel handler *)
Lemma tunnel_dns_inside_tunnel_rr c st now rnd q n :
  query_datalen (h_name q) (c_topdomain c) = Some n ->
  tunnel_rr (h_type q) = true -> ns_a_query q n = false -> www_a_query q n = false ->
  tunnel_dns login unz c st now rnd q = handle_null_request login unz c st now rnd q n.
Proof.
  intros E Ht H1 H2. rewrite (tunnel_dns_inside _ _ _ _ _ _ E). unfold in_domain_handling.
  rewrite H1, H2, Ht. reflexivity.
Qed.

Lemma aux_a_zero q : ns_a_query q 0 = false /\ www_a_query q 0 = false.
Proof. split; reflexivity. Qed.

Lemma tunnel_dns_zero_data_tunnel_rr c st now rnd q :
  query_datalen (h_name q) (c_topdomain c) = Some 0%nat -> tunnel_rr (h_type q) = true ->
  tunnel_dns login unz c st now rnd q = handle_null_request login unz c st now rnd q 0.
Proof.
  intros E Ht. apply tunnel_dns_inside_tunnel_rr; [exact E|exact Ht|reflexivity|reflexivity].
Qed.

Lemma tunnel_dns_inside_ns c st now rnd q n :
  query_datalen (h_name q) (c_topdomain c) = Some n -> h_type q = T_NS ->
  tunnel_dns login unz c st now rnd q =
  (st, aux_out q (dns_encode_ns_response buf64k (to_query q) (skipn n (h_name q)) (answer_ip c q))).
Proof.
  intros E Ht. rewrite (tunnel_dns_inside _ _ _ _ _ _ E). unfold in_domain_handling.
  assert (H1 : ns_a_query q n = false).
  { unfold ns_a_query. rewrite Ht. replace (T_NS =? T_A) with false by (symmetry; apply type_consts).
    rewrite andb_false_r. reflexivity. }
  assert (H2 : www_a_query q n = false).
  { unfold www_a_query. rewrite Ht. replace (T_NS =? T_A) with false by (symmetry; apply type_consts).
    rewrite andb_false_r. reflexivity. }
  rewrite H1, H2, Ht. replace (tunnel_rr T_NS) with false by (symmetry; apply type_consts).
  rewrite N.eqb_refl. reflexivity.
Qed.

Lemma tunnel_dns_inside_other c st now rnd q n :
  query_datalen (h_name q) (c_topdomain c) = Some n ->
  tunnel_rr (h_type q) = false -> h_type q <> T_NS ->
  tunnel_dns login unz c st now rnd q = (st, []).
Proof.
  intros E Ht Hn. rewrite (tunnel_dns_inside _ _ _ _ _ _ E). unfold in_domain_handling.
  assert (HA : (h_type q =? T_A) = false).
  { unfold tunnel_rr in Ht. repeat (apply orb_false_elim in Ht; destruct Ht as [Ht ?]). assumption. }
  unfold ns_a_query, www_a_query. rewrite HA, !andb_false_r. cbn [andb].
  rewrite Ht. apply N.eqb_neq in Hn. rewrite Hn. reflexivity.
Qed.

End WithOracles.

(* ---- the NS answer for a name inside the domain is produced -------------------------------------- *)

(* size of what putname writes: every label costs its length + 1, plus the root byte *)
Lemma tokens_go_size s : forall cur,
  (list_sum (map (fun w => S (length w)) (tokens_go s cur)) <= length s + length cur + 1)%nat.
Proof.
  induction s as [|ch s IH]; intros cur.
  - cbn [tokens_go]. destruct cur; cbn [map list_sum fold_right length]; [lia|]. rewrite rev_length. cbn [length]. lia.
  - cbn [tokens_go]. destruct (ch =? DOTC).
    + destruct cur.
      * specialize (IH []). cbn [length] in *. lia.
      * cbn [map list_sum fold_right]. rewrite rev_length. specialize (IH []). unfold list_sum in IH. cbn [length] in *. lia.
    + specialize (IH (ch :: cur)). cbn [length] in *. lia.
Qed.

Lemma putname_go_size ws : forall left r, putname_go ws left = Some r ->
  length r = S (list_sum (map (fun w => S (length w)) ws)).
Proof.
  induction ws as [|w ws IH]; intros left r H.
  - inversion H. reflexivity.
  - cbn [putname_go] in H. destruct (_ || _); [discriminate|].
    destruct (putname_go ws _) as [rest|] eqn:E; [|discriminate]. inversion H.
    cbn [length map list_sum fold_right]. rewrite app_length, (IH _ _ E). unfold list_sum. lia.
Qed.

Lemma cstr_length s : (length (cstr s) <= length s)%nat.
Proof. induction s as [|c s IH]; [apply le_n|]. cbn [cstr]. destruct (c =? 0); cbn [length]; lia. Qed.

Lemma putname_size buflen name : (length (opt_bytes (putname buflen name)) <= length name + 2)%nat.
Proof.
  unfold putname. destruct (putname_go _ _) as [r|] eqn:E; [|cbn [opt_bytes length]; lia].
  cbn [opt_bytes]. rewrite (putname_go_size _ _ _ E). unfold tokens.
  pose proof (tokens_go_size (cstr name) []) as H. pose proof (cstr_length name) as Hc. cbn [length] in H. lia.
Qed.

Lemma caseeq_refl a : caseeq a a = true.
Proof. induction a as [|x a IH]; [reflexivity|]. cbn [caseeq]. rewrite N.eqb_refl. exact IH. Qed.

Lemma be16_len v : length (DnsMsg.be16 v) = 2%nat.
Proof. reflexivity. Qed.
Lemma be32_len v : length (DnsMsg.be32 v) = 4%nat.
Proof. reflexivity. Qed.
Lemma hdr_len id a b c d e f : length (hdr_bytes id a b c d e f) = 12%nat.
Proof. reflexivity. Qed.

(* the NS encoder succeeds for the matched domain part (skipn n name) of a name of DNS size when
   the match is at a label boundary and the data part is not the single dot *)
Lemma ns_response_some q n dest :
  (n <= length (q_name q))%nat -> (length (q_name q) <= 1000)%nat -> n <> 1%nat ->
  (n = 0%nat \/ nth (n - 1) (q_name q) 0 = 46) ->
  exists bytes, dns_encode_ns_response buf64k q (skipn n (q_name q)) dest = Some bytes.
Proof.
  intros Hn Hlen Hn1 Hb. unfold dns_encode_ns_response.
  assert (B : N.of_nat buf64k = 65536) by reflexivity.
  destruct (buf64k <? 12)%nat eqn:E0; [apply Nat.ltb_lt in E0; lia|].
  rewrite skipn_length.
  destruct (length (q_name q) <? length (q_name q) - n)%nat eqn:E1; [apply Nat.ltb_lt in E1; lia|].
  replace (length (q_name q) - (length (q_name q) - n))%nat with n by lia.
  destruct (n =? 1)%nat eqn:E2; [apply Nat.eqb_eq in E2; lia|].
  rewrite caseeq_refl. cbn [negb].
  assert (E3 : ((1 <=? n)%nat && negb (nth (n - 1) (q_name q) 0 =? DOTC)) = false).
  { destruct Hb as [->|Hb]; [reflexivity|]. rewrite Hb. change (46 =? DOTC) with true. apply andb_false_r. }
  rewrite E3.
  pose proof (putname_size (buf64k - 12) (q_name q)) as Hp.
  set (qn := opt_bytes (putname (buf64k - 12) (q_name q))) in *.
  unfold checklen.
  repeat (rewrite ?app_length, ?be16_len, ?be32_len, ?hdr_len; cbn [length]).
  destruct dest as [ip|].
  - repeat match goal with
           | |- context [negb (?a <=? ?b)%nat] =>
               let E := fresh "E" in destruct (a <=? b)%nat eqn:E; [cbn [negb]|apply Nat.leb_gt in E; lia]
           end.
    eexists. reflexivity.
  - repeat match goal with
           | |- context [negb (?a <=? ?b)%nat] =>
               let E := fresh "E" in destruct (a <=? b)%nat eqn:E; [cbn [negb]|apply Nat.leb_gt in E; lia]
           end.
    eexists. reflexivity.
Qed.

(* query_datalen reports a data length that is a label boundary of the name *)
Lemma qd_scan_bound rq : forall rd n, qd_scan rq rd = Some n ->
  (n < length rq)%nat /\ (n = 0%nat \/ nth (length rq - n) rq 0 = 46).
Proof.
  induction rq as [|qc rq IH]; intros rd n H; [discriminate|].
  cbn [qd_scan] in H. destruct rd as [|dc rd']; [discriminate|].
  assert (AB : forall m, at_boundary rq = true -> m = length rq ->
               (m < length (qc :: rq))%nat /\ (m = 0%nat \/ nth (length (qc :: rq) - m) (qc :: rq) 0 = 46)).
  { intros m Hb ->. split; [cbn [length]; lia|]. destruct rq as [|p rq']; [left; reflexivity|right].
    cbn [at_boundary] in Hb. apply N.eqb_eq in Hb. unfold ch_dot in Hb. subst p.
    cbn [length]. replace (S (S (length rq')) - S (length rq'))%nat with 1%nat by lia. reflexivity. }
  assert (REC : forall rd0, qd_scan rq rd0 = Some n ->
               (n < length (qc :: rq))%nat /\ (n = 0%nat \/ nth (length (qc :: rq) - n) (qc :: rq) 0 = 46)).
  { intros rd0 H0. destruct (IH _ _ H0) as [L [->|R]]; (split; [cbn [length]; lia|]); [left; reflexivity|right].
    cbn [length]. replace (S (length rq) - n)%nat with (S (length rq - n)) by lia. exact R. }
  destruct (dc =? ch_star).
  - destruct (qc =? ch_star); [discriminate|].
    destruct (at_boundary rq) eqn:Hb.
    + inversion H. subst n. apply AB; reflexivity.
    + eapply REC. exact H.
  - destruct (tolower qc =? tolower dc); [|discriminate].
    destruct rd' as [|d2 rd''].
    + destruct (at_boundary rq) eqn:Hb; [|discriminate]. inversion H. subst n. apply AB; reflexivity.
    + eapply REC. exact H.
Qed.

Lemma query_datalen_boundary qn d n : query_datalen qn d = Some n ->
  (n < length qn)%nat /\ (n = 0%nat \/ nth (n - 1) qn 0 = 46).
Proof.
  unfold query_datalen. destruct (_ || _); [discriminate|]. intros H.
  apply qd_scan_bound in H. rewrite rev_length in H. destruct H as [L B]. split; [exact L|].
  destruct B as [->|B]; [left; reflexivity|]. destruct (Nat.eq_dec n 0) as [->|Hn]; [left; reflexivity|right].
  rewrite rev_nth in B by lia.
  replace (length qn - S (length qn - n))%nat with (n - 1)%nat in B by lia. exact B.
Qed.

Section NsAnswered.
Variable login : list N -> N -> list N.
Variable unz : list N -> option (list N).

(* an NS query for a name inside the domain (in particular: for the domain itself, n = 0) is
   answered, with nothing else sent and no session touched.  n = 1 is the name ".domain", which no
   DNS message can carry in a single label sequence without an empty label. *)
Lemma tunnel_dns_ns_answered c st now rnd q n :
  query_datalen (h_name q) (c_topdomain c) = Some n -> h_type q = T_NS ->
  n <> 1%nat -> (length (h_name q) <= 1000)%nat ->
  exists bytes, tunnel_dns login unz c st now rnd q = (st, [OAux (h_from q) bytes]).
Proof.
  intros E Ht Hn1 Hlen. rewrite (tunnel_dns_inside_ns login unz _ _ _ _ _ _ E Ht).
  destruct (query_datalen_boundary _ _ _ E) as [L B].
  destruct (ns_response_some (to_query q) n (answer_ip c q)) as [bytes Hb]; cbn [to_query q_name]; try assumption; try lia.
  cbn [to_query q_name] in Hb. exists bytes. rewrite Hb. reflexivity.
Qed.

End NsAnswered.

(* ---- datagram level -------------------------------------------------------------------------------- *)

Section Datagram.
Variable login : list N -> N -> list N.
Variable unz : list N -> option (list N).

Lemma nf_raw_decode c st now packet from r :
  raw_decode login unz c st now packet from = Some r -> no_forward (snd r).
Proof.
  unfold raw_decode. destruct (_ <? _)%nat; [discriminate|]. destruct (negb _); [discriminate|].
  cbv zeta. intros H. inversion H. clear H.
  destruct (_ =? src_RAW_HDR_CMD_LOGIN).
  { unfold handle_raw_login.
    repeat match goal with |- no_forward (snd (if ?b then _ else _)) => destruct b end;
      cbn [snd]; first [apply nf_nil|apply nf_single_raw]. }
  destruct (_ =? src_RAW_HDR_CMD_DATA).
  { unfold handle_raw_data.
    repeat match goal with |- no_forward (snd (if ?b then _ else _)) => destruct b end;
      first [apply nf_nil|apply nf_handle_full_packet]. }
  destruct (_ =? src_RAW_HDR_CMD_PING).
  { unfold handle_raw_ping.
    repeat match goal with |- no_forward (snd (if ?b then _ else _)) => destruct b end;
      cbn [snd]; first [apply nf_nil|apply nf_single_raw]. }
  apply nf_nil.
Qed.

(* a datagram is forwarded only as the decoded query whose name is outside the domain, and only
   when forwarding is configured *)
Lemma recv_datagram_forward c st now rnd from dest packet q' :
  In (OForward q') (snd (recv_datagram login unz c st now rnd from dest packet)) ->
  query_datalen (h_name q') (c_topdomain c) = None /\ c_bind c = true /\
  h_from q' = from /\ h_dest q' = dest /\
  dq_q (dns_decode_query packet (length packet)) =
    Some {| q_name := h_name q'; q_type := h_type q'; q_id := h_id q' |}.
Proof.
  unfold recv_datagram. destruct packet as [|b p]; [intros []|].
  destruct (raw_decode login unz c st now (b :: p) from) as [r|] eqn:R.
  { intros Hin. exfalso. exact (nf_in _ _ (nf_raw_decode _ _ _ _ _ _ R) Hin). }
  cbv zeta. destruct (dq_q _) as [dq|] eqn:D; [|intros []].
  destruct (0 <? _)%Z; [|intros []].
  intros Hin. apply tunnel_dns_forward_iff in Hin. destruct Hin as (E & Hb & ->).
  cbn [h_name h_type h_id h_from h_dest] in *. destruct dq. repeat split; assumption.
Qed.

End Datagram.

(* ---- the two cases side by side -------------------------------------------------------------------- *)

Section Partition.
Variable login : list N -> N -> list N.
Variable unz : list N -> option (list N).

(* every query falls into exactly one of the two cases (Some n / None exclude each other): inside
   the domain it gets the tunnel handling and nothing is forwarded; outside it is forwarded or
   ignored, no session changes and nothing is answered *)
Lemma tunnel_dns_partition c st now rnd q :
  (exists n, query_datalen (h_name q) (c_topdomain c) = Some n /\
             tunnel_dns login unz c st now rnd q = in_domain_handling login unz c st now rnd q n /\
             no_forward (snd (tunnel_dns login unz c st now rnd q))) \/
  (query_datalen (h_name q) (c_topdomain c) = None /\
   tunnel_dns login unz c st now rnd q = (st, if c_bind c then [OForward q] else []) /\
   forall o, In o (snd (tunnel_dns login unz c st now rnd q)) -> ~ is_dns_answer o).
Proof.
  destruct (query_datalen (h_name q) (c_topdomain c)) as [n|] eqn:E.
  - left. exists n. split; [reflexivity|]. split.
    + apply tunnel_dns_inside. exact E.
    + eapply tunnel_dns_inside_no_forward. exact E.
  - right. split; [reflexivity|]. split.
    + apply tunnel_dns_outside. exact E.
    + apply tunnel_dns_outside_silent. exact E.
Qed.

End Partition.
