(* Client.v -- executable model of the iodine client's tunnelling state machine (src/client.c:
   send_query, send_chunk, send_ping, send_raw, tunnel_tun, tunnel_dns, the select-loop timeout
   branch and the 60 s watchdog of client_tunnel, the raw branch of read_dns_withq).  The
   handshake is not part of this file.  Model only.
   zc / unz (zlib) are Section variables; the clock value [now] comes with every event. *)
From Coq Require Import List NArith ZArith Arith Bool.
From RecordUpdate Require Import RecordUpdate.
From Iodine Require Import Generated.SrcConsts Base Codec Hostname DnsName DnsMsg.
Import ListNotations.
Local Open Scope N_scope.

Record cpkt := mkcpkt {
  k_len : N; k_sentlen : N; k_offset : N; k_data : list N;
  k_seqno : N;        (* 0..7 *)
  k_fragment : Z      (* C char *)
}.
#[export] Instance eta_cpkt : Settable _ := settable! mkcpkt <k_len; k_sentlen; k_offset; k_data; k_seqno; k_fragment>.
Definition cpkt0 : cpkt := {| k_len := 0; k_sentlen := 0; k_offset := 0; k_data := []; k_seqno := 0; k_fragment := 0%Z |}.

Record cstate := mkcstate {
  c_userid : N; c_domain : list N; c_codec : N; c_maxlen : nat; c_qtype : N; c_edns0 : bool;
  c_dns : bool;                 (* conn == CONN_DNS_NULL *)
  c_out : cpkt; c_in : cpkt;
  c_resent : N;                 (* outchunkresent *)
  c_chunkid : N; c_prev : N; c_prev2 : N;
  c_ping_soon : N;              (* send_ping_soon, milliseconds; 0 = off *)
  c_lazy : bool; c_selecttimeout : N;
  c_lastdown : N;               (* lastdownstreamtime *)
  c_rand_seed : N;              (* 16 bit *)
  c_datacmc : nat;
  c_sendcnt : Z; c_recvcnt : Z; (* send_query_sendcnt / recvcnt *)
  c_packrecv : N; c_packrecv_oos : N; c_servfail : N;   (* statics of tunnel_dns *)
  c_running : bool
}.
#[export] Instance eta_cstate : Settable _ := settable! mkcstate
  <c_userid; c_domain; c_codec; c_maxlen; c_qtype; c_edns0; c_dns; c_out; c_in; c_resent; c_chunkid; c_prev; c_prev2;
   c_ping_soon; c_lazy; c_selecttimeout; c_lastdown; c_rand_seed; c_datacmc; c_sendcnt; c_recvcnt;
   c_packrecv; c_packrecv_oos; c_servfail; c_running>.

Inductive cout :=
| CQuery (dgram : list N)      (* sendto(nameserver) *)
| CRaw (frame : list N)        (* sendto(raw server address) *)
| CTun (packet : list N).      (* write_tun *)

Definition codec_of (i : N) : codec := if i =? 0 then b32 else if i =? 1 then b64 else if i =? 2 then b64u else b128.
Definition schar_wrap (z : Z) : Z := ((z + 128) mod 256 - 128)%Z.
Definition is_sending (s : cstate) : bool := negb (k_len (c_out s) =? 0).

Section WithZlib.
Variable zc : list N -> list N.
Variable unz : list N -> option (list N).

(* ---- send_query and the "too few answers" logic ------------------------------------------ *)

Definition next_chunkid (id : N) : N :=
  let v := (id + 7727) mod 65536 in if v =? 0 then 7727 else v.

(* the bare part of send_query: id bookkeeping + encode + sendto *)
Definition send_query_raw (s : cstate) (hostname : list N) : cstate * list cout :=
  let id := next_chunkid (c_chunkid s) in
  let s1 := s <| c_prev2 := c_prev s |> <| c_prev := c_chunkid s |> <| c_chunkid := id |> in
  match dns_encode_query (N.to_nat 4096) (c_edns0 s) id (c_qtype s) hostname with
  | None => (s1, [])
  | Some dg => (s1, [CQuery dg])
  end.

Definition lazy_switch_name (s : cstate) : list N :=
  handshake_name [111; b32_5to8 (c_userid s); if c_lazy s then 108 else 105] (c_rand_seed s) (c_domain s).

(* handshake_lazyoff when none of its (up to 5) attempts gets a reply: 5 switch queries *)
Fixpoint lazyoff_queries (n : nat) (s : cstate) (acc : list cout) : cstate * list cout :=
  match n with
  | O => (s, acc)
  | S n' =>
      let nm := lazy_switch_name s in
      let s1 := s <| c_rand_seed := (c_rand_seed s + 1) mod 65536 |> in
      let '(s2, o) := send_query_raw s1 nm in
      lazyoff_queries n' s2 (acc ++ o)
  end.

Definition send_query (s : cstate) (hostname : list N) : cstate * list cout :=
  let '(s1, o) := send_query_raw s hostname in
  match o with
  | [] => (s1, [])       (* "dns_encode doesn't fit": returns before the counting *)
  | _ =>
    if (0 <=? c_sendcnt s1)%Z && (c_sendcnt s1 <? 100)%Z && c_lazy s1 then
      let s2 := s1 <| c_sendcnt := (c_sendcnt s1 + 1)%Z |> in
      if ((6 <? c_sendcnt s2)%Z && (c_recvcnt s2 <=? 0)%Z) ||
         ((10 <? c_sendcnt s2)%Z && (4 * c_recvcnt s2 <? c_sendcnt s2)%Z) then
        if 1 <? c_selecttimeout s2 then
          (s2 <| c_selecttimeout := 1 |> <| c_sendcnt := 0%Z |> <| c_recvcnt := 0%Z |>, o)
        else
          (* lazymode = 0; selecttimeout = 1; handshake_lazyoff(fd) *)
          let s3 := s2 <| c_lazy := false |> <| c_selecttimeout := 1 |> in
          let '(s4, o2) := lazyoff_queries 5 s3 [] in
          (s4, o ++ o2)
      else (s2, o)
    else (s1, o)
  end.

(* ---- senders -------------------------------------------------------------------------------- *)

Definition send_chunk (s : cstate) : cstate * list cout :=
  let o := c_out s in
  let avail := firstn (N.to_nat (k_len o - k_offset o)) (skipn (N.to_nat (k_offset o)) (k_data o)) in
  match send_chunk_name (codec_of (c_codec s)) (c_userid s) (k_seqno o) (Z.to_N (k_fragment o mod 16))
          (k_seqno (c_in s)) (Z.to_N (k_fragment (c_in s) mod 16)) (c_datacmc s) avail (c_domain s) (c_maxlen s) with
  | None => (s, [])      (* outside the modelled domain (hostname limit too small) *)
  | Some (name, n) =>
      let s1 := s <| c_out := o <| k_sentlen := N.of_nat n |> |>
                  <| c_datacmc := if (36 <=? S (c_datacmc s))%nat then O else S (c_datacmc s) |> in
      send_query s1 name
  end.

Definition raw_frame (cmd : N) (userid : N) (data : list N) : list N :=
  firstn 3 src_raw_header ++ [N.lor cmd (N.land userid 15)] ++ firstn (N.to_nat 4092) data.

Definition send_ping (s : cstate) : cstate * list cout :=
  if c_dns s then
    let data := ping_data (c_userid s) (k_seqno (c_in s)) (Z.to_N (k_fragment (c_in s) mod 16)) (c_rand_seed s) in
    let s1 := s <| c_rand_seed := (c_rand_seed s + 1) mod 65536 |> in
    match packet_name 112 data (c_domain s) (c_maxlen s) with
    | None => (s1, [])
    | Some (name, _) => send_query s1 name
    end
  else (s, [CRaw (raw_frame src_RAW_HDR_CMD_PING (c_userid s) [])]).

(* ---- tunnel_tun: a packet read from the tun device ---------------------------------------- *)

Definition tunnel_tun (s : cstate) (pkt : list N) : cstate * list cout :=
  match pkt with
  | [] => (s, [])
  | _ =>
    if is_sending s then (s, [])
    else
      let outb := zc pkt in
      let o := {| k_len := N.of_nat (length outb); k_sentlen := 0; k_offset := 0;
                  k_data := firstn (N.to_nat 65536) outb;
                  k_seqno := (k_seqno (c_out s) + 1) mod 8; k_fragment := 0%Z |} in
      let s1 := s <| c_out := o |> <| c_resent := 0 |> in
      if c_dns s1 then
        let '(s2, out) := send_chunk s1 in (s2 <| c_ping_soon := 0 |>, out)
      else
        (s1 <| c_out := o <| k_len := 0 |> |>,
         [CRaw (raw_frame src_RAW_HDR_CMD_DATA (c_userid s1) (firstn (N.to_nat (k_len o)) (k_data o)))])
  end.

(* ---- tunnel_dns: a datagram on the DNS socket --------------------------------------------- *)

Definition list_eqb (a b : list N) : bool :=
  (length a =? length b)%nat && forallb (fun p => fst p =? snd p) (combine a b).

Definition recent_seqno (ours got : N) : bool :=
  existsb (fun k => got =? (ours + 8 - k) mod 8) [0; 1; 2; 3].

Definition userid_chars (uid : N) : N * N :=
  (if uid <? 10 then 48 + uid else 87 + uid, if uid <? 10 then 48 + uid else 55 + uid).

(* raw branch of read_dns_withq *)
Definition raw_recv (s : cstate) (now : N) (d : list N) : cstate * list cout :=
  if (length d <? 4)%nat then (s, []) else
  if negb (list_eqb (firstn 3 d) (firstn 3 src_raw_header)) then (s, []) else
  let b := nth 3 d 0 in
  if negb (N.land b src_RAW_HDR_USR_MASK =? c_userid s) then (s, []) else
  let cmd := N.land b src_RAW_HDR_CMD_MASK in
  let s1 := if (cmd =? src_RAW_HDR_CMD_DATA) || (cmd =? src_RAW_HDR_CMD_PING) then s <| c_lastdown := now |> else s in
  if negb (cmd =? src_RAW_HDR_CMD_DATA) then (s1, []) else
  match unz (skipn 4 d) with
  | Some p => (s1, [CTun p])
  | None => (s1, [])
  end.

Definition tunnel_dns (s0 : cstate) (now : N) (d : list N) : cstate * list cout :=
  if negb (c_dns s0) then raw_recv s0 now d else
  let r := client_extract (N.to_nat 65536) d (length d) in
  let read := da_rv r in
  let buf := da_out r in
  let name0 := match da_name0 r with Some c => c | None => 0 end in
  let qid := match da_id r with Some i => i | None => 0 end in
  let '(uc1, uc2) := userid_chars (c_userid s0) in
  if negb ((name0 =? 80) || (name0 =? 112) || (name0 =? uc1) || (name0 =? uc2)) then
    (s0 <| c_ping_soon := 700 |>, [])
  else if (read <? 2)%Z then
    let s1 :=
      if (read <? 0)%Z && (da_rcode r =? 2) && c_lazy s0 && (1 <? c_selecttimeout s0) then
        if (c_packrecv s0 <? 500) && (c_servfail s0 <? 4) then s0 <| c_servfail := c_servfail s0 + 1 |>
        else if (c_packrecv s0 <? 500) && (c_servfail s0 =? 4)
             then s0 <| c_servfail := c_servfail s0 + 1 |> <| c_selecttimeout := 1 |> <| c_sendcnt := 0%Z |> <| c_recvcnt := 0%Z |>
        else if (500 <=? c_packrecv s0) && (0 <? c_servfail s0) then s0 <| c_servfail := 0 |>
        else s0
      else s0 in
    (s1 <| c_ping_soon := 900 |>, [])
  else if (read =? 5)%Z && list_eqb (firstn 5 buf) [66;65;68;73;80] then (s0, [])
  else
    let '(s1, now_flag) := if negb (c_ping_soon s0 =? 0) then (s0 <| c_ping_soon := 0 |>, true) else (s0, false) in
    let b0 := nth 0 buf 0 in
    let b1 := nth 1 buf 0 in
    let new_down_seqno := (b1 / 32) mod 8 in
    let new_down_fragment := (b1 / 2) mod 16 in
    let up_ack_seqno := (b0 / 16) mod 8 in
    let up_ack_fragment := b0 mod 16 in
    let lastflag := (b1 mod 2) =? 1 in
    (* downstream dupes of recent packets are treated as dataless *)
    let '(s2, read2) :=
      if (2 <? read)%Z && negb (new_down_seqno =? k_seqno (c_in s1)) && recent_seqno (k_seqno (c_in s1)) new_down_seqno
      then (s1 <| c_ping_soon := 500 |>, 2%Z) else (s1, read) in
    let s3 := (if c_packrecv s2 / 16777216 mod 2 =? 0 then s2 <| c_packrecv := c_packrecv s2 + 1 |> else s2)
                <| c_recvcnt := (c_recvcnt s2 + 1)%Z |> in
    if negb ((qid =? c_chunkid s3) || (qid =? c_prev s3) || (qid =? c_prev2 s3)) then
      let s4 := s3 <| c_packrecv_oos := c_packrecv_oos s3 + 1 |> in
      let s5 := if c_lazy s4 && (c_packrecv s4 <? 1000) && (c_packrecv_oos s4 =? 5)
                then s4 <| c_selecttimeout := 1 |> <| c_sendcnt := 0%Z |> <| c_recvcnt := 0%Z |> else s4 in
      if now_flag then let '(s6, o) := send_ping s5 in (s6 <| c_ping_soon := 0 |>, o) else (s5, [])
    else
      let s4 := s3 <| c_lastdown := now |> in
      let s5 := if (qid =? c_chunkid s4) && c_lazy s4 && ((c_ping_soon s4 =? 0) || (900 <? c_ping_soon s4))
                then s4 <| c_ping_soon := 900 |> else s4 in
      let inp := c_in s5 in
      let s6 := if (read2 =? 2)%Z && negb (new_down_seqno =? k_seqno inp) && negb (recent_seqno (k_seqno inp) new_down_seqno)
                then s5 <| c_in := inp <| k_seqno := new_down_seqno |> <| k_fragment := Z.of_N new_down_fragment |> <| k_len := 0 |> |>
                        <| c_ping_soon := 500 |>
                else s5 in
      (* downstream data *)
      let '(s7, outs_tun, now_flag2) :=
        if (2 <? read2)%Z then
          let inp := c_in s6 in
          let frag := Z.of_N new_down_fragment in
          let accept (st : cstate) :=
            let inp1 := (c_in st) <| k_fragment := frag |> in
            let payload := skipn 2 (firstn (Z.to_nat read2) buf) in
            let room := N.to_nat (65536 - k_len inp1) in
            let piece := firstn room payload in
            let data' := firstn (N.to_nat (k_len inp1)) (k_data inp1 ++ repeat 0 (N.to_nat (k_len inp1))) ++ piece in
            let inp2 := inp1 <| k_data := data' |> <| k_len := k_len inp1 + N.of_nat (length piece) |> in
            let '(inp3, tun) :=
              if lastflag then
                (inp2 <| k_len := 0 |>,
                 match unz (firstn (N.to_nat (k_len inp2)) (k_data inp2)) with Some p => [CTun p] | None => [] end)
              else (inp2, []) in
            let st1 := st <| c_in := inp3 |> in
            if k_len inp3 =? 0 then (st1 <| c_ping_soon := 5 |>, tun, now_flag)
            else (st1, tun, true) in
          if negb (new_down_seqno =? k_seqno inp) then
            accept (s6 <| c_in := inp <| k_seqno := new_down_seqno |> <| k_fragment := frag |> <| k_len := 0 |> |>)
          else if (k_fragment inp =? 0)%Z && (new_down_fragment =? 0) && (k_len inp =? 0) then accept s6
          else if (frag <=? k_fragment inp)%Z then (s6 <| c_ping_soon := 500 |>, [], now_flag)
          else if (k_fragment inp + 1 <? frag)%Z then (s6 <| c_ping_soon := 500 |>, [], now_flag)
          else accept s6
        else (s6, [], now_flag) in
      (* upstream acks *)
      let '(s8, outs_up, now_flag3) :=
        if is_sending s7 then
          let o := c_out s7 in
          if (up_ack_seqno =? k_seqno o) && (Z.of_N up_ack_fragment =? k_fragment o)%Z then
            let o1 := o <| k_offset := k_offset o + k_sentlen o |> in
            if k_len o1 <=? k_offset o1 then
              let st := s7 <| c_out := o1 <| k_offset := 0 |> <| k_len := 0 |> <| k_sentlen := 0 |> |> <| c_resent := 0 |> in
              (if (c_ping_soon st =? 0) || (20 <? c_ping_soon st) then st <| c_ping_soon := 20 |> else st, [], now_flag2)
            else
              let st := s7 <| c_out := o1 <| k_fragment := schar_wrap (k_fragment o1 + 1) |> |> <| c_resent := 0 |> in
              let '(st2, out) := send_chunk st in
              (st2 <| c_ping_soon := 0 |>, out, false)
          else (s7, [], now_flag2)
        else (s7, [], now_flag2) in
      if now_flag3 then
        let '(s9, o) := send_ping s8 in (s9 <| c_ping_soon := 0 |>, outs_tun ++ outs_up ++ o)
      else (s8, outs_tun ++ outs_up).

(* ---- select() timeout branch and watchdog of client_tunnel ----------------------------------- *)

Definition watchdog (s : cstate) (now : N) : cstate :=
  if c_lastdown s + 60 <? now then s <| c_running := false |> else s.

Definition timeout (s : cstate) : cstate * list cout :=
  let '(s1, o) :=
    if is_sending s then
      if c_resent s <? 3 then send_chunk (s <| c_resent := c_resent s + 1 |>)
      else send_ping (s <| c_out := (c_out s) <| k_offset := 0 |> <| k_len := 0 |> <| k_sentlen := 0 |> |> <| c_resent := 0 |>)
    else send_ping s in
  (s1 <| c_ping_soon := 0 |>, o).

(* may the select loop read the tun device in this state? *)
Definition reads_tun (s : cstate) : bool := negb (is_sending s) || (2 <=? c_resent s).

(* the timeout select() is armed with, in milliseconds *)
Definition select_timeout_ms (s : cstate) : N :=
  if negb (c_ping_soon s =? 0) then c_ping_soon s
  else if is_sending s then 1000 else c_selecttimeout s * 1000.

Inductive cevent :=
| CETun (now : N) (pkt : list N)
| CEDns (now : N) (dgram : list N)
| CETimeout (now : N).

(* one iteration of the select loop; the watchdog is evaluated after select() returns *)
Definition cstep (s : cstate) (e : cevent) : cstate * list cout :=
  let now := match e with CETun n _ => n | CEDns n _ => n | CETimeout n => n end in
  let s1 := watchdog s now in
  if negb (c_running s1) then (s1, []) else
  match e with
  | CETun _ pkt => if reads_tun s1 then tunnel_tun s1 pkt else (s1, [])
  | CEDns _ d => tunnel_dns s1 now d
  | CETimeout _ => timeout s1
  end.

End WithZlib.

Definition client_init (userid : N) (domain : list N) (codec : N) (maxlen : nat) (qtype : N) (edns0 lazy dns : bool)
           (selecttimeout : N) (chunkid rand_seed now : N) : cstate :=
  {| c_userid := userid; c_domain := domain; c_codec := codec; c_maxlen := maxlen; c_qtype := qtype; c_edns0 := edns0;
     c_dns := dns; c_out := cpkt0; c_in := cpkt0; c_resent := 0;
     c_chunkid := chunkid; c_prev := 0; c_prev2 := 0; c_ping_soon := 1;
     c_lazy := lazy; c_selecttimeout := selecttimeout; c_lastdown := now;
     c_rand_seed := rand_seed; c_datacmc := O; c_sendcnt := 0%Z; c_recvcnt := 0%Z;
     c_packrecv := 0; c_packrecv_oos := 0; c_servfail := 0; c_running := true |}.
