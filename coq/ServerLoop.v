(* ServerLoop.v -- one iteration of the select loop of tunnel() (iodined.c) around the handlers of Server.v:

       for all live sessions: q_sendrealsoon_new = 0                     (sweep_clear)
       select(): the tun device is in the read set only if !all_users_waiting_to_send()   (user.c)
       tun readable -> tunnel_tun;  DNS socket readable -> tunnel_dns     (in this order)
       for all live DNS sessions with a held, not new, send-real-soon query: answer it        (sweep_send)

   The environment of one iteration is an event: the select timeout, a tun packet, a datagram, or both.  A tun
   packet that becomes readable while the tun device is not in the read set stays in the kernel: the
   iteration is then whatever else happened (a timeout, or the datagram alone).  max_idle_time is 0. *)
From Coq Require Import List NArith ZArith Bool Lia.
From RecordUpdate Require Import RecordUpdate.
From Iodine Require Import Base Server.
Import ListNotations.
Local Open Scope N_scope.

(* user.c all_users_waiting_to_send(): is there a session that could take a packet from the tun device? *)
Definition can_take (now : N) (u : suser) : bool :=
  u_active u && negb (u_disabled u) && live now u &&
  match u_conn u with CONN_RAW => true | CONN_DNS => (u_queue_filled u <? 1)%nat end.

Definition all_waiting (st : sstate) (now : N) : bool := negb (existsb (can_take now) st).

Inductive slevent :=
| SLTimeout (now : N)
| SLTun (now : N) (pkt : list N)
| SLDgram (now rnd : N) (from : addr) (dest : option (list N)) (dg : list N)
| SLBoth (now : N) (pkt : list N) (rnd : N) (from : addr) (dest : option (list N)) (dg : list N).

Definition slnow (e : slevent) : N :=
  match e with SLTimeout n => n | SLTun n _ => n | SLDgram n _ _ _ _ => n | SLBoth n _ _ _ _ _ => n end.

Section WithOracles.
Variable login : list N -> N -> list N.
Variable zc : list N -> list N.
Variable unz : list N -> option (list N).

(* [prev]: the clock at the top of the iteration, before select() blocks (= the time of the previous iteration);
   the clear loop and the decision whether to read the tun device use it, the handlers and the final sweep use the
   time at which select() returned *)
Definition siter (c : cfg) (st : sstate) (prev : N) (e : slevent) : sstate * list out :=
  let now := slnow e in
  let st0 := sweep_clear st prev in
  let tun_sel := negb (all_waiting st0 prev) in
  let '(st1, o1) :=
    match e with
    | SLTimeout _ => (st0, [])
    | SLTun _ pkt => if tun_sel then Server.tunnel_tun zc st0 now pkt else (st0, [])
    | SLDgram _ rnd from dest dg => recv_datagram login unz c st0 now rnd from dest dg
    | SLBoth _ pkt rnd from dest dg =>
        if tun_sel then
          let '(sa, oa) := Server.tunnel_tun zc st0 now pkt in
          let '(sb, ob) := recv_datagram login unz c sa now rnd from dest dg in
          (sb, oa ++ ob)
        else recv_datagram login unz c st0 now rnd from dest dg
    end in
  let '(st2, o2) := sweep_send (length st1) 0 st1 now [] in
  (st2, o1 ++ o2).

(* back-pressure: while every live session already has a queued downstream packet, the tun device is not read *)
Lemma siter_backpressure c st prev now pkt :
  all_waiting (sweep_clear st prev) prev = true ->
  siter c st prev (SLTun now pkt) = siter c st prev (SLTimeout now).
Proof. intros H. unfold siter. cbn [slnow]. rewrite H. reflexivity. Qed.

(* and the other way round: a live raw-mode session, or a live DNS-mode session with an empty ring, keeps the tun device
   selected -- whatever is left in a raw-mode session's ring from before it switched to raw mode *)
Lemma taker_keeps_tun_selected (st0 : sstate) (prev : N) (i : nat) :
  (i < length st0)%nat ->
  u_active (getu st0 i) = true -> u_disabled (getu st0 i) = false -> live prev (getu st0 i) = true ->
  (u_conn (getu st0 i) = CONN_RAW \/ (u_conn (getu st0 i) = CONN_DNS /\ u_queue_filled (getu st0 i) = O)) ->
  all_waiting st0 prev = false.
Proof.
  intros Hi Ha Hd Hl Hc. unfold all_waiting. apply Bool.negb_false_iff. apply existsb_exists.
  exists (getu st0 i). split; [unfold getu; apply nth_In; exact Hi|].
  unfold can_take. rewrite Ha, Hd, Hl. cbn [negb andb].
  destruct Hc as [-> | [-> Hq]]; [reflexivity|]. rewrite Hq. reflexivity.
Qed.

Lemma siter_reads_tun c st prev now pkt i :
  let st0 := sweep_clear st prev in
  (i < length st0)%nat ->
  u_active (getu st0 i) = true -> u_disabled (getu st0 i) = false -> live prev (getu st0 i) = true ->
  (u_conn (getu st0 i) = CONN_RAW \/ (u_conn (getu st0 i) = CONN_DNS /\ u_queue_filled (getu st0 i) = O)) ->
  siter c st prev (SLTun now pkt) =
  (let '(st1, o1) := Server.tunnel_tun zc st0 now pkt in
   let '(st2, o2) := sweep_send (length st1) 0 st1 now [] in (st2, o1 ++ o2)).
Proof.
  intros st0 Hi Ha Hd Hl Hc. unfold siter. cbn [slnow]. fold st0.
  rewrite (taker_keeps_tun_selected st0 prev i Hi Ha Hd Hl Hc). reflexivity.
Qed.

End WithOracles.
