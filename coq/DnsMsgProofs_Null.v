(* DnsMsgProofs_Null.v -- C09 for the raw record types NULL and PRIVATE: shape of the answer
   built by dns_encode, and what the client's dns_decode / read_dns_withq extract from it. *)
From Coq Require Import List NArith ZArith Arith Bool Lia ZifyBool ZifyNat ZifyN.
From Iodine Require Import Generated.SrcConsts Base Codec CodecProofs Hostname DnsName DnsWf DnsMsg DnsMsgProofs_Base.
Import ListNotations.
Local Open Scope N_scope.

Ltac Zify.zify_post_hook ::= Z.div_mod_to_equations.

(* evaluate closed comparisons of record-type constants *)
Ltac eval_tests :=
  repeat match goal with
  | |- context [N.eqb ?a ?b] =>
      let v := eval vm_compute in (N.eqb a b) in
      match v with true => idtac | false => idtac end;
      change (N.eqb a b) with v
  end; cbn [orb andb negb].
Ltac eval_tests_in H :=
  repeat match type of H with
  | context [N.eqb ?a ?b] =>
      let v := eval vm_compute in (N.eqb a b) in
      match v with true => idtac | false => idtac end;
      change (N.eqb a b) with v in H
  end; cbn [orb andb negb] in H.

(* The 64 KiB buffer size is kept abstract (B with B = N.to_nat 65536) so that no tactic ever
   tries to reduce it to a unary numeral. *)
Lemma putname_qname B name ws : B = N.to_nat 65536 ->
  Forall label_ok ws -> ws <> [] -> name = dotted ws -> (length name <= 253)%nat ->
  putname (B - 12) name = Some (wire ws).
Proof.
  intros HB Hok Hne Hn Hl. apply putname_wf; [exact Hok|exact Hn|].
  pose proof (dotted_wire_len ws Hne). subst name. lia.
Qed.

Lemma rr_head_len ty : length (rr_head ty) = 10%nat. Proof. reflexivity. Qed.

(* ---- server: the NULL/PRIVATE answer --------------------------------------------------- *)

Definition null_answer (id : N) (ws : list (list N)) (ty : N) (p : list N) : list N :=
  ans_head id 1 ws ty ++ rr_head ty ++ be16 (N.of_nat (length p)) ++ p.

Lemma null_answer_len id ws ty p :
  length (null_answer id ws ty p) = (12 + wire_len ws + 4 + 12 + length p)%nat.
Proof. unfold null_answer. rewrite !app_length, ans_head_len, rr_head_len, be16_len. lia. Qed.

Lemma encode_null B name ty id ws p d : B = N.to_nat 65536 ->
  ty = T_NULL \/ ty = T_PRIVATE ->
  Forall label_ok ws -> ws <> [] -> name = dotted ws -> (length name <= 253)%nat ->
  dns_encode_answer B {| q_name := name; q_type := ty; q_id := id |} p = Some d ->
  d = null_answer id ws ty p /\ (length d <= N.to_nat 65536)%nat.
Proof.
  intros H64 Hty Hok Hne Hn Hl H. unfold dns_encode_answer in H. cbn [q_name q_type q_id] in H.
  rewrite (putname_qname B name ws H64 Hok Hne Hn Hl) in H. cbn [opt_bytes] in H.
  destruct (B <? 12)%nat; [discriminate|].
  destruct (negb (checklen B _ 4)); [discriminate|].
  assert (Ht : (ty =? T_CNAME) || (ty =? T_A) = false /\ (ty =? T_MX) || (ty =? T_SRV) = false /\ (ty =? T_TXT) = false).
  { destruct Hty as [-> | ->]; repeat split; vm_compute; reflexivity. }
  destruct Ht as [Ht1 [Ht2 Ht3]]. rewrite Ht1, Ht2, Ht3 in H.
  destruct (negb (checklen B _ 10)); [discriminate|].
  destruct (negb (checklen B _ 2)); [discriminate|].
  match type of H with (if negb (checklen _ ?p3 ?dl) then _ else _) = _ => destruct (checklen B p3 dl) eqn:E end;
    [|discriminate].
  cbn [negb] in H. apply some_inj in H. unfold checklen in E. apply Nat.leb_le in E.
  rewrite !app_length, hdr_len, wire_length, !be16_len, rr_head_len in E.
  rewrite !app_length, hdr_len, wire_length, !be16_len, rr_head_len in H.
  set (dl := Nat.min (length p) (B - (12 + wire_len ws + (2 + 2) + 10))) in *.
  assert (Hdl : dl = length p) by lia.
  rewrite Hdl in H. rewrite firstn_all in H.
  assert (Hmod : N.of_nat (length p) mod 65536 = N.of_nat (length p)) by (apply N.mod_small; lia).
  rewrite Hmod in H. subst d. split.
  - rewrite <- !app_assoc. rewrite set_ancount_hdr. unfold null_answer, ans_head. rewrite <- !app_assoc. reflexivity.
  - rewrite <- !app_assoc. rewrite set_ancount_hdr. rewrite !app_length, hdr_len, wire_length, !be16_len, rr_head_len. lia.
Qed.

(* ---- client ------------------------------------------------------------------------------ *)

(* the answer record seen at offset d2 = end of the question: pointer, type, class, ttl, rdlength *)
Lemma rr_bytes buf pre aty rl rd : buf = pre ++ rr_head aty ++ be16 rl ++ rd ->
  aty < 65536 -> rl < 65536 ->
  let d2 := length pre in
  rb buf d2 = 192 /\ rb buf (S d2) = 12 /\ readshort buf (d2 + 2) = aty /\
  readshort buf (d2 + 2 + 8) = rl /\ skipn (d2 + 2 + 10) buf = rd /\
  length buf = (d2 + 12 + length rd)%nat.
Proof.
  intros -> Ha Hr d2. unfold d2.
  assert (Hb : forall i, (i < 12)%nat -> rb (pre ++ rr_head aty ++ be16 rl ++ rd) (length pre + i) =
                                        nth i (rr_head aty ++ be16 rl) 0).
  { intros i Hi. rewrite rb_app2'. rewrite app_assoc. rewrite rb_app1 by (rewrite app_length, rr_head_len, be16_len; exact Hi). reflexivity. }
  repeat split.
  - rewrite <- (Nat.add_0_r (length pre)). rewrite Hb by lia. reflexivity.
  - replace (S (length pre)) with (length pre + 1)%nat by lia. rewrite Hb by lia. reflexivity.
  - unfold readshort. replace (S (length pre + 2)) with (length pre + 3)%nat by lia.
    rewrite !Hb by lia. cbn [rr_head be16 be32 app nth]. lia.
  - unfold readshort. replace (S (length pre + 2 + 8)) with (length pre + 11)%nat by lia.
    replace (length pre + 2 + 8)%nat with (length pre + 10)%nat by lia.
    rewrite !Hb by lia. cbn [rr_head be16 be32 app nth]. lia.
  - replace (length pre + 2 + 10)%nat with (length (pre ++ rr_head aty ++ be16 rl)) by (rewrite !app_length, rr_head_len, be16_len; lia).
    replace (pre ++ rr_head aty ++ be16 rl ++ rd) with ((pre ++ rr_head aty ++ be16 rl) ++ rd)
      by (rewrite <- !app_assoc; reflexivity).
    apply skipn_app_len.
  - rewrite !app_length, rr_head_len, be16_len. lia.
Qed.

Lemma ty_null_lt ty : ty = T_NULL \/ ty = T_PRIVATE -> ty < 65536.
Proof. intros [-> | ->]; vm_compute; reflexivity. Qed.

Lemma decode_null buflen id ws ty p :
  id < 65536 -> ty = T_NULL \/ ty = T_PRIVATE ->
  ws <> [] -> Forall label_ok ws -> (length (dotted ws) <= 253)%nat ->
  (2 <= length p)%nat -> (length p < N.to_nat 65536)%nat ->
  let d := null_answer id ws ty p in
  let m := Nat.min (Nat.min (length p) (N.to_nat 4096)) buflen in
  dns_decode_answer buflen d (length d) =
  {| da_rv := Z.of_nat m; da_out := firstn m p; da_id := Some id;
     da_name0 := Some (hd 0 (dotted ws)); da_type := Some ty; da_rcode := 0 |}.
Proof.
  intros Hid Hty Hne Hok Hdl Hp2 Hp64 d m.
  pose proof (ty_null_lt ty Hty) as Htl.
  unfold d, null_answer. rewrite decode_head; try assumption; try lia.
  fold (null_answer id ws ty p). fold d.
  assert (Hd : d = ans_head id 1 ws ty ++ rr_head ty ++ be16 (N.of_nat (length p)) ++ p) by reflexivity.
  destruct (rr_bytes d _ ty (N.of_nat (length p)) p Hd Htl ltac:(lia)) as [B0 [B1 [B2 [B3 [B4 B5]]]]].
  rewrite ans_head_len in B0, B1, B2, B3, B4, B5.
  set (d2 := (12 + wire_len ws + 4)%nat) in *.
  unfold da_tail.
  assert (Ht : (ty =? T_NULL) || (ty =? T_PRIVATE) = true) by (destruct Hty as [-> | ->]; vm_compute; reflexivity).
  rewrite Ht. cbv zeta.
  rewrite adv_ptr by (assumption || lia).
  destruct (length d <? 10 + (d2 + 2))%nat eqn:E1; [apply Nat.ltb_lt in E1; lia|].
  rewrite B2, B3, Nat2N.id.
  destruct (length d <? length p + (d2 + 2 + 10))%nat eqn:E2; [apply Nat.ltb_lt in E2; lia|].
  rewrite rdata_size_eq.
  rewrite map_rb_seq by lia. rewrite B4.
  destruct (2 <=? Nat.min (length p) (N.to_nat 4096))%nat eqn:E3; [|apply Nat.leb_gt in E3; lia].
  fold m. f_equal. rewrite firstn_firstn. f_equal. lia.
Qed.

Lemma client_null buflen id ws ty p :
  id < 65536 -> ty = T_NULL \/ ty = T_PRIVATE ->
  ws <> [] -> Forall label_ok ws -> (length (dotted ws) <= 253)%nat ->
  (2 <= length p)%nat -> (length p < N.to_nat 65536)%nat ->
  let d := null_answer id ws ty p in
  let m := Nat.min (Nat.min (length p) (N.to_nat 4096)) buflen in
  client_extract buflen d (length d) =
  {| da_rv := Z.of_nat m; da_out := firstn m p; da_id := Some id;
     da_name0 := Some (hd 0 (dotted ws)); da_type := Some ty; da_rcode := 0 |}.
Proof.
  intros Hid Hty Hne Hok Hdl Hp2 Hp64 d m. unfold client_extract.
  unfold d. rewrite decode_null by assumption. fold m. cbn [da_rv da_type].
  destruct (Z.of_nat m <=? 0)%Z; [reflexivity|].
  assert (Ht : (ty =? T_CNAME) || (ty =? T_TXT) = false /\ (ty =? T_MX) || (ty =? T_SRV) = false).
  { destruct Hty as [-> | ->]; split; vm_compute; reflexivity. }
  destruct Ht as [-> ->]. reflexivity.
Qed.

(* ---- summary for NULL / PRIVATE ------------------------------------------------------------ *)

Lemma write_dns_null q p downenc td : q_type q = T_NULL \/ q_type q = T_PRIVATE ->
  write_dns q p downenc td = (dns_encode_answer buf64k q p, td).
Proof.
  intros Hty. unfold write_dns.
  assert (Ht : (q_type q =? T_CNAME) || (q_type q =? T_A) = false /\
               (q_type q =? T_MX) || (q_type q =? T_SRV) = false /\ (q_type q =? T_TXT) = false).
  { destruct Hty as [-> | ->]; repeat split; vm_compute; reflexivity. }
  destruct Ht as [-> [-> ->]]. reflexivity.
Qed.

Lemma c09_null q p downenc td buflen d :
  q_id q < 65536 -> q_type q = T_NULL \/ q_type q = T_PRIVATE -> wf_qname (q_name q) ->
  (2 <= length p)%nat -> (N.to_nat 4096 <= buflen)%nat ->
  fst (write_dns q p downenc td) = Some d ->
  extract_ok (client_extract buflen d (length d)) q p (Nat.min (length p) (N.to_nat 4096)).
Proof.
  intros Hid Hty [ws [Hne [Hok [Hn Hl]]]] Hp Hb H.
  rewrite write_dns_null in H by exact Hty. cbn [fst] in H.
  destruct q as [name ty id]. cbn [q_name q_type q_id] in *.
  destruct (encode_null buf64k name ty id ws p d buf64k_eq Hty Hok Hne Hn Hl H) as [Hd Hlen].
  rewrite Hd in Hlen. rewrite null_answer_len in Hlen.
  subst d. rewrite client_null; try assumption; try lia; [|subst name; exact Hl].
  assert (Hat : answer_type ty = ty) by (destruct Hty as [-> | ->]; reflexivity).
  unfold extract_ok. cbn [da_rv da_out da_id da_type da_name0 q_id q_type q_name]. rewrite Hat.
  replace (Nat.min (Nat.min (length p) (N.to_nat 4096)) buflen) with (Nat.min (length p) (N.to_nat 4096)) by lia.
  subst name. repeat split; lia.
Qed.
