(* ProtoLive.v -- progress of the fragment protocols on a clean path (property C02, logic part).

   A "clean round" is what a path that delivers every datagram intact and promptly does with the
   sender's current chunk: the chunk reaches the receiver, the receiver's answer (carrying its
   current seqno/fragment) is generated for that very query and reaches the sender.  Timers decide
   WHEN a round happens (client.c select loop: retransmit after 1 s, ping interval; iodined.c
   send-real-soon sweep); they are part of the concrete models Client.v / Server.v and of the
   timed oracle of the C02 check.  Here: from every state that satisfies the safety invariant and
   in which the receiver is at most 4 packets behind, each clean round makes progress, a packet of
   n fragments offered on a clean path is handed to uncompress() exactly once, complete and in
   order, after exactly n rounds, and the two sides end synchronised -- so the next packet meets
   the same precondition (no wedge, packets delivered in the order accepted). *)
From Coq Require Import List Arith Bool Lia ZArith ZifyBool ZifyNat.
From Iodine Require Import ProtoUp ProtoUpProofs ProtoDown ProtoDownProofs.
Import ListNotations.

Ltac Zify.zify_post_hook ::= Z.div_mod_to_equations.

Definition cur_chunk (s : psys) : chunk :=
  Chunk (sk (snd_ s)) (sf (snd_ s)) (S (sf (snd_ s)) =? sn (snd_ s)).

Definition clean_round (s : psys) : option (psys * option (list (nat * nat))) :=
  match pexec s (RChunk (cur_chunk s)) with
  | Some (s1, o) =>
      match pexec s1 (RGenAck (sk (snd_ s1))) with
      | Some (s2, _) =>
          match pexec s2 (SAck (cur_ack s1 (sk (snd_ s1)))) with
          | Some (s3, _) => Some (s3, o)
          | None => None
          end
      | None => None
      end
  | None => None
  end.

Fixpoint clean_rounds (n : nat) (s : psys) (outs : list (list (nat * nat))) : option (psys * list (list (nat * nat))) :=
  match n with
  | 0 => Some (s, outs)
  | S n' =>
      match clean_round s with
      | Some (s', o) => clean_rounds n' s' (match o with Some b => outs ++ [b] | None => outs end)
      | None => None
      end
  end.

(* a packet of n fragments offered on a clean path *)
Definition clean_packet (n : nat) (s : psys) (outs : list (list (nat * nat))) :=
  match pexec s (SNew n) with
  | Some (s1, _) => clean_rounds n s1 outs
  | None => None
  end.

Fixpoint clean_packets (ns : list nat) (s : psys) (outs : list (list (nat * nat))) :=
  match ns with
  | [] => Some (s, outs)
  | n :: rest => match clean_packet n s outs with Some (s', outs') => clean_packets rest s' outs' | None => None end
  end.

(* ---- auxiliary facts ---------------------------------------------------------------------------- *)

Lemma chunk_eqb_refl c : chunk_eqb c c = true.
Proof. destruct c as [k f l]. cbn. rewrite !Nat.eqb_refl. destruct l; reflexivity. Qed.

Lemma ack_eqb_refl a : ack_eqb a a = true.
Proof. unfold ack_eqb. rewrite !Nat.eqb_refl. reflexivity. Qed.

Lemma in_existsb {A} (eqb : A -> A -> bool) (Hr : forall a, eqb a a = true) x l : In x l -> existsb (eqb x) l = true.
Proof. intros H. apply existsb_exists. exists x. split; [exact H|apply Hr]. Qed.

Definition with_rcv_up (s : psys) (r : receiver) : psys :=
  {| snd_ := snd_ s; rcv_ := r; chunks := chunks s; acks := acks s; sizes := sizes s |}.

Lemma pexec_chunk s k f l : In (Chunk k f l) (chunks s) -> sk (snd_ s) <= k + 3 ->
  pexec s (RChunk (Chunk k f l)) =
  Some (match recv_rule (rR (rcv_ s) mod 8) (rf (rcv_ s)) (k mod 8) (f mod 16) with
        | Ignore => (s, None)
        | NewPacket => (with_rcv_up s {| rR := k; rf := f mod 16; rbuf := if l then [] else [(k, f)]; rdone := l |},
                        if l then Some [(k, f)] else None)
        | NextFragment => (with_rcv_up s {| rR := rR (rcv_ s); rf := f mod 16;
                                            rbuf := if l then [] else rbuf (rcv_ s) ++ [(k, f)]; rdone := l |},
                           if l then Some (rbuf (rcv_ s) ++ [(k, f)]) else None)
        end).
Proof.
  intros Hin Hd. unfold pexec.
  rewrite (in_existsb chunk_eqb chunk_eqb_refl _ _ Hin).
  assert (E : (sk (snd_ s) <=? k + 3) = true) by lia. rewrite E. cbn [negb orb].
  destruct (recv_rule _ _ _ _); reflexivity.
Qed.

Definition add_ack (s : psys) (a : ack) : psys :=
  {| snd_ := snd_ s; rcv_ := rcv_ s; chunks := chunks s; acks := a :: acks s; sizes := sizes s |}.

Lemma pexec_genack s g : g <= sk (snd_ s) -> pexec s (RGenAck g) = Some (add_ack s (cur_ack s g), None).
Proof. intros H. unfold pexec. assert (E : (g <=? sk (snd_ s)) = true) by lia. rewrite E. reflexivity. Qed.

Definition with_snd (s : psys) (x : sender) (cs : list chunk) : psys :=
  {| snd_ := x; rcv_ := rcv_ s; chunks := cs; acks := acks s; sizes := sizes s |}.

Lemma pexec_ack_hit s a : In a (acks s) -> sact (snd_ s) = true -> sk (snd_ s) <= a_gen a + 2 ->
  a_seq a = sk (snd_ s) mod 8 -> a_frag a = sf (snd_ s) mod 16 -> S (sf (snd_ s)) <= sn (snd_ s) ->
  pexec s (SAck a) =
  Some (if S (sf (snd_ s)) =? sn (snd_ s)
        then with_snd s {| sk := sk (snd_ s); sf := sf (snd_ s); sn := sn (snd_ s); sact := false |} (chunks s)
        else with_snd s {| sk := sk (snd_ s); sf := S (sf (snd_ s)); sn := sn (snd_ s); sact := true |}
                      (Chunk (sk (snd_ s)) (S (sf (snd_ s))) (S (S (sf (snd_ s))) =? sn (snd_ s)) :: chunks s), None).
Proof.
  intros Hin Hact Hg Hs Hf Hle. unfold pexec.
  rewrite (in_existsb ack_eqb ack_eqb_refl _ _ Hin). cbn [negb].
  assert (E : sact (snd_ s) && (sk (snd_ s) <=? a_gen a + 2) && (a_seq a =? sk (snd_ s) mod 8) && (a_frag a =? sf (snd_ s) mod 16) = true).
  { rewrite Hact. cbn [andb]. lia. }
  rewrite E. destruct (S (sf (snd_ s)) =? sn (snd_ s)) eqn:E1; [reflexivity|].
  assert (E2 : (S (sf (snd_ s)) <? sn (snd_ s)) = true) by lia. rewrite E2. reflexivity.
Qed.

(* the state in the middle of a clean transfer: sender on fragment j of packet k, the receiver holds
   exactly the fragments before j (or, for j = 0, is still on an older packet at most 4 behind) *)
Record Mid (s : psys) (k n j : nat) : Prop := {
  m_inv : Inv s;
  m_act : sact (snd_ s) = true;
  m_k : sk (snd_ s) = k;
  m_n : sn (snd_ s) = n;
  m_j : sf (snd_ s) = j;
  m_lt : j < n;
  m_in : In (cur_chunk s) (chunks s);
  m_rcv : (rR (rcv_ s) = k /\ S (rf (rcv_ s)) = j /\ rdone (rcv_ s) = false) \/
          (j = 0 /\ rR (rcv_ s) < k <= rR (rcv_ s) + 4)
}.

Lemma Mid_rbuf s k n j : Mid s k n j -> rR (rcv_ s) = k -> S (rf (rcv_ s)) = j -> rbuf (rcv_ s) = seq_tags k j.
Proof.
  intros M HR Hj. destruct (m_rcv _ _ _ _ M) as [(A & B & C)|(A & B)]; [|lia].
  pose proof (i_rcv _ (m_inv _ _ _ _ M)) as Hr. unfold rcv_ok in Hr.
  destruct Hr as [(Z1 & Z2 & Z3 & Z4)|(R1 & R2 & R3 & R4)]; [congruence|].
  rewrite (R3 C), HR, Hj. reflexivity.
Qed.

Lemma rule_is_next r rf f : rf < f -> recv_rule r rf r f = NextFragment.
Proof.
  intros H. unfold recv_rule. rewrite Nat.eqb_refl. assert (E : (f <=? rf) = false) by lia. rewrite E. reflexivity.
Qed.

Lemma rule_is_new R k rf f : R < k <= R + 4 -> recv_rule (R mod 8) rf (k mod 8) f = NewPacket.
Proof.
  intros H. unfold recv_rule.
  pose proof (Nat.div_mod R 8 ltac:(lia)) as HR. pose proof (Nat.mod_upper_bound R 8 ltac:(lia)) as HRb.
  pose proof (Nat.div_mod k 8 ltac:(lia)) as Hk. pose proof (Nat.mod_upper_bound k 8 ltac:(lia)) as Hkb.
  rewrite (recent_cases (R mod 8) (k mod 8) HRb Hkb).
  set (r := R mod 8) in *. set (kk := k mod 8) in *. set (qR := R / 8) in *. set (qk := k / 8) in *.
  clearbody r kk qR qk.
  assert (E1 : (kk =? r) = false) by lia. rewrite E1. cbn [andb negb orb].
  destruct (r =? 0) eqn:T0; destruct (r <=? 1) eqn:T1; destruct (r <=? 2) eqn:T2;
  match goal with |- context [ (kk =? ?a) || (kk =? ?b) || (kk =? ?c) ] =>
    assert (F1 : (kk =? a) = false) by lia; assert (F2 : (kk =? b) = false) by lia; assert (F3 : (kk =? c) = false) by lia;
    rewrite F1, F2, F3 end; reflexivity.
Qed.

Ltac upsimp := cbn [snd_ rcv_ chunks acks sizes sk sf sn sact rR rf rbuf rdone with_rcv_up add_ack with_snd cur_ack
                    a_seq a_frag a_gen a_sk a_R a_rf] in *.

Lemma clean_round_spec s k n j : Mid s k n j ->
  exists s3 o, clean_round s = Some (s3, o) /\ Inv s3 /\ sk (snd_ s3) = k /\ rR (rcv_ s3) = k /\
    (forall q, sizes s3 q = sizes s q) /\
    if S j =? n then o = Some (seq_tags k n) /\ sact (snd_ s3) = false /\ rdone (rcv_ s3) = true
    else o = None /\ Mid s3 k n (S j).
Proof.
  intros M. pose proof M as [I Hact Hk Hn Hj Hlt Hin Hrcv]. subst k n j.
  pose proof (i_act _ I Hact) as Hpos. destruct (i_sn _ I Hpos) as [Hsn Hsf].
  pose proof (i_sizes _ I (sk (snd_ s)) ltac:(lia)) as Hsz.
  assert (Hclose : close_enough s) by (unfold close_enough; destruct Hrcv as [(A & _)|(_ & B)]; lia).
  assert (Hf16 : sf (snd_ s) mod 16 = sf (snd_ s)) by (apply Nat.mod_small; lia).
  remember (S (sf (snd_ s)) =? sn (snd_ s)) as l eqn:L.
  (* the receiver's new state after the chunk *)
  set (r1 := {| rR := sk (snd_ s); rf := sf (snd_ s); rbuf := if l then [] else seq_tags (sk (snd_ s)) (S (sf (snd_ s))); rdone := l |}).
  set (s1 := with_rcv_up s r1).
  assert (E1 : pexec s (RChunk (cur_chunk s)) = Some (s1, if l then Some (seq_tags (sk (snd_ s)) (S (sf (snd_ s)))) else None)).
  { unfold cur_chunk in *. rewrite <- L in Hin |- *. rewrite (pexec_chunk s _ _ _ Hin ltac:(lia)). rewrite Hf16.
    destruct Hrcv as [(A & B & C)|(A & B)].
    - rewrite A. rewrite (rule_is_next (sk (snd_ s) mod 8) (rf (rcv_ s)) (sf (snd_ s)) ltac:(lia)).
      rewrite (Mid_rbuf s _ _ _ M A B). rewrite <- seq_tags_S. unfold s1, r1. reflexivity.
    - rewrite (rule_is_new (rR (rcv_ s)) (sk (snd_ s)) (rf (rcv_ s)) (sf (snd_ s)) ltac:(lia)).
      unfold s1, r1. rewrite A. destruct l; reflexivity. }
  set (a := cur_ack s1 (sk (snd_ s1))).
  set (s2 := add_ack s1 a).
  assert (E2 : pexec s1 (RGenAck (sk (snd_ s1))) = Some (s2, None)) by (apply pexec_genack; lia).
  assert (E3 : pexec s2 (SAck a) =
               Some (if l
                     then with_snd s2 {| sk := sk (snd_ s); sf := sf (snd_ s); sn := sn (snd_ s); sact := false |} (chunks s)
                     else with_snd s2 {| sk := sk (snd_ s); sf := S (sf (snd_ s)); sn := sn (snd_ s); sact := true |}
                                   (Chunk (sk (snd_ s)) (S (sf (snd_ s))) (S (S (sf (snd_ s))) =? sn (snd_ s)) :: chunks s), None)).
  { rewrite L. apply (pexec_ack_hit s2 a).
    - unfold s2. upsimp. left. reflexivity.
    - exact Hact.
    - unfold a, s2, s1. upsimp. lia.
    - unfold a, s2, s1, r1. upsimp. reflexivity.
    - unfold a, s2, s1, r1. upsimp. reflexivity.
    - unfold s2, s1. upsimp. lia. }
  set (s3 := if l
             then with_snd s2 {| sk := sk (snd_ s); sf := sf (snd_ s); sn := sn (snd_ s); sact := false |} (chunks s)
             else with_snd s2 {| sk := sk (snd_ s); sf := S (sf (snd_ s)); sn := sn (snd_ s); sact := true |}
                           (Chunk (sk (snd_ s)) (S (sf (snd_ s))) (S (S (sf (snd_ s))) =? sn (snd_ s)) :: chunks s)) in *.
  exists s3, (if l then Some (seq_tags (sk (snd_ s)) (S (sf (snd_ s)))) else None).
  assert (Hround : clean_round s = Some (s3, if l then Some (seq_tags (sk (snd_ s)) (S (sf (snd_ s)))) else None)).
  { unfold clean_round. rewrite E1. fold a. rewrite E2. fold s2. rewrite E3. reflexivity. }
  split; [exact Hround|].
  (* invariant through the three steps *)
  assert (Hc1 : close_enough s1) by (unfold close_enough, s1, r1; upsimp; lia).
  destruct (step_inv _ _ _ _ I (pexec_sound _ _ _ _ E1) Hclose Hc1) as [I1 _].
  assert (Hc2 : close_enough s2) by (unfold close_enough, s2, s1, r1; upsimp; lia).
  destruct (step_inv _ _ _ _ I1 (pexec_sound _ _ _ _ E2) Hc1 Hc2) as [I2 _].
  assert (Hc3 : close_enough s3) by (unfold close_enough, s3, s2, s1, r1; destruct l; upsimp; lia).
  destruct (step_inv _ _ _ _ I2 (pexec_sound _ _ _ _ E3) Hc2 Hc3) as [I3 _].
  split; [exact I3|].
  split; [unfold s3; destruct l; upsimp; reflexivity|].
  split; [unfold s3, s2, s1, r1; destruct l; upsimp; reflexivity|].
  split; [intros q; unfold s3, s2, s1; destruct l; reflexivity|].
  unfold s3. destruct l.
  - assert (Hlast : S (sf (snd_ s)) = sn (snd_ s)) by lia. rewrite <- Hlast. split; [reflexivity|]. split; reflexivity.
  - split; [reflexivity|].
    constructor; unfold s2, s1, r1; upsimp; try assumption; try reflexivity; try lia.
    + unfold cur_chunk. upsimp. left. reflexivity.
Qed.

(* the receiver already holds the sender's current fragment (its acknowledgement was lost) *)
Record MidC (s : psys) (k n j : nat) : Prop := {
  c_inv : Inv s;
  c_act : sact (snd_ s) = true;
  c_k : sk (snd_ s) = k;
  c_n : sn (snd_ s) = n;
  c_j : sf (snd_ s) = j;
  c_lt : j < n;
  c_in : In (cur_chunk s) (chunks s);
  c_rcv : rR (rcv_ s) = k /\ rf (rcv_ s) = j
}.

Lemma rule_is_dup r rf f : f <= rf -> recv_rule r rf r f = Ignore.
Proof.
  intros H. unfold recv_rule. rewrite Nat.eqb_refl. assert (E : (f <=? rf) = true) by lia. rewrite E. reflexivity.
Qed.

Lemma clean_round_dup s k n j : MidC s k n j ->
  exists s3, clean_round s = Some (s3, None) /\ Inv s3 /\ sk (snd_ s3) = k /\ rR (rcv_ s3) = k /\
    (forall q, sizes s3 q = sizes s q) /\
    if S j =? n then sact (snd_ s3) = false else Mid s3 k n (S j).
Proof.
  intros M. pose proof M as [I Hact Hk Hn Hj Hlt Hin [HR Hrf]]. subst k n j.
  pose proof (i_act _ I Hact) as Hpos. destruct (i_sn _ I Hpos) as [Hsn Hsf].
  pose proof (i_sizes _ I (sk (snd_ s)) ltac:(lia)) as Hsz.
  assert (Hclose : close_enough s) by (unfold close_enough; lia).
  assert (Hf16 : sf (snd_ s) mod 16 = sf (snd_ s)) by (apply Nat.mod_small; lia).
  remember (S (sf (snd_ s)) =? sn (snd_ s)) as l eqn:L.
  assert (E1 : pexec s (RChunk (cur_chunk s)) = Some (s, None)).
  { unfold cur_chunk in *. rewrite <- L in Hin |- *. rewrite (pexec_chunk s _ _ _ Hin ltac:(lia)). rewrite Hf16.
    rewrite HR. rewrite (rule_is_dup (sk (snd_ s) mod 8) (rf (rcv_ s)) (sf (snd_ s)) ltac:(lia)). reflexivity. }
  set (a := cur_ack s (sk (snd_ s))).
  set (s2 := add_ack s a).
  assert (E2 : pexec s (RGenAck (sk (snd_ s))) = Some (s2, None)) by (apply pexec_genack; lia).
  assert (E3 : pexec s2 (SAck a) =
               Some (if l
                     then with_snd s2 {| sk := sk (snd_ s); sf := sf (snd_ s); sn := sn (snd_ s); sact := false |} (chunks s)
                     else with_snd s2 {| sk := sk (snd_ s); sf := S (sf (snd_ s)); sn := sn (snd_ s); sact := true |}
                                   (Chunk (sk (snd_ s)) (S (sf (snd_ s))) (S (S (sf (snd_ s))) =? sn (snd_ s)) :: chunks s), None)).
  { rewrite L. apply (pexec_ack_hit s2 a).
    - unfold s2. upsimp. left. reflexivity.
    - exact Hact.
    - unfold a, s2. upsimp. lia.
    - unfold a, s2. upsimp. rewrite HR. reflexivity.
    - unfold a, s2. upsimp. rewrite Hrf. reflexivity.
    - unfold s2. upsimp. lia. }
  set (s3 := if l
             then with_snd s2 {| sk := sk (snd_ s); sf := sf (snd_ s); sn := sn (snd_ s); sact := false |} (chunks s)
             else with_snd s2 {| sk := sk (snd_ s); sf := S (sf (snd_ s)); sn := sn (snd_ s); sact := true |}
                           (Chunk (sk (snd_ s)) (S (sf (snd_ s))) (S (S (sf (snd_ s))) =? sn (snd_ s)) :: chunks s)) in *.
  exists s3.
  assert (Hround : clean_round s = Some (s3, None)).
  { unfold clean_round. rewrite E1. fold a. rewrite E2. fold s2. rewrite E3. reflexivity. }
  split; [exact Hround|].
  assert (Hc2 : close_enough s2) by (unfold close_enough, s2; upsimp; lia).
  destruct (step_inv _ _ _ _ I (pexec_sound _ _ _ _ E2) Hclose Hc2) as [I2 _].
  assert (Hc3 : close_enough s3) by (unfold close_enough, s3, s2; destruct l; upsimp; lia).
  destruct (step_inv _ _ _ _ I2 (pexec_sound _ _ _ _ E3) Hc2 Hc3) as [I3 _].
  split; [exact I3|].
  split; [unfold s3, s2; destruct l; upsimp; reflexivity|].
  split; [unfold s3, s2; destruct l; upsimp; exact HR|].
  split; [intros q; unfold s3, s2; destruct l; reflexivity|].
  unfold s3. destruct l.
  - reflexivity.
  - (* not the last fragment: the receiver cannot be done *)
    assert (Hnd : rdone (rcv_ s) = false).
    { pose proof (i_rcv _ I) as Hr. unfold rcv_ok in Hr.
      destruct Hr as [(Z1 & _)|(R1 & R2 & R3 & R4)]; [lia|].
      destruct (rdone (rcv_ s)) eqn:Ed; [|reflexivity]. destruct (R4 eq_refl) as [_ X]. rewrite HR in X. lia. }
    constructor; unfold s2; upsimp; try assumption; try reflexivity; try lia.
    + unfold cur_chunk. upsimp. left. reflexivity.
    + left. split; [exact HR|]. split; [lia|exact Hnd].
Qed.

Ltac csplit := repeat match goal with |- _ /\ _ => split end.

(* n - j clean rounds complete the packet: delivered exactly once, both sides synchronised *)
Lemma clean_rounds_spec : forall m s k n j outs, Mid s k n j -> j + m = n ->
  exists s', clean_rounds m s outs = Some (s', outs ++ [seq_tags k n]) /\ Inv s' /\
             sact (snd_ s') = false /\ sk (snd_ s') = k /\ rR (rcv_ s') = k /\ (forall q, sizes s' q = sizes s q).
Proof.
  induction m as [|m IH]; intros s k n j outs M Hm.
  - pose proof (m_lt _ _ _ _ M). lia.
  - destruct (clean_round_spec s k n j M) as (s3 & o & Hr & I3 & Hk3 & HR3 & Hsz3 & Hcase).
    cbn [clean_rounds]. rewrite Hr.
    destruct (S j =? n) eqn:E.
    + destruct Hcase as (Ho & Hact3 & _). subst o.
      assert (m = 0) by lia. subst m. cbn [clean_rounds].
      exists s3. csplit; try assumption; try reflexivity.
    + destruct Hcase as (Ho & M3). subst o.
      destruct (IH s3 k n (S j) outs M3 ltac:(lia)) as (s' & Hrs & I' & Ha' & Hk' & HR' & Hsz').
      exists s'. csplit; try assumption; try reflexivity. intros q. rewrite Hsz', Hsz3. reflexivity.
Qed.

(* recovery: the receiver already had the current fragment; the packet is completed without a second delivery *)
Lemma clean_rounds_dup_spec : forall m s k n j outs, MidC s k n j -> j + m = n ->
  exists s' outs', clean_rounds m s outs = Some (s', outs') /\ Inv s' /\
             sact (snd_ s') = false /\ sk (snd_ s') = k /\ rR (rcv_ s') = k /\
             (outs' = outs \/ outs' = outs ++ [seq_tags k n]).
Proof.
  intros m s k n j outs M Hm. destruct m as [|m]; [pose proof (c_lt _ _ _ _ M); lia|].
  destruct (clean_round_dup s k n j M) as (s3 & Hr & I3 & Hk3 & HR3 & Hsz3 & Hcase).
  cbn [clean_rounds]. rewrite Hr.
  destruct (S j =? n) eqn:E.
  - assert (m = 0) by lia. subst m. cbn [clean_rounds]. exists s3, outs. csplit; try assumption; try reflexivity. left. reflexivity.
  - destruct (clean_rounds_spec m s3 k n (S j) outs Hcase ltac:(lia)) as (s' & Hrs & I' & Ha' & Hk' & HR' & _).
    exists s', (outs ++ [seq_tags k n]). csplit; try assumption; try reflexivity. right. reflexivity.
Qed.

(* C02, logic part, upstream: a packet accepted on a clean path while the receiver is at most 3 packets
   behind is handed to uncompress() exactly once, complete, after n rounds; the sides end synchronised *)
Theorem clean_packet_spec s n outs :
  Inv s -> sact (snd_ s) = false -> sk (snd_ s) <= rR (rcv_ s) + 3 -> 1 <= n <= 16 ->
  exists s', clean_packet n s outs = Some (s', outs ++ [seq_tags (S (sk (snd_ s))) n]) /\ Inv s' /\
             sact (snd_ s') = false /\ sk (snd_ s') = S (sk (snd_ s)) /\ rR (rcv_ s') = S (sk (snd_ s)) /\
             sizes s' (S (sk (snd_ s))) = n.
Proof.
  intros I Hact Hgap Hn. unfold clean_packet.
  assert (E : pexec s (SNew n) =
              Some ({| snd_ := {| sk := S (sk (snd_ s)); sf := 0; sn := n; sact := true |}; rcv_ := rcv_ s;
                       chunks := Chunk (S (sk (snd_ s))) 0 (n =? 1) :: chunks s; acks := acks s;
                       sizes := fun k => if k =? S (sk (snd_ s)) then n else sizes s k |}, None)).
  { unfold pexec. rewrite Hact. assert (X : (1 <=? n) && (n <=? 16) = true) by lia. cbn [negb andb]. 
    destruct (1 <=? n); destruct (n <=? 16); try discriminate. reflexivity. }
  rewrite E.
  set (s1 := {| snd_ := {| sk := S (sk (snd_ s)); sf := 0; sn := n; sact := true |}; rcv_ := rcv_ s;
                chunks := Chunk (S (sk (snd_ s))) 0 (n =? 1) :: chunks s; acks := acks s;
                sizes := fun k => if k =? S (sk (snd_ s)) then n else sizes s k |}) in *.
  assert (Hc : close_enough s) by (unfold close_enough; lia).
  assert (Hc1 : close_enough s1) by (unfold close_enough, s1; upsimp; lia).
  destruct (step_inv _ _ _ _ I (pexec_sound _ _ _ _ E) Hc Hc1) as [I1 _].
  assert (M : Mid s1 (S (sk (snd_ s))) n 0).
  { constructor; unfold s1; upsimp; try assumption; try reflexivity; try lia.
    - unfold cur_chunk. upsimp. left. rewrite (Nat.eqb_sym n 1). reflexivity.
    - right. split; [reflexivity|]. pose proof (i_le _ I). lia. }
  destruct (clean_rounds_spec n s1 (S (sk (snd_ s))) n 0 outs M ltac:(lia)) as (s' & Hr & I' & Ha' & Hk' & HR' & Hsz').
  exists s'. csplit; try assumption; try reflexivity.
  rewrite Hsz'. unfold s1. upsimp. rewrite Nat.eqb_refl. reflexivity.
Qed.

Fixpoint tags_from (k : nat) (ns : list nat) : list (list (nat * nat)) :=
  match ns with [] => [] | n :: rest => seq_tags k n :: tags_from (S k) rest end.

(* ... and therefore any sequence of packets offered on a clean path is delivered exactly once each,
   in the order accepted *)
Theorem clean_packets_spec : forall ns s outs,
  Inv s -> sact (snd_ s) = false -> sk (snd_ s) <= rR (rcv_ s) + 3 -> Forall (fun n => 1 <= n <= 16) ns ->
  exists s', clean_packets ns s outs = Some (s', outs ++ tags_from (S (sk (snd_ s))) ns) /\ Inv s' /\
             sact (snd_ s') = false /\ sk (snd_ s') = sk (snd_ s) + length ns /\
             (ns <> [] -> rR (rcv_ s') = sk (snd_ s')).
Proof.
  induction ns as [|n ns IH]; intros s outs I Hact Hgap Hall.
  - exists s. cbn. rewrite app_nil_r. csplit; try assumption; try reflexivity; try lia. congruence.
  - inversion Hall as [|x l Hn Hrest]; subst.
    destruct (clean_packet_spec s n outs I Hact Hgap Hn) as (s1 & Hp & I1 & Ha1 & Hk1 & HR1 & _).
    cbn [clean_packets]. rewrite Hp.
    destruct (IH s1 (outs ++ [seq_tags (S (sk (snd_ s))) n]) I1 Ha1 ltac:(lia) Hrest) as (s' & Hps & I' & Ha' & Hk' & HR').
    exists s'. rewrite Hps. rewrite Hk1. cbn [tags_from length]. rewrite <- app_assoc. cbn [app].
    csplit; try assumption; try reflexivity; try lia.
    intros _. destruct ns as [|n2 ns2].
    + cbn in Hps. inversion Hps; subst. lia.
    + apply HR'. discriminate.
Qed.

(* the current chunk of an active sender has been sent *)
Lemma reach_cur_in s outs : reach s outs -> sact (snd_ s) = true -> In (cur_chunk s) (chunks s).
Proof.
  induction 1 as [|s outs e s' o Hr IH Hst Hc']; [cbn; discriminate|].
  intros Hact. unfold cur_chunk in *.
  inversion Hst; subst; upsimp; try (apply IH; assumption); try discriminate.
  - left. rewrite (Nat.eqb_sym n 1). reflexivity.
  - left. reflexivity.
Qed.

(* recovery after any fault period inside N-star: whenever the path behaves again and the receiver is at
   most 4 packets behind, the packet in flight is completed within n - j rounds (delivered now, or it
   had been delivered already) and the two sides are synchronised, so that clean_packets_spec applies
   to everything offered afterwards *)
Theorem clean_recovery s outs :
  reach s outs -> sact (snd_ s) = true -> sk (snd_ s) <= rR (rcv_ s) + 4 ->
  exists s' outs', clean_rounds (sn (snd_ s) - sf (snd_ s)) s outs = Some (s', outs') /\ Inv s' /\
     sact (snd_ s') = false /\ sk (snd_ s') = sk (snd_ s) /\ rR (rcv_ s') = sk (snd_ s) /\
     (outs' = outs \/ outs' = outs ++ [seq_tags (sk (snd_ s)) (sn (snd_ s))]).
Proof.
  intros Hr Hact Hgap.
  destruct (proto_up_safe s outs Hr) as (I & Hc & _).
  pose proof (reach_cur_in s outs Hr Hact) as Hin.
  pose proof (i_act _ I Hact) as Hpos. destruct (i_sn _ I Hpos) as [Hsn Hsf].
  pose proof (i_chunks _ I _ Hin) as Hck. unfold cur_chunk, chunk_ok in Hck.
  destruct Hck as (_ & _ & _ & _ & C5).
  pose proof (i_le _ I) as Hle. pose proof (i_frag _ I) as Hfr.
  destruct (Nat.eq_dec (rR (rcv_ s)) (sk (snd_ s))) as [HR|HR].
  - specialize (Hfr HR).
    destruct (Nat.eq_dec (rf (rcv_ s)) (sf (snd_ s))) as [Hrf|Hrf].
    + assert (M : MidC s (sk (snd_ s)) (sn (snd_ s)) (sf (snd_ s))) by (constructor; auto).
      destruct (clean_rounds_dup_spec (sn (snd_ s) - sf (snd_ s)) s _ _ _ outs M ltac:(lia)) as (s' & outs' & H1 & H2 & H3 & H4 & H5 & H6).
      exists s', outs'. csplit; assumption.
    + assert (Hpos' : 0 < sf (snd_ s)) by lia.
      destruct (C5 Hpos') as [X|[_ X]]; [lia|].
      assert (Hnd : rdone (rcv_ s) = false).
      { pose proof (i_rcv _ I) as Hrc. unfold rcv_ok in Hrc.
        destruct Hrc as [(Z1 & _)|(R1 & R2 & R3 & R4)]; [lia|].
        destruct (rdone (rcv_ s)) eqn:Ed; [|reflexivity]. destruct (R4 eq_refl) as [_ Y]. rewrite HR in Y. lia. }
      assert (M : Mid s (sk (snd_ s)) (sn (snd_ s)) (sf (snd_ s))).
      { constructor; auto. left. split; [exact HR|]. split; [lia|exact Hnd]. }
      destruct (clean_rounds_spec (sn (snd_ s) - sf (snd_ s)) s _ _ _ outs M ltac:(lia)) as (s' & H1 & H2 & H3 & H4 & H5 & _).
      exists s', (outs ++ [seq_tags (sk (snd_ s)) (sn (snd_ s))]). csplit; try assumption; try reflexivity. right. reflexivity.
  - assert (Hj0 : sf (snd_ s) = 0).
    { destruct (sf (snd_ s)) as [|j'] eqn:E; [reflexivity|]. destruct (C5 ltac:(lia)) as [X|[X _]]; lia. }
    assert (M : Mid s (sk (snd_ s)) (sn (snd_ s)) (sf (snd_ s))).
    { constructor; auto. right. split; [exact Hj0|lia]. }
    destruct (clean_rounds_spec (sn (snd_ s) - sf (snd_ s)) s _ _ _ outs M ltac:(lia)) as (s' & H1 & H2 & H3 & H4 & H5 & _).
    exists s', (outs ++ [seq_tags (sk (snd_ s)) (sn (snd_ s))]). csplit; try assumption; try reflexivity. right. reflexivity.
Qed.

(* ================================================================================================= *)
(* downstream: server -> client                                                                      *)
(* ================================================================================================= *)

Definition dcur_msg (s : dsys) : dmsg :=
  Data (dk (dsnd s)) (df (dsnd s)) (S (df (dsnd s)) =? dn (dsnd s)).

Definition dclean_round (s : dsys) : option (dsys * option (list (nat * nat))) :=
  match dexec 2 s (CData (dcur_msg s)) with
  | Some (s1, o) =>
      match dexec 2 s1 CGenAck with
      | Some (s2, _) =>
          match dexec 2 s2 (DAck (cur_dack s1)) with
          | Some (s3, _) => Some (s3, o)
          | None => None
          end
      | None => None
      end
  | None => None
  end.

Fixpoint dclean_rounds (n : nat) (s : dsys) (outs : list (list (nat * nat))) : option (dsys * list (list (nat * nat))) :=
  match n with
  | 0 => Some (s, outs)
  | S n' =>
      match dclean_round s with
      | Some (s', o) => dclean_rounds n' s' (match o with Some b => outs ++ [b] | None => outs end)
      | None => None
      end
  end.

Definition dclean_packet (n : nat) (s : dsys) (outs : list (list (nat * nat))) :=
  match dexec 2 s (DNew n) with
  | Some (s1, _) => dclean_rounds n s1 outs
  | None => None
  end.

Fixpoint dclean_packets (ns : list nat) (s : dsys) (outs : list (list (nat * nat))) :=
  match ns with
  | [] => Some (s, outs)
  | n :: rest => match dclean_packet n s outs with Some (s', outs') => dclean_packets rest s' outs' | None => None end
  end.

Lemma dmsg_eqb_refl m : dmsg_eqb m m = true.
Proof. destruct m as [k f l|k f]; cbn; rewrite !Nat.eqb_refl; [destruct l|]; reflexivity. Qed.

Lemma dack_eqb_refl a : dack_eqb a a = true.
Proof. unfold dack_eqb. rewrite !Nat.eqb_refl. reflexivity. Qed.

Lemma dexec_data s k f l : In (Data k f l) (dmsgs s) -> dk (dsnd s) <= k + 3 ->
  dexec 2 s (CData (Data k f l)) =
  Some (match cli_rule (cR (drcv s) mod 8) (cf (drcv s)) (is_empty (cbuf (drcv s))) (k mod 8) (f mod 16) with
        | CIgnore => (s, None)
        | CNew => (with_rcv s {| cR := k; cf := f mod 16; cbuf := if l then [] else [(k, f)]; cmode := if l then CDone else CProg |},
                   if l then Some [(k, f)] else None)
        | CWeird => (with_rcv s {| cR := cR (drcv s); cf := f mod 16; cbuf := if l then [] else [(k, f)]; cmode := if l then CDone else CProg |},
                     if l then Some [(k, f)] else None)
        | CNext => (with_rcv s {| cR := cR (drcv s); cf := f mod 16; cbuf := if l then [] else cbuf (drcv s) ++ [(k, f)];
                                  cmode := if l then CDone else CProg |},
                    if l then Some (cbuf (drcv s) ++ [(k, f)]) else None)
        end).
Proof.
  intros Hin Hd. unfold dexec.
  rewrite (in_existsb dmsg_eqb dmsg_eqb_refl _ _ Hin).
  assert (E : (dk (dsnd s) <=? k + 3) = true) by lia. rewrite E. cbn [negb orb].
  destruct (cli_rule _ _ _ _ _); reflexivity.
Qed.

Definition add_dack (s : dsys) (a : dack) : dsys :=
  {| dsnd := dsnd s; drcv := drcv s; dmsgs := dmsgs s; dacks := a :: dacks s; dsizes := dsizes s |}.

Lemma dexec_genack s : dexec 2 s CGenAck = Some (add_dack s (cur_dack s), None).
Proof. reflexivity. Qed.

Definition with_dsnd (s : dsys) (x : dsender) (ms : list dmsg) : dsys :=
  {| dsnd := x; drcv := drcv s; dmsgs := ms; dacks := dacks s; dsizes := dsizes s |}.

Lemma dexec_ack_hit s b : In b (dacks s) -> dact (dsnd s) = true -> dk (dsnd s) <= b_sk b + 2 ->
  b_seq b = dk (dsnd s) mod 8 -> b_frag b = df (dsnd s) -> S (df (dsnd s)) <= dn (dsnd s) ->
  dexec 2 s (DAck b) =
  Some (if S (df (dsnd s)) =? dn (dsnd s)
        then with_dsnd s {| dk := dk (dsnd s); df := df (dsnd s); dn := dn (dsnd s); dact := false |} (dmsgs s)
        else with_dsnd s {| dk := dk (dsnd s); df := S (df (dsnd s)); dn := dn (dsnd s); dact := true |}
                       (Data (dk (dsnd s)) (S (df (dsnd s))) (S (S (df (dsnd s))) =? dn (dsnd s)) :: dmsgs s), None).
Proof.
  intros Hin Hact Hg Hs Hf Hle. unfold dexec.
  rewrite (in_existsb dack_eqb dack_eqb_refl _ _ Hin). cbn [negb].
  assert (E : dact (dsnd s) && (dk (dsnd s) <=? b_sk b + 2) && (b_seq b =? dk (dsnd s) mod 8) && (b_frag b =? df (dsnd s)) = true).
  { rewrite Hact. cbn [andb]. lia. }
  rewrite E. destruct (S (df (dsnd s)) =? dn (dsnd s)) eqn:E1; [reflexivity|].
  assert (E2 : (S (df (dsnd s)) <? dn (dsnd s)) = true) by lia. rewrite E2. reflexivity.
Qed.

Lemma crule_next r cf e f : f = cf + 1 -> cli_rule r cf e r f = CNext.
Proof.
  intros ->. unfold cli_rule. rewrite Nat.eqb_refl. cbn [negb andb].
  assert (E0 : (cf + 1 =? 0) = false) by lia. rewrite E0. rewrite andb_false_r. cbn [andb].
  assert (E1 : (cf + 1 <=? cf) = false) by lia. assert (E2 : (cf + 1 <? cf + 1) = false) by lia. rewrite E1, E2. reflexivity.
Qed.

Lemma crule_dup r cf e f : f <= cf -> (cf =? 0) && (f =? 0) && e = false -> cli_rule r cf e r f = CIgnore.
Proof.
  intros H W. unfold cli_rule. rewrite Nat.eqb_refl. cbn [negb andb]. rewrite W.
  assert (E1 : (f <=? cf) = true) by lia. rewrite E1. reflexivity.
Qed.

Lemma crule_weird r : cli_rule r 0 true r 0 = CWeird.
Proof. unfold cli_rule. rewrite Nat.eqb_refl. reflexivity. Qed.

Lemma crule_new R k cf e f : R < k <= R + 4 -> cli_rule (R mod 8) cf e (k mod 8) f = CNew.
Proof.
  intros H. unfold cli_rule.
  pose proof (Nat.div_mod R 8 ltac:(lia)) as HR. pose proof (Nat.mod_upper_bound R 8 ltac:(lia)) as HRb.
  pose proof (Nat.div_mod k 8 ltac:(lia)) as Hk. pose proof (Nat.mod_upper_bound k 8 ltac:(lia)) as Hkb.
  rewrite (recent_cases (R mod 8) (k mod 8) HRb Hkb).
  set (r := R mod 8) in *. set (kk := k mod 8) in *. set (qR := R / 8) in *. set (qk := k / 8) in *.
  clearbody r kk qR qk.
  assert (E1 : (kk =? r) = false) by lia. rewrite E1. cbn [andb negb orb].
  destruct (r =? 0) eqn:T0; destruct (r <=? 1) eqn:T1; destruct (r <=? 2) eqn:T2;
  match goal with |- context [ (kk =? ?a) || (kk =? ?b) || (kk =? ?c) ] =>
    assert (F1 : (kk =? a) = false) by lia; assert (F2 : (kk =? b) = false) by lia; assert (F3 : (kk =? c) = false) by lia;
    rewrite F1, F2, F3 end; reflexivity.
Qed.

Ltac dnsimp := cbn [dsnd drcv dmsgs dacks dsizes dk df dn dact cR cf cbuf cmode with_rcv add_dack with_dsnd cur_dack
                    b_seq b_frag b_sk b_R b_rf] in *.

(* sender on fragment j of packet k; the client holds exactly the fragments before j, or is on an
   older packet at most 4 behind (j = 0) *)
Record MidD (s : dsys) (k n j : nat) : Prop := {
  d_inv : DInv s;
  d_act : dact (dsnd s) = true;
  d_k : dk (dsnd s) = k;
  d_n : dn (dsnd s) = n;
  d_j : df (dsnd s) = j;
  d_lt : j < n;
  d_in : In (dcur_msg s) (dmsgs s);
  d_rcv : (cR (drcv s) = k /\ S (cf (drcv s)) = j /\ cmode (drcv s) = CProg) \/
          (j = 0 /\ cR (drcv s) < k <= cR (drcv s) + 4)
}.

Lemma dclean_round_spec s k n j : MidD s k n j ->
  exists s3 o, dclean_round s = Some (s3, o) /\ DInv s3 /\ dk (dsnd s3) = k /\ cR (drcv s3) = k /\
    (forall q, dsizes s3 q = dsizes s q) /\
    if S j =? n then o = Some (seq_tags k n) /\ dact (dsnd s3) = false
    else o = None /\ MidD s3 k n (S j).
Proof.
  intros M. pose proof M as [I Hact Hk Hn Hj Hlt Hin Hrcv]. subst k n j.
  pose proof (j_act _ I Hact) as Hpos. destruct (j_sn _ I Hpos) as [Hsn Hsf].
  pose proof (j_sizes _ I (dk (dsnd s)) ltac:(lia)) as Hsz.
  assert (Hclose : dclose s) by (unfold dclose; destruct Hrcv as [(A & _)|(_ & B)]; lia).
  assert (Hf16 : df (dsnd s) mod 16 = df (dsnd s)) by (apply Nat.mod_small; lia).
  remember (S (df (dsnd s)) =? dn (dsnd s)) as l eqn:L.
  set (r1 := {| cR := dk (dsnd s); cf := df (dsnd s);
                cbuf := if l then [] else seq_tags (dk (dsnd s)) (S (df (dsnd s)));
                cmode := if l then CDone else CProg |}).
  set (s1 := with_rcv s r1).
  assert (E1 : dexec 2 s (CData (dcur_msg s)) = Some (s1, if l then Some (seq_tags (dk (dsnd s)) (S (df (dsnd s)))) else None)).
  { unfold dcur_msg in *. rewrite <- L in Hin |- *. rewrite (dexec_data s _ _ _ Hin ltac:(lia)). rewrite Hf16.
    destruct Hrcv as [(A & B & C)|(A & B)].
    - rewrite A. rewrite (crule_next (dk (dsnd s) mod 8) (cf (drcv s)) _ (df (dsnd s)) ltac:(lia)).
      pose proof (j_rcv _ I) as Hr. unfold drcv_ok in Hr. rewrite C in Hr. destruct Hr as (_ & _ & Hbuf).
      rewrite Hbuf, A, B. rewrite <- seq_tags_S. unfold s1, r1. reflexivity.
    - rewrite (crule_new (cR (drcv s)) (dk (dsnd s)) (cf (drcv s)) _ (df (dsnd s)) ltac:(lia)).
      unfold s1, r1. rewrite A. destruct l; reflexivity. }
  set (a := cur_dack s1).
  set (s2 := add_dack s1 a).
  assert (E2 : dexec 2 s1 CGenAck = Some (s2, None)) by reflexivity.
  assert (E3 : dexec 2 s2 (DAck a) =
               Some (if l
                     then with_dsnd s2 {| dk := dk (dsnd s); df := df (dsnd s); dn := dn (dsnd s); dact := false |} (dmsgs s)
                     else with_dsnd s2 {| dk := dk (dsnd s); df := S (df (dsnd s)); dn := dn (dsnd s); dact := true |}
                                    (Data (dk (dsnd s)) (S (df (dsnd s))) (S (S (df (dsnd s))) =? dn (dsnd s)) :: dmsgs s), None)).
  { rewrite L. apply (dexec_ack_hit s2 a).
    - unfold s2. dnsimp. left. reflexivity.
    - exact Hact.
    - unfold a, s2, s1. dnsimp. lia.
    - unfold a, s2, s1, r1. dnsimp. reflexivity.
    - unfold a, s2, s1, r1. dnsimp. exact Hf16.
    - unfold s2, s1. dnsimp. lia. }
  set (s3 := if l
             then with_dsnd s2 {| dk := dk (dsnd s); df := df (dsnd s); dn := dn (dsnd s); dact := false |} (dmsgs s)
             else with_dsnd s2 {| dk := dk (dsnd s); df := S (df (dsnd s)); dn := dn (dsnd s); dact := true |}
                            (Data (dk (dsnd s)) (S (df (dsnd s))) (S (S (df (dsnd s))) =? dn (dsnd s)) :: dmsgs s)) in *.
  exists s3, (if l then Some (seq_tags (dk (dsnd s)) (S (df (dsnd s)))) else None).
  assert (Hround : dclean_round s = Some (s3, if l then Some (seq_tags (dk (dsnd s)) (S (df (dsnd s)))) else None)).
  { unfold dclean_round. rewrite E1. rewrite E2. fold a. rewrite E3. reflexivity. }
  split; [exact Hround|].
  assert (Hc1 : dclose s1) by (unfold dclose, s1, r1; dnsimp; lia).
  destruct (dstep_inv _ _ _ _ I (dexec_sound _ _ _ _ _ E1) Hclose Hc1) as [I1 _].
  assert (Hc2 : dclose s2) by (unfold dclose, s2, s1, r1; dnsimp; lia).
  destruct (dstep_inv _ _ _ _ I1 (dexec_sound _ _ _ _ _ E2) Hc1 Hc2) as [I2 _].
  assert (Hc3 : dclose s3) by (unfold dclose, s3, s2, s1, r1; destruct l; dnsimp; lia).
  destruct (dstep_inv _ _ _ _ I2 (dexec_sound _ _ _ _ _ E3) Hc2 Hc3) as [I3 _].
  split; [exact I3|].
  split; [unfold s3, s2, s1, r1; destruct l; dnsimp; reflexivity|].
  split; [unfold s3, s2, s1, r1; destruct l; dnsimp; reflexivity|].
  split; [intros q; unfold s3, s2, s1; destruct l; reflexivity|].
  unfold s3. destruct l.
  - assert (Hlast : S (df (dsnd s)) = dn (dsnd s)) by lia. rewrite <- Hlast. split; reflexivity.
  - split; [reflexivity|].
    constructor; unfold s2, s1, r1; dnsimp; try assumption; try reflexivity; try lia.
    + unfold dcur_msg. dnsimp. left. reflexivity.
    + left. split; [reflexivity|]. split; reflexivity.
Qed.

Lemma dclean_rounds_spec : forall m s k n j outs, MidD s k n j -> j + m = n ->
  exists s', dclean_rounds m s outs = Some (s', outs ++ [seq_tags k n]) /\ DInv s' /\
             dact (dsnd s') = false /\ dk (dsnd s') = k /\ cR (drcv s') = k /\ (forall q, dsizes s' q = dsizes s q).
Proof.
  induction m as [|m IH]; intros s k n j outs M Hm.
  - pose proof (d_lt _ _ _ _ M). lia.
  - destruct (dclean_round_spec s k n j M) as (s3 & o & Hr & I3 & Hk3 & HR3 & Hsz3 & Hcase).
    cbn [dclean_rounds]. rewrite Hr.
    destruct (S j =? n) eqn:E.
    + destruct Hcase as (Ho & Hact3). subst o.
      assert (m = 0) by lia. subst m. cbn [dclean_rounds].
      exists s3. csplit; try assumption; try reflexivity.
    + destruct Hcase as (Ho & M3). subst o.
      destruct (IH s3 k n (S j) outs M3 ltac:(lia)) as (s' & Hrs & I' & Ha' & Hk' & HR' & Hsz').
      exists s'. csplit; try assumption; try reflexivity. intros q. rewrite Hsz', Hsz3. reflexivity.
Qed.

(* C02, logic part, downstream *)
Theorem dclean_packet_spec s n outs :
  DInv s -> dact (dsnd s) = false -> dk (dsnd s) <= cR (drcv s) + 3 -> 1 <= n <= 16 ->
  exists s', dclean_packet n s outs = Some (s', outs ++ [seq_tags (S (dk (dsnd s))) n]) /\ DInv s' /\
             dact (dsnd s') = false /\ dk (dsnd s') = S (dk (dsnd s)) /\ cR (drcv s') = S (dk (dsnd s)) /\
             dsizes s' (S (dk (dsnd s))) = n.
Proof.
  intros I Hact Hgap Hn. unfold dclean_packet.
  assert (E : dexec 2 s (DNew n) =
              Some ({| dsnd := {| dk := S (dk (dsnd s)); df := 0; dn := n; dact := true |}; drcv := drcv s;
                       dmsgs := Data (S (dk (dsnd s))) 0 (n =? 1) :: dmsgs s; dacks := dacks s;
                       dsizes := fun k => if k =? S (dk (dsnd s)) then n else dsizes s k |}, None)).
  { unfold dexec. rewrite Hact. cbn [negb andb].
    destruct (1 <=? n) eqn:A; destruct (n <=? 16) eqn:B; try lia. reflexivity. }
  rewrite E.
  set (s1 := {| dsnd := {| dk := S (dk (dsnd s)); df := 0; dn := n; dact := true |}; drcv := drcv s;
                dmsgs := Data (S (dk (dsnd s))) 0 (n =? 1) :: dmsgs s; dacks := dacks s;
                dsizes := fun k => if k =? S (dk (dsnd s)) then n else dsizes s k |}) in *.
  assert (Hc : dclose s) by (unfold dclose; lia).
  assert (Hc1 : dclose s1) by (unfold dclose, s1; dnsimp; lia).
  destruct (dstep_inv _ _ _ _ I (dexec_sound _ _ _ _ _ E) Hc Hc1) as [I1 _].
  assert (M : MidD s1 (S (dk (dsnd s))) n 0).
  { constructor; unfold s1; dnsimp; try assumption; try reflexivity; try lia.
    - unfold dcur_msg. dnsimp. left. rewrite (Nat.eqb_sym n 1). reflexivity.
    - right. split; [reflexivity|]. pose proof (j_le _ I). lia. }
  destruct (dclean_rounds_spec n s1 (S (dk (dsnd s))) n 0 outs M ltac:(lia)) as (s' & Hr & I' & Ha' & Hk' & HR' & Hsz').
  exists s'. csplit; try assumption; try reflexivity.
  rewrite Hsz'. unfold s1. dnsimp. rewrite Nat.eqb_refl. reflexivity.
Qed.

Theorem dclean_packets_spec : forall ns s outs,
  DInv s -> dact (dsnd s) = false -> dk (dsnd s) <= cR (drcv s) + 3 -> Forall (fun n => 1 <= n <= 16) ns ->
  exists s', dclean_packets ns s outs = Some (s', outs ++ tags_from (S (dk (dsnd s))) ns) /\ DInv s' /\
             dact (dsnd s') = false /\ dk (dsnd s') = dk (dsnd s) + length ns /\
             (ns <> [] -> cR (drcv s') = dk (dsnd s')).
Proof.
  induction ns as [|n ns IH]; intros s outs I Hact Hgap Hall.
  - exists s. cbn. rewrite app_nil_r. csplit; try assumption; try reflexivity; try lia. congruence.
  - inversion Hall as [|x l Hn Hrest]; subst.
    destruct (dclean_packet_spec s n outs I Hact Hgap Hn) as (s1 & Hp & I1 & Ha1 & Hk1 & HR1 & _).
    cbn [dclean_packets]. rewrite Hp.
    destruct (IH s1 (outs ++ [seq_tags (S (dk (dsnd s))) n]) I1 Ha1 ltac:(lia) Hrest) as (s' & Hps & I' & Ha' & Hk' & HR').
    exists s'. rewrite Hps. rewrite Hk1. cbn [tags_from length]. rewrite <- app_assoc. cbn [app].
    csplit; try assumption; try reflexivity; try lia.
    intros _. destruct ns as [|n2 ns2].
    + cbn in Hps. inversion Hps; subst. lia.
    + apply HR'. discriminate.
Qed.

(* ---- downstream recovery ------------------------------------------------------------------------ *)

Lemma is_empty_snoc (x : list (nat * nat)) y : is_empty (x ++ [y]) = false.
Proof. destruct x; reflexivity. Qed.

(* the client already holds the server's current fragment (its acknowledgement was lost) *)
Record MidDC (s : dsys) (k n j : nat) : Prop := {
  dc_inv : DInv s;
  dc_act : dact (dsnd s) = true;
  dc_k : dk (dsnd s) = k;
  dc_n : dn (dsnd s) = n;
  dc_j : df (dsnd s) = j;
  dc_lt : j < n;
  dc_in : In (dcur_msg s) (dmsgs s);
  dc_rcv : cR (drcv s) = k /\ cf (drcv s) = j /\ (cmode (drcv s) = CProg \/ cmode (drcv s) = CDone)
}.

(* one clean round from such a state: the duplicate is ignored (or, for a single-fragment packet that the
   client has already delivered, delivered once more by the "weird situation" rule -- the same packet),
   the acknowledgement gets through and the server moves on *)
Lemma dclean_round_dup s k n j : MidDC s k n j ->
  exists s3 o, dclean_round s = Some (s3, o) /\ DInv s3 /\ dk (dsnd s3) = k /\ cR (drcv s3) = k /\
    (forall q, dsizes s3 q = dsizes s q) /\ (o = None \/ (o = Some (seq_tags k n) /\ S j = n)) /\
    if S j =? n then dact (dsnd s3) = false else MidD s3 k n (S j).
Proof.
  intros M. pose proof M as [I Hact Hk Hn Hj Hlt Hin (HR & Hcf & Hmode)]. subst k n j.
  pose proof (j_act _ I Hact) as Hpos. destruct (j_sn _ I Hpos) as [Hsn Hsf].
  pose proof (j_sizes _ I (dk (dsnd s)) ltac:(lia)) as Hsz.
  assert (Hclose : dclose s) by (unfold dclose; lia).
  assert (Hf16 : df (dsnd s) mod 16 = df (dsnd s)) by (apply Nat.mod_small; lia).
  pose proof (j_rcv _ I) as Hrcv. unfold drcv_ok in Hrcv.
  remember (S (df (dsnd s)) =? dn (dsnd s)) as l eqn:L.
  (* step 1: what the client does with the duplicate *)
  assert (E1 : exists s1 o, dexec 2 s (CData (dcur_msg s)) = Some (s1, o) /\ dsnd s1 = dsnd s /\ dmsgs s1 = dmsgs s /\
                 dacks s1 = dacks s /\ dsizes s1 = dsizes s /\ cR (drcv s1) = dk (dsnd s) /\ cf (drcv s1) = df (dsnd s) /\
                 (cmode (drcv s1) = CProg \/ cmode (drcv s1) = CDone) /\
                 (l = false -> cmode (drcv s1) = CProg) /\
                 (o = None \/ (o = Some (seq_tags (dk (dsnd s)) (dn (dsnd s))) /\ S (df (dsnd s)) = dn (dsnd s)))).
  { unfold dcur_msg in *. rewrite <- L in Hin |- *. rewrite (dexec_data s _ _ _ Hin ltac:(lia)). rewrite Hf16, HR.
    destruct Hmode as [Hm|Hm]; rewrite Hm in Hrcv.
    - (* in progress: buffer non-empty, plain duplicate *)
      destruct Hrcv as (_ & _ & Hbuf).
      assert (Hne : is_empty (cbuf (drcv s)) = false) by (rewrite Hbuf, seq_tags_S; apply is_empty_snoc).
      assert (Hle : df (dsnd s) <= cf (drcv s)) by lia.
      assert (Hw : (cf (drcv s) =? 0) && (df (dsnd s) =? 0) && is_empty (cbuf (drcv s)) = false) by (rewrite Hne; apply andb_false_r).
      rewrite (crule_dup (dk (dsnd s) mod 8) (cf (drcv s)) (is_empty (cbuf (drcv s))) (df (dsnd s)) Hle Hw).
      exists s, None. repeat split; try assumption; try reflexivity; auto.
    - (* done: the packet has been delivered; S cf = n *)
      destruct Hrcv as (_ & Hbuf & Hdone). rewrite HR, Hcf in Hdone.
      assert (Hl : (S (df (dsnd s)) =? dn (dsnd s)) = true) by (apply Nat.eqb_eq; lia). rewrite Hl in L. subst l.
      destruct (df (dsnd s)) as [|j'] eqn:Ej.
      + (* single-fragment packet: weird-situation rule re-delivers it *)
        rewrite Hcf, Hbuf. cbn [is_empty]. rewrite crule_weird.
        exists (with_rcv s {| cR := dk (dsnd s); cf := 0; cbuf := []; cmode := CDone |}), (Some [(dk (dsnd s), 0)]).
        change (0 mod 16) with 0. repeat split; try reflexivity; auto; try discriminate.
        right. split; [replace (dn (dsnd s)) with 1 by lia; reflexivity|lia].
      + assert (Hle : S j' <= cf (drcv s)) by lia.
        assert (Hw : (cf (drcv s) =? 0) && (S j' =? 0) && is_empty (cbuf (drcv s)) = false) by (rewrite Hcf; reflexivity).
        rewrite (crule_dup (dk (dsnd s) mod 8) (cf (drcv s)) (is_empty (cbuf (drcv s))) (S j') Hle Hw).
        exists s, None. repeat split; try assumption; try reflexivity; auto; try discriminate. }
  destruct E1 as (s1 & o & E1 & S1 & M1 & A1 & Z1 & R1 & F1 & Md1 & Mdl & Ho).
  set (a := cur_dack s1).
  set (s2 := add_dack s1 a).
  assert (E2 : dexec 2 s1 CGenAck = Some (s2, None)) by reflexivity.
  assert (E3 : dexec 2 s2 (DAck a) =
               Some (if l
                     then with_dsnd s2 {| dk := dk (dsnd s); df := df (dsnd s); dn := dn (dsnd s); dact := false |} (dmsgs s)
                     else with_dsnd s2 {| dk := dk (dsnd s); df := S (df (dsnd s)); dn := dn (dsnd s); dact := true |}
                                    (Data (dk (dsnd s)) (S (df (dsnd s))) (S (S (df (dsnd s))) =? dn (dsnd s)) :: dmsgs s), None)).
  { rewrite L. rewrite <- S1, <- M1.
    replace (dsnd s1) with (dsnd s2) by reflexivity. replace (dmsgs s1) with (dmsgs s2) by reflexivity.
    apply (dexec_ack_hit s2 a).
    - unfold s2. dnsimp. left. reflexivity.
    - unfold s2. dnsimp. rewrite S1. exact Hact.
    - unfold a, s2. dnsimp. lia.
    - unfold a, s2. dnsimp. rewrite R1, S1. reflexivity.
    - unfold a, s2. dnsimp. rewrite F1, S1. exact Hf16.
    - unfold s2. dnsimp. rewrite S1. lia. }
  set (s3 := if l
             then with_dsnd s2 {| dk := dk (dsnd s); df := df (dsnd s); dn := dn (dsnd s); dact := false |} (dmsgs s)
             else with_dsnd s2 {| dk := dk (dsnd s); df := S (df (dsnd s)); dn := dn (dsnd s); dact := true |}
                            (Data (dk (dsnd s)) (S (df (dsnd s))) (S (S (df (dsnd s))) =? dn (dsnd s)) :: dmsgs s)) in *.
  exists s3, o.
  assert (Hround : dclean_round s = Some (s3, o)).
  { unfold dclean_round. rewrite E1. rewrite E2. fold a. rewrite E3. reflexivity. }
  split; [exact Hround|].
  assert (Hc1 : dclose s1) by (unfold dclose; rewrite S1, R1; lia).
  destruct (dstep_inv _ _ _ _ I (dexec_sound _ _ _ _ _ E1) Hclose Hc1) as [I1 _].
  assert (Hc2 : dclose s2) by (unfold dclose, s2; dnsimp; rewrite S1, R1; lia).
  destruct (dstep_inv _ _ _ _ I1 (dexec_sound _ _ _ _ _ E2) Hc1 Hc2) as [I2 _].
  assert (Hc3 : dclose s3) by (unfold dclose, s3, s2; destruct l; dnsimp; rewrite R1; lia).
  destruct (dstep_inv _ _ _ _ I2 (dexec_sound _ _ _ _ _ E3) Hc2 Hc3) as [I3 _].
  split; [exact I3|].
  split; [unfold s3, s2; destruct l; dnsimp; reflexivity|].
  split; [unfold s3, s2; destruct l; dnsimp; exact R1|].
  split; [intros q; unfold s3, s2; destruct l; dnsimp; rewrite Z1; reflexivity|].
  split; [exact Ho|].
  unfold s3. destruct l.
  - reflexivity.
  - constructor; unfold s2; dnsimp; try assumption; try reflexivity; try lia.
    + unfold dcur_msg. dnsimp. left. reflexivity.
    + left. split; [exact R1|]. split; [rewrite F1; reflexivity|apply Mdl; reflexivity].
Qed.

Lemma dreach_cur_in s outs : dreach s outs -> dact (dsnd s) = true -> In (dcur_msg s) (dmsgs s).
Proof.
  induction 1 as [|s outs e s' o Hr IH Hst Hc']; [cbn; discriminate|].
  intros Hact. unfold dcur_msg in *.
  inversion Hst; subst; dnsimp; try (apply IH; assumption); try discriminate;
    first [ left; rewrite (Nat.eqb_sym n 1); reflexivity | left; reflexivity | right; apply IH; assumption ].
Qed.

Lemma dclean_rounds_dup_spec : forall m s k n j outs, MidDC s k n j -> j + m = n ->
  exists s' outs', dclean_rounds m s outs = Some (s', outs') /\ DInv s' /\
             dact (dsnd s') = false /\ dk (dsnd s') = k /\ cR (drcv s') = k /\
             (outs' = outs \/ outs' = outs ++ [seq_tags k n]).
Proof.
  intros m s k n j outs M Hm. destruct m as [|m]; [pose proof (dc_lt _ _ _ _ M); lia|].
  destruct (dclean_round_dup s k n j M) as (s3 & o & Hr & I3 & Hk3 & HR3 & Hsz3 & Ho & Hcase).
  cbn [dclean_rounds]. rewrite Hr.
  destruct (S j =? n) eqn:E.
  - assert (m = 0) by lia. subst m. cbn [dclean_rounds].
    destruct Ho as [-> | [-> _]]; eexists; eexists; csplit; try reflexivity; try assumption; auto.
  - destruct Ho as [-> | [_ X]]; [|lia].
    destruct (dclean_rounds_spec m s3 k n (S j) outs Hcase ltac:(lia)) as (s' & Hrs & I' & Ha' & Hk' & HR' & _).
    exists s', (outs ++ [seq_tags k n]). csplit; try assumption. right. reflexivity.
Qed.

(* C02, logic part, downstream recovery: from any state reachable inside N-star with a packet in flight and
   the client at most 4 packets behind, n - j clean rounds complete the packet (delivered now, or it had been
   delivered already; a single-fragment packet may be handed over once more: the same packet) and leave the
   two sides synchronised *)
Theorem dclean_recovery s outs :
  dreach s outs -> dact (dsnd s) = true -> dk (dsnd s) <= cR (drcv s) + 4 ->
  exists s' outs', dclean_rounds (dn (dsnd s) - df (dsnd s)) s outs = Some (s', outs') /\ DInv s' /\
     dact (dsnd s') = false /\ dk (dsnd s') = dk (dsnd s) /\ cR (drcv s') = dk (dsnd s) /\
     (outs' = outs \/ outs' = outs ++ [seq_tags (dk (dsnd s)) (dn (dsnd s))]).
Proof.
  intros Hr Hact Hgap.
  destruct (proto_down_safe s outs Hr) as (I & Hc & _).
  pose proof (dreach_cur_in s outs Hr Hact) as Hin.
  pose proof (j_act _ I Hact) as Hpos. destruct (j_sn _ I Hpos) as [Hsn Hsf].
  pose proof (j_msgs _ I _ Hin) as Hck. unfold dcur_msg, msg_ok in Hck.
  destruct Hck as (_ & _ & _ & _ & C5).
  pose proof (j_le _ I) as Hle. pose proof (j_frag _ I) as Hfr.
  pose proof (j_rcv _ I) as Hrcv. unfold drcv_ok in Hrcv.
  pose proof (j_sizes _ I (dk (dsnd s)) ltac:(lia)) as Hsz.
  assert (Hm0 : df (dsnd s) + (dn (dsnd s) - df (dsnd s)) = dn (dsnd s)) by lia.
  assert (finish_a : MidD s (dk (dsnd s)) (dn (dsnd s)) (df (dsnd s)) ->
     exists s' outs', dclean_rounds (dn (dsnd s) - df (dsnd s)) s outs = Some (s', outs') /\ DInv s' /\
       dact (dsnd s') = false /\ dk (dsnd s') = dk (dsnd s) /\ cR (drcv s') = dk (dsnd s) /\
       (outs' = outs \/ outs' = outs ++ [seq_tags (dk (dsnd s)) (dn (dsnd s))])).
  { intros M. destruct (dclean_rounds_spec (dn (dsnd s) - df (dsnd s)) s (dk (dsnd s)) (dn (dsnd s)) (df (dsnd s)) outs M Hm0) as (s' & H1 & H2 & H3 & H4 & H5 & _).
    exists s', (outs ++ [seq_tags (dk (dsnd s)) (dn (dsnd s))]). csplit; try assumption. right. reflexivity. }
  destruct (Nat.eq_dec (cR (drcv s)) (dk (dsnd s))) as [HR|HR].
  - specialize (Hfr HR).
    destruct (cmode (drcv s)) eqn:Hmode.
    + lia.
    + destruct Hrcv as (_ & Hlt & Hbuf).
      destruct (Nat.eq_dec (cf (drcv s)) (df (dsnd s))) as [Hcf|Hcf].
      * apply (dclean_rounds_dup_spec (dn (dsnd s) - df (dsnd s)) s (dk (dsnd s)) (dn (dsnd s)) (df (dsnd s)) outs); [|exact Hm0]. constructor; auto.
      * assert (Hpos' : 0 < df (dsnd s)) by lia.
        destruct (C5 Hpos') as [X|[_ X]]; [lia|].
        apply finish_a. constructor; auto. left. split; [exact HR|]. split; [lia|exact Hmode].
    + destruct Hrcv as (_ & Hbuf & Hdone). rewrite HR in Hdone.
      apply (dclean_rounds_dup_spec (dn (dsnd s) - df (dsnd s)) s (dk (dsnd s)) (dn (dsnd s)) (df (dsnd s)) outs); [|exact Hm0]. constructor; auto.
      split; [exact HR|]. split; [lia|right; exact Hmode].
    + destruct Hrcv as (_ & _ & Hna & _). specialize (Hna HR). congruence.
  - assert (Hj0 : df (dsnd s) = 0).
    { destruct (df (dsnd s)) as [|j'] eqn:E; [reflexivity|]. destruct (C5 ltac:(lia)) as [X|[X _]]; lia. }
    apply finish_a. constructor; auto. right. split; [exact Hj0|lia].
Qed.
