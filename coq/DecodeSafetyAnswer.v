(* DecodeSafetyAnswer.v -- C06, part 3: dns_decode(QR_ANSWER) and read_dns_withq's post-processing
   (client_extract): what is written to the caller's buffer never exceeds buflen, the return
   value never exceeds what was written.  Lemmas only. *)
From Coq Require Import List NArith ZArith Arith Bool Lia ZifyBool ZifyNat ZifyN.
From Iodine Require Import Generated.SrcConsts Base Codec Hostname DnsName DnsMsg
     DecodeSafetyProofs DecodeSafetyMx.
Import ListNotations.
Local Open Scope nat_scope.

Ltac Zify.zify_post_hook ::= Z.div_mod_to_equations.

Definition da_safe (buflen : nat) (r : da_result) : Prop :=
  length (da_out r) <= buflen /\
  (da_rv r <= Z.of_nat (length (da_out r)))%Z /\
  (da_rv r <= Z.of_nat buflen)%Z /\
  (-1 <= da_rv r)%Z.

Lemma rdata_size_4096 : rdata_size = 4096.
Proof. reflexivity. Qed.

Ltac split_ifs :=
  repeat match goal with
         | |- context[if ?b then _ else _] => destruct b eqn:?
         end.

Lemma dns_decode_answer_safe buflen buf plen : 1 <= buflen ->
  da_safe buflen (dns_decode_answer buflen buf plen).
Proof.
  intros H1. unfold dns_decode_answer, da_safe. cbv beta zeta.
  destruct (plen <? 12); [cbn [da_out da_rv length]; lia|].
  destruct (negb _); [cbn [da_out da_rv length]; lia|].
  destruct (_ <? 1)%Z; [cbn [da_out da_rv length]; lia|].
  destruct (plen <? 4 + _); [cbn [da_out da_rv length]; lia|].
  destruct (_ <? 1)%Z; [cbn [da_out da_rv length]; lia|].
  destruct (_ || _).
  { (* NULL / PRIVATE *)
    destruct (plen <? 10 + _); [cbn [da_out da_rv length]; lia|].
    destruct (plen <? _ + _); [cbn [da_out da_rv length]; lia|].
    destruct (2 <=? _) eqn:E; cbn [da_out da_rv]; [|cbn [da_out da_rv length]; lia].
    rewrite firstn_length, map_length, seq_length. lia. }
  destruct (_ || _).
  { (* A / CNAME *)
    destruct (plen <? 10 + _); [cbn [da_out da_rv length]; lia|].
    destruct (_ =? T_CNAME)%N.
    { cbn [da_out da_rv]. rewrite app_length, firstn_length. cbn [length]. lia. }
    destruct (_ =? T_A)%N; [|cbn [da_out da_rv length]; lia].
    destruct (plen <? _ + _); [cbn [da_out da_rv length]; lia|].
    destruct (2 <=? _) eqn:E; cbn [da_out da_rv]; [|cbn [da_out da_rv length]; lia].
    rewrite firstn_length, map_length, seq_length. lia. }
  destruct (_ || _).
  { (* MX / SRV *)
    destruct (mx_decode_loop _ _ _ _ _ _) as [[names aty]|]; [|cbn [da_out da_rv length]; lia].
    pose proof (mx_output_bound buflen names 0 [] H1 ltac:(lia) eq_refl) as Hb.
    destruct (mx_output names buflen 0 []) as [out off]. cbn [fst snd] in Hb.
    cbn [da_out da_rv]. lia. }
  destruct (_ =? T_TXT)%N; [|cbn [da_out da_rv length]; lia].
  destruct (plen <? 10 + _); [cbn [da_out da_rv length]; lia|].
  destruct (plen <? _ + _); [cbn [da_out da_rv length]; lia|].
  destruct (1 <=? _) eqn:E; cbn [da_out da_rv]; [|cbn [da_out da_rv length]; lia].
  rewrite firstn_length. lia.
Qed.

(* the scratch buffer rdata[4096]: what dns_decode copies into it *)
Lemma rdata_copy_bound rlen : Nat.min rlen rdata_size <= 4096.
Proof. rewrite rdata_size_4096. lia. Qed.

Lemma rdata_txt_bound buf p rlen : length (readtxtbin buf p rlen rdata_size) <= 4096.
Proof. rewrite <- rdata_size_4096. apply readtxtbin_bound. Qed.

(* read_dns_withq *)
Lemma client_extract_safe buflen buf plen : 1 <= buflen ->
  da_safe buflen (client_extract buflen buf plen).
Proof.
  intros H1. unfold client_extract.
  pose proof (dns_decode_answer_safe buflen buf plen H1) as Hs.
  set (r := dns_decode_answer buflen buf plen) in *.
  destruct (da_rv r <=? 0)%Z; [exact Hs|].
  destruct (da_type r) as [ty|]; [|exact Hs].
  destruct (_ || _).
  { unfold da_safe. cbn [da_out da_rv]. rewrite firstn_length. lia. }
  destruct (_ || _); [|exact Hs].
  unfold da_safe. cbn [da_out da_rv]. rewrite firstn_length. lia.
Qed.

(* the intermediate buffer data[64K] of read_dns_withq *)
Lemma client_extract_scratch_bound (s : list N) (n : nat) :
  length (dns_namedec buf64k s n) <= buf64k /\
  length (mx_namedec_loop (S n) s n 0 buf64k []) <= buf64k.
Proof.
  split; [apply dns_namedec_bound|apply mx_namedec_loop_bound; cbn [length]; lia].
Qed.

Lemma buf64k_val : N.of_nat buf64k = 65536%N.
Proof. reflexivity. Qed.

(* ---- the question name buffer name[256] and the first-character report ---- *)
Lemma question_name_bound buf plen :
  length (rn_wr (readname buf plen 12 name_size)) <= 256.
Proof. apply (readname_bound buf plen 12 name_size). rewrite name_size_256. lia. Qed.
