(* ClientSafetyProofs.v -- C06, part 4b: the client's tunnelling state machine (Client.v):
   frame lemmas for the senders, the buffer/index invariant over all event lists, and
   "replies that do not match are ignored".  Lemmas only. *)
From Coq Require Import List NArith ZArith Arith Bool Lia ZifyBool ZifyNat ZifyN.
From RecordUpdate Require Import RecordUpdate.
From Iodine Require Import Generated.SrcConsts Base Codec Hostname DnsName DnsMsg Client
     DecodeSafetyProofs DecodeSafetyMx DecodeSafetyAnswer ClientStages.
Import ListNotations.
Local Open Scope N_scope.

Ltac Zify.zify_post_hook ::= Z.div_mod_to_equations.

(* ------------------------------------------------------------------------------------------ *)
(* what the senders leave alone *)

Definition no_tun (o : list cout) : Prop := forall p, ~ In (CTun p) o.

Lemma no_tun_nil : no_tun [].
Proof. intros p H. destruct H. Qed.

Lemma no_tun_app a b : no_tun a -> no_tun b -> no_tun (a ++ b).
Proof. intros Ha Hb p H. apply in_app_or in H. destruct H; [eapply Ha|eapply Hb]; eauto. Qed.

Lemma no_tun_query d : no_tun [CQuery d].
Proof. intros p [H|[]]. discriminate. Qed.

Lemma no_tun_raw d : no_tun [CRaw d].
Proof. intros p [H|[]]. discriminate. Qed.

(* configuration, reassembly buffer, watchdog clock, retransmission counter, reply statistics *)
Definition core (s : cstate) :=
  (c_in s, c_resent s, c_lastdown s, c_running s,
   (c_userid s, c_domain s, c_codec s, c_maxlen s, c_qtype s, c_edns0 s, c_dns s),
   (c_packrecv s, c_packrecv_oos s, c_servfail s)).

Definition ids_ok (s : cstate) : Prop :=
  c_chunkid s < 65536 /\ c_prev s < 65536 /\ c_prev2 s < 65536 /\ c_rand_seed s < 65536.

(* a sender that only emits queries / raw frames and only moves ids, the CMC seed and the
   "too few answers" bookkeeping *)
Definition quiet (s s' : cstate) (o : list cout) : Prop :=
  core s' = core s /\ c_out s' = c_out s /\ c_datacmc s' = c_datacmc s /\ no_tun o /\ (ids_ok s -> ids_ok s').

Ltac split5 := split; [|split; [|split; [|split]]].

Lemma quiet_refl s : quiet s s [].
Proof. split5; [reflexivity..|apply no_tun_nil|tauto]. Qed.

Lemma next_chunkid_lt id : next_chunkid id < 65536.
Proof. unfold next_chunkid. destruct (_ =? 0) eqn:E; lia. Qed.

Lemma send_query_raw_quiet s h : quiet s (fst (send_query_raw s h)) (snd (send_query_raw s h)).
Proof.
  unfold send_query_raw. destruct (dns_encode_query _ _ _ _ _); cbn [fst snd];
    (split; [reflexivity|split; [reflexivity|split; [reflexivity|split]]]);
    try apply no_tun_nil; try apply no_tun_query;
    unfold ids_ok; cbn; pose proof (next_chunkid_lt (c_chunkid s)); lia.
Qed.

Lemma quiet_trans s1 s2 s3 o1 o2 : quiet s1 s2 o1 -> quiet s2 s3 o2 -> quiet s1 s3 (o1 ++ o2).
Proof.
  intros (A1 & A2 & A3 & A4 & A5) (B1 & B2 & B3 & B4 & B5).
  split5; [congruence..|apply no_tun_app; assumption|intros Hi; apply B5, A5, Hi].
Qed.

Lemma lazyoff_queries_quiet : forall n s acc,
  no_tun acc ->
  core (fst (lazyoff_queries n s acc)) = core s /\ c_out (fst (lazyoff_queries n s acc)) = c_out s /\
  c_datacmc (fst (lazyoff_queries n s acc)) = c_datacmc s /\ no_tun (snd (lazyoff_queries n s acc)) /\
  (ids_ok s -> ids_ok (fst (lazyoff_queries n s acc))).
Proof.
  induction n as [|n IH]; intros s acc Ha; cbn [lazyoff_queries].
  - cbn [fst snd]. split5; [reflexivity..|exact Ha|tauto].
  - cbv zeta.
    pose proof (send_query_raw_quiet (s <| c_rand_seed := (c_rand_seed s + 1) mod 65536 |>) (lazy_switch_name s)) as Hq.
    destruct (send_query_raw _ _) as [s2 o]. cbn [fst snd] in Hq.
    destruct Hq as (Q1 & Q2 & Q3 & Q4 & Q5).
    specialize (IH s2 (acc ++ o) (no_tun_app _ _ Ha Q4)).
    destruct IH as (I1 & I2 & I3 & I4 & I5).
    split; [rewrite I1, Q1; reflexivity|]. split; [rewrite I2, Q2; reflexivity|].
    split; [rewrite I3, Q3; reflexivity|]. split; [exact I4|].
    intros Hi. apply I5, Q5. unfold ids_ok in *. cbn. lia.
Qed.

Lemma send_query_quiet s h : quiet s (fst (send_query s h)) (snd (send_query s h)).
Proof.
  unfold send_query.
  pose proof (send_query_raw_quiet s h) as Hq.
  destruct (send_query_raw s h) as [s1 o]. cbn [fst snd] in Hq.
  destruct o as [|x o]; [exact Hq|].
  destruct Hq as (Q1 & Q2 & Q3 & Q4 & Q5).
  destruct (_ && _ && _); [|cbn [fst snd]; split5; assumption].
  cbv zeta.
  destruct (_ || _); [|cbn [fst snd]; split5; assumption].
  destruct (1 <? _).
  - cbn [fst snd]. split5; assumption.
  - match goal with |- context[lazyoff_queries 5 ?st []] =>
      pose proof (lazyoff_queries_quiet 5 st [] no_tun_nil) as Hl; destruct (lazyoff_queries 5 st []) as [s4 o2] end.
    cbn [fst snd] in Hl |- *. destruct Hl as (L1 & L2 & L3 & L4 & L5).
    split; [rewrite L1; exact Q1|]. split; [rewrite L2; exact Q2|]. split; [rewrite L3; exact Q3|].
    split; [apply (no_tun_app (x :: o) o2); assumption|].
    intros Hi. apply L5. apply Q5 in Hi. exact Hi.
Qed.

Lemma send_ping_quiet s : quiet s (fst (send_ping s)) (snd (send_ping s)).
Proof.
  unfold send_ping. destruct (c_dns s).
  - cbv zeta. destruct (packet_name _ _ _ _) as [[name n]|].
    + pose proof (send_query_quiet (s <| c_rand_seed := (c_rand_seed s + 1) mod 65536 |>) name) as Hq.
      destruct Hq as (Q1 & Q2 & Q3 & Q4 & Q5).
      split5; try assumption. intros Hi. apply Q5. unfold ids_ok in *. cbn. lia.
    + cbn [fst snd]. split5; [reflexivity..|apply no_tun_nil|]. unfold ids_ok. cbn. lia.
  - cbn [fst snd]. split5; [reflexivity..|apply no_tun_raw|tauto].
Qed.

(* send_chunk: additionally records sentlen and advances the data CMC *)
Definition out_frame (o o' : cpkt) : Prop :=
  k_len o' = k_len o /\ k_offset o' = k_offset o /\ k_data o' = k_data o /\ k_seqno o' = k_seqno o /\
  k_fragment o' = k_fragment o.

Lemma out_frame_refl o : out_frame o o.
Proof. repeat split. Qed.

Lemma send_chunk_frame s :
  core (fst (send_chunk s)) = core s /\ out_frame (c_out s) (c_out (fst (send_chunk s))) /\
  no_tun (snd (send_chunk s)) /\ (ids_ok s -> ids_ok (fst (send_chunk s))) /\
  ((c_datacmc s < 36)%nat -> (c_datacmc (fst (send_chunk s)) < 36)%nat).
Proof.
  unfold send_chunk. cbv zeta.
  destruct (send_chunk_name _ _ _ _ _ _ _ _ _ _) as [[name n]|].
  - match goal with |- context[send_query ?st name] => pose proof (send_query_quiet st name) as Hq end.
    destruct Hq as (Q1 & Q2 & Q3 & Q4 & Q5).
    split; [rewrite Q1; reflexivity|]. split; [rewrite Q2; repeat split|].
    split; [exact Q4|]. split; [intros Hi; apply Q5; exact Hi|].
    intros Hc. rewrite Q3. cbn -[Nat.leb].
    repeat match goal with |- context[if ?b then _ else _] => destruct b eqn:? end; lia.
  - cbn [fst snd]. split; [reflexivity|]. split; [apply out_frame_refl|]. split; [apply no_tun_nil|tauto].
Qed.
