(* DnsName.v -- executable model of the wire-name reader/writer of src/read.c:
   putname (strtok on '.', labels <= 63), readname / readname_loop (compression aware, bounded
   by the packet length since the "never read past the end" fix), readshort/readlong,
   puttxtbin / readtxtbin.  Model only.

   Reading convention (shared with the low-level theorems of C12/C05/C06): a received packet is
   given as the receive BUFFER [buf] (datagram bytes followed by whatever residue the buffer
   holds) together with the datagram length [plen].  The model reads [rb buf i] exactly where
   the C dereferences a pointer; nothing here restricts i < plen except the guards the C has. *)
From Coq Require Import List NArith ZArith Arith Bool.
From Iodine Require Import Generated.SrcConsts Base.
Import ListNotations.
Local Open Scope N_scope.

Definition rb (buf : list N) (i : nat) : N := nth i buf 0.

Definition DOTC : N := 46.
Definition label_max : nat := N.to_nat src_PUTNAME_LABEL_MAX.   (* 63 *)

(* ---- putname ----------------------------------------------------------------------- *)

(* strtok(h, "."): maximal runs of non-dot characters; empty runs are skipped *)
Fixpoint tokens_go (s : list N) (cur : list N) : list (list N) :=
  match s with
  | [] => match cur with [] => [] | _ => [rev cur] end
  | ch :: s' =>
      if ch =? DOTC
      then match cur with [] => tokens_go s' [] | _ => rev cur :: tokens_go s' [] end
      else tokens_go s' (ch :: cur)
  end.
Definition tokens (s : list N) : list (list N) := tokens_go s [].

(* C string view: bytes before the first NUL *)
Fixpoint cstr (s : list N) : list N :=
  match s with
  | [] => []
  | ch :: s' => if ch =? 0 then [] else ch :: cstr s'
  end.

(* putname(&p, buflen, host): Some wire bytes (labels + root), or None when a label is longer
   than 63 or does not fit [left] (the C returns -1 and leaves *buf where it was). *)
Fixpoint putname_go (ws : list (list N)) (left : Z) : option (list N) :=
  match ws with
  | [] => Some [0]
  | w :: ws' =>
      if ((label_max <? length w)%nat || (left <? Z.of_nat (length w))%Z) then None
      else match putname_go ws' (left - (Z.of_nat (length w) + 1))%Z with
           | None => None
           | Some rest => Some (N.of_nat (length w) :: w ++ rest)
           end
  end.
Definition putname (buflen : nat) (host : list N) : option (list N) :=
  putname_go (tokens (cstr host)) (Z.of_nat buflen).

(* ---- readname ---------------------------------------------------------------------- *)

Record rn_result := {
  rn_ret : nat;          (* return value: bytes written including the NUL (0: nothing written) *)
  rn_wr : list N;        (* all bytes written to dst[0..], in order, including a terminating NUL
                            when one was written (a followed pointer whose target yields nothing
                            leaves the labels copied so far unterminated) *)
  rn_src : option nat    (* new *src offset; None: *src left unchanged *)
}.

(* writing w at the start of an existing buffer; the C string then ends at the first NUL *)
Definition overlay (w old : list N) : list N := w ++ skipn (length w) old.

(* copy a label: while (c && len < length-1 && s < end) *d++ = *s++ *)
Fixpoint copy_label (buf : list N) (plen : nat) (cnt : nat) (s len length : nat) (acc : list N)
  : nat * nat * list N :=
  match cnt with
  | O => (s, len, acc)
  | S cnt' =>
      if ((len <? length - 1) && (s <? plen))%nat
      then copy_label buf plen cnt' (S s) (S len) length (rb buf s :: acc)
      else (s, len, acc)
  end.

(* readname_loop(packet, packetlen, src, dst, length, loop).
   [fuel] bounds the label loop of one level (each iteration advances s by >= 1, so plen + 1
   iterations suffice); [loop] is the recursion depth for compression pointers. *)
Fixpoint readname_lvl (buf : list N) (plen : nat) (length : nat) (loop : nat) (s0 : nat) : rn_result :=
  match loop with
  | O => {| rn_ret := 0; rn_wr := []; rn_src := None |}
  | S loop' =>
      (fix labels (fuel : nat) (s len : nat) (acc : list N) {struct fuel} : rn_result :=
         let finish s len acc :=
           {| rn_ret := S len; rn_wr := rev (0 :: acc); rn_src := Some (S s) |} in
         match fuel with
         | O => finish s len acc
         | S fuel' =>
             if negb ((s <? plen)%nat && negb (rb buf s =? 0) && (len <? length - 2)%nat)
             then finish s len acc
             else
               let c := rb buf s in
               let s1 := S s in
               if N.land c 192 =? 192 then
                 (* compressed label *)
                 if (plen <=? s1)%nat then finish s1 len acc
                 else
                   let offset := N.to_nat (N.lor (N.shiftl (N.land c 63) 8) (N.land (rb buf s1) 255)) in
                   if (plen <=? offset)%nat then
                     match len with
                     | O => {| rn_ret := 0; rn_wr := []; rn_src := None |}
                     | _ => finish s1 len acc
                     end
                   else
                     let sub := readname_lvl buf plen (length - len) loop' offset in
                     {| rn_ret := len + rn_ret sub; rn_wr := rev acc ++ rn_wr sub; rn_src := Some (S s1) |}
               else
                 (* the C decrements a (signed) char until it is 0: c mod 256 iterations *)
                 let '(s2, len2, acc2) := copy_label buf plen (N.to_nat c) s1 len length acc in
                 if (length - 1 <=? len2)%nat then finish s2 len2 acc2
                 else if ((s2 <? plen)%nat && negb (rb buf s2 =? 0))
                      then labels fuel' s2 (S len2) (DOTC :: acc2)
                      else labels fuel' s2 len2 acc2
         end) (S plen) s0 0%nat []
  end.

Definition readname (buf : list N) (plen : nat) (src : nat) (length : nat) : rn_result :=
  readname_lvl buf plen length (N.to_nat src_READNAME_LOOPS) src.

Definition readshort (buf : list N) (p : nat) : N := rb buf p * 256 + rb buf (S p).
Definition readlong (buf : list N) (p : nat) : N :=
  ((rb buf p * 256 + rb buf (p + 1)) * 256 + rb buf (p + 2)) * 256 + rb buf (p + 3).

(* ---- TXT strings ------------------------------------------------------------------- *)

Definition txt_chunk : nat := N.to_nat src_TXT_CHUNK.  (* 252 *)

(* puttxtbin(&buf, bufremain, from, fromremain): None = does not fit (returns -1) *)
Fixpoint puttxtbin_go (fuel : nat) (bufremain : nat) (from : list N) : option (list N) :=
  match from with
  | [] => Some []
  | _ =>
    match fuel with
    | O => None
    | S fuel' =>
        let tocopy := Nat.min (length from) txt_chunk in
        if (bufremain <? tocopy + 1)%nat then None
        else match puttxtbin_go fuel' (bufremain - (tocopy + 1)) (skipn tocopy from) with
             | None => None
             | Some rest => Some (N.of_nat tocopy :: firstn tocopy from ++ rest)
             end
    end
  end.
Definition puttxtbin (bufremain : nat) (from : list N) : option (list N) :=
  puttxtbin_go (S (length from)) bufremain from.

(* readtxtbin(packet, &src, srcremain, dst, dstremain): concatenated strings, or [] ("better
   have nothing") when a string overruns the record or the destination. *)
Fixpoint readtxtbin_go (fuel : nat) (buf : list N) (p : nat) (srcremain dstremain : nat) (acc : list N) : list N :=
  match fuel with
  | O => []
  | S fuel' =>
      match srcremain with
      | O => rev acc
      | S sr =>
          let tocopy := N.to_nat (rb buf p) in
          if (sr <? tocopy)%nat then []
          else if (dstremain <? tocopy)%nat then []
          else readtxtbin_go fuel' buf (S p + tocopy) (sr - tocopy) (dstremain - tocopy)
                 (rev (map (rb buf) (seq (S p) tocopy)) ++ acc)
      end
  end.
Definition readtxtbin (buf : list N) (p srcremain dstremain : nat) : list N :=
  readtxtbin_go (S srcremain) buf p srcremain dstremain [].
