(* ResidueProofs.v -- C12, low-level part: everything the wire-name reader and the two datagram
   decoders compute is determined by the bytes of the receive buffer BELOW the datagram length.

   The models (DnsName.v, DnsMsg.v) read [rb buf i = nth i buf 0] exactly where the C dereferences a
   pointer into the 64 KB receive buffer and have the same guards as the C (s < end, offset >=
   packetlen, CHECKLEN).  Two buffers "agree below n" when they hold the same bytes at every index
   < n; the lemmas below show that every decoder gives the same result on two buffers that agree
   below plen, i.e. every read whose value matters is guarded by i < plen.  The receive buffer
   [dat ++ res] (datagram followed by an arbitrary residue) agrees below [length dat] with
   [dat ++ res'] for every other residue and with [dat] itself. *)
From Coq Require Import List NArith ZArith Arith Bool Lia.
From Iodine Require Import Generated.SrcConsts Base Codec Hostname DnsName DnsMsg.
Import ListNotations.
Local Open Scope N_scope.

(* ---- buffers that agree below an index ------------------------------------------------------ *)

Definition agree (n : nat) (b1 b2 : list N) : Prop := forall i, (i < n)%nat -> rb b1 i = rb b2 i.

Lemma agree_refl n b : agree n b b.
Proof. intros i _. reflexivity. Qed.

Lemma agree_sym n b1 b2 : agree n b1 b2 -> agree n b2 b1.
Proof. intros H i Hi. symmetry. apply H, Hi. Qed.

Lemma agree_trans n b1 b2 b3 : agree n b1 b2 -> agree n b2 b3 -> agree n b1 b3.
Proof. intros H1 H2 i Hi. rewrite (H1 i Hi). apply H2, Hi. Qed.

Lemma agree_le n m b1 b2 : (m <= n)%nat -> agree n b1 b2 -> agree m b1 b2.
Proof. intros Hm H i Hi. apply H. lia. Qed.

(* the key fact: below the datagram length the buffer holds the datagram *)
Lemma rb_app_lt dat res i : (i < length dat)%nat -> rb (dat ++ res) i = rb dat i.
Proof. intros Hi. unfold rb. apply app_nth1, Hi. Qed.

Lemma agree_app dat res1 res2 : agree (length dat) (dat ++ res1) (dat ++ res2).
Proof. intros i Hi. rewrite !rb_app_lt by exact Hi. reflexivity. Qed.

Lemma agree_app_nil dat res : agree (length dat) (dat ++ res) dat.
Proof. intros i Hi. apply rb_app_lt, Hi. Qed.

Lemma rb_firstn n buf i : (i < n)%nat -> rb (firstn n buf) i = rb buf i.
Proof.
  unfold rb. revert buf i. induction n as [|n IH]; intros buf i Hi; [lia|].
  destruct buf as [|x buf]; [destruct i; reflexivity|].
  destruct i as [|i]; [reflexivity|]. simpl. apply IH. lia.
Qed.

Lemma agree_firstn n buf : agree n buf (firstn n buf).
Proof. intros i Hi. symmetry. apply rb_firstn, Hi. Qed.

(* ---- readshort / readlong / block reads under CHECKLEN-style guards -------------------------- *)

Lemma readshort_agree n b1 b2 p : agree n b1 b2 -> (p + 2 <= n)%nat -> readshort b1 p = readshort b2 p.
Proof. intros H Hp. unfold readshort. rewrite (H p), (H (S p)) by lia. reflexivity. Qed.

Lemma readlong_agree n b1 b2 p : agree n b1 b2 -> (p + 4 <= n)%nat -> readlong b1 p = readlong b2 p.
Proof. intros H Hp. unfold readlong. rewrite (H p), (H (p + 1)%nat), (H (p + 2)%nat), (H (p + 3)%nat) by lia. reflexivity. Qed.

Lemma map_rb_agree n b1 b2 a k : agree n b1 b2 -> (a + k <= n)%nat -> map (rb b1) (seq a k) = map (rb b2) (seq a k).
Proof. intros H Hk. apply map_ext_in. intros i Hi. apply in_seq in Hi. apply H. lia. Qed.

(* ---- readname --------------------------------------------------------------------------------- *)

Lemma copy_label_agree b1 b2 plen : agree plen b1 b2 ->
  forall cnt s len length acc, copy_label b1 plen cnt s len length acc = copy_label b2 plen cnt s len length acc.
Proof.
  intros Ha. induction cnt as [|cnt IH]; intros s len length acc; [reflexivity|].
  simpl. destruct ((len <? length - 1)%nat && (s <? plen)%nat) eqn:E; [|reflexivity].
  apply andb_true_iff in E. destruct E as [_ E]. apply Nat.ltb_lt in E.
  rewrite (Ha s E). apply IH.
Qed.

(* the label loop of one recursion level of readname_loop as a top-level function; [sub] is the
   recursive call for a followed compression pointer *)
Definition labels_fix (buf : list N) (plen length : nat) (sub : nat -> nat -> rn_result)
  : nat -> nat -> nat -> list N -> rn_result :=
  fix labels (fuel : nat) (s len : nat) (acc : list N) {struct fuel} : rn_result :=
  let finish s len acc :=
    {| rn_ret := S len; rn_wr := List.rev (0 :: acc); rn_src := Some (S s) |} in
  match fuel with
  | O => finish s len acc
  | S fuel' =>
      if negb ((s <? plen)%nat && negb (rb buf s =? 0) && (len <? length - 2)%nat)
      then finish s len acc
      else
        let c := rb buf s in
        let s1 := S s in
        if N.land c 192 =? 192 then
          if (plen <=? s1)%nat then finish s1 len acc
          else
            let offset := N.to_nat (N.lor (N.shiftl (N.land c 63) 8) (N.land (rb buf s1) 255)) in
            if (plen <=? offset)%nat then
              match len with
              | O => {| rn_ret := 0; rn_wr := []; rn_src := None |}
              | _ => finish s1 len acc
              end
            else
              let sub := sub (length - len)%nat offset in
              {| rn_ret := len + rn_ret sub; rn_wr := List.rev acc ++ rn_wr sub; rn_src := Some (S s1) |}
        else
          let '(s2, len2, acc2) := copy_label buf plen (N.to_nat c) s1 len length acc in
          if (length - 1 <=? len2)%nat then finish s2 len2 acc2
          else if ((s2 <? plen)%nat && negb (rb buf s2 =? 0))
               then labels fuel' s2 (S len2) (DOTC :: acc2)
               else labels fuel' s2 len2 acc2
  end.

Lemma readname_lvl_S buf plen length loop s0 :
  readname_lvl buf plen length (S loop) s0 =
  labels_fix buf plen length (fun l o => readname_lvl buf plen l loop o) (S plen) s0 0%nat [].
Proof. reflexivity. Qed.

Lemma labels_fix_agree b1 b2 plen length sub1 sub2 :
  agree plen b1 b2 -> (forall l o, sub1 l o = sub2 l o) ->
  forall fuel s len acc,
    labels_fix b1 plen length sub1 fuel s len acc = labels_fix b2 plen length sub2 fuel s len acc.
Proof.
  intros Ha Hs. induction fuel as [|fuel IH]; intros s len acc; [reflexivity|].
  simpl.
  destruct (s <? plen)%nat eqn:E1.
  - apply Nat.ltb_lt in E1. rewrite (Ha s E1).
    destruct (negb (true && negb (rb b2 s =? 0) && (len <? length - 2)%nat)); [reflexivity|].
    destruct (N.land (rb b2 s) 192 =? 192).
    + destruct (plen <=? S s)%nat eqn:E2; [reflexivity|].
      apply Nat.leb_gt in E2. rewrite (Ha (S s) E2).
      destruct (plen <=? _)%nat; [reflexivity|]. rewrite Hs. reflexivity.
    + rewrite (copy_label_agree b1 b2 plen Ha).
      destruct (copy_label b2 plen (N.to_nat (rb b2 s)) (S s) len length acc) as [[s2 len2] acc2].
      destruct (length - 1 <=? len2)%nat; [reflexivity|].
      destruct (s2 <? plen)%nat eqn:E3.
      * apply Nat.ltb_lt in E3. rewrite (Ha s2 E3), !IH. reflexivity.
      * cbn [andb]. apply IH.
  - reflexivity.
Qed.

Lemma readname_lvl_agree b1 b2 plen : agree plen b1 b2 ->
  forall loop length s0, readname_lvl b1 plen length loop s0 = readname_lvl b2 plen length loop s0.
Proof.
  intros Ha. induction loop as [|loop IH]; intros length s0; [reflexivity|].
  rewrite !readname_lvl_S. apply labels_fix_agree; [exact Ha|]. intros l o. apply IH.
Qed.

Lemma readname_agree b1 b2 plen : agree plen b1 b2 ->
  forall src lim, readname b1 plen src lim = readname b2 plen src lim.
Proof. intros Ha src lim. unfold readname. apply readname_lvl_agree, Ha. Qed.

(* ---- readtxtbin ------------------------------------------------------------------------------- *)

Lemma readtxtbin_go_agree n b1 b2 : agree n b1 b2 ->
  forall fuel p srcremain dstremain acc, (p + srcremain <= n)%nat ->
    readtxtbin_go fuel b1 p srcremain dstremain acc = readtxtbin_go fuel b2 p srcremain dstremain acc.
Proof.
  intros Ha. induction fuel as [|fuel IH]; intros p sr dr acc Hp; [reflexivity|].
  cbn [readtxtbin_go]. destruct sr as [|sr]; [reflexivity|].
  rewrite (Ha p) by lia.
  destruct (sr <? N.to_nat (rb b2 p))%nat eqn:E1; [reflexivity|]. apply Nat.ltb_ge in E1.
  destruct (dr <? N.to_nat (rb b2 p))%nat; [reflexivity|].
  rewrite (map_rb_agree n b1 b2 (S p) (N.to_nat (rb b2 p)) Ha) by lia.
  apply IH. lia.
Qed.

Lemma readtxtbin_agree n b1 b2 p srcremain dstremain : agree n b1 b2 -> (p + srcremain <= n)%nat ->
  readtxtbin b1 p srcremain dstremain = readtxtbin b2 p srcremain dstremain.
Proof. intros Ha Hp. unfold readtxtbin. apply (readtxtbin_go_agree n); assumption. Qed.

(* ---- dns_get_id, dns_decode (query) ------------------------------------------------------------ *)

Lemma dns_get_id_agree b1 b2 plen : agree plen b1 b2 -> dns_get_id b1 plen = dns_get_id b2 plen.
Proof.
  intros Ha. unfold dns_get_id. destruct (plen <? 12)%nat eqn:E; [reflexivity|].
  apply Nat.ltb_ge in E. apply (readshort_agree plen); [exact Ha|lia].
Qed.

Lemma dns_decode_query_agree b1 b2 plen : agree plen b1 b2 -> dns_decode_query b1 plen = dns_decode_query b2 plen.
Proof.
  intros Ha. unfold dns_decode_query.
  destruct (plen <? 12)%nat eqn:E0; [reflexivity|]. apply Nat.ltb_ge in E0.
  rewrite (Ha 2%nat) by lia.
  rewrite (readshort_agree plen b1 b2 4 Ha), (readshort_agree plen b1 b2 0 Ha) by lia.
  rewrite (readname_agree b1 b2 plen Ha).
  cbv zeta.
  destruct (negb (rb b2 2 / 128 =? 0)); [reflexivity|].
  destruct (to_short (readshort b2 4) <? 1)%Z; [reflexivity|].
  set (data := match rn_src (readname b2 plen 12 (name_size - 1)) with Some p => p | None => 12%nat end).
  destruct (plen <? 4 + data)%nat eqn:E1; [reflexivity|]. apply Nat.ltb_ge in E1.
  rewrite (readshort_agree plen b1 b2 data Ha) by lia. reflexivity.
Qed.

(* ---- dns_decode (answer) ------------------------------------------------------------------------ *)

Lemma mx_decode_loop_agree b1 b2 plen : agree plen b1 b2 ->
  forall cnt data ty0 names,
    mx_decode_loop b1 plen cnt data ty0 names = mx_decode_loop b2 plen cnt data ty0 names.
Proof.
  intros Ha. induction cnt as [|cnt IH]; intros data ty0 names; [reflexivity|].
  cbn [mx_decode_loop]. cbv zeta.
  rewrite !(readname_agree b1 b2 plen Ha).
  set (d1 := adv (readname b2 plen data name_size) data).
  destruct (plen <? 12 + d1)%nat eqn:E0; [reflexivity|]. apply Nat.ltb_ge in E0.
  rewrite (readshort_agree plen b1 b2 d1 Ha), (readshort_agree plen b1 b2 (d1 + 8) Ha),
          (readshort_agree plen b1 b2 (d1 + 10) Ha) by lia.
  match goal with |- (if ?c then None else _) = _ => destruct c; [reflexivity|] end.
  match goal with |- (if ?c then None else _) = _ => destruct c; [reflexivity|] end.
  apply IH.
Qed.

Lemma dns_decode_answer_agree buflen b1 b2 plen : agree plen b1 b2 ->
  dns_decode_answer buflen b1 plen = dns_decode_answer buflen b2 plen.
Proof.
  intros Ha. unfold dns_decode_answer. cbv zeta.
  destruct (plen <? 12)%nat eqn:E0; [reflexivity|]. apply Nat.ltb_ge in E0.
  rewrite (Ha 2%nat), (Ha 3%nat) by lia.
  rewrite (readshort_agree plen b1 b2 4 Ha), (readshort_agree plen b1 b2 6 Ha),
          (readshort_agree plen b1 b2 0 Ha) by lia.
  rewrite !(readname_agree b1 b2 plen Ha).
  rewrite !(mx_decode_loop_agree b1 b2 plen Ha).
  destruct (negb (rb b2 2 / 128 =? 1)); [reflexivity|].
  destruct (to_short (readshort b2 4) <? 1)%Z; [reflexivity|].
  set (rn := readname b2 plen 12 name_size).
  set (d1 := adv rn 12).
  destruct (plen <? 4 + d1)%nat eqn:E1; [reflexivity|]. apply Nat.ltb_ge in E1.
  rewrite (readshort_agree plen b1 b2 d1 Ha) by lia.
  destruct (to_short (readshort b2 6) <? 1)%Z; [reflexivity|].
  set (qtype := readshort b2 d1).
  set (rn2 := readname b2 plen (d1 + 4) name_size).
  set (d3 := adv rn2 (d1 + 4)).
  destruct ((qtype =? T_NULL) || (qtype =? T_PRIVATE)).
  { destruct (plen <? 10 + d3)%nat eqn:E2; [reflexivity|]. apply Nat.ltb_ge in E2.
    rewrite (readshort_agree plen b1 b2 d3 Ha), (readshort_agree plen b1 b2 (d3 + 8) Ha) by lia.
    set (rlen := N.to_nat (readshort b2 (d3 + 8))).
    destruct (plen <? rlen + (d3 + 10))%nat eqn:E3; [reflexivity|]. apply Nat.ltb_ge in E3.
    rewrite (map_rb_agree plen b1 b2 (d3 + 10) (Nat.min rlen rdata_size) Ha) by lia.
    reflexivity. }
  destruct ((qtype =? T_A) || (qtype =? T_CNAME)).
  { destruct (plen <? 10 + d3)%nat eqn:E2; [reflexivity|]. apply Nat.ltb_ge in E2.
    rewrite (readshort_agree plen b1 b2 d3 Ha), (readshort_agree plen b1 b2 (d3 + 8) Ha) by lia.
    set (rlen := N.to_nat (readshort b2 (d3 + 8))).
    destruct (readshort b2 d3 =? T_CNAME); [reflexivity|].
    destruct (readshort b2 d3 =? T_A); [|reflexivity].
    destruct (plen <? rlen + (d3 + 10))%nat eqn:E3; [reflexivity|]. apply Nat.ltb_ge in E3.
    rewrite (map_rb_agree plen b1 b2 (d3 + 10) (Nat.min rlen rdata_size) Ha) by lia.
    reflexivity. }
  destruct ((qtype =? T_MX) || (qtype =? T_SRV)); [reflexivity|].
  destruct (qtype =? T_TXT); [|reflexivity].
  destruct (plen <? 10 + d3)%nat eqn:E2; [reflexivity|]. apply Nat.ltb_ge in E2.
  rewrite (readshort_agree plen b1 b2 d3 Ha), (readshort_agree plen b1 b2 (d3 + 8) Ha) by lia.
  set (rlen := N.to_nat (readshort b2 (d3 + 8))).
  destruct (plen <? rlen + (d3 + 10))%nat eqn:E3; [reflexivity|]. apply Nat.ltb_ge in E3.
  rewrite (readtxtbin_agree plen b1 b2 (d3 + 10) rlen rdata_size Ha) by lia.
  reflexivity.
Qed.

Lemma client_extract_agree buflen b1 b2 plen : agree plen b1 b2 ->
  client_extract buflen b1 plen = client_extract buflen b2 plen.
Proof. intros Ha. unfold client_extract. rewrite (dns_decode_answer_agree buflen b1 b2 plen Ha). reflexivity. Qed.

(* ---- content: every byte readname writes is a byte of the buffer it may read, '.' or NUL ------- *)

Definition from_buf (buf : list N) (c : N) : Prop := c = 0 \/ c = DOTC \/ In c buf.

Lemma rb_from buf i : from_buf buf (rb buf i).
Proof.
  unfold from_buf, rb. destruct (nth_in_or_default i buf 0) as [H|H]; [right; right; exact H|left; exact H].
Qed.

Lemma copy_label_from buf plen : forall cnt s len length acc,
  Forall (from_buf buf) acc -> Forall (from_buf buf) (snd (copy_label buf plen cnt s len length acc)).
Proof.
  induction cnt as [|cnt IH]; intros s len length acc Hacc; [exact Hacc|].
  simpl. destruct ((len <? length - 1)%nat && (s <? plen)%nat); [|exact Hacc].
  apply IH. constructor; [apply rb_from|exact Hacc].
Qed.

Lemma finish_from buf (acc : list N) : Forall (from_buf buf) acc -> Forall (from_buf buf) (List.rev (0 :: acc)).
Proof. intros H. apply Forall_rev. constructor; [left; reflexivity|exact H]. Qed.

Lemma labels_fix_from buf plen length sub :
  (forall l o, Forall (from_buf buf) (rn_wr (sub l o))) ->
  forall fuel s len acc, Forall (from_buf buf) acc ->
    Forall (from_buf buf) (rn_wr (labels_fix buf plen length sub fuel s len acc)).
Proof.
  intros Hs. induction fuel as [|fuel IH]; intros s len acc Hacc; [apply finish_from, Hacc|].
  simpl.
  destruct (negb ((s <? plen)%nat && negb (rb buf s =? 0) && (len <? length - 2)%nat)); [apply finish_from, Hacc|].
  destruct (N.land (rb buf s) 192 =? 192).
  - destruct (plen <=? S s)%nat; [apply finish_from, Hacc|].
    destruct (plen <=? _)%nat.
    + destruct len; [constructor|apply finish_from, Hacc].
    + cbn [rn_wr]. apply Forall_app. split; [apply Forall_rev, Hacc|apply Hs].
  - pose proof (copy_label_from buf plen (N.to_nat (rb buf s)) (S s) len length acc Hacc) as Hc.
    destruct (copy_label buf plen (N.to_nat (rb buf s)) (S s) len length acc) as [[s2 len2] acc2].
    cbn [snd] in Hc.
    destruct (length - 1 <=? len2)%nat; [apply finish_from, Hc|].
    destruct ((s2 <? plen)%nat && negb (rb buf s2 =? 0)); apply IH; [|exact Hc].
    constructor; [right; left; reflexivity|exact Hc].
Qed.

Lemma readname_lvl_from buf plen : forall loop length s0,
  Forall (from_buf buf) (rn_wr (readname_lvl buf plen length loop s0)).
Proof.
  induction loop as [|loop IH]; intros length s0; [constructor|].
  rewrite readname_lvl_S. apply labels_fix_from; [|constructor]. intros l o. apply IH.
Qed.

Lemma cstr_in (l : list N) c : In c (cstr l) -> In c l /\ c <> 0.
Proof.
  induction l as [|x l IH]; simpl; [tauto|].
  destruct (x =? 0) eqn:E; simpl; [tauto|]. apply N.eqb_neq in E.
  intros [H|H]; [subst; auto|]. destruct (IH H). auto.
Qed.

Lemma firstn_in {A} n (l : list A) x : In x (firstn n l) -> In x l.
Proof. intros H. rewrite <- (firstn_skipn n l). apply in_or_app. left. exact H. Qed.

Lemma skipn_in {A} n (l : list A) x : In x (skipn n l) -> In x l.
Proof. intros H. rewrite <- (firstn_skipn n l). apply in_or_app. right. exact H. Qed.

(* the name handed to the caller: strncpy view of the name buffer after readname wrote into the
   zeroed buffer *)
Lemma name_from buf (w : list N) n m c : Forall (from_buf buf) w ->
  In c (cstr (firstn n (overlay w (repeat 0 m)))) -> c = DOTC \/ In c buf.
Proof.
  intros Hw Hc. apply cstr_in in Hc. destruct Hc as [Hc Hnz]. apply firstn_in in Hc.
  unfold overlay in Hc. apply in_app_or in Hc. destruct Hc as [Hc|Hc].
  - rewrite Forall_forall in Hw. destruct (Hw c Hc) as [H|[H|H]]; [contradiction|left; exact H|right; exact H].
  - apply skipn_in, repeat_spec in Hc. contradiction.
Qed.

Lemma dns_decode_query_name_from buf plen q : dq_q (dns_decode_query buf plen) = Some q ->
  forall c, In c (q_name q) -> c = DOTC \/ In c buf.
Proof.
  unfold dns_decode_query. cbv zeta.
  set (nm := cstr (firstn (name_size - 1) (overlay (rn_wr (readname buf plen 12 (name_size - 1))) (repeat 0 name_size)))).
  assert (Hnm : forall c, In c nm -> c = DOTC \/ In c buf).
  { intros c Hc. apply (name_from buf _ _ _ c (readname_lvl_from buf plen _ _ _) Hc). }
  clearbody nm.
  destruct (plen <? 12)%nat; [discriminate|].
  destruct (negb (rb buf 2 / 128 =? 0)); [discriminate|].
  destruct (to_short (readshort buf 4) <? 1)%Z; [discriminate|].
  match goal with |- context[if ?c then _ else _] => destruct c; [discriminate|] end.
  intros H. injection H as <-. exact Hnm.
Qed.
