(* FwQuery.v -- executable model of src/fw_query.c (ring of forwarded queries) and of the
   datagram level of DNS forwarding in src/iodined.c: forward_query (remember the asker,
   re-encode the question with dns_encode(QR_QUERY), send to the local DNS port) and
   tunnel_bind (dns_get_id, fw_query_get, relay the reply unchanged).
   Model only; proofs are in FwQueryProofs.v.  The ring size comes from Generated/SrcConsts.v. *)
From Coq Require Import List NArith Arith Bool ZArith.
From Iodine Require Import Generated.SrcConsts.
Import ListNotations.
Local Open Scope N_scope.

(* ---------------------------------------------------------------------------------- *)
(* struct fw_query { struct sockaddr_storage addr; int addrlen; unsigned short id; }    *)

(* an address is opaque data: the length handed to sendto() and the bytes of the sockaddr
   that were copied in (memcpy(&fwq.addr, &q->from, q->fromlen)) *)
Record addr := mkaddr { alen : N; abytes : list N }.

(* memset(fwq, 0, ...): address length 0, id 0 *)
Definition zero_addr : addr := mkaddr 0 [].
Definition entry : Type := (addr * N)%type.          (* (addr+addrlen, id) *)
Definition zero_entry : entry := (zero_addr, 0).

Definition fw_size : nat := N.to_nat src_FW_QUERY_CACHE_SIZE.

(* static struct fw_query fwq[FW_QUERY_CACHE_SIZE]; static int fwq_ix; *)
Record fwstate := mkfw { entries : list entry; ix : nat }.

(* fw_query_init *)
Definition fw_init : fwstate := mkfw (repeat zero_entry fw_size) 0.

Fixpoint set_nth {A} (l : list A) (i : nat) (v : A) : list A :=
  match l, i with
  | [], _ => []
  | _ :: t, O => v :: t
  | h :: t, S i' => h :: set_nth t i' v
  end.

(* fw_query_put: memcpy(&fwq[fwq_ix], q); ++fwq_ix; if (fwq_ix >= SIZE) fwq_ix = 0; *)
Definition fw_put (st : fwstate) (e : entry) : fwstate :=
  let i := S (ix st) in
  mkfw (set_nth (entries st) (ix st) e) (if (fw_size <=? i)%nat then 0%nat else i).

(* fw_query_get: for (i = 0; i < SIZE; i++) if (fwq[i].id == query_id) return &fwq[i];
   the FIRST array index whose id matches, NULL otherwise *)
Fixpoint first_match (id : N) (l : list entry) : option addr :=
  match l with
  | [] => None
  | (a, i) :: t => if i =? id then Some a else first_match id t
  end.

Definition fw_get (st : fwstate) (id : N) : option addr :=
  first_match id (firstn fw_size (entries st)).

(* any sequence of puts from the initial state, oldest first *)
Definition fw_run (ps : list entry) : fwstate := fold_left fw_put ps fw_init.

(* ---------------------------------------------------------------------------------- *)
(* the abstract specification: "the last n puts"                                        *)

Definition lastn {A} (n : nat) (l : list A) : list A := skipn (length l - n) l.

(* ---------------------------------------------------------------------------------- *)
(* datagram level                                                                       *)

(* the fields of struct query that forwarding uses *)
Record query := mkquery {
  q_id : N;               (* unsigned short id *)
  q_type : N;             (* unsigned short type *)
  q_name : list N;        (* the C string q->name (dotted, no NUL) *)
  q_from : addr           (* q->from / q->fromlen *)
}.

Definition dot : N := 46.

(* fields of a dotted string, empty ones included: "a..b" -> [a; []; b] *)
Fixpoint split_dots (s : list N) : list (list N) :=
  match s with
  | [] => [[]]
  | c :: s' =>
      if c =? dot then [] :: split_dots s'
      else match split_dots s' with
           | w :: ws => (c :: w) :: ws
           | [] => [[c]]
           end
  end.

Definition nonempty {A} (l : list A) : bool := match l with [] => false | _ => true end.

(* strtok(h, "."): the non-empty fields *)
Definition strtok_dots (s : list N) : list (list N) := filter nonempty (split_dots s).

(* read.c putname: left is an int that may end up negative; the comparison
   strlen(word) > left converts left to size_t, so a negative left never triggers it *)
Fixpoint putname_go (left : Z) (ws : list (list N)) : option (list N) :=
  match ws with
  | [] => Some [0]
  | w :: ws' =>
      let n := Z.of_nat (length w) in
      if ((Z.of_N src_PUTNAME_LABEL_MAX <? n) || ((0 <=? left) && (left <? n)))%Z then None
      else match putname_go (left - (n + 1)) ws' with
           | Some r => Some (N.of_nat (length w) :: w ++ r)
           | None => None
           end
  end.

Definition putname (buflen : nat) (host : list N) : option (list N) :=
  putname_go (Z.of_nat buflen) (strtok_dots host).

Definition hi8 (v : N) : N := (v / 256) mod 256.
Definition lo8 (v : N) : N := v mod 256.

(* the EDNS0 OPT pseudo-record appended by dns_encode when dnsc_use_edns0 (its initial value 1,
   never changed by iodined): root, OPT(41), payload 4096, 0, Z=0x8000, rdlen 0 *)
Definition edns0_opt : list N := [0; 0; 41; 16; 0; 0; 0; 128; 0; 0; 0].

(* dns_encode(buf, 64K, q, QR_QUERY, q->name, strlen(q->name)): header with id, rd = 1,
   qdcount = 1, arcount = 1; putname (when it fails the pointer is not advanced and the
   type/class are written directly after the header); type; class IN; OPT *)
Definition encode_query (id type : N) (name : list N) : list N :=
  [hi8 id; lo8 id; 1; 0; 0; 1; 0; 0; 0; 0; 0; 1] ++
  (match putname (length name) name with Some b => b | None => [] end) ++
  [hi8 type; lo8 type; 0; 1] ++ edns0_opt.

(* what a step of the server sends: to the local DNS port (bind_fd, 127.0.0.1:bind_port),
   or to a remembered client address *)
Inductive dest := ToLocalDns | ToAddr (a : addr).
Definition send : Type := (dest * list N)%type.

(* forward_query: remember (q->from, q->id), send the re-encoded question to the local port *)
Definition forward (st : fwstate) (q : query) : fwstate * list send :=
  (fw_put st (q_from q, q_id q), [(ToLocalDns, encode_query (q_id q) (q_type q) (q_name q))]).

(* dns.c dns_get_id: 0 when the packet is shorter than a header *)
Definition get_id (pkt : list N) : N :=
  if (length pkt <? 12)%nat then 0
  else match pkt with
       | h :: l :: _ => h * 256 + l
       | _ => 0
       end.

(* tunnel_bind: r <= 0 -> nothing; id = dns_get_id; fw_query_get; sendto(packet, r, query->addr) *)
Definition bind_reply (st : fwstate) (pkt : list N) : list send :=
  match pkt with
  | [] => []
  | _ => match fw_get st (get_id pkt) with
         | Some a => [(ToAddr a, pkt)]
         | None => []
         end
  end.

(* a history of the forwarding path: forwarded queries and replies from the local server *)
Inductive event := EvQuery (q : query) | EvReply (pkt : list N).

Definition step (st : fwstate) (e : event) : fwstate * list send :=
  match e with
  | EvQuery q => forward st q
  | EvReply pkt => (st, bind_reply st pkt)
  end.

Definition run_events (evs : list event) : fwstate := fold_left (fun st e => fst (step st e)) evs fw_init.

(* the forwarded queries of a history, oldest first, as ring puts *)
Fixpoint puts_of (evs : list event) : list entry :=
  match evs with
  | [] => []
  | EvQuery q :: t => (q_from q, q_id q) :: puts_of t
  | EvReply _ :: t => puts_of t
  end.

(* ---------------------------------------------------------------------------------- *)
(* an independent reader of a DNS question (RFC 1035 wire format, no compression), used to
   state that the forwarded datagram carries the same id, name and type                 *)

Fixpoint parse_labels (fuel : nat) (b : list N) : option (list (list N) * list N) :=
  match fuel with
  | O => None
  | S f =>
      match b with
      | [] => None
      | n :: rest =>
          if n =? 0 then Some ([], rest)
          else if 63 <? n then None
          else if (length rest <? N.to_nat n)%nat then None
          else match parse_labels f (skipn (N.to_nat n) rest) with
               | Some (ls, r) => Some (firstn (N.to_nat n) rest :: ls, r)
               | None => None
               end
      end
  end.

(* (id, labels, type) of a query datagram with exactly one question of class IN *)
Definition parse_query (pkt : list N) : option (N * list (list N) * N) :=
  match pkt with
  | i1 :: i0 :: f1 :: _ :: qd1 :: qd0 :: _ :: _ :: _ :: _ :: _ :: _ :: body =>
      if negb (f1 <? 128) then None                      (* QR bit: a response *)
      else if negb ((qd1 =? 0) && (qd0 =? 1)) then None
      else match parse_labels (length body) body with
           | Some (ls, t1 :: t0 :: c1 :: c0 :: _) =>
               if (c1 =? 0) && (c0 =? 1) then Some (i1 * 256 + i0, ls, t1 * 256 + t0) else None
           | _ => None
           end
  | _ => None
  end.

Fixpoint join_dots (ls : list (list N)) : list N :=
  match ls with
  | [] => []
  | [l] => l
  | l :: t => l ++ dot :: join_dots t
  end.

(* a legal DNS label as a piece of a C string: 1..63 bytes, none of them '.' *)
Definition wf_labelb (l : list N) : bool :=
  nonempty l && (length l <=? 63)%nat && forallb (fun c => negb (c =? dot)) l.
Definition wf_labelsb (ls : list (list N)) : bool := nonempty ls && forallb wf_labelb ls.
