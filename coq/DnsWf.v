(* DnsWf.v -- an independent, strict RFC 1035 message parser written from the RFC (not from
   iodine's decoder): the specification side of C10.  wf_msg m = Some parsed exactly when
   - the 12-byte header is present and the section counts equal the records present, with no
     trailing bytes,
   - every name consists of labels of 1..63 bytes, at most 255 bytes on the wire (expanded),
     and every compression pointer points strictly backwards to an offset at which a label of an
     earlier-written name starts,
   - every RDLENGTH equals the actual size of the record data for its type (name-valued RDATA
     is parsed as a name and must fill the RDATA exactly; TXT is tiled exactly by its
     length-prefixed strings; A has 4 bytes; an OPT pseudo-record has the root owner name).
   Model/spec only; executable. *)
From Coq Require Import List NArith Arith Bool.
From Iodine Require Import Base.
Import ListNotations.
Local Open Scope N_scope.

Definition nthb (m : list N) (i : nat) : option N := nth_error m i.

Definition get16 (m : list N) (i : nat) : option N :=
  match nthb m i, nthb m (S i) with
  | Some a, Some b => Some (a * 256 + b)
  | _, _ => None
  end.

Definition slice (m : list N) (start len : nat) : option (list N) :=
  let s := firstn len (skipn start m) in
  if (length s =? len)%nat then Some s else None.

(* parse a name starting at offset [pos].
   [starts]: offsets at which labels of previously written names start (legal pointer targets).
   Returns (labels, offset after the name in the message, label-start offsets written here).
   [fuel] bounds the number of labels + pointer hops (a legal name has at most 128 of them;
   pointer targets strictly decrease, so 2 * length m always suffices). *)
Fixpoint parse_name (fuel : nat) (m : list N) (starts : list nat) (pos : nat) (follow : bool)
  : option (list (list N) * nat * list nat) :=
  match fuel with
  | O => None
  | S fuel' =>
      match nthb m pos with
      | None => None
      | Some c =>
          if c =? 0 then Some ([], S pos, [])
          else if c <? 64 then
            match slice m (S pos) (N.to_nat c) with
            | None => None
            | Some lbl =>
                match parse_name fuel' m starts (S pos + N.to_nat c) follow with
                | None => None
                | Some (ls, after, st) => Some (lbl :: ls, after, if follow then st else pos :: st)
                end
            end
          else if 192 <=? c then
            match nthb m (S pos) with
            | None => None
            | Some c2 =>
                let target := N.to_nat ((c - 192) * 256 + c2) in
                if (target <? pos)%nat && existsb (Nat.eqb target) starts then
                  (* follow the pointer: labels come from the target; the name ends here *)
                  match parse_name fuel' m starts target true with
                  | None => None
                  | Some (ls, _, _) => Some (ls, S (S pos), [])
                  end
                else None
            end
          else None      (* 0x40..0xBF: reserved label types *)
      end
  end.

Definition wire_len (ls : list (list N)) : nat := fold_right (fun l acc => S (length l) + acc)%nat 1%nat ls.

Definition name_ok (ls : list (list N)) : bool := (wire_len ls <=? 255)%nat.

Definition pname (m : list N) (starts : list nat) (pos : nat) : option (list (list N) * nat * list nat) :=
  match parse_name (2 * length m + 2) m starts pos false with
  | Some (ls, after, st) => if name_ok ls then Some (ls, after, st) else None
  | None => None
  end.

Record rr := { rr_name : list (list N); rr_type : N; rr_class : N; rr_ttl : N; rr_rdata : list N;
               rr_rdname : option (list (list N)) (* the name inside MX/SRV/CNAME/NS rdata *) }.

(* TXT rdata: exactly tiled by length-prefixed strings *)
Fixpoint txt_tiled (fuel : nat) (r : list N) : bool :=
  match r with
  | [] => true
  | c :: r' =>
      match fuel with
      | O => false
      | S f => if (N.to_nat c <=? length r')%nat then txt_tiled f (skipn (N.to_nat c) r') else false
      end
  end.

(* parse one resource record at [pos] *)
Definition parse_rr (m : list N) (starts : list nat) (pos : nat) : option (rr * nat * list nat) :=
  match pname m starts pos with
  | None => None
  | Some (owner, p1, st1) =>
      match get16 m p1, get16 m (p1 + 2), get16 m (p1 + 4), get16 m (p1 + 6), get16 m (p1 + 8) with
      | Some ty, Some cl, Some t1, Some t2, Some rdlen =>
          let rstart := (p1 + 10)%nat in
          let rl := N.to_nat rdlen in
          match slice m rstart rl with
          | None => None
          | Some rdata =>
              let starts1 := st1 ++ starts in
              let name_at off :=
                match pname m starts1 (rstart + off) with
                | Some (ls, after, st) => if (after =? rstart + rl)%nat then Some (ls, st) else None
                | None => None
                end in
              let mk rdn := {| rr_name := owner; rr_type := ty; rr_class := cl; rr_ttl := t1 * 65536 + t2;
                               rr_rdata := rdata; rr_rdname := rdn |} in
              if (ty =? 5) || (ty =? 2) then                       (* CNAME, NS *)
                match name_at 0%nat with Some (ls, st) => Some (mk (Some ls), rstart + rl, st ++ starts1)%nat | None => None end
              else if ty =? 15 then                                 (* MX: preference + name *)
                if (rl <? 2)%nat then None else
                match name_at 2%nat with Some (ls, st) => Some (mk (Some ls), rstart + rl, st ++ starts1)%nat | None => None end
              else if ty =? 33 then                                 (* SRV: prio, weight, port + name *)
                if (rl <? 6)%nat then None else
                match name_at 6%nat with Some (ls, st) => Some (mk (Some ls), rstart + rl, st ++ starts1)%nat | None => None end
              else if ty =? 16 then                                 (* TXT *)
                if txt_tiled (S rl) rdata && (1 <=? rl)%nat then Some (mk None, rstart + rl, starts1)%nat else None
              else if ty =? 1 then                                  (* A *)
                if (rl =? 4)%nat then Some (mk None, rstart + rl, starts1)%nat else None
              else if ty =? 41 then                                 (* OPT: root owner *)
                match owner with [] => Some (mk None, rstart + rl, starts1)%nat | _ => None end
              else Some (mk None, rstart + rl, starts1)%nat         (* NULL, PRIVATE, others: opaque *)
          end
      | _, _, _, _, _ => None
      end
  end.

Fixpoint parse_rrs (m : list N) (cnt : nat) (starts : list nat) (pos : nat) : option (list rr * nat * list nat) :=
  match cnt with
  | O => Some ([], pos, starts)
  | S c =>
      match parse_rr m starts pos with
      | None => None
      | Some (r, p1, st1) =>
          match parse_rrs m c st1 p1 with
          | None => None
          | Some (rs, p2, st2) => Some (r :: rs, p2, st2)
          end
      end
  end.

Record msg := { m_id : N; m_qr : bool; m_qname : list (list N); m_qtype : N; m_qclass : N;
                m_answers : list rr; m_authority : list rr; m_additional : list rr }.

(* a single-question message (all iodine messages have exactly one question) *)
Definition wf_msg (m : list N) : option msg :=
  match get16 m 0, nthb m 2, get16 m 4, get16 m 6, get16 m 8, get16 m 10 with
  | Some id, Some f1, Some qd, Some an, Some ns, Some ar =>
      if negb (qd =? 1) then None else
      match pname m [] 12 with
      | None => None
      | Some (qn, p1, st1) =>
          match get16 m p1, get16 m (p1 + 2) with
          | Some qt, Some qc =>
              match parse_rrs m (N.to_nat an) st1 (p1 + 4) with
              | None => None
              | Some (ans, p2, st2) =>
                  match parse_rrs m (N.to_nat ns) st2 p2 with
                  | None => None
                  | Some (auth, p3, st3) =>
                      match parse_rrs m (N.to_nat ar) st3 p3 with
                      | None => None
                      | Some (add, p4, _) =>
                          if (p4 =? length m)%nat
                          then Some {| m_id := id; m_qr := 128 <=? f1; m_qname := qn; m_qtype := qt; m_qclass := qc;
                                       m_answers := ans; m_authority := auth; m_additional := add |}
                          else None
                      end
                  end
              end
          | _, _ => None
          end
      end
  | _, _, _, _, _, _ => None
  end.

Definition wf_msgb (m : list N) : bool := match wf_msg m with Some _ => true | None => false end.

(* dotted text form of a label list, for comparison with iodine's C strings *)
Fixpoint dotted (ls : list (list N)) : list N :=
  match ls with
  | [] => []
  | [l] => l
  | l :: rest => l ++ 46 :: dotted rest
  end.
