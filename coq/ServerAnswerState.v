(* ServerAnswerState.v -- C14: the handlers that answer held queries of some session from outside
   the ping/data handlers: send_held (tun arrival, client-to-client forwarding), the send-real-soon
   sweep, and the raw-mode handlers (which answer nothing). *)
From Coq Require Import List NArith ZArith Arith Bool Lia Permutation.
From RecordUpdate Require Import RecordUpdate.
From Iodine Require Import Generated.SrcConsts Base Codec Server ServerAnswerLedger ServerAnswerChunk.
Import ListNotations.
Local Open Scope N_scope.

(* every session's slots progress (untouched, or answered and freed); lazy flags and the number of
   sessions unchanged *)
Definition sprog (st st' : sstate) (outs : list out) : Prop :=
  length st' = length st /\
  forall j, u_lazy (getu st' j) = u_lazy (getu st j) /\
            slot_prog (u_q (getu st j)) (u_q (getu st' j)) outs /\
            slot_prog (u_qs (getu st j)) (u_qs (getu st' j)) outs.

Lemma sprog_refl st outs : sprog st st outs.
Proof. split; [reflexivity|]. intros j. split; [reflexivity|]. split; left; reflexivity. Qed.

Lemma sprog_trans st st' st'' o1 o2 : sprog st st' o1 -> sprog st' st'' o2 -> sprog st st'' (o1 ++ o2).
Proof.
  intros [L1 H1] [L2 H2]. split; [congruence|]. intros j.
  destruct (H1 j) as (A1 & B1 & C1). destruct (H2 j) as (A2 & B2 & C2).
  split; [congruence|]. split; eapply slot_prog_trans; eassumption.
Qed.

Lemma sprog_upd_frame st i f outs : (forall u, qs3 (f u) = qs3 u) -> sprog st (upd st i f) outs.
Proof.
  intros Hf. split; [apply upd_length|]. intros j.
  destruct (Nat.eq_dec i j) as [<-|Hij].
  - destruct (Nat.lt_ge_cases i (length st)) as [H|H].
    + rewrite getu_upd_same by exact H.
      rewrite (qs3_lazy _ _ (Hf _)), (qs3_q _ _ (Hf _)), (qs3_qs _ _ (Hf _)).
      split; [reflexivity|]. split; left; reflexivity.
    + rewrite upd_oob by exact H. split; [reflexivity|]. split; left; reflexivity.
  - rewrite getu_upd_other by exact Hij. split; [reflexivity|]. split; left; reflexivity.
Qed.

Lemma sprog_upd_pstep qi st i u' outs : (i < length st)%nat -> pstep qi (getu st i) u' outs ->
  sprog st (upd st i (fun _ => u')) outs.
Proof.
  intros H (A & L & Q & S). split; [apply upd_length|]. intros j.
  destruct (Nat.eq_dec i j) as [<-|Hij].
  - rewrite getu_upd_same by exact H. auto.
  - rewrite getu_upd_other by exact Hij. split; [reflexivity|]. split; left; reflexivity.
Qed.

Lemma sprog_weaken_l st st' o1 o2 : sprog st st' o2 -> sprog st st' (o1 ++ o2).
Proof. intros H. exact (sprog_trans st st st' o1 o2 (sprog_refl st o1) H). Qed.

Lemma acc_upd_frame qi st i f : (forall u, qs3 (f u) = qs3 u) -> acc qi [] st (upd st i f) [] [].
Proof.
  intros Hf. apply acc_same_held; [|reflexivity]. apply held_upd_frame. intros u. apply qs3_held, Hf.
Qed.

Section WithOracles.
Set Default Proof Using "Type".
Variable login : list N -> N -> list N.
Variable zc : list N -> list N.
Variable unz : list N -> option (list N).
Variable qi : option inst.

Lemma find_user_by_ip_from_bound st ip now k t :
  find_user_by_ip_from st ip now k = Some t -> (k <= t < k + length st)%nat.
Proof.
  revert k. induction st as [|u st IH]; intros k H; simpl in H; [discriminate|].
  destruct (_ && _) in H.
  - inversion H. subst. simpl. lia.
  - apply IH in H. simpl. lia.
Qed.

Lemma find_user_by_ip_bound st ip now t : find_user_by_ip st ip now = Some t -> (t < length st)%nat.
Proof. intros H. apply find_user_by_ip_from_bound in H. lia. Qed.

(* ---- send_held: "start sending immediately if a query is waiting" ----------------------------- *)

Lemma send_held_spec st t st' o : send_held st t = (st', o) -> (t < length st)%nat ->
  acc qi [] st st' o [] /\ sprog st st' o.
Proof.
  unfold send_held. intros H Ht.
  destruct (h_id (u_qs (getu st t)) =? 0) eqn:E1; simpl negb in H; cbv iota in H.
  - destruct (h_id (u_q (getu st t)) =? 0) eqn:E2; simpl negb in H; cbv iota in H.
    + inversion H. subst. split; [apply acc_refl|apply sprog_refl].
    + destruct (send_chunk_or_dataless (getu st t) WQ) as [[u' o'] ag] eqn:S. inversion H. subst.
      apply (send_chunk_pstep qi) in S; [|simpl; apply N.eqb_neq, E2]. destruct S as (P & _).
      split; [apply acc_upd; [exact Ht|apply P]|eapply sprog_upd_pstep; eassumption].
  - destruct (send_chunk_or_dataless (getu st t) WQS) as [[u' o'] ag] eqn:S. inversion H. subst.
    apply (send_chunk_pstep qi) in S; [|simpl; apply N.eqb_neq, E1]. destruct S as (P & _).
    split; [apply acc_upd; [exact Ht|apply P]|eapply sprog_upd_pstep; eassumption].
Qed.

(* ---- handle_full_packet ------------------------------------------------------------------------- *)

Lemma handle_full_packet_spec st now userid st' outs :
  handle_full_packet unz st now userid = (st', outs) ->
  acc qi [] st st' outs [] /\ sprog st st' outs.
Proof.
  unfold handle_full_packet. cbv zeta.
  set (raw := firstn _ _).
  set (fin := fun x : suser => x <| u_in := (u_in x) <| p_len := 0 |> <| p_offset := 0 |> |>).
  assert (Hfin : forall u, qs3 (fin u) = qs3 u) by reflexivity.
  assert (Final : forall st1 o, acc qi [] st st1 o [] /\ sprog st st1 o ->
                                acc qi [] st (upd st1 userid fin) o [] /\ sprog st (upd st1 userid fin) o).
  { intros st1 o [A S]. split.
    - pose proof (acc_trans qi [] [] _ _ _ _ _ _ _ A (acc_upd_frame qi st1 userid fin Hfin)) as T.
      simpl in T. rewrite app_nil_r in T. exact T.
    - pose proof (sprog_trans _ _ _ _ _ S (sprog_upd_frame st1 userid fin [] Hfin)) as T.
      rewrite app_nil_r in T. exact T. }
  destruct (unz raw) as [ip|].
  2:{ intros H. inversion H. subst. apply Final. split; [apply acc_refl|apply sprog_refl]. }
  set (found := if (24 <=? length ip)%nat then find_user_by_ip st (le32_at ip 20) now else None).
  assert (Hfound : forall t, found = Some t -> (t < length st)%nat).
  { subst found. intros t. destruct (24 <=? length ip)%nat; [apply find_user_by_ip_bound|discriminate]. }
  destruct found as [t|].
  2:{ intros H. inversion H. subst. apply Final. split; [apply acc_same_held; reflexivity|apply sprog_refl]. }
  pose proof (Hfound t eq_refl) as F. clear Hfound.
  destruct (u_conn (getu st t)).
  { intros H. inversion H. subst. apply Final. split; [apply acc_same_held; reflexivity|apply sprog_refl]. }
  destruct (p_len (u_out (getu st t)) =? 0).
  - destruct (send_held _ t) as [st1 o1] eqn:SH. intros H. inversion H. subst.
    apply Final.
    apply send_held_spec in SH; [|rewrite upd_length; exact F]. destruct SH as [A S].
    split.
    + pose proof (acc_trans qi [] [] _ _ _ _ _ _ _
                    (acc_upd_frame qi st t (fun x => start_new_outpacket x raw) (fun u => qs3_start u raw)) A) as T.
      exact T.
    + exact (sprog_trans _ _ _ [] _ (sprog_upd_frame st t _ [] (fun u => qs3_start u raw)) S).
  - intros H. inversion H. subst. apply Final. split.
    + apply acc_upd_frame. intros u. apply qs3_saveq.
    + apply sprog_upd_frame. intros u. apply qs3_saveq.
Qed.

(* ---- tunnel_tun ------------------------------------------------------------------------------------ *)

Lemma tunnel_tun_spec st now inpkt st' outs :
  tunnel_tun zc st now inpkt = (st', outs) -> acc qi [] st st' outs [] /\ sprog st st' outs.
Proof.
  unfold tunnel_tun. destruct inpkt as [|b inpkt'].
  { intros H. inversion H. subst. split; [apply acc_refl|apply sprog_refl]. }
  set (inpkt := b :: inpkt').
  destruct (length inpkt <? 24)%nat.
  { intros H. inversion H. subst. split; [apply acc_refl|apply sprog_refl]. }
  destruct (find_user_by_ip st (le32_at inpkt 20) now) as [t|] eqn:F.
  2:{ intros H. inversion H. subst. split; [apply acc_refl|apply sprog_refl]. }
  apply find_user_by_ip_bound in F. cbv zeta.
  destruct (u_conn (getu st t)).
  { intros H. inversion H. subst. split; [apply acc_same_held; reflexivity|apply sprog_refl]. }
  destruct (0 <? p_len (u_out (getu st t))).
  - intros H. inversion H. subst. split.
    + apply acc_upd_frame. intros u. apply qs3_saveq.
    + apply sprog_upd_frame. intros u. apply qs3_saveq.
  - intros SH. apply send_held_spec in SH; [|rewrite upd_length; exact F]. destruct SH as [A S].
    split.
    + exact (acc_trans qi [] [] _ _ _ _ _ _ _
               (acc_upd_frame qi st t (fun x => start_new_outpacket x (zc inpkt)) (fun u => qs3_start u (zc inpkt))) A).
    + exact (sprog_trans _ _ _ [] _ (sprog_upd_frame st t _ [] (fun u => qs3_start u (zc inpkt))) S).
Qed.

(* ---- the sweep -------------------------------------------------------------------------------------- *)

Lemma held_sweep_clear st now : held (sweep_clear st now) = held st.
Proof.
  unfold sweep_clear, held. induction st as [|u st IH]; [reflexivity|]. simpl. rewrite IH. f_equal.
  destruct (_ && _); reflexivity.
Qed.

Lemma sweep_send_spec n i st now acc0 st' outs :
  sweep_send n i st now acc0 = (st', outs) ->
  exists o, outs = acc0 ++ o /\ acc qi [] st st' o [] /\ sprog st st' o.
Proof.
  revert i st acc0. induction n as [|n IH]; intros i st acc0 H; simpl in H.
  { inversion H. subst. exists []. split; [symmetry; apply app_nil_r|]. split; [apply acc_refl|apply sprog_refl]. }
  destruct (_ && _) eqn:C in H.
  - destruct (send_chunk_or_dataless (getu st i) WQS) as [[u' o'] ag] eqn:S.
    apply IH in H. destruct H as (o & -> & A & P).
    assert (Hi : (i < length st)%nat).
    { destruct (Nat.lt_ge_cases i (length st)) as [Hi|Hi]; [exact Hi|].
      unfold getu in C. rewrite nth_overflow in C by exact Hi. discriminate. }
    assert (Hn : h_id (u_qs (getu st i)) <> 0).
    { apply andb_prop in C. destruct C as [C _]. apply andb_prop in C. destruct C as [C _].
      apply andb_prop in C. destruct C as [_ C]. apply N.eqb_neq.
      destruct (h_id (u_qs (getu st i)) =? 0); [discriminate|reflexivity]. }
    apply (send_chunk_pstep qi) in S; [|exact Hn]. destruct S as (PS & _).
    exists (o' ++ o). split; [symmetry; apply app_assoc|]. split.
    + exact (acc_trans qi [] [] _ _ _ _ _ _ _ (acc_upd qi [] st i (fun _ => u') o' [] Hi (proj1 PS)) A).
    + eapply sprog_trans; [eapply sprog_upd_pstep; eassumption|exact P].
  - apply IH in H. exact H.
Qed.

(* ---- raw mode: nothing is answered; the stored "query" has id 0 --------------------------------- *)

Lemma check_auth_inrange c st now userid from :
  check_auth c st now userid from = false -> (Z.to_nat userid < length st)%nat.
Proof.
  unfold check_auth, check_user_and_ip. destruct (in_range st userid) eqn:E; simpl; [|discriminate].
  intros _. unfold in_range in E. apply andb_prop in E. destruct E as [_ E]. apply Nat.ltb_lt in E. exact E.
Qed.

(* overwriting u_q with a query of id 0 drops whatever u_q held *)
Lemma drop_q_uacc u u' outs : answers qi outs = [] -> h_id (u_q u') = 0 -> u_qs u' = u_qs u ->
  uacc qi [] u u' outs (hq_held (u_q u)).
Proof.
  intros Ho Hz Eqs. unfold uacc, user_held. rewrite Ho, Eqs, (hq_held_free _ Hz). simpl. perm_lia.
Qed.

Lemma handle_raw_login_spec c st now payload q userid : h_id q = 0 ->
  exists d, acc qi [] st (fst (handle_raw_login login c st now payload q userid))
                         (snd (handle_raw_login login c st now payload q userid)) d.
Proof.
  intros Hz. unfold handle_raw_login.
  destruct (_ <? _)%nat; [exists []; apply acc_refl|].
  destruct (length st <=? userid)%nat eqn:Hl; [exists []; apply acc_refl|].
  apply Nat.leb_gt in Hl. cbv zeta.
  destruct (_ || _); [exists []; apply acc_refl|].
  destruct (negb _); [exists []; apply acc_refl|].
  destruct (_ <? _); [exists []; apply acc_refl|].
  destruct (list_eqb _ _); [|exists []; apply acc_refl].
  simpl fst; simpl snd. eexists. apply acc_upd; [exact Hl|].
  apply drop_q_uacc; [reflexivity|exact Hz|reflexivity].
Qed.

Lemma handle_raw_ping_spec c st now q userid : h_id q = 0 ->
  exists d, acc qi [] st (fst (handle_raw_ping c st now q userid)) (snd (handle_raw_ping c st now q userid)) d.
Proof.
  intros Hz. unfold handle_raw_ping.
  destruct (check_auth _ _ _ _ _) eqn:Ec; [exists []; apply acc_refl|].
  apply check_auth_inrange in Ec. rewrite Nat2Z.id in Ec.
  destruct (negb _); [exists []; apply acc_refl|].
  simpl fst; simpl snd. eexists. apply acc_upd; [exact Ec|].
  apply drop_q_uacc; [reflexivity|exact Hz|reflexivity].
Qed.

Lemma handle_raw_data_spec c st now payload q userid : h_id q = 0 ->
  exists d, acc qi [] st (fst (handle_raw_data unz c st now payload q userid))
                         (snd (handle_raw_data unz c st now payload q userid)) d.
Proof.
  intros Hz. unfold handle_raw_data.
  destruct (check_auth _ _ _ _ _) eqn:Ec; [exists []; apply acc_refl|].
  apply check_auth_inrange in Ec. rewrite Nat2Z.id in Ec.
  destruct (negb _); [exists []; apply acc_refl|].
  cbv zeta.
  match goal with |- context[handle_full_packet unz ?s now userid] =>
    set (st1 := s); destruct (handle_full_packet unz st1 now userid) as [st2 o] eqn:F end.
  apply handle_full_packet_spec in F. destruct F as [A _]. simpl fst; simpl snd.
  assert (A1 : acc qi [] st st1 [] (hq_held (u_q (getu st userid)))).
  { subst st1. apply acc_upd; [exact Ec|]. apply drop_q_uacc; [reflexivity|exact Hz|reflexivity]. }
  eexists. exact (acc_trans qi [] [] _ _ _ _ _ _ _ A1 A).
Qed.

(* a raw-mode frame adds nothing to [received] and produces no DNS answer; it can only drop the
   query held in u_q of the session it names *)
Lemma raw_decode_spec c st now packet from r :
  raw_decode login unz c st now packet from = Some r -> exists d, acc qi [] st (fst r) (snd r) d.
Proof.
  unfold raw_decode. destruct (_ <? _)%nat; [discriminate|]. destruct (negb _); [discriminate|].
  cbv zeta. intros H. inversion H. clear H.
  destruct (_ =? src_RAW_HDR_CMD_LOGIN); [apply handle_raw_login_spec; reflexivity|].
  destruct (_ =? src_RAW_HDR_CMD_DATA); [apply handle_raw_data_spec; reflexivity|].
  destruct (_ =? src_RAW_HDR_CMD_PING); [apply handle_raw_ping_spec; reflexivity|].
  exists []. apply acc_refl.
Qed.

End WithOracles.
