(* DnsMsgProofs.v -- C09 assembled over the seven record types: the capacity table and its
   justification, prefix / exact / monotone delivery, and the size of the answer datagram. *)
From Coq Require Import List NArith ZArith Arith Bool Lia ZifyBool ZifyNat ZifyN.
From Iodine Require Import Generated.SrcConsts Base Codec CodecProofs Hostname DnsName DnsWf DnsMsg
  DnsMsgProofs_Base DnsMsgProofs_Null DnsMsgProofs_Txt DnsMsgProofs_Dotify DnsMsgProofs_Name
  DnsMsgProofs_Mx DnsMsgProofs_MxClient.
Import ListNotations.
Local Open Scope N_scope.

Ltac Zify.zify_post_hook ::= Z.div_mod_to_equations.

(* ---- the capacity table ------------------------------------------------------------------------ *)

(* largest payload delivered exactly, per answer type and downstream codec letter
   ('S' = 83, 'U' = 85, 'V' = 86, 'R' = 82, anything else behaves as 'T') *)
Definition txt_capacity (downenc : N) : nat :=
  if (downenc =? 83) || (downenc =? 85) then N.to_nat 3071
  else if downenc =? 86 then N.to_nat 3583
  else if downenc =? 82 then N.to_nat 4095
  else N.to_nat 2559.

Definition host_capacity (downenc : N) : nat :=
  if (downenc =? 83) || (downenc =? 85) then 183%nat
  else if downenc =? 86 then 214%nat
  else 153%nat.

Definition capacity (ty downenc : N) : nat :=
  if ty =? T_TXT then txt_capacity downenc
  else if (ty =? T_CNAME) || (ty =? T_A) then host_capacity downenc
  else N.to_nat 4096.     (* NULL, PRIVATE: sizeof rdata; MX, SRV: at least (several names) *)

(* TXT: the text (prefix letter + encoding) must fit the client's 4096-byte rdata buffer *)
Lemma txt_capacity_spec downenc n :
  (1 + txt_textlen downenc n <= 4096)%nat <-> (n <= txt_capacity downenc)%nat.
Proof.
  unfold txt_textlen, txt_capacity, txt_letter_codec.
  destruct (downenc =? 83) eqn:E1; [cbn [fst orb cbits b64]; unfold enclen; lia|].
  destruct (downenc =? 85) eqn:E2; [cbn [fst orb cbits b64u]; unfold enclen; lia|].
  destruct (downenc =? 86) eqn:E3; [cbn [fst orb cbits b128]; unfold enclen; lia|].
  destruct (downenc =? 82) eqn:E4; [cbn [fst orb]; lia|].
  cbn [fst orb cbits b32]. unfold enclen. lia.
Qed.

(* CNAME / A: the encoding must fit 245 characters = 255 - 6 - (255 - 6) / 57 *)
Lemma host_capacity_spec downenc n :
  (enclen (cbits (host_codec downenc)) n <= 245)%nat <-> (n <= host_capacity downenc)%nat.
Proof.
  unfold host_codec, host_capacity, downenc_codec.
  destruct (downenc =? 83) eqn:E1; [cbn [fst orb cbits b64]; unfold enclen; lia|].
  destruct (downenc =? 85) eqn:E2; [cbn [fst orb cbits b64u]; unfold enclen; lia|].
  destruct (downenc =? 86) eqn:E3; [cbn [fst orb cbits b128]; unfold enclen; lia|].
  cbn [fst orb cbits b32]. unfold enclen. lia.
Qed.

(* the client buffer: at least the 4096 bytes of the handshake buffer; for MX / SRV it must also
   hold the whole decoded name list, and the payload is within the 4096 bytes of the quantifier *)
Definition client_fits (ty : N) (n buflen : nat) : Prop :=
  (N.to_nat 4096 <= buflen)%nat /\
  (ty = T_MX \/ ty = T_SRV -> (n <= N.to_nat 4096)%nat /\ mx_fits n buflen).

Lemma client_fits_64k ty n : (n <= N.to_nat 4096)%nat -> client_fits ty n (N.to_nat 65536).
Proof. intros H. unfold client_fits, mx_fits. split; [lia|]. intros _. split; [exact H|]. lia. Qed.

Lemma client_fits_4k ty n : (n <= N.to_nat 2295)%nat -> client_fits ty n (N.to_nat 4096).
Proof. intros H. unfold client_fits, mx_fits. split; [lia|]. intros _. split; [lia|]. lia. Qed.

Lemma client_fits_mono ty n n' buflen : (n' <= n)%nat -> client_fits ty n buflen -> client_fits ty n' buflen.
Proof.
  intros Hle [H1 H2]. split; [exact H1|]. intros Hty. destruct (H2 Hty) as [H3 H4]. unfold mx_fits in *.
  split; [lia|]. assert (n' / 153 <= n / 153)%nat by (apply Nat.div_le_mono; lia). lia.
Qed.

(* ---- all types ----------------------------------------------------------------------------------- *)

Definition mx_type (ty : N) : Prop := ty = T_MX \/ ty = T_SRV.

Lemma c09_all q p downenc td buflen d :
  q_id q < 65536 -> is_ctype (q_type q) -> wf_qname (q_name q) ->
  bytes_ok p -> (2 <= length p)%nat -> client_fits (q_type q) (length p) buflen ->
  fst (write_dns q p downenc td) = Some d ->
  exists n, extract_ok (client_extract buflen d (length d)) q p n /\
            ((length p <= capacity (q_type q) downenc)%nat -> n = length p) /\
            (~ mx_type (q_type q) -> n = length p -> (length p <= capacity (q_type q) downenc)%nat).
Proof.
  intros Hid Hty Hwf Hbp Hp [Hb Hmx] H.
  destruct Hty as [Hty|[Hty|[Hty|[Hty|[Hty|[Hty|Hty]]]]]].
  - exists (Nat.min (length p) (N.to_nat 4096)). split; [apply (c09_null q p downenc td buflen d); auto|].
    unfold capacity. rewrite Hty. change (T_NULL =? T_TXT) with false.
    change ((T_NULL =? T_CNAME) || (T_NULL =? T_A)) with false. cbv iota. split; intros; lia.
  - exists (Nat.min (length p) (N.to_nat 4096)). split; [apply (c09_null q p downenc td buflen d); auto|].
    unfold capacity. rewrite Hty. change (T_PRIVATE =? T_TXT) with false.
    change ((T_PRIVATE =? T_CNAME) || (T_PRIVATE =? T_A)) with false. cbv iota. split; intros; lia.
  - eexists. split; [apply (c09_txt q p downenc td buflen d); auto|].
    unfold capacity. rewrite Hty. change (T_TXT =? T_TXT) with true. cbv iota.
    pose proof (txt_capacity_spec downenc (length p)) as Hs.
    destruct (1 + txt_textlen downenc (length p) <=? 4096)%nat eqn:E.
    + apply Nat.leb_le in E. split; intros; [reflexivity|apply Hs, E].
    + apply Nat.leb_gt in E. split; intros; [exfalso; apply Hs in H0; lia|lia].
  - exists (length p). split; [apply (c09_mx q p downenc td buflen d); auto; try lia; apply Hmx; right; exact Hty|].
    split; [reflexivity|]. intros Hn. exfalso. apply Hn. right. exact Hty.
  - exists (length p). split; [apply (c09_mx q p downenc td buflen d); auto; try lia; apply Hmx; left; exact Hty|].
    split; [reflexivity|]. intros Hn. exfalso. apply Hn. left. exact Hty.
  - exists (host_used downenc p). split; [apply (c09_cname q p downenc td buflen d); auto|].
    unfold capacity. rewrite Hty. change (T_CNAME =? T_TXT) with false.
    change ((T_CNAME =? T_CNAME) || (T_CNAME =? T_A)) with true. cbv iota.
    pose proof (host_capacity_spec downenc (length p)) as Hs. pose proof (host_used_exact downenc p) as Hx.
    split; intros; tauto.
  - exists (host_used downenc p). split; [apply (c09_cname q p downenc td buflen d); auto|].
    unfold capacity. rewrite Hty. change (T_A =? T_TXT) with false.
    change ((T_A =? T_CNAME) || (T_A =? T_A)) with true. cbv iota.
    pose proof (host_capacity_spec downenc (length p)) as Hs. pose proof (host_used_exact downenc p) as Hx.
    split; intros; tauto.
Qed.

(* exact delivery *)
Definition exact (r : da_result) (p : list N) : Prop := da_rv r = Z.of_nat (length p) /\ da_out r = p.

Lemma c09_prefix q p downenc td buflen d :
  q_id q < 65536 -> is_ctype (q_type q) -> wf_qname (q_name q) ->
  bytes_ok p -> (2 <= length p)%nat -> client_fits (q_type q) (length p) buflen ->
  fst (write_dns q p downenc td) = Some d ->
  let r := client_extract buflen d (length d) in
  (0 <= da_rv r)%Z /\
  da_out r = firstn (Z.to_nat (da_rv r)) p /\ (Z.to_nat (da_rv r) <= length p)%nat /\
  da_id r = Some (q_id q) /\ da_type r = Some (answer_type (q_type q)) /\
  da_name0 r = Some (hd 0 (q_name q)).
Proof.
  intros Hid Hty Hwf Hbp Hp Hfit H r.
  destruct (c09_all q p downenc td buflen d Hid Hty Hwf Hbp Hp Hfit H) as [n [[X1 [X2 [X3 [X4 [X5 X6]]]]] _]].
  fold r in X1, X2, X4, X5, X6. rewrite X1, Nat2Z.id. repeat split; try assumption; lia.
Qed.

Lemma c09_exact q p downenc td buflen d :
  q_id q < 65536 -> is_ctype (q_type q) -> wf_qname (q_name q) ->
  bytes_ok p -> (2 <= length p)%nat -> client_fits (q_type q) (length p) buflen ->
  fst (write_dns q p downenc td) = Some d ->
  (length p <= capacity (q_type q) downenc)%nat ->
  exact (client_extract buflen d (length d)) p.
Proof.
  intros Hid Hty Hwf Hbp Hp Hfit H Hcap.
  destruct (c09_all q p downenc td buflen d Hid Hty Hwf Hbp Hp Hfit H) as [n [[X1 [X2 _]] [Hn _]]].
  specialize (Hn Hcap). subst n. split; [exact X1|]. rewrite X2. apply firstn_all.
Qed.

(* for the single-record types the table is exact: beyond it the payload is cut *)
Lemma c09_exact_conv q p downenc td buflen d :
  q_id q < 65536 -> is_ctype (q_type q) -> ~ mx_type (q_type q) -> wf_qname (q_name q) ->
  bytes_ok p -> (2 <= length p)%nat -> client_fits (q_type q) (length p) buflen ->
  fst (write_dns q p downenc td) = Some d ->
  exact (client_extract buflen d (length d)) p ->
  (length p <= capacity (q_type q) downenc)%nat.
Proof.
  intros Hid Hty Hnmx Hwf Hbp Hp Hfit H [E1 E2].
  destruct (c09_all q p downenc td buflen d Hid Hty Hwf Hbp Hp Hfit H) as [n [[X1 _] [_ Hc]]].
  apply Hc; [exact Hnmx|]. lia.
Qed.

Lemma c09_monotone q p p' downenc td td' buflen d d' :
  q_id q < 65536 -> is_ctype (q_type q) -> wf_qname (q_name q) ->
  bytes_ok p -> bytes_ok p' -> (2 <= length p' <= length p)%nat ->
  client_fits (q_type q) (length p) buflen ->
  fst (write_dns q p downenc td) = Some d ->
  fst (write_dns q p' downenc td') = Some d' ->
  exact (client_extract buflen d (length d)) p ->
  exact (client_extract buflen d' (length d')) p'.
Proof.
  intros Hid Hty Hwf Hbp Hbp' Hlen Hfit H H' Hex.
  pose proof (client_fits_mono (q_type q) (length p) (length p') buflen ltac:(lia) Hfit) as Hfit'.
  apply (c09_exact q p' downenc td' buflen d'); try assumption; try lia.
  assert (Hdec : mx_type (q_type q) \/ ~ mx_type (q_type q)).
  { unfold mx_type. destruct Hty as [Ht|[Ht|[Ht|[Ht|[Ht|[Ht|Ht]]]]]]; rewrite Ht;
      try (left; tauto); right; intros [C|C]; discriminate C. }
  destruct Hdec as [Hmx|Hnmx].
  - (* several names: everything up to 4096 bytes is delivered *)
    destruct Hfit as [_ Hf]. destruct (Hf Hmx) as [Hn _].
    unfold capacity. destruct Hmx as [-> | ->].
    + change (T_MX =? T_TXT) with false. change ((T_MX =? T_CNAME) || (T_MX =? T_A)) with false. cbv iota. lia.
    + change (T_SRV =? T_TXT) with false. change ((T_SRV =? T_CNAME) || (T_SRV =? T_A)) with false. cbv iota. lia.
  - pose proof (c09_exact_conv q p downenc td buflen d Hid Hty Hnmx Hwf Hbp ltac:(lia) Hfit H Hex). lia.
Qed.

(* ---- size of the answer datagram ------------------------------------------------------------------ *)

Definition rdata_size_of (ty downenc : N) (n : nat) : nat :=
  if ty =? T_TXT then txt_len (1 + txt_textlen downenc n)
  else if (ty =? T_CNAME) || (ty =? T_A) then
    (S (enclen (cbits (host_codec downenc)) n) + enclen (cbits (host_codec downenc)) n / 57 + 5)%nat
  else n.

(* header 12, question name in wire form, type + class 4, record head 12, rdata *)
Definition ans_size (ty downenc : N) (namelen n : nat) : nat :=
  (12 + (namelen + 2) + 4 + 12 + rdata_size_of ty downenc n)%nat.

Lemma txt_textlen_mono downenc n m : (n <= m)%nat -> (txt_textlen downenc n <= txt_textlen downenc m)%nat.
Proof.
  intros H. unfold txt_textlen. destruct (txt_cases downenc) as [Hc|[Hc|[Hc|[Hc|Hc]]]]; rewrite Hc; cbn [fst];
    try (unfold enclen; cbn [cbits b32 b64 b64u b128]; lia).
Qed.

Lemma ans_size_mono ty downenc namelen namelen' n n' : (namelen <= namelen')%nat -> (n <= n')%nat ->
  (ans_size ty downenc namelen n <= ans_size ty downenc namelen' n')%nat.
Proof.
  intros Hn Hp. unfold ans_size, rdata_size_of.
  destruct (ty =? T_TXT).
  - pose proof (txt_textlen_mono downenc n n' Hp). pose proof (txt_len_mono (1 + txt_textlen downenc n) (1 + txt_textlen downenc n') ltac:(lia)). lia.
  - destruct ((ty =? T_CNAME) || (ty =? T_A)); [|lia].
    destruct (host_codec_wf downenc) as [Hwf _]. pose proof (enclen_mono _ Hwf n n' Hp) as Hm.
    set (a := enclen (cbits (host_codec downenc)) n) in *. set (b := enclen (cbits (host_codec downenc)) n') in *.
    assert (a / 57 <= b / 57)%nat by (apply Nat.div_le_mono; lia). lia.
Qed.

Lemma txt_size q p downenc td d :
  q_type q = T_TXT -> wf_qname (q_name q) -> bytes_ok p ->
  (length p <= txt_capacity downenc)%nat ->
  fst (write_dns q p downenc td) = Some d ->
  length d = ans_size T_TXT downenc (length (q_name q)) (length p).
Proof.
  intros Hty [ws [Hne [Hok [Hn Hl]]]] Hbp Hcap H.
  rewrite write_dns_txt in H by exact Hty.
  destruct q as [name ty id]. cbn [q_name q_type q_id] in *. subst ty.
  destruct (encode_txt buf64k name id ws _ d buf64k_eq Hok Hne Hn Hl H) as [Hd Htl]. cbv zeta in Hd, Htl.
  set (data := txt_data buf64k downenc p) in *.
  set (rem := (buf64k - (12 + wire_len ws + 4 + 10) - 2)%nat) in *.
  pose proof (dotted_wire_len ws Hne) as Hwl. rewrite <- Hn in Hwl.
  destruct (txt_body_len buf64k downenc p buf64k_eq Hbp) as [HA _]. cbv zeta in HA.
  apply txt_capacity_spec in Hcap. destruct (HA Hcap) as [HL _].
  assert (Hdl : length data = S (length (txt_body buf64k downenc p))) by reflexivity.
  pose proof buf64k_eq as H64.
  destruct (puttxtbin_go_ok (S (length data)) rem data) as [t Ht]; [lia| |].
  { rewrite Hdl, HL. unfold txt_len, rem. lia. }
  pose proof (puttxtbin_go_len _ _ _ _ Ht) as Htlen.
  fold (puttxtbin rem data) in Ht. rewrite Ht in Hd. cbn [opt_bytes] in Hd.
  rewrite Hd, null_answer_len, Htlen, Hdl, HL. unfold ans_size, rdata_size_of.
  change (T_TXT =? T_TXT) with true. cbv iota. change (1 + txt_textlen downenc (length p))%nat with (S (txt_textlen downenc (length p))). lia.
Qed.

Lemma null_size q p downenc td d :
  q_type q = T_NULL \/ q_type q = T_PRIVATE -> wf_qname (q_name q) ->
  fst (write_dns q p downenc td) = Some d ->
  length d = ans_size (q_type q) downenc (length (q_name q)) (length p).
Proof.
  intros Hty [ws [Hne [Hok [Hn Hl]]]] H.
  rewrite write_dns_null in H by exact Hty. cbn [fst] in H.
  destruct q as [name ty id]. cbn [q_name q_type q_id] in *.
  destruct (encode_null buf64k name ty id ws p d buf64k_eq Hty Hok Hne Hn Hl H) as [Hd _].
  pose proof (dotted_wire_len ws Hne) as Hwl. rewrite <- Hn in Hwl.
  rewrite Hd, null_answer_len. unfold ans_size, rdata_size_of.
  assert (Ht : (ty =? T_TXT) = false /\ (ty =? T_CNAME) || (ty =? T_A) = false)
    by (destruct Hty as [-> | ->]; split; vm_compute; reflexivity).
  destruct Ht as [-> ->]. lia.
Qed.

Lemma cname_size q p downenc td d :
  q_type q = T_CNAME \/ q_type q = T_A -> wf_qname (q_name q) ->
  (length p <= host_capacity downenc)%nat ->
  fst (write_dns q p downenc td) = Some d ->
  length d = ans_size (q_type q) downenc (length (q_name q)) (length p).
Proof.
  intros Hty [ws [Hne [Hok [Hn Hl]]]] Hcap H.
  rewrite write_dns_cname in H by exact Hty. cbn [fst] in H.
  destruct q as [name ty id]. cbn [q_name q_type q_id] in *.
  pose proof (host_labels_ok downenc td p) as [Hokl [Hnel Hll]].
  pose proof (encode_cname buf64k name ty id ws (host_labels downenc td p) (host_name downenc td p) d
                buf64k_eq Hty Hok Hne Hn Hl Hokl Hnel eq_refl Hll H) as Hd.
  pose proof (dotted_wire_len ws Hne) as Hwl. rewrite <- Hn in Hwl.
  pose proof (dotted_wire_len _ Hnel) as Hwn. fold (host_name downenc td p) in Hwn.
  apply host_capacity_spec in Hcap. apply host_used_exact in Hcap.
  rewrite Hd. unfold cname_answer. rewrite !app_length, ans_head_len, rr_head_len, be16_len, wire_length.
  rewrite <- Hwn, host_name_len, host_enc_len, Hcap. unfold ans_size, rdata_size_of.
  assert (Ht : (ty =? T_TXT) = false /\ (ty =? T_CNAME) || (ty =? T_A) = true)
    by (destruct Hty as [-> | ->]; split; vm_compute; reflexivity).
  destruct Ht as [-> ->]. lia.
Qed.

(* NULL, PRIVATE, TXT, CNAME, A: the datagram size is a closed form of the name and payload lengths *)
Lemma c09_size q p downenc td d :
  is_ctype (q_type q) -> ~ mx_type (q_type q) -> wf_qname (q_name q) -> bytes_ok p ->
  (length p <= capacity (q_type q) downenc)%nat ->
  fst (write_dns q p downenc td) = Some d ->
  length d = ans_size (q_type q) downenc (length (q_name q)) (length p).
Proof.
  intros Hty Hnmx Hwf Hbp Hcap H. unfold capacity in Hcap.
  destruct Hty as [Hty|[Hty|[Hty|[Hty|[Hty|[Hty|Hty]]]]]].
  - apply (null_size q p downenc td d); auto.
  - apply (null_size q p downenc td d); auto.
  - rewrite Hty in Hcap |- *. change (T_TXT =? T_TXT) with true in Hcap. cbv iota in Hcap.
    apply (txt_size q p downenc td d); auto.
  - exfalso. apply Hnmx. right. exact Hty.
  - exfalso. apply Hnmx. left. exact Hty.
  - rewrite Hty in Hcap. change (T_CNAME =? T_TXT) with false in Hcap.
    change ((T_CNAME =? T_CNAME) || (T_CNAME =? T_A)) with true in Hcap. cbv iota in Hcap.
    apply (cname_size q p downenc td d); auto.
  - rewrite Hty in Hcap. change (T_A =? T_TXT) with false in Hcap.
    change ((T_A =? T_CNAME) || (T_A =? T_A)) with true in Hcap. cbv iota in Hcap.
    apply (cname_size q p downenc td d); auto.
Qed.

Lemma c09_size_monotone_partial q q' p p' downenc td td' d d' :
  is_ctype (q_type q) -> ~ mx_type (q_type q) -> q_type q' = q_type q ->
  wf_qname (q_name q) -> wf_qname (q_name q') -> (length (q_name q) <= length (q_name q'))%nat ->
  bytes_ok p -> bytes_ok p' -> (length p <= length p')%nat ->
  (length p' <= capacity (q_type q) downenc)%nat ->
  fst (write_dns q p downenc td) = Some d ->
  fst (write_dns q' p' downenc td') = Some d' ->
  (length d <= length d')%nat.
Proof.
  intros Hty Hnmx Hq Hwf Hwf' Hnl Hbp Hbp' Hpl Hcap H H'.
  rewrite (c09_size q p downenc td d) by (assumption || lia).
  rewrite (c09_size q' p' downenc td' d') by (rewrite ?Hq; assumption || lia).
  rewrite Hq. apply ans_size_mono; assumption.
Qed.

Lemma c09_capacity_table :
  (forall e, capacity T_NULL e = N.to_nat 4096 /\ capacity T_PRIVATE e = N.to_nat 4096 /\
             capacity T_MX e = N.to_nat 4096 /\ capacity T_SRV e = N.to_nat 4096) /\
  (capacity T_TXT 84 = N.to_nat 2559 /\ capacity T_TXT 83 = N.to_nat 3071 /\ capacity T_TXT 85 = N.to_nat 3071 /\
   capacity T_TXT 86 = N.to_nat 3583 /\ capacity T_TXT 82 = N.to_nat 4095) /\
  (forall ty, ty = T_CNAME \/ ty = T_A ->
     capacity ty 84 = 153%nat /\ capacity ty 83 = 183%nat /\ capacity ty 85 = 183%nat /\
     capacity ty 86 = 214%nat /\ capacity ty 82 = 153%nat) /\
  (forall e n, (n <= capacity T_TXT e)%nat <-> (1 + txt_textlen e n <= 4096)%nat) /\
  (forall ty e n, ty = T_CNAME \/ ty = T_A ->
     ((n <= capacity ty e)%nat <-> (enclen (cbits (host_codec e)) n <= 245)%nat)).
Proof.
  split; [intros e; repeat split; reflexivity|].
  split; [repeat split; reflexivity|].
  split; [intros ty [-> | ->]; repeat split; reflexivity|].
  split.
  - intros e n. unfold capacity. change (T_TXT =? T_TXT) with true. cbv iota.
    symmetry. apply txt_capacity_spec.
  - intros ty e n [-> | ->]; unfold capacity.
    + change (T_CNAME =? T_TXT) with false. change ((T_CNAME =? T_CNAME) || (T_CNAME =? T_A)) with true. cbv iota.
      symmetry. apply host_capacity_spec.
    + change (T_A =? T_TXT) with false. change ((T_A =? T_CNAME) || (T_A =? T_A)) with true. cbv iota.
      symmetry. apply host_capacity_spec.
Qed.
