(* DnsNameProofs.v -- proofs about the wire-name writer/reader model (DnsName.v) and the query
   datagram codec (DnsMsg.v): strtok-style tokenising inverts join_dot, putname of a legal dotted
   name gives the length-prefixed labels, readname reads them back for every buffer position and
   datagram length, and the server's dns_decode of the client's dns_encode query gives back
   exactly (name, type, id).  Pure additions; the models are not touched. *)
From Coq Require Import List NArith ZArith Arith Bool Lia ZifyBool ZifyNat ZifyN.
From Iodine Require Import Generated.SrcConsts Base DnsName DnsMsg Domain.
Import ListNotations.
Local Open Scope N_scope.

Ltac Zify.zify_post_hook ::= Z.div_mod_to_equations.

(* ---------------------------------------------------------------------------------- *)
(* small list facts                                                                     *)

Lemma skipn_cons_nth {A} (d : A) : forall s (buf : list A) a t,
  skipn s buf = a :: t -> nth s buf d = a /\ skipn (S s) buf = t.
Proof.
  induction s as [|s IH]; intros buf a t H; destruct buf as [|x buf]; simpl in H; try discriminate.
  - inversion H; subst. split; reflexivity.
  - apply IH in H. exact H.
Qed.

Lemma skipn_app_add {A} : forall (l : list A) s buf t,
  skipn s buf = l ++ t -> skipn (s + length l) buf = t.
Proof.
  induction l as [|a l IH]; intros s buf t H.
  - simpl. rewrite Nat.add_0_r. exact H.
  - simpl in H. destruct (skipn_cons_nth a _ _ _ _ H) as [_ H']. apply IH in H'.
    cbn [length]. replace (s + S (length l))%nat with (S s + length l)%nat by lia. exact H'.
Qed.

Lemma skipn_pre_app {A} (pre l : list A) : skipn (length pre) (pre ++ l) = l.
Proof. induction pre as [|a pre IH]; [reflexivity|exact IH]. Qed.

Lemma rb_app_r (a b : list N) i : rb (a ++ b) (length a + i) = rb b i.
Proof. unfold rb. apply app_nth2_plus. Qed.

(* ---------------------------------------------------------------------------------- *)
(* labels, join_dot, the wire form                                                      *)

(* a label as strtok sees it: non-empty and dot-free *)
Definition lab_ok (l : list N) : Prop := l <> [] /\ ~ In DOTC l.

(* the wire form of a label list: each label prefixed by its length, then the root label *)
Definition wire_of (ls : list (list N)) : list N :=
  concat (map (fun l => N.of_nat (length l) :: l) ls) ++ [0].

Lemma wire_of_nil : wire_of [] = [0].
Proof. reflexivity. Qed.

Lemma wire_of_cons l ls : wire_of (l :: ls) = N.of_nat (length l) :: l ++ wire_of ls.
Proof. unfold wire_of. cbn [map concat]. rewrite <- app_assoc. reflexivity. Qed.

Lemma join_dot_cons2 l l' ls : join_dot (l :: l' :: ls) = l ++ ch_dot :: join_dot (l' :: ls).
Proof. reflexivity. Qed.

Lemma join_dot_length_cons l ls :
  length (join_dot (l :: ls)) =
  (length l + match ls with [] => 0 | _ => 1 + length (join_dot ls) end)%nat.
Proof.
  destruct ls as [|l' ls]; [cbn [join_dot]; lia|].
  rewrite join_dot_cons2, app_length. cbn [length]. lia.
Qed.

Lemma wire_of_length ls : ls <> [] -> length (wire_of ls) = (length (join_dot ls) + 2)%nat.
Proof.
  induction ls as [|l ls IH]; intros Hne; [congruence|].
  rewrite wire_of_cons, join_dot_length_cons. cbn [length]. rewrite app_length.
  destruct ls as [|l' ls]; [rewrite wire_of_nil; cbn [length]; lia|].
  rewrite IH by discriminate. lia.
Qed.

Lemma wire_of_length_ge ls : (length ls < length (wire_of ls))%nat.
Proof.
  induction ls as [|l ls IH]; [rewrite wire_of_nil; simpl; lia|].
  rewrite wire_of_cons. cbn [length]. rewrite app_length. lia.
Qed.

Lemma join_dot_In x ls : In x (join_dot ls) -> x = ch_dot \/ exists l, In l ls /\ In x l.
Proof.
  induction ls as [|l ls IH]; intros H; [destruct H|].
  destruct ls as [|l' ls].
  - right. exists l. split; [left; reflexivity|exact H].
  - rewrite join_dot_cons2 in H. apply in_app_or in H. destruct H as [H|[H|H]].
    + right. exists l. split; [left; reflexivity|exact H].
    + left. symmetry. exact H.
    + destruct (IH H) as [E|[m [Hm Hx]]]; [left; exact E|].
      right. exists m. split; [right; exact Hm|exact Hx].
Qed.

Lemma join_dot_nz ls : Forall (fun l => ~ In 0 l) ls -> ~ In 0 (join_dot ls).
Proof.
  intros H Hin. apply join_dot_In in Hin. destruct Hin as [E|[l [Hl Hx]]]; [discriminate E|].
  rewrite Forall_forall in H. exact (H l Hl Hx).
Qed.

(* ---------------------------------------------------------------------------------- *)
(* tokens (strtok on '.') inverts join_dot                                              *)

Lemma tokens_go_nodot : forall l, ~ In DOTC l -> forall s cur,
  tokens_go (l ++ s) cur = tokens_go s (List.rev l ++ cur).
Proof.
  induction l as [|a l IH]; intros Hn s cur; [reflexivity|].
  cbn [app tokens_go]. destruct (a =? DOTC) eqn:E.
  - exfalso. apply Hn. left. apply N.eqb_eq in E. exact E.
  - rewrite IH by (intros H; apply Hn; right; exact H).
    cbn [List.rev]. rewrite <- app_assoc. reflexivity.
Qed.

Lemma rev_nonnil {A} (l : list A) : l <> [] -> exists x t, List.rev l = x :: t.
Proof.
  intros H. destruct (List.rev l) as [|x t] eqn:E; [|exists x, t; reflexivity].
  exfalso. apply H. apply (f_equal (@List.rev A)) in E. rewrite rev_involutive in E. exact E.
Qed.

(* the tail is nothing or one trailing dot (a fully qualified name) *)
Lemma tokens_go_join : forall ls tail, Forall lab_ok ls -> tail = [] \/ tail = [DOTC] ->
  tokens_go (join_dot ls ++ tail) [] = ls.
Proof.
  induction ls as [|l ls IH]; intros tail H Ht.
  - destruct Ht as [->| ->]; reflexivity.
  - inversion H as [|? ? [Hne Hnd] Hrest]; subst.
    destruct (rev_nonnil l Hne) as [x [t Er]].
    destruct ls as [|l' ls'].
    + cbn [join_dot]. rewrite tokens_go_nodot by exact Hnd. rewrite app_nil_r.
      destruct Ht as [->| ->]; cbn [tokens_go]; [|change (DOTC =? DOTC) with true; cbv iota];
        rewrite Er, <- Er, rev_involutive; reflexivity.
    + rewrite join_dot_cons2, <- app_assoc, tokens_go_nodot by exact Hnd. rewrite app_nil_r.
      cbn [app tokens_go]. change (ch_dot =? DOTC) with true. cbv iota.
      rewrite Er, <- Er, rev_involutive. f_equal. apply IH; assumption.
Qed.

Theorem tokens_join ls : Forall lab_ok ls -> tokens (join_dot ls) = ls.
Proof.
  intros H. unfold tokens. rewrite <- (app_nil_r (join_dot ls)).
  apply tokens_go_join; [exact H|left; reflexivity].
Qed.

Theorem tokens_join_trailing_dot ls : Forall lab_ok ls -> tokens (join_dot ls ++ [DOTC]) = ls.
Proof. intros H. unfold tokens. apply tokens_go_join; [exact H|right; reflexivity]. Qed.

(* ---------------------------------------------------------------------------------- *)
(* C string view                                                                        *)

Lemma cstr_nz_app s t : ~ In 0 s -> cstr (s ++ 0 :: t) = s.
Proof.
  induction s as [|a s IH]; intros H; [reflexivity|].
  cbn [app cstr]. destruct (a =? 0) eqn:E.
  - exfalso. apply H. left. apply N.eqb_eq in E. exact E.
  - f_equal. apply IH. intros Hin. apply H. right. exact Hin.
Qed.

Lemma cstr_nz s : ~ In 0 s -> cstr s = s.
Proof.
  induction s as [|a s IH]; intros H; [reflexivity|].
  cbn [cstr]. destruct (a =? 0) eqn:E.
  - exfalso. apply H. left. apply N.eqb_eq in E. exact E.
  - f_equal. apply IH. intros Hin. apply H. right. exact Hin.
Qed.

Lemma cstr_firstn_nz s t n : ~ In 0 s -> (length s < n)%nat -> cstr (firstn n (s ++ 0 :: t)) = s.
Proof.
  intros Hs Hn. rewrite firstn_app, firstn_all2 by lia.
  destruct (n - length s)%nat as [|m] eqn:E; [lia|].
  cbn [firstn]. apply cstr_nz_app, Hs.
Qed.

(* ---------------------------------------------------------------------------------- *)
(* putname                                                                              *)

Lemma label_max_63 : label_max = 63%nat.
Proof. reflexivity. Qed.

Lemma putname_go_ok : forall ls left,
  Forall (fun l => (length l <= 63)%nat) ls ->
  (ls <> [] -> (Z.of_nat (length (join_dot ls)) <= left)%Z) ->
  putname_go ls left = Some (wire_of ls).
Proof.
  induction ls as [|l ls IH]; intros left H63 Hleft; [reflexivity|].
  inversion H63 as [|? ? Hl Hrest]; subst.
  specialize (Hleft ltac:(discriminate)). rewrite join_dot_length_cons in Hleft.
  cbn [putname_go]. rewrite label_max_63.
  assert (E : ((63 <? length l)%nat || (left <? Z.of_nat (length l))%Z) = false) by lia.
  rewrite E. rewrite (IH (left - (Z.of_nat (length l) + 1))%Z Hrest).
  - rewrite wire_of_cons. reflexivity.
  - intros Hne. destruct ls as [|l' ls']; [congruence|]. lia.
Qed.

(* putname of a legal dotted name: the labels, length-prefixed, then the root label.  The C is
   called with buflen = strlen(host) by dns_encode (QR_QUERY). *)
Theorem putname_ok ls buflen :
  Forall lab_ok ls -> Forall (fun l => (length l <= 63)%nat) ls -> Forall (fun l => ~ In 0 l) ls ->
  (length (join_dot ls) <= buflen)%nat ->
  putname buflen (join_dot ls) = Some (wire_of ls) /\
  (ls <> [] -> length (wire_of ls) = (length (join_dot ls) + 2)%nat).
Proof.
  intros Hok H63 Hnz Hbuf. split; [|apply wire_of_length].
  unfold putname. rewrite cstr_nz by (apply join_dot_nz, Hnz).
  fold (tokens (join_dot ls)). rewrite tokens_join by exact Hok.
  apply putname_go_ok; [exact H63|]. intros _. lia.
Qed.

(* the same with the terminating NUL and whatever follows it in the caller's buffer *)
Theorem putname_ok_cstring ls buflen junk :
  Forall lab_ok ls -> Forall (fun l => (length l <= 63)%nat) ls -> Forall (fun l => ~ In 0 l) ls ->
  (length (join_dot ls) <= buflen)%nat ->
  putname buflen (join_dot ls ++ 0 :: junk) = Some (wire_of ls).
Proof.
  intros Hok H63 Hnz Hbuf.
  unfold putname. rewrite cstr_nz_app by (apply join_dot_nz, Hnz).
  fold (tokens (join_dot ls)). rewrite tokens_join by exact Hok.
  apply putname_go_ok; [exact H63|]. intros _. lia.
Qed.

(* ---------------------------------------------------------------------------------- *)
(* readname                                                                             *)

(* the label loop of one level of readname_lvl, as a named function (the body is the inner fix
   of DnsName.readname_lvl, verbatim; readname_lvl_S below is proved by reflexivity) *)
Definition rn_labels (buf : list N) (plen lim loop' : nat) :=
  fix labels (fuel : nat) (s len : nat) (acc : list N) {struct fuel} : rn_result :=
    let finish s len acc :=
      {| rn_ret := S len; rn_wr := List.rev (0 :: acc); rn_src := Some (S s) |} in
    match fuel with
    | O => finish s len acc
    | S fuel' =>
        if negb ((s <? plen)%nat && negb (rb buf s =? 0) && (len <? lim - 2)%nat)
        then finish s len acc
        else
          let c := rb buf s in
          let s1 := S s in
          if N.land c 192 =? 192 then
            if (plen <=? s1)%nat then finish s1 len acc
            else
              let offset := N.to_nat (N.lor (N.shiftl (N.land c 63) 8) (N.land (rb buf s1) 255)) in
              if (plen <=? offset)%nat then
                match len with
                | O => {| rn_ret := 0; rn_wr := []; rn_src := None |}
                | _ => finish s1 len acc
                end
              else
                let sub := readname_lvl buf plen (lim - len) loop' offset in
                {| rn_ret := len + rn_ret sub; rn_wr := List.rev acc ++ rn_wr sub; rn_src := Some (S s1) |}
          else
            let '(s2, len2, acc2) := copy_label buf plen (N.to_nat c) s1 len lim acc in
            if (lim - 1 <=? len2)%nat then finish s2 len2 acc2
            else if ((s2 <? plen)%nat && negb (rb buf s2 =? 0))
                 then labels fuel' s2 (S len2) (DOTC :: acc2)
                 else labels fuel' s2 len2 acc2
    end.

Lemma readname_lvl_S buf plen lim loop' s0 :
  readname_lvl buf plen lim (S loop') s0 = rn_labels buf plen lim loop' (S plen) s0 0%nat [].
Proof. reflexivity. Qed.

Definition rn_finish (s len : nat) (acc : list N) : rn_result :=
  {| rn_ret := S len; rn_wr := List.rev (0 :: acc); rn_src := Some (S s) |}.

Lemma rn_labels_O buf plen lim loop' s len acc :
  rn_labels buf plen lim loop' 0 s len acc = rn_finish s len acc.
Proof. reflexivity. Qed.

(* one iteration on a plain (uncompressed) label *)
Lemma rn_labels_S buf plen lim loop' fuel s len acc :
  rn_labels buf plen lim loop' (S fuel) s len acc =
  if negb ((s <? plen)%nat && negb (rb buf s =? 0) && (len <? lim - 2)%nat)
  then rn_finish s len acc
  else
    if N.land (rb buf s) 192 =? 192 then
      if (plen <=? S s)%nat then rn_finish (S s) len acc
      else
        let offset := N.to_nat (N.lor (N.shiftl (N.land (rb buf s) 63) 8) (N.land (rb buf (S s)) 255)) in
        if (plen <=? offset)%nat then
          match len with
          | O => {| rn_ret := 0; rn_wr := []; rn_src := None |}
          | _ => rn_finish (S s) len acc
          end
        else
          let sub := readname_lvl buf plen (lim - len) loop' offset in
          {| rn_ret := len + rn_ret sub; rn_wr := List.rev acc ++ rn_wr sub; rn_src := Some (S (S s)) |}
    else
      let '(s2, len2, acc2) := copy_label buf plen (N.to_nat (rb buf s)) (S s) len lim acc in
      if (lim - 1 <=? len2)%nat then rn_finish s2 len2 acc2
      else if ((s2 <? plen)%nat && negb (rb buf s2 =? 0))
           then rn_labels buf plen lim loop' fuel s2 (S len2) (DOTC :: acc2)
           else rn_labels buf plen lim loop' fuel s2 len2 acc2.
Proof. reflexivity. Qed.

(* the copy loop copies a whole label when the datagram and the destination have room *)
Lemma copy_label_ok buf plen lim : forall l s len acc t,
  skipn s buf = l ++ t -> (s + length l <= plen)%nat -> (len + length l < lim)%nat ->
  copy_label buf plen (length l) s len lim acc =
  ((s + length l)%nat, (len + length l)%nat, List.rev l ++ acc).
Proof.
  induction l as [|a l IH]; intros s len acc t Hs Hp Hl.
  - cbn [length copy_label List.rev app]. rewrite !Nat.add_0_r. reflexivity.
  - cbn [length] in Hp, Hl. cbn [length copy_label].
    assert (E : ((len <? lim - 1)%nat && (s <? plen)%nat) = true) by lia.
    rewrite E. cbn [app] in Hs. destruct (skipn_cons_nth 0 _ _ _ _ Hs) as [Hn Hs'].
    unfold rb. rewrite Hn.
    rewrite (IH (S s) (S len) (a :: acc) t Hs') by lia.
    cbn [List.rev]. rewrite <- app_assoc. cbn [app].
    replace (S s + length l)%nat with (s + S (length l))%nat by lia.
    replace (S len + length l)%nat with (len + S (length l))%nat by lia. reflexivity.
Qed.

(* a label-length byte 1..63 is not a compression pointer *)
Lemma land_small n : (n <= 63)%nat -> (N.land (N.of_nat n) 192 =? 192) = false.
Proof.
  intros H.
  assert (S : forallb (fun x => negb (N.land x 192 =? 192)) (nrange 64) = true) by (vm_compute; reflexivity).
  pose proof (sweep1 _ _ S (N.of_nat n)) as H1. cbv beta in H1.
  apply negb_true_iff, H1. lia.
Qed.

Lemma rn_eq a a' b b' c c' : a = a' -> b = b' -> c = c' ->
  {| rn_ret := a; rn_wr := b; rn_src := Some c |} = {| rn_ret := a'; rn_wr := b'; rn_src := Some c' |}.
Proof. intros -> -> ->. reflexivity. Qed.

Definition len_ok (l : list N) : Prop := (1 <= length l <= 63)%nat.

(* invariant of the label loop positioned at the start of the wire form of [todo] *)
Lemma rn_labels_ok buf plen lim loop' : forall todo fuel s len acc rest,
  Forall len_ok todo ->
  skipn s buf = wire_of todo ++ rest ->
  (s + length (wire_of todo) <= plen)%nat ->
  (length todo <= fuel)%nat ->
  (todo <> [] -> (len + length (join_dot todo) + 2 <= lim)%nat) ->
  rn_labels buf plen lim loop' fuel s len acc =
  {| rn_ret := S (len + length (join_dot todo));
     rn_wr := List.rev acc ++ join_dot todo ++ [0];
     rn_src := Some (s + length (wire_of todo))%nat |}.
Proof.
  induction todo as [|l todo IH]; intros fuel s len acc rest Hok Hs Hp Hfuel Hlim.
  - rewrite wire_of_nil in *. cbn [app] in Hs. destruct (skipn_cons_nth 0 _ _ _ _ Hs) as [Hn _].
    assert (R : rn_finish s len acc =
      {| rn_ret := S (len + length (join_dot [])); rn_wr := List.rev acc ++ join_dot [] ++ [0];
         rn_src := Some (s + length [0])%nat |}).
    { unfold rn_finish. cbn [join_dot length List.rev app]. f_equal; [lia|f_equal; lia]. }
    destruct fuel as [|fuel]; [rewrite rn_labels_O; exact R|].
    rewrite rn_labels_S. unfold rb at 1. rewrite Hn. rewrite N.eqb_refl.
    cbn [negb andb]. rewrite andb_false_r. cbn [negb andb]. exact R.
  - inversion Hok as [|? ? Hl Hrest]; subst. unfold len_ok in Hl.
    destruct fuel as [|fuel]; [cbn [length] in Hfuel; lia|].
    specialize (Hlim ltac:(discriminate)). rewrite join_dot_length_cons in Hlim.
    rewrite wire_of_cons in Hs, Hp. cbn [app] in Hs. cbn [length] in Hp. rewrite app_length in Hp.
    destruct (skipn_cons_nth 0 _ _ _ _ Hs) as [Hn Hs1].
    rewrite <- app_assoc in Hs1.
    change (nth s buf 0) with (rb buf s) in Hn.
    rewrite rn_labels_S. rewrite !Hn.
    assert (E1 : negb ((s <? plen)%nat && negb (N.of_nat (length l) =? 0) && (len <? lim - 2)%nat) = false).
    { destruct todo; lia. }
    rewrite E1. rewrite land_small by lia. rewrite Nat2N.id.
    rewrite (copy_label_ok buf plen lim l (S s) len acc _ Hs1) by (destruct todo; lia).
    assert (E2 : (lim - 1 <=? len + length l)%nat = false) by (destruct todo; lia).
    rewrite E2.
    pose proof (skipn_app_add _ _ _ _ Hs1) as Hs2.
    rewrite wire_of_cons, join_dot_length_cons.
    destruct todo as [|l2 todo].
    + rewrite wire_of_nil in *. cbn [app] in Hs2. destruct (skipn_cons_nth 0 _ _ _ _ Hs2) as [Hn2 _].
      unfold rb. rewrite Hn2. rewrite N.eqb_refl. cbn [negb]. rewrite andb_false_r.
      rewrite (IH fuel _ _ _ rest Hrest); [| exact Hs2 | cbn [length] in *; lia
                                           | cbn [length]; lia | congruence].
      cbn [join_dot length app]. rewrite rev_app_distr, rev_involutive, !app_length. cbn [length].
      apply rn_eq; [lia| |lia]. rewrite <- app_assoc. reflexivity.
    + inversion Hrest as [|? ? Hl2 _]; subst. unfold len_ok in Hl2.
      pose proof Hs2 as Hs2'. rewrite wire_of_cons in Hs2'. cbn [app] in Hs2'.
      destruct (skipn_cons_nth 0 _ _ _ _ Hs2') as [Hn2 _].
      unfold rb. rewrite Hn2.
      assert (E3 : ((S s + length l <? plen)%nat && negb (N.of_nat (length l2) =? 0)) = true).
      { rewrite wire_of_cons in Hp. cbn [length] in Hp. lia. }
      rewrite E3.
      rewrite (IH fuel _ _ _ rest Hrest Hs2); [| lia | cbn [length] in *; lia | intros _; lia].
      cbn [List.rev]. rewrite rev_app_distr, rev_involutive.
      rewrite join_dot_cons2. set (J := join_dot (l2 :: todo)). set (W := wire_of (l2 :: todo)).
      cbn [length]. rewrite !app_length. cbn [length].
      apply rn_eq; [lia| |lia].
      rewrite <- !app_assoc. reflexivity.
Qed.

(* readname reads back what putname wrote, wherever it sits in the receive buffer *)
Theorem readname_putname ls pre rest plen lim :
  Forall len_ok ls ->
  (length pre + length (wire_of ls) <= plen)%nat ->
  (length (join_dot ls) + 2 <= lim)%nat ->
  readname (pre ++ wire_of ls ++ rest) plen (length pre) lim =
  {| rn_ret := S (length (join_dot ls));
     rn_wr := join_dot ls ++ [0];
     rn_src := Some (length pre + length (wire_of ls))%nat |}.
Proof.
  intros Hok Hp Hlim. unfold readname.
  destruct (N.to_nat src_READNAME_LOOPS) as [|loop'] eqn:El; [discriminate El|].
  rewrite readname_lvl_S.
  rewrite (rn_labels_ok _ plen lim loop' ls (S plen) (length pre) 0%nat [] rest Hok).
  - reflexivity.
  - apply skipn_pre_app.
  - exact Hp.
  - pose proof (wire_of_length_ge ls). lia.
  - intros _. lia.
Qed.

(* ---------------------------------------------------------------------------------- *)
(* the query datagram: dns_decode (QR_QUERY) of dns_encode (QR_QUERY)                    *)

(* a legal query name: labels of 1..63 bytes, none of them '.' or NUL, at most 253 characters *)
Definition qname_ok (ls : list (list N)) : Prop :=
  Forall len_ok ls /\ Forall (fun l => ~ In DOTC l) ls /\ Forall (fun l => ~ In 0 l) ls /\
  (length (join_dot ls) <= 253)%nat.

(* the datagram dns_encode builds for a query *)
Definition query_dgram (edns0 : bool) (id ty : N) (ls : list (list N)) : list N :=
  hdr_bytes id 1 0 1 0 0 (if edns0 then 1 else 0) ++ wire_of ls ++
  be16 ty ++ be16 C_IN ++ (if edns0 then edns0_opt else []).

Lemma hdr_bytes_query id ar :
  hdr_bytes id 1 0 1 0 0 ar =
  [(id / 256) mod 256; id mod 256; 1; 0; 0; 1; 0; 0; 0; 0; (ar / 256) mod 256; ar mod 256].
Proof. reflexivity. Qed.

Lemma len_ok_lab_ok ls : Forall len_ok ls -> Forall (fun l => ~ In DOTC l) ls -> Forall lab_ok ls.
Proof.
  intros H1 H2. rewrite Forall_forall in *. intros l Hl. split; [|apply H2, Hl].
  specialize (H1 l Hl). unfold len_ok in H1. destruct l; [simpl in H1; lia|discriminate].
Qed.

Lemma len_ok_63 ls : Forall len_ok ls -> Forall (fun l => (length l <= 63)%nat) ls.
Proof. apply Forall_impl. intros l H. unfold len_ok in H. lia. Qed.

Lemma query_dgram_length edns0 id ty ls :
  length (query_dgram edns0 id ty ls) = (12 + length (wire_of ls) + 4 + (if edns0 then 11 else 0))%nat.
Proof.
  unfold query_dgram. rewrite hdr_bytes_query, !app_length. unfold be16. cbn [length].
  destruct edns0; cbn [length edns0_opt]; lia.
Qed.

Theorem dns_encode_query_ok ls buflen edns0 id ty :
  qname_ok ls -> (length (join_dot ls) + 29 <= buflen)%nat ->
  dns_encode_query buflen edns0 id ty (join_dot ls) = Some (query_dgram edns0 id ty ls).
Proof.
  intros [Hlen [Hdot [Hnz H253]]] Hbuf.
  pose proof (len_ok_lab_ok ls Hlen Hdot) as Hlab. pose proof (len_ok_63 ls Hlen) as H63.
  assert (Hw : (length (wire_of ls) <= length (join_dot ls) + 2)%nat).
  { destruct ls as [|l ls]; [rewrite wire_of_nil; simpl; lia|]. rewrite wire_of_length by discriminate. lia. }
  unfold dns_encode_query.
  assert (E0 : (buflen <? 12)%nat = false) by lia. rewrite E0.
  rewrite cstr_nz by (apply join_dot_nz, Hnz).
  rewrite Nat.min_l by lia.
  destruct (putname_ok ls (length (join_dot ls)) Hlab H63 Hnz (le_n _)) as [-> _].
  cbn [opt_bytes]. unfold checklen. rewrite hdr_bytes_query.
  repeat rewrite app_length. unfold be16. cbn [length].
  assert (E1 : negb (4 + (12 + length (wire_of ls)) <=? buflen)%nat = false) by lia. rewrite E1.
  unfold query_dgram. rewrite hdr_bytes_query. unfold be16.
  destruct edns0.
  - assert (E2 : negb (11 + (12 + length (wire_of ls) + (2 + 2)) <=? buflen)%nat = false) by lia.
    rewrite E2. rewrite <- !app_assoc. reflexivity.
  - rewrite <- !app_assoc. reflexivity.
Qed.

Lemma readshort_be16 pre v t : v < 65536 -> readshort (pre ++ be16 v ++ t) (length pre) = v.
Proof.
  intros Hv. unfold readshort. rewrite <- (Nat.add_0_r (length pre)) at 1.
  replace (S (length pre)) with (length pre + 1)%nat by lia. rewrite !rb_app_r.
  unfold be16, rb. cbn [app nth]. lia.
Qed.

Lemma name_size_256 : name_size = 256%nat.
Proof. reflexivity. Qed.

(* the server recovers exactly (name, type, id) from the client's query datagram, whatever
   follows the datagram in the receive buffer *)
Theorem dns_decode_query_dgram ls edns0 id ty residue :
  qname_ok ls -> id < 65536 -> ty < 65536 ->
  let dg := query_dgram edns0 id ty ls in
  dns_decode_query (dg ++ residue) (length dg) =
  {| dq_rv := Z.of_nat (length (join_dot ls));
     dq_q := Some {| q_name := join_dot ls; q_type := ty; q_id := id |} |}.
Proof.
  intros [Hlen [Hdot [Hnz H253]]] Hid Hty dg.
  assert (Hdl : length dg = (12 + length (wire_of ls) + 4 + (if edns0 then 11 else 0))%nat)
    by apply query_dgram_length.
  set (tl := be16 C_IN ++ (if edns0 then edns0_opt else []) ++ residue).
  set (hdr := hdr_bytes id 1 0 1 0 0 (if edns0 then 1 else 0)).
  assert (Hbuf : dg ++ residue = hdr ++ wire_of ls ++ be16 ty ++ tl).
  { unfold dg, query_dgram, tl. fold hdr. rewrite <- !app_assoc. reflexivity. }
  assert (Hh : length hdr = 12%nat) by reflexivity.
  unfold dns_decode_query. rewrite Hbuf, Hdl.
  assert (E0 : (12 + length (wire_of ls) + 4 + (if edns0 then 11 else 0) <? 12)%nat = false)
    by (destruct edns0; lia).
  rewrite E0.
  assert (R2 : rb (hdr ++ wire_of ls ++ be16 ty ++ tl) 2 = 1) by reflexivity.
  assert (R4 : readshort (hdr ++ wire_of ls ++ be16 ty ++ tl) 4 = 1) by reflexivity.
  assert (R0 : readshort (hdr ++ wire_of ls ++ be16 ty ++ tl) 0 = id).
  { unfold hdr. rewrite hdr_bytes_query. unfold readshort, rb. cbn [app nth]. lia. }
  rewrite R2, R4, R0. change (negb (1 / 128 =? 0)) with false. change (to_short 1 <? 1)%Z with false.
  cbv iota.
  pose proof (readname_putname ls hdr (be16 ty ++ tl)
                (12 + length (wire_of ls) + 4 + (if edns0 then 11 else 0))%nat (name_size - 1) Hlen) as RN.
  rewrite Hh in RN. rewrite RN by (rewrite ?name_size_256; destruct edns0; lia). clear RN.
  cbn [rn_wr rn_src]. unfold overlay.
  rewrite <- app_assoc. cbn [app].
  rewrite cstr_firstn_nz by (first [apply join_dot_nz, Hnz | rewrite ?name_size_256; lia]).
  assert (E1 : (12 + length (wire_of ls) + 4 + (if edns0 then 11 else 0) <? 4 + (12 + length (wire_of ls)))%nat = false)
    by (destruct edns0; lia).
  rewrite E1.
  rewrite <- Hh, <- app_length, (app_assoc hdr), readshort_be16 by exact Hty.
  reflexivity.
Qed.

(* end to end: encode on the client, decode on the server *)
Theorem dns_query_roundtrip ls buflen edns0 id ty residue :
  qname_ok ls -> id < 65536 -> ty < 65536 -> (length (join_dot ls) + 29 <= buflen)%nat ->
  exists dg, dns_encode_query buflen edns0 id ty (join_dot ls) = Some dg /\
    dns_decode_query (dg ++ residue) (length dg) =
    {| dq_rv := Z.of_nat (length (join_dot ls));
       dq_q := Some {| q_name := join_dot ls; q_type := ty; q_id := id |} |}.
Proof.
  intros Hq Hid Hty Hbuf. exists (query_dgram edns0 id ty ls). split.
  - apply dns_encode_query_ok; assumption.
  - apply dns_decode_query_dgram; assumption.
Qed.

Print Assumptions tokens_join.
Print Assumptions putname_ok.
Print Assumptions readname_putname.
Print Assumptions dns_query_roundtrip.
