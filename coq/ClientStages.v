(* ClientStages.v -- C06, part 4a: tunnel_dns of Client.v restated as a composition of named
   stages (td_servfail, td_accept, td_down, td_up, td_oos, td_recent, td_main, td_dispatch);
   the restatement is proved equal to the model by conversion (tunnel_dns_stages). *)
From Coq Require Import List NArith ZArith Arith Bool Lia ZifyBool ZifyNat ZifyN.
From RecordUpdate Require Import RecordUpdate.
From Iodine Require Import Generated.SrcConsts Base Codec Hostname DnsName DnsMsg Client
     DecodeSafetyProofs DecodeSafetyMx DecodeSafetyAnswer.
Import ListNotations.
Local Open Scope N_scope.

Ltac Zify.zify_post_hook ::= Z.div_mod_to_equations.

Section Stages.
Variable zc : list N -> list N.
Variable unz : list N -> option (list N).

(* ---- the stages of tunnel_dns (same text as in Client.v) ---- *)

Definition td_servfail (s0 : cstate) (read : Z) (rcode : N) : cstate :=
  if (read <? 0)%Z && (rcode =? 2) && c_lazy s0 && (1 <? c_selecttimeout s0) then
    if (c_packrecv s0 <? 500) && (c_servfail s0 <? 4) then s0 <| c_servfail := c_servfail s0 + 1 |>
    else if (c_packrecv s0 <? 500) && (c_servfail s0 =? 4)
         then s0 <| c_servfail := c_servfail s0 + 1 |> <| c_selecttimeout := 1 |> <| c_sendcnt := 0%Z |> <| c_recvcnt := 0%Z |>
    else if (500 <=? c_packrecv s0) && (0 <? c_servfail s0) then s0 <| c_servfail := 0 |>
    else s0
  else s0.

Definition td_accept (buf : list N) (read2 frag : Z) (lastflag now_flag : bool) (st : cstate)
  : cstate * list cout * bool :=
  let inp1 := (c_in st) <| k_fragment := frag |> in
  let payload := skipn 2 (firstn (Z.to_nat read2) buf) in
  let room := N.to_nat (65536 - k_len inp1) in
  let piece := firstn room payload in
  let data' := firstn (N.to_nat (k_len inp1)) (k_data inp1 ++ repeat 0 (N.to_nat (k_len inp1))) ++ piece in
  let inp2 := inp1 <| k_data := data' |> <| k_len := k_len inp1 + N.of_nat (length piece) |> in
  let '(inp3, tun) :=
    if lastflag then
      (inp2 <| k_len := 0 |>,
       match unz (firstn (N.to_nat (k_len inp2)) (k_data inp2)) with Some p => [CTun p] | None => [] end)
    else (inp2, []) in
  let st1 := st <| c_in := inp3 |> in
  if k_len inp3 =? 0 then (st1 <| c_ping_soon := 5 |>, tun, now_flag)
  else (st1, tun, true).

Definition td_down (buf : list N) (read2 : Z) (new_down_seqno new_down_fragment : N) (lastflag now_flag : bool)
           (s6 : cstate) : cstate * list cout * bool :=
  if (2 <? read2)%Z then
    let inp := c_in s6 in
    let frag := Z.of_N new_down_fragment in
    if negb (new_down_seqno =? k_seqno inp) then
      td_accept buf read2 frag lastflag now_flag
        (s6 <| c_in := inp <| k_seqno := new_down_seqno |> <| k_fragment := frag |> <| k_len := 0 |> |>)
    else if (k_fragment inp =? 0)%Z && (new_down_fragment =? 0) && (k_len inp =? 0) then
      td_accept buf read2 frag lastflag now_flag s6
    else if (frag <=? k_fragment inp)%Z then (s6 <| c_ping_soon := 500 |>, [], now_flag)
    else if (k_fragment inp + 1 <? frag)%Z then (s6 <| c_ping_soon := 500 |>, [], now_flag)
    else td_accept buf read2 frag lastflag now_flag s6
  else (s6, [], now_flag).

Definition td_up (up_ack_seqno up_ack_fragment : N) (now_flag2 : bool) (s7 : cstate)
  : cstate * list cout * bool :=
  if is_sending s7 then
    let o := c_out s7 in
    if (up_ack_seqno =? k_seqno o) && (Z.of_N up_ack_fragment =? k_fragment o)%Z then
      let o1 := o <| k_offset := k_offset o + k_sentlen o |> in
      if k_len o1 <=? k_offset o1 then
        let st := s7 <| c_out := o1 <| k_offset := 0 |> <| k_len := 0 |> <| k_sentlen := 0 |> |> <| c_resent := 0 |> in
        (if (c_ping_soon st =? 0) || (20 <? c_ping_soon st) then st <| c_ping_soon := 20 |> else st, [], now_flag2)
      else
        let st := s7 <| c_out := o1 <| k_fragment := schar_wrap (k_fragment o1 + 1) |> |> <| c_resent := 0 |> in
        let '(st2, out) := send_chunk st in
        (st2 <| c_ping_soon := 0 |>, out, false)
    else (s7, [], now_flag2)
  else (s7, [], now_flag2).

(* the "id is not recent" branch *)
Definition td_oos (s3 : cstate) (now_flag : bool) : cstate * list cout :=
  let s4 := s3 <| c_packrecv_oos := c_packrecv_oos s3 + 1 |> in
  let s5 := if c_lazy s4 && (c_packrecv s4 <? 1000) && (c_packrecv_oos s4 =? 5)
            then s4 <| c_selecttimeout := 1 |> <| c_sendcnt := 0%Z |> <| c_recvcnt := 0%Z |> else s4 in
  if now_flag then let '(s6, o) := send_ping s5 in (s6 <| c_ping_soon := 0 |>, o) else (s5, []).

(* the "recent downstream packet" branch *)
Definition td_recent (s3 : cstate) (now : N) (qid : N) (buf : list N) (read2 : Z)
           (new_down_seqno new_down_fragment up_ack_seqno up_ack_fragment : N) (lastflag now_flag : bool)
  : cstate * list cout :=
  let s4 := s3 <| c_lastdown := now |> in
  let s5 := if (qid =? c_chunkid s4) && c_lazy s4 && ((c_ping_soon s4 =? 0) || (900 <? c_ping_soon s4))
            then s4 <| c_ping_soon := 900 |> else s4 in
  let inp := c_in s5 in
  let s6 := if (read2 =? 2)%Z && negb (new_down_seqno =? k_seqno inp) && negb (recent_seqno (k_seqno inp) new_down_seqno)
            then s5 <| c_in := inp <| k_seqno := new_down_seqno |> <| k_fragment := Z.of_N new_down_fragment |> <| k_len := 0 |> |>
                    <| c_ping_soon := 500 |>
            else s5 in
  let '(s7, outs_tun, now_flag2) := td_down buf read2 new_down_seqno new_down_fragment lastflag now_flag s6 in
  let '(s8, outs_up, now_flag3) := td_up up_ack_seqno up_ack_fragment now_flag2 s7 in
  if now_flag3 then
    let '(s9, o) := send_ping s8 in (s9 <| c_ping_soon := 0 |>, outs_tun ++ outs_up ++ o)
  else (s8, outs_tun ++ outs_up).

Definition td_main (s0 : cstate) (now : N) (qid : N) (buf : list N) (read : Z) : cstate * list cout :=
  let '(s1, now_flag) := if negb (c_ping_soon s0 =? 0) then (s0 <| c_ping_soon := 0 |>, true) else (s0, false) in
  let b0 := nth 0 buf 0 in
  let b1 := nth 1 buf 0 in
  let new_down_seqno := (b1 / 32) mod 8 in
  let new_down_fragment := (b1 / 2) mod 16 in
  let up_ack_seqno := (b0 / 16) mod 8 in
  let up_ack_fragment := b0 mod 16 in
  let lastflag := (b1 mod 2) =? 1 in
  let '(s2, read2) :=
    if (2 <? read)%Z && negb (new_down_seqno =? k_seqno (c_in s1)) && recent_seqno (k_seqno (c_in s1)) new_down_seqno
    then (s1 <| c_ping_soon := 500 |>, 2%Z) else (s1, read) in
  let s3 := (if c_packrecv s2 / 16777216 mod 2 =? 0 then s2 <| c_packrecv := c_packrecv s2 + 1 |> else s2)
              <| c_recvcnt := (c_recvcnt s2 + 1)%Z |> in
  if negb ((qid =? c_chunkid s3) || (qid =? c_prev s3) || (qid =? c_prev2 s3)) then td_oos s3 now_flag
  else td_recent s3 now qid buf read2 new_down_seqno new_down_fragment up_ack_seqno up_ack_fragment lastflag now_flag.

Definition td_name_ok (s0 : cstate) (name0 : N) : bool :=
  let '(uc1, uc2) := userid_chars (c_userid s0) in
  (name0 =? 80) || (name0 =? 112) || (name0 =? uc1) || (name0 =? uc2).

Definition td_name0 (r : da_result) : N := match da_name0 r with Some c => c | None => 0 end.
Definition td_qid (r : da_result) : N := match da_id r with Some i => i | None => 0 end.

Definition td_dispatch (s0 : cstate) (now : N) (r : da_result) : cstate * list cout :=
  if negb (td_name_ok s0 (td_name0 r)) then (s0 <| c_ping_soon := 700 |>, [])
  else if (da_rv r <? 2)%Z then (td_servfail s0 (da_rv r) (da_rcode r) <| c_ping_soon := 900 |>, [])
  else if (da_rv r =? 5)%Z && list_eqb (firstn 5 (da_out r)) [66;65;68;73;80] then (s0, [])
  else td_main s0 now (td_qid r) (da_out r) (da_rv r).

Lemma tunnel_dns_stages0 (s0 : cstate) (now : N) (d : list N) :
  tunnel_dns unz s0 now d =
  if negb (c_dns s0) then raw_recv unz s0 now d else
  let r := client_extract (N.to_nat 65536) d (length d) in
  let read := da_rv r in
  let buf := da_out r in
  let name0 := match da_name0 r with Some c => c | None => 0 end in
  let qid := match da_id r with Some i => i | None => 0 end in
  let '(uc1, uc2) := userid_chars (c_userid s0) in
  if negb ((name0 =? 80) || (name0 =? 112) || (name0 =? uc1) || (name0 =? uc2)) then (s0 <| c_ping_soon := 700 |>, [])
  else if (read <? 2)%Z then (td_servfail s0 read (da_rcode r) <| c_ping_soon := 900 |>, [])
  else if (read =? 5)%Z && list_eqb (firstn 5 buf) [66;65;68;73;80] then (s0, [])
  else td_main s0 now qid buf read.
Proof.
  unfold tunnel_dns, td_main, td_oos, td_recent, td_down, td_up, td_accept, td_servfail.
  Time reflexivity.
Time Qed.

Lemma tunnel_dns_stages (s0 : cstate) (now : N) (d : list N) :
  tunnel_dns unz s0 now d =
  if negb (c_dns s0) then raw_recv unz s0 now d
  else td_dispatch s0 now (client_extract (N.to_nat 65536) d (length d)).
Proof.
  rewrite tunnel_dns_stages0. destruct (negb (c_dns s0)); [reflexivity|].
  cbv zeta. generalize (client_extract (N.to_nat 65536) d (length d)). intros r.
  unfold td_dispatch, td_name_ok, td_name0, td_qid.
  destruct (userid_chars (c_userid s0)) as [uc1 uc2]. reflexivity.
Qed.

End Stages.
