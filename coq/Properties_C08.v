(* Properties_C08.v -- final statements for property C08 (upstream query names are legal, within
   the limit, and decode to what was sent).  Models: Hostname.v (build_hostname, inline_dotify,
   inline_undotify, unpack_data, client builders), DnsName.v (putname, readname), DnsMsg.v
   (dns_encode / dns_decode of a query), Domain.v (check_topdomain, query_datalen), Codec.v.
   Lemmas: HostnameProofs.v, DnsNameProofs.v; C07 (roundtrip) and C17 (query_datalen) are used.

   Quantifier: every hostname-length limit L <= 255 (the property text says 100..255; the lower
   bound is not needed), every client-accepted tunnel domain d with |d| + 24 <= L, each of the four
   codecs, every non-empty payload of bytes, every header of 5 (chunk / probe) or 1 (packet)
   characters other than NUL and '.', both buffer sizes the client passes (4091, 4095). *)
From Coq Require Import List NArith ZArith Arith Lia.
From Iodine Require Import Base Codec CodecProofs Hostname DnsName DnsNameProofs DnsMsg Domain
  DomainProofs HostnameProofs Properties_C07.
From Iodine Require Server DomainDispatchProofs.
From Iodine Require Import Startup StartupProofs.
Import ListNotations.
Local Open Scope N_scope.

Lemma the_codec_ok c : the_codec c -> wfb c = true /\ dotfreeb c = true.
Proof.
  intros [->|[->|[->| ->]]]; split;
    first [exact wfb_b32|exact wfb_b64|exact wfb_b64u|exact wfb_b128
          |exact dotfree_b32|exact dotfree_b64|exact dotfree_b64u|exact dotfree_b128].
Qed.

(* the quantifier of the property *)
Definition C08_range (c : codec) (d data : list N) (L buflen : nat) (hdr : list N) : Prop :=
  the_codec c /\ check_topdomain d false = true /\ (100 <= L <= 255)%nat /\ (length d + 24 <= L)%nat /\
  bytes_ok data /\ (1 <= length data)%nat /\ (buflen = 4091%nat \/ buflen = 4095%nat) /\
  hdr_ok hdr /\ (length hdr = 5%nat \/ length hdr = 1%nat).

Lemma C08_range_upstream c d sd data L buflen hdr name n :
  C08_range c d data L buflen hdr -> check_topdomain sd true = true -> serves sd d ->
  build_hostname c buflen data d L = Some (name, n) ->
  upstream_ok c (length hdr) d sd data L (hdr ++ name) n.
Proof.
  intros [Hc [Hd [[_ HL] [HdL [Hdata [Hlen [Hbuf [Hh Hhl]]]]]]]] Hsd Hserves Hb.
  destruct (the_codec_ok c Hc) as [Hwf Hdf].
  assert (Hne : data <> []) by (destruct data; [simpl in Hlen; lia|discriminate]).
  assert (HLb : (L <= buflen)%nat).
  { destruct Hbuf as [->| ->]; [apply le_255_4091, HL|apply le_255_4095, HL]. }
  assert (Hh5 : (length hdr <= 5)%nat) by (destruct Hhl as [->| ->]; repeat constructor).
  exact (build_upstream_ok c d sd data L buflen hdr name n Hwf Hdf Hd HdL HL HLb Hdata Hne Hh Hh5 Hsd Hserves Hb).
Qed.

(* ---------------------------------------------------------------------------------------- *)

(* inline_dotify: the three period constants of encoding.c agree (57); the in-place backward copy
   loop equals the forward shape "a dot after every full group of 57 characters" (a trailing dot
   when the length is a multiple of 57); it refuses exactly when the result would not fit; for
   dot-free text undotify inverts it and the dots sit exactly at the positions = 57 (mod 58) *)
Theorem C08_dotify :
  (period_build = 57%nat /\ period_dots = 57%nat /\ period_pos = 57%nat) /\
  (forall s, dotify_back (List.rev s) (length s) (length s / 57) [] = dotify_spec (length s) 57 s) /\
  (forall s buflen, inline_dotify s buflen =
     if (buflen <? length s + length s / 57)%nat then None else Some (dotify_spec (length s) 57 s)) /\
  (forall s, ~ In DOT s ->
     let X := dotify_spec (length s) 57 s in
     inline_undotify X (length X) = s /\
     length X = (length s + length s / 57)%nat /\
     (forall i, (i < length X)%nat -> (nth i X 0 = DOT <-> (i mod 58 = 57)%nat))).
Proof.
  split; [repeat split; reflexivity|]. split.
  { intros s. rewrite (dotify_back_spec (List.rev s) (length s) []) by apply rev_length.
    rewrite rev_involutive, app_nil_r. reflexivity. }
  split.
  { intros s buflen. destruct (buflen <? length s + length s / 57)%nat eqn:E.
    - apply inline_dotify_none. apply Nat.ltb_lt, E.
    - apply inline_dotify_spec. apply Nat.ltb_ge, E. }
  intros s Hs X. split; [|split].
  - unfold inline_undotify. rewrite firstn_all. fold (undot X). unfold X.
    rewrite dotify_spec_undot. apply undot_nodot, Hs.
  - apply dotify_spec_length, le_n.
  - intros i Hi. apply dotify_spec_dot_iff; assumption.
Qed.
Print Assumptions C08_dotify.

(* the builder never fails in the stated range *)
Theorem C08_builds : forall c d data L buflen hdr,
  C08_range c d data L buflen hdr ->
  exists name n, build_hostname c buflen data d L = Some (name, n).
Proof.
  intros c d data L buflen hdr [Hc [Hd [[_ HL] [HdL [Hdata [Hlen [Hbuf _]]]]]]].
  destruct (the_codec_ok c Hc) as [Hwf Hdf].
  assert (Hne : data <> []) by (destruct data; [simpl in Hlen; lia|discriminate]).
  eexists. eexists. apply build_hostname_eq; try assumption.
  destruct Hbuf as [->| ->]; [apply le_255_4091, HL|apply le_255_4095, HL].
Qed.
Print Assumptions C08_builds.

(* the query name (header + build_hostname's output) has at most L - 2 <= L characters, ends with
   "." ++ domain, splits into labels of 1..63 bytes without NUL or '.', the first label being the
   header plus at most 57 characters (<= 62); putname accepts it and the wire form has
   length + 2 <= 255 bytes *)
Theorem C08_length : forall c d data L buflen hdr name n,
  C08_range c d data L buflen hdr ->
  build_hostname c buflen data d L = Some (name, n) ->
  let full := hdr ++ name in
  (length full <= L - 2)%nat /\ (length full <= L)%nat /\
  (exists front, full = front ++ DOT :: d) /\
  (exists ls, full = join_dot ls /\
     Forall (fun l => (1 <= length l <= 63)%nat /\ ~ In DOT l /\ ~ In 0 l) ls /\
     (length (hd [] ls) <= length hdr + 57)%nat /\ (length (hd [] ls) <= 62)%nat /\
     putname (length full) full = Some (wire_of ls) /\
     length (wire_of ls) = (length full + 2)%nat /\ (length (wire_of ls) <= 255)%nat).
Proof.
  intros c d data L buflen hdr name n HR Hb full.
  pose proof HR as [_ [Hd [_ [_ [_ [_ [_ [_ Hhl]]]]]]]].
  assert (Hsd : check_topdomain d true = true).
  { apply check_topdomain_iff. apply check_topdomain_iff in Hd.
    destruct Hd as [H1 [[H2|[H2 _]] H3]]; [|discriminate]. split; [exact H1|]. split; [left; exact H2|exact H3]. }
  destruct (C08_range_upstream c d d data L buflen hdr name n HR Hsd (serves_refl d) Hb)
    as [U1 [U2 [[ls [E [[Q1 [Q2 [Q3 Q4]]] [F [P [W1 W2]]]]]] _]]].
  fold full in U1, U2, E, P, W1. split; [exact U1|]. split; [lia|]. split; [exact U2|].
  exists ls. split; [exact E|]. split.
  - rewrite Forall_forall in *. intros l Hl. specialize (Q1 l Hl). unfold len_ok in Q1.
    split; [exact Q1|]. split; [exact (Q2 l Hl)|exact (Q3 l Hl)].
  - split; [exact F|]. split; [destruct Hhl as [Hx|Hx]; rewrite Hx in F; lia|].
    split; [exact P|]. split; [exact W1|exact W2].
Qed.
Print Assumptions C08_length.

(* the builder reports a non-empty prefix: at least one and at most all payload bytes; the
   encoder capacity is at least 16 characters because the domain leaves at least 24 *)
Theorem C08_prefix : forall c d data L buflen hdr name n,
  C08_range c d data L buflen hdr ->
  build_hostname c buflen data d L = Some (name, n) ->
  (1 <= n <= length data)%nat /\ (16 <= bh_space L (length d))%nat.
Proof.
  intros c d data L buflen hdr name n HR Hb.
  pose proof HR as [_ [Hd [_ [HdL _]]]].
  assert (Hsd : check_topdomain d true = true).
  { apply check_topdomain_iff. apply check_topdomain_iff in Hd.
    destruct Hd as [H1 [[H2|[H2 _]] H3]]; [|discriminate]. split; [exact H1|]. split; [left; exact H2|exact H3]. }
  destruct (C08_range_upstream c d d data L buflen hdr name n HR Hsd (serves_refl d) Hb)
    as [_ [_ [_ [Hn _]]]].
  split; [exact Hn|apply bh_space_ge, HdL].
Qed.
Print Assumptions C08_prefix.

(* the server side, for a server domain sd that is d up to ASCII case or a wildcard "*.rest"
   matching d after its first label: dns_decode of the client's datagram (EDNS0 on or off, any id
   and type, whatever follows the datagram in the receive buffer) gives back the name, type and
   id; query_datalen finds the part before the domain; unpack_data of that part after the header
   yields exactly the first n payload bytes *)
Theorem C08_server_extract : forall c d sd data L buflen hdr name n,
  C08_range c d data L buflen hdr ->
  check_topdomain sd true = true -> serves sd d ->
  build_hostname c buflen data d L = Some (name, n) ->
  let full := hdr ++ name in
  let dl := (length full - length d)%nat in
  (forall pktlen edns0 id ty residue, (512 <= pktlen)%nat -> id < 65536 -> ty < 65536 ->
     exists dg, dns_encode_query pktlen edns0 id ty full = Some dg /\
       dns_decode_query (dg ++ residue) (length dg) =
       {| dq_rv := Z.of_nat (length full);
          dq_q := Some {| q_name := full; q_type := ty; q_id := id |} |}) /\
  query_datalen full sd = Some dl /\
  unpack_data c buf64k (skipn (length hdr) (firstn dl full)) (dl - length hdr) = firstn n data.
Proof.
  intros c d sd data L buflen hdr name n HR Hsd Hserves Hb full dl.
  destruct (C08_range_upstream c d sd data L buflen hdr name n HR Hsd Hserves Hb)
    as [_ [_ [_ [_ [Hdns [Hq Hu]]]]]].
  split; [exact Hdns|]. split; [exact Hq|exact Hu].
Qed.
Print Assumptions C08_server_extract.

(* ... and the server's dispatcher hands exactly that length on: for a query carrying such a name, of a tunnel record
   type and not the ns./www. address query, tunnel_dns() is handle_null_request() with the data length
   "characters before the client's domain" -- whether the server is configured with the domain itself, in another
   letter case, or with a wildcard for its first label (extraction stage of checks/c08.py ties this to the real
   tunnel_dns of iodined.c) *)
Theorem C08_dispatcher_hands_on_data_part : forall login unz (cf : Server.cfg) st now rnd (q : Server.hq) c d data L buflen hdr name n,
  C08_range c d data L buflen hdr ->
  check_topdomain (Server.c_topdomain cf) true = true -> serves (Server.c_topdomain cf) d ->
  build_hostname c buflen data d L = Some (name, n) ->
  Server.h_name q = hdr ++ name ->
  let dl := (length (hdr ++ name) - length d)%nat in
  DomainDispatchProofs.tunnel_rr (Server.h_type q) = true ->
  DomainDispatchProofs.ns_a_query q dl = false -> DomainDispatchProofs.www_a_query q dl = false ->
  Server.tunnel_dns login unz cf st now rnd q = Server.handle_null_request login unz cf st now rnd q dl.
Proof.
  intros login unz cf st now rnd q c d data L buflen hdr name n HR Hsd Hserves Hb Hn dl Ht Hns Hwww.
  destruct (C08_range_upstream c d (Server.c_topdomain cf) data L buflen hdr name n HR Hsd Hserves Hb)
    as [_ [_ [_ [_ [_ [Hq _]]]]]].
  apply DomainDispatchProofs.tunnel_dns_inside_tunnel_rr; [rewrite Hn; exact Hq|exact Ht|exact Hns|exact Hwww].
Qed.
Print Assumptions C08_dispatcher_hands_on_data_part.

(* the configured limit L itself: main() of iodine.c hands the value of the last -M, clamped to 10..255, to the client
   (255 without -M), and no other option takes part (startup stage of checks/mainlib.py on the real main()) *)
Theorem C08_configured_limit :
  (forall ms, (10 <= startup_maxlen ms <= 255)%Z) /\
  (forall ms m, startup_maxlen (ms ++ [m]) = clamp_maxlen m) /\
  (forall m, (10 <= m <= 255)%Z -> clamp_maxlen m = m) /\
  startup_maxlen [] = 255%Z.
Proof. exact (conj startup_maxlen_range (conj startup_maxlen_last (conj clamp_maxlen_id eq_refl))). Qed.
Print Assumptions C08_configured_limit.

(* ---- the client's builders --------------------------------------------------------------- *)

(* send_chunk (data fragments): all of the above with a 5-character header *)
Theorem C08_send_chunk : forall c d sd L userid out_seq out_frag in_seq in_frag cmc data full n,
  the_codec c -> check_topdomain d false = true -> (100 <= L <= 255)%nat -> (length d + 24 <= L)%nat ->
  check_topdomain sd true = true -> serves sd d ->
  bytes_ok data -> (1 <= length data)%nat -> (cmc < 36)%nat ->
  send_chunk_name c userid out_seq out_frag in_seq in_frag cmc data d L = Some (full, n) ->
  upstream_ok c 5 d sd data L full n.
Proof.
  intros c d sd L userid out_seq out_frag in_seq in_frag cmc data full n Hc Hd [_ HL] HdL Hsd Hs Hdata Hlen Hcmc H.
  destruct (the_codec_ok c Hc) as [Hwf Hdf].
  assert (Hne : data <> []) by (destruct data; [simpl in Hlen; lia|discriminate]).
  exact (send_chunk_upstream_ok d sd L Hd HdL HL Hsd Hs c userid out_seq out_frag in_seq in_frag cmc data full n
           Hwf Hdf Hdata Hne Hcmc H).
Qed.
Print Assumptions C08_send_chunk.

(* send_fragsize_probe *)
Theorem C08_probe : forall c d sd L userid fragsize rand_seed full n,
  the_codec c -> check_topdomain d false = true -> (100 <= L <= 255)%nat -> (length d + 24 <= L)%nat ->
  check_topdomain sd true = true -> serves sd d ->
  probe_name c userid fragsize rand_seed d L = Some (full, n) ->
  upstream_ok c 5 d sd (probe_data rand_seed) L full n.
Proof.
  intros c d sd L userid fragsize rand_seed full n Hc Hd [_ HL] HdL Hsd Hs H.
  destruct (the_codec_ok c Hc) as [Hwf Hdf].
  exact (probe_upstream_ok d sd L Hd HdL HL Hsd Hs c userid fragsize rand_seed full n Hwf Hdf H).
Qed.
Print Assumptions C08_probe.

(* send_packet (one command character, Base32), any payload *)
Theorem C08_packet : forall d sd L cmd data full n,
  check_topdomain d false = true -> (100 <= L <= 255)%nat -> (length d + 24 <= L)%nat ->
  check_topdomain sd true = true -> serves sd d ->
  clean cmd -> bytes_ok data -> (1 <= length data)%nat ->
  packet_name cmd data d L = Some (full, n) ->
  upstream_ok b32 1 d sd data L full n /\ ((length data <= 10)%nat -> n = length data).
Proof.
  intros d sd L cmd data full n Hd [_ HL] HdL Hsd Hs Hc Hdata Hlen H.
  assert (Hne : data <> []) by (destruct data; [simpl in Hlen; lia|discriminate]).
  split.
  - exact (packet_upstream_ok d sd L Hd HdL HL Hsd Hs cmd data full n Hc Hdata Hne H).
  - intros H10. exact (packet_small_complete d L HdL HL cmd data full n Hne H10 H).
Qed.
Print Assumptions C08_packet.

(* version ('v'), ping ('p') and set-fragment-size ('n') messages are carried whole; the
   19-byte login message ('l') is carried as a non-empty prefix (whole when it fits) *)
Theorem C08_version_ping_fragsize_login : forall d sd L,
  check_topdomain d false = true -> (100 <= L <= 255)%nat -> (length d + 24 <= L)%nat ->
  check_topdomain sd true = true -> serves sd d ->
  (forall version rs full n, packet_name 118 (version_data version rs) d L = Some (full, n) ->
     upstream_ok b32 1 d sd (version_data version rs) L full n /\ n = 6%nat) /\
  (forall userid in_seq in_frag rs full n, userid < 256 ->
     packet_name 112 (ping_data userid in_seq in_frag rs) d L = Some (full, n) ->
     upstream_ok b32 1 d sd (ping_data userid in_seq in_frag rs) L full n /\ n = 4%nat) /\
  (forall userid fragsize rs full n, userid < 256 ->
     packet_name 110 (fragsize_data userid fragsize rs) d L = Some (full, n) ->
     upstream_ok b32 1 d sd (fragsize_data userid fragsize rs) L full n /\ n = 5%nat) /\
  (forall userid login rs full n, userid < 256 -> bytes_ok login ->
     packet_name 108 (login_data userid login rs) d L = Some (full, n) ->
     upstream_ok b32 1 d sd (login_data userid login rs) L full n /\ (1 <= n <= 19)%nat).
Proof.
  intros d sd L Hd HL HdL Hsd Hs.
  assert (Hcl : forall x, (x = 118 \/ x = 112 \/ x = 110 \/ x = 108) -> clean x).
  { intros x Hx. unfold clean, DOT. lia. }
  split; [|split; [|split]].
  - intros version rs full n H. destruct (version_data_ok version rs) as [B [_ Ln]].
    destruct (C08_packet d sd L 118 _ full n Hd HL HdL Hsd Hs (Hcl 118 ltac:(lia)) B ltac:(rewrite Ln; lia) H) as [U C].
    split; [exact U|]. rewrite <- Ln. apply C. lia.
  - intros userid in_seq in_frag rs full n Hu H. destruct (ping_data_ok userid in_seq in_frag rs Hu) as [B [_ Ln]].
    destruct (C08_packet d sd L 112 _ full n Hd HL HdL Hsd Hs (Hcl 112 ltac:(lia)) B ltac:(rewrite Ln; lia) H) as [U C].
    split; [exact U|]. rewrite <- Ln. apply C. lia.
  - intros userid fragsize rs full n Hu H. destruct (fragsize_data_ok userid fragsize rs Hu) as [B [_ Ln]].
    destruct (C08_packet d sd L 110 _ full n Hd HL HdL Hsd Hs (Hcl 110 ltac:(lia)) B ltac:(rewrite Ln; lia) H) as [U C].
    split; [exact U|]. rewrite <- Ln. apply C. lia.
  - intros userid login rs full n Hu Hl H. destruct (login_data_ok userid login rs Hu Hl) as [B [_ Ln]].
    destruct (C08_packet d sd L 108 _ full n Hd HL HdL Hsd Hs (Hcl 108 ltac:(lia)) B ltac:(rewrite Ln; lia) H) as [U _].
    split; [exact U|]. destruct U as [_ [_ [_ [Hn _]]]]. lia.
Qed.
Print Assumptions C08_version_ping_fragsize_login.

(* ---- non-vacuity -------------------------------------------------------------------------- *)

Definition ex_d76 : list N := repeat 97 63 ++ [46] ++ repeat 98 10 ++ [46; 99].   (* 63 a's . 10 b's . c *)
Definition ex_d3 : list N := [97; 46; 98].                                        (* "a.b" *)
Definition ex_pay (n : nat) : list N := map (fun i => (N.of_nat i * 37 + 11) mod 256) (seq 0 n).

Lemma ex_pay_ok n : bytes_ok (ex_pay n) /\ length (ex_pay n) = n.
Proof.
  split; [|unfold ex_pay; rewrite map_length, seq_length; reflexivity].
  unfold ex_pay, bytes_ok. rewrite Forall_forall. intros x Hx. apply in_map_iff in Hx.
  destruct Hx as [i [<- _]]. unfold byte_ok. lia.
Qed.

(* the tightest corner L = 100, |d| = 76 (capacity 16 characters) with Base128: the name has
   exactly L - 2 = 98 characters and carries 14 of 40 bytes; the range predicate holds *)
Example C08_example_L100_D76 :
  length ex_d76 = 76%nat /\
  C08_range b128 ex_d76 (ex_pay 40) 100 4091 (chunk_header 3 1 2 3 4 false 7) /\
  exists full, send_chunk_name b128 3 1 2 3 4 7 (ex_pay 40) ex_d76 100 = Some (full, 14%nat) /\
    length full = 98%nat /\ query_datalen full ex_d76 = Some 22%nat /\
    unpack_data b128 buf64k (skipn 5 (firstn 22 full)) 17 = firstn 14 (ex_pay 40).
Proof.
  split; [reflexivity|]. split.
  - split; [right; right; right; reflexivity|]. split; [vm_compute; reflexivity|].
    split; [lia|]. split; [vm_compute; lia|]. split; [apply ex_pay_ok|].
    split; [rewrite (proj2 (ex_pay_ok 40)); lia|]. split; [left; reflexivity|].
    split; [vm_compute; reflexivity|left; reflexivity].
  - eexists. split; [vm_compute; reflexivity|]. repeat split; vm_compute; reflexivity.
Qed.

(* the other corner L = 255, |d| = 3 (capacity 240 characters, four groups of 57 and one of 12)
   with Base32: 253 = L - 2 characters, 150 of 300 bytes *)
Example C08_example_L255_D3 :
  C08_range b32 ex_d3 (ex_pay 300) 255 4091 (chunk_header 3 1 2 3 4 false 7) /\
  exists full, send_chunk_name b32 3 1 2 3 4 7 (ex_pay 300) ex_d3 255 = Some (full, 150%nat) /\
    length full = 253%nat /\ query_datalen full ex_d3 = Some 250%nat /\
    unpack_data b32 buf64k (skipn 5 (firstn 250 full)) 245 = firstn 150 (ex_pay 300).
Proof.
  split.
  - split; [left; reflexivity|]. split; [vm_compute; reflexivity|].
    split; [lia|]. split; [vm_compute; lia|]. split; [apply ex_pay_ok|].
    split; [rewrite (proj2 (ex_pay_ok 300)); lia|]. split; [left; reflexivity|].
    split; [vm_compute; reflexivity|left; reflexivity].
  - eexists. split; [vm_compute; reflexivity|]. repeat split; vm_compute; reflexivity.
Qed.

(* the trailing-dot case: 71 bytes give 114 = 2 * 57 Base32 characters; inline_dotify itself ends
   the text with a dot and build_hostname adds none: 5 + 57 + 1 + 57 + 1 + 3 = 124 characters *)
Example C08_example_trailing_dot :
  length (fst (encode b32 240 (ex_pay 71))) = 114%nat /\
  last (dotify_spec 114 57 (fst (encode b32 240 (ex_pay 71)))) 0 = DOT /\
  exists full, send_chunk_name b32 15 7 15 7 15 35 (ex_pay 71) ex_d3 255 = Some (full, 71%nat) /\
    length full = 124%nat /\ nth 62 full 0 = DOT /\ nth 120 full 0 = DOT /\ nth 121 full 0 = 97 /\
    query_datalen full ex_d3 = Some 121%nat /\
    unpack_data b32 buf64k (skipn 5 (firstn 121 full)) 116 = ex_pay 71.
Proof.
  split; [vm_compute; reflexivity|]. split; [vm_compute; reflexivity|].
  eexists. split; [vm_compute; reflexivity|]. repeat split; vm_compute; reflexivity.
Qed.

(* a wildcard-served and a differently-cased server domain *)
Example C08_example_serves :
  serves [42; 46; 98] ex_d3 /\ check_topdomain [42; 46; 98] true = true /\
  serves [65; 46; 66] ex_d3 /\ check_topdomain [65; 46; 66] true = true /\
  query_datalen ([120; 121; 46] ++ ex_d3) [42; 46; 98] = Some 3%nat.
Proof.
  split.
  - right. exists [97], [98], [98]. repeat split; try reflexivity.
    + intros [H|[]]. discriminate H.
    + apply ci_eql_refl.
  - split; [vm_compute; reflexivity|]. split.
    + left. constructor; [right; right; lia|]. constructor; [left; reflexivity|].
      constructor; [right; right; lia|constructor].
    + split; vm_compute; reflexivity.
Qed.

(* with the tightest limit the 19-byte login message does not fit: only 10 bytes are carried *)
Example C08_example_login_truncated :
  exists full, packet_name 108 (login_data 3 (ex_pay 16) 4660) ex_d76 100 = Some (full, 10%nat).
Proof. eexists. vm_compute. reflexivity. Qed.
