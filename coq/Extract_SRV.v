(* Extraction of the server model for the history correspondence runs (C03/C04/C14/C15/C16). *)
From Coq Require Import Extraction ExtrOcamlBasic.
From Iodine Require Import Codec Hostname DnsName DnsMsg Domain Users Server ServerLoop.
Extraction Language OCaml.
Set Extraction Optimize.
Extraction "extracted/model_srv.ml" ServerLoop.siter Server.recv_datagram Server.tunnel_tun Server.sweep_clear Server.sweep_send
  Server.init_state Server.zc_frame Server.unz_frame Server.login_stub Server.getu
  Users.init_users DnsMsg.write_dns DnsMsg.dns_encode_query DnsMsg.buf64k DnsMsg.client_extract.
