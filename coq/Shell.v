(* Shell.v -- executable model of the path  login reply -> operating-system commands  of the
   client (C13): src/client.c handshake_login (sscanf + tun_setip + tun_setmtu) and src/tun.c
   tun_setip / tun_setmtu (LINUX branch), with the libc functions they rely on modelled as
   glibc 2.36 behaves in the "C" locale (iodine never calls setlocale):

     sscanf(in, "%64[^-]-%64[^-]-%d-%d", ...) == 4     parse_login_reply
     inet_pton(AF_INET, s, _) == 1                       inet_pton4
     inet_addr(s)                                        inet_addr_glibc
     inet_ntoa                                           inet_ntoa
     snprintf(cmdline, 512, fmt, ...)                    csnprintf / cprintf  (%s and %u only)
     system(cmdline)                                     an output event; its return value is an
                                                         argument (setip_ok) of login_commands

   Model only; proofs are in ShellProofs.v.  Byte strings are [list N]; a C string is the
   bytes before the first NUL ([cstr]).  The format strings, buffer sizes and the mtu bounds
   come from Generated/SrcConsts.v (regenerated from the C source on every run). *)
From Coq Require Import String Ascii.
From Coq Require Import List NArith ZArith Bool.
From Iodine Require Import Generated.SrcConsts.
Import ListNotations.
Local Open Scope N_scope.

(* string literal -> bytes (used in statements only, never by the extracted functions) *)
Definition str (s : string) : list N := map N_of_ascii (list_ascii_of_string s).

(* ------------------------------------------------------------------------------------ *)
(* C strings and character classes ("C" locale)                                          *)

Fixpoint cstr (buf : list N) : list N :=
  match buf with
  | [] => []
  | b :: r => if b =? 0 then [] else b :: cstr r
  end.

Definition is_digit (c : N) : bool := (48 <=? c) && (c <=? 57).
(* isspace: ' ', \t \n \v \f \r *)
Definition is_space (c : N) : bool := (c =? 32) || ((9 <=? c) && (c <=? 13)).

(* value of a string of decimal digits (most significant first), unbounded *)
Definition dec_value (ds : list N) : N := fold_left (fun acc d => acc * 10 + (d - 48)) ds 0.

Fixpoint prefixb (p s : list N) : bool :=
  match p, s with
  | [], _ => true
  | a :: p', b :: s' => (a =? b) && prefixb p' s'
  | _ :: _, [] => false
  end.

(* ------------------------------------------------------------------------------------ *)
(* sscanf(in, "%64[^-]-%64[^-]-%d-%d", server, client, &mtu, &netmask) == 4              *)

(* %64[^-] : at most w bytes different from '-' (any byte value, the scanset is a byte set);
   the conversion fails when no byte matches *)
Fixpoint scanset_notdash (w : nat) (s : list N) : list N * list N :=
  match w, s with
  | S w', c :: r => if c =? 45 then ([], s)
                    else let (f, t) := scanset_notdash w' r in (c :: f, t)
  | _, _ => ([], s)
  end.

Definition scan_field (s : list N) : option (list N * list N) :=
  match scanset_notdash 64 s with
  | ([], _) => None
  | (f, t) => Some (f, t)
  end.

(* an ordinary character of the format: the next input byte must be that character
   (no white space is skipped) *)
Definition expect (c : N) (s : list N) : option (list N) :=
  match s with
  | x :: r => if x =? c then Some r else None
  | [] => None
  end.

Fixpoint skip_space (s : list N) : list N :=
  match s with
  | c :: r => if is_space c then skip_space r else s
  | [] => []
  end.

Fixpoint take_digits (s : list N) : list N * list N :=
  match s with
  | c :: r => if is_digit c then let (d, t) := take_digits r in (c :: d, t) else ([], s)
  | [] => ([], [])
  end.

(* glibc converts the digits of %d with strtol (saturating at LONG_MIN / LONG_MAX, 64 bit)
   and stores the result truncated to int -- measured: "9223372036854775808" -> -1,
   "-9223372036854775809" -> 0, "2147483648" -> -2147483648, "4294967596" -> 300 *)
Definition strtol_sat (neg : bool) (v : N) : Z :=
  if neg then Z.max (- Z.of_N v) (- 2 ^ 63) else Z.min (Z.of_N v) (2 ^ 63 - 1).
Definition wrap_int (z : Z) : Z := ((z + 2 ^ 31) mod 2 ^ 32 - 2 ^ 31)%Z.

(* %d : skip white space, optional sign, at least one digit *)
Definition scan_int (s : list N) : option (Z * list N) :=
  let s1 := skip_space s in
  let '(neg, s2) := match s1 with
                    | c :: r => if c =? 45 then (true, r) else if c =? 43 then (false, r) else (false, s1)
                    | [] => (false, [])
                    end in
  match take_digits s2 with
  | ([], _) => None
  | (ds, t) => Some (wrap_int (strtol_sat neg (dec_value ds)), t)
  end.

(* the whole format; bytes after the fourth conversion are ignored.
   Result: (server, client, mtu, netmask) *)
Definition parse_login_reply (s : list N) : option (list N * list N * Z * Z) :=
  match scan_field s with None => None | Some (server, s1) =>
  match expect 45 s1 with None => None | Some s2 =>
  match scan_field s2 with None => None | Some (client, s3) =>
  match expect 45 s3 with None => None | Some s4 =>
  match scan_int s4 with None => None | Some (mtu, s5) =>
  match expect 45 s5 with None => None | Some s6 =>
  match scan_int s6 with None => None | Some (netmask, _) =>
  Some (server, client, mtu, netmask)
  end end end end end end end.

(* ------------------------------------------------------------------------------------ *)
(* dotted quads                                                                           *)

(* split at every '.'; always at least one (possibly empty) part *)
Fixpoint split_dot (s : list N) : list (list N) :=
  match s with
  | [] => [[]]
  | c :: r => if c =? 46 then [] :: split_dot r
              else match split_dot r with
                   | p :: ps => (c :: p) :: ps
                   | [] => [[c]]
                   end
  end.

(* a decimal number 0..255 written with 1 to 3 digits *)
Definition octetb (p : list N) : bool :=
  negb (length p =? 0)%nat && (length p <=? 3)%nat && forallb is_digit p && (dec_value p <=? 255).

(* the decidable predicate of the C13 theorems: d.d.d.d, each d a decimal number 0..255 of
   1-3 digits; so the only characters are digits and dots *)
Definition dotted_quadb (s : list N) : bool :=
  match split_dot s with
  | [a; b; c; d] => octetb a && octetb b && octetb c && octetb d
  | _ => false
  end.
Definition dotted_quad (s : list N) : Prop := dotted_quadb s = true.

(* glibc inet_pton(AF_INET): exactly four parts separated by single dots, each part one or
   more digits with value <= 255 and NO leading zero ("01", "00" are rejected, "0" is fine);
   nothing before or after *)
Definition pton_octet (p : list N) : option N :=
  match p with
  | [] => None
  | c :: r =>
      if forallb is_digit p && negb ((c =? 48) && negb (length r =? 0)%nat) && (dec_value p <=? 255)
      then Some (dec_value p) else None
  end.

Definition inet_pton4 (s : list N) : option (N * N * N * N) :=
  match split_dot s with
  | [a; b; c; d] =>
      match pton_octet a, pton_octet b, pton_octet c, pton_octet d with
      | Some x, Some y, Some z, Some w => Some (x, y, z, w)
      | _, _, _, _ => None
      end
  | _ => None
  end.

(* glibc inet_addr = inet_aton ignoring trailing text: 1 to 4 parts, each parsed by
   strtoul(.., 0) (decimal / 0octal / 0xhex), every part but the last <= 255, the last one
   fills the remaining bytes; after the last part the string must end or continue with an
   ASCII white-space character -- and anything at all may follow that.  Result: the address
   in host byte order (None = failure, reported by inet_addr as INADDR_NONE). *)
Definition hexval (c : N) : option N :=
  if is_digit c then Some (c - 48)
  else if (97 <=? c) && (c <=? 102) then Some (c - 87)
  else if (65 <=? c) && (c <=? 70) then Some (c - 55)
  else None.

Fixpoint take_base (base : N) (s : list N) (acc : N) : N * list N :=
  match s with
  | c :: r => match hexval c with
              | Some d => if d <? base then take_base base r (acc * base + d) else (acc, s)
              | None => (acc, s)
              end
  | [] => (acc, [])
  end.

(* strtoul(s, &end, 0) for s starting with a digit *)
Definition strtoul0 (s : list N) : N * list N :=
  match s with
  | 48 :: x :: h :: r =>
      if ((x =? 120) || (x =? 88)) && (match hexval h with Some _ => true | None => false end)
      then take_base 16 (h :: r) 0
      else take_base 8 s 0
  | 48 :: _ => take_base 8 s 0
  | _ => take_base 10 s 0
  end.

Definition aton_max (nparts : nat) : N :=
  match nparts with
  | O => 4294967295 | 1%nat => 16777215 | 2%nat => 65535 | _ => 255
  end.

Definition aton_word (parts : list N) (v : N) : N :=
  nth 0 parts 0 * 16777216 + nth 1 parts 0 * 65536 + nth 2 parts 0 * 256 + v.

Fixpoint aton_go (fuel : nat) (s : list N) (parts : list N) : option N :=
  match fuel with
  | O => None
  | S f =>
    match s with
    | [] => None
    | c :: _ =>
      if negb (is_digit c) then None else
      let (v, t) := strtoul0 s in
      if 4294967295 <? v then None else
      match t with
      | 46 :: t' =>
          if (3 <=? length parts)%nat || (255 <? v) then None
          else aton_go f t' (parts ++ [v])
      | _ =>
          let endok := match t with [] => true | e :: _ => (e <? 128) && is_space e end in
          if endok && (v <=? aton_max (length parts)) then Some (aton_word parts v) else None
      end
    end
  end.

Definition inet_addr_glibc (s : list N) : option N := aton_go (S (length s)) s [].

(* inet_addr(ip) != INADDR_NONE *)
Definition inet_addr_ok (s : list N) : bool :=
  match inet_addr_glibc s with
  | Some v => negb (v =? 4294967295)
  | None => false
  end.

(* decimal text of a number (printf %u / %d of a non-negative value) *)
Fixpoint dec_go (fuel : nat) (n : N) (acc : list N) : list N :=
  match fuel with
  | O => acc
  | S f => let acc' := (48 + n mod 10) :: acc in
           if n / 10 =? 0 then acc' else dec_go f (n / 10) acc'
  end.
Definition dec_of_N (n : N) : list N := dec_go (S (N.to_nat (N.log2 n))) n [].

(* inet_ntoa of the address whose host-order value is w (only the low 32 bits are used) *)
Definition inet_ntoa (w : N) : list N :=
  dec_of_N ((w / 16777216) mod 256) ++ [46] ++ dec_of_N ((w / 65536) mod 256) ++ [46] ++
  dec_of_N ((w / 256) mod 256) ++ [46] ++ dec_of_N (w mod 256).

(* ------------------------------------------------------------------------------------ *)
(* snprintf with %s and %u                                                                *)

Inductive parg := PS (s : list N) | PU (n : N).

Definition parg_text (conv : N) (a : parg) : option (list N) :=
  match a with
  | PS s => if conv =? 115 then Some s else None     (* %s *)
  | PU n => if conv =? 117 then Some (dec_of_N n) else None  (* %u *)
  end.

(* formats outside this fragment (or with too few arguments) yield None: the model then
   produces no command and the correspondence run reports the difference *)
Fixpoint cprintf (fmt : list N) (args : list parg) : option (list N) :=
  match fmt with
  | [] => Some []
  | c :: r =>
      if c =? 37 then
        match r with
        | conv :: r' =>
            match args with
            | a :: args' =>
                match parg_text conv a, cprintf r' args' with
                | Some t, Some rest => Some (t ++ rest)
                | _, _ => None
                end
            | [] => None
            end
        | [] => None
        end
      else match cprintf r args with
           | Some rest => Some (c :: rest)
           | None => None
           end
  end.

(* snprintf(buf, size, ...): at most size-1 bytes are stored *)
Definition csnprintf (size : N) (fmt : list N) (args : list parg) : option (list N) :=
  match cprintf fmt args with
  | Some t => Some (firstn (N.to_nat size - 1) t)
  | None => None
  end.

(* ------------------------------------------------------------------------------------ *)
(* tun.c                                                                                  *)

(* the netmask computed by tun_setip (netbits outside 0..32 is refused since the repair of the
   signed-shift defect):
       netmask = netbits ? 0xFFFFFFFFU << (32 - netbits) : 0;
   The theorems are proved for an ARBITRARY function  mask_of : netbits -> word.
   [mask_x86] (written for the earlier shift loop) agrees with the formula on 0..32; it is the
   instance used by the correspondence run. *)
Definition mask_x86 (netbits : Z) : N :=
  let ones := if (netbits <=? 0)%Z then 0
              else if (32 <=? netbits)%Z then 4294967295
              else 2 ^ Z.to_N netbits - 1 in
  let cnt := Z.to_N ((32 - netbits) mod 32) in
  (ones * 2 ^ cnt) mod 4294967296.

(* tun_setip(ip, other_ip, netbits), LINUX: Some command = the argument of system().
   Which checks are made and which address each %s receives follows the source (translator):
     src_SETIP_CHECK_INET_ADDR = 1   if (inet_addr(ip) == INADDR_NONE) return 1;
     src_SETIP_PTON_IP = 1           if (inet_pton(AF_INET, ip, ..) != 1 ...) return 1;
     src_SETIP_PTON_OTHER = 1        if (... inet_pton(AF_INET, other_ip, ..) != 1) return 1;
     src_SETIP_ARG1/2                0: ip, 1: other_ip   (display_ip = ip on LINUX)
   so that an edit which keeps the property (e.g. not validating an address that is not
   interpolated) re-proves, and one that interpolates an unvalidated address does not.
   The functions are written for an arbitrary configuration [g]; the proofs are generic in g
   and need only [cfg_safe g] (ShellProofs.v). *)
Record setip_cfg := {
  chk_inet_addr : bool;   (* inet_addr(ip) != INADDR_NONE required *)
  chk_pton_ip : bool;     (* inet_pton(AF_INET, ip) == 1 required *)
  chk_pton_other : bool;  (* inet_pton(AF_INET, other_ip) == 1 required *)
  arg1_other : bool;      (* first address of the command line is other_ip (else ip) *)
  arg2_other : bool       (* second address of the command line is other_ip (else ip) *)
}.

Definition src_setip_cfg : setip_cfg := {|
  chk_inet_addr := src_SETIP_CHECK_INET_ADDR =? 1;
  chk_pton_ip := src_SETIP_PTON_IP =? 1;
  chk_pton_other := src_SETIP_PTON_OTHER =? 1;
  arg1_other := negb (src_SETIP_ARG1 =? 0);
  arg2_other := negb (src_SETIP_ARG2 =? 0)
|}.

Definition setip_arg (other_p : bool) (ip other_ip : list N) : list N := if other_p then other_ip else ip.

Definition pton_ok (s : list N) : bool := match inet_pton4 s with Some _ => true | None => false end.

Definition setip_checks (g : setip_cfg) (ip other_ip : list N) : bool :=
  (negb (chk_inet_addr g) || inet_addr_ok ip) &&
  (negb (chk_pton_ip g) || pton_ok ip) &&
  (negb (chk_pton_other g) || pton_ok other_ip).

Definition tun_setip_cmd_g (g : setip_cfg) (mask_of : Z -> N) (ifname ip other_ip : list N) (netbits : Z)
  : option (list N) :=
  if (netbits <? 0)%Z || (32 <? netbits)%Z then None else   (* "Invalid netmask": return 1 *)
  if setip_checks g ip other_ip
  then csnprintf src_SETIP_CMDLINE_SIZE src_SETIP_FMT
                 [PS ifname; PS (setip_arg (arg1_other g) ip other_ip);
                  PS (setip_arg (arg2_other g) ip other_ip); PS (inet_ntoa (mask_of netbits))]
  else None.

Definition tun_setip_cmd := tun_setip_cmd_g src_setip_cfg.

(* tun_setmtu(const unsigned mtu) called with an int *)
Definition tun_setmtu_cmd (ifname : list N) (mtu : Z) : option (list N) :=
  let u := Z.to_N (mtu mod 2 ^ 32) in
  if (src_MTU_LO <? u) && (u <=? src_MTU_HI)
  then csnprintf src_SETMTU_CMDLINE_SIZE src_SETMTU_FMT [PS ifname; PU u]
  else None.

(* ------------------------------------------------------------------------------------ *)
(* client.c handshake_login, one received reply.  [buf] is the content of the receive
   buffer [in] as sscanf sees it (reply bytes followed by whatever the buffer held before;
   the C string ends at the first NUL).  [setip_ok]: did system() return 0 for the first
   command.  Result: the arguments of system(), in order, and whether the login loop goes on
   to wait for another reply. *)
Definition login_step_g (g : setip_cfg) (mask_of : Z -> N) (ifname : list N) (setip_ok : bool) (buf : list N)
  : list (list N) * bool :=
  let s := cstr buf in
  if prefixb [76; 78; 65; 75] (* "LNAK" *) s then ([], false)
  else if prefixb [66; 65; 68; 73; 80] (* "BADIP" *) s then ([], false)
  else match parse_login_reply s with
       | None => ([], true)
       | Some (server, client, mtu, netmask) =>
           match tun_setip_cmd_g g mask_of ifname client server netmask with
           | None => ([], false)
           | Some c1 =>
               if setip_ok
               then match tun_setmtu_cmd ifname mtu with
                    | Some c2 => ([c1; c2], false)
                    | None => ([c1], false)
                    end
               else ([c1], false)
           end
       end.

Definition login_step := login_step_g src_setip_cfg.

Definition login_commands (mask_of : Z -> N) (ifname : list N) (setip_ok : bool) (buf : list N)
  : list (list N) := fst (login_step mask_of ifname setip_ok buf).

(* the whole loop of handshake_login: at most 5 attempts.  [bufs]: per attempt, the buffer
   content if a fitting reply of positive length arrived (Some), or None (time-out, DNS error,
   useless reply: the loop just retries) *)
Fixpoint login_session_go (g : setip_cfg) (mask_of : Z -> N) (ifname : list N) (setip_ok : bool)
         (tries : nat) (bufs : list (option (list N))) : list (list N) :=
  match tries, bufs with
  | S n, Some b :: rest =>
      let (cmds, more) := login_step_g g mask_of ifname setip_ok b in
      if more then cmds ++ login_session_go g mask_of ifname setip_ok n rest else cmds
  | S n, None :: rest => login_session_go g mask_of ifname setip_ok n rest
  | _, _ => []
  end.
Definition login_session mask_of ifname setip_ok bufs :=
  login_session_go src_setip_cfg mask_of ifname setip_ok 5 bufs.

(* the validation as it was before commit 5de9216 (inet_addr only), kept to show that the
   strict check is what the theorems rest on *)
Definition old_setip_cfg : setip_cfg :=
  {| chk_inet_addr := true; chk_pton_ip := false; chk_pton_other := false; arg1_other := false; arg2_other := false |}.
Definition tun_setip_cmd_old := tun_setip_cmd_g old_setip_cfg.
