(* UsersProofs.v -- proofs about the model of src/user.c (C18).
   Part 0: specification vocabulary used by the statements in Properties_C18.v.
   Part 1: byte-level facts (byte swap, bitwise and with a prefix mask).
   Part 2: init_users -- closed form of the address pool.
   Part 3: find_user_by_ip.   Part 4: find_available_user. *)
From Coq Require Import List NArith Arith Bool Lia ZArith ZifyBool ZifyNat ZifyN.
From Iodine Require Import Base Users Generated.SrcConsts.
Import ListNotations.
Local Open Scope N_scope.

Ltac Zify.zify_post_hook ::= Z.div_mod_to_equations.

(* ---------------------------------------------------------------------------------- *)
(* Part 0: vocabulary                                                                   *)

(* the address as a number with the first octet most significant (ntohl of the stored value) *)
Definition host_order (x : N) : N := bswap32 x.
Definition subnet_size (netbits : nat) : N := 2 ^ (32 - N.of_nat netbits).
(* network address of the server's subnet and position of the server inside it (host order) *)
Definition netaddr (my_ip : N) (netbits : nat) : N :=
  host_order my_ip - host_order my_ip mod subnet_size netbits.
Definition server_pos (my_ip : N) (netbits : nat) : N := host_order my_ip mod subnet_size netbits.
(* host position handed to slot i: i+1, or i+2 from the server's own position onwards *)
Definition pool_k (hs i : N) : N := if (1 <=? hs) && (hs <=? i + 1) then i + 2 else i + 1.

Definition user0 : user := {| u_active := 0; u_auth := 0; u_disabled := 0; u_last_pkt := 0; u_tun_ip := 0 |}.
(* a live logged-in session: active, authenticated, not disabled, heard from less than 60 s ago *)
Definition session_live (now : N) (u : user) : Prop :=
  u_active u <> 0 /\ u_auth u <> 0 /\ u_disabled u = 0 /\ now < u_last_pkt u + 60.
Definition owner_at (us : list user) (ip now : N) (i : nat) : Prop :=
  (i < length us)%nat /\ u_tun_ip (nth i us user0) = ip /\ session_live now (nth i us user0).
(* a slot that find_available_user may hand out *)
Definition slot_free (now : N) (u : user) : Prop :=
  (u_active u = 0 \/ u_last_pkt u + 60 < now) /\ u_disabled u = 0.

(* ---------------------------------------------------------------------------------- *)
(* Part 1: bytes                                                                        *)

(* little-endian composition of four bytes: a is the least significant *)
Definition w4 (a b c d : N) : N := a + 256 * (b + 256 * (c + 256 * d)).

Lemma w4_lt a b c d : a < 256 -> b < 256 -> c < 256 -> d < 256 -> w4 a b c d < 2 ^ 32.
Proof. intros. unfold w4. change (2 ^ 32) with 4294967296. lia. Qed.

Lemma divmod_step a r : a < 256 -> (a + 256 * r) mod 256 = a /\ (a + 256 * r) / 256 = r.
Proof. intros. split; lia. Qed.

Lemma bswap32_w4 a b c d : a < 256 -> b < 256 -> c < 256 -> d < 256 ->
  bswap32 (w4 a b c d) = w4 d c b a.
Proof.
  intros Ha Hb Hc Hd. unfold bswap32, w4. cbv zeta.
  destruct (divmod_step a (b + 256 * (c + 256 * d)) Ha) as [-> ->].
  destruct (divmod_step b (c + 256 * d) Hb) as [-> ->].
  destruct (divmod_step c d Hc) as [-> ->].
  rewrite (N.mod_small d 256) by exact Hd.
  change (2 ^ 24) with 16777216. change (2 ^ 16) with 65536. change (2 ^ 8) with 256. lia.
Qed.

Lemma w4_ex x : x < 2 ^ 32 ->
  exists a b c d, a < 256 /\ b < 256 /\ c < 256 /\ d < 256 /\ x = w4 a b c d.
Proof.
  intros H. change (2 ^ 32) with 4294967296 in H.
  exists (x mod 256), (x / 256 mod 256), (x / 256 / 256 mod 256), (x / 256 / 256 / 256).
  unfold w4.
  pose proof (N.div_mod x 256 ltac:(lia)) as E0.
  pose proof (N.div_mod (x / 256) 256 ltac:(lia)) as E1.
  pose proof (N.div_mod (x / 256 / 256) 256 ltac:(lia)) as E2.
  pose proof (N.mod_lt x 256 ltac:(lia)).
  pose proof (N.mod_lt (x / 256) 256 ltac:(lia)).
  pose proof (N.mod_lt (x / 256 / 256) 256 ltac:(lia)).
  set (q1 := x / 256) in *. set (q2 := q1 / 256) in *. set (q3 := q2 / 256) in *.
  set (r0 := x mod 256) in *. set (r1 := q1 mod 256) in *. set (r2 := q2 mod 256) in *.
  clearbody q1 q2 q3 r0 r1 r2. repeat split; lia.
Qed.

Lemma bswap32_lt x : bswap32 x < 2 ^ 32.
Proof.
  unfold bswap32. cbv zeta.
  pose proof (N.mod_lt x 256 ltac:(lia)).
  pose proof (N.mod_lt (x / 256) 256 ltac:(lia)).
  pose proof (N.mod_lt (x / 256 / 256) 256 ltac:(lia)).
  pose proof (N.mod_lt (x / 256 / 256 / 256) 256 ltac:(lia)).
  set (r0 := x mod 256) in *. set (r1 := x / 256 mod 256) in *. set (r2 := x / 256 / 256 mod 256) in *.
  set (r3 := x / 256 / 256 / 256 mod 256) in *. clearbody r0 r1 r2 r3.
  change (2 ^ 32) with 4294967296.
  change (2 ^ 24) with 16777216. change (2 ^ 16) with 65536. change (2 ^ 8) with 256. lia.
Qed.

Lemma bswap32_invol x : x < 2 ^ 32 -> bswap32 (bswap32 x) = x.
Proof.
  intros H. destruct (w4_ex x H) as (a & b & c & d & Ha & Hb & Hc & Hd & ->).
  rewrite !bswap32_w4 by assumption. reflexivity.
Qed.

Lemma bswap32_inj x y : x < 2 ^ 32 -> y < 2 ^ 32 -> bswap32 x = bswap32 y -> x = y.
Proof. intros Hx Hy E. rewrite <- (bswap32_invol x Hx), <- (bswap32_invol y Hy), E. reflexivity. Qed.

(* bitwise and, byte by byte *)
Lemma land_split x y :
  N.land x y = N.land (x mod 256) (y mod 256) + 256 * N.land (x / 256) (y / 256).
Proof.
  assert (Hm : N.land x y mod 256 = N.land (x mod 256) (y mod 256)).
  { change 256 with (2 ^ 8). rewrite <- !N.land_ones.
    apply N.bits_inj. intros i. rewrite !N.land_spec.
    destruct (N.testbit x i), (N.testbit y i), (N.testbit (N.ones 8) i); reflexivity. }
  assert (Hd : N.land x y / 256 = N.land (x / 256) (y / 256)).
  { change 256 with (2 ^ 8). rewrite <- !N.shiftr_div_pow2. apply N.shiftr_land. }
  rewrite <- Hm, <- Hd. rewrite N.add_comm. apply N.div_mod. discriminate.
Qed.

Lemma land_step a a' r r' : a < 256 -> a' < 256 ->
  N.land (a + 256 * r) (a' + 256 * r') = N.land a a' + 256 * N.land r r'.
Proof.
  intros Ha Ha'. rewrite land_split.
  destruct (divmod_step a r Ha) as [-> ->]. destruct (divmod_step a' r' Ha') as [-> ->]. reflexivity.
Qed.

Lemma land_byte_lt a b : a < 256 -> b < 256 -> N.land a b < 256.
Proof.
  intros Ha Hb. apply N.ltb_lt.
  apply (sweep2 (fun a b => N.land a b <? 256) 256 256); [vm_compute; reflexivity|exact Ha|exact Hb].
Qed.

Lemma land_w4 a b c d a' b' c' d' : a < 256 -> b < 256 -> c < 256 -> a' < 256 -> b' < 256 -> c' < 256 ->
  N.land (w4 a b c d) (w4 a' b' c' d') = w4 (N.land a a') (N.land b b') (N.land c c') (N.land d d').
Proof.
  intros. unfold w4. rewrite !land_step by assumption. reflexivity.
Qed.

Lemma bswap32_land x y : x < 2 ^ 32 -> y < 2 ^ 32 ->
  bswap32 (N.land x y) = N.land (bswap32 x) (bswap32 y).
Proof.
  intros Hx Hy.
  destruct (w4_ex x Hx) as (a & b & c & d & Ha & Hb & Hc & Hd & ->).
  destruct (w4_ex y Hy) as (a' & b' & c' & d' & Ha' & Hb' & Hc' & Hd' & ->).
  rewrite land_w4 by assumption.
  rewrite !bswap32_w4 by (try assumption; apply land_byte_lt; assumption).
  rewrite land_w4 by assumption. reflexivity.
Qed.

(* and with the prefix mask 2^32 - 2^s clears the low s bits *)
Lemma land_himask H s : H < 2 ^ 32 -> s <= 32 -> N.land H (2 ^ 32 - 2 ^ s) = H - H mod 2 ^ s.
Proof.
  intros HH Hs.
  assert (E1 : 2 ^ 32 - 2 ^ s = N.shiftl (N.ones (32 - s)) s).
  { rewrite N.shiftl_mul_pow2, N.ones_equiv, <- N.sub_1_r, N.mul_sub_distr_r, <- N.pow_add_r.
    replace (32 - s + s) with 32 by lia. rewrite N.mul_1_l. reflexivity. }
  assert (E2 : H - H mod 2 ^ s = N.shiftl (N.shiftr H s) s).
  { rewrite N.shiftl_mul_pow2, N.shiftr_div_pow2.
    pose proof (N.div_mod H (2 ^ s) ltac:(apply N.pow_nonzero; discriminate)) as E.
    rewrite E at 1. rewrite N.add_sub. apply N.mul_comm. }
  rewrite E1, E2. apply N.bits_inj. intros i. rewrite N.land_spec.
  destruct (N.ltb_spec i s) as [Hi|Hi].
  - rewrite !N.shiftl_spec_low by exact Hi. apply andb_false_r.
  - rewrite !N.shiftl_spec_high' by exact Hi. rewrite N.shiftr_spec'.
    replace (i - s + s) with i by lia.
    destruct (N.ltb_spec (i - s) (32 - s)) as [Hj|Hj].
    + rewrite N.ones_spec_low by exact Hj. apply andb_true_r.
    + rewrite N.ones_spec_high by exact Hj. rewrite andb_false_r.
      rewrite <- (N.mod_small H (2 ^ 32)) by exact HH.
      symmetry. apply N.mod_pow2_bits_high. lia.
Qed.

(* ipstart = my_ip & htonl(netmask) is the network address, stored in network order *)
Lemma ipstart_spec my_ip s : my_ip < 2 ^ 32 -> s <= 32 ->
  N.land my_ip (bswap32 (2 ^ 32 - 2 ^ s)) =
  bswap32 (bswap32 my_ip - bswap32 my_ip mod 2 ^ s).
Proof.
  intros Hip Hs. rewrite <- (bswap32_invol my_ip Hip) at 1.
  assert (Hpos : 0 < 2 ^ s) by (apply N.neq_0_lt_0, N.pow_nonzero; discriminate).
  rewrite <- bswap32_land by (try apply bswap32_lt; lia).
  rewrite land_himask by (try apply bswap32_lt; assumption). reflexivity.
Qed.

(* the case split on the host-part width s = 32 - netbits, 2..24 *)
Ltac pow_consts :=
  repeat match goal with
         | |- context [2 ^ ?c] => let v := eval vm_compute in (2 ^ c) in change (2 ^ c) with v
         | H : context [2 ^ ?c] |- _ => let v := eval vm_compute in (2 ^ c) in change (2 ^ c) with v in H
         end.

(* adding a host position k <= 2^s - 2 to the network address never carries out of the low
   octet and never leaves 32 bits *)
Lemma subnet_low_octet H s k : H < 2 ^ 32 -> 2 <= s <= 24 -> k + 2 <= 2 ^ s -> k <= 255 ->
  (H - H mod 2 ^ s) mod 256 + k < 256 /\ H - H mod 2 ^ s + k < 2 ^ 32.
Proof.
  intros HH Hs Hk Hk'.
  assert (Hc : s = 2 \/ s = 3 \/ s = 4 \/ s = 5 \/ s = 6 \/ s = 7 \/ s = 8 \/ s = 9 \/ s = 10 \/
               s = 11 \/ s = 12 \/ s = 13 \/ s = 14 \/ s = 15 \/ s = 16 \/ s = 17 \/ s = 18 \/
               s = 19 \/ s = 20 \/ s = 21 \/ s = 22 \/ s = 23 \/ s = 24) by lia.
  clear Hs.
  repeat (destruct Hc as [->|Hc]); try subst s; pow_consts; lia.
Qed.

Lemma subnet_top H s : H < 2 ^ 32 -> 2 <= s <= 24 -> H - H mod 2 ^ s + 2 ^ s <= 2 ^ 32.
Proof.
  intros HH Hs.
  assert (Hc : s = 2 \/ s = 3 \/ s = 4 \/ s = 5 \/ s = 6 \/ s = 7 \/ s = 8 \/ s = 9 \/ s = 10 \/
               s = 11 \/ s = 12 \/ s = 13 \/ s = 14 \/ s = 15 \/ s = 16 \/ s = 17 \/ s = 18 \/
               s = 19 \/ s = 20 \/ s = 21 \/ s = 22 \/ s = 23 \/ s = 24) by lia.
  clear Hs.
  repeat (destruct Hc as [->|Hc]); try subst s; pow_consts; lia.
Qed.

Lemma bswap32_add_low A k : A + k < 2 ^ 32 -> A mod 256 + k < 256 ->
  bswap32 (A + k) = bswap32 A + k * 2 ^ 24 /\ bswap32 A + k * 2 ^ 24 < 2 ^ 32.
Proof.
  intros H1 H2. assert (HA : A < 2 ^ 32) by lia.
  destruct (w4_ex A HA) as (a & b & c & d & Ha & Hb & Hc & Hd & ->).
  assert (Em : w4 a b c d mod 256 = a) by (unfold w4; apply divmod_step, Ha).
  rewrite Em in H2.
  assert (E : w4 a b c d + k = w4 (a + k) b c d) by (unfold w4; lia).
  rewrite E. rewrite !bswap32_w4 by assumption.
  assert (E' : w4 d c b a + k * 2 ^ 24 = w4 d c b (a + k))
    by (unfold w4; change (2 ^ 24) with 16777216; lia).
  rewrite E'. split; [reflexivity|apply w4_lt; assumption].
Qed.

(* ---------------------------------------------------------------------------------- *)
(* Part 2: init_users                                                                   *)

Lemma netmask_host_val nb : (8 <= nb <= 30)%nat ->
  netmask_host nb = 2 ^ 32 - 2 ^ (32 - N.of_nat nb).
Proof.
  intros H. do 31 (destruct nb as [|nb]; [first [lia | vm_compute; reflexivity]|]). lia.
Qed.

Lemma user_count_val nb : (8 <= nb <= 30)%nat ->
  user_count nb = N.min 16 (2 ^ (32 - N.of_nat nb) - 3).
Proof.
  intros H. do 31 (destruct nb as [|nb]; [first [lia | vm_compute; reflexivity]|]). lia.
Qed.

Lemma netmask_accepted_iff nb : netmask_accepted nb = true <-> (8 <= nb <= 30)%nat.
Proof.
  unfold netmask_accepted. change src_NETMASK_MAX with 30. change src_NETMASK_MIN with 8.
  split; intros H; lia.
Qed.

Fixpoint nseq (i : N) (n : nat) : list N :=
  match n with O => [] | S n' => i :: nseq (i + 1) n' end.

Lemma nseq_length i n : length (nseq i n) = n.
Proof. revert i. induction n as [|n IH]; intros i; [reflexivity|simpl; rewrite IH; reflexivity]. Qed.

Lemma nth_map_nseq (f : N -> N) i n j d : (j < n)%nat ->
  nth j (map f (nseq i n)) d = f (i + N.of_nat j).
Proof.
  revert i j. induction n as [|n IH]; intros i j Hj; [lia|].
  destruct j as [|j]; simpl nth.
  - f_equal. lia.
  - cbn [nseq map nth]. rewrite IH by lia. f_equal. lia.
Qed.

(* init_users' loop with the test written as "if (ip == my_ip)" only *)
Fixpoint assign_noguard (my_ip ipstart : N) (n : nat) (i skip : N) : list N :=
  match n with
  | O => []
  | S n' =>
      let ip := u32 (ipstart + inet_addr_last (i + skip + 1)) in
      if ip =? my_ip then
        let skip' := skip + 1 in
        let ip' := u32 (ipstart + inet_addr_last (i + skip' + 1)) in
        ip' :: assign_noguard my_ip ipstart n' (i + 1) skip'
      else
        ip :: assign_noguard my_ip ipstart n' (i + 1) skip
  end.

Section Pool.
Variable my_ip : N.
Variable s : N.
Hypothesis Hip : my_ip < 2 ^ 32.
Hypothesis Hs : 2 <= s <= 24.

Let H := bswap32 my_ip.
Let A := H - H mod 2 ^ s.
Let hs := H mod 2 ^ s.
Let ipstart := N.land my_ip (bswap32 (2 ^ 32 - 2 ^ s)).

Lemma H_lt : H < 2 ^ 32.
Proof. apply bswap32_lt. Qed.

Lemma A_plus_hs : A + hs = H.
Proof.
  unfold A, hs.
  pose proof (N.mod_le H (2 ^ s) ltac:(apply N.pow_nonzero; discriminate)). lia.
Qed.

(* the address computed for last-octet increment k, and the comparison with the server's *)
Lemma ipk_spec k : k + 2 <= 2 ^ s -> k <= 255 ->
  u32 (ipstart + inet_addr_last k) = bswap32 (A + k) /\ A + k < 2 ^ 32.
Proof.
  intros Hk Hk'. unfold ipstart. rewrite ipstart_spec by (try exact Hip; lia). fold H. fold A.
  destruct (subnet_low_octet H s k H_lt Hs Hk Hk') as [L1 L2]. fold A in L1, L2.
  destruct (bswap32_add_low A k L2 L1) as [E L].
  unfold u32, inet_addr_last. rewrite N.mod_small by exact L. split; [symmetry; exact E|exact L2].
Qed.

Lemma ipk_eq_server k : k + 2 <= 2 ^ s -> k <= 255 ->
  (u32 (ipstart + inet_addr_last k) =? my_ip) = (k =? hs).
Proof.
  intros Hk Hk'. destruct (ipk_spec k Hk Hk') as [E L]. rewrite E.
  pose proof A_plus_hs as Eh.
  destruct (N.eqb_spec k hs) as [Ek|Ek].
  - apply N.eqb_eq. rewrite Ek, Eh. apply bswap32_invol, Hip.
  - apply N.eqb_neq. intros C. apply Ek.
    assert (E2 : A + k = H).
    { apply bswap32_inj; [exact L|apply H_lt|]. rewrite C. unfold H. symmetry. apply bswap32_invol, Hip. }
    lia.
Qed.

Lemma pool_k_skip i : 1 <= hs <= i + 1 -> pool_k hs i = i + 2.
Proof. intros Hh. unfold pool_k. destruct (1 <=? hs) eqn:E1, (hs <=? i + 1) eqn:E2; simpl; lia. Qed.

Lemma pool_k_noskip i : hs = 0 \/ i + 1 < hs -> pool_k hs i = i + 1.
Proof. intros Hh. unfold pool_k. destruct (1 <=? hs) eqn:E1, (hs <=? i + 1) eqn:E2; simpl; lia. Qed.

(* the loop: invariant on skip = "the server's position has been passed" *)
Lemma assign_spec n : forall i skip,
  (skip = 0 /\ (hs = 0 \/ i < hs)) \/ (skip = 1 /\ 1 <= hs <= i) ->
  i + N.of_nat n + 3 <= 2 ^ s -> i + N.of_nat n + 1 <= 255 ->
  assign my_ip ipstart n i skip = map (fun j => bswap32 (A + pool_k hs j)) (nseq i n).
Proof.
  induction n as [|n IH]; intros i skip Hinv Hb1 Hb2; [reflexivity|].
  cbn [assign nseq map]. cbv zeta.
  destruct Hinv as [[-> Hinv]|[-> Hinv]].
  - replace (i + 0 + 1) with (i + 1) by lia.
    rewrite (ipk_eq_server (i + 1)) by lia.
    destruct (N.eqb_spec (i + 1) hs) as [Eh|Eh].
    + change ((true && (0 =? 0))) with true. cbv iota.
      replace (i + (0 + 1) + 1) with (i + 2) by lia.
      destruct (ipk_spec (i + 2) ltac:(lia) ltac:(lia)) as [E _]. rewrite E.
      rewrite (pool_k_skip i) by lia. f_equal.
      apply IH; [right; split; [reflexivity|lia]|lia|lia].
    + change ((false && (0 =? 0))) with false. cbv iota.
      destruct (ipk_spec (i + 1) ltac:(lia) ltac:(lia)) as [E _]. rewrite E.
      rewrite (pool_k_noskip i) by lia. f_equal.
      apply IH; [left; split; [reflexivity|lia]|lia|lia].
  - change (1 =? 0) with false. rewrite andb_false_r.
    replace (i + 1 + 1) with (i + 2) by lia.
    destruct (ipk_spec (i + 2) ltac:(lia) ltac:(lia)) as [E _]. rewrite E.
    rewrite (pool_k_skip i) by lia. f_equal.
    apply IH; [right; split; [reflexivity|lia]|lia|lia].
Qed.

(* the loop without the "&& skip == 0" guard: once the server's position has been passed the
   comparison cannot succeed again, so the guard is redundant (an edit that drops it is
   behaviour-preserving) *)
Lemma assign_noguard_spec n : forall i skip,
  (skip = 0 /\ (hs = 0 \/ i < hs)) \/ (skip = 1 /\ 1 <= hs <= i) ->
  i + N.of_nat n + 3 <= 2 ^ s -> i + N.of_nat n + 1 <= 255 ->
  assign_noguard my_ip ipstart n i skip = map (fun j => bswap32 (A + pool_k hs j)) (nseq i n).
Proof.
  induction n as [|n IH]; intros i skip Hinv Hb1 Hb2; [reflexivity|].
  cbn [assign_noguard nseq map]. cbv zeta.
  destruct Hinv as [[-> Hinv]|[-> Hinv]].
  - replace (i + 0 + 1) with (i + 1) by lia.
    rewrite (ipk_eq_server (i + 1)) by lia.
    destruct (N.eqb_spec (i + 1) hs) as [Eh|Eh].
    + replace (i + (0 + 1) + 1) with (i + 2) by lia.
      destruct (ipk_spec (i + 2) ltac:(lia) ltac:(lia)) as [E _]. rewrite E.
      rewrite (pool_k_skip i) by lia. f_equal.
      apply IH; [right; split; [reflexivity|lia]|lia|lia].
    + destruct (ipk_spec (i + 1) ltac:(lia) ltac:(lia)) as [E _]. rewrite E.
      rewrite (pool_k_noskip i) by lia. f_equal.
      apply IH; [left; split; [reflexivity|lia]|lia|lia].
  - replace (i + 1 + 1) with (i + 2) by lia.
    rewrite (ipk_eq_server (i + 2)) by lia.
    destruct (N.eqb_spec (i + 2) hs) as [Eh|Eh]; [lia|].
    destruct (ipk_spec (i + 2) ltac:(lia) ltac:(lia)) as [E _]. rewrite E.
    rewrite (pool_k_skip i) by lia. f_equal.
    apply IH; [right; split; [reflexivity|lia]|lia|lia].
Qed.

End Pool.

Lemma pool_k_range hs i : i + 1 <= pool_k hs i <= i + 2.
Proof. unfold pool_k. destruct ((1 <=? hs) && (hs <=? i + 1)); lia. Qed.

Lemma pool_k_not_server hs i : pool_k hs i <> hs.
Proof. unfold pool_k. destruct (1 <=? hs) eqn:E1, (hs <=? i + 1) eqn:E2; simpl; lia. Qed.

Lemma pool_k_mono hs i j : i < j -> pool_k hs i < pool_k hs j.
Proof.
  intros Hij. unfold pool_k.
  destruct (1 <=? hs) eqn:E1, (hs <=? i + 1) eqn:E2, (hs <=? j + 1) eqn:E3; simpl; lia.
Qed.

Lemma subnet_size_bounds nb : (8 <= nb <= 30)%nat ->
  2 <= 32 - N.of_nat nb <= 24 /\ 4 <= subnet_size nb.
Proof.
  intros Hnb. split; [lia|]. unfold subnet_size.
  change 4 with (2 ^ 2). apply N.pow_le_mono_r; lia.
Qed.

(* closed form of init_users *)
Lemma init_users_spec my_ip nb : my_ip < 2 ^ 32 -> (8 <= nb <= 30)%nat ->
  init_users my_ip nb =
  (map (fun j => bswap32 (netaddr my_ip nb + pool_k (server_pos my_ip nb) j))
       (nseq 0 (N.to_nat (N.min 16 (subnet_size nb - 3)))),
   N.min 16 (subnet_size nb - 3)).
Proof.
  intros Hip Hnb. destruct (subnet_size_bounds nb Hnb) as [Hs Hsz].
  unfold init_users, net_saddr, htonl. cbv zeta.
  rewrite netmask_host_val, user_count_val by exact Hnb. fold (subnet_size nb).
  f_equal. unfold subnet_size in *.
  apply (assign_spec my_ip (32 - N.of_nat nb) Hip Hs); [left; split; [reflexivity|lia]|lia|lia].
Qed.

Lemma skip_guard_redundant my_ip nb : my_ip < 2 ^ 32 -> (8 <= nb <= 30)%nat ->
  assign_noguard my_ip (N.land my_ip (net_saddr nb)) (N.to_nat (user_count nb)) 0 0 =
  fst (init_users my_ip nb).
Proof.
  intros Hip Hnb. destruct (subnet_size_bounds nb Hnb) as [Hs Hsz].
  rewrite init_users_spec by assumption. cbn [fst].
  unfold net_saddr, htonl. rewrite netmask_host_val, user_count_val by exact Hnb.
  fold (subnet_size nb). unfold subnet_size in *.
  apply (assign_noguard_spec my_ip (32 - N.of_nat nb) Hip Hs); [left; split; [reflexivity|lia]|lia|lia].
Qed.

Lemma assign_length my_ip ips n : forall i sk, length (assign my_ip ips n i sk) = n.
Proof.
  induction n as [|n IH]; intros i sk; [reflexivity|].
  cbn [assign]. cbv zeta.
  destruct ((u32 (ips + inet_addr_last (i + sk + 1)) =? my_ip) && (sk =? 0)); cbn [length]; rewrite IH; reflexivity.
Qed.

Lemma init_users_count my_ip nb : (8 <= nb <= 30)%nat ->
  snd (init_users my_ip nb) = N.min 16 (subnet_size nb - 3) /\
  length (fst (init_users my_ip nb)) = N.to_nat (snd (init_users my_ip nb)) /\
  1 <= snd (init_users my_ip nb).
Proof.
  intros Hnb. destruct (subnet_size_bounds nb Hnb) as [Hs Hsz].
  unfold init_users. cbv zeta. cbn [fst snd].
  rewrite user_count_val by exact Hnb. fold (subnet_size nb).
  split; [reflexivity|]. split; [|lia].
  apply assign_length.
Qed.

Lemma init_users_nth my_ip nb i : my_ip < 2 ^ 32 -> (8 <= nb <= 30)%nat ->
  (i < length (fst (init_users my_ip nb)))%nat ->
  let k := pool_k (server_pos my_ip nb) (N.of_nat i) in
  let ip := nth i (fst (init_users my_ip nb)) 0 in
  ip < 2 ^ 32 /\ host_order ip = netaddr my_ip nb + k /\
  1 <= k <= subnet_size nb - 2 /\ k <> server_pos my_ip nb /\ ip <> my_ip /\
  netaddr my_ip nb + subnet_size nb <= 2 ^ 32.
Proof.
  intros Hip Hnb Hi. cbv zeta.
  destruct (subnet_size_bounds nb Hnb) as [Hs Hsz].
  rewrite init_users_spec in * by assumption. cbn [fst] in *.
  rewrite map_length, nseq_length in Hi.
  rewrite nth_map_nseq by exact Hi. rewrite N.add_0_l.
  set (k := pool_k (server_pos my_ip nb) (N.of_nat i)).
  pose proof (pool_k_range (server_pos my_ip nb) (N.of_nat i)) as Hk. fold k in Hk.
  pose proof (pool_k_not_server (server_pos my_ip nb) (N.of_nat i)) as Hns. fold k in Hns.
  assert (Hk2 : k + 2 <= subnet_size nb) by lia.
  assert (Hk3 : k <= 255) by lia.
  unfold subnet_size in Hk2.
  destruct (subnet_low_octet (bswap32 my_ip) (32 - N.of_nat nb) k (bswap32_lt my_ip) Hs Hk2 Hk3) as [_ L].
  fold (subnet_size nb) in L. fold (host_order my_ip) in L. fold (netaddr my_ip nb) in L.
  assert (Hsum : netaddr my_ip nb + server_pos my_ip nb = host_order my_ip).
  { unfold netaddr, server_pos.
    pose proof (N.mod_le (host_order my_ip) (subnet_size nb) ltac:(lia)). lia. }
  split; [apply bswap32_lt|].
  split; [unfold host_order at 1; apply bswap32_invol, L|].
  split; [lia|]. split; [exact Hns|]. split.
  - intros C. apply Hns.
    assert (E2 : netaddr my_ip nb + k = host_order my_ip).
    { apply bswap32_inj; [exact L|apply bswap32_lt|]. rewrite C.
      unfold host_order. symmetry. apply bswap32_invol, Hip. }
    lia.
  - (* the whole subnet lies below 2^32 *)
    apply (subnet_top (bswap32 my_ip) (32 - N.of_nat nb) (bswap32_lt my_ip) Hs).
Qed.

Lemma init_users_nodup my_ip nb : my_ip < 2 ^ 32 -> (8 <= nb <= 30)%nat ->
  NoDup (fst (init_users my_ip nb)).
Proof.
  intros Hip Hnb. apply (NoDup_nth _ 0). intros i j Hi Hj E.
  destruct (init_users_nth my_ip nb i Hip Hnb Hi) as (_ & Ei & _).
  destruct (init_users_nth my_ip nb j Hip Hnb Hj) as (_ & Ej & _).
  cbv zeta in Ei, Ej. rewrite E in Ei. rewrite Ei in Ej.
  destruct (Nat.lt_trichotomy i j) as [Hlt|[Heq|Hgt]]; [|exact Heq|].
  - pose proof (pool_k_mono (server_pos my_ip nb) (N.of_nat i) (N.of_nat j) ltac:(lia)). lia.
  - pose proof (pool_k_mono (server_pos my_ip nb) (N.of_nat j) (N.of_nat i) ltac:(lia)). lia.
Qed.

(* ---------------------------------------------------------------------------------- *)
(* Part 3: find_user_by_ip                                                              *)

Lemma hit_iff ip now u : hit ip now u = true <-> u_tun_ip u = ip /\ session_live now u.
Proof.
  unfold hit, live, truthy, session_live. change src_USER_TIMEOUT with 60.
  split.
  - intros Hh. apply andb_prop in Hh. destruct Hh as [Hh H5].
    apply andb_prop in Hh. destruct Hh as [Hh H4].
    apply andb_prop in Hh. destruct Hh as [Hh H3].
    apply andb_prop in Hh. destruct Hh as [H1 H2].
    repeat split; lia.
  - intros (H1 & H2 & H3 & H4 & H5).
    repeat (apply andb_true_intro; split); lia.
Qed.

Lemma find_from_some us ip now : forall i0 r, find_from us ip now i0 = Some r ->
  exists j, r = (i0 + j)%nat /\ (j < length us)%nat /\ hit ip now (nth j us user0) = true /\
            forall j', (j' < j)%nat -> hit ip now (nth j' us user0) = false.
Proof.
  induction us as [|u t IH]; intros i0 r Hf; [discriminate|].
  cbn [find_from] in Hf. destruct (hit ip now u) eqn:Eh.
  - injection Hf as <-. exists O. repeat split; [lia|simpl; lia|exact Eh|intros j' Hj'; lia].
  - destruct (IH (S i0) r Hf) as (j & -> & Hj & Hh & Hm).
    exists (S j). repeat split; [lia|simpl; lia|exact Hh|].
    intros j' Hj'. destruct j' as [|j']; [exact Eh|]. apply Hm. lia.
Qed.

Lemma find_from_none us ip now : forall i0, find_from us ip now i0 = None ->
  forall j, (j < length us)%nat -> hit ip now (nth j us user0) = false.
Proof.
  induction us as [|u t IH]; intros i0 Hf j Hj; [simpl in Hj; lia|].
  cbn [find_from] in Hf. destruct (hit ip now u) eqn:Eh; [discriminate|].
  destruct j as [|j]; [exact Eh|]. simpl in Hj. apply (IH (S i0) Hf). lia.
Qed.

Lemma owner_at_hit us ip now i : owner_at us ip now i <->
  (i < length us)%nat /\ hit ip now (nth i us user0) = true.
Proof. unfold owner_at. rewrite hit_iff. tauto. Qed.

Lemma lookup_first us ip now i : find_user_by_ip us ip now = Some i <->
  owner_at us ip now i /\ forall j, (j < i)%nat -> ~ owner_at us ip now j.
Proof.
  unfold find_user_by_ip. split.
  - intros Hf. destruct (find_from_some us ip now O i Hf) as (j & -> & Hj & Hh & Hm).
    simpl. split; [apply owner_at_hit; split; assumption|].
    intros j' Hj' Ho. apply owner_at_hit in Ho. destruct Ho as [_ Ho].
    rewrite (Hm j' Hj') in Ho. discriminate.
  - intros [Ho Hm]. apply owner_at_hit in Ho. destruct Ho as [Hi Hh].
    destruct (find_from us ip now O) as [r|] eqn:Ef.
    + destruct (find_from_some us ip now O r Ef) as (j & -> & Hj & Hhj & Hmj). simpl.
      destruct (Nat.lt_trichotomy j i) as [Hlt|[Heq|Hgt]].
      * exfalso. apply (Hm j Hlt). apply owner_at_hit. split; assumption.
      * subst. reflexivity.
      * rewrite (Hmj i Hgt) in Hh. discriminate.
    + rewrite (find_from_none us ip now O Ef i Hi) in Hh. discriminate.
Qed.

Lemma lookup_none us ip now : find_user_by_ip us ip now = None <->
  forall j, ~ owner_at us ip now j.
Proof.
  unfold find_user_by_ip. split.
  - intros Hf j Ho. apply owner_at_hit in Ho. destruct Ho as [Hj Hh].
    rewrite (find_from_none us ip now O Hf j Hj) in Hh. discriminate.
  - intros Hn. destruct (find_from us ip now O) as [r|] eqn:Ef; [|reflexivity].
    destruct (find_from_some us ip now O r Ef) as (j & -> & Hj & Hhj & _).
    exfalso. apply (Hn j). apply owner_at_hit. split; assumption.
Qed.

(* with pairwise distinct tunnel addresses the owner is unique *)
Lemma lookup_unique us ip now i : NoDup (map u_tun_ip us) ->
  (find_user_by_ip us ip now = Some i <-> owner_at us ip now i) /\
  (find_user_by_ip us ip now = Some i ->
   forall j, (j < length us)%nat -> u_tun_ip (nth j us user0) = ip -> j = i).
Proof.
  intros Hnd.
  assert (Huniq : forall a b, (a < length us)%nat -> (b < length us)%nat ->
                              u_tun_ip (nth a us user0) = u_tun_ip (nth b us user0) -> a = b).
  { intros a b Ha Hb E. rewrite (NoDup_nth (map u_tun_ip us) 0) in Hnd.
    apply Hnd; rewrite ?map_length; try assumption.
    change 0 with (u_tun_ip user0). rewrite !map_nth. exact E. }
  split.
  - rewrite lookup_first. split; [intros [Ho _]; exact Ho|].
    intros Ho. split; [exact Ho|]. intros j Hj Hoj.
    destruct Ho as (Hi & Ei & _). destruct Hoj as (Hj' & Ej & _).
    assert (j = i) by (apply Huniq; [assumption..|congruence]). lia.
  - intros Hf j Hj Ej. apply lookup_first in Hf. destruct Hf as [(Hi & Ei & _) _].
    apply Huniq; [assumption..|congruence].
Qed.

(* ---------------------------------------------------------------------------------- *)
(* Part 4: find_available_user                                                          *)

Lemma available_iff now u : available now u = true <-> slot_free now u.
Proof.
  unfold available, truthy, slot_free. change src_USER_TIMEOUT_AVAIL with 60.
  split.
  - intros Hh. apply andb_prop in Hh. destruct Hh as [H1 H2]. apply orb_prop in H1. split; lia.
  - intros [H1 H2]. apply andb_true_intro. split; [apply orb_true_intro|]; lia.
Qed.

Lemma avail_from_spec us now : forall i0,
  match fst (avail_from us now i0) with
  | Some r => exists j, r = (i0 + j)%nat /\ (j < length us)%nat /\
                        available now (nth j us user0) = true /\
                        (forall j', (j' < j)%nat -> available now (nth j' us user0) = false) /\
                        snd (avail_from us now i0) = firstn j us ++ claim now (nth j us user0) :: skipn (S j) us
  | None => (forall j, (j < length us)%nat -> available now (nth j us user0) = false) /\
            snd (avail_from us now i0) = us
  end.
Proof.
  induction us as [|u t IH]; intros i0.
  - simpl. split; [intros j Hj; lia|reflexivity].
  - cbn [avail_from]. destruct (available now u) eqn:Ea.
    + cbn [fst snd]. exists O. repeat split; [lia|simpl; lia|exact Ea|intros j' Hj'; lia].
    + cbn [fst snd]. specialize (IH (S i0)).
      destruct (fst (avail_from t now (S i0))) as [r|].
      * destruct IH as (j & -> & Hj & Ha & Hm & Es). exists (S j).
        repeat split; [lia|simpl; lia|exact Ha| |].
        -- intros j' Hj'. destruct j' as [|j']; [exact Ea|]. apply Hm. lia.
        -- rewrite Es. reflexivity.
      * destruct IH as [Hm Es]. split; [|rewrite Es; reflexivity].
        intros j Hj. destruct j as [|j]; [exact Ea|]. apply Hm. simpl in Hj. lia.
Qed.

(* iterate find_available_user m times at a fixed clock *)
Fixpoint alloc_many (us : list user) (now : N) (m : nat) : list (option nat) :=
  match m with
  | O => []
  | S m' => let r := find_available_user us now in fst r :: alloc_many (snd r) now m'
  end.

Lemma claimed_not_available now u : available now (claim now u) = false.
Proof.
  unfold available, claim, truthy. cbn [u_active u_last_pkt u_disabled].
  change src_USER_TIMEOUT_AVAIL with 60. change (negb (negb (1 =? 0))) with false.
  cbn [orb]. assert (E : (now + 60 <? now) = false) by lia. rewrite E. reflexivity.
Qed.

Lemma avail_from_prefix pre suf now i0 :
  Forall (fun u => available now u = false) pre ->
  avail_from (pre ++ suf) now i0 =
  (fst (avail_from suf now (i0 + length pre)), pre ++ snd (avail_from suf now (i0 + length pre))).
Proof.
  revert i0. induction pre as [|u t IH]; intros i0 Hp.
  - simpl. rewrite Nat.add_0_r. destruct (avail_from suf now i0); reflexivity.
  - inversion Hp as [|? ? Hu Ht]; subst. cbn [app avail_from]. rewrite Hu.
    rewrite (IH (S i0) Ht). cbn [fst snd length].
    replace (S i0 + length t)%nat with (i0 + S (length t))%nat by lia. reflexivity.
Qed.

Lemma alloc_many_fresh now : forall (ips : list N) (pre : list user) m,
  Forall (fun u => available now u = false) pre ->
  alloc_many (pre ++ fresh_users ips) now (length ips + m) =
  map Some (seq (length pre) (length ips)) ++ repeat None m.
Proof.
  induction ips as [|ip t IH]; intros pre m Hp.
  - simpl. rewrite app_nil_r. revert Hp. induction m as [|m IHm]; intros Hp; [reflexivity|].
    cbn [alloc_many repeat]. unfold find_available_user.
    pose proof (avail_from_prefix pre [] now O Hp) as E. rewrite app_nil_r in E. rewrite E.
    cbn [avail_from fst snd]. rewrite app_nil_r. f_equal. apply IHm, Hp.
  - cbn [length Nat.add alloc_many]. unfold find_available_user.
    cbn [fresh_users map]. fold (fresh_users t).
    rewrite (avail_from_prefix pre _ now O Hp). cbn [avail_from].
    set (f := {| u_active := 0; u_auth := 0; u_disabled := 0; u_last_pkt := 0; u_tun_ip := ip |}).
    assert (Ef : available now f = true) by reflexivity.
    rewrite Ef. cbn [fst snd seq map app Nat.add]. f_equal.
    replace (pre ++ claim now f :: fresh_users t) with ((pre ++ [claim now f]) ++ fresh_users t)
      by (rewrite <- app_assoc; reflexivity).
    rewrite IH.
    + rewrite app_length. cbn [length]. replace (length pre + 1)%nat with (S (length pre)) by lia. reflexivity.
    + apply Forall_app. split; [exact Hp|]. constructor; [apply claimed_not_available|constructor].
Qed.
