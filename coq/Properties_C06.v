(* Properties_C06.v -- C06 "Client survives arbitrary replies (memory safety, termination)".
   Final statements only; each is closed by exact/apply of lemmas from DecodeSafetyProofs.v,
   DecodeSafetyMx.v, DecodeSafetyAnswer.v, ClientStages.v, ClientSafetyProofs.v,
   ClientInvariant.v, ClientUnmatched.v.

   Claim level: proof, PARTIAL.  What these theorems carry: index / length safety and termination
   of the MODELLED code (DnsName.v, DnsMsg.v, Client.v -- validated against the C by the
   differential runs of checks/c06.py) for ALL datagrams and ALL event lists.  What they do not
   carry: undefined behaviour at the level of the compiled program (signed shifts/overflows, the
   stack layout, uninitialised bytes, libc/zlib internals): those are observed by the ASan/UBSan
   streams of checks/c06.py.  The handshake functions built on handshake_waitdns have a sequencing model
   (Handshake.v: which reply is taken, retries, what each step stores), tied to the C by scripted replies;
   the handshake theorems at the end are about that model, which covers every step, handshake_login,
   handshake_raw_udp and client_handshake. *)
From Coq Require Import List NArith ZArith Arith Bool.
From Iodine Require Import Generated.SrcConsts Base Codec Hostname DnsName DnsMsg Client
     DecodeSafetyProofs DecodeSafetyMx DecodeSafetyAnswer DecodeTermination DecodeNul ClientStages
     ClientSafetyProofs ClientInvariant ClientUnmatched Handshake HandshakeProofs.
Import ListNotations.

(* ------------------------------------------------------------------------------------------ *)
(* C06_decode_bounds: for every datagram (receive buffer buf, datagram length plen -- any bytes,
   any length) and every destination size:
   (1) dns_decode(QR_ANSWER) writes at most buflen bytes to the caller's buffer (for CNAME this
       counts the NUL of  strncpy(buf, name, buflen); buf[buflen-1] = 0 ), returns at most the
       number of bytes written and at least -1;
   (2) the same for read_dns_withq (client_extract);
   (3) readname(packet, len, &p, dst, lim) writes at most lim bytes (name[256], names[i][255+1]);
   (4) readtxtbin(.., dst, dstremain) yields at most dstremain bytes (rdata[4096]);
   (5) the MX/SRV record loop keeps 250 rows of 256 bytes, only writes rows 0..248
       (pref % 10 == 0 && 10 <= pref < 2500 => pref/10 - 1 <= 248) and leaves row 249 empty, hence
   (6) the output loop ("while (names[i][0] != 0)", which has no i < 250 test) stops at row 249
       at the latest: its result does not depend on anything stored after the 250 rows; it never
       writes beyond buf[buflen-1] (the D8 statement, for the fixed code);
   (7) dns_namedec writes at most outdatalen bytes; the MX reassembly loop of read_dns_withq
       accumulates at most sizeof(data) = 64K bytes. *)
Theorem C06_decode_bounds :
  (forall buflen buf plen, (1 <= buflen)%nat ->
     let r := dns_decode_answer buflen buf plen in
     (length (da_out r) <= buflen)%nat /\ (da_rv r <= Z.of_nat (length (da_out r)))%Z /\
     (da_rv r <= Z.of_nat buflen)%Z /\ (-1 <= da_rv r)%Z) /\
  (forall buflen buf plen, (1 <= buflen)%nat ->
     let r := client_extract buflen buf plen in
     (length (da_out r) <= buflen)%nat /\ (da_rv r <= Z.of_nat (length (da_out r)))%Z /\
     (da_rv r <= Z.of_nat buflen)%Z /\ (-1 <= da_rv r)%Z) /\
  (forall buf plen src lim, (1 <= lim)%nat ->
     (length (rn_wr (readname buf plen src lim)) <= lim)%nat /\
     rn_ret (readname buf plen src lim) = length (rn_wr (readname buf plen src lim))) /\
  (forall buf p srcremain dstremain, (length (readtxtbin buf p srcremain dstremain) <= dstremain)%nat) /\
  (forall pref, ((pref mod 10 =? 0) && (10 <=? pref) && (pref <? 2500))%N = true ->
     (N.to_nat (pref / 10 - 1) < 249)%nat) /\
  (forall buf plen cnt data ty0 names' ty',
     mx_decode_loop buf plen cnt data ty0 (repeat (repeat 0%N name_size) 250) = Some (names', ty') ->
     (length names' = 250%nat /\ Forall (fun r => length r = 256%nat) names') /\
     nth 249 names' [] = repeat 0%N 256) /\
  (forall buflen names offset acc, (1 <= buflen)%nat -> (offset <= buflen - 1)%nat -> length acc = offset ->
     length (fst (mx_output names buflen offset acc)) = (snd (mx_output names buflen offset acc) + 1)%nat /\
     (snd (mx_output names buflen offset acc) <= buflen - 1)%nat /\
     (offset <= snd (mx_output names buflen offset acc))%nat) /\
  (forall buflen extra names offset acc,
     (exists i, (i < length names)%nat /\ cstr (nth i names []) = []) ->
     mx_output (names ++ extra) buflen offset acc = mx_output names buflen offset acc) /\
  (forall outlen s buflen, (length (dns_namedec outlen s buflen) <= outlen)%nat) /\
  (forall fuel bufbytes buftotal bufoffset dataspace0 acc, (length acc <= dataspace0)%nat ->
     (length (mx_namedec_loop fuel bufbytes buftotal bufoffset dataspace0 acc) <= dataspace0)%nat).
Proof.
  exact (conj dns_decode_answer_safe (conj client_extract_safe (conj readname_bound (conj readtxtbin_bound
        (conj mx_index_bound (conj mx_decode_loop_rows (conj mx_output_bound (conj mx_output_beyond
        (conj dns_namedec_bound mx_namedec_loop_bound))))))))).
Qed.
Print Assumptions C06_decode_bounds.

(* ------------------------------------------------------------------------------------------ *)
(* C06_decoder_nul_fits: the base32/64/64u/128 decoders store a NUL behind the last decoded byte
   ("*buf space should be at least 1 byte more than *buflen"), and read_dns_withq hands them its
   scratch buffer data[64K] with capacity 64K (resp. what is left of it in the MX/SRV loop).  For
   every datagram and every caller buffer of 1..64K bytes the decoded length + 1 stays within
   64K, because dns_namedec yields at most (text length - 1) bytes. *)
Theorem C06_decoder_nul_fits :
  (forall outlen s n, (length (dns_namedec outlen s n) <= n - 1)%nat) /\
  (forall buflen buf plen, (1 <= buflen)%nat -> (buflen <= buf64k)%nat ->
     let r := dns_decode_answer buflen buf plen in
     (0 < da_rv r)%Z ->
     (length (dns_namedec buf64k (da_out r) (Z.to_nat (da_rv r))) + 1 <= buf64k)%nat /\
     (length (mx_namedec_loop (S (Z.to_nat (da_rv r))) (da_out r) (Z.to_nat (da_rv r)) 0 buf64k []) + 1 <= buf64k)%nat) /\
  N.of_nat buf64k = 65536%N.
Proof. exact (conj dns_namedec_short (conj read_dns_nul_fits buf64k_val)). Qed.
Print Assumptions C06_decoder_nul_fits.

(* ------------------------------------------------------------------------------------------ *)
(* C06_state_bounds: after ANY list of events (tun packets, datagrams of any content on the DNS
   socket, time-outs; in DNS or raw mode) from the initial state: the reassembly buffer and the
   upstream packet stay inside inpkt.data[64K] / outpkt.data[64K], send_chunk reads
   data[offset .. len) with offset <= len <= 64K, sequence numbers are 3-bit, the downstream
   fragment number 4-bit, the upstream fragment number at most 16, datacmc indexes the 36-char
   table, DNS ids and the CMC seed are 16-bit.
   Hypothesis on zlib: compress2() given *destLen = sizeof(out) = 64K reports at most 64K (its
   documented contract; the client does not check compress2's return value). *)
Theorem C06_state_bounds :
  forall (zc : list N -> list N) (unz : list N -> option (list N)),
  (forall p, (length (zc p) <= N.to_nat 65536)%nat) ->
  forall userid domain codec maxlen qtype edns0 lazy dns st chunkid seed now evs,
  (chunkid < 65536)%N -> (seed < 65536)%N ->
  let s := crun zc unz (client_init userid domain codec maxlen qtype edns0 lazy dns st chunkid seed now) evs in
  (k_len (c_in s) <= 65536)%N /\ (length (k_data (c_in s)) <= N.to_nat 65536)%nat /\
  (k_seqno (c_in s) < 8)%N /\ (0 <= k_fragment (c_in s) < 16)%Z /\
  (k_len (c_out s) <= 65536)%N /\ (length (k_data (c_out s)) <= N.to_nat 65536)%nat /\
  (k_offset (c_out s) <= k_len (c_out s))%N /\
  (k_seqno (c_out s) < 8)%N /\ (0 <= k_fragment (c_out s) <= 16)%Z /\
  (c_datacmc s < 36)%nat /\
  (c_chunkid s < 65536)%N /\ (c_prev s < 65536)%N /\ (c_prev2 s < 65536)%N /\ (c_rand_seed s < 65536)%N.
Proof. exact state_bounds. Qed.
Print Assumptions C06_state_bounds.

(* ------------------------------------------------------------------------------------------ *)
(* C06_termination: the fuelled loops of the model never run out of fuel while their C loop
   condition holds (the result is the same for every larger fuel), and the iteration counts are
   bounded by the datagram length:
   (1) readname: one level of readname_loop = rl_labels with fuel plen+1; any fuel > plen - src
       gives the same result (every iteration advances the read position and needs s < plen);
       the recursion depth is the source constant 10;
   (2) readtxtbin: any fuel > srcremain;
   (3) MX/SRV record loop: ancount is a signed short (<= 32767 iterations); every iteration that
       does not fail a CHECKLEN needs 12 bytes at its record header and the next record starts at
       least 10 bytes later, so at most (plen - data)/10 + 1 iterations are begun, and a count
       larger than that always ends in "return 0";
   (4) MX reassembly loop of read_dns_withq: any fuel > buftotal - bufoffset.
   (mx_output is structural recursion over the 250 rows.)
   Per datagram of plen bytes the work is therefore at most
   (plen/10 + 1) * 2 readnames * 10 levels * (plen + 1) label iterations + one output pass over
   250 rows + one decoder pass over <= 64K characters. *)
Theorem C06_termination :
  (forall buf plen lim loop s0 fuel, (plen - s0 < fuel)%nat ->
     rl_labels buf plen lim (fun l off => readname_lvl buf plen l loop off) fuel s0 0 [] =
     readname_lvl buf plen lim (S loop) s0) /\
  src_READNAME_LOOPS = 10%N /\
  (forall buf fuel p srcremain dstremain, (srcremain < fuel)%nat ->
     readtxtbin_go fuel buf p srcremain dstremain [] = readtxtbin buf p srcremain dstremain) /\
  (forall v, (v < 65536)%N -> (to_short v <= 32767)%Z) /\
  (forall buf plen cnt data,
     (mx_iterations buf plen cnt data <= cnt)%nat /\
     (10 * mx_iterations buf plen cnt data <= plen - data + 10)%nat) /\
  (forall buf plen cnt data ty0 names r,
     mx_decode_loop buf plen cnt data ty0 names = Some r -> mx_iterations buf plen cnt data = cnt) /\
  (forall buf plen cnt data ty0 names, (plen < data + 10 * cnt + 2)%nat -> (1 <= cnt)%nat ->
     mx_decode_loop buf plen cnt data ty0 names = None) /\
  (forall fuel bufbytes buftotal dataspace0, (buftotal < fuel)%nat ->
     mx_namedec_loop fuel bufbytes buftotal 0 dataspace0 [] =
     mx_namedec_loop (S buftotal) bufbytes buftotal 0 dataspace0 []).
Proof.
  exact (conj readname_fuel_adequate (conj readname_levels (conj readtxtbin_fuel_adequate (conj to_short_bound
        (conj mx_iterations_bound (conj mx_iterations_success (conj mx_decode_loop_stops mx_namedec_fuel_adequate))))))).
Qed.
Print Assumptions C06_termination.

(* ------------------------------------------------------------------------------------------ *)
(* C06_unmatched_ignored.  DNS mode: a reply whose first question-name character is not
   'p' / 'P' / the hex digit of the userid, or whose DNS id is none of chunkid, chunkid_prev,
   chunkid_prev2, produces no write_tun and leaves unchanged: inpkt (reassembly), outpkt (incl.
   offset / sentlen / fragment, i.e. no upstream ack is taken from it), outchunkresent,
   lastdownstreamtime (the 60 s watchdog is not fed), datacmc, running and the configuration.
   Only c_ping_soon, the reply statistics (c_packrecv, c_packrecv_oos, c_servfail, c_recvcnt,
   c_sendcnt), c_selecttimeout / c_lazy (the "too few answers" logic) and -- when a ping is sent
   in response -- c_chunkid/c_prev/c_prev2/c_rand_seed may change.  For a wrong first character
   everything except c_ping_soon is unchanged and nothing is sent.
   Raw mode: a frame without the magic header or addressed to another userid changes nothing. *)
Theorem C06_unmatched_ignored :
  forall (unz : list N -> option (list N)),
  (forall s now d, c_dns s = true -> unmatched s d ->
     kept (fst (tunnel_dns unz s now d)) = kept s /\
     (forall p, ~ In (CTun p) (snd (tunnel_dns unz s now d)))) /\
  (forall s now d, c_dns s = true -> td_name_ok s (td_name0 (reply_of d)) = false ->
     all_but_ping (fst (tunnel_dns unz s now d)) = all_but_ping s /\ snd (tunnel_dns unz s now d) = []) /\
  (forall s now d, c_dns s = false -> raw_unmatched s d -> tunnel_dns unz s now d = (s, [])) /\
  (forall zc s now d, c_dns s = true -> unmatched (watchdog s now) d ->
     kept (fst (cstep zc unz s (CEDns now d))) = kept (watchdog s now) /\
     (forall p, ~ In (CTun p) (snd (cstep zc unz s (CEDns now d))))).
Proof.
  intros unz.
  exact (conj (tunnel_dns_unmatched unz) (conj (tunnel_dns_name_mismatch unz) (conj (tunnel_dns_raw_unmatched unz)
        (fun zc => cstep_unmatched zc unz)))).
Qed.
Print Assumptions C06_unmatched_ignored.

(* ------------------------------------------------------------------------------------------ *)
(* non-vacuity *)

(* an MX reply with two records (pref 10 "hab.xy", pref 20 "hcd.xy") to question "paaaq.t": *)
Definition ex_mx : list N :=
  [18;52; 132;0; 0;1; 0;2; 0;0; 0;0;  5;112;97;97;97;113; 1;116; 0; 0;15; 0;1;
   192;12; 0;15; 0;1; 0;0;0;0; 0;10; 0;10; 3;104;97;98; 2;120;121; 0;
   192;12; 0;15; 0;1; 0;0;0;0; 0;10; 0;20; 3;104;99;100; 2;120;121; 0]%N.

Example ex_mx_decodes :
  let r := dns_decode_answer 4096 ex_mx (length ex_mx) in
  da_rv r = 14%Z /\ da_out r = [104;97;98;46;120;121;0; 104;99;100;46;120;121;0; 0]%N /\
  da_id r = Some 4660%N /\ da_name0 r = Some 112%N.
Proof. vm_compute. repeat split. Qed.


(* the hypothesis of C06_state_bounds is satisfiable (a framing "compressor" cut at 64K) *)
Example ex_zc_bound : forall p, (length (firstn (N.to_nat 65536) (90%N :: p)) <= N.to_nat 65536)%nat.
Proof. intros p. rewrite firstn_length. apply Nat.le_min_l. Qed.

(* an unmatched reply exists for a concrete state: id 4660 is not among 1000, 0, 0 *)
Definition ex_state : cstate := client_init 3%N [116%N] 0%N 255 15%N false true true 4%N 1000%N 7%N 2000000%N.
Example ex_unmatched : unmatched ex_state ex_mx /\ c_dns ex_state = true /\
  td_name_ok ex_state (td_name0 (reply_of ex_mx)) = true.
Proof. vm_compute. split; [right; reflexivity|split; reflexivity]. Qed.

(* ------------------------------------------------------------------------------------------ *)
(* C06_handshake_step_bounded ("processes each one in bounded time", handshake half): for every
   handshake step of the model, every state and EVERY script of replies and time-outs -- hostile,
   unfitting, erroneous, of any length -- the step ends after at most step_bound queries (5 for the
   five-attempt steps incl. the login, 3 for the tests, 3 x 7 patterns for the upstream autodetect, 12 for the
   downstream autodetect, at most 27 for the query-type autodetect, 48 = 16 sizes x 3 attempts for the
   fragment-size search, 7 for the raw-UDP attempt, 148 for the whole client_handshake), and it consumes the script from the front only: what is left is a suffix of
   what was there.  No reply sequence keeps a step going. *)
Theorem C06_handshake_step_bounded :
  forall st s l,
    (h_q (snd (fst (run_step st s l))) <= h_q s + step_bound st)%N /\
    (exists pre, l = pre ++ snd (run_step st s l)).
Proof. exact step_bounded. Qed.
Print Assumptions C06_handshake_step_bounded.

(* C06_handshake_ignores_unfitting ("replies that do not match its recent queries are ignored",
   handshake half): a datagram whose DNS id reads as 0 -- never the id of a query, chunkid skips 0 --
   delivered as it is at any point of any script changes nothing: with every such datagram removed
   (strip) the step returns the same value and ends in the same state, and what is left of the script
   is the stripped rest.  In particular such a datagram cannot end a retry loop, be taken for the
   reply of a later query, or leave anything behind that a later comparison sees (the model of the
   repaired code compares the bytes of the fitting reply only; before the repair of D23 the C did not:
   corpus/C06 keeps the witness). *)
Theorem C06_handshake_ignores_unfitting :
  forall st s l, dns_only st = true -> h_cid s <> 0%N ->
    run_step st s (strip l) =
    (fst (fst (run_step st s l)), snd (fst (run_step st s l)), strip (snd (run_step st s l))).
Proof. intros st s l Hd H; exact (proj2 (step_ignores_inert st Hd s l H)). Qed.
Print Assumptions C06_handshake_ignores_unfitting.

(* C06_raw_login_sound: the raw-UDP half of handshake_raw_udp is outside the previous theorem on purpose.  It has no
   notion of an unfitting reply: each of its four raw logins is followed by one select(), and whatever datagram arrives
   is the answer to that attempt or is not.  What holds for every script: the loop reports success only if one of the
   datagrams delivered carries login(seed - 1) after the raw header -- no sequence of other datagrams makes the client
   switch to raw mode.  What does NOT hold is "ignored": ex_raw_login_junk shows four junk datagrams using up the four
   attempts, after which a correct answer comes too late and the client stays in DNS mode (a degradation an off-path
   sender can cause; the tunnel still comes up).  The whole handshake with the raw attempt is covered by
   C06_handshake_step_bounded (148 queries). *)
Theorem C06_raw_login_sound :
  forall seed n s l,
    fst (fst (attempts n (rawlogin_body seed) (ret false) s l)) = true ->
    exists m d, In (ID m d) l /\
      LoginGlue.cli_raw_accepts (h_pass s) seed (skipn 4 (firstn cap_full (subst m (h_cid s) (h_lastc s) d))) = true.
Proof. exact raw_login_sound. Qed.
Print Assumptions C06_raw_login_sound.

(* C06_autoprobe_fuel_adequate: the model's size search recurses on explicit fuel (16).  The fuel is never what
   ends it: the loop of handshake_autoprobe_fragsize ends because range, halved every round, reaches 0 -- with any
   additional fuel the model returns the same result in the same state for every script.  (A change of the source
   that makes range stop shrinking changes src_PROBE_SHIFT or breaks the translator's anchor, and this proof with it;
   the real step then no longer ends: hang:handshake-step.) *)
Theorem C06_autoprobe_fuel_adequate :
  forall k proposed maxf s l,
    hs_autoprobe_loop (16 + k) proposed src_PROBE_RANGE maxf s l = hs_autoprobe_loop 16 proposed src_PROBE_RANGE maxf s l.
Proof. exact autoprobe_fuel_adequate. Qed.
Print Assumptions C06_autoprobe_fuel_adequate.

(* non-vacuity: a well-formed NULL answer with DNS id 0 carrying "ZXDLEN" is inert; placed before the
   fitting 2-byte reply "BA" of a codec switch (the D23 witness) the model switches to Base64 with or
   without it, after one query *)
Definition ex_stale : list N :=
  [0;0;132;0;0;1;0;1;0;0;0;0;5;115;97;97;97;113;1;116;7;101;120;97;109;112;108;101;3;99;111;109;0;0;10;0;1;
   192;12;0;10;0;1;0;0;0;0;0;6;90;88;68;76;69;78]%N.
Definition ex_short : list N :=
  [0;0;132;0;0;1;0;1;0;0;0;0;5;115;97;97;97;113;1;116;7;101;120;97;109;112;108;101;3;99;111;109;0;0;10;0;1;
   192;12;0;10;0;1;0;0;0;0;0;2;66;65]%N.
Example ex_handshake_inert :
  inertb (ID 0%N ex_stale) = true /\
  (let s0 := hs_init 1000%N 10%N 10%Z 5%Z true 32%N [] [] in
   let r := run_step (SSwitchCodec 6%N) s0 [ID 0%N ex_stale; ID 2%N ex_short; IT] in
   (h_up (snd (fst r)) = 1%N) /\ (h_q (snd (fst r)) = 1%N) /\ (snd r = [IT]) /\
   (run_step (SSwitchCodec 6%N) s0 [ID 2%N ex_short; IT] = r)).
Proof. vm_compute. repeat split. Qed.

(* four junk datagrams (DNS id 0, inert for every DNS step) use up the four raw logins: the correct answer that follows
   is never looked at.  Without the junk the same answer is accepted. *)
Definition ex_pass : list N := ([115; 101; 115; 97; 109; 101] ++ repeat 0 26)%N.
Definition ex_raw_ok : list N := (firstn 3 src_raw_header ++ [16] ++ Login.raw_login_down ex_pass 4)%N.
Example ex_raw_login_junk :
  let s0 := hs_init 1000%N 10%N 3%Z 4%Z true 32%N [] ex_pass in
  fst (fst (attempts 4 (rawlogin_body 4%Z) (ret false) s0 [ID 0%N ex_raw_ok])) = true /\
  fst (fst (attempts 4 (rawlogin_body 4%Z) (ret false) s0
              [ID 0%N ex_stale; ID 0%N ex_stale; ID 0%N ex_stale; ID 0%N ex_stale; ID 0%N ex_raw_ok])) = false.
Proof. vm_compute. split; reflexivity. Qed.
