(* LoginGlue.v -- executable model of the glue that carries the login challenge from the server's
   version reply into the client's login (property C19).  Model only; proofs in LoginGlueProofs.v.

   server, iodined.c handle_null_request 'V' branch:
       users[userid].seed = rand();                                      int
       send_version_response(dns_fd, VERSION_ACK, users[userid].seed, userid, q);
   send_version_response(int fd, version_ack_t ack, uint32_t payload, int userid, struct query *q):
       char out[9];  strncpy(out, "VACK", sizeof(out));                  tag, zero filled
       out[4] = ((payload >> 24) & 0xff); ... out[7] = ((payload) & 0xff);
       out[8] = userid & 0xff;
       write_dns(fd, q, out, sizeof(out), users[userid].downenc);
   later, login handler:  login_calculate(logindata, 16, password, users[userid].seed);

   client, client.c handshake_version(int dns_fd, int *seed):
       char in[4096]; uint32_t payload;
       read = handshake_waitdns(dns_fd, in, sizeof(in), 'v', 'V', i+1);
       if (read >= 9) {
           payload = (((uint32_t) (in[4] & 0xff) << 24) | ((in[5] & 0xff) << 16) |
                      ((in[6] & 0xff) << 8) | ((in[7] & 0xff)));
           if (strncmp("VACK", in, 4) == 0) { *seed = payload; userid = in[8]; ... return 0; }
   client_handshake: handshake_version(dns_fd, &seed); handshake_login(dns_fd, seed) ->
       login_calculate(login, 16, password, seed); handshake_raw_udp(dns_fd, seed) ->
       send_raw_udp_login(dns_fd, seed) -> login_calculate(.., (int) ((unsigned int) seed + 1)).

   The C integer types are explicit.  A char object holds a bit pattern (N < 256); reading it
   yields a C value (Z): char is signed on the platform (gcc, x86-64), so a pattern >= 0x80 reads
   as a negative int after the integer promotion.  int and uint32_t values are Z resp. N, the
   conversions between them are the functions below.  The DNS transport between write_dns and
   handshake_waitdns is the identity on the 9 bytes (properties C09/C10; the correspondence run
   goes through the repository's own dns_encode / dns_decode).

   Every number of the two expressions (indices, masks, shifts, which operands carry a mask or
   the (uint32_t) cast, the element type of in[], 9, "VACK") is read from the source by
   tools/gen_consts.py (the src_VACK_ constants); an expression of another shape stops the translator. *)
From Coq Require Import List NArith ZArith Bool.
From Iodine Require Import Generated.SrcConsts Md5 Login.
Import ListNotations.
Local Open Scope N_scope.

(* ---- C values and conversions --------------------------------------------------------------- *)
(* value of a signed char object holding the pattern b *)
Definition schar_val (b : N) : Z := if b <? 128 then Z.of_N b else (Z.of_N b - 256)%Z.
(* reading a char object (integer promotion to int) *)
Definition char_val (signed : bool) (b : N) : Z := if signed then schar_val b else Z.of_N b.
(* assignment to a char object: the pattern stored (gcc: modulo 2^8) *)
Definition char_store (z : Z) : N := Z.to_N (z mod 256).
(* conversion to uint32_t / unsigned int: modulo 2^32 (C99 6.3.1.3p2) *)
Definition u32_of_Z (z : Z) : N := Z.to_N (z mod 4294967296).
(* conversion uint32_t -> int (implementation-defined above INT_MAX; gcc: two's complement) *)
Definition int_of_u32 (x : N) : Z :=
  if x <? 2147483648 then Z.of_N x else (Z.of_N x - 4294967296)%Z.

Definition nz (x : N) : bool := negb (x =? 0).

(* ---- server ----------------------------------------------------------------------------------- *)
Fixpoint upd (l : list N) (i : nat) (v : N) : list N :=
  match l, i with
  | [], _ => []
  | _ :: t, O => v :: t
  | x :: t, S i' => x :: upd t i' v
  end.

(* out[i] = ((payload >> s) & m);  a uint32_t value stored into a char *)
Definition srv_store (payload : N) (buf : list N) (ism : N * (N * N)) : list N :=
  let '(i, (s, m)) := ism in
  upd buf (N.to_nat i) (char_store (Z.of_N (N.land (N.shiftr payload s) m))).

(* send_version_response: the bytes of out[] handed to write_dns.  strncpy(out, tag, sizeof(out))
   is the tag cut at / zero-filled to sizeof(out) = [padn]; userid is a C int *)
Definition srv_version_out (tag : list N) (payload : N) (userid : Z) : list N :=
  let buf0 := padn (N.to_nat src_VACK_SRV_OUTLEN) tag in
  let buf1 := fold_left (srv_store payload)
                (combine src_VACK_SRV_IDX (combine src_VACK_SRV_SHIFT src_VACK_SRV_MASK)) buf0 in
  upd buf1 (N.to_nat src_VACK_SRV_UID_IDX)
      (char_store (Z.land userid (Z.of_N src_VACK_SRV_UID_MASK))).

(* the 'V' branch for an accepted version: the int users[userid].seed is converted to the
   uint32_t parameter *)
Definition srv_version_reply (seed : Z) (userid : Z) : list N :=
  srv_version_out src_VACK_SRV_TAG (u32_of_Z seed) userid.

(* the 'V' branch's test of the client's version: read > 4 bytes unpacked, the first four
   reassembled most significant first into an int, compared with PROTOCOL_VERSION; on a mismatch
   send_version_response(dns_fd, VERSION_NACK, PROTOCOL_VERSION, 0, q) *)
Definition srv_version_matches (unpacked : list N) : bool :=
  match unpacked with
  | b3 :: b2 :: b1 :: b0 :: _ :: _ =>
      (16777216 * (b3 mod 256) + 65536 * (b2 mod 256) + 256 * (b1 mod 256) + b0 mod 256) =? src_PROTOCOL_VERSION
  | _ => 0 =? src_PROTOCOL_VERSION
  end.
Definition vnak_tag : list N := [86; 78; 65; 75].   (* "VNAK" *)
Definition srv_version_nak : list N := srv_version_out vnak_tag src_PROTOCOL_VERSION 0.

(* users[userid].seed = rand(): any int; glibc: 0 .. 2^31-1 *)
Definition srv_seed_of_rand (r : Z) : Z := r.

(* login handler: login_calculate(logindata, 16, password, users[userid].seed) -- login_calculate
   of Login.v takes the 32-bit pattern of the C int *)
Definition srv_dns_login (p : list N) (seed : Z) : list N := login_calculate p (u32_of_Z seed).
(* read >= 18 && memcmp(logindata, unpacked+1, 16) == 0, for a login message with 16 hash bytes *)
Definition srv_login_accepts (p : list N) (seed : Z) (h : list N) : bool :=
  bytes_eqb (firstn 16 h) (srv_dns_login p seed).

(* ---- client ----------------------------------------------------------------------------------- *)
(* one operand of the | expression:  [(uint32_t)] (in[idx] [& mask]) [<< shift] *)
Record vterm := { t_idx : N; t_masked : bool; t_mask : N; t_cast : bool; t_shift : N }.

Fixpoint zip5 (a b c d e : list N) : list vterm :=
  match a, b, c, d, e with
  | i :: a', hm :: b', m :: c', k :: d', s :: e' =>
      {| t_idx := i; t_masked := nz hm; t_mask := m; t_cast := nz k; t_shift := s |}
        :: zip5 a' b' c' d' e'
  | _, _, _, _, _ => []
  end.

Definition cli_terms : list vterm :=
  zip5 src_VACK_CLI_IDX src_VACK_CLI_MASKED src_VACK_CLI_MASK src_VACK_CLI_CAST src_VACK_CLI_SHIFT.
Definition cli_signed : bool := nz src_VACK_CLI_SIGNED.

(* the int value in[idx] [& mask] for the pattern b in in[idx] *)
Definition term_int (t : vterm) (b : N) : Z :=
  let c := char_val cli_signed b in
  if t_masked t then Z.land c (Z.of_N (t_mask t)) else c.

(* the operand as a uint32_t.  With the cast the shift is a uint32_t shift (wraps); without it
   the shift is an int shift whose result is converted to uint32_t by the usual arithmetic
   conversions of | (or, when no operand is cast, by the assignment: conversion to uint32_t
   commutes with |).  An int shift that overflows is undefined; gcc wraps, see term_defined *)
Definition term_u32 (t : vterm) (b : N) : N :=
  let v := term_int t b in
  if t_cast t then (N.shiftl (u32_of_Z v) (t_shift t)) mod M32
  else u32_of_Z (Z.shiftl v (Z.of_N (t_shift t))).

(* C99 6.5.7: E1 << E2 needs E2 < width; for a signed E1 also E1 >= 0 and E1 * 2^E2 representable *)
Definition term_defined (t : vterm) (b : N) : bool :=
  let v := term_int t b in
  (t_shift t <? 32) &&
  (t_cast t || ((0 <=? v)%Z && (Z.shiftl v (Z.of_N (t_shift t)) <? 2147483648)%Z)).

Definition in_at (inb : list N) (i : N) : N := nth (N.to_nat i) inb 0.

(* payload, for the bytes of in[] *)
Definition cli_payload (inb : list N) : N :=
  fold_left (fun acc t => N.lor acc (term_u32 t (in_at inb (t_idx t)))) cli_terms 0.
Definition cli_payload_defined (inb : list N) : bool :=
  forallb (fun t => term_defined t (in_at inb (t_idx t))) cli_terms.

Definition vack_tag : list N := [86; 65; 67; 75].   (* "VACK", the literal of strncmp *)

(* handshake_version on a reply of [length inb] bytes: Some (seed, userid) when it returns 0
   ( *seed = payload: uint32_t -> int;  userid = in[8]: char -> int ), None when it does not
   accept (short reply, VNAK, VFUL, anything else: retried, then return 1) *)
Definition cli_version (inb : list N) : option (Z * Z) :=
  if N.of_nat (length inb) <? src_VACK_CLI_MINLEN then None
  else if bytes_eqb (firstn 4 inb) vack_tag
       then Some (int_of_u32 (cli_payload inb), char_val cli_signed (in_at inb src_VACK_CLI_UID_IDX))
       else None.

(* handshake_login: login_calculate(login, 16, password, seed) *)
Definition cli_dns_login (p : list N) (seed : Z) : list N := login_calculate p (u32_of_Z seed).
(* send_raw_udp_login: (int) ((unsigned int) seed + 1), as a pattern (u32_of_Z seed + 1) mod 2^32 *)
Definition cli_raw_login (p : list N) (seed : Z) : list N := raw_login_up p (u32_of_Z seed).
(* handshake_raw_udp: the answer must carry the hash of (int) ((unsigned int) seed - 1) *)
Definition cli_raw_accepts (p : list N) (seed : Z) (h : list N) : bool :=
  raw_client_accepts p (u32_of_Z seed) h.
