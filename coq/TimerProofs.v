(* TimerProofs.v -- no-wedge facts about the client's select-loop timeout branch (Client.v, the model
   of client_tunnel in client.c that the client-history correspondence ties to the C code).
   A packet whose chunks get no acknowledgement is retransmitted on each 1 s timeout and given up
   after the third retransmission, for every client state: after at most 4 consecutive timeouts the
   client is no longer sending and reads its tun device again. *)
From Coq Require Import List NArith ZArith Bool Lia.
From RecordUpdate Require Import RecordSet.
From Iodine Require Import Base Client.
Import ListNotations RecordSetNotations.
Local Open Scope N_scope.

Section WithZlib.
Variable zc : list N -> list N.
Variable unz : list N -> option (list N).

Lemma send_query_raw_keeps s h : c_out (fst (send_query_raw s h)) = c_out s /\ c_resent (fst (send_query_raw s h)) = c_resent s.
Proof. unfold send_query_raw. destruct (DnsMsg.dns_encode_query _ _ _ _ _); cbn; split; reflexivity. Qed.

Lemma lazyoff_keeps : forall n s acc,
  c_out (fst (lazyoff_queries n s acc)) = c_out s /\ c_resent (fst (lazyoff_queries n s acc)) = c_resent s.
Proof.
  induction n as [|n IH]; intros s acc; [split; reflexivity|].
  cbn [lazyoff_queries].
  destruct (send_query_raw (s <| c_rand_seed := (c_rand_seed s + 1) mod 65536 |>) (lazy_switch_name s)) as [s2 o] eqn:E.
  destruct (IH s2 (acc ++ o)) as [A B]. rewrite A, B.
  pose proof (send_query_raw_keeps (s <| c_rand_seed := (c_rand_seed s + 1) mod 65536 |>) (lazy_switch_name s)) as [C D].
  rewrite E in C, D. cbn [fst] in C, D. rewrite C, D. split; reflexivity.
Qed.

Lemma send_query_keeps s h : c_out (fst (send_query s h)) = c_out s /\ c_resent (fst (send_query s h)) = c_resent s.
Proof.
  unfold send_query. pose proof (send_query_raw_keeps s h) as [A B].
  destruct (send_query_raw s h) as [s1 o]. cbn [fst] in A, B.
  destruct o as [|x o]; [cbn; auto|].
  destruct ((0 <=? c_sendcnt s1)%Z && (c_sendcnt s1 <? 100)%Z && c_lazy s1); [|cbn; auto].
  match goal with |- context [if ?c then _ else _] => destruct c end; [|cbn; auto].
  match goal with |- context [if ?c then _ else _] => destruct c end; [cbn; auto|].
  match goal with |- context [lazyoff_queries 5 ?st []] =>
    pose proof (lazyoff_keeps 5 st []) as [C D]; destruct (lazyoff_queries 5 st []) as [s4 o2] end.
  cbn [fst] in *. rewrite C, D. cbn. auto.
Qed.

Lemma send_ping_keeps s : c_out (fst (send_ping s)) = c_out s /\ c_resent (fst (send_ping s)) = c_resent s.
Proof.
  unfold send_ping. destruct (c_dns s); [|cbn; auto].
  destruct (Hostname.packet_name _ _ _ _) as [[name n]|]; [|cbn; auto].
  match goal with |- context [send_query ?st name] => pose proof (send_query_keeps st name) as [A B] end.
  rewrite A, B. cbn. auto.
Qed.

Lemma send_chunk_keeps s :
  k_len (c_out (fst (send_chunk s))) = k_len (c_out s) /\ c_resent (fst (send_chunk s)) = c_resent s.
Proof.
  unfold send_chunk. destruct (Hostname.send_chunk_name _ _ _ _ _ _ _ _ _ _) as [[name n]|]; [|cbn; auto].
  match goal with |- context [send_query ?st name] => pose proof (send_query_keeps st name) as [A B] end.
  rewrite A, B. cbn. auto.
Qed.

(* one timeout while sending: either one more retransmission is counted, or the packet is given up *)
Lemma timeout_step s : is_sending s = true ->
  let s' := fst (timeout s) in
  (c_resent s < 3 -> is_sending s' = true /\ c_resent s' = c_resent s + 1) /\
  (3 <= c_resent s -> is_sending s' = false /\ c_resent s' = 0).
Proof.
  intros Hs. unfold timeout. rewrite Hs. cbn zeta.
  destruct (c_resent s <? 3) eqn:E.
  - split; [|lia]. intros _.
    pose proof (send_chunk_keeps (s <| c_resent := c_resent s + 1 |>)) as [A B].
    destruct (send_chunk (s <| c_resent := c_resent s + 1 |>)) as [s1 o]. cbn [fst] in *.
    unfold is_sending in *. cbn. rewrite A, B. cbn. split; [exact Hs|reflexivity].
  - split; [lia|]. intros _.
    match goal with |- context [send_ping ?st] => pose proof (send_ping_keeps st) as [A B]; destruct (send_ping st) as [s1 o] end.
    cbn [fst] in *. unfold is_sending. cbn. rewrite A, B. cbn. split; reflexivity.
Qed.

(* a timeout while not sending keeps the client not sending (it pings) *)
Lemma timeout_idle s : is_sending s = false -> is_sending (fst (timeout s)) = false.
Proof.
  intros Hs. unfold timeout. rewrite Hs.
  pose proof (send_ping_keeps s) as [A B]. destruct (send_ping s) as [s1 o]. cbn [fst] in *.
  unfold is_sending in *. cbn. rewrite A. exact Hs.
Qed.

Fixpoint timeouts (n : nat) (s : cstate) : cstate :=
  match n with O => s | S n' => timeouts n' (fst (timeout s)) end.

(* no wedge in the sending state: four consecutive timeouts always end it *)
Theorem client_gives_up_within_4_timeouts s : (c_resent s <= 3) -> is_sending (timeouts 4 s) = false.
Proof.
  intros Hr.
  assert (step : forall st, is_sending st = false -> forall n, is_sending (timeouts n st) = false).
  { intros st H n. revert st H. induction n as [|n IH]; intros st H; [exact H|]. cbn. apply IH, timeout_idle, H. }
  destruct (is_sending s) eqn:S0; [|apply step, S0].
  destruct (timeout_step s S0) as [A1 B1].
  destruct (c_resent s <? 3) eqn:E0.
  2:{ destruct (B1 ltac:(lia)) as [X _]. cbn [timeouts]. apply (step _ X 3%nat). }
  destruct (A1 ltac:(lia)) as [S1 R1]. cbn [timeouts].
  destruct (timeout_step _ S1) as [A2 B2].
  destruct (c_resent (fst (timeout s)) <? 3) eqn:E1.
  2:{ destruct (B2 ltac:(lia)) as [X _]. apply (step _ X 2%nat). }
  destruct (A2 ltac:(lia)) as [S2 R2].
  destruct (timeout_step _ S2) as [A3 B3].
  destruct (c_resent (fst (timeout (fst (timeout s)))) <? 3) eqn:E2.
  2:{ destruct (B3 ltac:(lia)) as [X _]. apply (step _ X 1%nat). }
  destruct (A3 ltac:(lia)) as [S3 R3].
  destruct (timeout_step _ S3) as [A4 B4].
  destruct (B4 ltac:(lia)) as [X _]. exact X.
Qed.

(* the select timeout is always armed with a positive, bounded value: the loop cannot sleep forever *)
Theorem select_timeout_bounded s : 0 < c_selecttimeout s ->
  0 < select_timeout_ms s /\
  select_timeout_ms s <= N.max (c_ping_soon s) (N.max 1000 (c_selecttimeout s * 1000)).
Proof.
  intros H. unfold select_timeout_ms.
  destruct (c_ping_soon s =? 0) eqn:E; cbn [negb]; [|lia].
  destruct (is_sending s); lia.
Qed.

End WithZlib.

(* ---- the select loop with the retransmit guard (ClientLoop.v) -------------------------------------- *)
From Iodine Require Import ClientLoop.

Section Loop.
Variable zc : list N -> list N.
Variable unz : list N -> option (list N).

(* an overdue wake-up of the loop (timeout, tun packet, or tun packet plus datagram) while a packet is in
   flight counts one retransmission, or gives the packet up after the third *)
Theorem overdue_wakeup_progress L e :
  let s1 := watchdog (l_c L) (lnow e) in
  c_running s1 = true -> is_sending s1 = true -> (l_lastchunk L + 1 < lnow e) ->
  match e with LDns _ _ => False | _ => True end ->
  match e with LBoth _ _ _ => reads_tun s1 = true | _ => True end ->
  let s' := l_c (fst (lstep zc unz L e)) in
  (c_resent s1 < 3 -> is_sending s' = true /\ c_resent s' = c_resent s1 + 1) /\
  (3 <= c_resent s1 -> is_sending s' = false /\ c_resent s' = 0).
Proof.
  intros s1 Hrun Hs Hov Hk Hb.
  rewrite (busy_tun_cannot_starve_retransmit zc unz L e Hrun Hs Hov Hk Hb).
  unfold lwrap. cbn [fst l_c]. exact (timeout_step s1 Hs).
Qed.

End Loop.
