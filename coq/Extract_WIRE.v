(* Extraction of the executable model used by the "wire" correspondence runs (C08, C09, C10,
   and the low-level checks). *)
From Coq Require Import Extraction ExtrOcamlBasic.
From Iodine Require Import Codec Hostname DnsName DnsMsg DnsWf Domain.
Extraction Language OCaml.
Set Extraction Optimize.
Extraction "extracted/model_wire.ml" DnsMsg.write_dns DnsMsg.client_extract DnsMsg.dns_decode_query
  DnsMsg.dns_encode_query DnsMsg.dns_get_id DnsMsg.aux_answer
  Hostname.send_chunk_name Hostname.packet_name Hostname.probe_name Hostname.unpack_data
  Hostname.version_data Hostname.login_data Hostname.ping_data Hostname.fragsize_data
  Hostname.handshake_name Hostname.upenctest_name Domain.query_datalen
  Codec.b32 Codec.b64 Codec.b64u Codec.b128 Codec.b32_5to8
  DnsWf.wf_msg DnsWf.dotted.
