(* ServerIsolationProofs.v -- session isolation in the iodined model (C04): refusal of requests from
   a foreign source, routing of tun packets and forwarded packets by tunnel address, slot ownership
   on allocation, expiry. *)
From Coq Require Import List NArith ZArith Arith Bool Lia.
From RecordUpdate Require Import RecordUpdate.
From Iodine Require Import Generated.SrcConsts Base Codec Hostname DnsName DnsMsg Domain Server
  ServerFrame ServerAuthDefs ServerAuthProofs ServerAuthSteps.
From Iodine Require Users UsersProofs.
Import ListNotations.
Local Open Scope N_scope.

(* ---- lookup by tunnel address: the owner is unique when the addresses are distinct ----------------- *)

Lemma nth_tun_ip st j : nth j (map u_tun_ip st) 0 = u_tun_ip (getu st j).
Proof. unfold getu. change 0 with (u_tun_ip (user_init 0)) at 1. apply map_nth. Qed.

Lemma routable_ip now ip u : routable now ip u = true -> u_tun_ip u = ip.
Proof.
  unfold routable. intros H. apply andb_true_iff in H. destruct H as [_ H]. apply N.eqb_eq in H. auto.
Qed.

Lemma routable_iff now ip u : routable now ip u = true <->
  u_active u = true /\ u_auth u = true /\ u_disabled u = false /\ now < u_last u + TIMEOUT /\ u_tun_ip u = ip.
Proof.
  unfold routable, live. rewrite !andb_true_iff, negb_true_iff, N.ltb_lt, N.eqb_eq.
  split; intros H; repeat split; try tauto; symmetry; tauto.
Qed.

Theorem fubi_unique st ip now t : NoDup (map u_tun_ip st) ->
  (find_user_by_ip st ip now = Some t <-> (t < length st)%nat /\ routable now ip (getu st t) = true) /\
  (find_user_by_ip st ip now = Some t ->
   forall j, (j < length st)%nat -> u_tun_ip (getu st j) = ip -> j = t).
Proof.
  intros Hnd.
  assert (Huniq : forall a b, (a < length st)%nat -> (b < length st)%nat ->
                   u_tun_ip (getu st a) = u_tun_ip (getu st b) -> a = b).
  { intros a b Ha Hb E. apply (proj1 (NoDup_nth (map u_tun_ip st) 0) Hnd);
      rewrite ?map_length; try assumption. rewrite !nth_tun_ip. exact E. }
  split; [split|].
  - intros H. destruct (fubi_some _ _ _ _ H) as (A & B & _). split; assumption.
  - intros [Ht Hr]. apply fubi_first; [exact Ht|exact Hr|]. intros j Hj.
    destruct (routable now ip (getu st j)) eqn:E; [|reflexivity]. exfalso.
    assert (j = t) by (apply Huniq; [lia|exact Ht|]; rewrite (routable_ip _ _ _ E), (routable_ip _ _ _ Hr); reflexivity).
    lia.
  - intros H j Hj Hip. destruct (fubi_some _ _ _ _ H) as (A & B & _).
    apply Huniq; [exact Hj|exact A|]. rewrite Hip, (routable_ip _ _ _ B). reflexivity.
Qed.

(* the same lookup as the one verified for C18 (Users.v), on the projection of the session record *)
Definition to_user (u : suser) : Users.user :=
  {| Users.u_active := if u_active u then 1 else 0; Users.u_auth := if u_auth u then 1 else 0;
     Users.u_disabled := if u_disabled u then 1 else 0; Users.u_last_pkt := u_last u;
     Users.u_tun_ip := u_tun_ip u |}.

Lemma hit_routable ip now u : Users.hit ip now (to_user u) = routable now ip u.
Proof.
  unfold Users.hit, Users.live, Users.truthy, routable, live, to_user, TIMEOUT. simpl.
  destruct (u_active u), (u_auth u), (u_disabled u); reflexivity.
Qed.

Lemma fubi_users st ip now : find_user_by_ip st ip now = Users.find_user_by_ip (map to_user st) ip now.
Proof.
  unfold find_user_by_ip, Users.find_user_by_ip. generalize O.
  induction st as [|u st IH]; intros n; simpl; [reflexivity|].
  rewrite hit_routable. unfold routable. destruct (_ && _ && _ && _ && _); [reflexivity|apply IH].
Qed.

Section WithOracles.
Variable login : list N -> N -> list N.
Variable zc : list N -> list N.
Variable unz : list N -> option (list N).

Notation step := (Server.step login zc unz).

(* ---- refusals at the level of a step ---------------------------------------------------------------- *)

Lemma named_cmd q dl uz : named_user q dl = Some uz ->
  let k := cmd_of (chr (req_inb q dl) 0) in k <> CV /\ k <> CZ /\ k <> CY /\ k <> COther.
Proof.
  cbv zeta. intros H. rewrite (named_of _ _ _ eq_refl) in H.
  destruct (cmd_of (chr (req_inb q dl) 0)); try discriminate; repeat split; discriminate.
Qed.

Theorem step_refused c st e now rnd q dl uz : dns_req c e now rnd q dl -> named_user q dl = Some uz ->
  cmd_check c st now (cmd_of (chr (req_inb q dl) 0)) uz (h_from q) = true ->
  step c st e = (st, refusal (precheck q dl) q).
Proof.
  intros (-> & Hd & Hdl) Hn Hc. simpl. rewrite (tunnel_dns_dispatch login unz c st now rnd q dl Hd).
  apply (hnr_refused login unz c st now rnd q dl uz Hdl Hn Hc).
Qed.

Theorem step_refused_basic c st e now rnd q dl uz : dns_req c e now rnd q dl -> named_user q dl = Some uz ->
  check_user_and_ip c st now uz (h_from q) = true ->
  step c st e = (st, refusal (precheck q dl) q).
Proof.
  intros Hr Hn Hc. destruct (named_cmd _ _ _ Hn) as (K1 & K2 & K3 & K4).
  apply (step_refused c st e now rnd q dl uz Hr Hn). apply cuip_true_cmd_check; assumption.
Qed.

Theorem step_refused_unauth c st e now rnd q dl uz : dns_req c e now rnd q dl -> named_user q dl = Some uz ->
  cmd_of (chr (req_inb q dl) 0) <> CL -> u_auth (getu st (Z.to_nat uz)) = false ->
  step c st e = (st, refusal (precheck q dl) q).
Proof.
  intros Hr Hn Hl Ha. destruct (named_cmd _ _ _ Hn) as (K1 & K2 & K3 & K4).
  apply (step_refused c st e now rnd q dl uz Hr Hn).
  destruct (cmd_check c st now (cmd_of (chr (req_inb q dl) 0)) uz (h_from q)) eqn:E; [reflexivity|].
  rewrite (cmd_check_false_auth _ _ _ _ _ _ K1 K2 K3 K4 Hl E) in Ha. discriminate.
Qed.

Theorem step_precheck c st e now rnd q dl o : dns_req c e now rnd q dl -> precheck q dl = Some o ->
  step c st e = (st, o).
Proof.
  intros (-> & Hd & Hdl) Hp. simpl. rewrite (tunnel_dns_dispatch login unz c st now rnd q dl Hd).
  apply (hnr_precheck login unz c st now rnd q dl o Hdl Hp).
Qed.

(* raw frames: the exact refusals *)
Lemma raw_hdr_fun pk v i v' i' : raw_hdr pk v i -> raw_hdr pk v' i' -> v = v' /\ i = i'.
Proof. intros (_ & _ & <- & <-) (_ & _ & <- & <-). split; reflexivity. Qed.

Theorem raw_refused c st now from pk v i : raw_hdr pk v i ->
  (v = src_RAW_HDR_CMD_LOGIN -> ~ raw_login_ok login c st now pk i) ->
  (v = src_RAW_HDR_CMD_DATA \/ v = src_RAW_HDR_CMD_PING ->
     check_auth c st now (Z.of_nat i) from = true \/ u_auth_raw (getu st i) = false) ->
  step c st (ERaw now from pk) = (st, []).
Proof.
  intros Hh Hl Hd. simpl.
  assert (D1 : src_RAW_HDR_CMD_LOGIN <> src_RAW_HDR_CMD_DATA) by (vm_compute; discriminate).
  assert (D2 : src_RAW_HDR_CMD_LOGIN <> src_RAW_HDR_CMD_PING) by (vm_compute; discriminate).
  assert (D3 : src_RAW_HDR_CMD_DATA <> src_RAW_HDR_CMD_PING) by (vm_compute; discriminate).
  destruct (raw_decode login unz c st now pk from) as [[st' outs]|] eqn:Er; [|reflexivity].
  apply raw_effect_spec in Er.
  destruct Er as [ | i0 Hh' Hok | i0 st' outs Hh' Hc Hr SS | i0 Hh' Hc Hr]; [reflexivity| | | ];
    destruct (raw_hdr_fun _ _ _ _ _ Hh Hh') as [-> ->]; exfalso.
  - exact (Hl eq_refl Hok).
  - destruct (Hd (or_introl eq_refl)); congruence.
  - destruct (Hd (or_intror eq_refl)); congruence.
Qed.

(* a datagram that is not a raw frame at all does nothing as ERaw *)
Theorem raw_not_frame c st now from pk :
  (length pk < 4)%nat \/ firstn 3 pk <> firstn 3 src_raw_header -> step c st (ERaw now from pk) = (st, []).
Proof.
  intros H. simpl. unfold raw_decode. destruct (length pk <? 4)%nat eqn:E4; [reflexivity|].
  destruct (negb (list_eqb (firstn 3 pk) (firstn 3 src_raw_header))) eqn:Eh; [reflexivity|].
  apply Nat.ltb_ge in E4. apply negb_false_iff, list_eqb_eq in Eh. destruct H; [lia|contradiction].
Qed.

(* ---- allocation ---------------------------------------------------------------------------------------- *)

Lemma avail_iff now u : avail now u = true <->
  (u_active u = false \/ u_last u + src_USER_TIMEOUT_AVAIL < now) /\ u_disabled u = false.
Proof.
  unfold avail. rewrite andb_true_iff, orb_true_iff, !negb_true_iff, N.ltb_lt. reflexivity.
Qed.

Theorem alloc_only_free c st e i : alloc_event c st e i ->
  exists now rnd q, e = EDns now rnd q /\ (i < length st)%nat /\
    (u_active (getu st i) = false \/ u_last (getu st i) + src_USER_TIMEOUT_AVAIL < now) /\
    u_disabled (getu st i) = false /\
    forall j, (j < i)%nat -> avail now (getu st j) = false.
Proof.
  intros (now & rnd & q & dl & (He & _) & _ & _ & Ef). exists now, rnd, q. split; [exact He|].
  destruct (faf_some _ _ _ Ef) as (A & B & C). apply avail_iff in B. tauto.
Qed.

(* a version request changes nothing but the slot it allocates *)
Theorem version_request_effect c st e now rnd q dl st' outs : dns_req c e now rnd q dl ->
  cmd_of (chr (req_inb q dl) 0) = CV -> step c st e = (st', outs) ->
  st' = st \/ exists i, alloc_event c st e i /\ forall j, j <> i -> getu st' j = getu st j.
Proof.
  intros Hr Ek H. pose proof Hr as (-> & Hd & Hdl).
  destruct (N.eq_dec (version_of (req_unpacked q dl)) src_PROTOCOL_VERSION) as [Ev|Ev].
  - destruct (find_available_from st now 0) as [i|] eqn:Ef.
    + right. exists i. destruct (alloc_result login zc unz _ _ _ _ _ _ _ _ _ Hr Ek Ev Ef H) as (_ & _ & _ & Ho).
      split; [|exact Ho]. exists now, rnd, q, dl. repeat split; assumption.
    + left. revert H. simpl. rewrite (tunnel_dns_dispatch login unz c st now rnd q dl Hd), hnr_eq. unfold hnr'.
      destruct (dl <? 2)%nat eqn:E; [apply Nat.ltb_lt in E; lia|]. cbv zeta. rewrite Ek. unfold hV. cbv zeta.
      rewrite Ev, N.eqb_refl, Ef. intros H; inversion H; reflexivity.
  - left. revert H. simpl. rewrite (tunnel_dns_dispatch login unz c st now rnd q dl Hd), hnr_eq. unfold hnr'.
    destruct (dl <? 2)%nat eqn:E; [apply Nat.ltb_lt in E; lia|]. cbv zeta. rewrite Ek. unfold hV. cbv zeta.
    apply N.eqb_neq in Ev. rewrite Ev. intros H; inversion H; reflexivity.
Qed.

(* an expired (or unused) slot that is not disabled can be handed out: the allocator finds it or an
   earlier one *)
Theorem expired_allocatable st now i : (i < length st)%nat -> avail now (getu st i) = true ->
  exists k, find_available_from st now 0 = Some k /\ (k <= i)%nat.
Proof.
  intros Hi Ha. destruct (find_available_from st now 0) as [k|] eqn:Ef.
  - exists k. split; [reflexivity|]. destruct (faf_some _ _ _ Ef) as (_ & _ & C).
    destruct (Nat.le_gt_cases k i) as [L|L]; [exact L|]. rewrite (C i L) in Ha. discriminate.
  - rewrite (faf_none _ _ Ef i Hi) in Ha. discriminate.
Qed.

(* ---- routing -------------------------------------------------------------------------------------------- *)

Theorem route_tun c st now pkt st' outs : step c st (ETun now pkt) = (st', outs) ->
  match route st now pkt with
  | None => st' = st /\ outs = []
  | Some t => length st' = length st /\ (forall j, j <> t -> getu st' j = getu st j) /\
              sec (getu st' t) = sec (getu st t) /\ Forall (out_for t (getu st t)) outs
  end.
Proof.
  simpl. intros H. apply tunnel_tun_spec in H. destruct pkt as [|b pkt]; [exact H|exact H].
Qed.

End WithOracles.
