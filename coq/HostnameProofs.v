(* HostnameProofs.v -- proofs about the upstream query-name builders (Hostname.v) for C08:
   inline_dotify's backward loop equals the forward "dot after every 57 chars" shape, undotify
   inverts it, build_hostname yields a legal name within the configured limit that ends in the
   tunnel domain, and the server-side extraction (dns_decode, query_datalen, unpack_data) gives
   back exactly the prefix of the payload that the builder reports.  Pure additions. *)
From Coq Require Import List NArith ZArith Arith Bool Lia ZifyBool ZifyNat ZifyN.
From Iodine Require Import Generated.SrcConsts Base Codec CodecProofs Hostname DnsName DnsNameProofs
  DnsMsg Domain DomainProofs.
Import ListNotations.
Local Open Scope N_scope.

Ltac Zify.zify_post_hook ::= Z.div_mod_to_equations.

(* ---------------------------------------------------------------------------------- *)
(* the source constants the proofs depend on                                            *)

Lemma period_build_57 : period_build = 57%nat. Proof. reflexivity. Qed.
Lemma period_dots_57 : period_dots = 57%nat. Proof. reflexivity. Qed.
Lemma period_pos_57 : period_pos = 57%nat. Proof. reflexivity. Qed.
Lemma reserve_8 : reserve = 8%nat. Proof. reflexivity. Qed.

Lemma period_consts :
  period_build = 57%nat /\ period_dots = 57%nat /\ period_pos = 57%nat /\ reserve = 8%nat /\
  label_max = 63%nat.
Proof. repeat split; reflexivity. Qed.

(* ---------------------------------------------------------------------------------- *)
(* list helpers                                                                         *)

Definition undot (s : list N) : list N := filter (fun ch => negb (ch =? DOT)) s.

Lemma undot_app a b : undot (a ++ b) = undot a ++ undot b.
Proof. apply filter_app. Qed.

Lemma undot_nodot s : ~ In DOT s -> undot s = s.
Proof.
  induction s as [|a s IH]; intros H; [reflexivity|].
  cbn [undot filter]. destruct (a =? DOT) eqn:E.
  - exfalso. apply H. left. apply N.eqb_eq in E. exact E.
  - cbn [negb]. f_equal. apply IH. intros Hin. apply H. right. exact Hin.
Qed.

Lemma last_app_nonnil {A} (a b : list A) d : b <> [] -> last (a ++ b) d = last b d.
Proof.
  intros Hb. induction a as [|x a IH]; [reflexivity|].
  cbn [app]. destruct (a ++ b) as [|y t] eqn:E.
  - destruct a; [cbn in E; congruence|discriminate].
  - cbn [last]. exact IH.
Qed.

Lemma last_In {A} (s : list A) d : s <> [] -> In (last s d) s.
Proof.
  intros H. rewrite (app_removelast_last d H) at 2. apply in_or_app. right. left. reflexivity.
Qed.

Lemma nth_firstn_lt {A} (d : A) : forall n i (s : list A), (i < n)%nat -> nth i (firstn n s) d = nth i s d.
Proof.
  induction n as [|n IH]; intros i s H; [lia|].
  destruct s as [|a s]; [destruct i; reflexivity|].
  destruct i as [|i]; [reflexivity|]. cbn [firstn nth]. apply IH. lia.
Qed.

Lemma nth_skipn_add {A} (d : A) : forall n i (s : list A), nth i (skipn n s) d = nth (n + i) s d.
Proof.
  induction n as [|n IH]; intros i s; [reflexivity|].
  destruct s as [|a s]; [destruct i; reflexivity|]. cbn [skipn Nat.add nth]. apply IH.
Qed.

(* ---------------------------------------------------------------------------------- *)
(* the forward shape dotify_spec (p = 57)                                               *)

Lemma dotify_spec_S f s :
  dotify_spec (S f) 57 s =
  if (length s <? 57)%nat then s else firstn 57 s ++ DOT :: dotify_spec f 57 (skipn 57 s).
Proof. reflexivity. Qed.

Lemma dotify_spec_small f s : (length s < 57)%nat -> dotify_spec f 57 s = s.
Proof.
  intros H. destruct f; [reflexivity|]. rewrite dotify_spec_S.
  assert (E : (length s <? 57)%nat = true) by lia. rewrite E. reflexivity.
Qed.

Lemma dotify_spec_nil f : dotify_spec f 57 [] = [].
Proof. apply dotify_spec_small. simpl. lia. Qed.

Lemma dotify_spec_big f s : (57 <= length s)%nat ->
  dotify_spec (S f) 57 s = firstn 57 s ++ DOT :: dotify_spec f 57 (skipn 57 s).
Proof.
  intros H. rewrite dotify_spec_S.
  assert (E : (length s <? 57)%nat = false) by lia. rewrite E. reflexivity.
Qed.

(* any sufficient fuel gives the same result *)
Lemma dotify_spec_fuel : forall f1 f2 s, (length s <= f1)%nat -> (length s <= f2)%nat ->
  dotify_spec f1 57 s = dotify_spec f2 57 s.
Proof.
  induction f1 as [|f1 IH]; intros f2 s H1 H2.
  - destruct s; [|simpl in H1; lia]. rewrite !dotify_spec_nil. reflexivity.
  - destruct (Nat.lt_ge_cases (length s) 57) as [Hs|Hs].
    + rewrite !dotify_spec_small by exact Hs. reflexivity.
    + destruct f2 as [|f2]; [lia|]. rewrite !dotify_spec_big by exact Hs.
      f_equal. f_equal. apply IH; rewrite skipn_length; lia.
Qed.

(* appending one character on the right *)
Lemma dotify_spec_snoc : forall f s ch, (length s < f)%nat ->
  dotify_spec f 57 (s ++ [ch]) =
  dotify_spec f 57 s ++ ch :: (if (S (length s) mod 57 =? 0)%nat then [DOT] else []).
Proof.
  induction f as [|f IH]; intros s ch Hf; [lia|].
  destruct (Nat.lt_ge_cases (S (length s)) 57) as [Hs|Hs].
  - rewrite !dotify_spec_small by (rewrite ?app_length; cbn [length]; lia).
    assert (E : (S (length s) mod 57 =? 0)%nat = false) by lia. rewrite E. reflexivity.
  - destruct (Nat.eq_dec (S (length s)) 57) as [He|Hne].
    + rewrite dotify_spec_big by (rewrite app_length; cbn [length]; lia).
      rewrite firstn_all2, skipn_all2, dotify_spec_nil by (rewrite app_length; cbn [length]; lia).
      rewrite dotify_spec_small by lia.
      assert (E : (S (length s) mod 57 =? 0)%nat = true) by lia. rewrite E.
      rewrite <- app_assoc. reflexivity.
    + rewrite !dotify_spec_big by (rewrite ?app_length; cbn [length]; lia).
      rewrite firstn_app, skipn_app.
      replace (57 - length s)%nat with 0%nat by lia.
      change (firstn 0 [ch]) with (@nil N). change (skipn 0 [ch]) with [ch]. rewrite app_nil_r.
      rewrite IH by (rewrite skipn_length; lia).
      rewrite skipn_length.
      replace (S (length s - 57) mod 57 =? 0)%nat with (S (length s) mod 57 =? 0)%nat by lia.
      rewrite <- app_assoc. reflexivity.
Qed.

(* ---------------------------------------------------------------------------------- *)
(* the backward in-place loop of inline_dotify equals the forward shape                 *)

Lemma dotify_back_spec : forall rs r acc, length rs = r ->
  dotify_back rs r (r / 57) acc = dotify_spec r 57 (List.rev rs) ++ acc.
Proof.
  induction rs as [|ch rest IH]; intros r acc Hr.
  - cbn [length] in Hr. subst r. reflexivity.
  - cbn [length] in Hr. destruct r as [|r']; [discriminate|]. injection Hr as Hr.
    cbn [List.rev].
    destruct (S r' / 57)%nat as [|d] eqn:Ed.
    + cbn [dotify_back List.rev]. rewrite dotify_spec_small; [reflexivity|].
      rewrite app_length, rev_length. cbn [length]. lia.
    + cbn [dotify_back]. rewrite period_pos_57.
      assert (Hlr : (length (List.rev rest) < S r')%nat) by (rewrite rev_length; lia).
      rewrite (dotify_spec_snoc (S r') (List.rev rest) ch Hlr). rewrite rev_length, Hr.
      rewrite (dotify_spec_fuel (S r') r' (List.rev rest)) by (rewrite rev_length; lia).
      destruct (S r' mod 57 =? 0)%nat eqn:Em.
      * cbn [Nat.pred]. destruct d as [|d'].
        -- cbn [List.rev]. rewrite dotify_spec_small by (rewrite rev_length; lia).
           rewrite <- !app_assoc. reflexivity.
        -- replace (S d') with (r' / 57)%nat by lia.
           rewrite (IH r' (ch :: DOT :: acc) Hr). rewrite <- app_assoc. reflexivity.
      * cbn [Nat.pred]. replace (S d) with (r' / 57)%nat by lia.
        rewrite (IH r' (ch :: acc) Hr). rewrite <- app_assoc. reflexivity.
Qed.

(* inline_dotify(buf, buflen) when the dotted string fits *)
Lemma inline_dotify_spec s buflen : (length s + length s / 57 <= buflen)%nat ->
  inline_dotify s buflen = Some (dotify_spec (length s) 57 s).
Proof.
  intros H. unfold inline_dotify. rewrite period_dots_57.
  assert (E : (buflen <? length s + length s / 57)%nat = false) by lia. rewrite E.
  rewrite (dotify_back_spec (List.rev s) (length s) []) by apply rev_length.
  rewrite rev_involutive, app_nil_r. reflexivity.
Qed.

Lemma inline_dotify_none s buflen : (buflen < length s + length s / 57)%nat ->
  inline_dotify s buflen = None.
Proof.
  intros H. unfold inline_dotify. rewrite period_dots_57.
  assert (E : (buflen <? length s + length s / 57)%nat = true) by lia. rewrite E. reflexivity.
Qed.

(* ---------------------------------------------------------------------------------- *)
(* properties of the dotted string                                                      *)

Lemma dotify_spec_length : forall f s, (length s <= f)%nat ->
  length (dotify_spec f 57 s) = (length s + length s / 57)%nat.
Proof.
  induction f as [|f IH]; intros s Hf.
  - destruct s; [reflexivity|simpl in Hf; lia].
  - destruct (Nat.lt_ge_cases (length s) 57) as [Hs|Hs].
    + rewrite dotify_spec_small by exact Hs. lia.
    + rewrite dotify_spec_big by exact Hs. rewrite app_length, firstn_length. cbn [length].
      rewrite IH by (rewrite skipn_length; lia). rewrite skipn_length. lia.
Qed.

Lemma dotify_spec_undot : forall f s, undot (dotify_spec f 57 s) = undot s.
Proof.
  induction f as [|f IH]; intros s; [reflexivity|].
  rewrite dotify_spec_S. destruct (length s <? 57)%nat; [reflexivity|].
  rewrite undot_app. change (undot (DOT :: ?x)) with (undot x). cbn [undot filter].
  change (negb (DOT =? DOT)) with false. cbv iota. fold (undot (dotify_spec f 57 (skipn 57 s))).
  rewrite IH, <- undot_app, firstn_skipn. reflexivity.
Qed.

(* character by character: position i holds a dot exactly when i = 57 (mod 58), otherwise the
   source character with index i - i/58 *)
Lemma dotify_spec_nth : forall f s i, (length s <= f)%nat -> (i < length (dotify_spec f 57 s))%nat ->
  nth i (dotify_spec f 57 s) 0 =
  if (i mod 58 =? 57)%nat then DOT else nth (i - i / 58) s 0.
Proof.
  induction f as [|f IH]; intros s i Hf Hi.
  - destruct s; [simpl in Hi; lia|simpl in Hf; lia].
  - rewrite dotify_spec_length in Hi by exact Hf.
    destruct (Nat.lt_ge_cases (length s) 57) as [Hs|Hs].
    + rewrite dotify_spec_small by exact Hs.
      assert (E : (i mod 58 =? 57)%nat = false) by lia. rewrite E. f_equal. lia.
    + rewrite dotify_spec_big by exact Hs.
      assert (Hfl : length (firstn 57 s) = 57%nat) by (rewrite firstn_length; lia).
      destruct (Nat.lt_ge_cases i 57) as [Hi1|Hi1].
      * rewrite app_nth1 by lia. rewrite nth_firstn_lt by exact Hi1.
        assert (E : (i mod 58 =? 57)%nat = false) by lia. rewrite E. f_equal. lia.
      * rewrite app_nth2 by lia. rewrite Hfl.
        destruct (Nat.eq_dec i 57) as [->|Hne]; [reflexivity|].
        replace (i - 57)%nat with (S (i - 58)) by lia. cbn [nth].
        rewrite IH by (rewrite ?dotify_spec_length, ?skipn_length; rewrite ?skipn_length; lia).
        replace ((i - 58) mod 58 =? 57)%nat with (i mod 58 =? 57)%nat by lia.
        destruct (i mod 58 =? 57)%nat; [reflexivity|].
        rewrite nth_skipn_add. f_equal. lia.
Qed.

(* the dotted string with its terminating dot (build_hostname appends one when the last
   character is not a dot) is the groups of at most 57 characters, each followed by a dot *)
Lemma dotted_groups : forall f s, s <> [] -> ~ In DOT s -> (length s <= f)%nat ->
  exists gs, gs <> [] /\
    (let X := dotify_spec f 57 s in if last X 0 =? DOT then X else X ++ [DOT]) =
      concat (map (fun g => g ++ [DOT]) gs) /\
    concat gs = s /\ Forall (fun g => (1 <= length g <= 57)%nat) gs.
Proof.
  induction f as [|f IH]; intros s Hne Hnd Hf.
  - destruct s; [congruence|simpl in Hf; lia].
  - cbv zeta. destruct (Nat.lt_ge_cases (length s) 57) as [Hs|Hs].
    + rewrite dotify_spec_small by exact Hs. exists [s].
      assert (E : (last s 0 =? DOT) = false).
      { apply N.eqb_neq. intros E. apply Hnd. rewrite <- E. apply last_In, Hne. }
      rewrite E. cbn [map concat]. rewrite !app_nil_r.
      split; [discriminate|]. split; [reflexivity|]. split; [reflexivity|].
      constructor; [|constructor]. destruct s; [congruence|cbn [length] in *; lia].
    + rewrite dotify_spec_big by exact Hs.
      destruct (Nat.eq_dec (length s) 57) as [He|Hne57].
      * rewrite firstn_all2, skipn_all2, dotify_spec_nil by lia. exists [s].
        rewrite last_last. change (DOT =? DOT) with true. cbv iota. cbn [map concat]. rewrite !app_nil_r.
        repeat split; [discriminate|constructor; [lia|constructor]].
      * assert (Hne' : skipn 57 s <> []).
        { intros E. apply (f_equal (@length N)) in E. rewrite skipn_length in E. simpl in E. lia. }
        assert (Hnd' : ~ In DOT (skipn 57 s)).
        { intros Hin. apply Hnd. rewrite <- (firstn_skipn 57 s). apply in_or_app. right. exact Hin. }
        assert (Hf' : (length (skipn 57 s) <= f)%nat) by (rewrite skipn_length; lia).
        destruct (IH _ Hne' Hnd' Hf') as [gs [G1 [G2 [G3 G4]]]]. cbv zeta in G2.
        set (Y := dotify_spec f 57 (skipn 57 s)) in *.
        assert (HY : Y <> []).
        { intros E. apply (f_equal (@length N)) in E. unfold Y in E.
          rewrite dotify_spec_length in E by exact Hf'. rewrite skipn_length in E. simpl in E. lia. }
        exists (firstn 57 s :: gs).
        replace (firstn 57 s ++ DOT :: Y) with ((firstn 57 s ++ [DOT]) ++ Y) by (rewrite <- app_assoc; reflexivity).
        rewrite last_app_nonnil by exact HY.
        cbn [map concat]. rewrite <- G2, G3, firstn_skipn.
        repeat split; [discriminate| |constructor; [rewrite firstn_length; lia|exact G4]].
        destruct (last Y 0 =? DOT); rewrite <- ?app_assoc; reflexivity.
Qed.

Lemma undot_groups gs : Forall (fun g => ~ In DOT g) gs ->
  undot (concat (map (fun g => g ++ [DOT]) gs)) = concat gs.
Proof.
  induction 1 as [|g gs Hg Hgs IH]; [reflexivity|].
  cbn [map concat]. rewrite !undot_app, IH, (undot_nodot g Hg).
  change (undot [DOT]) with (@nil N). rewrite app_nil_r. reflexivity.
Qed.

Lemma concat_groups_end gs : gs <> [] ->
  exists p, concat (map (fun g : list N => g ++ [DOT]) gs) = p ++ [DOT].
Proof.
  induction gs as [|g gs IH]; intros H; [congruence|].
  destruct gs as [|g' gs'].
  - exists g. cbn [map concat]. rewrite app_nil_r. reflexivity.
  - destruct (IH ltac:(discriminate)) as [p Hp]. exists ((g ++ [DOT]) ++ p).
    change (concat (map (fun g0 : list N => g0 ++ [DOT]) (g :: g' :: gs')))
      with ((g ++ [DOT]) ++ concat (map (fun g0 : list N => g0 ++ [DOT]) (g' :: gs'))).
    rewrite Hp, <- !app_assoc. reflexivity.
Qed.

(* groups followed by a dotted domain: one join_dot *)
Lemma groups_join gs dls : dls <> [] ->
  concat (map (fun g => g ++ [DOT]) gs) ++ join_dot dls = join_dot (gs ++ dls).
Proof.
  intros Hd. induction gs as [|g gs IH]; [reflexivity|].
  cbn [map concat app]. rewrite <- !app_assoc, IH.
  destruct (gs ++ dls) as [|x t] eqn:E.
  - destruct gs; [cbn in E; congruence|discriminate].
  - rewrite join_dot_cons2. reflexivity.
Qed.

Lemma In_join_dot x l : forall ls, In l ls -> In x l -> In x (join_dot ls).
Proof.
  induction ls as [|m ls IH]; intros Hl Hx; [destruct Hl|].
  destruct ls as [|m' ls'].
  - destruct Hl as [->|[]]. exact Hx.
  - rewrite join_dot_cons2. apply in_or_app. destruct Hl as [->|Hl]; [left; exact Hx|].
    right. right. apply IH; assumption.
Qed.

(* ---------------------------------------------------------------------------------- *)
(* characters of the encoded text: no NUL, no dot                                       *)

Definition clean (ch : N) : Prop := ch <> 0 /\ ch <> DOT.
Definition cleanb (ch : N) : bool := negb (ch =? 0) && negb (ch =? DOT).

Lemma cleanb_clean ch : cleanb ch = true <-> clean ch.
Proof. unfold cleanb, clean. lia. Qed.

(* header characters in front of the encoded data: any bytes except NUL and '.' *)
Definition hdr_ok (hdr : list N) : Prop := forallb cleanb hdr = true.

Lemma hdr_ok_clean hdr : hdr_ok hdr -> Forall clean hdr.
Proof.
  unfold hdr_ok. rewrite forallb_forall, Forall_forall. intros H x Hx. apply cleanb_clean, H, Hx.
Qed.

(* no symbol of the alphabet is a dot *)
Definition dotfreeb (c : codec) : bool :=
  forallb (fun v => negb (sym c v =? DOT)) (nrange (N.to_nat (2 ^ cbits c))).

Lemma dotfree_b32 : dotfreeb b32 = true. Proof. vm_compute. reflexivity. Qed.
Lemma dotfree_b64 : dotfreeb b64 = true. Proof. vm_compute. reflexivity. Qed.
Lemma dotfree_b64u : dotfreeb b64u = true. Proof. vm_compute. reflexivity. Qed.
Lemma dotfree_b128 : dotfreeb b128 = true. Proof. vm_compute. reflexivity. Qed.

Lemma sym_clean c v : wfb c = true -> dotfreeb c = true -> v < 2 ^ cbits c -> clean (sym c v).
Proof.
  intros Hwf Hdf Hv. split.
  - apply (sym_facts c Hwf v Hv).
  - pose proof (sweep1 _ _ Hdf v) as H. cbv beta in H.
    assert (Hv' : v < N.of_nat (N.to_nat (2 ^ cbits c))) by lia. specialize (H Hv'). lia.
Qed.

Lemma encode_clean c : wfb c = true -> dotfreeb c = true ->
  forall cap d, Forall clean (fst (encode c cap d)).
Proof.
  intros Hwf Hdf cap d. pose proof (enc_go_alpha c cap 0 d) as HA. unfold encode.
  rewrite Forall_forall in *. intros x Hx. destruct (HA x Hx) as [v [Hv ->]].
  apply sym_clean; assumption.
Qed.

Lemma clean_nodot s : Forall clean s -> ~ In DOT s.
Proof. rewrite Forall_forall. intros H Hin. destruct (H _ Hin) as [_ H2]. congruence. Qed.

Lemma clean_nz s : Forall clean s -> ~ In 0 s.
Proof. rewrite Forall_forall. intros H Hin. destruct (H _ Hin) as [H1 _]. congruence. Qed.

(* ---------------------------------------------------------------------------------- *)
(* build_hostname                                                                       *)

(* the encoder capacity build_hostname computes: (L - |d| - 8) minus one per 57 *)
Definition bh_space (L dlen : nat) : nat := ((L - dlen - 8) - (L - dlen - 8) / 57)%nat.

(* the dotted data part, with the dot that precedes the domain *)
Definition dotted_part (e : list N) : list N :=
  let X := dotify_spec (length e) 57 e in if last X 0 =? DOT then X else X ++ [DOT].

Lemma dotted_part_length e : (length (dotted_part e) <= length e + length e / 57 + 1)%nat.
Proof.
  unfold dotted_part. cbv zeta. destruct (_ =? DOT); rewrite ?app_length, dotify_spec_length by lia;
    cbn [length]; lia.
Qed.

Definition enc_text (c : codec) (d data : list N) (L : nat) : list N :=
  fst (encode c (bh_space L (length d)) data).
Definition enc_count (c : codec) (d data : list N) (L : nat) : nat :=
  snd (encode c (bh_space L (length d)) data).

(* the domain leaves at least 24 characters: capacity for at least 2 encoded characters *)
Lemma bh_space_ge L dlen : (dlen + 24 <= L)%nat -> (16 <= bh_space L dlen)%nat.
Proof. intros H. unfold bh_space. lia. Qed.

Lemma enc_facts c d data L :
  wfb c = true -> dotfreeb c = true -> (length d + 24 <= L)%nat -> (L <= 255)%nat -> data <> [] ->
  (1 <= enc_count c d data L <= length data)%nat /\
  (1 <= length (enc_text c d data L) <= bh_space L (length d))%nat /\
  (enc_count c d data L <= 255)%nat /\ Forall clean (enc_text c d data L).
Proof.
  intros Hwf Hdf HdL HL Hne.
  pose proof (bh_space_ge L (length d) HdL) as Hsp.
  destruct (enc_exact c Hwf (bh_space L (length d)) data) as [G1 [G2 [G3 [G4 G5]]]].
  fold (enc_text c d data L) (enc_count c d data L) in G1, G2, G3, G4, G5.
  pose proof (k_ok c Hwf) as Hk.
  assert (Hdl : (1 <= length data)%nat) by (destruct data; [congruence|simpl; lia]).
  assert (Hn1 : (1 <= enc_count c d data L)%nat).
  { destruct (enc_count c d data L) as [|m] eqn:En; [|lia].
    assert (Hlt : (0 < length data)%nat) by lia. specialize (G5 Hlt).
    unfold enclen in G5. destruct Hk as [E|[E|E]]; rewrite E in G5; simpl in G5; lia. }
  assert (HLs : (bh_space L (length d) <= 255)%nat) by (unfold bh_space; lia).
  split; [lia|]. split; [|split; [|apply encode_clean; assumption]].
  - split; [|exact G1]. rewrite G3. unfold enclen. destruct Hk as [E|[E|E]]; rewrite E; lia.
  - destruct Hk as [E|[E|E]]; rewrite E in G4; lia.
Qed.

(* build_hostname never fails in the stated range, and its result has this shape *)
Lemma build_hostname_eq c d data L buflen :
  wfb c = true -> dotfreeb c = true -> (length d + 24 <= L)%nat -> (L <= 255)%nat -> (L <= buflen)%nat ->
  data <> [] ->
  build_hostname c buflen data d L =
  Some (dotted_part (enc_text c d data L) ++ d, enc_count c d data L).
Proof.
  intros Hwf Hdf HdL HL Hbuf Hne.
  destruct (enc_facts c d data L Hwf Hdf HdL HL Hne) as [_ [[_ He] _]].
  unfold build_hostname. rewrite reserve_8, period_build_57.
  rewrite Nat.min_l by lia.
  assert (E : (L <? length d + 8)%nat = false) by lia. rewrite E.
  change (L - length d - 8 - (L - length d - 8) / 57)%nat with (bh_space L (length d)).
  fold (enc_text c d data L) (enc_count c d data L).
  rewrite inline_dotify_spec by (unfold bh_space in He; lia).
  reflexivity.
Qed.

(* the data part as groups of at most 57 characters *)
Lemma dotted_part_groups c d data L :
  wfb c = true -> dotfreeb c = true -> (length d + 24 <= L)%nat -> (L <= 255)%nat -> data <> [] ->
  exists g1 gs,
    dotted_part (enc_text c d data L) = concat (map (fun g => g ++ [DOT]) (g1 :: gs)) /\
    concat (g1 :: gs) = enc_text c d data L /\
    Forall (fun g => (1 <= length g <= 57)%nat) (g1 :: gs).
Proof.
  intros Hwf Hdf HdL HL Hne.
  destruct (enc_facts c d data L Hwf Hdf HdL HL Hne) as [_ [[He1 _] [_ Hcl]]].
  assert (Hne' : enc_text c d data L <> []).
  { destruct (enc_text c d data L); [simpl in He1; lia|discriminate]. }
  destruct (dotted_groups (length (enc_text c d data L)) (enc_text c d data L) Hne'
              (clean_nodot _ Hcl) (le_n _)) as [gs [G1 [G2 [G3 G4]]]].
  destruct gs as [|g1 gs]; [congruence|]. exists g1, gs. repeat split; assumption.
Qed.

(* ---------------------------------------------------------------------------------- *)
(* the server's view of the domain                                                      *)

Lemma ci_eq_refl a : ci_eq a a.
Proof. left. reflexivity. Qed.

Lemma ci_eql_refl x : ci_eql x x.
Proof. induction x; constructor; [apply ci_eq_refl|assumption]. Qed.

(* the server domain [sd] is the client's domain [d] up to ASCII case, or a wildcard "*.r" whose
   remainder matches [d] after [d]'s first label *)
Definition serves (sd d : list N) : Prop :=
  ci_eql d sd \/
  exists lbl r r', sd = ch_star :: ch_dot :: r /\ d = lbl ++ ch_dot :: r' /\ ~ In ch_dot lbl /\ ci_eql r' r.

Lemma serves_refl d : serves d d.
Proof. left. apply ci_eql_refl. Qed.

Lemma valid_domain_facts d : check_topdomain d false = true ->
  (3 <= length d <= 128)%nat /\ Forall dom_char d /\
  exists dls, d = join_dot dls /\ Forall (fun l => ~ In ch_dot l) dls /\ (2 <= length dls)%nat /\
              Forall (fun l => (1 <= length l <= 63)%nat) dls.
Proof.
  intros H. apply check_topdomain_iff in H. destruct H as [H1 [[H2|[H2 _]] H3]]; [|discriminate].
  repeat split; try assumption; lia.
Qed.

Lemma dom_char_clean0 x : dom_char x -> x <> 0.
Proof. unfold dom_char, ch_dash, ch_dot. lia. Qed.

Lemma serves_dom_match sd d : check_topdomain d false = true -> serves sd d -> dom_match d sd.
Proof.
  intros Hd Hs. destruct (valid_domain_facts d Hd) as [Hlen [Hch [dls [Ej [Hnd [Hn2 Hl63]]]]]].
  destruct Hs as [Hci|[lbl [r [r' [Es [Ed [Hnl Hci]]]]]]].
  - left. split; [|exact Hci].
    destruct d as [|a d']; [simpl in Hlen; lia|]. inversion Hci as [|? b ? sd' Hab Hrest]; subst.
    inversion Hch as [|? ? Ha _]; subst. cbn [hd].
    unfold ci_eq in Hab. unfold dom_char, ch_dash, ch_dot in Ha. unfold ch_star. lia.
  - right. exists (ch_dot :: r), lbl, (ch_dot :: r'). repeat split.
    + exact Es.
    + exact Ed.
    + intros ->. cbn [app] in Ed.
      destruct dls as [|l dls]; [simpl in Hn2; lia|]. destruct dls as [|l2 dls]; [simpl in Hn2; lia|].
      pose proof (Forall_inv Hnd) as Hnl1. pose proof (Forall_inv Hl63) as Hl1. cbv beta in Hnl1, Hl1.
      assert (Hl1' : l <> []) by (destruct l; [simpl in Hl1; lia|discriminate]).
      pose proof (join_dot_hd_nodot l (l2 :: dls) Hnl1 Hl1') as Hh. rewrite <- Ej, Ed in Hh.
      apply Hh. reflexivity.
    + exact Hnl.
    + apply Forall_dom_nostar. rewrite Ed in Hch. apply Forall_app in Hch. apply Hch.
    + constructor; [apply ci_eq_refl|exact Hci].
Qed.

(* ---------------------------------------------------------------------------------- *)
(* the complete statement about one upstream query name                                 *)

(* [full] is the query name (header of [h] characters + build_hostname's output), [n] the number
   of payload bytes the builder reports *)
Definition upstream_ok (c : codec) (h : nat) (d sd data : list N) (L : nat) (full : list N) (n : nat) : Prop :=
  (* within the limit, ends in the tunnel domain, legal labels, accepted by putname *)
  (length full <= L - 2)%nat /\
  (exists front, full = front ++ DOT :: d) /\
  (exists ls, full = join_dot ls /\ qname_ok ls /\ (length (hd [] ls) <= h + 57)%nat /\
      putname (length full) full = Some (wire_of ls) /\
      length (wire_of ls) = (length full + 2)%nat /\ (length (wire_of ls) <= 255)%nat) /\
  (* a non-empty prefix of the payload *)
  (1 <= n <= length data)%nat /\
  (* the server gets the name back from the datagram ... *)
  (forall pktlen edns0 id ty residue, (512 <= pktlen)%nat -> id < 65536 -> ty < 65536 ->
     exists dg, dns_encode_query pktlen edns0 id ty full = Some dg /\
       dns_decode_query (dg ++ residue) (length dg) =
       {| dq_rv := Z.of_nat (length full);
          dq_q := Some {| q_name := full; q_type := ty; q_id := id |} |}) /\
  (* ... recognises the domain, and extracts exactly the reported prefix *)
  (let dl := (length full - length d)%nat in
   query_datalen full sd = Some dl /\
   unpack_data c buf64k (skipn h (firstn dl full)) (dl - h) = firstn n data).

Theorem build_upstream_ok c d sd data L buflen hdr name n :
  wfb c = true -> dotfreeb c = true ->
  check_topdomain d false = true -> (length d + 24 <= L)%nat -> (L <= 255)%nat -> (L <= buflen)%nat ->
  bytes_ok data -> data <> [] ->
  hdr_ok hdr -> (length hdr <= 5)%nat ->
  check_topdomain sd true = true -> serves sd d ->
  build_hostname c buflen data d L = Some (name, n) ->
  upstream_ok c (length hdr) d sd data L (hdr ++ name) n.
Proof.
  intros Hwf Hdf Hd HdL HL Hbuf Hdata Hne Hhdr Hh5 Hsd Hserves Hb.
  rewrite (build_hostname_eq c d data L buflen Hwf Hdf HdL HL Hbuf Hne) in Hb.
  injection Hb as Hname Hn. symmetry in Hname, Hn.
  destruct (enc_facts c d data L Hwf Hdf HdL HL Hne) as [Hn1 [[He1 He2] [Hn255 Hcl]]].
  destruct (dotted_part_groups c d data L Hwf Hdf HdL HL Hne) as [g1 [gs [G2 [G3 G4]]]].
  destruct (valid_domain_facts d Hd) as [Hdlen [Hdch [dls [Ej [Hdnd [Hd2 Hd63]]]]]].
  set (e := enc_text c d data L) in *. set (n0 := enc_count c d data L) in *.
  pose proof (dotted_part_length e) as HXl.
  set (X := dotted_part e) in *.
  pose proof (hdr_ok_clean hdr Hhdr) as Hhc.
  assert (Hdls : dls <> []) by (destruct dls; [simpl in Hd2; lia|discriminate]).
  (* the name as a list of labels *)
  set (ls := ((hdr ++ g1) :: gs) ++ dls).
  assert (Hfull : hdr ++ name = join_dot ls).
  { rewrite Hname, G2. cbn [map concat]. rewrite Ej. unfold ls.
    rewrite <- (groups_join ((hdr ++ g1) :: gs) dls Hdls). cbn [map concat].
    rewrite <- !app_assoc. reflexivity. }
  assert (Hflen : length (hdr ++ name) = (length hdr + length X + length d)%nat).
  { rewrite Hname, !app_length. lia. }
  assert (Hlim : (length (hdr ++ name) <= L - 2)%nat).
  { rewrite Hflen. unfold bh_space in He2. lia. }
  (* every character of the groups is a character of the encoded text *)
  assert (Hgin : forall g, In g (g1 :: gs) -> forall x, In x g -> In x e).
  { intros g Hg x Hx. rewrite <- G3. apply in_concat. exists g. split; assumption. }
  assert (Hecl : forall x, In x e -> clean x) by (rewrite Forall_forall in Hcl; exact Hcl).
  assert (Hhcl : forall x, In x hdr -> clean x) by (rewrite Forall_forall in Hhc; exact Hhc).
  assert (Hq : qname_ok ls).
  { unfold qname_ok. rewrite <- Hfull. split; [|split; [|split; [|lia]]].
    - unfold ls. apply Forall_app. split; [|exact Hd63].
      inversion G4 as [|? ? Hg1 Hgs]; subst. constructor.
      + unfold len_ok. rewrite app_length. lia.
      + eapply Forall_impl; [|exact Hgs]. intros g Hg. cbv beta in Hg. unfold len_ok. lia.
    - unfold ls. apply Forall_app. split; [|exact Hdnd].
      rewrite Forall_forall. intros g [<-|Hg] Hin.
      + apply in_app_or in Hin. destruct Hin as [Hin|Hin].
        * destruct (Hhcl _ Hin) as [_ H2]. apply H2. reflexivity.
        * destruct (Hecl _ (Hgin g1 (or_introl eq_refl) _ Hin)) as [_ H2]. apply H2. reflexivity.
      + destruct (Hecl _ (Hgin g (or_intror Hg) _ Hin)) as [_ H2]. apply H2. reflexivity.
    - unfold ls. apply Forall_app. split.
      + rewrite Forall_forall. intros g [<-|Hg] Hin.
        * apply in_app_or in Hin. destruct Hin as [Hin|Hin].
          -- destruct (Hhcl _ Hin) as [H1 _]. apply H1. reflexivity.
          -- destruct (Hecl _ (Hgin g1 (or_introl eq_refl) _ Hin)) as [H1 _]. apply H1. reflexivity.
        * destruct (Hecl _ (Hgin g (or_intror Hg) _ Hin)) as [H1 _]. apply H1. reflexivity.
      + rewrite Forall_forall. intros l Hl Hin.
        assert (H0 : In 0 d) by (rewrite Ej; apply (In_join_dot 0 l dls Hl Hin)).
        rewrite Forall_forall in Hdch. apply (dom_char_clean0 0 (Hdch _ H0)). reflexivity. }
  destruct Hq as [Hq1 [Hq2 [Hq3 Hq4]]].
  pose proof (conj Hq1 (conj Hq2 (conj Hq3 Hq4))) as Hq.
  destruct (putname_ok ls (length (join_dot ls)) (len_ok_lab_ok ls Hq1 Hq2) (len_ok_63 ls Hq1) Hq3 (le_n _))
    as [Hput Hwl].
  assert (Hls : ls <> []) by (unfold ls; discriminate).
  specialize (Hwl Hls).
  (* the part before the domain ends with a dot *)
  destruct (concat_groups_end (g1 :: gs) ltac:(discriminate)) as [p Hp]. rewrite <- G2 in Hp. fold X in Hp.
  unfold upstream_ok. split; [exact Hlim|]. split.
  { exists (hdr ++ p). rewrite Hname, Hp, <- !app_assoc. reflexivity. }
  split.
  { exists ls. split; [exact Hfull|]. split; [exact Hq|]. split.
    - unfold ls. cbn [app hd]. rewrite app_length. inversion G4; subst. lia.
    - rewrite Hfull. split; [exact Hput|]. split; [exact Hwl|]. rewrite Hwl, <- Hfull. lia. }
  split; [rewrite Hn; exact Hn1|].
  split.
  { intros pktlen edns0 id ty residue Hpk Hid Hty. rewrite Hfull.
    apply dns_query_roundtrip; try assumption. rewrite <- Hfull. lia. }
  cbv zeta.
  assert (Hdl : (length (hdr ++ name) - length d)%nat = length (hdr ++ X)).
  { rewrite Hflen, app_length. lia. }
  rewrite Hdl. split.
  - apply (query_datalen_complete _ sd true _ Hsd).
    exists (hdr ++ X), d. split; [rewrite Hname, <- app_assoc; reflexivity|]. split; [reflexivity|].
    split; [right; exists (hdr ++ p); rewrite Hp, <- app_assoc; reflexivity|].
    apply serves_dom_match; assumption.
  - rewrite Hname, app_assoc, firstn_app, firstn_all, Nat.sub_diag. cbn [firstn]. rewrite app_nil_r.
    rewrite skipn_pre_app, app_length.
    replace (length hdr + length X - length hdr)%nat with (length X) by lia.
    unfold unpack_data, inline_undotify. rewrite firstn_all. fold (undot X).
    rewrite G2, undot_groups, G3.
    + rewrite Hn. apply (roundtrip c Hwf); [exact Hdata|].
      change (snd (encode c (bh_space L (length d)) data)) with n0. unfold buf64k. lia.
    + rewrite Forall_forall. intros g Hg Hin. destruct (Hecl _ (Hgin g Hg _ Hin)) as [_ H2]. apply H2. reflexivity.
Qed.

(* the whole payload is carried when its encoding fits the capacity; in particular every message
   of at most 10 bytes (version, ping, set-fragment-size) with Base32, whatever L and the domain *)
Lemma build_complete c d data L buflen name n :
  wfb c = true -> dotfreeb c = true ->
  (length d + 24 <= L)%nat -> (L <= 255)%nat -> (L <= buflen)%nat -> data <> [] ->
  (enclen (cbits c) (length data) <= bh_space L (length d))%nat ->
  build_hostname c buflen data d L = Some (name, n) -> n = length data.
Proof.
  intros Hwf Hdf HdL HL Hbuf Hne Hfit Hb.
  rewrite (build_hostname_eq c d data L buflen Hwf Hdf HdL HL Hbuf Hne) in Hb.
  injection Hb as _ Hn. rewrite <- Hn. unfold enc_count.
  apply (enc_full c Hwf _ _ Hfit).
Qed.

(* ---------------------------------------------------------------------------------- *)
(* dots of the dotted string, as an equivalence                                         *)

Lemma dotify_spec_dot_iff s i : ~ In DOT s ->
  (i < length (dotify_spec (length s) 57 s))%nat ->
  (nth i (dotify_spec (length s) 57 s) 0 = DOT <-> (i mod 58 = 57)%nat).
Proof.
  intros Hnd Hi. rewrite dotify_spec_nth by (exact Hi || lia).
  rewrite dotify_spec_length in Hi by lia.
  destruct (i mod 58 =? 57)%nat eqn:E.
  - split; [intros _; lia|reflexivity].
  - split; [|lia]. intros Hx. exfalso. apply Hnd. rewrite <- Hx. apply nth_In. lia.
Qed.

(* ---------------------------------------------------------------------------------- *)
(* the client's builders                                                                *)

Lemma b32_5to8_clean v : clean (b32_5to8 v).
Proof.
  unfold b32_5to8. apply sym_clean; [exact wfb_b32|exact dotfree_b32|].
  change (2 ^ cbits b32) with 32. apply N.mod_lt. lia.
Qed.

Lemma userid_char_clean u : clean (userid_char u).
Proof. unfold userid_char, clean, DOT. destruct (u <? 10) eqn:E; lia. Qed.

Lemma cmc_char_clean i : (i < 36)%nat -> clean (nth i cmc_chars 0).
Proof.
  intros Hi. apply cleanb_clean.
  assert (H : forallb cleanb cmc_chars = true) by reflexivity.
  rewrite forallb_forall in H. apply H, nth_In. exact Hi.
Qed.

Lemma hdr_ok_of_clean hdr : Forall clean hdr -> hdr_ok hdr.
Proof.
  unfold hdr_ok. rewrite forallb_forall, Forall_forall. intros H x Hx. apply cleanb_clean, H, Hx.
Qed.

Lemma chunk_header_ok userid out_seq out_frag in_seq in_frag last cmc : (cmc < 36)%nat ->
  hdr_ok (chunk_header userid out_seq out_frag in_seq in_frag last cmc) /\
  length (chunk_header userid out_seq out_frag in_seq in_frag last cmc) = 5%nat.
Proof.
  intros Hc. split; [|reflexivity]. apply hdr_ok_of_clean. unfold chunk_header.
  repeat constructor; try apply b32_5to8_clean; try apply userid_char_clean; try apply cmc_char_clean;
    try exact Hc; try discriminate.
Qed.

Lemma probe_header_ok userid fragsize :
  hdr_ok (probe_header userid fragsize) /\ length (probe_header userid fragsize) = 5%nat.
Proof.
  split; [|reflexivity]. apply hdr_ok_of_clean. unfold probe_header. cbv zeta.
  repeat constructor; try apply b32_5to8_clean; discriminate.
Qed.

Lemma probe_data_ok rand_seed : bytes_ok (probe_data rand_seed) /\ probe_data rand_seed <> [].
Proof.
  split; [|discriminate]. unfold probe_data, bytes_ok. cbv zeta.
  assert (Ha : byte_ok (N.max 1 (rand_seed mod 256))) by (unfold byte_ok; lia).
  constructor; [exact Ha|]. constructor; [unfold byte_ok; lia|].
  rewrite Forall_forall. intros x Hx. apply repeat_spec in Hx. subst x. exact Ha.
Qed.

Lemma seed_bytes_ok rs : bytes_ok (seed_bytes rs).
Proof. unfold seed_bytes, bytes_ok. repeat constructor; unfold byte_ok; lia. Qed.

Lemma version_data_ok version rs : bytes_ok (version_data version rs) /\ version_data version rs <> [] /\
  length (version_data version rs) = 6%nat.
Proof.
  split; [|split; [discriminate|reflexivity]].
  unfold version_data, seed_bytes, bytes_ok. repeat constructor; unfold byte_ok; lia.
Qed.

Lemma ping_data_ok userid in_seq in_frag rs : userid < 256 ->
  bytes_ok (ping_data userid in_seq in_frag rs) /\ ping_data userid in_seq in_frag rs <> [] /\
  length (ping_data userid in_seq in_frag rs) = 4%nat.
Proof.
  intros Hu. split; [|split; [discriminate|reflexivity]].
  unfold ping_data, seed_bytes, bytes_ok. repeat constructor; unfold byte_ok; lia.
Qed.

Lemma fragsize_data_ok userid fragsize rs : userid < 256 ->
  bytes_ok (fragsize_data userid fragsize rs) /\ fragsize_data userid fragsize rs <> [] /\
  length (fragsize_data userid fragsize rs) = 5%nat.
Proof.
  intros Hu. split; [|split; [discriminate|reflexivity]].
  unfold fragsize_data, seed_bytes, bytes_ok. repeat constructor; unfold byte_ok; lia.
Qed.

Lemma login_data_ok userid login rs : userid < 256 -> bytes_ok login ->
  bytes_ok (login_data userid login rs) /\ login_data userid login rs <> [] /\
  length (login_data userid login rs) = 19%nat.
Proof.
  intros Hu Hl. split; [|split; [discriminate|]].
  - unfold login_data, bytes_ok. constructor; [exact Hu|]. apply Forall_app. split; [|apply seed_bytes_ok].
    apply bytes_ok_firstn. apply Forall_app. split; [exact Hl|].
    rewrite Forall_forall. intros x Hx. apply repeat_spec in Hx. subst x. unfold byte_ok. lia.
  - unfold login_data. cbn [length]. rewrite app_length, firstn_length, app_length, repeat_length.
    cbn [seed_bytes length]. lia.
Qed.

Lemma le_255_4091 L : (L <= 255)%nat -> (L <= 4091)%nat.
Proof.
  intros H. apply (Nat.le_trans _ 255); [exact H|]. apply Nat.leb_le. vm_compute. reflexivity.
Qed.

Lemma le_255_4095 L : (L <= 255)%nat -> (L <= 4095)%nat.
Proof.
  intros H. apply (Nat.le_trans _ 255); [exact H|]. apply Nat.leb_le. vm_compute. reflexivity.
Qed.

Lemma upstream_ok_h c h h' d sd data L full n : h = h' ->
  upstream_ok c h d sd data L full n -> upstream_ok c h' d sd data L full n.
Proof. intros ->. exact (fun x => x). Qed.

Section Builders.
Variables (d sd : list N) (L : nat).
Hypothesis Hd : check_topdomain d false = true.
Hypothesis HdL : (length d + 24 <= L)%nat.
Hypothesis HL : (L <= 255)%nat.
Hypothesis Hsd : check_topdomain sd true = true.
Hypothesis Hserves : serves sd d.

(* send_chunk: 5 header characters, the connection's upstream codec *)
Theorem send_chunk_upstream_ok c userid out_seq out_frag in_seq in_frag cmc data full n :
  wfb c = true -> dotfreeb c = true -> bytes_ok data -> data <> [] -> (cmc < 36)%nat ->
  send_chunk_name c userid out_seq out_frag in_seq in_frag cmc data d L = Some (full, n) ->
  upstream_ok c 5 d sd data L full n.
Proof using Hd HdL HL Hsd Hserves.
  intros Hwf Hdf Hdata Hne Hcmc H. unfold send_chunk_name in H.
  destruct (build_hostname c 4091 data d L) as [[nm n']|] eqn:Eb; [|discriminate].
  injection H as <- <-.
  destruct (chunk_header_ok userid out_seq out_frag in_seq in_frag (Nat.eqb n' (length data)) cmc Hcmc)
    as [Hh Hl].
  pose proof (build_upstream_ok c d sd data L 4091 _ nm n' Hwf Hdf Hd HdL HL (le_255_4091 L HL) Hdata Hne
                Hh (Nat.eq_le_incl _ _ Hl) Hsd Hserves Eb) as R.
  exact (upstream_ok_h _ _ _ _ _ _ _ _ _ Hl R).
Qed.

(* the same for explicitly given header characters (chunk_name) *)
Theorem chunk_upstream_ok c hdr data full n :
  wfb c = true -> dotfreeb c = true -> bytes_ok data -> data <> [] ->
  hdr_ok hdr -> length hdr = 5%nat ->
  chunk_name c hdr data d L = Some (full, n) ->
  upstream_ok c 5 d sd data L full n.
Proof using Hd HdL HL Hsd Hserves.
  intros Hwf Hdf Hdata Hne Hh Hl H. unfold chunk_name in H.
  destruct (build_hostname c 4091 data d L) as [[nm n']|] eqn:Eb; [|discriminate].
  injection H as <- <-.
  pose proof (build_upstream_ok c d sd data L 4091 _ nm n' Hwf Hdf Hd HdL HL (le_255_4091 L HL) Hdata Hne
                Hh (Nat.eq_le_incl _ _ Hl) Hsd Hserves Eb) as R.
  exact (upstream_ok_h _ _ _ _ _ _ _ _ _ Hl R).
Qed.

(* send_fragsize_probe: 5 header characters, 256 probe bytes *)
Theorem probe_upstream_ok c userid fragsize rand_seed full n :
  wfb c = true -> dotfreeb c = true ->
  probe_name c userid fragsize rand_seed d L = Some (full, n) ->
  upstream_ok c 5 d sd (probe_data rand_seed) L full n.
Proof using Hd HdL HL Hsd Hserves.
  intros Hwf Hdf H. unfold probe_name in H.
  destruct (build_hostname c 4091 (probe_data rand_seed) d L) as [[nm n']|] eqn:Eb; [|discriminate].
  injection H as <- <-.
  destruct (probe_header_ok userid fragsize) as [Hh Hl]. destruct (probe_data_ok rand_seed) as [Hb Hne].
  pose proof (build_upstream_ok c d sd _ L 4091 _ nm n' Hwf Hdf Hd HdL HL (le_255_4091 L HL) Hb Hne
                Hh (Nat.eq_le_incl _ _ Hl) Hsd Hserves Eb) as R.
  exact (upstream_ok_h _ _ _ _ _ _ _ _ _ Hl R).
Qed.

(* send_packet: one command character, Base32 *)
Theorem packet_upstream_ok cmd data full n :
  clean cmd -> bytes_ok data -> data <> [] ->
  packet_name cmd data d L = Some (full, n) ->
  upstream_ok b32 1 d sd data L full n.
Proof using Hd HdL HL Hsd Hserves.
  intros Hc Hdata Hne H. unfold packet_name in H.
  destruct (build_hostname b32 4095 data d L) as [[nm n']|] eqn:Eb; [|discriminate].
  injection H as <- <-.
  change (cmd :: nm) with ([cmd] ++ nm).
  assert (Hh : hdr_ok [cmd]) by (apply hdr_ok_of_clean; constructor; [exact Hc|constructor]).
  assert (Hl5 : (length [cmd] <= 5)%nat) by (cbn [length]; repeat constructor).
  exact (build_upstream_ok b32 d sd data L 4095 [cmd] nm n' wfb_b32 dotfree_b32 Hd HdL HL (le_255_4095 L HL)
           Hdata Hne Hh Hl5 Hsd Hserves Eb).
Qed.

(* messages of at most 10 bytes are carried whole *)
Theorem packet_small_complete cmd data full n :
  data <> [] -> (length data <= 10)%nat ->
  packet_name cmd data d L = Some (full, n) -> n = length data.
Proof using HdL HL.
  clear Hd Hsd Hserves.
  intros Hne Hlen H. unfold packet_name in H.
  destruct (build_hostname b32 4095 data d L) as [[nm n']|] eqn:Eb; [|discriminate].
  injection H as _ <-.
  apply (build_complete b32 d data L 4095 nm n' wfb_b32 dotfree_b32 HdL HL); try assumption.
  - apply le_255_4095, HL.
  - pose proof (bh_space_ge L (length d) HdL) as Hsp.
    unfold enclen. change (cbits b32) with 5. clear Eb. lia.
Qed.

(* every builder produces a name in the stated range *)
Theorem builders_total c data : wfb c = true -> dotfreeb c = true -> data <> [] ->
  (exists nm n, build_hostname c 4091 data d L = Some (nm, n)) /\
  (exists nm n, build_hostname c 4095 data d L = Some (nm, n)).
Proof using HdL HL.
  clear Hd Hsd Hserves.
  intros Hwf Hdf Hne. split; eexists; eexists; apply build_hostname_eq; try assumption.
  - apply le_255_4091, HL.
  - apply le_255_4095, HL.
Qed.

End Builders.
