(* C10Examples.v -- computed examples for the C10 theorems: the hypotheses are satisfiable on
   non-trivial values, the emitted message is computed by the model and parsed by wf_msg; and
   two boundary cases that explain hypotheses (root question name, over-long domain). *)
From Coq Require Import List NArith Arith Bool Lia.
From Iodine Require Import Base Codec Hostname DnsName DnsMsg DnsWf DnsWfProofs DnsEmitProofs DnsAuxProofs.
Import ListNotations.
Local Open Scope N_scope.

(* non-vacuity: a two-label name with a high byte and a 63-byte label *)
Example C10_query_wf_example :
  wf_labels [[112; 233; 65]; repeat 120 63; [99; 111; 109]] /\
  exists m, dns_encode_query 4096 true 8727 10 (name_of [[112; 233; 65]; repeat 120 63; [99; 111; 109]]) = Some m /\
            wf_msgb m = true.
Proof.
  split.
  - split; [|vm_compute; lia].
    repeat constructor; cbn; try lia; intros H; repeat (destruct H as [H|H]; [discriminate|]); exact H.
  - eexists. split; vm_compute; reflexivity.
Qed.

(* non-vacuity: an MX answer; the 400-byte payload needs two records (Base128: 214 bytes per name) *)
Example C10_answer_wf_example :
  let q := {| q_name := name_of [[112; 97; 113]; [116]; [99; 111; 109]]; q_type := T_MX; q_id := 65535 |} in
  exists m, fst (write_dns q (repeat 255 400) 86 (0, 0)%nat) = Some m /\
            option_map (fun msg => (length (m_answers msg), map rr_type (m_answers msg))) (wf_msg m) = Some (2%nat, [15; 15]).
Proof. eexists. split; vm_compute; reflexivity. Qed.

(* the root question is outside the theorem (ls <> []): the owner pointer 0xC00C would then point
   at the root byte, which is not a label start; the server never answers the root name
   (query_datalen fails for it) *)
Example C10_answer_root_not_wf :
  exists m, fst (write_dns {| q_name := []; q_type := T_NULL; q_id := 1 |} [1; 2] 84 (0, 0)%nat) = Some m /\ wf_msg m = None.
Proof. eexists. split; vm_compute; reflexivity. Qed.

Example C10_ns_example :
  let q := {| q_name := name_of [[88]; [89]; [84]; [69; 120]; [67; 79; 77]]; q_type := T_NS; q_id := 7 |} in
  exists m, aux_answer q 4 (Some [192; 0; 2; 7]) None = Some m /\
    option_map (fun msg => (map rr_rdname (m_answers msg), map rr_name (m_additional msg), map rr_rdata (m_additional msg))) (wf_msg m) =
    Some ([Some [[110; 115]; [84]; [69; 120]; [67; 79; 77]]], [[[110; 115]; [84]; [69; 120]; [67; 79; 77]]], [[192; 0; 2; 7]]).
Proof. eexists. split; vm_compute; reflexivity. Qed.

(* "ns." ++ d of more than 253 characters cannot be a legal name: why C10_ns needs wire_len ld <= 252 *)
Example C10_ns_long_domain_not_wf :
  let d := [repeat 97 63; repeat 98 63; repeat 99 63; repeat 100 61] in
  wf_labels d /\
  exists m, aux_answer {| q_name := name_of d; q_type := T_NS; q_id := 7 |} 0 None None = Some m /\ wf_msg m = None.
Proof.
  split; [|eexists; split; vm_compute; reflexivity].
  split; [|vm_compute; lia].
  repeat constructor; try (vm_compute; lia); intros H; apply repeat_spec in H; discriminate.
Qed.

Example C10_a_example :
  exists m, aux_answer {| q_name := name_of [[87; 119; 87]; [116]; [99; 111; 109]]; q_type := T_A; q_id := 9 |} 4 None None = Some m /\
            option_map (fun msg => map rr_rdata (m_answers msg)) (wf_msg m) = Some [[127; 0; 0; 1]].
Proof. eexists. split; vm_compute; reflexivity. Qed.
