(* Properties_C20.v -- final statements for property C20 (forwarded non-tunnel queries get
   their reply routed back to the asker).  Only statements, each closed by exact/apply of lemmas
   from FwQueryProofs.v, with Print Assumptions beneath.  The property's "16" is the literal 16
   here; the lemmas are stated for fw_size = N.to_nat src_FW_QUERY_CACHE_SIZE and the side
   condition [fw_size = 16] is discharged by reflexivity from the regenerated constant, so a
   change of FW_QUERY_CACHE_SIZE in the source breaks this file.

   Vocabulary: a put is (address, id); [fw_run ps] is the ring after the puts [ps] (oldest first)
   from fw_query_init; [lastn 16 ps] are the 16 most recent puts; [zero_entry] is a slot never
   written since fw_query_init (address length 0, id 0). *)
From Coq Require Import List NArith Arith Lia Permutation.
From Iodine Require Import Base Generated.SrcConsts FwQuery FwQueryProofs.
Import ListNotations.
Local Open Scope N_scope.

Lemma C20_size_is_16 : fw_size = 16%nat.
Proof. reflexivity. Qed.

(* refinement to the abstract specification "the last 16 puts": the array is the window
   W = (zero slots while fewer than 16 puts) ++ (last 16 puts, oldest first), rotated so that the
   [length ps mod 16] newest puts come first; the write index is [length ps mod 16] *)
Theorem C20_ring_holds_last_n : forall ps : list entry,
  let r := (length ps mod 16)%nat in
  let W := repeat zero_entry (16 - length ps) ++ lastn 16 ps in
  length (entries (fw_run ps)) = 16%nat /\
  entries (fw_run ps) = skipn (16 - r) W ++ firstn (16 - r) W /\
  ix (fw_run ps) = r /\
  Permutation (entries (fw_run ps)) W.
Proof.
  intros ps. cbv zeta. split; [exact (entries_length ps)|]. exact (ring_holds_window ps).
Qed.
Print Assumptions C20_ring_holds_last_n.

(* the precise sufficient condition: (a,id) is one of the last 16 puts and every one of the last
   16 puts that carries this id carries this address.  No condition on id = 0 is needed: while
   fewer than 16 puts were made the written slots precede the zero slots in array order. *)
Theorem C20_recent : forall (ps : list entry) (a : addr) (id : N),
  In (a, id) (lastn 16 ps) ->
  (forall a', In (a', id) (lastn 16 ps) -> a' = a) ->
  fw_get (fw_run ps) id = Some a.
Proof. exact get_recent. Qed.
Print Assumptions C20_recent.

(* as the property words it: the id is distinct among the 16 most recent puts *)
Theorem C20_recent_distinct : forall (ps : list entry) (a : addr) (id : N),
  In (a, id) (lastn 16 ps) ->
  count_occ N.eq_dec (map snd (lastn 16 ps)) id = 1%nat ->
  fw_get (fw_run ps) id = Some a.
Proof.
  intros ps a id Hin Hc. apply get_recent; [exact Hin|].
  intros a' Hin'. exact (count_one_unique _ a a' id Hc Hin Hin').
Qed.
Print Assumptions C20_recent_distinct.

(* exact answer for every id, reused or not: array order.  With r = length ps mod 16, the OLDEST
   of the r newest puts carrying the id; if none of them does, the oldest of the remaining 16 - r
   window items (zero slots first while fewer than 16 puts were made). *)
Theorem C20_get_array_order : forall (ps : list entry) (id : N),
  let r := (length ps mod 16)%nat in
  let W := repeat zero_entry (16 - length ps) ++ lastn 16 ps in
  fw_get (fw_run ps) id =
  match first_match id (lastn r ps) with
  | Some a => Some a
  | None => first_match id (firstn (16 - r) W)
  end.
Proof. exact get_array_order. Qed.
Print Assumptions C20_get_array_order.

(* a lookup never yields an address that did not ask with that id among the last 16 puts; the
   only other result is the zero address (length 0) of a never-written slot, for id 0 *)
Theorem C20_no_misroute : forall (ps : list entry) (a : addr) (id : N),
  fw_get (fw_run ps) id = Some a ->
  In (a, id) (lastn 16 ps) \/ (id = 0 /\ a = zero_addr /\ (length ps < 16)%nat).
Proof. exact get_no_misroute. Qed.
Print Assumptions C20_no_misroute.

(* an id that matches no remembered query: dropped, or (id 0, ring not yet full) the zero address *)
Theorem C20_unknown_id : forall (ps : list entry) (id : N),
  (forall a, ~ In (a, id) (lastn 16 ps)) ->
  fw_get (fw_run ps) id = None \/
  (id = 0 /\ (length ps < 16)%nat /\ fw_get (fw_run ps) id = Some zero_addr).
Proof.
  intros ps id Hn. destruct (fw_get (fw_run ps) id) as [a|] eqn:Hg; [right|left; reflexivity].
  destruct (get_no_misroute ps a id Hg) as [Hin|(H0 & Ha & Hk)]; [exfalso; exact (Hn a Hin)|].
  subst a. repeat split; assumption.
Qed.
Print Assumptions C20_unknown_id.

Theorem C20_miss_means_forgotten : forall (ps : list entry) (id : N),
  fw_get (fw_run ps) id = None ->
  (forall a, ~ In (a, id) (lastn 16 ps)) /\ (id = 0 -> (16 <= length ps)%nat).
Proof. exact get_none. Qed.
Print Assumptions C20_miss_means_forgotten.

(* datagram level.  (1) forward_query: the asker is remembered under the query's id and exactly
   one datagram goes to the local DNS port; read back as a DNS question it has the same id, the
   same name (byte for byte, case preserved) and the same type.  (2) tunnel_bind: whatever is sent
   is the reply's bytes unchanged, to the address the ring returns for the reply's id. *)
Theorem C20_relay_same_query : forall (st : fwstate) (q : query) (ls : list (list N)),
  wf_labelsb ls = true -> q_name q = join_dots ls -> q_id q < 65536 -> q_type q < 65536 ->
  fst (forward st q) = fw_put st (q_from q, q_id q) /\
  exists b, snd (forward st q) = [(ToLocalDns, b)] /\ parse_query b = Some (q_id q, ls, q_type q).
Proof.
  intros st q ls Hw Hn Hid Hty. split; [reflexivity|].
  exists (encode_query (q_id q) (q_type q) (q_name q)). split; [reflexivity|].
  rewrite Hn. apply parse_encode; assumption.
Qed.
Print Assumptions C20_relay_same_query.

Theorem C20_relay_same_reply : forall (st : fwstate) (pkt : list N) (d : dest) (b : list N),
  In (d, b) (bind_reply st pkt) ->
  b = pkt /\ exists a, d = ToAddr a /\ fw_get st (get_id pkt) = Some a /\
                       bind_reply st pkt = [(ToAddr a, pkt)].
Proof. exact bind_reply_sends. Qed.
Print Assumptions C20_relay_same_reply.

(* both halves under the name used in DESIGN.md *)
Theorem C20_relay_same :
  (forall (st : fwstate) (q : query) (ls : list (list N)),
     wf_labelsb ls = true -> q_name q = join_dots ls -> q_id q < 65536 -> q_type q < 65536 ->
     fst (forward st q) = fw_put st (q_from q, q_id q) /\
     exists b, snd (forward st q) = [(ToLocalDns, b)] /\ parse_query b = Some (q_id q, ls, q_type q)) /\
  (forall (st : fwstate) (pkt : list N) (d : dest) (b : list N),
     In (d, b) (bind_reply st pkt) ->
     b = pkt /\ exists a, d = ToAddr a /\ fw_get st (get_id pkt) = Some a /\
                          bind_reply st pkt = [(ToAddr a, pkt)]).
Proof. split; [exact C20_relay_same_query|exact C20_relay_same_reply]. Qed.
Print Assumptions C20_relay_same.

(* the property end to end, over any history of forwarded queries and replies from start-up:
   for a query among the 16 most recent forwarded ones whose id is distinct among them, a reply
   bearing that id is sent unchanged to the address that asked, and to nobody else *)
Theorem C20_reply_to_asker : forall (evs : list event) (q : query) (pkt : list N),
  In (q_from q, q_id q) (lastn 16 (puts_of evs)) ->
  count_occ N.eq_dec (map snd (lastn 16 (puts_of evs))) (q_id q) = 1%nat ->
  pkt <> [] -> get_id pkt = q_id q ->
  bind_reply (run_events evs) pkt = [(ToAddr (q_from q), pkt)].
Proof.
  intros evs q pkt Hin Hc Hne Hid. rewrite run_events_puts, bind_reply_spec.
  destruct pkt as [|x pkt]; [congruence|]. rewrite Hid.
  rewrite (C20_recent_distinct (puts_of evs) (q_from q) (q_id q) Hin Hc). reflexivity.
Qed.
Print Assumptions C20_reply_to_asker.

(* ... and a reply is never sent to an address that did not ask with the reply's id among the 16
   most recent forwarded queries (the zero address of length 0 names no destination) *)
Theorem C20_reply_no_misroute : forall (evs : list event) (pkt : list N) (d : dest) (b : list N),
  In (d, b) (bind_reply (run_events evs) pkt) ->
  b = pkt /\ exists a, d = ToAddr a /\
    (In (a, get_id pkt) (lastn 16 (puts_of evs)) \/
     (get_id pkt = 0 /\ a = zero_addr /\ (length (puts_of evs) < 16)%nat)).
Proof.
  intros evs pkt d b H. destruct (bind_reply_sends _ _ _ _ H) as (Hb & a & Hd & Hg & _).
  split; [exact Hb|]. exists a. split; [exact Hd|].
  rewrite run_events_puts in Hg. exact (get_no_misroute _ _ _ Hg).
Qed.
Print Assumptions C20_reply_no_misroute.

(* ---------------------------------------------------------------------------------- *)
(* non-vacuity and observations                                                         *)

Definition ad (n : N) : addr := mkaddr 16 [2; 0; n / 256; n mod 256; 10; 0; n mod 256; 1].
Definition puts_ids (ids : list N) : list entry :=
  map (fun p => (ad (N.of_nat (fst p)), snd p)) (combine (seq 1 (length ids)) ids).

(* the scenario of tests/fw_query.c: empty cache misses; one entry hits; after 16 puts the first
   is still cached; the 17th put overwrites it *)
Definition ut_addr (k : N) : addr := mkaddr (33 + k) [].
Definition ut_puts (n : nat) : list entry := map (fun k => (ut_addr k, 33930 + k)) (nrange n).
Example C20_unit_test_scenario :
  fw_get fw_init 33930 = None /\
  fw_get (fw_run (ut_puts 1)) 33930 = Some (ut_addr 0) /\
  fw_get (fw_run (ut_puts 16)) 33930 = Some (ut_addr 0) /\
  fw_get (fw_run (ut_puts 17)) 33930 = None /\
  fw_get (fw_run (ut_puts 17)) (33930 + 16) = Some (ut_addr 16) /\
  ix (fw_run (ut_puts 17)) = 1%nat.
Proof. vm_compute. repeat split; reflexivity. Qed.

(* more than 16 outstanding: 40 puts with ids 1..40; exactly the last 16 are answered *)
Example C20_wrap_around :
  let ps := puts_ids (map N.of_nat (seq 1 40)) in
  length ps = 40%nat /\
  fw_get (fw_run ps) 24 = None /\ fw_get (fw_run ps) 25 = Some (ad 25) /\
  fw_get (fw_run ps) 40 = Some (ad 40) /\ fw_get (fw_run ps) 0 = None /\
  ix (fw_run ps) = 8%nat /\
  (* the hypotheses of C20_recent_distinct hold for put 25 *)
  nth_error (lastn 16 ps) 0 = Some (ad 25, 25) /\
  count_occ N.eq_dec (map snd (lastn 16 ps)) 25 = 1%nat.
Proof. vm_compute. repeat split; reflexivity. Qed.

(* id reuse inside the window (outside the property's "distinct ids"): array order decides.
   Without wrap the OLDER asker gets the reply; after the index wrapped the newer one may. *)
Example C20_reuse_first_index :
  fw_get (fw_run (puts_ids [5; 5])) 5 = Some (ad 1) /\
  fw_get (fw_run (puts_ids [5; 7; 5; 5])) 5 = Some (ad 1) /\
  (* 17 puts: ids 1..16, then id 2 again: slot 0 now holds put 17 and precedes put 2 in slot 1 *)
  fw_get (fw_run (puts_ids (map N.of_nat (seq 1 16) ++ [2]))) 2 = Some (ad 17) /\
  (* 18 puts: ids 1..16, then 9, then 16: slot 1 (put 18) precedes slot 15 (put 16) *)
  fw_get (fw_run (puts_ids (map N.of_nat (seq 1 16) ++ [9; 16]))) 16 = Some (ad 18) /\
  (* 18 puts: ids 1..16, 9, 9: first index holding 9 is slot 0 = put 17, not the newest put 18 *)
  fw_get (fw_run (puts_ids (map N.of_nat (seq 1 16) ++ [9; 9]))) 9 = Some (ad 17).
Proof. vm_compute. repeat split; reflexivity. Qed.

(* id 0 and the zero slots: before 16 puts a lookup of id 0 that nobody asked with yields the
   zero address (length 0); a real asker with id 0 takes precedence; after 16 puts it misses *)
Example C20_id_zero :
  fw_get fw_init 0 = Some zero_addr /\
  fw_get (fw_run (puts_ids [3; 0; 4])) 0 = Some (ad 2) /\
  fw_get (fw_run (puts_ids [3; 4])) 0 = Some zero_addr /\
  fw_get (fw_run (puts_ids (map N.of_nat (seq 1 16)))) 0 = None.
Proof. vm_compute. repeat split; reflexivity. Qed.

(* datagram level: www.Example.com, type MX(15), id 0xBEEF from 10.0.7.1 *)
Definition ex_labels : list (list N) := [[119; 119; 119]; [69; 120; 97; 109; 112; 108; 101]; [99; 111; 109]].
Definition ex_query : query := mkquery 48879 15 (join_dots ex_labels) (ad 7).
Example C20_relay_example :
  wf_labelsb ex_labels = true /\
  snd (forward fw_init ex_query) =
    [(ToLocalDns, [190; 239; 1; 0; 0; 1; 0; 0; 0; 0; 0; 1;
                   3; 119; 119; 119; 7; 69; 120; 97; 109; 112; 108; 101; 3; 99; 111; 109; 0;
                   0; 15; 0; 1; 0; 0; 41; 16; 0; 0; 0; 128; 0; 0; 0])] /\
  bind_reply (fst (forward fw_init ex_query)) [190; 239; 129; 128; 0; 1; 0; 0; 0; 0; 0; 0; 7; 7] =
    [(ToAddr (ad 7), [190; 239; 129; 128; 0; 1; 0; 0; 0; 0; 0; 0; 7; 7])] /\
  (* unknown id: dropped; short packet: id 0, ring not full: zero address (no destination) *)
  bind_reply (fst (forward fw_init ex_query)) [190; 238; 129; 128; 0; 1; 0; 0; 0; 0; 0; 0] = [] /\
  bind_reply (fst (forward fw_init ex_query)) [190; 239; 129] = [(ToAddr zero_addr, [190; 239; 129])] /\
  bind_reply (fst (forward fw_init ex_query)) [] = [].
Proof. vm_compute. repeat split; reflexivity. Qed.
