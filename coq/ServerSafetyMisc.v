(* ServerSafetyMisc.v -- C05, part 8: small facts used by Properties_C05.v: ranges of the
   signed-char arithmetic of the model, range of b32_8to5, room for the NUL terminator the
   decoders append, and the tie between the buffer sizes used in the theorems and the C source. *)
From Coq Require Import List NArith ZArith Arith Bool Lia ZifyBool ZifyNat ZifyN.
From Iodine Require Import Generated.SrcConsts Base Codec Hostname DnsName DnsMsg Domain Server
  ServerSafetyProofs ServerSafetyOps ServerSafetyStep.
Import ListNotations.
Local Open Scope N_scope.

Ltac Zify.zify_post_hook ::= Z.div_mod_to_equations.

(* ---- b32_8to5: the reverse table only holds 5-bit values, whatever byte indexes it --------------- *)

Lemma rev32tab_lt32 : forallb (fun v => v <? 32) rev32tab = true.
Proof. vm_compute. reflexivity. Qed.

Lemma b32_8to5_lt32 ch : b32_8to5 ch < 32.
Proof.
  unfold b32_8to5, rev. cbn [crevtab b32].
  pose proof rev32tab_lt32 as H. rewrite forallb_forall in H.
  destruct (Nat.lt_ge_cases (N.to_nat ch) (length rev32tab)) as [Hl|Hl].
  - specialize (H _ (nth_In _ 0 Hl)). lia.
  - rewrite nth_overflow by exact Hl. lia.
Qed.

(* the reverse tables have 256 entries: indexing with an unsigned char is in bounds *)
Lemma revtab_lengths : length rev32tab = 256%nat /\ length rev64tab = 256%nat /\
                       length rev64utab = 256%nat /\ length rev128tab = 256%nat.
Proof. vm_compute. repeat split. Qed.

(* userids taken from a Base32 digit are 0..31: never negative; the data handler's hex digit is
   0..15 (the guard on in[0] makes it a hex digit) *)
Lemma b32_userid_range ch : (0 <= Z.of_N (b32_8to5 ch) <= 31)%Z.
Proof. pose proof (b32_8to5_lt32 ch). lia. Qed.

Lemma hex_userid_range c0 :
  (((48 <=? c0) && (c0 <=? 57)) || ((97 <=? c0) && (c0 <=? 102)) || ((65 <=? c0) && (c0 <=? 70))) = true ->
  (if (48 <=? c0) && (c0 <=? 57) then c0 - 48 else if (97 <=? c0) && (c0 <=? 102) then c0 - 87 else c0 - 55) <= 15.
Proof.
  intros H. destruct ((48 <=? c0) && (c0 <=? 57)) eqn:E1; [lia|].
  destruct ((97 <=? c0) && (c0 <=? 102)) eqn:E2; [lia|]. cbn in H. lia.
Qed.

(* userids taken from a decoded byte are the C's (signed) char: -128..127; negative ones are
   refused by the range check (check_user_in_range) *)
Lemma schar_range_byte b : b < 256 -> (-128 <= schar b <= 127)%Z.
Proof. intros H. unfold schar. destruct (b <? 128) eqn:E; lia. Qed.

Lemma schar_wrap_in_range z : (-128 <= schar_wrap z <= 127)%Z.
Proof. unfold schar_wrap. lia. Qed.

(* outpacket.fragment++ on a char: the wrap the model makes explicit is the only value change *)
Lemma schar_wrap_id z : (-128 <= z <= 127)%Z -> schar_wrap z = z.
Proof. unfold schar_wrap. lia. Qed.

Lemma schar_wrap_succ z : (-128 <= z <= 127)%Z ->
  schar_wrap (z + 1) = (if (z =? 127)%Z then -128 else z + 1)%Z.
Proof. unfold schar_wrap. destruct (z =? 127)%Z eqn:E; lia. Qed.

(* bytes produced by the decoders are bytes *)
Lemma dec_go_bytes c cap : forall i s, Forall (fun b => b < 256) (dec_go c cap i s).
Proof.
  induction cap as [|cap IH]; intros i s; [constructor|].
  cbn [dec_go]. cbv zeta. destruct (_ <? _)%nat; [constructor|]. destruct (existsb _ _); [constructor|].
  constructor; [|apply IH]. unfold dbyte. destruct (_ <=? _); apply N.mod_lt; lia.
Qed.

Lemma unpack_data_bytes c cap d n : Forall (fun b => b < 256) (unpack_data c cap d n).
Proof. unfold unpack_data, decode. apply dec_go_bytes. Qed.

Lemma chr_bytes l i : Forall (fun b => b < 256) l -> chr l i < 256.
Proof. intros H. unfold chr. apply nth_Forall; [exact H|lia]. Qed.

(* ---- room for the NUL the decoders append (ubuf[iout] = '\0' with iout <= *buflen) ----------------- *)

(* handle_null_request: unpack_data(unpacked, sizeof(unpacked), in + k, domain_len - k, enc) with a name
   of at most 255 characters decodes to at most 255 bytes: the NUL lands at index <= 255 < 65536 *)
Lemma unpack_nul_room c d n : kok3 c -> (length d <= 255)%nat ->
  (S (length (unpack_data c (N.to_nat 65536) d n)) <= N.to_nat src_C05_UNPACKED_BUF)%nat.
Proof.
  intros Hk Hd. pose proof (unpack_data_len_in c (N.to_nat 65536) d n Hk).
  change (N.to_nat src_C05_UNPACKED_BUF) with (N.to_nat 65536). lia.
Qed.

(* save_to_qmem_pingordata: decode(cmc, &cmcsize = sizeof(cmc) - 1, ...) writes at most
   cmcsize bytes + the NUL into cmc[sizeof(cmc)] *)
Lemma cmc_nul_room s :
  src_C05_CMC_CAP = 8 /\ (S (length (decode b32 (N.to_nat src_C05_CMC_CAP) s)) <= N.to_nat src_C05_CMC_BUF)%nat.
Proof.
  split; [reflexivity|]. pose proof (decode_len b32 (N.to_nat src_C05_CMC_CAP) s) as H.
  change (N.to_nat src_C05_CMC_BUF) with (S (N.to_nat src_C05_CMC_CAP)). lia.
Qed.

(* ---- the sizes used in the theorems are the sizes of the C buffers -------------------------------------- *)

Lemma buffer_sizes :
  N.to_nat src_C05_PACKET_DATA = K64 /\             (* struct packet.data[64*1024] *)
  N.to_nat src_C05_UNPACKED_BUF = K64 /\            (* unpacked[64*1024] *)
  N.to_nat src_C05_PKT_BUF = K4096 /\               (* pkt[4096] in send_chunk_or_dataless *)
  src_C05_PKT_BUF - src_C05_PKT_HDR = 4094 /\       (* datalen = MIN(datalen, sizeof(pkt) - 2) *)
  N.to_nat src_C05_DNSCACHE_ANSWER = K4096 /\       (* dnscache_answer[][4096] *)
  N.to_nat src_C05_RAWPKT_BUF = K4096 /\            (* packet[4096] in send_raw *)
  src_C05_RAWPKT_BUF - src_RAW_HDR_LEN = 4092 /\    (* MIN(sizeof(packet) - RAW_HDR_LEN, buflen) *)
  (src_QUERY_NAME_SIZE - 1 <= src_C05_IN_BUF) /\    (* memcpy(in, q->name, MIN(domain_len, sizeof(in))) *)
  src_QUERY_NAME_SIZE = 256.
Proof. repeat split; vm_compute; congruence. Qed.
