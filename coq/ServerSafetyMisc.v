(* ServerSafetyMisc.v -- C05, part 8: small facts used by Properties_C05.v: ranges of the
   signed-char arithmetic of the model, range of b32_8to5, room for the NUL terminator the
   decoders append, and the tie between the buffer sizes used in the theorems and the C source. *)
From Coq Require Import List NArith ZArith Arith Bool Lia ZifyBool ZifyNat ZifyN.
From Iodine Require Import Generated.SrcConsts Base Codec Hostname DnsName DnsMsg Domain Server
  ServerSafetyProofs ServerSafetyOps ServerSafetyStep ServerSafetyStep2.
Import ListNotations.
Local Open Scope N_scope.

Ltac Zify.zify_post_hook ::= Z.div_mod_to_equations.

(* ---- b32_8to5: the reverse table only holds 5-bit values, whatever byte indexes it --------------- *)

Lemma rev32tab_lt32 : forallb (fun v => v <? 32) rev32tab = true.
Proof. vm_compute. reflexivity. Qed.

Lemma b32_8to5_lt32 ch : b32_8to5 ch < 32.
Proof.
  unfold b32_8to5, rev. cbn [crevtab b32].
  pose proof rev32tab_lt32 as H. rewrite forallb_forall in H.
  destruct (Nat.lt_ge_cases (N.to_nat ch) (length rev32tab)) as [Hl|Hl].
  - specialize (H _ (nth_In _ 0 Hl)). lia.
  - rewrite nth_overflow by exact Hl. lia.
Qed.

(* the reverse tables have 256 entries: indexing with an unsigned char is in bounds *)
Lemma revtab_lengths : length rev32tab = 256%nat /\ length rev64tab = 256%nat /\
                       length rev64utab = 256%nat /\ length rev128tab = 256%nat.
Proof. vm_compute. repeat split. Qed.

(* userids taken from a Base32 digit are 0..31: never negative; the data handler's hex digit is
   0..15 (the guard on in[0] makes it a hex digit) *)
Lemma b32_userid_range ch : (0 <= Z.of_N (b32_8to5 ch) <= 31)%Z.
Proof. pose proof (b32_8to5_lt32 ch). lia. Qed.

Lemma hex_userid_range c0 :
  (((48 <=? c0) && (c0 <=? 57)) || ((97 <=? c0) && (c0 <=? 102)) || ((65 <=? c0) && (c0 <=? 70))) = true ->
  (if (48 <=? c0) && (c0 <=? 57) then c0 - 48 else if (97 <=? c0) && (c0 <=? 102) then c0 - 87 else c0 - 55) <= 15.
Proof.
  intros H. destruct ((48 <=? c0) && (c0 <=? 57)) eqn:E1; [lia|].
  destruct ((97 <=? c0) && (c0 <=? 102)) eqn:E2; [lia|]. cbn in H. lia.
Qed.

(* userids taken from a decoded byte are the C's (signed) char: -128..127; negative ones are
   refused by the range check (check_user_in_range) *)
Lemma schar_range_byte b : b < 256 -> (-128 <= schar b <= 127)%Z.
Proof. intros H. unfold schar. destruct (b <? 128) eqn:E; lia. Qed.

Lemma schar_wrap_in_range z : (-128 <= schar_wrap z <= 127)%Z.
Proof. unfold schar_wrap. lia. Qed.

(* outpacket.fragment++ on a char: the wrap the model makes explicit is the only value change *)
Lemma schar_wrap_id z : (-128 <= z <= 127)%Z -> schar_wrap z = z.
Proof. unfold schar_wrap. lia. Qed.

Lemma schar_wrap_succ z : (-128 <= z <= 127)%Z ->
  schar_wrap (z + 1) = (if (z =? 127)%Z then -128 else z + 1)%Z.
Proof. unfold schar_wrap. destruct (z =? 127)%Z eqn:E; lia. Qed.

(* bytes produced by the decoders are bytes *)
Lemma dec_go_bytes c cap : forall i s, Forall (fun b => b < 256) (dec_go c cap i s).
Proof.
  induction cap as [|cap IH]; intros i s; [constructor|].
  cbn [dec_go]. cbv zeta. destruct (_ <? _)%nat; [constructor|]. destruct (existsb _ _); [constructor|].
  constructor; [|apply IH]. unfold dbyte. destruct (_ <=? _); apply N.mod_lt; lia.
Qed.

Lemma unpack_data_bytes c cap d n : Forall (fun b => b < 256) (unpack_data c cap d n).
Proof. unfold unpack_data, decode. apply dec_go_bytes. Qed.

Lemma chr_bytes l i : Forall (fun b => b < 256) l -> chr l i < 256.
Proof. intros H. unfold chr. apply nth_Forall; [exact H|lia]. Qed.

(* ---- room for the NUL the decoders append (ubuf[iout] = '\0' with iout <= *buflen) ----------------- *)

(* handle_null_request: unpack_data(unpacked, sizeof(unpacked), in + k, domain_len - k, enc) with a name
   of at most 255 characters decodes to at most 255 bytes: the NUL lands at index <= 255 < 65536 *)
Lemma unpack_nul_room c d n : kok3 c -> (length d <= 255)%nat ->
  (S (length (unpack_data c (N.to_nat 65536) d n)) <= N.to_nat src_C05_UNPACKED_BUF)%nat.
Proof.
  intros Hk Hd. pose proof (unpack_data_len_in c (N.to_nat 65536) d n Hk).
  change (N.to_nat src_C05_UNPACKED_BUF) with (N.to_nat 65536). lia.
Qed.

(* save_to_qmem_pingordata: decode(cmc, &cmcsize = sizeof(cmc) - 1, ...) writes at most
   cmcsize bytes + the NUL into cmc[sizeof(cmc)] *)
Lemma cmc_nul_room s :
  src_C05_CMC_CAP = 8 /\ (S (length (decode b32 (N.to_nat src_C05_CMC_CAP) s)) <= N.to_nat src_C05_CMC_BUF)%nat.
Proof.
  split; [reflexivity|]. pose proof (decode_len b32 (N.to_nat src_C05_CMC_CAP) s) as H.
  change (N.to_nat src_C05_CMC_BUF) with (S (N.to_nat src_C05_CMC_CAP)). lia.
Qed.

(* ---- the sizes used in the theorems are the sizes of the C buffers -------------------------------------- *)

Lemma buffer_sizes :
  N.to_nat src_C05_PACKET_DATA = K64 /\             (* struct packet.data[64*1024] *)
  N.to_nat src_C05_UNPACKED_BUF = K64 /\            (* unpacked[64*1024] *)
  N.to_nat src_C05_PKT_BUF = K4096 /\               (* pkt[4096] in send_chunk_or_dataless *)
  src_C05_PKT_BUF - src_C05_PKT_HDR = 4094 /\       (* datalen = MIN(datalen, sizeof(pkt) - 2) *)
  N.to_nat src_C05_DNSCACHE_ANSWER = K4096 /\       (* dnscache_answer[][4096] *)
  N.to_nat src_C05_RAWPKT_BUF = K4096 /\            (* packet[4096] in send_raw *)
  src_C05_RAWPKT_BUF - src_RAW_HDR_LEN = 4092 /\    (* MIN(sizeof(packet) - RAW_HDR_LEN, buflen) *)
  (src_QUERY_NAME_SIZE - 1 <= src_C05_IN_BUF) /\    (* memcpy(in, q->name, MIN(domain_len, sizeof(in))) *)
  src_QUERY_NAME_SIZE = 256.
Proof. repeat split; vm_compute; congruence. Qed.

(* ---- sizes of the handshake answers ---------------------------------------------------------------------- *)

(* every answer to a command other than ping ('p') and data (hex digit) is small: at most 2047 bytes
   (the fragsize probe reply buf[2048], cut to the requested size), the 'Z' echo at most 255, the
   rest (VACK/VNAK/VFUL, BADLEN/BADIP/..., login reply, codec names) below 200 *)
Definition ans_le (n : nat) (o : out) : Prop :=
  match o with OAnswer _ _ _ data _ => (length data <= n)%nat | _ => True end.

Section Small.
Variable login : list N -> N -> list N.
Variable unz : list N -> option (list N).

Ltac fc := cbn [snd]; apply Forall_cons; [cbn [ans_le]|apply Forall_nil].
Ltac sm := cbn [snd]; first [apply Forall_nil | (fc; cbn [length app]; lia)].

Lemma hnr_small c st now rnd q dl :
  (length (h_name q) <= 255)%nat ->
  is_letter (chr (firstn dl (h_name q)) 0) 112 = false ->
  (let c0 := chr (firstn dl (h_name q)) 0 in
   ((48 <=? c0) && (c0 <=? 57)) || ((97 <=? c0) && (c0 <=? 102)) || ((65 <=? c0) && (c0 <=? 70))) = false ->
  Forall (ans_le 2047) (snd (handle_null_request login unz c st now rnd q dl)).
Proof.
  intros Hq Hp Hd. unfold handle_null_request.
  destruct (dl <? 2)%nat; [apply Forall_nil|]. cbv zeta in *.
  set (inb := firstn dl (h_name q)) in *.
  assert (Hinb : (length inb <= 255)%nat) by (subst inb; rewrite firstn_length; lia).
  clearbody inb.
  set (unpacked := unpack_data b32 (N.to_nat 65536) (skipn 1 inb) (dl - 1)). clearbody unpacked.
  set (c0 := chr inb 0) in *. clearbody c0.
  set (bhex := ((48 <=? c0) && (c0 <=? 57)) || ((97 <=? c0) && (c0 <=? 102)) || ((65 <=? c0) && (c0 <=? 70))) in *.
  clearbody bhex.
  unfold mk_answer, s_BADLEN, s_BADIP, s_BADCODEC, s_BADFRAG, s_LNAK, be32b.
  destruct (is_letter c0 118).
  { destruct (_ =? src_PROTOCOL_VERSION); [destruct (find_available_from st now 0)|]; sm. }
  destruct (is_letter c0 108).
  { destruct (length unpacked <? 17)%nat; [sm|]. destruct (check_user_and_ip _ _ _ _ _); [sm|].
    destruct (_ && _); [|sm]. fc. rewrite !app_length. cbn [length].
    match goal with |- (length (ntoa ?a) + (_ + (length (ntoa ?b) + (_ + (length (dec_int ?x) + (_ + length (dec_int ?y)))))) <= _)%nat =>
      pose proof (ntoa_len a); pose proof (ntoa_len b); pose proof (dec_int_len x); pose proof (dec_int_len y) end. lia. }
  destruct (is_letter c0 105).
  { destruct (check_auth _ _ _ _ _); [sm|]. fc. cbn [length].
    destruct (a_fam (h_from q) =? AF_INET).
    - destruct (c_ns_ip c); [rewrite firstn_length; lia|].
      destruct (h_dest q); [rewrite firstn_length; lia|cbn; lia].
    - rewrite repeat_length. lia. }
  destruct (is_letter c0 122); [sm|].
  destruct (is_letter c0 115).
  { destruct (dl <? 3)%nat; [sm|]. destruct (check_auth_options _ _ _ _ _); [sm|].
    repeat (destruct (b32_8to5 (chr inb 2) =? _);
            [fc; match goal with |- (length (codec_name ?e) <= _)%nat => pose proof (codec_name_len e); lia end|]).
    sm. }
  destruct (is_letter c0 111).
  { destruct (dl <? 3)%nat; [sm|]. destruct (check_auth_options _ _ _ _ _); [sm|].
    repeat (destruct (is_letter (chr inb 2) _);
            [fc; cbn [length];
             try match goal with |- (length (codec_name ?e) <= _)%nat => pose proof (codec_name_len e) end; lia|]).
    sm. }
  destruct (is_letter c0 121).
  { destruct (dl <? 6)%nat; [sm|]. destruct (negb _); [sm|].
    assert (Hchk : (length src_DOWNCODECCHECK1 <= 2047)%nat) by (apply Nat.leb_le; vm_compute; reflexivity).
    repeat (destruct (_ && _); [fc; exact Hchk|]). sm. }
  destruct (is_letter c0 114).
  { destruct (dl <? 16)%nat; [sm|]. destruct (check_auth _ _ _ _ _); [sm|].
    set (req := _ + _ + _). clearbody req.
    destruct ((req <? 2) || (2047 <? req)) eqn:E; [sm|]. fc.
    pose proof (probe_reply_len req (rnd mod 256)). lia. }
  destruct (is_letter c0 110).
  { destruct (length unpacked <? 3)%nat; [sm|]. destruct (check_auth_options _ _ _ _ _); [sm|].
    destruct (_ <? 2); sm. }
  rewrite Hp, Hd. apply Forall_nil.
Qed.

End Small.

(* EOF *)
