(* ProtoUpProofs.v -- safety of the upstream fragment protocol under N* (see ProtoUp.v). *)
From Coq Require Import List Arith Bool Lia ZArith ZifyBool ZifyNat.
From Iodine Require Import ProtoUp.
Import ListNotations.

Ltac Zify.zify_post_hook ::= Z.div_mod_to_equations.

Lemma rule_cases R rf k f : R <= k + 3 -> k <= R + 5 ->
  match recv_rule (R mod 8) rf (k mod 8) (f mod 16) with
  | Ignore => True
  | NewPacket => R < k
  | NextFragment => k = R /\ rf < f mod 16
  end.
Proof.
  intros H1 H2. unfold recv_rule.
  pose proof (Nat.div_mod R 8 ltac:(lia)) as HR. pose proof (Nat.mod_upper_bound R 8 ltac:(lia)) as HRb.
  pose proof (Nat.div_mod k 8 ltac:(lia)) as Hk. pose proof (Nat.mod_upper_bound k 8 ltac:(lia)) as Hkb.
  set (r := R mod 8) in *. set (kk := k mod 8) in *. set (qR := R / 8) in *. set (qk := k / 8) in *.
  clearbody r kk qR qk.
  assert (M7 : (r + 7) mod 8 = if r =? 0 then 7 else r - 1) by (destruct (r =? 0) eqn:E; lia).
  assert (M6 : (r + 6) mod 8 = if r <=? 1 then r + 6 else r - 2) by (destruct (r <=? 1) eqn:E; lia).
  assert (M5 : (r + 5) mod 8 = if r <=? 2 then r + 5 else r - 3) by (destruct (r <=? 2) eqn:E; lia).
  destruct (kk =? r) eqn:E1; destruct (f mod 16 <=? rf) eqn:E2;
    destruct (recent r kk) eqn:E3; cbn [andb negb]; cbv iota;
    unfold recent in E3; rewrite M7, M6, M5 in E3;
    destruct (r =? 0) eqn:T0; destruct (r <=? 1) eqn:T1; destruct (r <=? 2) eqn:T2; try exact I; try lia.
Qed.

Definition chunk_ok (s : psys) (c : chunk) : Prop :=
  match c with Chunk k f l =>
    1 <= k <= sk (snd_ s) /\ f < sizes s k /\ l = (S f =? sizes s k) /\ (k = sk (snd_ s) -> f <= sf (snd_ s)) /\
    (0 < f -> k < rR (rcv_ s) \/ (k = rR (rcv_ s) /\ f <= S (rf (rcv_ s))))
  end.

Definition ack_ok (s : psys) (a : ack) : Prop :=
  a_seq a = a_R a mod 8 /\ a_frag a = a_rf a mod 16 /\ a_gen a <= a_sk a /\ a_sk a <= a_R a + 5 /\
  a_R a <= a_sk a /\ a_sk a <= sk (snd_ s) /\ a_R a <= rR (rcv_ s) /\
  (a_R a = rR (rcv_ s) -> a_rf a <= rf (rcv_ s)) /\ a_rf a < 16.

Definition rcv_ok (s : psys) : Prop :=
  let R_ := rcv_ s in
  (rR R_ = 0 /\ rf R_ = 0 /\ rbuf R_ = [] /\ rdone R_ = true) \/
  (1 <= rR R_ /\ rf R_ < sizes s (rR R_) /\
   (rdone R_ = false -> rbuf R_ = seq_tags (rR R_) (S (rf R_))) /\
   (rdone R_ = true -> rbuf R_ = [] /\ S (rf R_) = sizes s (rR R_))).

Record Inv (s : psys) : Prop := {
  i_le : rR (rcv_ s) <= sk (snd_ s);
  i_act : sact (snd_ s) = true -> 1 <= sk (snd_ s);
  i_sn : 1 <= sk (snd_ s) -> sn (snd_ s) = sizes s (sk (snd_ s)) /\ sf (snd_ s) < sn (snd_ s);
  i_sizes : forall k, 1 <= k <= sk (snd_ s) -> 1 <= sizes s k <= 16;
  i_chunks : forall c, In c (chunks s) -> chunk_ok s c;
  i_rcv : rcv_ok s;
  i_acks : forall a, In a (acks s) -> ack_ok s a;
  i_frag : rR (rcv_ s) = sk (snd_ s) -> rf (rcv_ s) <= sf (snd_ s)
}.

Lemma inv_init : Inv init.
Proof.
  constructor; cbn; try lia; try (intros; contradiction); try discriminate.
  left. repeat split; reflexivity.
Qed.

Definition exact (s : psys) (b : list (nat * nat)) : Prop :=
  exists k, 1 <= k <= sk (snd_ s) /\ b = seq_tags k (sizes s k).

Lemma seq_tags_S k n : seq_tags k (S n) = seq_tags k n ++ [(k, n)].
Proof. unfold seq_tags. rewrite seq_S, map_app. reflexivity. Qed.

Lemma step_inv s e s' o : Inv s -> pstep s e s' o -> close_enough s -> close_enough s' ->
  Inv s' /\ (forall b, o = Some b -> exact s' b).
Proof.
  intros I Hst Hc Hc'. unfold close_enough in Hc, Hc'.
  destruct I as [I1 Ia I2 I2c I3 I4 I6 I7].
  inversion Hst; subst; clear Hst.
  - (* new packet *)
    rename H into Hact, H0 into Hn.
    split; [|intros b Hb; discriminate].
    constructor; cbn [snd_ rcv_ chunks acks sizes sk sf sn sact] in *.
    + lia.
    + lia.
    + intros _. rewrite Nat.eqb_refl. lia.
    + intros k Hk. destruct (k =? S (sk (snd_ s))) eqn:E; [lia|]. apply I2c. lia.
    + intros c [<-|Hin].
      * unfold chunk_ok. cbn. rewrite Nat.eqb_refl. repeat split; try lia.
        destruct n as [|[|n]]; cbn; lia.
      * specialize (I3 c Hin). unfold chunk_ok in *. destruct c as [k f l]. cbn in *.
        destruct I3 as (A & B & C & D & E).
        assert (Ek : (k =? S (sk (snd_ s))) = false) by lia. rewrite Ek.
        repeat split; try assumption; try lia.
    + unfold rcv_ok in *. cbn [rcv_ sizes] in *.
      destruct I4 as [I4|(A & B & C & D)]; [left; exact I4|right].
      assert (E : (rR (rcv_ s) =? S (sk (snd_ s))) = false) by lia. rewrite E.
      split; [exact A|split; [exact B|split; [exact C|exact D]]].
    + intros a Ha. specialize (I6 a Ha). unfold ack_ok in *. cbn in *.
      destruct I6 as (A1 & A2 & A3 & A4 & A5 & A6 & A7 & A8 & A9). repeat split; try assumption; lia.
    + lia.
  - (* give up *)
    split; [|intros b Hb; discriminate].
    constructor; cbn [snd_ rcv_ chunks acks sizes sk sf sn sact] in *; try assumption; try discriminate.
  - (* last fragment acknowledged *)
    split; [|intros b Hb; discriminate].
    constructor; cbn [snd_ rcv_ chunks acks sizes sk sf sn sact] in *; try assumption; try discriminate.
  - (* fragment acknowledged: the next one is sent *)
    rename H into Ha, H0 into Hact, H1 into Hfresh, H2 into Hseq, H3 into Hfrag, H4 into Hmore.
    split; [|intros b Hb; discriminate].
    pose proof (Ia Hact) as Hpos. destruct (I2 Hpos) as [Hsn Hsf].
    pose proof (I2c (sk (snd_ s)) ltac:(lia)) as Hsz.
    destruct (I6 a Ha) as (A1 & A2 & A3 & A4 & A5 & A6 & A7 & A8 & A9).
    (* the acknowledgement is genuine: taken while the receiver was on this very packet *)
    assert (HR : a_R a = sk (snd_ s)) by lia.
    assert (HrR : rR (rcv_ s) = sk (snd_ s)) by lia.
    assert (Hrf : a_rf a = sf (snd_ s)).
    { specialize (A8 ltac:(lia)). specialize (I7 HrR). lia. }
    assert (Hge : sf (snd_ s) <= rf (rcv_ s)) by (specialize (A8 ltac:(lia)); lia).
    constructor; cbn [snd_ rcv_ chunks acks sizes sk sf sn sact] in *; try assumption.
    + intros _. lia.
    + intros _. lia.
    + intros c [<-|Hin].
      * unfold chunk_ok. cbn [snd_ rcv_ sk sf sn sizes rR rf]. rewrite Hsn.
        split; [lia|]. split; [lia|]. split; [reflexivity|]. split; [lia|]. intros _. right. lia.
      * specialize (I3 c Hin). unfold chunk_ok in *. destruct c as [k f l]. cbn in *.
        destruct I3 as (B1 & B2 & B3 & B4 & B5). repeat split; try assumption; lia.
    + intros _. specialize (I7 HrR). lia.
  - (* acknowledgement not applicable *)
    split; [|intros b Hb; discriminate].
    constructor; assumption.
  - (* chunk ignored *)
    split; [|intros b Hb; discriminate].
    constructor; assumption.
  - (* chunk starts a new packet at the receiver *)
    rename H into Hin, H0 into Hdelay, H1 into Hrule.
    pose proof (I3 _ Hin) as Hc0. unfold chunk_ok in Hc0. destruct Hc0 as (B1 & B2 & B3 & B4 & B5).
    pose proof (rule_cases (rR (rcv_ s)) (rf (rcv_ s)) k f ltac:(lia) ltac:(lia)) as Hrc.
    rewrite Hrule in Hrc.
    (* the first chunk of a packet that the receiver accepts is fragment 0 *)
    assert (Hf0 : f = 0).
    { destruct f as [|f']; [reflexivity|]. destruct (B5 ltac:(lia)) as [X|[X _]]; lia. }
    subst f.
    pose proof (I2c k ltac:(lia)) as Hsz.
    split.
    + constructor; cbn [snd_ rcv_ chunks acks sizes sk sf sn sact rR rf rbuf rdone] in *; try assumption.
      * lia.
      * intros c Hinc. specialize (I3 c Hinc). unfold chunk_ok in *. destruct c as [k' f' l'].
        cbn [snd_ rcv_ sk sf sizes rR rf] in *.
        destruct I3 as (C1 & C2 & C3 & C4 & C5).
        split; [exact C1|]. split; [exact C2|]. split; [exact C3|]. split; [exact C4|].
        intros Hf. destruct (C5 Hf) as [X|[X Y]]; [left; lia|left; lia].
      * unfold rcv_ok. cbn [rcv_ rR rf rbuf rdone sizes]. right. change (0 mod 16) with 0.
        split; [lia|]. split; [lia|]. split.
        -- intros Hd. rewrite Hd. reflexivity.
        -- intros Hd. rewrite Hd. split; [reflexivity|]. rewrite Hd in B3.
           destruct (1 =? sizes s k) eqn:E; [lia|discriminate].
      * intros a Ha. specialize (I6 a Ha). unfold ack_ok in *. cbn in *.
        destruct I6 as (A1 & A2 & A3 & A4 & A5 & A6 & A7 & A8 & A9). repeat split; try assumption; lia.
    + intros b Hb. destruct l; [|discriminate]. inversion Hb; subst b.
      exists k. split; [cbn [snd_ sk]; lia|]. destruct (1 =? sizes s k) eqn:E; [|discriminate].
      assert (Hs1 : sizes s k = 1) by lia. cbn [sizes]. rewrite Hs1. reflexivity.
  - (* chunk continues the packet the receiver is on *)
    rename H into Hin, H0 into Hdelay, H1 into Hrule.
    pose proof (I3 _ Hin) as Hc0. unfold chunk_ok in Hc0. destruct Hc0 as (B1 & B2 & B3 & B4 & B5).
    pose proof (rule_cases (rR (rcv_ s)) (rf (rcv_ s)) k f ltac:(lia) ltac:(lia)) as Hrc.
    rewrite Hrule in Hrc. destruct Hrc as [Hk Hgt]. subst k.
    pose proof (I2c (rR (rcv_ s)) ltac:(lia)) as Hsz.
    assert (Hf16 : f mod 16 = f) by (apply Nat.mod_small; lia).
    rewrite Hf16 in *.
    assert (Hnext : f = S (rf (rcv_ s))).
    { destruct (B5 ltac:(lia)) as [X|[_ Y]]; lia. }
    unfold rcv_ok in I4. destruct I4 as [(Z1 & _)|(R1 & R2 & R3 & R4)]; [lia|].
    assert (Hnd : rdone (rcv_ s) = false).
    { destruct (rdone (rcv_ s)) eqn:E; [|reflexivity]. destruct (R4 eq_refl) as [_ X]. lia. }
    specialize (R3 Hnd).
    split.
    + constructor; cbn [snd_ rcv_ chunks acks sizes sk sf sn sact rR rf rbuf rdone] in *; try assumption.
      * intros c Hinc. specialize (I3 c Hinc). unfold chunk_ok in *. destruct c as [k' f' l'].
        cbn [snd_ rcv_ sk sf sizes rR rf] in *.
        destruct I3 as (C1 & C2 & C3 & C4 & C5).
        split; [exact C1|]. split; [exact C2|]. split; [exact C3|]. split; [exact C4|].
        intros Hf. destruct (C5 Hf) as [X|[X Y]]; [left; lia|right; lia].
      * unfold rcv_ok. cbn [rcv_ rR rf rbuf rdone sizes]. right.
        split; [lia|]. split; [lia|]. split.
        -- intros Hd. rewrite Hd. rewrite R3. subst f. rewrite <- seq_tags_S. reflexivity.
        -- intros Hd. rewrite Hd. split; [reflexivity|]. rewrite Hd in B3.
           destruct (S f =? sizes s (rR (rcv_ s))) eqn:E; [lia|discriminate].
      * intros a Ha. specialize (I6 a Ha). unfold ack_ok in *. cbn in *.
        destruct I6 as (A1 & A2 & A3 & A4 & A5 & A6 & A7 & A8 & A9). repeat split; try assumption; lia.
    + intros b Hb. destruct l; [|discriminate]. inversion Hb; subst b.
      exists (rR (rcv_ s)). split; [cbn; lia|].
      destruct (S f =? sizes s (rR (rcv_ s))) eqn:E; [|discriminate].
      assert (Hs : sizes s (rR (rcv_ s)) = S f) by lia. cbn [sizes]. rewrite Hs, R3. subst f.
      rewrite <- seq_tags_S. reflexivity.
  - (* an answer is generated *)
    split; [|intros b Hb; discriminate].
    constructor; cbn [snd_ rcv_ chunks acks sizes sk sf sn sact] in *; try assumption.
    intros a [<-|Ha].
    + unfold ack_ok. cbn. repeat split; try lia.
      unfold rcv_ok in I4. destruct I4 as [(Z1 & Z2 & _)|(R1 & R2 & _)]; [lia|].
      pose proof (I2c (rR (rcv_ s)) ltac:(lia)). lia.
    + specialize (I6 a Ha). unfold ack_ok in *. cbn in *. exact I6.
Qed.

Lemma step_sizes s e s' o k : pstep s e s' o -> 1 <= k <= sk (snd_ s) -> sizes s' k = sizes s k.
Proof.
  intros H Hk. inversion H; subst; cbn [sizes]; try reflexivity.
  destruct (k =? S (sk (snd_ s))) eqn:E; [lia|reflexivity].
Qed.

Lemma step_sk s e s' o : pstep s e s' o -> sk (snd_ s) <= sk (snd_ s').
Proof. intros H. inversion H; subst; cbn; lia. Qed.

Lemma exact_step s e s' o b : pstep s e s' o -> exact s b -> exact s' b.
Proof.
  intros H (k & Hk & ->). exists k. split.
  - pose proof (step_sk _ _ _ _ H). lia.
  - rewrite (step_sizes _ _ _ _ k H Hk). reflexivity.
Qed.

(* every buffer handed to uncompress() is the complete, in-order fragment sequence of one packet *)
Theorem proto_up_safe s outs : reach s outs -> Inv s /\ close_enough s /\ Forall (exact s) outs.
Proof.
  induction 1 as [|s outs e s' o Hr IH Hst Hc'].
  - split; [exact inv_init|]. split; [unfold close_enough; cbn; lia|constructor].
  - destruct IH as (I & Hc & Hall).
    destruct (step_inv s e s' o I Hst Hc Hc') as [I' Hout].
    split; [exact I'|]. split; [exact Hc'|].
    assert (Hall' : Forall (exact s') outs).
    { rewrite Forall_forall in *. intros b Hb. eapply exact_step; [exact Hst|]. apply Hall, Hb. }
    destruct o as [b|]; [|exact Hall'].
    apply Forall_app. split; [exact Hall'|]. constructor; [apply Hout; reflexivity|constructor].
Qed.

(* ---- the executable step function is sound w.r.t. the relation ------------------------------- *)

Lemma chunk_eqb_eq a b : chunk_eqb a b = true -> a = b.
Proof.
  destruct a as [k f l], b as [k' f' l']. cbn. intros H.
  apply andb_prop in H. destruct H as [H Hl]. apply andb_prop in H. destruct H as [Hk Hf].
  apply Nat.eqb_eq in Hk, Hf. apply Bool.eqb_prop in Hl. subst. reflexivity.
Qed.

Lemma ack_eqb_eq a b : ack_eqb a b = true -> a = b.
Proof.
  destruct a, b. unfold ack_eqb. cbn. intros H.
  repeat (apply andb_prop in H; let X := fresh "E" in destruct H as [H X]; apply Nat.eqb_eq in X).
  apply Nat.eqb_eq in H. subst. reflexivity.
Qed.

Lemma existsb_in {A} (eqb : A -> A -> bool) (Heq : forall a b, eqb a b = true -> a = b) x l :
  existsb (eqb x) l = true -> In x l.
Proof.
  intros H. apply existsb_exists in H. destruct H as [y [Hy Hxy]]. apply Heq in Hxy. subst. exact Hy.
Qed.

Lemma pexec_sound s e s' o : pexec s e = Some (s', o) -> pstep s e s' o.
Proof.
  unfold pexec. destruct e as [n| |a|[k f l]|g].
  - destruct (negb (sact (snd_ s)) && (1 <=? n) && (n <=? 16)) eqn:E; [|discriminate].
    intros H. inversion H; subst; clear H. apply st_new; [destruct (sact (snd_ s)); cbn in E; [discriminate|reflexivity]|lia].
  - intros H. inversion H; subst. apply st_giveup.
  - destruct (negb (existsb (ack_eqb a) (acks s))) eqn:Ein; [discriminate|].
    assert (Hin : In a (acks s)).
    { apply (existsb_in ack_eqb ack_eqb_eq). destruct (existsb (ack_eqb a) (acks s)); [reflexivity|discriminate]. }
    destruct (sact (snd_ s) && (sk (snd_ s) <=? a_gen a + 2) && (a_seq a =? sk (snd_ s) mod 8) && (a_frag a =? sf (snd_ s) mod 16)) eqn:E.
    + apply andb_prop in E. destruct E as [E E4]. apply andb_prop in E. destruct E as [E E3].
      apply andb_prop in E. destruct E as [E1 E2].
      destruct (S (sf (snd_ s)) =? sn (snd_ s)) eqn:El.
      * intros H. inversion H; subst; clear H. apply st_ack_last; try assumption; lia.
      * destruct (S (sf (snd_ s)) <? sn (snd_ s)) eqn:Em; [|discriminate].
        intros H. inversion H; subst; clear H. apply st_ack_next; try assumption; lia.
    + intros H. assert (Hso : s' = s /\ o = None) by (inversion H; auto). destruct Hso as [-> ->]. clear H.
      apply st_ack_ignored; [exact Hin|].
      destruct (sact (snd_ s)); [|left; reflexivity]. right.
      cbn [andb] in E. 
      destruct (sk (snd_ s) <=? a_gen a + 2) eqn:E2; [|left; lia]. right.
      destruct (a_seq a =? sk (snd_ s) mod 8) eqn:E3; [|left; lia]. right.
      cbn [andb] in E. lia.
  - destruct (negb (existsb (chunk_eqb (Chunk k f l)) (chunks s)) || negb (sk (snd_ s) <=? k + 3)) eqn:Eg; [discriminate|].
    apply orb_false_elim in Eg. destruct Eg as [Eg1 Eg2].
    assert (Hin : In (Chunk k f l) (chunks s)).
    { apply (existsb_in chunk_eqb chunk_eqb_eq). destruct (existsb (chunk_eqb (Chunk k f l)) (chunks s)); [reflexivity|discriminate]. }
    assert (Hd : sk (snd_ s) <= k + 3) by (destruct (sk (snd_ s) <=? k + 3) eqn:X; [lia|discriminate]).
    destruct (recv_rule (rR (rcv_ s) mod 8) (rf (rcv_ s)) (k mod 8) (f mod 16)) eqn:Er;
      intros H.
    + assert (Hso : s' = s /\ o = None) by (inversion H; auto). destruct Hso as [-> ->]. clear H.
      apply st_chunk_ignore; assumption.
    + inversion H; subst; clear H. apply st_chunk_new; assumption.
    + inversion H; subst; clear H. apply st_chunk_next; assumption.
  - destruct (g <=? sk (snd_ s)) eqn:E; [|discriminate].
    intros H. inversion H; subst; clear H. apply st_genack. lia.
Qed.

Lemma prun_reach : forall es s outs s' outs',
  reach s outs -> prun s es outs true = Some (s', outs') -> reach s' outs'.
Proof.
  induction es as [|e es IH]; intros s outs s' outs' Hr Hp.
  - cbn in Hp. inversion Hp; subst. exact Hr.
  - cbn [prun] in Hp. destruct e as [e|g].
    + destruct (pexec s e) as [[s1 o]|] eqn:E; [|discriminate].
      destruct (true && negb (sk (snd_ s1) <=? rR (rcv_ s1) + 5)) eqn:Ec; [discriminate|].
      apply (IH s1 (match o with Some b => outs ++ [b] | None => outs end) s' outs'); [|exact Hp].
      eapply reach_step; [exact Hr|apply pexec_sound; exact E|]. unfold close_enough. cbn in Ec. lia.
    + destruct (pexec s (RGenAck g)) as [[s1 o1]|] eqn:E1; [|discriminate].
      destruct (pexec s1 (SAck (cur_ack s g))) as [[s2 o2]|] eqn:E2; [|discriminate].
      destruct (true && negb (sk (snd_ s2) <=? rR (rcv_ s2) + 5)) eqn:Ec; [discriminate|].
      apply (IH s2 outs s' outs'); [|exact Hp].
      pose proof (proto_up_safe s outs Hr) as (_ & Hcs & _).
      assert (Hr1 : reach s1 outs).
      { assert (o1 = None) by (unfold pexec in E1; destruct (g <=? sk (snd_ s)); inversion E1; reflexivity). subst o1.
        change outs with (match (None : option (list (nat * nat))) with Some b => outs ++ [b] | None => outs end).
        eapply reach_step; [exact Hr|apply pexec_sound; exact E1|].
        unfold pexec in E1. destruct (g <=? sk (snd_ s)); inversion E1; subst. unfold close_enough in *. cbn. exact Hcs. }
      assert (o2 = None).
      { unfold pexec in E2. destruct (negb _); [discriminate|]. destruct (_ && _ && _ && _).
        - destruct (_ =? _); [inversion E2; reflexivity|]. destruct (_ <? _); inversion E2; reflexivity.
        - inversion E2; reflexivity. }
      subst o2.
      change outs with (match (None : option (list (nat * nat))) with Some b => outs ++ [b] | None => outs end).
      eapply reach_step; [exact Hr1|apply pexec_sound; exact E2|]. unfold close_enough. cbn in Ec. lia.
Qed.

(* executions WITHOUT the network hypothesis H6 (same steps, no closeness requirement) *)
Inductive reach0 : psys -> list (list (nat * nat)) -> Prop :=
| reach0_init : reach0 init []
| reach0_step s outs e s' o : reach0 s outs -> pstep s e s' o ->
    reach0 s' (match o with Some b => outs ++ [b] | None => outs end).

Lemma prun_reach0 : forall es s outs s' outs',
  reach0 s outs -> prun s es outs false = Some (s', outs') -> reach0 s' outs'.
Proof.
  induction es as [|e es IH]; intros s outs s' outs' Hr Hp.
  - cbn in Hp. inversion Hp; subst. exact Hr.
  - cbn [prun] in Hp. destruct e as [e|g].
    + destruct (pexec s e) as [[s1 o]|] eqn:E; [|discriminate]. cbn [andb] in Hp.
      apply (IH s1 (match o with Some b => outs ++ [b] | None => outs end) s' outs'); [|exact Hp].
      eapply reach0_step; [exact Hr|apply pexec_sound; exact E].
    + destruct (pexec s (RGenAck g)) as [[s1 o1]|] eqn:E1; [|discriminate].
      destruct (pexec s1 (SAck (cur_ack s g))) as [[s2 o2]|] eqn:E2; [|discriminate]. cbn [andb] in Hp.
      apply (IH s2 outs s' outs'); [|exact Hp].
      assert (o1 = None) by (unfold pexec in E1; destruct (g <=? sk (snd_ s)); inversion E1; reflexivity). subst o1.
      assert (o2 = None).
      { unfold pexec in E2. destruct (negb _); [discriminate|]. destruct (_ && _ && _ && _).
        - destruct (_ =? _); [inversion E2; reflexivity|]. destruct (_ <? _); inversion E2; reflexivity.
        - inversion E2; reflexivity. }
      subst o2.
      change outs with (match (None : option (list (nat * nat))) with Some b => outs ++ [b] | None => outs end).
      eapply reach0_step; [|apply pexec_sound; exact E2].
      change outs with (match (None : option (list (nat * nat))) with Some b => outs ++ [b] | None => outs end).
      eapply reach0_step; [exact Hr|apply pexec_sound; exact E1].
Qed.

(* a 3-fragment packet through a network that loses, duplicates and re-orders (inside N-star) *)
Definition script_ok : list sevent :=
  [ EvP (SNew 3);
    EvP (RChunk (Chunk 1 0 false));           (* fragment 0 arrives *)
    EvP (RChunk (Chunk 1 0 false));           (* ... and a duplicate of it *)
    EvP (RGenAck 1);                          (* an answer is generated but lost *)
    EvAckNow 1;                               (* this one reaches the client: fragment 1 is sent *)
    EvP (RChunk (Chunk 1 0 false));           (* old duplicate after the ack *)
    EvP (RChunk (Chunk 1 1 false));
    EvAckNow 1;
    EvP (RChunk (Chunk 1 1 false));
    EvP (RChunk (Chunk 1 2 true));            (* last fragment: delivery *)
    EvP (RChunk (Chunk 1 2 true));            (* duplicate of the last fragment: ignored *)
    EvAckNow 1;
    EvP (SNew 1);
    EvP (RChunk (Chunk 1 2 true));            (* stale chunk of the previous packet *)
    EvP (RChunk (Chunk 2 0 true)) ].

Example proto_up_nonvacuous :
  exists s, prun init script_ok [] true = Some (s, [seq_tags 1 3; seq_tags 2 1]) /\ reach s [seq_tags 1 3; seq_tags 2 1].
Proof.
  assert (H : exists s, prun init script_ok [] true = Some (s, [seq_tags 1 3; seq_tags 2 1])).
  { vm_compute. eexists. reflexivity. }
  destruct H as [s Hs]. exists s. split; [exact Hs|].
  eapply prun_reach; [apply reach_init|exact Hs].
Qed.

(* outside N-star: eight packets lost in a row while answers still pass; the acknowledgement of a
   packet sent eight packets earlier is mistaken for the current one and the receiver hands a buffer
   to uncompress() that is not a packet (only zlib's Adler-32 stands in the way) *)
Definition script_bad : list sevent :=
  [ EvP (SNew 1); EvP (RChunk (Chunk 1 0 true)); EvP SGiveUp ] ++
  flat_map (fun _ => [EvP (SNew 1); EvP SGiveUp]) (seq 0 7) ++
  [ EvP (SNew 2);                 (* packet 9 has the same 3-bit seqno as packet 1; fragment 0 is lost *)
    EvAckNow 9;                   (* the server still echoes (seq 1, frag 0) of packet 1 *)
    EvP (RChunk (Chunk 9 1 true)) ].

Theorem proto_up_inexact_witness :
  exists s outs, reach0 s outs /\ ~ Forall (exact s) outs.
Proof.
  assert (H : exists s, prun init script_bad [] false = Some (s, [[(1, 0)]; [(9, 1)]])).
  { vm_compute. eexists. reflexivity. }
  destruct H as [s Hs]. exists s, [[(1, 0)]; [(9, 1)]]. split.
  - eapply prun_reach0; [apply reach0_init|exact Hs].
  - intros HF. inversion HF as [|x l _ HF2]; subst. inversion HF2 as [|x l H9 _]; subst.
    destruct H9 as (k & Hk & Heq). unfold seq_tags in Heq.
    destruct (sizes s k) as [|n]; [discriminate|]. cbn in Heq. inversion Heq.
Qed.
