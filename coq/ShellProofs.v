(* ShellProofs.v -- proofs about the model of Shell.v (C13): whatever the login reply, the
   strings handed to system() are the two ifconfig templates filled with strict dotted quads
   and a decimal integer in range. *)
From Coq Require Import String Ascii.
From Coq Require Import List NArith ZArith Arith Bool Lia ZifyBool ZifyNat ZifyN.
From Iodine Require Import Base Generated.SrcConsts Shell.
Import ListNotations.
Local Open Scope N_scope.

Ltac Zify.zify_post_hook ::= Z.div_mod_to_equations.

(* ------------------------------------------------------------------------------------ *)
(* characters                                                                             *)

Definition digit_or_dot (c : N) : bool := is_digit c || (c =? 46).

Lemma is_digit_spec c : is_digit c = true <-> 48 <= c <= 57.
Proof. unfold is_digit. lia. Qed.

Lemma is_digit_not_dot c : is_digit c = true -> (c =? 46) = false.
Proof. unfold is_digit. lia. Qed.

Lemma digits_no_dot l : forallb is_digit l = true -> Forall (fun c => (c =? 46) = false) l.
Proof.
  intros H. rewrite forallb_forall in H. apply Forall_forall. intros x Hx.
  apply is_digit_not_dot, H, Hx.
Qed.

Lemma digits_digit_or_dot l : forallb is_digit l = true -> Forall (fun c => digit_or_dot c = true) l.
Proof.
  intros H. rewrite forallb_forall in H. apply Forall_forall. intros x Hx.
  unfold digit_or_dot. rewrite (H x Hx). reflexivity.
Qed.

(* ------------------------------------------------------------------------------------ *)
(* decimal text                                                                           *)

Lemma dec_go_digits fuel : forall n acc,
  forallb is_digit acc = true -> forallb is_digit (dec_go fuel n acc) = true.
Proof.
  induction fuel as [|f IH]; intros n acc Hacc; simpl; [exact Hacc|].
  assert (Hd : forallb is_digit ((48 + n mod 10) :: acc) = true).
  { change (forallb is_digit ((48 + n mod 10) :: acc))
      with (is_digit (48 + n mod 10) && forallb is_digit acc).
    rewrite Hacc. assert (n mod 10 < 10) by (apply N.mod_lt; discriminate). unfold is_digit. lia. }
  destruct (n / 10 =? 0); [exact Hd|]. apply IH, Hd.
Qed.

Lemma dec_of_N_digits n : forallb is_digit (dec_of_N n) = true.
Proof. unfold dec_of_N. apply dec_go_digits. reflexivity. Qed.

Lemma dec_octet_ok a : a < 256 -> octetb (dec_of_N a) = true.
Proof.
  intros H.
  assert (Hs : forallb (fun a => octetb (dec_of_N a)) (nrange 256) = true) by (vm_compute; reflexivity).
  apply (sweep1 _ _ Hs a). exact H.
Qed.

(* for the numbers that can appear in a tun_setmtu command the text reads back as the number
   and has at most 4 characters *)
Lemma dec_small_ok u : u < 1501 ->
  dec_value (dec_of_N u) = u /\ (length (dec_of_N u) <= 4)%nat.
Proof.
  intros H.
  assert (Hs : forallb (fun u => (dec_value (dec_of_N u) =? u) && (length (dec_of_N u) <=? 4)%nat)
                       (nrange 1501) = true) by (vm_compute; reflexivity).
  pose proof (sweep1 _ _ Hs u H) as H1. cbv beta in H1.
  apply andb_prop in H1. destruct H1 as [H1 H2]. split; [lia|].
  apply Nat.leb_le, H2.
Qed.

(* ------------------------------------------------------------------------------------ *)
(* split_dot                                                                              *)

Fixpoint join_dot (l : list (list N)) : list N :=
  match l with
  | [] => []
  | p :: ps => match ps with [] => p | _ :: _ => p ++ 46 :: join_dot ps end
  end.

Lemma split_dot_nonnil s : split_dot s <> [].
Proof.
  destruct s as [|c r]; simpl; [discriminate|].
  destruct (c =? 46); [discriminate|]. destruct (split_dot r); discriminate.
Qed.

Lemma join_split_dot s : join_dot (split_dot s) = s.
Proof.
  induction s as [|c r IH]; [reflexivity|]. simpl.
  destruct (c =? 46) eqn:Hc.
  - assert (c = 46) by lia. subst c.
    pose proof (split_dot_nonnil r) as Hn. simpl.
    destruct (split_dot r) as [|p ps] eqn:Hs; [contradiction|].
    rewrite IH. reflexivity.
  - pose proof (split_dot_nonnil r) as Hn.
    destruct (split_dot r) as [|p ps] eqn:Hs; [contradiction|].
    destruct ps as [|p2 ps2]; simpl in IH |- *; rewrite <- IH; reflexivity.
Qed.

Lemma split_dot_nodot d r :
  Forall (fun c => (c =? 46) = false) d -> split_dot (d ++ 46 :: r) = d :: split_dot r.
Proof.
  induction 1 as [|c d Hc Hd IH]; simpl.
  - reflexivity.
  - rewrite Hc, IH. reflexivity.
Qed.

Lemma split_dot_nodot_end d :
  Forall (fun c => (c =? 46) = false) d -> split_dot d = [d].
Proof.
  induction 1 as [|c d Hc Hd IH]; simpl; [reflexivity|]. rewrite Hc, IH. reflexivity.
Qed.

(* ------------------------------------------------------------------------------------ *)
(* dotted quads                                                                           *)

Lemma octetb_facts p : octetb p = true ->
  forallb is_digit p = true /\ (1 <= length p <= 3)%nat /\ dec_value p <= 255.
Proof.
  unfold octetb. intros H.
  apply andb_prop in H. destruct H as [H H4].
  apply andb_prop in H. destruct H as [H H3].
  apply andb_prop in H. destruct H as [H1 H2].
  repeat split; try assumption; try lia.
Qed.

Lemma dotted_quad_shape s : dotted_quad s ->
  exists a b c d, s = a ++ 46 :: b ++ 46 :: c ++ 46 :: d /\
                  octetb a = true /\ octetb b = true /\ octetb c = true /\ octetb d = true.
Proof.
  unfold dotted_quad, dotted_quadb. intros H.
  pose proof (join_split_dot s) as J.
  destruct (split_dot s) as [|a [|b [|c [|d [|e l]]]]]; try discriminate.
  apply andb_prop in H. destruct H as [H Hd].
  apply andb_prop in H. destruct H as [H Hc].
  apply andb_prop in H. destruct H as [Ha Hb].
  exists a, b, c, d. simpl in J. repeat split; try assumption.
  rewrite <- J. repeat rewrite <- app_assoc. reflexivity.
Qed.

Lemma dotted_quad_chars s : dotted_quad s -> Forall (fun c => digit_or_dot c = true) s.
Proof.
  intros H. destruct (dotted_quad_shape s H) as [a [b [c [d [-> [Ha [Hb [Hc Hd]]]]]]]].
  apply octetb_facts in Ha, Hb, Hc, Hd.
  destruct Ha as [Ha _], Hb as [Hb _], Hc as [Hc _], Hd as [Hd _].
  repeat (apply Forall_app; split; [apply digits_digit_or_dot; assumption|]; apply Forall_cons; [reflexivity|]).
  apply digits_digit_or_dot, Hd.
Qed.

Lemma dotted_quad_length s : dotted_quad s -> (7 <= length s <= 15)%nat.
Proof.
  intros H. destruct (dotted_quad_shape s H) as [a [b [c [d [-> [Ha [Hb [Hc Hd]]]]]]]].
  apply octetb_facts in Ha, Hb, Hc, Hd.
  repeat (rewrite app_length; simpl length). lia.
Qed.

(* conversely, four octets joined by dots form a dotted quad *)
Lemma dotted_quad_build a b c d :
  octetb a = true -> octetb b = true -> octetb c = true -> octetb d = true ->
  dotted_quad (a ++ 46 :: b ++ 46 :: c ++ 46 :: d).
Proof.
  intros Ha Hb Hc Hd. unfold dotted_quad, dotted_quadb.
  pose proof (octetb_facts a Ha) as [Da _]. pose proof (octetb_facts b Hb) as [Db _].
  pose proof (octetb_facts c Hc) as [Dc _]. pose proof (octetb_facts d Hd) as [Dd _].
  rewrite (split_dot_nodot a) by (apply digits_no_dot, Da).
  rewrite (split_dot_nodot b) by (apply digits_no_dot, Db).
  rewrite (split_dot_nodot c) by (apply digits_no_dot, Dc).
  rewrite (split_dot_nodot_end d) by (apply digits_no_dot, Dd).
  rewrite Ha, Hb, Hc, Hd. reflexivity.
Qed.

Lemma inet_ntoa_dotted w : dotted_quad (inet_ntoa w).
Proof.
  unfold inet_ntoa. simpl app.
  apply dotted_quad_build; apply dec_octet_ok; apply N.mod_lt; discriminate.
Qed.

(* ------------------------------------------------------------------------------------ *)
(* inet_pton                                                                              *)

Lemma fold_dec_lower ds : forall acc,
  acc * 10 ^ N.of_nat (length ds) <= fold_left (fun a d => a * 10 + (d - 48)) ds acc.
Proof.
  induction ds as [|d ds IH]; intros acc.
  - simpl. lia.
  - simpl fold_left. specialize (IH (acc * 10 + (d - 48))).
    replace (N.of_nat (length (d :: ds))) with (N.succ (N.of_nat (length ds))) by (simpl length; lia).
    rewrite N.pow_succ_r'. nia.
Qed.

Lemma pton_octet_octetb p v : pton_octet p = Some v -> octetb p = true /\ v = dec_value p /\ v <= 255.
Proof.
  unfold pton_octet. destruct p as [|c r]; [discriminate|].
  destruct (forallb is_digit (c :: r) && negb ((c =? 48) && negb (length r =? 0)%nat) &&
            (dec_value (c :: r) <=? 255)) eqn:E; [|discriminate].
  intros Hv. inversion Hv; subst v. clear Hv.
  apply andb_prop in E. destruct E as [E E3].
  apply andb_prop in E. destruct E as [E1 E2].
  split; [|split; [reflexivity|lia]].
  unfold octetb. rewrite E1, E3. simpl negb. rewrite !andb_true_r. simpl.
  (* length r <= 2 *)
  apply Nat.leb_le.
  destruct (c =? 48) eqn:Hc.
  - simpl in E2. destruct (length r =? 0)%nat eqn:Hl; [|discriminate]. apply Nat.eqb_eq in Hl. lia.
  - simpl in E1. apply andb_prop in E1. destruct E1 as [Dc _]. apply is_digit_spec in Dc.
    pose proof (fold_dec_lower r (0 * 10 + (c - 48))) as L.
    change (fold_left (fun a d => a * 10 + (d - 48)) r (0 * 10 + (c - 48))) with (dec_value (c :: r)) in L.
    destruct (le_lt_dec (length r) 2) as [Hle|Hgt]; [lia|exfalso].
    assert (Hp : 10 ^ 3 <= 10 ^ N.of_nat (length r)) by (apply N.pow_le_mono_r; lia).
    assert (Hc1 : 1 <= 0 * 10 + (c - 48)) by lia.
    assert (1000 <= dec_value (c :: r)) by (change (10 ^ 3) with 1000 in Hp; nia).
    lia.
Qed.

Lemma inet_pton4_dotted s q : inet_pton4 s = Some q -> dotted_quad s.
Proof.
  unfold inet_pton4, dotted_quad, dotted_quadb.
  destruct (split_dot s) as [|a [|b [|c [|d [|e l]]]]]; try discriminate.
  destruct (pton_octet a) eqn:Ea; [|discriminate].
  destruct (pton_octet b) eqn:Eb; [|discriminate].
  destruct (pton_octet c) eqn:Ec; [|discriminate].
  destruct (pton_octet d) eqn:Ed; [|discriminate].
  intros _.
  apply pton_octet_octetb in Ea, Eb, Ec, Ed.
  destruct Ea as [-> _], Eb as [-> _], Ec as [-> _], Ed as [-> _]. reflexivity.
Qed.

(* ------------------------------------------------------------------------------------ *)
(* the command templates, computed from the format strings of the source                  *)

Definition T_ifconfig := str "PATH=/sbin:/bin ifconfig ".
Definition T_sp := str " ".
Definition T_netmask := str " netmask ".
Definition T_mtu := str " mtu ".

Definition setip_text (ifname q1 q2 m : list N) : list N :=
  T_ifconfig ++ ifname ++ T_sp ++ q1 ++ T_sp ++ q2 ++ T_netmask ++ m.
Definition setmtu_text (ifname dec : list N) : list N :=
  T_ifconfig ++ ifname ++ T_mtu ++ dec.

Lemma setip_fmt_eval i a b m :
  cprintf src_SETIP_FMT [PS i; PS a; PS b; PS m] = Some (setip_text i a b m).
Proof.
  transitivity (Some (T_ifconfig ++ i ++ T_sp ++ a ++ T_sp ++ b ++ T_netmask ++ m ++ [])).
  - vm_compute. reflexivity.
  - rewrite app_nil_r. reflexivity.
Qed.

Lemma setmtu_fmt_eval i u :
  cprintf src_SETMTU_FMT [PS i; PU u] = Some (setmtu_text i (dec_of_N u)).
Proof.
  unfold setmtu_text.
  transitivity (Some (T_ifconfig ++ i ++ T_mtu ++ dec_of_N u ++ [])).
  - unfold src_SETMTU_FMT, T_ifconfig, T_mtu, str. cbn -[dec_of_N]. reflexivity.
  - rewrite app_nil_r. reflexivity.
Qed.

Lemma setip_text_length i a b m :
  length (setip_text i a b m) = (36 + length i + length a + length b + length m)%nat.
Proof.
  unfold setip_text. repeat rewrite app_length.
  change (length T_ifconfig) with 25%nat. change (length T_sp) with 1%nat.
  change (length T_netmask) with 9%nat. lia.
Qed.

Lemma setmtu_text_length i d : length (setmtu_text i d) = (30 + length i + length d)%nat.
Proof.
  unfold setmtu_text. repeat rewrite app_length.
  change (length T_ifconfig) with 25%nat. change (length T_mtu) with 5%nat. lia.
Qed.

Lemma csnprintf_fits size fmt args t :
  cprintf fmt args = Some t -> (length t <= N.to_nat size - 1)%nat -> csnprintf size fmt args = Some t.
Proof. intros H L. unfold csnprintf. rewrite H. rewrite firstn_all2 by exact L. reflexivity. Qed.

(* the interface name fits its buffer (tun.c: static char if_name[250], always terminated) *)
Definition ifname_fits (ifname : list N) : Prop := N.of_nat (length ifname) < src_IFNAME_SIZE.

(* ------------------------------------------------------------------------------------ *)
(* tun_setip / tun_setmtu                                                                 *)

(* every address that is interpolated into the command line is validated with inet_pton *)
Definition cfg_safe (g : setip_cfg) : bool :=
  (if arg1_other g then chk_pton_other g else chk_pton_ip g) &&
  (if arg2_other g then chk_pton_other g else chk_pton_ip g).

Lemma pton_ok_dotted s : pton_ok s = true -> dotted_quad s.
Proof.
  unfold pton_ok. destruct (inet_pton4 s) as [q|] eqn:E; [|discriminate].
  intros _. exact (inet_pton4_dotted s q E).
Qed.

Lemma setip_checks_ip g ip other :
  setip_checks g ip other = true -> chk_pton_ip g = true -> dotted_quad ip.
Proof.
  unfold setip_checks. intros H Hc. rewrite Hc in H. simpl in H.
  apply andb_prop in H. destruct H as [H _]. apply andb_prop in H. destruct H as [_ H].
  apply pton_ok_dotted, H.
Qed.

Lemma setip_checks_other g ip other :
  setip_checks g ip other = true -> chk_pton_other g = true -> dotted_quad other.
Proof.
  unfold setip_checks. intros H Hc. rewrite Hc in H. simpl in H.
  apply andb_prop in H. destruct H as [_ H]. apply pton_ok_dotted, H.
Qed.

Lemma setip_arg_dotted g ip other (sel : bool) :
  setip_checks g ip other = true ->
  (if sel then chk_pton_other g else chk_pton_ip g) = true ->
  dotted_quad (setip_arg sel ip other).
Proof.
  intros H Hs. destruct sel; simpl.
  - exact (setip_checks_other g ip other H Hs).
  - exact (setip_checks_ip g ip other H Hs).
Qed.

Lemma tun_setip_cmd_checks g mask_of ifname ip other nb c :
  tun_setip_cmd_g g mask_of ifname ip other nb = Some c -> setip_checks g ip other = true.
Proof.
  unfold tun_setip_cmd_g. destruct ((nb <? 0)%Z || (32 <? nb)%Z); [discriminate|].
  destruct (setip_checks g ip other); [reflexivity|discriminate].
Qed.

Lemma tun_setip_cmd_form g mask_of ifname ip other nb c :
  cfg_safe g = true -> ifname_fits ifname ->
  tun_setip_cmd_g g mask_of ifname ip other nb = Some c ->
  dotted_quad (setip_arg (arg1_other g) ip other) /\ dotted_quad (setip_arg (arg2_other g) ip other) /\
  c = setip_text ifname (setip_arg (arg1_other g) ip other) (setip_arg (arg2_other g) ip other)
                 (inet_ntoa (mask_of nb)).
Proof.
  intros Hs Hif H. pose proof (tun_setip_cmd_checks _ _ _ _ _ _ _ H) as Hc.
  unfold cfg_safe in Hs. apply andb_prop in Hs. destruct Hs as [S1 S2].
  pose proof (setip_arg_dotted g ip other _ Hc S1) as D1.
  pose proof (setip_arg_dotted g ip other _ Hc S2) as D2.
  split; [exact D1|]. split; [exact D2|].
  unfold tun_setip_cmd_g in H. destruct ((nb <? 0)%Z || (32 <? nb)%Z); [discriminate|]. rewrite Hc in H.
  rewrite (csnprintf_fits _ _ _ _ (setip_fmt_eval ifname _ _ (inet_ntoa (mask_of nb)))) in H.
  - symmetry. injection H as H. exact H.
  - rewrite setip_text_length.
    pose proof (dotted_quad_length _ D1). pose proof (dotted_quad_length _ D2).
    pose proof (dotted_quad_length _ (inet_ntoa_dotted (mask_of nb))).
    unfold ifname_fits, src_IFNAME_SIZE in Hif. unfold src_SETIP_CMDLINE_SIZE.
    change (N.to_nat 512) with 512%nat. lia.
Qed.

Lemma mtu_bounds_ok : 200 <= src_MTU_LO /\ src_MTU_HI <= 1500.
Proof. split; vm_compute; discriminate. Qed.

Lemma tun_setmtu_cmd_form ifname mtu c :
  ifname_fits ifname ->
  tun_setmtu_cmd ifname mtu = Some c ->
  exists u, 201 <= u <= 1500 /\ u = Z.to_N (mtu mod 2 ^ 32) /\ c = setmtu_text ifname (dec_of_N u).
Proof.
  intros Hif. unfold tun_setmtu_cmd. set (u := Z.to_N (mtu mod 2 ^ 32)).
  destruct ((src_MTU_LO <? u) && (u <=? src_MTU_HI)) eqn:E; [|discriminate].
  intros H. destruct mtu_bounds_ok as [B1 B2].
  exists u. split; [lia|]. split; [reflexivity|].
  rewrite (csnprintf_fits _ _ _ _ (setmtu_fmt_eval ifname u)) in H.
  - symmetry. injection H as H. exact H.
  - rewrite setmtu_text_length.
    assert (Hu : u < 1501) by lia.
    destruct (dec_small_ok u Hu) as [_ Hl].
    unfold ifname_fits, src_IFNAME_SIZE in Hif. unfold src_SETMTU_CMDLINE_SIZE.
    change (N.to_nat 512) with 512%nat. lia.
Qed.

(* ------------------------------------------------------------------------------------ *)
(* handshake_login                                                                        *)

(* the two admissible shapes of a system() argument *)
Definition shell_cmd_ok (ifname c : list N) : Prop :=
  (exists q1 q2 m, dotted_quad q1 /\ dotted_quad q2 /\ dotted_quad m /\ c = setip_text ifname q1 q2 m) \/
  (exists u, 201 <= u <= 1500 /\ c = setmtu_text ifname (dec_of_N u)).

Lemma login_step_ok g mask_of ifname ok buf c :
  cfg_safe g = true -> ifname_fits ifname ->
  In c (fst (login_step_g g mask_of ifname ok buf)) -> shell_cmd_ok ifname c.
Proof.
  intros Hs Hif. unfold login_step_g.
  destruct (prefixb [76; 78; 65; 75] (cstr buf)); [intros []|].
  destruct (prefixb [66; 65; 68; 73; 80] (cstr buf)); [intros []|].
  destruct (parse_login_reply (cstr buf)) as [[[[server client] mtu] nm]|]; [|intros []].
  destruct (tun_setip_cmd_g g mask_of ifname client server nm) as [c1|] eqn:E1; [|intros []].
  destruct (tun_setip_cmd_form _ _ _ _ _ _ _ Hs Hif E1) as [D1 [D2 F1]].
  assert (G1 : shell_cmd_ok ifname c1).
  { left. eexists. eexists. exists (inet_ntoa (mask_of nm)).
    split; [exact D1|]. split; [exact D2|]. split; [apply inet_ntoa_dotted|exact F1]. }
  destruct ok.
  - destruct (tun_setmtu_cmd ifname mtu) as [c2|] eqn:E2.
    + destruct (tun_setmtu_cmd_form _ _ _ Hif E2) as [u [Hu [_ F2]]].
      simpl. intros [<-|[<-|[]]]; [exact G1|]. right. exists u. split; assumption.
    + simpl. intros [<-|[]]. exact G1.
  - simpl. intros [<-|[]]. exact G1.
Qed.

Lemma login_session_go_ok g mask_of ifname ok tries : forall bufs c,
  cfg_safe g = true -> ifname_fits ifname ->
  In c (login_session_go g mask_of ifname ok tries bufs) -> shell_cmd_ok ifname c.
Proof.
  induction tries as [|n IH]; intros bufs c Hs Hif; simpl; [intros []|].
  destruct bufs as [|[b|] rest]; [intros []| |apply IH; assumption].
  pose proof (login_step_ok g mask_of ifname ok b c Hs Hif) as S.
  destruct (login_step_g g mask_of ifname ok b) as [cmds more]. simpl in S.
  destruct more; [|exact S].
  intros H. apply in_app_or in H. destruct H as [H|H]; [apply S, H|apply (IH rest c Hs Hif H)].
Qed.

(* no command at all when a field that the source validates is not a strict dotted quad, or
   when the reply does not parse *)
Lemma login_step_reject g mask_of ifname ok buf :
  (forall server client mtu nm, parse_login_reply (cstr buf) = Some (server, client, mtu, nm) ->
       (chk_pton_ip g = true /\ ~ dotted_quad client) \/ (chk_pton_other g = true /\ ~ dotted_quad server)) ->
  fst (login_step_g g mask_of ifname ok buf) = [].
Proof.
  intros H. unfold login_step_g.
  destruct (prefixb [76; 78; 65; 75] (cstr buf)); [reflexivity|].
  destruct (prefixb [66; 65; 68; 73; 80] (cstr buf)); [reflexivity|].
  destruct (parse_login_reply (cstr buf)) as [[[[server client] mtu] nm]|]; [|reflexivity].
  specialize (H server client mtu nm eq_refl).
  destruct (tun_setip_cmd_g g mask_of ifname client server nm) as [c1|] eqn:E1; [|reflexivity].
  exfalso. pose proof (tun_setip_cmd_checks _ _ _ _ _ _ _ E1) as Hc.
  destruct H as [[Hv Hn]|[Hv Hn]]; apply Hn.
  - exact (setip_checks_ip g client server Hc Hv).
  - exact (setip_checks_other g client server Hc Hv).
Qed.

(* the configuration read from the current source *)
Lemma src_cfg_safe : cfg_safe src_setip_cfg = true.
Proof. vm_compute. reflexivity. Qed.

(* ------------------------------------------------------------------------------------ *)
(* provenance of the bytes of a command                                                   *)

Inductive seg := Tpl (s : list N) | Loc (s : list N) | Peer (s : list N).
Definition seg_bytes (g : seg) : list N := match g with Tpl s | Loc s | Peer s => s end.
Definition flatten (l : list seg) : list N := concat (map seg_bytes l).

(* shell metacharacters and separators: space, tab, newline, CR, VT, FF, double quote, quote,
   backquote, semicolon, bar, ampersand, dollar, parentheses, angle brackets, backslash, star,
   question mark, square brackets, braces, bang, hash, tilde, equals, percent, NUL *)
Definition shell_meta : list N :=
  [32; 9; 10; 13; 11; 12; 34; 39; 96; 59; 124; 38; 36; 40; 41; 60; 62; 92; 42; 63; 91; 93; 123; 125; 33; 35; 126; 61; 37; 0].

Lemma digit_or_dot_not_meta b : digit_or_dot b = true -> ~ In b shell_meta.
Proof.
  intros H Hin.
  assert (Hs : forallb (fun m => negb (digit_or_dot m)) shell_meta = true) by (vm_compute; reflexivity).
  rewrite forallb_forall in Hs. specialize (Hs b Hin). rewrite H in Hs. discriminate.
Qed.

Definition peer_byte_ok (b : N) : Prop := digit_or_dot b = true /\ ~ In b shell_meta.

Definition seg_ok (ifname : list N) (g : seg) : Prop :=
  match g with
  | Tpl s => In s [T_ifconfig; T_sp; T_netmask; T_mtu]
  | Loc s => s = ifname
  | Peer s => Forall peer_byte_ok s
  end.

Lemma peer_ok_of_chars s : Forall (fun c => digit_or_dot c = true) s -> Forall peer_byte_ok s.
Proof.
  intros H. eapply Forall_impl; [|exact H]. intros b Hb. split; [exact Hb|apply digit_or_dot_not_meta, Hb].
Qed.

Lemma shell_cmd_ok_segments ifname c : shell_cmd_ok ifname c ->
  exists segs, c = flatten segs /\ Forall (seg_ok ifname) segs.
Proof.
  intros [[q [q' [m [Dq [Dq' [Dm ->]]]]]]|[u [Hu ->]]].
  - exists [Tpl T_ifconfig; Loc ifname; Tpl T_sp; Peer q; Tpl T_sp; Peer q'; Tpl T_netmask; Peer m].
    split.
    + unfold flatten, setip_text. simpl. rewrite app_nil_r. reflexivity.
    + pose proof (peer_ok_of_chars _ (dotted_quad_chars _ Dq)) as Pq.
      pose proof (peer_ok_of_chars _ (dotted_quad_chars _ Dq')) as Pq'.
      pose proof (peer_ok_of_chars _ (dotted_quad_chars _ Dm)) as Pm.
      repeat (apply Forall_cons); try apply Forall_nil; simpl; auto 10.
  - exists [Tpl T_ifconfig; Loc ifname; Tpl T_mtu; Peer (dec_of_N u)].
    split.
    + unfold flatten, setmtu_text. simpl. rewrite app_nil_r. reflexivity.
    + pose proof (peer_ok_of_chars _ (digits_digit_or_dot _ (dec_of_N_digits u))) as Pu.
      repeat (apply Forall_cons); try apply Forall_nil; simpl; auto 10.
Qed.

(* ------------------------------------------------------------------------------------ *)
(* the netmask word for the documented range                                              *)

Lemma mask_x86_cidr nb : (1 <= nb <= 32)%Z -> mask_x86 nb = 2 ^ 32 - 2 ^ (32 - Z.to_N nb).
Proof.
  intros H.
  assert (Hs : forallb (fun k => (k =? 0) || (mask_x86 (Z.of_N k) =? 2 ^ 32 - 2 ^ (32 - k))) (nrange 33) = true)
    by (vm_compute; reflexivity).
  pose proof (sweep1 _ _ Hs (Z.to_N nb)) as H1. cbv beta in H1.
  assert (Hlt : Z.to_N nb < N.of_nat 33) by lia. specialize (H1 Hlt).
  rewrite Z2N.id in H1 by lia. lia.
Qed.
