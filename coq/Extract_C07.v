(* Extraction of the executable model, used only by the correspondence checks.
   ExtrOcamlBasic only: bool/option/unit/list/prod/sumbool/sumor are mapped to OCaml's;
   N, positive, nat stay as extracted datatypes; no Extract Constant. *)
From Coq Require Import Extraction ExtrOcamlBasic.
From Iodine Require Import Codec.
Extraction Language OCaml.
Set Extraction Optimize.
Extraction "extracted/model_c07.ml" Codec.encode Codec.decode Codec.b32 Codec.b64 Codec.b64u Codec.b128
  Codec.b32_5to8 Codec.b32_8to5 Codec.chunks Codec.toupper.
