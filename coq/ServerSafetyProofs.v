(* ServerSafetyProofs.v -- C05, part 1: the inductive invariant of the iodined session table
   (every length / offset / ring index stays inside the C arrays) and its preservation by the
   per-user operations of Server.v: packet queue, DNS cache, query memories, fragment emission,
   downstream acks.  Lemmas only; the final statements are in Properties_C05.v.

   Buffer sizes the invariant refers to (src/user.h, src/iodined.c):
     struct packet.data[64*1024]      p_data of u_in / u_out / every u_queue entry
     dnscache_answer[DNSCACHE_LEN][4096], pkt[4096] in send_chunk_or_dataless
     qmem*_cmc[LEN * 4], outpacketq[OUTPACKETQ_LEN], struct query.name[256] *)
From Coq Require Import List NArith ZArith Arith Bool Lia ZifyBool ZifyNat ZifyN.
From RecordUpdate Require Import RecordUpdate.
From Iodine Require Import Generated.SrcConsts Base Codec Hostname DnsName DnsMsg Domain Server.
Import ListNotations.
Local Open Scope N_scope.

Ltac Zify.zify_post_hook ::= Z.div_mod_to_equations.

Definition K64 : nat := N.to_nat 65536.
Definition K4096 : nat := N.to_nat 4096.


(* ---- generic list facts -------------------------------------------------------------- *)

Lemma set_nth_length {A} (l : list A) i x : length (set_nth l i x) = length l.
Proof.
  unfold set_nth. destruct l as [|a l]; [destruct i; reflexivity|].
  rewrite !app_length, firstn_length, skipn_length.
  destruct (i <? length (a :: l))%nat eqn:E; cbn [length] in *; lia.
Qed.

Lemma Forall_firstn {A} (P : A -> Prop) n : forall l, Forall P l -> Forall P (firstn n l).
Proof.
  induction n as [|n IH]; intros l H; [constructor|].
  destruct l as [|a l]; [constructor|]. inversion H; subst. cbn. constructor; auto.
Qed.

Lemma Forall_skipn {A} (P : A -> Prop) n : forall l, Forall P l -> Forall P (skipn n l).
Proof.
  induction n as [|n IH]; intros l H; [exact H|].
  destruct l as [|a l]; [constructor|]. inversion H; subst. cbn. auto.
Qed.

Lemma set_nth_Forall {A} (P : A -> Prop) (l : list A) i x : Forall P l -> P x -> Forall P (set_nth l i x).
Proof.
  intros Hl Hx. unfold set_nth. apply Forall_app. split; [apply Forall_firstn, Hl|].
  apply Forall_app. split; [|apply Forall_skipn, Hl].
  destruct l; [constructor|]. destruct (_ <? _)%nat; constructor; auto.
Qed.

Lemma nth_Forall {A} (P : A -> Prop) (l : list A) i d : Forall P l -> P d -> P (nth i l d).
Proof.
  intros Hl Hd. destruct (Nat.lt_ge_cases i (length l)) as [H|H].
  - rewrite Forall_forall in Hl. apply Hl, nth_In, H.
  - rewrite nth_overflow by exact H. exact Hd.
Qed.

Lemma upd_nil i f : upd [] i f = [].
Proof. unfold upd. destruct i; reflexivity. Qed.
Lemma upd_cons_0 a (st : sstate) f : upd (a :: st) 0 f = f a :: st.
Proof. reflexivity. Qed.
Lemma upd_cons_S a (st : sstate) i f : upd (a :: st) (S i) f = a :: upd st i f.
Proof. reflexivity. Qed.

Lemma upd_length (st : sstate) f : forall i, length (upd st i f) = length st.
Proof.
  induction st as [|a st IH]; intros i; [rewrite upd_nil; reflexivity|].
  destruct i; [reflexivity|]. rewrite upd_cons_S. cbn [length]. rewrite IH. reflexivity.
Qed.

Lemma upd_Forall (P : suser -> Prop) f : forall (st : sstate) i,
  Forall P st -> (forall u, nth_error st i = Some u -> P (f u)) -> Forall P (upd st i f).
Proof.
  induction st as [|a st IH]; intros i Hst Hf; [rewrite upd_nil; constructor|].
  inversion Hst; subst. destruct i.
  - rewrite upd_cons_0. constructor; [apply Hf; reflexivity|assumption].
  - rewrite upd_cons_S. constructor; [assumption|]. apply IH; [assumption|]. intros u Hu. apply Hf. exact Hu.
Qed.

Lemma upd_other f : forall (st : sstate) i j, j <> i -> nth_error (upd st i f) j = nth_error st j.
Proof.
  induction st as [|a st IH]; intros i j Hne; [rewrite upd_nil; reflexivity|].
  destruct i.
  - rewrite upd_cons_0. destruct j; [congruence|reflexivity].
  - rewrite upd_cons_S. destruct j; [reflexivity|]. cbn. apply IH. congruence.
Qed.

Lemma upd_same f : forall (st : sstate) i u, nth_error st i = Some u -> nth_error (upd st i f) i = Some (f u).
Proof.
  induction st as [|a st IH]; intros i u H; [destruct i; discriminate|].
  destruct i; [cbn in H; inversion H; subst; reflexivity|]. rewrite upd_cons_S. cbn. apply IH. exact H.
Qed.

Lemma upd_none f (st : sstate) i : nth_error st i = None -> nth_error (upd st i f) i = None.
Proof. intros E. apply nth_error_None. rewrite upd_length. apply nth_error_None, E. Qed.

Lemma getu_nth_error (st : sstate) i u : nth_error st i = Some u -> getu st i = u.
Proof. intros H. unfold getu. apply nth_error_nth. exact H. Qed.

Lemma getu_upd_same (st : sstate) i f : (i < length st)%nat -> getu (upd st i f) i = f (getu st i).
Proof.
  intros Hi. destruct (nth_error st i) as [u|] eqn:E; [|apply nth_error_None in E; lia].
  rewrite (getu_nth_error _ _ _ (upd_same f st i u E)), (getu_nth_error _ _ _ E). reflexivity.
Qed.

Lemma getu_upd_other (st : sstate) i j f : j <> i -> getu (upd st i f) j = getu st j.
Proof.
  intros Hne. unfold getu. pose proof (upd_other f st i j Hne) as H.
  destruct (nth_error st j) as [u|] eqn:E.
  - rewrite (nth_error_nth _ _ _ H), (nth_error_nth _ _ _ E). reflexivity.
  - rewrite !nth_overflow; [reflexivity| |]; apply nth_error_None; assumption.
Qed.

(* cbn is used only to reduce record projections of record updates *)
#[global] Arguments set_nth : simpl never.
#[global] Arguments QLEN : simpl never.
#[global] Arguments CACHELEN : simpl never.
#[global] Arguments PINGLEN : simpl never.
#[global] Arguments DATALEN : simpl never.
#[global] Arguments K64 : simpl never.
#[global] Arguments K4096 : simpl never.
#[global] Arguments N.to_nat : simpl never.
#[global] Arguments N.of_nat : simpl never.
#[global] Arguments firstn : simpl never.
#[global] Arguments skipn : simpl never.
#[global] Arguments nth : simpl never.
#[global] Arguments Nat.leb : simpl never.
#[global] Arguments Nat.ltb : simpl never.
#[global] Arguments N.ltb : simpl never.
#[global] Arguments N.leb : simpl never.
#[global] Arguments N.eqb : simpl never.
#[global] Arguments N.min : simpl never.
#[global] Arguments N.modulo : simpl never.
#[global] Arguments N.div : simpl never.
#[global] Arguments N.add : simpl never.
#[global] Arguments N.sub : simpl never.
#[global] Arguments N.mul : simpl never.
#[global] Arguments Z.add : simpl never.
#[global] Arguments Z.sub : simpl never.
#[global] Arguments Z.modulo : simpl never.
#[global] Arguments Z.of_N : simpl never.
#[global] Arguments Z.to_N : simpl never.
#[global] Arguments Z.to_nat : simpl never.
#[global] Arguments upd : simpl never.
#[global] Arguments getu : simpl never.

(* ---- the invariant ---------------------------------------------------------------------- *)

Definition hq_ok (q : hq) : Prop := (length (h_name q) <= 255)%nat.

(* the reassembly buffer of a session (users[i].inpacket) *)
Record in_ok (p : pkt) : Prop := mk_in_ok {
  in_len_off : p_len p = p_offset p;
  in_off : p_offset p <= 65536;
  in_data : (length (p_data p) <= K64)%nat;
  in_seq : p_seqno p < 8;
  in_frag : (0 <= p_fragment p <= 15)%Z;
  (* the MIN(read, sizeof(data) - offset) clamp of the data handler is never needed: a fragment is
     accepted only with a strictly larger 4-bit fragment number, and carries < 256 bytes *)
  in_off_frag : p_offset p <= (Z.to_N (p_fragment p) + 1) * 256 }.

(* the packet being sent downstream (users[i].outpacket) *)
Record outp_ok (p : pkt) : Prop := mk_outp_ok {
  op_off : p_offset p + p_sentlen p <= p_len p;
  op_len : p_len p <= N.of_nat (length (p_data p));
  op_data : (length (p_data p) <= K64)%nat;
  op_seq : p_seqno p < 8;
  op_frag : (-128 <= p_fragment p <= 127)%Z }.

(* an entry of users[i].outpacketq *)
Record qe_ok (p : pkt) : Prop := mk_qe_ok {
  qe_len : p_len p <= N.of_nat (length (p_data p));
  qe_data : (length (p_data p) <= K64)%nat }.

Record ce_ok (e : cache_entry) : Prop := mk_ce_ok {
  ce_len_4096 : ce_len e <= 4096;
  ce_len_init : ce_len e <= N.of_nat (length (ce_answer e));
  ce_ans_4096 : (length (ce_answer e) <= K4096)%nat;
  ce_name_255 : (length (ce_name e) <= 255)%nat }.

Definition qm_ok (e : qmem_entry) : Prop := length (qm_cmc e) = 4%nat.

(* what survives of in_ok while a raw-mode data frame is being handed to handle_full_packet
   (inpacket.len = frame length, inpacket.offset = 0 until the packet is done) *)
Record in_okw (p : pkt) : Prop := mk_in_okw {
  inw_data : (length (p_data p) <= K64)%nat;
  inw_seq : p_seqno p < 8;
  inw_frag : (0 <= p_fragment p <= 15)%Z }.

Lemma in_ok_w p : in_ok p -> in_okw p.
Proof. intros []. constructor; assumption. Qed.

(* the invariant of one session; P is the condition on the reassembly buffer (in_ok, or in_okw
   inside handle_raw_data) *)
Record user_ok_gen (P : pkt -> Prop) (u : suser) : Prop := mk_user_ok {
  uo_in : P (u_in u);
  uo_out : outp_ok (u_out u);
  uo_resent : u_resent u <= 6;
  uo_q : hq_ok (u_q u);
  uo_qs : hq_ok (u_qs u);
  uo_seed : u_seed u < 2147483648;
  uo_queue_len : length (u_queue u) = QLEN;
  uo_queue : Forall qe_ok (u_queue u);
  uo_queue_next : (u_queue_next u < QLEN)%nat;
  uo_queue_filled : (u_queue_filled u <= QLEN)%nat;
  uo_cache_len : length (u_cache u) = CACHELEN;
  uo_cache : Forall ce_ok (u_cache u);
  uo_cache_last : (u_cache_last u < CACHELEN)%nat;
  uo_ping_len : length (u_pingmem u) = PINGLEN;
  uo_ping : Forall qm_ok (u_pingmem u);
  uo_ping_last : (u_pingmem_last u < PINGLEN)%nat;
  uo_data_len : length (u_datamem u) = DATALEN;
  uo_data : Forall qm_ok (u_datamem u);
  uo_data_last : (u_datamem_last u < DATALEN)%nat }.

Notation user_ok := (user_ok_gen in_ok).

Definition state_ok (st : sstate) : Prop := Forall user_ok st.

(* the ring sizes are positive (otherwise "index < LEN" could not hold initially) *)
Lemma ring_sizes : (0 < QLEN /\ 0 < CACHELEN /\ 0 < PINGLEN /\ 0 < DATALEN)%nat.
Proof. vm_compute. repeat split; repeat constructor. Qed.

Lemma hq0_ok : hq_ok hq0.
Proof. unfold hq_ok. cbn. lia. Qed.

Lemma pkt0_in_ok : in_ok pkt0.
Proof. constructor; cbn; unfold K64; lia. Qed.
Lemma pkt0_outp_ok : outp_ok pkt0.
Proof. constructor; cbn; unfold K64; lia. Qed.
Lemma pkt0_qe_ok : qe_ok pkt0.
Proof. constructor; cbn; unfold K64; lia. Qed.
Lemma ce0_ok : ce_ok ce0.
Proof. constructor; cbn; unfold K4096; lia. Qed.

Lemma Forall_repeat {A} (P : A -> Prop) x n : P x -> Forall P (repeat x n).
Proof. intros H. induction n; cbn; constructor; auto. Qed.

Lemma user_init_ok_gen (P : pkt -> Prop) ip : P pkt0 -> user_ok_gen P (user_init ip).
Proof.
  intros HP0. pose proof ring_sizes as (HQ & HC & HP & HD).
  constructor; cbn; try exact HP0; try apply pkt0_outp_ok; try apply hq0_ok;
    try apply repeat_length; try lia;
    try (apply Forall_repeat; first [apply pkt0_qe_ok | apply ce0_ok | reflexivity]).
Qed.

Lemma user_init_ok ip : user_ok (user_init ip).
Proof. apply user_init_ok_gen, pkt0_in_ok. Qed.

Lemma init_state_ok ips : state_ok (init_state ips) /\ length (init_state ips) = length ips.
Proof.
  unfold init_state, state_ok. split; [|apply map_length].
  apply Forall_forall. intros u Hu. apply in_map_iff in Hu. destruct Hu as [ip [<- _]]. apply user_init_ok.
Qed.

Lemma getu_ok (st : sstate) i : state_ok st -> user_ok (getu st i).
Proof. intros H. unfold getu. apply nth_Forall; [exact H|apply user_init_ok]. Qed.

Lemma upd_ok (st : sstate) i f : state_ok st -> (forall u, user_ok u -> user_ok (f u)) -> state_ok (upd st i f).
Proof.
  intros Hst Hf. apply upd_Forall; [exact Hst|]. intros u Hu. apply Hf.
  unfold state_ok in Hst. rewrite Forall_forall in Hst. apply Hst. eapply nth_error_In, Hu.
Qed.

Lemma upd_ok_const (st : sstate) i u' : state_ok st -> user_ok u' -> state_ok (upd st i (fun _ => u')).
Proof. intros Hst Hu. apply upd_ok; auto. Qed.

(* a tactic for updates of fields: destruct the invariant, rebuild it field by field *)
Ltac dok H := destruct H as [I_in I_out I_res I_q I_qs I_seed I_ql I_qf I_qn I_qfill I_cl I_cf I_clast I_pl I_pf I_plast I_dl I_df I_dlast].
Ltac uok H := dok H; constructor; cbn; auto.

(* ---- index-dependent form of the state invariant ----------------------------------------------- *)

Definition sok (Q : nat -> pkt -> Prop) (st : sstate) : Prop :=
  forall j u, nth_error st j = Some u -> user_ok_gen (Q j) u.

Lemma sok_state_ok st : state_ok st <-> sok (fun _ => in_ok) st.
Proof.
  unfold state_ok, sok. rewrite Forall_forall. split.
  - intros H j u Hu. apply H. eapply nth_error_In, Hu.
  - intros H u Hu. apply In_nth_error in Hu. destruct Hu as [j Hj]. eapply H, Hj.
Qed.

Lemma sok_upd Q (st : sstate) i f : sok Q st ->
  (forall u, user_ok_gen (Q i) u -> user_ok_gen (Q i) (f u)) -> sok Q (upd st i f).
Proof.
  intros H Hf j u Hu. destruct (Nat.eq_dec j i) as [->|Hne].
  - destruct (nth_error st i) as [u0|] eqn:E.
    + rewrite (upd_same f st i u0 E) in Hu. inversion Hu; subst. apply Hf. eapply H, E.
    + apply nth_error_None in E.
      assert (nth_error (upd st i f) i = None) by (apply nth_error_None; rewrite upd_length; exact E).
      congruence.
  - rewrite upd_other in Hu by exact Hne. eapply H, Hu.
Qed.

Lemma sok_getu Q (st : sstate) i : sok Q st -> (forall j, Q j pkt0) -> user_ok_gen (Q i) (getu st i).
Proof.
  intros H H0. unfold getu. destruct (nth_error st i) as [u|] eqn:E.
  - rewrite (nth_error_nth _ _ _ E). eapply H, E.
  - rewrite nth_overflow by (apply nth_error_None; exact E). apply user_init_ok_gen, H0.
Qed.

Lemma user_ok_gen_impl (P P' : pkt -> Prop) u : (forall p, P p -> P' p) -> user_ok_gen P u -> user_ok_gen P' u.
Proof. intros HPP H. dok H. constructor; auto. Qed.

(* weak at slot k, strong elsewhere *)
Definition Qw (k : nat) : nat -> pkt -> Prop := fun j => if (j =? k)%nat then in_okw else in_ok.

Lemma Qw_pkt0 k j : Qw k j pkt0.
Proof. unfold Qw. destruct (j =? k)%nat; [apply in_ok_w|]; apply pkt0_in_ok. Qed.

Lemma sok_weaken k st : state_ok st -> sok (Qw k) st.
Proof.
  intros H j u Hu. apply sok_state_ok in H. specialize (H j u Hu). unfold Qw.
  destruct (j =? k)%nat; [|exact H]. eapply user_ok_gen_impl; [apply in_ok_w|exact H].
Qed.
