(* DnsMsgExamples_C09.v -- non-vacuity of the C09 theorems: the hypotheses are satisfiable, and
   concrete runs of the model (vm_compute) at and just above every capacity of the table.  Kept in
   its own file so that the (slow, ~80 s) computations are cached between runs of the check. *)
From Coq Require Import List NArith ZArith Arith Bool Lia.
From Iodine Require Import Base Codec CodecProofs Hostname DnsName DnsWf DnsMsg
  DnsMsgProofs_Base DnsMsgProofs_Null DnsMsgProofs_Txt DnsMsgProofs_Name DnsMsgProofs_Mx DnsMsgProofs_MxClient DnsMsgProofs.
Import ListNotations.
Local Open Scope N_scope.

(* ---- non-vacuity: concrete runs of the model at and just above each capacity ---------------------- *)

Definition demo_labels : list (list N) :=
  [[112; 97; 97; 97; 113]; [116]; [101; 120; 97; 109; 112; 108; 101]; [99; 111; 109]].   (* paaaq.t.example.com *)
Definition demo_q (ty : N) : query := {| q_name := dotted demo_labels; q_type := ty; q_id := 4660 |}.
Definition demo_p (n : N) : list N := map (fun i => (N.of_nat i * 37 + 11) mod 256) (seq 0 (N.to_nat n)).

Fixpoint list_eqb (a b : list N) : bool :=
  match a, b with
  | [], [] => true
  | x :: a', y :: b' => (x =? y) && list_eqb a' b'
  | _, _ => false
  end.

(* (return value, extracted = payload?, extracted = prefix of that length?) *)
Definition demo_run (ty e n buflen : N) : option (Z * bool * bool) :=
  match fst (write_dns (demo_q ty) (demo_p n) e (0%nat, 0%nat)) with
  | Some d => let r := client_extract (N.to_nat buflen) d (length d) in
              Some (da_rv r, list_eqb (da_out r) (demo_p n),
                    list_eqb (da_out r) (firstn (Z.to_nat (da_rv r)) (demo_p n)))
  | None => None
  end.

Example C09_demo_setting : forall ty, wf_qname (q_name (demo_q ty)) /\ q_id (demo_q ty) < 65536 /\
  bytes_ok (demo_p 4096) /\ length (demo_p 4096) = N.to_nat 4096 /\ client_fits ty (N.to_nat 4096) (N.to_nat 65536).
Proof.
  intros ty. split; [|split; [|split; [|split]]].
  - exists demo_labels. split; [discriminate|]. split; [|split; [reflexivity|vm_compute; lia]].
    repeat constructor; cbn; lia.
  - reflexivity.
  - apply bytes_okb_ok. vm_compute. reflexivity.
  - vm_compute. reflexivity.
  - apply client_fits_64k. lia.
Qed.

Example C09_demo_null :
  demo_run T_NULL 84 4096 65536 = Some (4096%Z, true, true) /\
  demo_run T_NULL 84 4097 65536 = Some (4096%Z, false, true) /\
  demo_run T_PRIVATE 86 4096 4096 = Some (4096%Z, true, true).
Proof. vm_compute. repeat split. Qed.

Example C09_demo_txt :
  demo_run T_TXT 84 2559 65536 = Some (2559%Z, true, true) /\
  demo_run T_TXT 84 2560 65536 = Some (0%Z, false, true) /\
  demo_run T_TXT 83 3071 65536 = Some (3071%Z, true, true) /\
  demo_run T_TXT 83 3072 65536 = Some (0%Z, false, true) /\
  demo_run T_TXT 85 3071 65536 = Some (3071%Z, true, true) /\
  demo_run T_TXT 85 3072 65536 = Some (0%Z, false, true) /\
  demo_run T_TXT 86 3583 65536 = Some (3583%Z, true, true) /\
  demo_run T_TXT 86 3584 65536 = Some (0%Z, false, true) /\
  demo_run T_TXT 82 4095 65536 = Some (4095%Z, true, true) /\
  demo_run T_TXT 82 4096 65536 = Some (0%Z, false, true).
Proof. vm_compute. repeat split. Qed.

Example C09_demo_cname :
  demo_run T_CNAME 84 153 65536 = Some (153%Z, true, true) /\
  demo_run T_CNAME 84 154 65536 = Some (153%Z, false, true) /\
  demo_run T_CNAME 83 183 65536 = Some (183%Z, true, true) /\
  demo_run T_CNAME 83 184 65536 = Some (183%Z, false, true) /\
  demo_run T_A 85 183 65536 = Some (183%Z, true, true) /\
  demo_run T_A 85 184 65536 = Some (183%Z, false, true) /\
  demo_run T_A 86 214 4096 = Some (214%Z, true, true) /\
  demo_run T_A 86 215 4096 = Some (214%Z, false, true).
Proof. vm_compute. repeat split. Qed.

Example C09_demo_mx :
  demo_run T_MX 84 4096 65536 = Some (4096%Z, true, true) /\
  demo_run T_SRV 86 4096 65536 = Some (4096%Z, true, true) /\
  demo_run T_MX 84 2295 4096 = Some (2295%Z, true, true) /\
  demo_run T_SRV 83 154 65536 = Some (154%Z, true, true).
Proof. vm_compute. repeat split. Qed.
