(* StartupProofs.v -- the buffer main() prepares is the zero-padded first 32 bytes of the password, so the login
   computed over it is the login of the password; the limit of -M is within 10..255. *)
From Coq Require Import List NArith ZArith Arith Bool Lia.
From Iodine Require Import Base Login LoginProofs Startup.
Import ListNotations.

Lemma pw_buffer_length pw : length (pw_buffer pw) = 33%nat.
Proof.
  unfold pw_buffer. rewrite app_length, repeat_length.
  assert (length (firstn 32 pw) <= 32)%nat by apply firstn_le_length. lia.
Qed.

Lemma pw_buffer_terminated pw : nth 32 (pw_buffer pw) 1%N = 0%N.
Proof.
  unfold pw_buffer. set (p := firstn 32 pw).
  assert (H : (length p <= 32)%nat) by apply firstn_le_length.
  rewrite app_nth2 by lia.
  destruct (nth_in_or_default (32 - length p) (repeat 0%N (33 - length p)) 1%N) as [Hin|Hd].
  - apply repeat_spec in Hin. exact Hin.
  - exfalso. revert Hd. rewrite nth_indep with (d' := 0%N) by (rewrite repeat_length; lia).
    intros Hd. assert (In (nth (32 - length p) (repeat 0%N (33 - length p)) 0%N) (repeat 0%N (33 - length p))) as Hin.
    { apply nth_In. rewrite repeat_length. lia. }
    apply repeat_spec in Hin. rewrite Hin in Hd. discriminate Hd.
Qed.

(* only the first 32 bytes of the password matter *)
Lemma pw_buffer_first32 pw : pw_buffer (firstn 32 pw) = pw_buffer pw.
Proof. unfold pw_buffer. rewrite firstn_firstn, Nat.min_id. reflexivity. Qed.

Lemma pw_buffer_ext p q : firstn 32 p = firstn 32 q -> pw_buffer p = pw_buffer q.
Proof. intros H. unfold pw_buffer. rewrite H. reflexivity. Qed.

(* padding the buffer gives the same 32 bytes as padding the password *)
Lemma pad32_firstn32 pw : pad32 (firstn 32 pw) = pad32 pw.
Proof.
  unfold pad32. destruct (Nat.le_gt_cases (length pw) 32) as [H|H].
  - rewrite firstn_all2 by exact H. reflexivity.
  - rewrite (padn_long 32 pw) by lia.
    rewrite padn_long by (rewrite firstn_length; lia).
    rewrite firstn_firstn, Nat.min_id. reflexivity.
Qed.

Lemma pw_buffer_pad32 pw : pad32 (pw_buffer pw) = pad32 pw.
Proof. unfold pw_buffer, pad32. rewrite padn_app_zeros. apply pad32_firstn32. Qed.

(* hence the login over the buffer is the login of the password *)
Lemma login_over_buffer pw s : login_calculate (pw_buffer pw) s = login_calculate pw s.
Proof. unfold login_calculate. rewrite (login_block_pad _ _ s (pw_buffer_pad32 pw)). reflexivity. Qed.

Lemma clamp_maxlen_range m : (10 <= clamp_maxlen m <= 255)%Z.
Proof. unfold clamp_maxlen. destruct (255 <? m)%Z eqn:A; [lia|]. destruct (m <? 10)%Z eqn:B; lia. Qed.

Lemma clamp_maxlen_id m : (10 <= m <= 255)%Z -> clamp_maxlen m = m.
Proof. intros H. unfold clamp_maxlen. destruct (255 <? m)%Z eqn:A; [lia|]. destruct (m <? 10)%Z eqn:B; [lia|reflexivity]. Qed.

Lemma startup_maxlen_range ms : (10 <= startup_maxlen ms <= 255)%Z.
Proof.
  unfold startup_maxlen. induction ms as [|m ms IH]; cbn [map last]; [lia|].
  destruct (map clamp_maxlen ms) eqn:E; [apply clamp_maxlen_range|exact IH].
Qed.

Lemma startup_maxlen_last ms m : startup_maxlen (ms ++ [m]) = clamp_maxlen m.
Proof. unfold startup_maxlen. rewrite map_app. cbn [map]. apply last_last. Qed.

Lemma startup_password_length ps env inp : length (startup_password ps env inp) = 33%nat.
Proof.
  unfold startup_password. destruct (match last_opt ps with Some p => firstn 32 p | None => [] end);
    [destruct env|]; apply pw_buffer_length.
Qed.

(* with a non-empty -P nothing but (the first 32 bytes of) the last -P matters *)
Lemma startup_password_P ps p env inp : p <> [] -> startup_password (ps ++ [p]) env inp = pw_buffer p.
Proof.
  intros Hp. unfold startup_password, last_opt. rewrite map_app. cbn [map]. rewrite last_last.
  destruct (firstn 32 p) as [|c r] eqn:E.
  - destruct p; [contradiction|discriminate E].
  - rewrite <- E. apply pw_buffer_first32.
Qed.

Lemma until_nl_no_nl inp : ~ In 10%N (until_nl inp).
Proof.
  induction inp as [|c r IH]; cbn [until_nl]; [intros []|].
  destruct (N.eqb_spec c 10) as [->|Hc]; [intros []|]. intros [H|H]; [congruence|exact (IH H)].
Qed.

Lemma until_nl_app a b : ~ In 10%N a -> until_nl (a ++ 10%N :: b) = a.
Proof.
  induction a as [|c r IH]; intros H; cbn [until_nl app].
  - reflexivity.
  - destruct (N.eqb_spec c 10) as [->|Hc]; [exfalso; apply H; left; reflexivity|].
    f_equal. apply IH. intros Hin. apply H. right. exact Hin.
Qed.

Lemma until_nl_nonl a : ~ In 10%N a -> until_nl a = a.
Proof.
  induction a as [|c r IH]; intros H; cbn [until_nl]; [reflexivity|].
  destruct (N.eqb_spec c 10) as [->|Hc]; [exfalso; apply H; left; reflexivity|].
  f_equal. apply IH. intros Hin. apply H. right. exact Hin.
Qed.

(* ---- -L / -I / -m / -r ---------------------------------------------------------------------------------- *)

Definition cs_inv (s : csettings) : Prop := (s_lazy s = 0 \/ s_lazy s = 1)%Z /\ (1 <= s_timeout s)%Z.

Lemma cstep_inv s o : cs_inv s -> cs_inv (cstep s o).
Proof.
  intros [Hl Ht]. destruct o as [n|n|n|]; unfold cs_inv, cstep; cbn [s_lazy s_timeout].
  - destruct (1 <? n)%Z eqn:A.
    { split; [right; reflexivity|cbn; exact Ht]. }
    destruct (n <? 0)%Z eqn:B.
    { split; [left; reflexivity|cbn; lia]. }
    assert (n = 0 \/ n = 1)%Z as [-> | ->] by lia; cbn; (split; [lia|try lia; try exact Ht]).
  - split; [exact Hl|]. destruct (n <? 1)%Z eqn:A; lia.
  - split; assumption.
  - split; assumption.
Qed.

Lemma csettings_inv opts : cs_inv (csettings_of opts).
Proof.
  unfold csettings_of. assert (H0 : cs_inv cs0) by (unfold cs_inv, cs0; cbn; lia).
  revert H0. generalize cs0. induction opts as [|o r IH]; intros s Hs; cbn [fold_left]; [exact Hs|].
  apply IH. apply cstep_inv. exact Hs.
Qed.

(* immediate mode asked for last: the select time-out is 1 second whatever -I said before *)
Lemma lazy_off_last opts n : (n <= 0)%Z -> s_lazy (csettings_of (opts ++ [OL n])) = 0%Z /\ s_timeout (csettings_of (opts ++ [OL n])) = 1%Z.
Proof.
  intros Hn. unfold csettings_of. rewrite fold_left_app. cbn [fold_left cstep s_lazy s_timeout].
  destruct (1 <? n)%Z eqn:A; [lia|]. destruct (n <? 0)%Z eqn:B; cbn; [split; reflexivity|].
  assert (n = 0)%Z as -> by lia. split; reflexivity.
Qed.

(* -m fixes the fragment size and switches the probing off; -r switches raw mode off; nothing else touches them *)
Lemma m_last opts n : s_autofrag (csettings_of (opts ++ [Om n])) = false /\ s_fragsize (csettings_of (opts ++ [Om n])) = n.
Proof. unfold csettings_of. rewrite fold_left_app. split; reflexivity. Qed.

Lemma no_m_no_r opts : (forall o, In o opts -> match o with Om _ | Or => False | _ => True end) ->
  s_autofrag (csettings_of opts) = true /\ s_fragsize (csettings_of opts) = 3072%Z /\ s_raw (csettings_of opts) = true.
Proof.
  unfold csettings_of.
  assert (H0 : s_autofrag cs0 = true /\ s_fragsize cs0 = 3072%Z /\ s_raw cs0 = true) by (repeat split).
  revert H0. generalize cs0. induction opts as [|o r IH]; intros s Hs H; cbn [fold_left]; [exact Hs|].
  apply IH.
  - specialize (H o (or_introl eq_refl)). destruct o; cbn; try contradiction; exact Hs.
  - intros o' Ho'. apply H. right. exact Ho'.
Qed.
